(** Stack/IdBound.v - proofs about Stack/IdBoundModel.v (the definitions live there). *)
From Coq Require Import NArith List Bool Lia.
From TV Require Import Stack.Model Stack.Spec Stack.Bits.
From TV Require Export Stack.IdBoundModel.
From TVGen Require Import Gen_stack.
Import ListNotations.
Local Open Scope N_scope.

(** * The bound as the source has it *)
Lemma bound_le_64 : gen_filter_id_bound <= 64.
Proof. vm_compute. discriminate. Qed.

Lemma checked_every_profile : forall p, bound_checked p = true.
Proof. destruct p; reflexivity. Qed.

(** * Checked registration *)
Lemma register_checked_nth : forall n next masks i a,
  register_from true next n = Some masks -> nth_error masks i = Some a ->
  a = fid_new (next + N.of_nat i) /\ next + N.of_nat i < gen_filter_id_bound.
Proof.
  induction n as [|n IH]; intros next masks i a H Hn; cbn [register_from] in H.
  - inversion H; subst. destruct i; discriminate.
  - unfold fid_new_with in H. destruct (N.ltb_spec next gen_filter_id_bound) as [Hlt|Hge]; [|discriminate].
    destruct (register_from true (next + 1) n) as [r|] eqn:E; [|discriminate].
    inversion H; subst; clear H. destruct i as [|i]; cbn [nth_error] in Hn.
    + inversion Hn; subst. rewrite N.add_0_r. auto.
    + destruct (IH _ _ _ _ E Hn) as [Ha Hb]. replace (next + N.of_nat (S i)) with (next + 1 + N.of_nat i) by lia. auto.
Qed.

Lemma register_checked_length : forall n next masks,
  register_from true next n = Some masks -> length masks = n.
Proof.
  induction n as [|n IH]; intros next masks H; cbn [register_from] in H.
  - inversion H; reflexivity.
  - destruct (fid_new_with true next); [|discriminate].
    destruct (register_from true (next + 1) n) as [r|] eqn:E; [|discriminate].
    inversion H; subst. cbn. f_equal. eauto.
Qed.

Lemma fid_new_disjoint : forall x y, x <> y -> N.land (fid_new x) (fid_new y) = 0.
Proof.
  intros x y Hne. apply N.bits_inj. intro j. rewrite N.land_spec, N.bits_0.
  fold (bit (fid_new x) j). fold (bit (fid_new y) j). rewrite !bit_fid_new.
  destruct (N.eqb_spec x j); destruct (N.eqb_spec y j); subst; try reflexivity. contradiction.
Qed.

Lemma fid_new_fits : forall k, k < 64 -> fid_new k <= MAX64.
Proof.
  intros k H. rewrite fid_new_pow, MAX64_eq.
  assert (2 ^ k < 2 ^ 64) by (apply N.pow_lt_mono_r; lia). lia.
Qed.

Lemma nth_error_map_seq : forall (f : nat -> N) n i, (i < n)%nat -> nth_error (map f (seq 0 n)) i = Some (f i).
Proof.
  intros f n i H. rewrite nth_error_map, nth_error_nth' with (d := O) by (rewrite seq_length; exact H).
  rewrite seq_nth by exact H. reflexivity.
Qed.

Lemma list_eq_nth : forall (a b : list N), length a = length b ->
  (forall i x, nth_error a i = Some x -> nth_error b i = Some x) -> a = b.
Proof.
  induction a as [|x a IH]; intros [|y b] HL H; try discriminate; [reflexivity|].
  pose proof (H O x eq_refl) as H0. cbn in H0. inversion H0; subst. f_equal.
  apply IH; [cbn in HL; lia|]. intros i z Hz. exact (H (S i) z Hz).
Qed.

(** an accepted stack: at most 64 filters, masks = the model's ids in registration order *)
Lemma accepted_ids : forall p n masks, register_n p n = Some masks ->
  (N.of_nat n <= 64) /\ masks = map (fun i => fid_new (N.of_nat i)) (seq 0 n).
Proof.
  intros p n masks H. unfold register_n in H. rewrite checked_every_profile in H.
  pose proof (register_checked_length _ _ _ H) as HL. split.
  - destruct n as [|n]; [lia|].
    destruct (nth_error masks n) as [a|] eqn:E.
    + destruct (register_checked_nth _ _ _ _ _ H E) as [_ Hb]. pose proof bound_le_64. lia.
    + apply nth_error_None in E. lia.
  - apply list_eq_nth; [rewrite map_length, seq_length; exact HL|].
    intros i x Hx. destruct (register_checked_nth _ _ _ _ _ H Hx) as [Ha _]. subst x.
    assert (i < n)%nat by (rewrite <- HL; apply nth_error_Some; congruence).
    rewrite nth_error_map_seq by assumption. reflexivity.
Qed.

(** ** any two distinct filters of an accepted stack have disjoint one-bit masks that fit in a u64 *)
Lemma accepted_disjoint : forall p n masks i j a b,
  register_n p n = Some masks -> nth_error masks i = Some a -> nth_error masks j = Some b -> i <> j ->
  N.land a b = 0 /\ a <= MAX64 /\ b <= MAX64 /\ a = fid_new (N.of_nat i) /\ b = fid_new (N.of_nat j).
Proof.
  intros p n masks i j a b H Ha Hb Hne. unfold register_n in H. rewrite checked_every_profile in H.
  destruct (register_checked_nth _ _ _ _ _ H Ha) as [Ea La].
  destruct (register_checked_nth _ _ _ _ _ H Hb) as [Eb Lb].
  rewrite N.add_0_l in *. subst a b. pose proof bound_le_64.
  repeat split; try (apply fid_new_fits; lia).
  apply fid_new_disjoint. lia.
Qed.

(** more than 64 attempted filters: refused in every profile *)
Lemma over_64_refused : forall p n, (64 < n)%nat -> register_n p n = None.
Proof.
  intros p n Hn. destruct (register_n p n) as [masks|] eqn:E; [|reflexivity].
  destruct (accepted_ids _ _ _ E) as [Hle _]. lia.
Qed.

(** non-vacuity: 64 filters are accepted in both profiles, 65 in neither *)
Example accepts_64 : exists ma mb, register_n Debug 64 = Some ma /\ register_n Release 64 = Some mb /\ length mb = 64%nat.
Proof. eexists. eexists. split; [|split]; [vm_compute; reflexivity .. | reflexivity]. Qed.
Example refuses_65 : register_n Debug 65 = None /\ register_n Release 65 = None.
Proof. split; vm_compute; reflexivity. Qed.

(** * Without the refusal: the wrapping shift makes filter #64 share filter #0's bit (and #65 filter #1's ..) *)
Lemma wrapping_aliases :
  fid_new_with false 0 = Some 1 /\ fid_new_with false 64 = Some 1 /\
  (exists masks, register_from false 0 65 = Some masks /\ nth_error masks 0 = Some 1 /\ nth_error masks 64 = Some 1) /\
  (forall id, fid_new_with false (id + 64) = fid_new_with false id \/ gen_filter_id_bound <= id).
Proof.
  split; [vm_compute; reflexivity|]. split; [vm_compute; reflexivity|]. split.
  - eexists. split; [vm_compute; reflexivity|]. split; reflexivity.
  - intro id. destruct (N.ltb_spec id gen_filter_id_bound) as [H|H]; [left|right; exact H].
    pose proof bound_le_64. unfold fid_new_with.
    destruct (N.ltb_spec (id + 64) gen_filter_id_bound); [lia|].
    destruct (N.ltb_spec id gen_filter_id_bound); [|lia].
    f_equal. f_equal. rewrite N.add_mod by lia. rewrite N.mod_same by lia. rewrite N.add_0_r, N.mod_mod by lia.
    apply N.mod_small. lia.
Qed.

(** ... and then the two layers read each other's decision: what filter #64 stores is what filter #0 reads *)
Lemma wrapping_shares_decision : forall m0 m64 bits en,
  fid_new_with false 0 = Some m0 -> fid_new_with false 64 = Some m64 ->
  fm_enabled (fm_set bits m64 en) m0 = en.
Proof.
  intros m0 m64 bits en H0 H64. destruct wrapping_aliases as [E0 [E64 _]].
  rewrite E0 in H0. rewrite E64 in H64. inversion H0; inversion H64; subst.
  change 1 with (fid_new 0). rewrite fm_enabled_bit, bit_set by lia. rewrite N.eqb_refl. apply negb_involutive.
Qed.
