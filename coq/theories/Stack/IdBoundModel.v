(** Stack/IdBoundModel.v - definitions only (no proofs), so that the model still evaluates for the correspondence when a
    proof obligation of Stack/IdBound.v breaks on a changed tree. *)
(** C07 — `FilterId::new` and `Registry::register_filter` for ANY number of attempted per-layer filters.

    `FilterId::new(id: u8)` is `<guard>(id < 64, ..); Self(1 << id as usize)`.  The kind of guard is read off the source on
    every run (translators/stack_flags.py -> Gen_stack): `assert!` refuses (panics) in every profile, `debug_assert!` only
    where debug assertions are compiled in.  Where nothing refuses, `1 << id` on a u64 without overflow checks masks the
    shift amount: the mask is [2 ^ (id mod 64)].  `register_filter` hands out ids 0, 1, 2, .. in on_subscribe order; a
    refusal (panic) while the stack is built means there is no stack.

    What is proved: in every build profile a stack that is ACCEPTED has at most [64] per-layer filters, their masks
    are the model's [fid_new 0 .. fid_new (n-1)] (Stack/Model.v: what [build] assigns), each fits in a u64, and any two
    distinct ones are disjoint - so the bitmap isolation theorems speak about every accepted stack however many layers
    were attempted.  With the wrapping shift (no refusal) ids 0 and 64 share one mask ([wrapping_aliases]). *)
From Coq Require Import NArith List Bool.
From TV Require Import Stack.Model Stack.Spec Stack.Bits.
From TVGen Require Import Gen_stack.
Import ListNotations.
Local Open Scope N_scope.

Inductive profile := Debug | Release.

(** is the bound `id < gen_filter_id_bound` enforced (by a panic) in this profile?  read off the source *)
Definition bound_checked (p : profile) : bool :=
  match p with
  | Debug => gen_filter_id_bound_checked_in_debug
  | Release => gen_filter_id_bound_checked_in_release
  end.

(** `FilterId::new`: [None] = refused (panic); unchecked, the u64 shift wraps *)
Definition fid_new_with (checked : bool) (id : N) : option N :=
  if id <? gen_filter_id_bound then Some (fid_new id)
  else if checked then None
  else Some (fid_new (id mod 64)).

(** `Registry::register_filter`, [n] times starting at `next_filter_id = next`; [None] = the stack is refused *)
Fixpoint register_from (checked : bool) (next : N) (n : nat) : option (list N) :=
  match n with
  | O => Some []
  | S n' =>
      match fid_new_with checked next with
      | None => None
      | Some m =>
          match register_from checked (next + 1) n' with
          | None => None
          | Some r => Some (m :: r)
          end
      end
  end.

Definition register_n (p : profile) (n : nat) : option (list N) := register_from (bound_checked p) 0 n.

