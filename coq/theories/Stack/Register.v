(** C07 — the interest a whole stack registers for a callsite ([Layered::register_callsite] as a collector,
    [pick_interest], the Registry taking the pending per-layer interest) is sound:
    `never` only if no leaf would ever receive the callsite, `always` only if every global filter and every
    per-layer filter accepts it whatever the context.  This is what lets the macro guard skip [enabled]
    for cached-`always` callsites and drop cached-`never` ones without changing any layer's view. *)
From Coq Require Import NArith List Bool Lia.
From TV Require Import Stack.Model Stack.Spec Stack.Bits Stack.Passes Stack.Interest.
Import ListNotations.
Local Open Scope N_scope.
Local Arguments N.add : simpl never.

Definition coll_adds (c : coll) (m : meta) : list interest := flat_map (fun l => adds l m) (layers c).

(** * The pending interest is consumed *)
Lemma c_register_pending_psf : forall c m p, snd (c_register true c m p) = None.
Proof.
  induction c as [|l c IH]; intros m p; simpl; auto.
  destruct (l_register _ l m p) as [oi p1]. unfold pick_interest.
  destruct (psf l); [apply IH|]. destruct (is_never oi); auto.
  pose proof (IH m p1) as E. destruct (c_register true c m p1) as [i p2]. simpl in E. subst p2.
  destruct (is_sometimes oi); auto. destruct (is_never i && _); auto.
Qed.

Lemma nfilt_fold0 : forall ls, fold_right (fun x a => nfilt x + a) 0 ls = 0 -> forall x, In x ls -> nfilt x = 0.
Proof.
  induction ls as [|y ys IH]; simpl; intros H x Hx; [destruct Hx|].
  apply N.eq_add_0 in H. destruct H. destruct Hx; subst; auto.
Qed.

Lemma l_register_pending_none : forall l ov m, nfilt l = 0 -> snd (l_register ov l m None) = None.
Proof.
  induction l using layer_ind'; intros ov m Hn; simpl in *; auto.
  - lia.
  - apply N.eq_add_0 in Hn. destruct Hn as [H1 H2].
    pose proof (IHl1 ov m H1) as E1. destruct (l_register ov l1 m None) as [oi p1]. simpl in E1. subst p1.
    pose proof (IHl2 ov m H2) as E2. unfold pick_interest.
    destruct (psf l1); auto. destruct (is_never oi); auto.
    destruct (l_register ov l2 m None) as [ii p2]. simpl in E2. subst p2.
    destruct (is_sometimes oi); auto. destruct (is_never ii && _); auto.
  - assert (G : forall an aa, snd (reg_fold (fun x p => l_register ov x m p) ls an aa None) = None).
    { induction ls as [|x xs IH]; intros an aa; simpl; auto. inversion H; subst.
      simpl in Hn. apply N.eq_add_0 in Hn. destruct Hn as [H1 H2'].
      pose proof (H2 ov m H1) as E. destruct (l_register ov x m None) as [ni p1]. simpl in E. subst p1. apply IH; auto. }
    apply G.
Qed.

Lemma c_register_pending_nopsf : forall c m, coll_nfilt c = 0 -> snd (c_register false c m None) = None.
Proof.
  induction c as [|l c IH]; intros m Hn; simpl in *; auto.
  apply N.eq_add_0 in Hn. destruct Hn as [H1 H2].
  pose proof (l_register_pending_none l (is_registry c && Gen_stack.pair_sees_registry) m H1) as E1.
  destruct (l_register _ l m None) as [oi p1]. simpl in E1. subst p1. unfold pick_interest.
  pose proof (IH m H2) as E2.
  destruct (psf l); auto. destruct (is_never oi); auto.
  destruct (c_register false c m None) as [i p2]. simpl in E2. subst p2.
  destruct (is_sometimes oi); auto. destruct (is_never i && _); auto.
Qed.

Lemma c_register_pending : forall c m, snd (c_register (haspsf c) c m None) = None.
Proof.
  intros. unfold haspsf. destruct (N.eqb_spec (coll_nfilt c) 0); simpl.
  - apply c_register_pending_nopsf. auto.
  - apply c_register_pending_psf.
Qed.

(** * `never` *)
Lemma gnever_app : forall m a b, gnever m (a ++ b) = gnever m a || gnever m b.
Proof. intros. unfold gnever. apply existsb_app. Qed.
Lemma gnotalways_app : forall m a b, gnotalways m (a ++ b) = gnotalways m a || gnotalways m b.
Proof. intros. unfold gnotalways. apply existsb_app. Qed.
Lemma gnotalways_gnever : forall m gs, gnotalways m gs = false -> gnever m gs = false.
Proof.
  induction gs as [|g gs IH]; simpl; intros H; auto. apply orb_false_iff in H. destruct H as [H1 H2].
  rewrite IH by auto. destruct (f_interest g m); simpl in *; auto; discriminate.
Qed.

Lemma c_never : forall hp c m p, coll_shape c -> gnever m (coll_globs c) = false ->
  fst (c_register hp c m p) = INever ->
  hp = true /\ forallb psf (layers c) = true /\ psum p (coll_adds c m) = Some INever.
Proof.
  intros hp. induction c as [|l c IH]; intros m p Hs Hg Hr.
  - simpl in *. destruct hp; simpl in Hr; [|discriminate]. destruct p as [i|]; simpl in Hr; [|discriminate]. subst. auto.
  - unfold coll_shape in Hs. simpl in Hs. inversion Hs as [|? ? Hsl Hsc]; subst.
    unfold coll_globs in Hg. simpl in Hg. fold (coll_globs c) in Hg. rewrite gnever_app in Hg. apply orb_false_iff in Hg. destruct Hg as [Hgl Hgc].
    simpl in Hr.
    destruct (l_register_ok l (is_registry c && Gen_stack.pair_sees_registry) m p Hsl Hgl) as [Nl El].
    destruct (l_register _ l m p) as [oi p1]. simpl in Nl, El. subst p1.
    unfold coll_adds. simpl. fold (coll_adds c m). rewrite psum_app.
    unfold pick_interest in Hr. destruct (psf l) eqn:Ep.
    + destruct (IH m _ Hsc Hgc Hr) as (A & B & C). auto.
    + exfalso. destruct (is_never oi) eqn:En. { destruct oi; simpl in En; congruence. }
      destruct (c_register hp c m (psum p (adds l m))) as [i p2] eqn:Ec.
      destruct (is_sometimes oi) eqn:Es. { simpl in Hr. congruence. }
      destruct (is_never i) eqn:Eni; simpl in Hr.
      * assert (Hi : fst (c_register hp c m (psum p (adds l m))) = INever) by (rewrite Ec; destruct i; simpl in *; congruence).
        destruct (IH m _ Hsc Hgc Hi) as (_ & B & _).
        destruct c as [|l2 c2]; simpl in *. { discriminate. }
        apply andb_true_iff in B. destruct B as [B _]. rewrite B in Hr. simpl in Hr. discriminate.
      * subst i. discriminate.
Qed.

(** * `always` *)
Lemma c_always : forall hp c m p, coll_shape c -> fst (c_register hp c m p) = IAlways ->
  gnotalways m (coll_globs c) = false /\
  (hp = true -> psum p (coll_adds c m) = None \/ psum p (coll_adds c m) = Some IAlways).
Proof.
  intros hp. induction c as [|l c IH]; intros m p Hs Hr.
  - simpl in *. split; auto. intros ->. simpl in Hr. destruct p as [i|]; simpl in Hr; subst; auto.
  - unfold coll_shape in Hs. simpl in Hs. inversion Hs as [|? ? Hsl Hsc]; subst.
    unfold coll_globs. simpl. fold (coll_globs c). rewrite gnotalways_app.
    unfold coll_adds. simpl. fold (coll_adds c m). rewrite psum_app.
    simpl in Hr.
    destruct (gnotalways m (globs l)) eqn:Hna.
    + exfalso. pose proof (l_register_notalways l (is_registry c && Gen_stack.pair_sees_registry) m p Hsl Hna) as Nl.
      destruct (psf l) eqn:Ep. { rewrite (psf_globs _ Hsl Ep) in Hna. discriminate. }
      destruct (l_register _ l m p) as [oi p1]. simpl in Nl. unfold pick_interest in Hr.
      destruct oi; simpl in Hr; try congruence.
      destruct (c_register hp c m p1) as [i p2]. simpl in Hr. discriminate.
    + destruct (l_register_ok l (is_registry c && Gen_stack.pair_sees_registry) m p Hsl (gnotalways_gnever _ _ Hna)) as [Nl El].
      destruct (l_register _ l m p) as [oi p1]. simpl in Nl, El. subst p1. simpl.
      unfold pick_interest in Hr. destruct (psf l) eqn:Ep.
      * apply IH; auto.
      * destruct (is_never oi) eqn:En. { destruct oi; simpl in En; congruence. }
        destruct (c_register hp c m (psum p (adds l m))) as [i p2] eqn:Ec.
        destruct (is_sometimes oi) eqn:Es. { simpl in Hr. subst oi. discriminate. }
        destruct (is_never i && _) eqn:Eni; simpl in Hr; [discriminate|]. subst i.
        apply IH; auto. rewrite Ec. reflexivity.
Qed.

(** * Soundness of the registered interest *)
Lemma nfilt0_adds : forall l m, nfilt l = 0 -> adds l m = [].
Proof.
  induction l using layer_ind'; intros m Hn; simpl in *; auto.
  - lia.
  - apply N.eq_add_0 in Hn. destruct Hn. rewrite IHl1, IHl2; auto.
  - induction ls as [|x xs IH]; simpl in *; auto. inversion H; subst.
    apply N.eq_add_0 in Hn. destruct Hn. rewrite H2, IH; auto.
Qed.
Lemma coll_nfilt0 : forall c, coll_nfilt c = 0 -> forall l, In l (layers c) -> nfilt l = 0.
Proof.
  induction c as [|l0 c IH]; simpl; intros H l Hl; [destruct Hl|].
  apply N.eq_add_0 in H. destruct H. destruct Hl; subst; auto.
Qed.

Lemma in_coll_recs : forall c r, In r (coll_recs c) <-> exists l, In l (layers c) /\ In r (recs l).
Proof. intros. unfold coll_recs. apply in_flat_map. Qed.
Lemma in_coll_adds : forall c m i, In i (coll_adds c m) <-> exists l, In l (layers c) /\ In i (adds l m).
Proof. intros. unfold coll_adds. apply in_flat_map. Qed.

Theorem register_never_sound : forall c m, coll_shape c -> F12Free c m ->
  fst (c_register (haspsf c) c m None) = INever ->
  forall st r, In r (coll_recs c) -> globals_accept c st m && chain_accept st 0 (snd r) m = false.
Proof.
  intros c m Hs [HFg HFr] Hr st r Hin.
  destruct (gnever m (coll_globs c)) eqn:Hg.
  - unfold gnever in Hg. apply existsb_exists in Hg. destruct Hg as [g [Hgin Hgn]].
    assert (E : f_interest g m = INever) by (destruct (f_interest g m); simpl in Hgn; congruence).
    assert (Hga : globals_accept c st m = false).
    { unfold globals_accept. destruct (forallb _ _) eqn:F; auto. rewrite forallb_forall in F.
      pose proof (F g Hgin) as Hx. rewrite (proj2 (f_interest_sound g m (HFg g Hgin)) E) in Hx. discriminate. }
    rewrite Hga. reflexivity.
  - destruct (c_never _ _ _ _ Hs Hg Hr) as (_ & Hpsf & Hsum).
    destruct (psum_never _ _ Hsum) as [_ Hall].
    pose proof (HFr r) as HFr0. pose proof Hin as Hin0.
    apply in_coll_recs in Hin. destruct Hin as [l [Hl Hrl]].
    rewrite forallb_forall in Hpsf. pose proof (Hpsf l Hl) as Hp.
    destruct r as [[n v] ch].
    destruct (psf_adds_never l m Hp) with (n := n) (v := v) (ch := ch) as (k & f & ch' & E & Hf); auto.
    { intros i Hi. apply Hall. apply in_coll_adds. eauto. }
    subst ch. simpl snd. rewrite (chain_head_never k f ch' m st 0 (HFr0 (k, f) Hin0 (or_introl eq_refl)) Hf). apply andb_false_r.
Qed.

Theorem register_always_sound : forall c m, coll_shape c -> F12Free c m ->
  fst (c_register (haspsf c) c m None) = IAlways ->
  forall st, globals_accept c st m = true /\ forall r, In r (coll_recs c) -> chain_accept st 0 (snd r) m = true.
Proof.
  intros c m Hs [HFg HFr] Hr st.
  destruct (c_always _ _ _ _ Hs Hr) as [Hna Hsum]. split.
  - unfold globals_accept. apply forallb_forall. intros g Hg.
    apply (proj1 (f_interest_sound g m (HFg g Hg))).
    unfold gnotalways in Hna. destruct (f_interest g m) eqn:E; auto; exfalso;
      assert (X : existsb (fun g => negb (is_always (f_interest g m))) (coll_globs c) = true)
        by (apply existsb_exists; exists g; rewrite E; auto); congruence.
  - assert (Hall : forall i, In i (coll_adds c m) -> i = IAlways).
    { unfold haspsf in Hsum. destruct (N.eqb_spec (coll_nfilt c) 0) as [E0|E0]; simpl in Hsum.
      - intros i Hi. apply in_coll_adds in Hi. destruct Hi as [l [Hl Hi]].
        rewrite (nfilt0_adds l m (coll_nfilt0 c E0 l Hl)) in Hi. destruct Hi.
      - destruct (Hsum eq_refl) as [E|E].
        + apply psum_none in E. destruct E as [_ E]. rewrite E. intros i [].
        + apply psum_always in E. destruct E as [_ E]. exact E. }
    intros r Hin. pose proof (HFr r) as HFr0. pose proof Hin as Hin0.
    apply in_coll_recs in Hin. destruct Hin as [l [Hl Hrl]]. destruct r as [[n v] ch].
    apply chain_all_always; [intros e He; apply (HFr0 e Hin0 He)|]. eapply adds_all_always; eauto.
    intros i Hi. apply Hall. apply in_coll_adds. eauto.
Qed.
