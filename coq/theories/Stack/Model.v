(** C07 — executable model of the *dynamic* per-layer-filter mechanism of tracing-subscriber:
    [Filtered], [FilterId], [FilterMap], the thread-local [FilterState] (bitmap + pending interest),
    both [Layered] impls, the [Registry] (filter map stored per span, span stack, reference counts),
    [Context] lookups filtered by [FilterId], and on top of it the macro guard with the per-callsite
    interest cache.  No proofs here (the file must still evaluate when a proof breaks).

    Anchors: tracing-subscriber/src/filter/subscriber_filters/{mod,combinator}.rs, subscribe/layered.rs,
    subscribe/mod.rs (Option / Vec / Box impls), subscribe/context.rs, registry/{mod,sharded,stack}.rs,
    tracing/src/macros.rs (event! / span! / enabled!), tracing/src/lib.rs (MacroCallsite),
    tracing-core/src/{callsite,dispatch}.rs.

    Abstractions (see notes/C07.md): the global max-level ([LevelFilter::current()]) is a parameter [mx]
    of a run (static summaries are C08); [Targets] is a table target-id -> level (directive matching is
    C11); user closures are Gallina functions; metadata is (callsite id, level, target id, kind). *)
From Coq Require Import NArith List Bool.
From TVGen Require Import Gen_stack.
Import ListNotations.
Local Open Scope N_scope.

(** * Metadata, interest *)
Inductive kind := KEvent | KSpan | KHint.
Record meta := Meta { m_cs : N; m_level : N (* ERROR=1 .. TRACE=5 *); m_target : N; m_kind : kind }.
Inductive interest := INever | ISometimes | IAlways.

Definition is_never (i : interest) := match i with INever => true | _ => false end.
Definition is_always (i : interest) := match i with IAlways => true | _ => false end.
Definition is_sometimes (i : interest) := match i with ISometimes => true | _ => false end.

(** * Filters (the [Filter] trait objects a [Filtered] may carry)
    A context-dependent filter is given the metadata of the entered spans *its own Context shows it* (innermost
    first): [FDyn p] is a [DynFilterFn] (its closure looks at [cx.lookup_current()], the head of that list);
    [FEnv st dflt dy] is an [EnvFilter] with static directives `target=level` ([st], default [dflt]) and span
    directives `target[s]=level` ([dy]).  The EnvFilter is stateful in the code — [callsite_enabled] registers the
    span callsites a span directive matches ([by_cs]), [on_new_span] / [on_enter] / [on_exit], which [Filtered]
    forwards for the spans this filter's layer accepted, maintain the per-thread scope of directive levels — and
    that state is, as long as every operand of a combinator is told about every callsite (Gen_stack:
    [or_asks_both], [and_skips_only_after_never]; property C07 needs exactly that) and spans exit in LIFO order, a
    function of the entered spans the layer accepted: that function is what the model uses.
    [FAll] is [Option::<F>::None]. *)
Inductive filt :=
| FLevel (l : N)
| FTargets (tbl : list (N * N)) (dflt : option N)
| FFn (p : meta -> bool)
| FDyn (p : meta -> list meta -> bool)
| FEnv (st : list (N * N)) (dflt : option N) (dy : list (N * N))
| FAll
| FAnd (a b : filt)
| FOr (a b : filt)
| FNot (a : filt).

Fixpoint assoc {A} (k : N) (l : list (N * A)) : option A :=
  match l with [] => None | (k', v) :: r => if k =? k' then Some v else assoc k r end.

Definition is_span (m : meta) : bool := match m_kind m with KSpan => true | _ => false end.
Definition dyn_max (dy : list (N * N)) : N := fold_right (fun e a => N.max (snd e) a) 0 dy.      (* dynamics.max_level *)
Definition dyn_matches (dy : list (N * N)) (m : meta) : bool := existsb (fun e => fst e =? m_target m) dy.
Definition env_static (st : list (N * N)) (dflt : option N) (m : meta) : bool :=
  match assoc (m_target m) st with
  | Some l => m_level m <=? l
  | None => match dflt with Some l => m_level m <=? l | None => false end
  end.

(** EnvFilter::enabled: the span directives first (only if one of them can enable this level at all): a span whose
    callsite they match, or anything up to the level of a directive whose span is entered; then the static ones *)
Definition env_enabled (st : list (N * N)) (dflt : option N) (dy : list (N * N)) (m : meta) (cur : list meta) : bool :=
  ((m_level m <=? dyn_max dy) &&
   ((is_span m && dyn_matches dy m) ||
    existsb (fun s => existsb (fun e => (fst e =? m_target s) && (m_level m <=? snd e)) dy) cur)) ||
  env_static st dflt m.

Fixpoint f_enabled (f : filt) (m : meta) (cur : list meta) : bool :=
  match f with
  | FLevel l => m_level m <=? l
  | FTargets tbl d =>
      match assoc (m_target m) tbl with
      | Some l => m_level m <=? l
      | None => match d with Some l => m_level m <=? l | None => false end
      end
  | FFn p => p m
  | FDyn p => p m cur
  | FEnv st d dy => env_enabled st d dy m cur
  | FAll => true
  | FAnd a b => f_enabled a m cur && f_enabled b m cur
  | FOr a b => f_enabled a m cur || f_enabled b m cur
  | FNot a => negb (f_enabled a m cur)
  end.

(** [Filter::callsite_enabled] — LevelFilter / Targets / FilterFn answer always|never from [enabled];
    DynFilterFn (no hint, no callsite filter) answers sometimes; combinators as in combinator.rs. *)
Fixpoint f_interest (f : filt) (m : meta) : interest :=
  match f with
  | FLevel _ | FTargets _ _ | FFn _ => if f_enabled f m [] then IAlways else INever
  | FDyn _ => ISometimes
  | FEnv st d dy =>           (* EnvFilter::register_callsite; base_interest = sometimes iff there are span directives *)
      if (is_span m && dyn_matches dy m) || env_static st d m then IAlways
      else match dy with [] => INever | _ => ISometimes end
  | FAll => IAlways
  | FAnd a b =>
      let ia := f_interest a m in
      if is_never ia then ia else
      let ib := f_interest b m in
      if negb (is_always ib) then ib else ia
  | FOr a b =>
      let ia := f_interest a m in let ib := f_interest b m in
      if is_always ia || is_always ib then IAlways
      else if is_sometimes ia || is_sometimes ib then ISometimes else INever
  | FNot a => match f_interest a m with IAlways => INever | INever => IAlways | ISometimes => ISometimes end
  end.

(** * FilterId / FilterMap (u64 bit sets as N) *)
Definition MAX64 : N := 18446744073709551615.
Definition fid_new (k : N) : N := N.shiftl 1 k.                       (* FilterId::new: 1 << id *)
Definition fid_and (a b : N) : N := if a =? MAX64 then b else N.lor a b.   (* FilterId::and *)
Definition fm_set (bits mask : N) (en : bool) : N :=                  (* FilterMap::set *)
  if mask =? MAX64 then bits else if en then N.ldiff bits mask else N.lor bits mask.
Definition fm_enabled (bits mask : N) : bool := N.land bits mask =? 0.  (* FilterMap::is_enabled *)
(* FilterMap::any_enabled: `self.bits != u64::MAX` in the snapshot (finding F71), the literal `true` after its repair;
   which one is read off the source on every run (Gen_stack.registry_vetoes_full) *)
Definition fm_any_enabled (bits : N) : bool := negb (registry_vetoes_full && (bits =? MAX64)).

(** * Layers and collectors
    [Rec n veto]: a recording leaf; [veto m = true] makes its [event_enabled] answer false (a plain
    layer vetoing events).  [Glob g]: a filter type used directly as a layer (LevelFilter, Targets,
    FilterFn): global filtering.  [Filt k l f]: [Filtered] with the FilterId index [k] it received in
    [on_subscribe].  [Pair outer inner]: [Layered] used as a [Subscribe] ([inner.and_then(outer)]).
    Box<dyn Subscribe> forwards everything and is not represented. *)
Inductive layer :=
| Rec (name : N) (veto : meta -> bool)
| Glob (g : filt)
| Filt (k : N) (l : layer) (f : filt)
| Pair (outer inner : layer)
| LOpt (o : option layer)
| LVec (ls : list layer).

Inductive coll := Registry | With (l : layer) (c : coll).

(** ** build: FilterIds in [on_subscribe] order ([with_collector] subscribes the new layer on the
    already-built inner collector, so inner [With]s come first; [Layered] subscribes outer then inner;
    [Filtered] takes its own id before its wrapped layer's). *)
Definition assign_list (f : layer -> N -> layer * N) : list layer -> N -> list layer * N :=
  fix go ls n :=
    match ls with
    | [] => ([], n)
    | x :: xs => let '(x2, n1) := f x n in let '(xs2, n2) := go xs n1 in (x2 :: xs2, n2)
    end.
Fixpoint assign (l : layer) (n : N) : layer * N :=
  match l with
  | Rec _ _ | Glob _ => (l, n)
  | Filt _ l' f => let '(l2, n2) := assign l' (n + 1) in (Filt n l2 f, n2)
  | Pair o i => let '(o2, n1) := assign o n in let '(i2, n2) := assign i n1 in (Pair o2 i2, n2)
  | LOpt None => (l, n)
  | LOpt (Some l') => let '(l2, n2) := assign l' n in (LOpt (Some l2), n2)
  | LVec ls => let '(ls2, n2) := assign_list assign ls n in (LVec ls2, n2)
  end.
Fixpoint assign_coll (c : coll) : coll * N :=
  match c with
  | Registry => (Registry, 0)
  | With l c' => let '(c2, n) := assign_coll c' in let '(l2, n2) := assign l n in (With l2 c2, n2)
  end.
Definition build (c : coll) : coll := fst (assign_coll c).

(** ** the magic downcast marker: "this layer consists only of per-subscriber-filtered layers" *)
Fixpoint psf (l : layer) : bool :=
  match l with
  | Rec _ _ | Glob _ => false
  | Filt _ _ _ => true
  | Pair o i => psf o && psf i
  | LOpt None => false
  | LOpt (Some l') => psf l'
  | LVec ls => negb (match ls with [] => true | _ => false end) && forallb psf ls
  end.
Fixpoint coll_psf (c : coll) : bool :=      (* collector_has_psf: Layered::downcast_raw = outer.or_else(inner) *)
  match c with Registry => false | With l c' => psf l || coll_psf c' end.
Definition is_registry (c : coll) : bool := match c with Registry => true | _ => false end.

Fixpoint nfilt (l : layer) : N :=
  match l with
  | Rec _ _ | Glob _ => 0
  | Filt _ l' _ => 1 + nfilt l'
  | Pair o i => nfilt o + nfilt i
  | LOpt None => 0
  | LOpt (Some l') => nfilt l'
  | LVec ls => fold_right (fun x a => nfilt x + a) 0 ls
  end.
Fixpoint coll_nfilt (c : coll) : N := match c with Registry => 0 | With l c' => nfilt l + coll_nfilt c' end.

(** * State *)
Record sdata := SData { sd_meta : meta; sd_parent : option N; sd_fmap : N; sd_refs : N }.
Record state := State {
  st_bits : N;                          (* FILTERING.enabled of this thread *)
  st_pending : option interest;         (* FILTERING.interest *)
  st_spans : list (N * sdata);          (* the registry's pool; ids are fresh, never reused in the model *)
  st_stack : list (N * bool);           (* SpanStack of this thread, top first: (id, duplicate) *)
  st_cache : list (N * interest);       (* per-callsite cached interest *)
  st_next : N;                          (* next span id *)
  st_handles : list (option N)          (* handle number -> span id (None: disabled span), newest first *)
}.
Definition init : state := State 0 None [] [] [] 1 [].

Definition with_bits (st : state) (b : N) : state :=
  State b (st_pending st) (st_spans st) (st_stack st) (st_cache st) (st_next st) (st_handles st).
Definition with_pending (st : state) (p : option interest) : state :=
  State (st_bits st) p (st_spans st) (st_stack st) (st_cache st) (st_next st) (st_handles st).
Definition with_spans (st : state) (s : list (N * sdata)) : state :=
  State (st_bits st) (st_pending st) s (st_stack st) (st_cache st) (st_next st) (st_handles st).
Definition with_stack (st : state) (s : list (N * bool)) : state :=
  State (st_bits st) (st_pending st) (st_spans st) s (st_cache st) (st_next st) (st_handles st).

(** ** what the outside sees *)
Inductive what := WEvent (cs : N) | WNew (id : N) | WEnter (id : N) | WExit (id : N) | WClose (id : N) | WRecord (id : N).
Inductive pcall :=          (* calls arriving at the outermost Collect (the harness wraps the stack in a spy) *)
| PRegister (cs : N) (i : interest)
| PEnabled (cs : N) (r : bool)
| PEventEnabled (cs : N) (r : bool)
| PEvent (cs : N)
| PNewSpan (cs : N) (id : N)
| PClose (id : N).                  (* try_close on the outermost collector answered true *)
(** what a leaf reads by navigating on from the span its callback is about (or the event's span):
    [nv_each]: for every span the scope yields, its .parent() and its .scope();
    [nv_chain]: .parent() applied repeatedly up to the root;  [nv_pscope]: .parent().map(|p| p.scope()) ([] if none);
    [nv_root]: scope().from_root() *)
Record navs := Navs { nv_each : list (option N * list N); nv_chain : list N; nv_pscope : list N; nv_root : list N }.
Inductive obs :=
| ODeliver (layer : N) (w : what) (cur : option N) (scope : list N) (parent : option N) (nav : navs)
| OFEval (k : N) (r : bool)                 (* Filtered #k evaluated its filter's `enabled` *)
| OCall (p : pcall)
| OResult (r : bool).                       (* value of an enabled! probe *)

(** * Span lookups through a Context carrying a FilterId mask *)
Definition sp_get (st : state) (id : N) : option sdata := assoc id (st_spans st).
Definition visible (st : state) (mask : N) (id : N) : bool :=        (* Context::span(id).is_some() *)
  match sp_get st id with Some d => fm_enabled (sd_fmap d) mask | None => false end.
Definition stack_iter (st : state) : list N :=                        (* SpanStack::iter: top first, no duplicates *)
  map fst (filter (fun e => negb (snd e)) (st_stack st)).
Definition current (st : state) : option N :=                         (* Registry::current_span *)
  match stack_iter st with
  | [] => None
  | id :: _ => match sp_get st id with Some _ => Some id | None => None end
  end.
Definition lookup_current (st : state) (mask : N) : option N :=       (* Context::lookup_current (+ _filtered) *)
  match current st with
  | None => None
  | Some id => if visible st mask id then Some id else find (visible st mask) (stack_iter st)
  end.
(** what a context-dependent filter sees through its own Context: the metadata of the entered spans its FilterIds
    did not disable, innermost first (the head is [cx.lookup_current()]) *)
Definition cur_cs (st : state) (mask : N) : list meta :=
  match current st with
  | None => []
  | Some _ =>
      flat_map (fun id => match sp_get st id with
                          | Some d => if fm_enabled (sd_fmap d) mask then [sd_meta d] else []
                          | None => [] end) (stack_iter st)
  end.
Fixpoint scope_from (fuel : nat) (st : state) (mask : N) (next : option N) : list N :=   (* Scope::next *)
  match fuel with
  | O => []
  | S k =>
      match next with
      | None => []
      | Some id =>
          match sp_get st id with
          | None => []
          | Some d =>
              if fm_enabled (sd_fmap d) mask then id :: scope_from k st mask (sd_parent d)
              else scope_from k st mask (sd_parent d)
          end
      end
  end.
Fixpoint parent_from (fuel : nat) (st : state) (mask : N) (next : option N) : option N :=  (* SpanRef::parent *)
  match fuel with
  | O => None
  | S k =>
      match next with
      | None => None
      | Some id =>
          match sp_get st id with
          | None => None
          | Some d => if fm_enabled (sd_fmap d) mask then Some id else parent_from k st mask (sd_parent d)
          end
      end
  end.
Definition fuel_of (st : state) : nat := S (length (st_spans st)).
Definition span_ref (st : state) (mask : N) (w : what) : option N :=
  match w with
  | WEvent _ => lookup_current st mask                    (* Context::event_span, contextual parent *)
  | WNew id | WEnter id | WExit id | WClose id | WRecord id => if visible st mask id then Some id else None
  end.
Definition span_parent (st : state) (mask : N) (r : option N) : option N :=
  match r with
  | None => None
  | Some id => match sp_get st id with Some d => parent_from (fuel_of st) st mask (sd_parent d) | None => None end
  end.
(** A [SpanRef] is a span id together with the FilterId of the Context it came from; [SpanRef::parent] skips the
    ancestors that filter disabled and hands the *same* filter on to the SpanRef it returns
    ([Self { registry, filter: self.filter, data }]), so that climbing further stays inside the layer's own view. *)
Definition spanref := (N * N)%type.
Definition sr_parent (st : state) (r : spanref) : option spanref :=
  match span_parent st (snd r) (Some (fst r)) with Some p => Some (p, snd r) | None => None end.
Definition sr_scope (st : state) (r : spanref) : list N := scope_from (fuel_of st) st (snd r) (Some (fst r)).
Fixpoint parent_chain (fuel : nat) (st : state) (r : spanref) : list N :=
  match fuel with
  | O => []
  | S k => match sr_parent st r with Some p => fst p :: parent_chain k st p | None => [] end
  end.
Definition ref_of (mask : N) (r : option N) : option spanref := match r with Some id => Some (id, mask) | None => None end.

(** what a recording leaf writes down inside a callback: ctx.lookup_current(), the scope of the event /
    of the span the callback is about, that span's parent(), and the navigation of [navs] *)
Definition record (name : N) (st : state) (mask : N) (w : what) : obs :=
  let r := span_ref st mask w in
  let sc := scope_from (fuel_of st) st mask r in
  ODeliver name w (lookup_current st mask) sc (span_parent st mask r)
           (Navs (map (fun id => (span_parent st mask (Some id), scope_from (fuel_of st) st mask (Some id))) sc)
                 (match ref_of mask r with Some x => parent_chain (fuel_of st) st x | None => [] end)
                 (match ref_of mask r with
                  | Some x => match sr_parent st x with Some p => sr_scope st p | None => [] end
                  | None => []
                  end)
                 (rev sc)).

(** * One pass over a layer tree.  [cm] is the FilterId of the Context handed down. *)
Definition seq_all {A} (f : A -> N -> bool * N * list obs) : list A -> N -> bool * N * list obs :=
  fix go ls bits :=
    match ls with
    | [] => (true, bits, [])
    | x :: xs =>
        let '(r, b, out) := f x bits in
        if r then let '(r2, b2, out2) := go xs b in (r2, b2, out ++ out2) else (false, b, out)
    end.
Definition seq_thread {A} (f : A -> N -> N * list obs) : list A -> N -> N * list obs :=
  fix go ls bits :=
    match ls with
    | [] => (bits, [])
    | x :: xs => let '(b, out) := f x bits in let '(b2, out2) := go xs b in (b2, out ++ out2)
    end.

(** Subscribe::enabled *)
Fixpoint l_enabled (l : layer) (m : meta) (st : state) (cm bits : N) {struct l} : bool * N * list obs :=
  match l with
  | Rec _ _ => (true, bits, [])
  | Glob g => (f_enabled g m (cur_cs st cm), bits, [])
  | Filt k l' f =>
      let cm' := fid_and cm (fid_new k) in
      let en := f_enabled f m (cur_cs st cm') in
      let bits' := fm_set bits (fid_new k) en in                       (* FilterState::set *)
      if en then let '(r, b, out) := l_enabled l' m st cm' bits' in (r, b, OFEval k en :: out)
      else (true, bits', [OFEval k en])
  | Pair o i =>
      let '(r, b, out) := l_enabled o m st cm bits in
      if r then let '(r2, b2, out2) := l_enabled i m st cm b in (r2, b2, out ++ out2) else (false, b, out)
  | LOpt None => (true, bits, [])
  | LOpt (Some l') => l_enabled l' m st cm bits
  | LVec ls => seq_all (fun x b => l_enabled x m st cm b) ls bits
  end.

(** Subscribe::event_enabled (every filter of the language keeps the default [Filter::event_enabled] = true) *)
Fixpoint l_event_enabled (l : layer) (m : meta) (cm bits : N) {struct l} : bool * N * list obs :=
  match l with
  | Rec _ veto => (negb (veto m), bits, [])
  | Glob _ => (true, bits, [])
  | Filt k l' f =>
      let cm' := fid_and cm (fid_new k) in
      let en := fm_enabled bits (fid_new k) && true in                 (* FilterState::and *)
      let bits' := fm_set bits (fid_new k) en in
      if en then l_event_enabled l' m cm' bits' else (true, bits', [])
  | Pair o i =>
      let '(r, b, out) := l_event_enabled o m cm bits in
      if r then let '(r2, b2, out2) := l_event_enabled i m cm b in (r2, b2, out ++ out2) else (false, b, out)
  | LOpt None => (true, bits, [])
  | LOpt (Some l') => l_event_enabled l' m cm bits
  | LVec ls => seq_all (fun x b => l_event_enabled x m cm b) ls bits
  end.

(** Subscribe::on_event / on_new_span: [Filtered] goes through FilterState::did_enable *)
Fixpoint l_deliver (l : layer) (w : what) (st : state) (cm bits : N) {struct l} : N * list obs :=
  match l with
  | Rec n _ => (bits, [record n st cm w])
  | Glob _ => (bits, [])
  | Filt k l' f =>
      if fm_enabled bits (fid_new k) then l_deliver l' w st (fid_and cm (fid_new k)) bits
      else (fm_set bits (fid_new k) true, [])
  | Pair o i =>
      let '(b, out) := l_deliver i w st cm bits in
      let '(b2, out2) := l_deliver o w st cm b in (b2, out ++ out2)
  | LOpt None => (bits, [])
  | LOpt (Some l') => l_deliver l' w st cm bits
  | LVec ls => seq_thread (fun x b => l_deliver x w st cm b) ls bits
  end.

(** Subscribe::on_enter / on_exit / on_close / on_record: [Filtered] asks Context::if_enabled_for *)
Fixpoint l_life (l : layer) (w : what) (id : N) (st : state) (cm : N) {struct l} : list obs :=
  match l with
  | Rec n _ => [record n st cm w]
  | Glob _ => []
  | Filt k l' f =>
      match (if visible st cm id then sp_get st id else None) with          (* self.span(id)? *)
      | Some d => if fm_enabled (sd_fmap d) (fid_new k) then l_life l' w id st (fid_and cm (fid_new k)) else []
      | None => []
      end
  | Pair o i => l_life i w id st cm ++ l_life o w id st cm
  | LOpt None => []
  | LOpt (Some l') => l_life l' w id st cm
  | LVec ls => flat_map (fun x => l_life x w id st cm) ls
  end.

(** ** register_callsite *)
Definition add_interest (p : option interest) (i : interest) : option interest :=
  match p with
  | None => Some i
  | Some c =>
      if (is_always c && negb (is_always i)) || (is_never c && negb (is_never i)) then Some ISometimes else Some c
  end.

Definition pick_interest (has_sf inner_has_sf : bool) (outer : interest)
           (inner : option interest -> interest * option interest) (p : option interest)
  : interest * option interest :=
  if has_sf then inner p
  else if is_never outer then (outer, None)                      (* FilterState::take_interest() *)
  else
    let '(i, p') := inner p in
    if is_sometimes outer then (outer, p')
    else if is_never i && inner_has_sf then (ISometimes, p')
    else (i, p').

(** Vec<S>::register_callsite: every element is asked; `never` if any element says never, `always` only if
    all do (so an empty Vec says `always`), `sometimes` otherwise — the way [enabled] combines with `all` *)
Definition vec_verdict (any_never all_always : bool) : interest :=
  if any_never then INever else if all_always then IAlways else ISometimes.
Definition reg_fold {A} (f : A -> option interest -> interest * option interest)
  : list A -> bool -> bool -> option interest -> interest * option interest :=
  fix go ls any_never all_always p :=
    match ls with
    | [] => (vec_verdict any_never all_always, p)
    | x :: xs => let '(ni, p1) := f x p in go xs (any_never || is_never ni) (all_always && is_always ni) p1
    end.

Fixpoint l_register (over_reg : bool) (l : layer) (m : meta) (p : option interest) {struct l}
  : interest * option interest :=
  match l with
  | Rec _ _ => (IAlways, p)                       (* default: enabled(meta, Context::none()) = true *)
  | Glob g => (f_interest g m, p)
  | Filt k l' f =>
      let i := f_interest f m in
      let p1 := if is_never i then p else snd (l_register over_reg l' m p) in
      (IAlways, add_interest p1 i)
  | Pair o i =>
      let '(oi, p1) := l_register over_reg o m p in
      pick_interest (psf o) (psf i || over_reg) oi (l_register over_reg i m) p1
  | LOpt None => (IAlways, p)
  | LOpt (Some l') => l_register over_reg l' m p
  | LVec ls => reg_fold (fun x p => l_register over_reg x m p) ls false true p
  end.

Section Collector.
  Variable haspsf : bool.       (* Registry::has_per_subscriber_filters: next_filter_id > 0 *)

  Fixpoint c_register (c : coll) (m : meta) (p : option interest) : interest * option interest :=
    match c with
    | Registry => if haspsf then (match p with Some i => i | None => IAlways end, None) else (IAlways, p)
    | With l c' =>
        let '(oi, p1) := l_register (is_registry c' && pair_sees_registry) l m p in
        pick_interest (psf l) (coll_psf c' || is_registry c') oi (c_register c' m) p1
    end.

  Definition reg_enabled (bits : N) : bool := if haspsf then fm_any_enabled bits else true.

  (** Collect::enabled for Layered: a `false` from the layer clears the bitmap *)
  Fixpoint c_enabled (c : coll) (m : meta) (st : state) (bits : N) : bool * N * list obs :=
    match c with
    | Registry => (reg_enabled bits, bits, [])
    | With l c' =>
        let '(r, b, out) := l_enabled l m st 0 bits in
        if r then let '(r2, b2, out2) := c_enabled c' m st b in (r2, b2, out ++ out2)
        else (false, 0, out)                                       (* FilterState::clear_enabled *)
    end.

  Fixpoint c_event_enabled (c : coll) (m : meta) (bits : N) : bool * N * list obs :=
    match c with
    | Registry => (reg_enabled bits, bits, [])
    | With l c' =>
        let '(r, b, out) := l_event_enabled l m 0 bits in
        if r then let '(r2, b2, out2) := c_event_enabled c' m b in (r2, b2, out ++ out2) else (false, b, out)
    end.
End Collector.

(** Collect::event / the layer part of Collect::new_span: inner first, then this level's layer *)
Fixpoint c_deliver (c : coll) (w : what) (st : state) (bits : N) : N * list obs :=
  match c with
  | Registry => (bits, [])
  | With l c' =>
      let '(b, out) := c_deliver c' w st bits in
      let '(b2, out2) := l_deliver l w st 0 b in (b2, out ++ out2)
  end.
Fixpoint c_life (c : coll) (w : what) (id : N) (st : state) : list obs :=
  match c with
  | Registry => []
  | With l c' => c_life c' w id st ++ l_life l w id st 0
  end.

(** * The registry proper *)
Fixpoint sp_update (id : N) (f : sdata -> sdata) (l : list (N * sdata)) : list (N * sdata) :=
  match l with
  | [] => []
  | (k, d) :: r => if id =? k then (k, f d) :: r else (k, d) :: sp_update id f r
  end.
Fixpoint sp_remove (id : N) (l : list (N * sdata)) : list (N * sdata) :=
  match l with [] => [] | (k, d) :: r => if id =? k then r else (k, d) :: sp_remove id r end.
Definition add_ref (st : state) (id : N) : state :=
  with_spans st (sp_update id (fun d => SData (sd_meta d) (sd_parent d) (sd_fmap d) (sd_refs d + 1)) (st_spans st)).
Definition set_refs (st : state) (id : N) (n : N) : state :=
  with_spans st (sp_update id (fun d => SData (sd_meta d) (sd_parent d) (sd_fmap d) n) (st_spans st)).

(** Registry::new_span: contextual parent (cloned), filter map := the thread's current bitmap *)
Definition reg_new_span (st : state) (m : meta) : state * N :=
  let parent := current st in
  let st1 := match parent with Some p => add_ref st p | None => st end in
  let id := st_next st1 in
  (State (st_bits st1) (st_pending st1) ((id, SData m parent (st_bits st1) 1) :: st_spans st1) (st_stack st1)
         (st_cache st1) (id + 1) (st_handles st1), id).

(** Collect::try_close on the whole stack: Registry drops a ref; at zero every level gets on_close
    (inner first), then the outermost CloseGuard removes the span and drops its ref on the parent
    (through the current default dispatcher = this stack). *)
Fixpoint try_close (fuel : nat) (c : coll) (st : state) (id : N) : state * list obs :=
  match fuel with
  | O => (st, [])
  | S k =>
      match sp_get st id with
      | None => (st, [])
      | Some d =>
          if sd_refs d <=? 1 then
            let st1 := set_refs st id 0 in
            let out := c_life c (WClose id) id st1 in
            let st2 := with_spans st1 (sp_remove id (st_spans st1)) in
            match sd_parent d with
            | None => (st2, out ++ [OCall (PClose id)])
            | Some p => let '(st3, out3) := try_close k c st2 p in (st3, out ++ out3 ++ [OCall (PClose id)])
            end
          else (set_refs st id (sd_refs d - 1), [])
      end
  end.

(** SpanStack::push / pop *)
Definition stack_push (st : state) (id : N) : state * bool :=
  let dup := existsb (fun e => fst e =? id) (st_stack st) in
  (with_stack st ((id, dup) :: st_stack st), negb dup).
Fixpoint stack_pop (id : N) (s : list (N * bool)) : option (list (N * bool) * bool) :=
  match s with
  | [] => None
  | (k, dup) :: r =>
      if k =? id then Some (r, negb dup)
      else match stack_pop id r with Some (r', b) => Some ((k, dup) :: r', b) | None => None end
  end.

(** * The macros *)
Inductive op :=
| OEvent (cs : N)            (* event!(target: .., LEVEL, ..) at pool callsite cs *)
| OSpan (cs : N)             (* span!(..) at pool callsite cs; the handle gets the next handle number *)
| OEnter (h : N) | OExit (h : N) | ORecord (h : N) | ODrop (h : N)
| OProbe (cs : N).           (* enabled!(target: .., LEVEL) at pool callsite cs *)

Section Run.
  Variable c : coll.
  Variable mx : N.                    (* LevelFilter::current() as a level number (OFF = 0 .. TRACE = 5) *)
  Variable pool : list meta.          (* callsite id -> metadata *)

  Definition haspsf : bool := negb (coll_nfilt c =? 0).
  Definition dummy_meta : meta := Meta 0 0 0 KEvent.
  Definition meta_of (cs : N) : meta := nth (N.to_nat cs) pool dummy_meta.

  (** MacroCallsite::interest: cached, or register (Dispatch::register_callsite on the one live dispatcher) *)
  Definition get_interest (st : state) (cs : N) : interest * state * list obs :=
    match assoc cs (st_cache st) with
    | Some i => (i, st, [])
    | None =>
        let '(i, p) := c_register haspsf c (meta_of cs) (st_pending st) in
        (i, State (st_bits st) p (st_spans st) (st_stack st) ((cs, i) :: st_cache st) (st_next st) (st_handles st),
         [OCall (PRegister cs i)])
    end.

  Definition handle (st : state) (h : N) : option N :=
    let n := N.of_nat (length (st_handles st)) in
    if h <? n then nth (N.to_nat (n - 1 - h)) (st_handles st) None else None.
  Definition set_handle_none (st : state) (h : N) : state :=
    let n := N.of_nat (length (st_handles st)) in
    let idx := N.to_nat (n - 1 - h) in
    State (st_bits st) (st_pending st) (st_spans st) (st_stack st) (st_cache st) (st_next st)
          (firstn idx (st_handles st) ++ None :: skipn (S idx) (st_handles st)).
  Definition push_handle (st : state) (o : option N) : state :=
    State (st_bits st) (st_pending st) (st_spans st) (st_stack st) (st_cache st) (st_next st) (o :: st_handles st).

  (** one Collect::enabled call on the outermost collector *)
  Definition do_enabled (st : state) (cs : N) : bool * state * list obs :=
    let '(r, b, out) := c_enabled haspsf c (meta_of cs) st (st_bits st) in
    (r, with_bits st b, out ++ [OCall (PEnabled cs r)]).

  (** [`bare`]: did this operation make an `enabled` call that answered true and was not followed by
      its own event / new_span?  (The protocol notion behind [Clean].) *)
  Definition step (st : state) (o : op) : state * list obs * bool :=
    match o with
    | OEvent cs =>
        let m := meta_of cs in
        if negb (m_level m <=? mx) then (st, [], false) else
        let '(i, st1, o1) := get_interest st cs in
        if is_never i then (st1, o1, false) else
        let '(en, st2, o2) := if is_always i then (true, st1, []) else do_enabled st1 cs in
        if negb en then (st2, o1 ++ o2, false) else
        (* Event::dispatch -> Dispatch::event *)
        let '(ee, b3, o3) := c_event_enabled haspsf c m (st_bits st2) in
        let st3 := with_bits st2 b3 in
        let o3' := o3 ++ [OCall (PEventEnabled cs ee)] in
        if negb ee then (st3, o1 ++ o2 ++ o3', negb (is_always i)) else
        let '(b4, o4) := c_deliver c (WEvent cs) st3 (st_bits st3) in
        (with_bits st3 b4, o1 ++ o2 ++ o3' ++ OCall (PEvent cs) :: o4, false)
    | OSpan cs =>
        let m := meta_of cs in
        if negb (m_level m <=? mx) then (push_handle st None, [], false) else
        let '(i, st1, o1) := get_interest st cs in
        if is_never i then (push_handle st1 None, o1, false) else
        let '(en, st2, o2) := if is_always i then (true, st1, []) else do_enabled st1 cs in
        if negb en then (push_handle st2 None, o1 ++ o2, false) else
        let '(st3, id) := reg_new_span st2 m in
        let '(b4, o4) := c_deliver c (WNew id) st3 (st_bits st3) in
        (push_handle (with_bits st3 b4) (Some id), o1 ++ o2 ++ o4 ++ [OCall (PNewSpan cs id)], false)
    | OEnter h =>
        match handle st h with
        | None => (st, [], false)
        | Some id =>
            let '(st1, fresh) := stack_push st id in
            let st2 := if fresh then add_ref st1 id else st1 in
            (st2, c_life c (WEnter id) id st2, false)
        end
    | OExit h =>
        match handle st h with
        | None => (st, [], false)
        | Some id =>
            match stack_pop id (st_stack st) with
            | None => (st, c_life c (WExit id) id st, false)
            | Some (s', fresh) =>
                let st1 := with_stack st s' in
                let '(st2, o2) := if fresh then try_close (fuel_of st1) c st1 id else (st1, []) in
                (st2, o2 ++ c_life c (WExit id) id st2, false)
            end
        end
    | ORecord h =>
        match handle st h with
        | None => (st, [], false)
        | Some id => (st, c_life c (WRecord id) id st, false)
        end
    | ODrop h =>
        match handle st h with
        | None => (st, [], false)
        | Some id =>
            let '(st1, o1) := try_close (fuel_of st) c st id in
            (set_handle_none st1 h, o1, false)
        end
    | OProbe cs =>
        let m := meta_of cs in
        if negb (m_level m <=? mx) then (st, [OResult false], false) else
        let '(i, st1, o1) := get_interest st cs in
        if is_never i then (st1, o1 ++ [OResult false], false) else
        (* __CALLSITE.is_enabled(interest) *)
        let '(en, st2, o2) := if is_always i then (true, st1, []) else do_enabled st1 cs in
        if negb en then (st2, o1 ++ o2 ++ [OResult false], false) else
        (* get_default(|current| current.enabled(meta)) *)
        let '(en3, st3, o3) := do_enabled st2 cs in
        (st3, o1 ++ o2 ++ o3 ++ [OResult en3], en3 || negb (is_always i))
    end.

  Fixpoint run (st : state) (h : list op) : state * list (list obs) * list bool :=
    match h with
    | [] => (st, [], [])
    | o :: r =>
        let '(st1, out, bare) := step st o in
        let '(st2, outs, bares) := run st1 r in
        (st2, out :: outs, bare :: bares)
    end.

  Definition run_obs (h : list op) : list (list obs) := snd (fst (run init h)).
  Definition run_bits (h : list op) : N := st_bits (fst (fst (run init h))).
  (** [Clean]: no operation leaves an `enabled` pass without its event / new_span *)
  Definition clean (h : list op) : bool := forallb negb (snd (run init h)).
End Run.
