(** C07 — one pass over a layer tree: what [enabled], [event_enabled], [on_event]/[on_new_span]
    (did_enable) and the span follow-ups do to the bitmap and to whom they deliver. *)
From Coq Require Import NArith List Bool Lia.
From TV Require Import Stack.Model Stack.Spec Stack.Bits.
Import ListNotations.
Local Open Scope N_scope.

Definition clear_on (b : N) (ks : list N) : Prop := forall k, In k ks -> bit b k = false.
Definition frame (ks : list N) (b b' : N) : Prop := forall k, ~ In k ks -> bit b' k = bit b k.
Definition chain_clear (b : N) (ch : list (N * filt)) : Prop := forall e, In e ch -> bit b (fst e) = false.
Definition small (ks : list N) : Prop := Forall (fun k => k < 63) ks.

(** a bitmap in which a set bit of a [Filtered] implies that everything below it is clear:
    the shape an [enabled] pass leaves, and the one [did_enable] needs to consume everything *)
Fixpoint shaped (l : layer) (b : N) : Prop :=
  match l with
  | Rec _ _ | Glob _ => True
  | Filt k l' _ => (bit b k = true -> clear_on b (ids l')) /\ shaped l' b
  | Pair o i => shaped o b /\ shaped i b
  | LOpt None => True
  | LOpt (Some l') => shaped l' b
  | LVec ls => fold_right (fun x a => shaped x b /\ a) True ls
  end.

(** * Small facts *)
Lemma small_app : forall a b, small (a ++ b) <-> small a /\ small b.
Proof. intros. unfold small. apply Forall_app. Qed.
Lemma NoDup_app_inv : forall (A : Type) (a b : list A), NoDup (a ++ b) ->
  NoDup a /\ NoDup b /\ (forall x, In x a -> In x b -> False).
Proof.
  induction a as [|x a IH]; intros b H; simpl in *.
  - repeat split; auto. constructor.
  - inversion H; subst. destruct (IH b H3) as (Ha & Hb & Hd). repeat split; auto.
    + constructor; auto. intro Hx. apply H2. apply in_or_app. auto.
    + intros y [Hy|Hy] Hyb; subst. * apply H2. apply in_or_app. auto. * eauto.
Qed.
Lemma frame_refl : forall ks b, frame ks b b.
Proof. intros ks b k _. reflexivity. Qed.
Lemma frame_trans : forall k1 k2 a b c, frame k1 a b -> frame k2 b c -> frame (k1 ++ k2) a c.
Proof.
  intros k1 k2 a b c H1 H2 k Hk. rewrite H2, H1; auto; intro; apply Hk; apply in_or_app; auto.
Qed.
Lemma frame_weaken : forall k1 k2 a b, frame k1 a b -> (forall k, In k k1 -> In k k2) -> frame k2 a b.
Proof. intros k1 k2 a b H Hs k Hk. apply H. intro. apply Hk. auto. Qed.
Lemma clear_on_app : forall b k1 k2, clear_on b (k1 ++ k2) <-> clear_on b k1 /\ clear_on b k2.
Proof.
  intros. unfold clear_on. split.
  - intro H. split; intros k Hk; apply H; apply in_or_app; auto.
  - intros [H1 H2] k Hk. apply in_app_or in Hk. destruct Hk; auto.
Qed.
Lemma clear_on_frame : forall ks js a b, clear_on a ks -> frame js a b -> (forall k, In k ks -> In k js -> False) -> clear_on b ks.
Proof. intros ks js a b Hc Hf Hd k Hk. rewrite Hf; auto. intro. eapply Hd; eauto. Qed.

Lemma chain_clear_cons : forall b k f ch, chain_clear b ((k, f) :: ch) <-> bit b k = false /\ chain_clear b ch.
Proof.
  intros. unfold chain_clear. split.
  - intro H. split. + apply (H (k, f)). left. reflexivity. + intros e He. apply H. right. exact He.
  - intros [H1 H2] e [He|He]. + subst e. exact H1. + auto.
Qed.
Lemma chain_clear_ext : forall a b ch, (forall e, In e ch -> bit a (fst e) = bit b (fst e)) -> (chain_clear a ch <-> chain_clear b ch).
Proof. intros a b ch H. unfold chain_clear. split; intros Hc e He; [rewrite <- H | rewrite H]; auto. Qed.

Lemma in_flat_map' : forall (A B : Type) (f : A -> list B) l y, In y (flat_map f l) <-> exists x, In x l /\ In y (f x).
Proof. intros. apply in_flat_map. Qed.

Lemma fold_and_in : forall (P : layer -> Prop) ls, fold_right (fun x a => P x /\ a) True ls -> forall x, In x ls -> P x.
Proof. induction ls; simpl; intros H x Hx. destruct Hx. destruct H. destruct Hx; subst; auto. Qed.
Lemma fold_and_intro : forall (P : layer -> Prop) ls, (forall x, In x ls -> P x) -> fold_right (fun x a => P x /\ a) True ls.
Proof. induction ls; simpl; intros H; auto. Qed.

(** the FilterIds on a leaf's chain belong to the tree *)
Lemma recs_ids : forall l n v ch, In (n, v, ch) (recs l) -> forall e, In e ch -> In (fst e) (ids l).
Proof.
  induction l using layer_ind'; simpl; intros n0 v0 ch Hin e He.
  - destruct Hin as [E|[]]. inversion E; subst. destruct He.
  - destruct Hin.
  - apply in_map_iff in Hin. destruct Hin as [[[n1 v1] ch1] [E Hin]]. simpl in E. inversion E; subst.
    destruct He as [He|He]. + subst e. left. reflexivity. + right. eapply IHl; eauto.
  - apply in_or_app. apply in_app_or in Hin. destruct Hin; [left|right]; eauto.
  - destruct Hin.
  - eauto.
  - apply in_flat_map in Hin. destruct Hin as [x [Hx Hin]]. apply in_flat_map. exists x. split; auto.
    rewrite Forall_forall in H. eapply H; eauto.
Qed.

Lemma plain_globs : forall l, plain l -> globs l = [].
Proof.
  induction l using layer_ind'; simpl; intros Hp; auto.
  - destruct Hp.
  - destruct Hp as [Ho Hi]. rewrite IHl1, IHl2; auto.
  - induction ls as [|x xs IH]; simpl in *; auto. inversion H; subst. destruct Hp as [Hx Hxs].
    rewrite H2 by auto. simpl. apply IH; auto.
Qed.
Lemma plain_veto : forall l, plain l -> forall r, In r (recs l) -> forall m, snd (fst r) m = false.
Proof.
  induction l using layer_ind'; simpl; intros Hp r Hr m.
  - destruct Hr as [E|[]]. subst r. simpl. apply Hp.
  - destruct Hp.
  - apply in_map_iff in Hr. destruct Hr as [r0 [E Hr]]. subst r. simpl. eapply IHl; eauto.
  - destruct Hp. apply in_app_or in Hr. destruct Hr; eauto.
  - destruct Hr.
  - eauto.
  - apply in_flat_map in Hr. destruct Hr as [x [Hx Hr]]. rewrite Forall_forall in H.
    eapply H; eauto. eapply (fold_and_in plain); eauto.
Qed.
Lemma plain_shape : forall l, plain l -> shape l.
Proof.
  induction l using layer_ind'; simpl; intros Hp; auto.
  - destruct Hp. auto.
  - apply (fold_and_intro shape). intros x Hx. rewrite Forall_forall in H.
    apply H; auto. eapply (fold_and_in plain); eauto.
Qed.

Lemma shaped_ext : forall l a b, (forall k, In k (ids l) -> bit a k = bit b k) -> shaped l a -> shaped l b.
Proof.
  induction l using layer_ind'; simpl; intros a b He Hs; auto.
  - destruct Hs as [H1 H2]. split.
    + intros Hb k0 Hk0. rewrite <- He by auto. apply H1; auto. rewrite He by auto. exact Hb.
    + eapply IHl; eauto.
  - destruct Hs. split; [eapply IHl1 | eapply IHl2]; try eassumption; intros; apply He; apply in_or_app; auto.
  - eapply IHl; eauto.
  - induction ls as [|x xs IH]; simpl in *; auto. inversion H; subst. destruct Hs as [Hx Hxs]. split.
    + eapply H2; [|eassumption]. intros. apply He. apply in_or_app. auto.
    + apply IH; auto. intros. apply He. apply in_or_app. auto.
Qed.
Lemma clear_shaped : forall l b, clear_on b (ids l) -> shaped l b.
Proof.
  induction l using layer_ind'; simpl; intros b Hc; auto.
  - split.
    + intros Hb. rewrite (Hc k) in Hb by (left; reflexivity). discriminate.
    + apply IHl. intros j Hj. apply Hc. right. exact Hj.
  - apply clear_on_app in Hc. destruct Hc. auto.
  - induction ls as [|x xs IH]; simpl in *; auto. inversion H; subst. apply clear_on_app in Hc. destruct Hc. auto.
Qed.

Lemma fid_and_lor : forall cm k, bit cm 63 = false -> fid_and cm (fid_new k) = N.lor cm (fid_new k).
Proof.
  intros cm k H. unfold fid_and. destruct (N.eqb_spec cm MAX64); auto. subst cm. unfold bit in H. vm_compute in H. discriminate.
Qed.
Lemma bit63_lor : forall cm k, bit cm 63 = false -> k < 63 -> bit (N.lor cm (fid_new k)) 63 = false.
Proof.
  intros. rewrite bit_lor, H, bit_fid_new. simpl. apply N.eqb_neq. lia.
Qed.

(** * Sequential composition: [Pair] (either order) and the head/tail of a [Vec] *)
Record Splits (L A B : layer) : Prop := {
  sp_ids : forall k, In k (ids L) <-> In k (ids A) \/ In k (ids B);
  sp_nodup : NoDup (ids L) -> NoDup (ids A) /\ NoDup (ids B) /\ (forall k, In k (ids A) -> In k (ids B) -> False);
  sp_recs : forall r, In r (recs L) <-> In r (recs A) \/ In r (recs B);
  sp_recs_all : forall p, forallb p (recs L) = forallb p (recs A) && forallb p (recs B);
  sp_globs_all : forall p, forallb p (globs L) = forallb p (globs A) && forallb p (globs B);
  sp_shaped : forall b, shaped L b <-> shaped A b /\ shaped B b;
  sp_shape : shape L -> shape A /\ shape B
}.
Lemma splits_pair : forall o i, Splits (Pair o i) o i.
Proof.
  intros. constructor; simpl; intros.
  - apply in_app_iff.
  - apply NoDup_app_inv. exact H.
  - apply in_app_iff.
  - apply forallb_app.
  - apply forallb_app.
  - tauto.
  - exact H.
Qed.
Lemma splits_pair_rev : forall o i, Splits (Pair o i) i o.
Proof.
  intros. constructor; simpl; intros.
  - rewrite in_app_iff. tauto.
  - apply NoDup_app_inv in H. destruct H as (Ho & Hi & Hd). repeat split; auto. intros. eapply Hd; eauto.
  - rewrite in_app_iff. tauto.
  - rewrite forallb_app. apply andb_comm.
  - rewrite forallb_app. apply andb_comm.
  - tauto.
  - tauto.
Qed.
Lemma splits_vec : forall x xs, Splits (LVec (x :: xs)) x (LVec xs).
Proof.
  intros. constructor; simpl; intros.
  - apply in_app_iff.
  - apply NoDup_app_inv. exact H.
  - apply in_app_iff.
  - apply forallb_app.
  - apply forallb_app.
  - tauto.
  - tauto.
Qed.
Lemma splits_small : forall L A B, Splits L A B -> small (ids L) -> small (ids A) /\ small (ids B).
Proof.
  intros L A B S H. unfold small in *. rewrite Forall_forall in H. split; apply Forall_forall; intros k Hk; apply H; apply (sp_ids _ _ _ S); auto.
Qed.
Lemma splits_clear : forall L A B b, Splits L A B -> clear_on b (ids L) -> clear_on b (ids A) /\ clear_on b (ids B).
Proof. intros L A B b S H. split; intros k Hk; apply H; apply (sp_ids _ _ _ S); auto. Qed.
Lemma splits_frame : forall L A B a b c, Splits L A B -> frame (ids A) a b -> frame (ids B) b c -> frame (ids L) a c.
Proof.
  intros L A B a b c S H1 H2 k Hk. rewrite H2, H1; auto; intro Hin; apply Hk; apply (sp_ids _ _ _ S); auto.
Qed.

(** * The [enabled] pass *)
Definition rec_fact (l : layer) (st : state) (cm : N) (m : meta) (b : N) : Prop :=
  forall n v ch, In (n, v, ch) (recs l) -> (chain_clear b ch <-> chain_accept st cm ch m = true).

Definition EnSpec (l : layer) : Prop := forall m st cm b r b' out,
  NoDup (ids l) -> small (ids l) -> bit cm 63 = false -> shape l -> clear_on b (ids l) ->
  l_enabled l m st cm b = (r, b', out) ->
  frame (ids l) b b' /\
  r = forallb (fun g => f_enabled g m (cur_cs st cm)) (globs l) /\
  (r = true -> shaped l b' /\ rec_fact l st cm m b').

Lemma rec_fact_ext : forall l st cm m a b, (forall k, In k (ids l) -> bit a k = bit b k) -> rec_fact l st cm m a -> rec_fact l st cm m b.
Proof.
  intros l st cm m a b He H n v ch Hin. rewrite <- (H n v ch Hin). symmetry. apply chain_clear_ext.
  intros e Hein. apply He. eapply recs_ids; eauto.
Qed.

Lemma EnSpec_seq : forall L A B, Splits L A B -> EnSpec A -> EnSpec B ->
  (forall m st cm b, l_enabled L m st cm b =
     let '(r, b1, out) := l_enabled A m st cm b in
     if r then let '(r2, b2, out2) := l_enabled B m st cm b1 in (r2, b2, out ++ out2) else (false, b1, out)) ->
  EnSpec L.
Proof.
  intros L A B S HA HB Hun m st cm b r b' out Hnd Hsm Hcm Hsh Hcl Hrun.
  rewrite Hun in Hrun.
  destruct (sp_nodup _ _ _ S Hnd) as (HndA & HndB & Hdisj).
  destruct (splits_small _ _ _ S Hsm) as (HsmA & HsmB).
  destruct (sp_shape _ _ _ S Hsh) as (HshA & HshB).
  destruct (splits_clear _ _ _ _ S Hcl) as (HclA & HclB).
  destruct (l_enabled A m st cm b) as [[rA bA] oA] eqn:EA.
  destruct (HA m st cm b rA bA oA HndA HsmA Hcm HshA HclA EA) as (HfA & HrA & HtA).
  destruct rA.
  - destruct (l_enabled B m st cm bA) as [[rB bB] oB] eqn:EB. inversion Hrun; subst; clear Hrun.
    assert (HclB' : clear_on bA (ids B)) by (eapply clear_on_frame; eauto; intros; eapply Hdisj; eauto).
    destruct (HB m st cm bA r b' oB HndB HsmB Hcm HshB HclB' EB) as (HfB & HrB & HtB).
    split; [eapply splits_frame; eauto|]. split.
    + rewrite (sp_globs_all _ _ _ S), <- HrA, <- HrB. reflexivity.
    + intro Hr. destruct (HtA eq_refl) as (HsA & HfaA). destruct (HtB Hr) as (HsB & HfaB).
      assert (Hsame : forall k, In k (ids A) -> bit bA k = bit b' k).
      { intros k Hk. symmetry. apply HfB. intro. eapply Hdisj; eauto. }
      split.
      * apply (sp_shaped _ _ _ S). split; auto. eapply shaped_ext; eauto.
      * intros n v ch Hin. apply (sp_recs _ _ _ S) in Hin. destruct Hin as [Hin|Hin].
        -- eapply (rec_fact_ext A); eauto.
        -- apply (HfaB n v ch); auto.
  - inversion Hrun; subst; clear Hrun. split.
    + intros k Hk. apply HfA. intro. apply Hk. apply (sp_ids _ _ _ S). auto.
    + split. * rewrite (sp_globs_all _ _ _ S), <- HrA. reflexivity. * discriminate.
Qed.

Lemma l_enabled_spec : forall l, EnSpec l.
Proof.
  induction l using layer_ind'.
  - (* Rec *) intros m st cm b r b' out _ _ _ _ _ H. simpl in H. inversion H; subst. split; [apply frame_refl|]. split; auto.
    intros _. split; simpl; auto. intros n0 v0 ch [E|[]]. inversion E; subst. simpl. unfold chain_clear. split; auto. intros _ e [].
  - (* Glob *) intros m st cm b r b' out _ _ _ _ _ H. simpl in H. inversion H; subst. split; [apply frame_refl|]. split.
    + simpl. rewrite andb_true_r. reflexivity.
    + intros _. split; simpl; auto. intros n v ch [].
  - (* Filt *) intros m st cm b r b' out Hnd Hsm Hcm Hsh Hcl H. simpl in *.
    inversion Hnd as [|? ? Hnotin Hnd']; subst. inversion Hsm as [|? ? Hk Hsm']; subst. destruct Hsh as [Hpl Hsh].
    rewrite fid_and_lor in H by auto.
    set (cm' := N.lor cm (fid_new k)) in *.
    assert (Hcm' : bit cm' 63 = false) by (apply bit63_lor; auto).
    rewrite (plain_globs _ Hpl). simpl.
    destruct (f_enabled f m (cur_cs st cm')) eqn:En.
    + destruct (l_enabled l m st cm' (fm_set b (fid_new k) true)) as [[r1 b1] o1] eqn:E1. inversion H; subst; clear H.
      assert (Hcl1 : clear_on (fm_set b (fid_new k) true) (ids l)).
      { intros j Hj. rewrite bit_set by auto. destruct (N.eqb_spec k j); [subst; contradiction|]. apply Hcl. right. auto. }
      destruct (IHl m st cm' _ r b' o1 Hnd' Hsm' Hcm' Hsh Hcl1 E1) as (Hf1 & Hr1 & Ht1).
      rewrite (plain_globs _ Hpl) in Hr1. simpl in Hr1. subst r.
      assert (Hbk : bit b' k = false).
      { rewrite Hf1 by auto. rewrite bit_set by auto. rewrite N.eqb_refl. reflexivity. }
      split.
      * intros j Hj. rewrite Hf1 by (intro; apply Hj; right; auto). rewrite bit_set by auto.
        destruct (N.eqb_spec k j); auto. subst. exfalso. apply Hj. left. reflexivity.
      * split; auto. intros _. destruct (Ht1 eq_refl) as (Hs1 & Hfa1). split.
        -- split; auto. rewrite Hbk. discriminate.
        -- intros n v ch Hin. apply in_map_iff in Hin. destruct Hin as [[[n1 v1] ch1] [E Hin]]. simpl in E. inversion E; subst.
           rewrite chain_clear_cons. simpl. fold cm'. rewrite En. simpl. rewrite <- (Hfa1 n v ch1 Hin). tauto.
    + inversion H; subst; clear H.
      assert (Hbk : bit (fm_set b (fid_new k) false) k = true) by (rewrite bit_set by auto; rewrite N.eqb_refl; reflexivity).
      split.
      * intros j Hj. rewrite bit_set by auto. destruct (N.eqb_spec k j); auto. subst. exfalso. apply Hj. left. reflexivity.
      * split; auto. intros _.
        assert (Hcl1 : clear_on (fm_set b (fid_new k) false) (ids l)).
        { intros j Hj. rewrite bit_set by auto. destruct (N.eqb_spec k j); [subst; contradiction|]. apply Hcl. right. auto. }
        split.
        -- split; auto using clear_shaped.
        -- intros n v ch Hin. apply in_map_iff in Hin. destruct Hin as [[[n1 v1] ch1] [E Hin]]. simpl in E. inversion E; subst.
           rewrite chain_clear_cons. simpl. fold cm'. rewrite En. simpl. rewrite Hbk. split; [intros [? _]; discriminate | discriminate].
  - (* Pair *) eapply EnSpec_seq; eauto using splits_pair; reflexivity.
  - (* None *) intros m st cm b r b' out _ _ _ _ _ H. simpl in H. inversion H; subst. split; [apply frame_refl|]. split; auto.
    intros _. split; simpl; auto. intros n v ch [].
  - (* Some *) intros m st cm b r b' out. simpl. apply IHl.
  - (* Vec *) induction ls as [|x xs IH].
    + intros m st cm b r b' out _ _ _ _ _ H0. simpl in H0. inversion H0; subst. split; [apply frame_refl|]. split; auto.
      intros _. split; simpl; auto. intros n v ch [].
    + inversion H; subst. eapply EnSpec_seq; eauto using splits_vec; reflexivity.
Qed.

(** * The [event_enabled] pass: with the default [Filter::event_enabled] it leaves the bitmap alone and
      answers "no recording leaf vetoes" *)
Lemma fm_set_same : forall b k, k < 63 -> fm_set b (fid_new k) (fm_enabled b (fid_new k) && true) = b.
Proof.
  intros. apply bits_eq. intro j. rewrite bit_set by auto. rewrite andb_true_r, fm_enabled_bit, negb_involutive.
  destruct (N.eqb_spec k j); subst; auto.
Qed.

Definition no_veto_l (m : meta) (l : layer) : bool := forallb (fun rc => negb (snd (fst rc) m)) (recs l).
Lemma plain_no_veto : forall l m, plain l -> no_veto_l m l = true.
Proof.
  intros l m Hp. unfold no_veto_l. apply forallb_forall. intros r Hr. rewrite (plain_veto l Hp r Hr m). reflexivity.
Qed.
Lemma no_veto_filt : forall k l f m, no_veto_l m (Filt k l f) = no_veto_l m l.
Proof.
  intros. unfold no_veto_l. simpl. induction (recs l) as [|r rs IH]; simpl; auto. rewrite IH. reflexivity.
Qed.

Definition EvSpec (l : layer) : Prop := forall m cm b r b' out,
  small (ids l) -> shape l -> l_event_enabled l m cm b = (r, b', out) -> b' = b /\ r = no_veto_l m l.

Lemma EvSpec_seq : forall L A B, Splits L A B -> EvSpec A -> EvSpec B ->
  (forall m cm b, l_event_enabled L m cm b =
     let '(r, b1, out) := l_event_enabled A m cm b in
     if r then let '(r2, b2, out2) := l_event_enabled B m cm b1 in (r2, b2, out ++ out2) else (false, b1, out)) ->
  EvSpec L.
Proof.
  intros L A B S HA HB Hun m cm b r b' out Hsm Hsh Hrun. rewrite Hun in Hrun.
  destruct (splits_small _ _ _ S Hsm) as (HsmA & HsmB). destruct (sp_shape _ _ _ S Hsh) as (HshA & HshB).
  destruct (l_event_enabled A m cm b) as [[rA bA] oA] eqn:EA. destruct (HA _ _ _ _ _ _ HsmA HshA EA) as (E1 & E2). subst bA.
  unfold no_veto_l. rewrite (sp_recs_all _ _ _ S). fold (no_veto_l m A). fold (no_veto_l m B). rewrite <- E2.
  destruct rA.
  - destruct (l_event_enabled B m cm b) as [[rB bB] oB] eqn:EB. destruct (HB _ _ _ _ _ _ HsmB HshB EB) as (E3 & E4).
    inversion Hrun; subst. auto.
  - inversion Hrun; subst. auto.
Qed.

Lemma l_event_enabled_spec : forall l, EvSpec l.
Proof.
  induction l using layer_ind'.
  - intros m cm b r b' out _ _ H. simpl in H. inversion H; subst. unfold no_veto_l. simpl. rewrite andb_true_r. auto.
  - intros m cm b r b' out _ _ H. simpl in H. inversion H; subst. auto.
  - intros m cm b r b' out Hsm Hsh H. simpl in H. inversion Hsm as [|? ? Hk Hsm']; subst. destruct Hsh as [Hpl Hsh].
    rewrite fm_set_same in H by auto. rewrite no_veto_filt, (plain_no_veto _ _ Hpl).
    destruct (fm_enabled b (fid_new k) && true).
    + destruct (IHl _ _ _ _ _ _ Hsm' Hsh H) as (E1 & E2). rewrite (plain_no_veto _ _ Hpl) in E2. auto.
    + inversion H; subst. auto.
  - eapply EvSpec_seq; eauto using splits_pair; reflexivity.
  - intros m cm b r b' out _ _ H. simpl in H. inversion H; subst. auto.
  - intros m cm b r b' out. simpl. apply IHl.
  - induction ls as [|x xs IH].
    + intros m cm b r b' out _ _ H0. simpl in H0. inversion H0; subst. auto.
    + inversion H; subst. eapply EvSpec_seq; eauto using splits_vec; reflexivity.
Qed.

(** * The delivery pass ([on_event] / [on_new_span] through [did_enable]) *)
Definition DelSpec (l : layer) : Prop := forall w st cm b b' out,
  NoDup (ids l) -> small (ids l) -> bit cm 63 = false ->
  l_deliver l w st cm b = (b', out) ->
  frame (ids l) b b' /\
  (forall o, In o out <-> exists n v ch, In (n, v, ch) (recs l) /\ chain_clear b ch /\ o = record n st (N.lor cm (mask_of ch)) w) /\
  (shaped l b -> clear_on b' (ids l)).

Lemma DelSpec_seq : forall L A B, Splits L A B -> DelSpec A -> DelSpec B ->
  (forall w st cm b, l_deliver L w st cm b =
     let '(b1, out) := l_deliver A w st cm b in let '(b2, out2) := l_deliver B w st cm b1 in (b2, out ++ out2)) ->
  DelSpec L.
Proof.
  intros L A B S HA HB Hun w st cm b b' out Hnd Hsm Hcm Hrun. rewrite Hun in Hrun.
  destruct (sp_nodup _ _ _ S Hnd) as (HndA & HndB & Hdisj).
  destruct (splits_small _ _ _ S Hsm) as (HsmA & HsmB).
  destruct (l_deliver A w st cm b) as [bA oA] eqn:EA. destruct (l_deliver B w st cm bA) as [bB oB] eqn:EB.
  inversion Hrun; subst; clear Hrun.
  destruct (HA _ _ _ _ _ _ HndA HsmA Hcm EA) as (HfA & HoA & HcA).
  destruct (HB _ _ _ _ _ _ HndB HsmB Hcm EB) as (HfB & HoB & HcB).
  assert (HsameB : forall k, In k (ids B) -> bit b k = bit bA k).
  { intros k Hk. symmetry. apply HfA. intro. eapply Hdisj; eauto. }
  split; [eapply splits_frame; eauto|]. split.
  - intro o. rewrite in_app_iff, HoA, HoB. split.
    + intros [(n & v & ch & Hin & Hc & E)|(n & v & ch & Hin & Hc & E)]; exists n, v, ch; repeat split; auto.
      * apply (sp_recs _ _ _ S). auto.
      * apply (sp_recs _ _ _ S). auto.
      * eapply chain_clear_ext; [|exact Hc]. intros e He. apply HsameB. eapply recs_ids; eauto.
    + intros (n & v & ch & Hin & Hc & E). apply (sp_recs _ _ _ S) in Hin. destruct Hin as [Hin|Hin]; [left|right]; exists n, v, ch; repeat split; auto.
      eapply chain_clear_ext; [|exact Hc]. intros e He. symmetry. apply HsameB. eapply recs_ids; eauto.
  - intros Hs. apply (sp_shaped _ _ _ S) in Hs. destruct Hs as [HsA HsB].
    intros k Hk. apply (sp_ids _ _ _ S) in Hk. destruct Hk as [Hk|Hk].
    + rewrite HfB by (intro; eapply Hdisj; eauto). apply HcA; auto.
    + apply HcB; auto. eapply shaped_ext; [|exact HsB]. auto.
Qed.

Lemma l_deliver_spec : forall l, DelSpec l.
Proof.
  induction l using layer_ind'.
  - intros w st cm b b' out _ _ _ H. simpl in H. inversion H; subst. split; [apply frame_refl|]. split.
    + intro o. simpl. split.
      * intros [E|[]]. exists n, v, []. split; [left; reflexivity|]. split; [intros e []|]. simpl. rewrite N.lor_0_r. auto.
      * intros (n0 & v0 & ch & [E|[]] & _ & Eo). inversion E; subst. simpl. rewrite N.lor_0_r. auto.
    + intros _ k [].
  - intros w st cm b b' out _ _ _ H. simpl in H. inversion H; subst. split; [apply frame_refl|]. split.
    + intro o. simpl. split; [intros [] | intros (n & v & ch & [] & _)].
    + intros _ k [].
  - intros w st cm b b' out Hnd Hsm Hcm H. simpl in H.
    inversion Hnd as [|? ? Hnotin Hnd']; subst. inversion Hsm as [|? ? Hk Hsm']; subst.
    rewrite fid_and_lor in H by auto. rewrite fm_enabled_bit in H.
    destruct (bit b k) eqn:Hb; simpl in H.
    + inversion H; subst; clear H. split.
      * intros j Hj. rewrite bit_set by auto. destruct (N.eqb_spec k j); auto. subst. exfalso. apply Hj. left. reflexivity.
      * split.
        -- intro o. split; [intros []|]. intros (n & v & ch & Hin & Hc & _). simpl in Hin.
           apply in_map_iff in Hin. destruct Hin as [[[n1 v1] ch1] [E Hin]]. simpl in E. inversion E; subst.
           apply chain_clear_cons in Hc. destruct Hc as [Hc _]. rewrite Hb in Hc. discriminate.
        -- simpl. intros [Hs _] j [Hj|Hj].
           ++ subst j. rewrite bit_set by auto. rewrite N.eqb_refl. reflexivity.
           ++ rewrite bit_set by auto. destruct (N.eqb_spec k j); [subst; contradiction|]. apply Hs; auto.
    + assert (Hcm' : bit (N.lor cm (fid_new k)) 63 = false) by (apply bit63_lor; auto).
      destruct (IHl _ _ _ _ _ _ Hnd' Hsm' Hcm' H) as (Hf & Ho & Hc). split.
      * intros j Hj. apply Hf. intro. apply Hj. right. auto.
      * split.
        -- intro o. rewrite Ho. simpl. split.
           ++ intros (n & v & ch & Hin & Hcc & E). exists n, v, ((k, f) :: ch). repeat split.
              ** apply in_map_iff. exists (n, v, ch). auto.
              ** apply chain_clear_cons. auto.
              ** cbn [mask_of]. rewrite N.lor_assoc. exact E.
           ++ intros (n & v & ch & Hin & Hcc & E). apply in_map_iff in Hin. destruct Hin as [[[n1 v1] ch1] [E1 Hin]].
              simpl in E1. inversion E1; subst. exists n, v, ch1. apply chain_clear_cons in Hcc. destruct Hcc. repeat split; auto.
              cbn [mask_of]. rewrite N.lor_assoc. reflexivity.
        -- simpl. intros [_ Hs] j [Hj|Hj].
           ++ subst j. rewrite Hf by auto. exact Hb.
           ++ apply Hc; auto.
  - eapply DelSpec_seq; eauto using splits_pair_rev; reflexivity.
  - intros w st cm b b' out _ _ _ H. simpl in H. inversion H; subst. split; [apply frame_refl|]. split.
    + intro o. simpl. split; [intros [] | intros (n & v & ch & [] & _)].
    + intros _ k [].
  - intros w st cm b b' out. simpl. apply IHl.
  - induction ls as [|x xs IH].
    + intros w st cm b b' out _ _ _ H0. simpl in H0. inversion H0; subst. split; [apply frame_refl|]. split.
      * intro o. simpl. split; [intros [] | intros (n & v & ch & [] & _)].
      * intros _ k [].
    + inversion H; subst. eapply DelSpec_seq; eauto using splits_vec; reflexivity.
Qed.

(** * Span follow-ups ([on_enter] / [on_exit] / [on_record] / [on_close]): decided by the stored filter map *)
Lemma fm_enabled_lor : forall x a b, fm_enabled x (N.lor a b) = fm_enabled x a && fm_enabled x b.
Proof.
  intros. apply eq_iff_eq_true. rewrite andb_true_iff, !fm_enabled_spec. split.
  - intros H. split; intros j Hj; apply H; rewrite bit_lor, Hj; auto using orb_true_r.
  - intros [H1 H2] j Hj. rewrite bit_lor in Hj. apply orb_true_iff in Hj. destruct Hj; auto.
Qed.
Lemma visible_lor : forall st a b id, visible st (N.lor a b) id = visible st a id && visible st b id.
Proof.
  intros. unfold visible. destruct (sp_get st id); auto. apply fm_enabled_lor.
Qed.

Definition LifeSpec (l : layer) : Prop := forall w id st cm,
  small (ids l) -> bit cm 63 = false -> visible st cm id = true ->
  forall o, In o (l_life l w id st cm) <->
    exists n v ch, In (n, v, ch) (recs l) /\ visible st (N.lor cm (mask_of ch)) id = true /\ o = record n st (N.lor cm (mask_of ch)) w.

Lemma LifeSpec_seq : forall L A B, Splits L A B -> LifeSpec A -> LifeSpec B ->
  (forall w id st cm, l_life L w id st cm = l_life A w id st cm ++ l_life B w id st cm) -> LifeSpec L.
Proof.
  intros L A B S HA HB Hun w id st cm Hsm Hcm Hv o. rewrite Hun, in_app_iff.
  destruct (splits_small _ _ _ S Hsm) as (HsmA & HsmB).
  rewrite (HA w id st cm HsmA Hcm Hv o), (HB w id st cm HsmB Hcm Hv o). split.
  - intros [(n & v & ch & Hin & H)|(n & v & ch & Hin & H)]; exists n, v, ch; split; auto; apply (sp_recs _ _ _ S); auto.
  - intros (n & v & ch & Hin & H). apply (sp_recs _ _ _ S) in Hin. destruct Hin; [left|right]; exists n, v, ch; auto.
Qed.

Lemma l_life_spec : forall l, LifeSpec l.
Proof.
  induction l using layer_ind'.
  - intros w id st cm _ _ Hv o. simpl. split.
    + intros [E|[]]. exists n, v, []. split; [left; reflexivity|]. cbn [mask_of]. rewrite N.lor_0_r. auto.
    + intros (n0 & v0 & ch & [E|[]] & _ & Eo). inversion E; subst. cbn [mask_of]. rewrite N.lor_0_r. auto.
  - intros w id st cm _ _ _ o. simpl. split; [intros [] | intros (n & v & ch & [] & _)].
  - intros w id st cm Hsm Hcm Hv o. simpl. inversion Hsm as [|? ? Hk Hsm']; subst. rewrite Hv.
    rewrite fid_and_lor by auto.
    assert (Hvl : forall ch, visible st (N.lor cm (mask_of ((k, f) :: ch))) id = visible st (N.lor cm (fid_new k)) id && visible st (N.lor (N.lor cm (fid_new k)) (mask_of ch)) id).
    { intro ch. cbn [mask_of]. rewrite N.lor_assoc. rewrite (visible_lor st (N.lor cm (fid_new k))).
      destruct (visible st (N.lor cm (fid_new k)) id); auto. }
    assert (Hv' : visible st (N.lor cm (fid_new k)) id = match sp_get st id with Some d => fm_enabled (sd_fmap d) (fid_new k) | None => false end).
    { rewrite visible_lor, Hv. simpl. unfold visible. destruct (sp_get st id); auto. }
    destruct (sp_get st id) as [d|] eqn:Eg.
    + destruct (fm_enabled (sd_fmap d) (fid_new k)) eqn:Ef.
      * rewrite (IHl w id st (N.lor cm (fid_new k)) Hsm' (bit63_lor _ _ Hcm Hk) Hv' o). split.
        -- intros (n & v & ch & Hin & Hvis & E). exists n, v, ((k, f) :: ch). split; [apply in_map_iff; exists (n, v, ch); auto|].
           rewrite Hvl, Hv', Hvis. split; auto. cbn [mask_of]. rewrite N.lor_assoc. exact E.
        -- intros (n & v & ch & Hin & Hvis & E). apply in_map_iff in Hin. destruct Hin as [[[n1 v1] ch1] [E1 Hin]].
           simpl in E1. inversion E1; subst. exists n, v, ch1. rewrite Hvl, Hv' in Hvis. simpl in Hvis. split; auto. split; auto.
           cbn [mask_of]. rewrite N.lor_assoc. reflexivity.
      * split; [intros []|]. intros (n & v & ch & Hin & Hvis & E). apply in_map_iff in Hin. destruct Hin as [[[n1 v1] ch1] [E1 Hin]].
        simpl in E1. inversion E1; subst. rewrite Hvl, Hv' in Hvis. discriminate.
    + unfold visible in Hv. rewrite Eg in Hv. discriminate.
  - eapply LifeSpec_seq; eauto using splits_pair_rev; reflexivity.
  - intros w id st cm _ _ _ o. simpl. split; [intros [] | intros (n & v & ch & [] & _)].
  - intros w id st cm. simpl. apply IHl.
  - induction ls as [|x xs IH].
    + intros w id st cm _ _ _ o. simpl. split; [intros [] | intros (n & v & ch & [] & _)].
    + inversion H; subst. eapply LifeSpec_seq; eauto using splits_vec; reflexivity.
Qed.
