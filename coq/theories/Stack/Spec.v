(** C07 — vocabulary of the statements (definitions only, no proofs): the recording leaves of a stack with
    the per-layer filters attached to each of them, the global filters, the class of stacks the theorems
    are about, and the specification side of "layer l receives emission e". *)
From Coq Require Import NArith List Bool.
From TV Require Import Stack.Model.
Import ListNotations.
Local Open Scope N_scope.

(** * Flattening a stack *)
(** every recording leaf with its veto table and the chain of [Filtered]s around it, outermost first *)
Fixpoint recs (l : layer) : list (N * (meta -> bool) * list (N * filt)) :=
  match l with
  | Rec n v => [(n, v, [])]
  | Glob _ => []
  | Filt k l' f => map (fun r => (fst (fst r), snd (fst r), (k, f) :: snd r)) (recs l')
  | Pair o i => recs o ++ recs i
  | LOpt None => []
  | LOpt (Some l') => recs l'
  | LVec ls => flat_map recs ls
  end.
Fixpoint globs (l : layer) : list filt :=
  match l with
  | Rec _ _ => []
  | Glob g => [g]
  | Filt _ l' _ => globs l'
  | Pair o i => globs o ++ globs i
  | LOpt None => []
  | LOpt (Some l') => globs l'
  | LVec ls => flat_map globs ls
  end.
Fixpoint ids (l : layer) : list N :=
  match l with
  | Rec _ _ | Glob _ => []
  | Filt k l' _ => k :: ids l'
  | Pair o i => ids o ++ ids i
  | LOpt None => []
  | LOpt (Some l') => ids l'
  | LVec ls => flat_map ids ls
  end.
Fixpoint layers (c : coll) : list layer :=          (* outermost first *)
  match c with Registry => [] | With l c' => l :: layers c' end.
Definition coll_recs (c : coll) := flat_map recs (layers c).
Definition coll_globs (c : coll) := flat_map globs (layers c).
Definition coll_ids (c : coll) := flat_map ids (layers c).

(** * The class of stacks
    [plain l]: no global filter and no vetoing leaf (what a [Filtered] may wrap);
    [shape l]: a [Filtered] wraps a plain tree; a [Vec] holds no global filter (F8);
    [novoid l]: no [Vec] is empty (F14). *)
Fixpoint glob_free (l : layer) : Prop :=
  match l with
  | Rec _ _ => True
  | Glob _ => False
  | Filt _ l' _ => glob_free l'
  | Pair o i => glob_free o /\ glob_free i
  | LOpt None => True
  | LOpt (Some l') => glob_free l'
  | LVec ls => fold_right (fun x a => glob_free x /\ a) True ls
  end.
Fixpoint plain (l : layer) : Prop :=
  match l with
  | Rec _ v => forall m, v m = false
  | Glob _ => False
  | Filt _ l' _ => plain l'
  | Pair o i => plain o /\ plain i
  | LOpt None => True
  | LOpt (Some l') => plain l'
  | LVec ls => fold_right (fun x a => plain x /\ a) True ls
  end.
Fixpoint shape (l : layer) : Prop :=
  match l with
  | Rec _ _ | Glob _ => True
  | Filt _ l' _ => plain l' /\ shape l'
  | Pair o i => shape o /\ shape i
  | LOpt None => True
  | LOpt (Some l') => shape l'
  | LVec ls => fold_right (fun x a => (glob_free x /\ shape x) /\ a) True ls
  end.
Fixpoint novoid (l : layer) : Prop :=               (* no empty Vec anywhere *)
  match l with
  | Rec _ _ | Glob _ => True
  | Filt _ l' _ => novoid l'
  | Pair o i => novoid o /\ novoid i
  | LOpt None => True
  | LOpt (Some l') => novoid l'
  | LVec ls => ls <> [] /\ fold_right (fun x a => novoid x /\ a) True ls
  end.
Definition coll_shape (c : coll) : Prop := Forall (fun l => shape l /\ novoid l) (layers c).

(** a stack as it is after [build]: the shape above, FilterIds distinct and below 63 (so the bitmap can
    never be all-ones: with exactly 64 filters all rejecting the Registry would veto for plain layers too),
    leaf names distinct *)
Record WF (c : coll) : Prop := {
  wf_shape : coll_shape c;
  wf_ids : NoDup (coll_ids c);
  wf_small : Forall (fun k => k < 63) (coll_ids c);
  wf_names : NoDup (map (fun r => fst (fst r)) (coll_recs c))
}.

(** * The specification side *)
(** the per-layer filters attached to one leaf, each looking at the leaf-side view of the current span
    that its own [Context] gives it ([cm] = FilterIds of the enclosing [Filtered]s) *)
Fixpoint chain_accept (st : state) (cm : N) (ch : list (N * filt)) (m : meta) : bool :=
  match ch with
  | [] => true
  | (k, f) :: r => let cm' := N.lor cm (fid_new k) in f_enabled f m (cur_cs st cm') && chain_accept st cm' r m
  end.
Definition globals_accept (c : coll) (st : state) (m : meta) : bool :=
  forallb (fun g => f_enabled g m (cur_cs st 0)) (coll_globs c).
Definition no_veto (c : coll) (m : meta) : bool :=
  forallb (fun r => negb (snd (fst r) m)) (coll_recs c).
Fixpoint mask_of (ch : list (N * filt)) : N :=
  match ch with [] => 0 | (k, _) :: r => N.lor (fid_new k) (mask_of r) end.

Definition delivered (n : N) (w : what) (out : list obs) : Prop :=
  exists cur sc par nav, In (ODeliver n w cur sc par nav) out.
Definition delivered_new (n : N) (out : list obs) : Prop :=
  exists id cur sc par nav, In (ODeliver n (WNew id) cur sc par nav) out.

(** the global max level is sound: above it nobody accepts anything, whatever the context *)
Definition HintSound (c : coll) (mx : N) : Prop :=
  forall m st, mx < m_level m ->
    forall r, In r (coll_recs c) -> globals_accept c st m && chain_accept st 0 (snd r) m = false.

(** what one operation owes to every leaf *)
Definition step_spec (c : coll) (pool : list meta) (st : state) (o : op) (out : list obs) : Prop :=
  match o with
  | OEvent cs =>
      let m := meta_of pool cs in
      forall r, In r (coll_recs c) ->
        (delivered (fst (fst r)) (WEvent cs) out <->
         globals_accept c st m && no_veto c m && chain_accept st 0 (snd r) m = true)
  | OSpan cs =>
      let m := meta_of pool cs in
      forall r, In r (coll_recs c) ->
        (delivered_new (fst (fst r)) out <-> globals_accept c st m && chain_accept st 0 (snd r) m = true)
  | _ => True
  end.

(** every step of a run meets its specification *)
Fixpoint run_spec (c : coll) (mx : N) (pool : list meta) (st : state) (h : list op) : Prop :=
  match h with
  | [] => True
  | o :: r =>
      let '(st1, out, _) := step c mx pool st o in
      step_spec c pool st o out /\ run_spec c mx pool st1 r
  end.
