(** C07 — vocabulary of the statements (definitions only, no proofs): the recording leaves of a stack with
    the per-layer filters attached to each of them, the global filters, the class of stacks the theorems
    are about, and the specification side of "layer l receives emission e". *)
From Coq Require Import NArith List Bool.
From TV Require Import Stack.Model.
Import ListNotations.
Local Open Scope N_scope.

(** * Flattening a stack *)
(** every recording leaf with its veto table and the chain of [Filtered]s around it, outermost first *)
Fixpoint recs (l : layer) : list (N * (meta -> bool) * list (N * filt)) :=
  match l with
  | Rec n v => [(n, v, [])]
  | Glob _ => []
  | Filt k l' f => map (fun r => (fst (fst r), snd (fst r), (k, f) :: snd r)) (recs l')
  | Pair o i => recs o ++ recs i
  | LOpt None => []
  | LOpt (Some l') => recs l'
  | LVec ls => flat_map recs ls
  end.
Fixpoint globs (l : layer) : list filt :=
  match l with
  | Rec _ _ => []
  | Glob g => [g]
  | Filt _ l' _ => globs l'
  | Pair o i => globs o ++ globs i
  | LOpt None => []
  | LOpt (Some l') => globs l'
  | LVec ls => flat_map globs ls
  end.
Fixpoint ids (l : layer) : list N :=
  match l with
  | Rec _ _ | Glob _ => []
  | Filt k l' _ => k :: ids l'
  | Pair o i => ids o ++ ids i
  | LOpt None => []
  | LOpt (Some l') => ids l'
  | LVec ls => flat_map ids ls
  end.
Fixpoint layers (c : coll) : list layer :=          (* outermost first *)
  match c with Registry => [] | With l c' => l :: layers c' end.
Definition coll_recs (c : coll) := flat_map recs (layers c).
Definition coll_globs (c : coll) := flat_map globs (layers c).
Definition coll_ids (c : coll) := flat_map ids (layers c).

(** * The class of stacks
    [plain l]: no global filter and no vetoing leaf (what a [Filtered] may wrap: the documentation has it wrap
    recording layers; a global filter below a [Filtered] would act globally only when that filter passes);
    [shape l]: every [Filtered] wraps a plain tree.  Anything else is allowed: global filters and vetoing leaves
    anywhere outside a [Filtered] (also inside a [Vec], whose [register_callsite] combines like its [enabled]
    since the F8 repair), empty [Vec]s and [None]s, any nesting. *)
Fixpoint plain (l : layer) : Prop :=
  match l with
  | Rec _ v => forall m, v m = false
  | Glob _ => False
  | Filt _ l' _ => plain l'
  | Pair o i => plain o /\ plain i
  | LOpt None => True
  | LOpt (Some l') => plain l'
  | LVec ls => fold_right (fun x a => plain x /\ a) True ls
  end.
Fixpoint shape (l : layer) : Prop :=
  match l with
  | Rec _ _ | Glob _ => True
  | Filt _ l' _ => plain l' /\ shape l'
  | Pair o i => shape o /\ shape i
  | LOpt None => True
  | LOpt (Some l') => shape l'
  | LVec ls => fold_right (fun x a => shape x /\ a) True ls
  end.
Definition coll_shape (c : coll) : Prop := Forall shape (layers c).

(** a stack as it is after [build]: the shape above, FilterIds distinct and below 63 (so the bitmap can
    never be all-ones: with exactly 64 filters all rejecting the Registry would veto for plain layers too),
    leaf names distinct *)
Record WF (c : coll) : Prop := {
  wf_shape : coll_shape c;
  wf_ids : NoDup (coll_ids c);
  wf_small : Forall (fun k => k < 63) (coll_ids c);
  wf_names : NoDup (map (fun r => fst (fst r)) (coll_recs c))
}.

(** * The specification side *)
(** the per-layer filters attached to one leaf, each looking at the leaf-side view of the current span
    that its own [Context] gives it ([cm] = FilterIds of the enclosing [Filtered]s) *)
Fixpoint chain_accept (st : state) (cm : N) (ch : list (N * filt)) (m : meta) : bool :=
  match ch with
  | [] => true
  | (k, f) :: r => let cm' := N.lor cm (fid_new k) in f_enabled f m (cur_cs st cm') && chain_accept st cm' r m
  end.
Definition globals_accept (c : coll) (st : state) (m : meta) : bool :=
  forallb (fun g => f_enabled g m (cur_cs st 0)) (coll_globs c).
Definition no_veto (c : coll) (m : meta) : bool :=
  forallb (fun r => negb (snd (fst r) m)) (coll_recs c).
Fixpoint mask_of (ch : list (N * filt)) : N :=
  match ch with [] => 0 | (k, _) :: r => N.lor (fid_new k) (mask_of r) end.

(** filters that do not look at the context: for them acceptance is a function of the metadata alone *)
Fixpoint ctx_free (f : filt) : Prop :=
  match f with
  | FDyn _ | FEnv _ _ _ => False
  | FAnd a b | FOr a b => ctx_free a /\ ctx_free b
  | FNot a => ctx_free a
  | _ => True
  end.
(** finding F12 (property C08) excluded: an EnvFilter registers `always` for every span a span directive matches, while
    its [enabled] looks at span directives only for levels some span directive can enable; [f12_free f m] says [m] is not
    such a span (for every EnvFilter leaf of [f]) *)
Fixpoint f12_free (f : filt) (m : meta) : Prop :=
  match f with
  | FEnv _ _ dy => is_span m && dyn_matches dy m = true -> m_level m <= dyn_max dy
  | FAnd a b | FOr a b => f12_free a m /\ f12_free b m
  | FNot a => f12_free a m
  | _ => True
  end.
Definition static_accept (ch : list (N * filt)) (m : meta) : bool := forallb (fun e => f_enabled (snd e) m []) ch.

Definition delivered (n : N) (w : what) (out : list obs) : Prop :=
  exists cur sc par nav, In (ODeliver n w cur sc par nav) out.
Definition delivered_new (n : N) (out : list obs) : Prop :=
  exists id cur sc par nav, In (ODeliver n (WNew id) cur sc par nav) out.
(** (leaf, span) pairs of the [on_new_span] notifications in an output *)
Definition news_of (out : list obs) : list (N * N) :=
  flat_map (fun o => match o with ODeliver n (WNew id) _ _ _ _ => [(n, id)] | _ => [] end) out.
(** every notification in [out] is about [w] *)
Definition only (w : what) (out : list obs) : Prop :=
  forall n w' cur sc par nav, In (ODeliver n w' cur sc par nav) out -> w' = w.
Definition alive (st : state) (id : N) : Prop := sp_get st id <> None.

(** no EnvFilter leaf of the stack is in the F12 situation for this metadata *)
Definition F12Free (c : coll) (m : meta) : Prop :=
  (forall g, In g (coll_globs c) -> f12_free g m) /\
  (forall r e, In r (coll_recs c) -> In e (snd r) -> f12_free (snd e) m).
(** the static summaries the macros rely on are sound (they are property C08; the model takes the level as a parameter of
    a run): above the global max level nobody accepts anything, whatever the context; and no callsite of the pool is in
    the F12 situation for an EnvFilter of the stack *)
Definition HintSound (c : coll) (mx : N) (pool : list meta) : Prop :=
  (forall cs st, mx < m_level (meta_of pool cs) ->
     forall r, In r (coll_recs c) -> globals_accept c st (meta_of pool cs) && chain_accept st 0 (snd r) (meta_of pool cs) = false) /\
  (forall cs, F12Free c (meta_of pool cs)).

(** what one operation owes to every leaf.  [past]: the (leaf, span) pairs of all earlier [on_new_span]
    notifications; [st] / [st'] the state before / after. *)
Definition follow_spec (c : coll) (past : list (N * N)) (st' : state) (w : what) (id : N) (out : list obs) : Prop :=
  alive st' id ->
  forall r, In r (coll_recs c) -> (delivered (fst (fst r)) w out <-> In (fst (fst r), id) past).
Definition close_spec (c : coll) (past : list (N * N)) (out : list obs) : Prop :=
  forall id r, In r (coll_recs c) ->
    (delivered (fst (fst r)) (WClose id) out <-> In (OCall (PClose id)) out /\ In (fst (fst r), id) past).
Definition closes_or (w : what) (out : list obs) : Prop :=
  forall n w' cur sc par nav, In (ODeliver n w' cur sc par nav) out -> w' = w \/ exists id, w' = WClose id.

Definition step_spec (c : coll) (pool : list meta) (st : state) (past : list (N * N)) (o : op) (out : list obs) (st' : state) : Prop :=
  match o with
  | OEvent cs =>
      let m := meta_of pool cs in
      only (WEvent cs) out /\
      forall r, In r (coll_recs c) ->
        (delivered (fst (fst r)) (WEvent cs) out <->
         globals_accept c st m && no_veto c m && chain_accept st 0 (snd r) m = true)
  | OSpan cs =>
      let m := meta_of pool cs in
      only (WNew (st_next st)) out /\
      forall r, In r (coll_recs c) ->
        (delivered (fst (fst r)) (WNew (st_next st)) out <-> globals_accept c st m && chain_accept st 0 (snd r) m = true)
  | OEnter h =>
      match handle st h with
      | Some id => only (WEnter id) out /\ follow_spec c past st' (WEnter id) id out
      | None => out = []
      end
  | ORecord h =>
      match handle st h with
      | Some id => only (WRecord id) out /\ follow_spec c past st' (WRecord id) id out
      | None => out = []
      end
  | OExit h =>
      match handle st h with
      | Some id => closes_or (WExit id) out /\ follow_spec c past st' (WExit id) id out /\ close_spec c past out
      | None => out = []
      end
  | ODrop h =>
      match handle st h with
      | Some id => closes_or (WClose id) out /\ close_spec c past out
      | None => out = []
      end
  | OProbe _ => forall n w, ~ delivered n w out
  end.

(** every step of a run meets its specification *)
Fixpoint run_spec (c : coll) (mx : N) (pool : list meta) (st : state) (past : list (N * N)) (h : list op) : Prop :=
  match h with
  | [] => True
  | o :: r =>
      let '(st1, out, _) := step c mx pool st o in
      step_spec c pool st past o out st1 /\ run_spec c mx pool st1 (past ++ news_of out) r
  end.

(** [Clean] from an arbitrary state (Model.clean is [clean_from init]) *)
Definition clean_from (c : coll) (mx : N) (pool : list meta) (st : state) (h : list op) : bool :=
  forallb negb (snd (run c mx pool st h)).

(** what a leaf may see of the span tree inside a callback: only spans it was told about *)
Definition mentions (o : obs) : list N :=
  match o with
  | ODeliver _ _ cur sc par nav =>
      (match cur with Some x => [x] | None => [] end) ++ sc ++ (match par with Some x => [x] | None => [] end) ++
      flat_map (fun e => (match fst e with Some x => [x] | None => [] end) ++ snd e) (nv_each nav) ++
      nv_chain nav ++ nv_pscope nav ++ nv_root nav
  | _ => []
  end.
Definition leaf_of (o : obs) : option N := match o with ODeliver n _ _ _ _ _ => Some n | _ => None end.
Definition sees_only_own (past : list (N * N)) (out : list obs) : Prop :=
  forall o n id, In o out -> leaf_of o = Some n -> In id (mentions o) -> In (n, id) (past ++ news_of out).
Fixpoint run_lookup (c : coll) (mx : N) (pool : list meta) (st : state) (past : list (N * N)) (h : list op) : Prop :=
  match h with
  | [] => True
  | o :: r =>
      let '(st1, out, _) := step c mx pool st o in
      sees_only_own past out /\ run_lookup c mx pool st1 (past ++ news_of out) r
  end.

(** * Exactly what a leaf sees: the specification side, without FilterIds or bitmaps.
    Walk the *real* span tree / span stack and keep the spans for which [acc] holds ("this leaf was notified of it
    and it is still in the registry"). *)
Fixpoint anc (fuel : nat) (st : state) (x : option N) : list N :=       (* the span, its parent, ... up to the root *)
  match fuel with
  | O => []
  | S k => match x with
           | None => []
           | Some id => match sp_get st id with None => [] | Some d => id :: anc k st (sd_parent d) end
           end
  end.
Definition above (st : state) (id : N) : list N :=                       (* the real ancestors strictly above a span *)
  match sp_get st id with Some d => anc (fuel_of st) st (sd_parent d) | None => [] end.
Definition current_by (acc : N -> bool) (st : state) : option N :=
  match current st with None => None | Some _ => find acc (stack_iter st) end.
Definition scope_by (acc : N -> bool) (st : state) (x : option N) : list N := filter acc (anc (fuel_of st) st x).
Definition parent_by (acc : N -> bool) (st : state) (r : option N) : option N :=
  match r with Some id => hd_error (filter acc (above st id)) | None => None end.
Fixpoint chain_by (fuel : nat) (acc : N -> bool) (st : state) (id : N) : list N :=
  match fuel with
  | O => []
  | S k => match parent_by acc st (Some id) with Some p => p :: chain_by k acc st p | None => [] end
  end.
Definition ref_by (acc : N -> bool) (st : state) (w : what) : option N :=
  match w with
  | WEvent _ => current_by acc st
  | WNew id | WEnter id | WExit id | WClose id | WRecord id => if acc id then Some id else None
  end.
Definition record_by (acc : N -> bool) (name : N) (st : state) (w : what) : obs :=
  let r := ref_by acc st w in
  let sc := scope_by acc st r in
  ODeliver name w (current_by acc st) sc (parent_by acc st r)
           (Navs (map (fun id => (parent_by acc st (Some id), scope_by acc st (Some id))) sc)
                 (match r with Some x => chain_by (fuel_of st) acc st x | None => [] end)
                 (match r with
                  | Some x => match parent_by acc st (Some x) with Some p => scope_by acc st (Some p) | None => [] end
                  | None => []
                  end)
                 (rev sc)).
Definition memb (n id : N) (l : list (N * N)) : bool := existsb (fun e => (fst e =? n) && (snd e =? id)) l.
Definition alive_b (st : state) (id : N) : bool := match sp_get st id with Some _ => true | None => false end.

(** every notification of an operation shows its leaf exactly the spans that leaf was notified of (and that are still
    in the registry), in order: [stc] is the registry at the time of the callback — for everything but [on_close]
    it has the span pool and the span stack of the state after the operation ([on_close] runs in the middle of the
    close cascade) *)
Definition sees_exactly (past : list (N * N)) (st' : state) (out : list obs) : Prop :=
  forall o n, In o out -> leaf_of o = Some n ->
    exists stc w, st_stack stc = st_stack st' /\ (st_spans stc = st_spans st' \/ exists id, w = WClose id) /\
      o = record_by (fun id => alive_b stc id && memb n id (past ++ news_of out)) n stc w.
Fixpoint run_exact (c : coll) (mx : N) (pool : list meta) (st : state) (past : list (N * N)) (h : list op) : Prop :=
  match h with
  | [] => True
  | o :: r =>
      let '(st1, out, _) := step c mx pool st o in
      sees_exactly past st1 out /\ run_exact c mx pool st1 (past ++ news_of out) r
  end.
