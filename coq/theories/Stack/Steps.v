(** C07 — one operation of a clean history: it meets its specification, re-establishes the invariant
    (bitmap zero, no pending interest, cache sound, stored filter maps = notifications made), and every
    notification it makes mentions only spans its leaf was told about.  Emissions here, span follow-ups in
    Life.v. *)
From Coq Require Import NArith List Bool Lia.
From TV Require Import Stack.Model Stack.Spec Stack.Bits Stack.Passes Stack.Interest Stack.Register Stack.Coll Stack.Inv.
Import ListNotations.
Local Open Scope N_scope.
Local Arguments N.add : simpl never.
Local Arguments N.leb : simpl never.
Local Arguments N.ltb : simpl never.
Local Arguments N.eqb : simpl never.

(** every notification in [out] was made by a leaf of the stack through the FilterIds of its own chain, on a registry
    [stc] whose stored filter maps agree with the notifications made ([past']); [stc] has the span stack [sk] and,
    unless the notification is an [on_close] (made in the middle of the close cascade), the span pool [sp] *)
Definition toldg (c : coll) (past' : list (N * N)) (sk : list (N * bool)) (sp : list (N * sdata)) (out : list obs) : Prop :=
  forall o n, In o out -> leaf_of o = Some n ->
    exists stc v ch w next, In (n, v, ch) (coll_recs c) /\ o = record n stc (mask_of ch) w /\ st_stack stc = sk /\
      (st_spans stc = sp \/ exists id, w = WClose id) /\ spans_ok c (st_spans stc) next past'.
Definition told (c : coll) (past : list (N * N)) (st' : state) (out : list obs) : Prop :=
  toldg c (past ++ news_of out) (st_stack st') (st_spans st') out.

Definition step_ok (c : coll) (mx : N) (pool : list meta) (o : op) : Prop :=
  forall st past st' out, WF c -> HintSound c mx pool -> Inv c pool st past ->
    step c mx pool st o = (st', out, false) ->
    step_spec c pool st past o out st' /\ Inv c pool st' (past ++ news_of out) /\ told c past st' out.

Lemma toldg_quiet : forall c past' sk sp out, quiet out -> toldg c past' sk sp out.
Proof. intros c past' sk sp out Q o n Hin Hl. destruct o; try discriminate. exfalso. eapply Q; eauto. Qed.
Lemma toldg_app : forall c past' sk sp a b, toldg c past' sk sp a -> toldg c past' sk sp b -> toldg c past' sk sp (a ++ b).
Proof. intros c past' sk sp a b Ha Hb o n Hin. apply in_app_or in Hin. destruct Hin; [eapply Ha | eapply Hb]; eauto. Qed.
Lemma sees_quiet : forall c past st' out, quiet out -> told c past st' out.
Proof. intros. apply toldg_quiet. auto. Qed.
Lemma sees_deq : forall c past st' out out', delivs out = delivs out' -> told c past st' out' -> told c past st' out.
Proof.
  intros c past st' out out' E H o n Hin Hl. unfold told in *. rewrite (news_of_deq _ _ E).
  apply (H o n); auto. apply (proj2 (in_delivs_leaf out' _ _ Hl)). rewrite <- E. apply (proj1 (in_delivs_leaf out _ _ Hl)). exact Hin.
Qed.

(** the notifications of one delivery pass over the pool [stc] *)
Lemma toldg_pass : forall c (P : list (N * filt) -> Prop) stc w o4 next past', WF c ->
  (forall o, In o o4 <-> exists n v ch, In (n, v, ch) (coll_recs c) /\ P ch /\ o = record n stc (mask_of ch) w) ->
  spans_ok c (st_spans stc) next past' -> toldg c past' (st_stack stc) (st_spans stc) o4.
Proof.
  intros c P stc w o4 next past' Hwf Hc Hok o n Hin Hl.
  apply Hc in Hin. destruct Hin as (n' & v & ch & Hr & _ & E). subst o. simpl in Hl. inversion Hl; subst n'.
  exists stc, v, ch, w, next. split; [exact Hr|]. split; [reflexivity|]. split; [reflexivity|]. split; [left; reflexivity | exact Hok].
Qed.
Lemma sees_pass : forall c (P : list (N * filt) -> Prop) stc w o4 next past st', WF c ->
  (forall o, In o o4 <-> exists n v ch, In (n, v, ch) (coll_recs c) /\ P ch /\ o = record n stc (mask_of ch) w) ->
  st_stack stc = st_stack st' -> st_spans stc = st_spans st' ->
  spans_ok c (st_spans stc) next (past ++ news_of o4) -> told c past st' o4.
Proof.
  intros c P stc w o4 next past st' Hwf Hc Hk Hs Hok. unfold told. rewrite <- Hk, <- Hs. eapply toldg_pass; eauto.
Qed.

(** what [told] gives: soundness and exactness of everything the leaf reads *)
Lemma toldg_sees : forall c past' sk sp out, toldg c past' sk sp out ->
  forall o n id, In o out -> leaf_of o = Some n -> In id (mentions o) -> In (n, id) past'.
Proof.
  intros c past' sk sp out H o n id Hin Hl Hm. destruct (H o n Hin Hl) as (stc & v & ch & w & next & Hr & E & _ & _ & Hok).
  subst o. eapply record_sees; eauto.
Qed.
Lemma told_sees : forall c past st' out, told c past st' out -> sees_only_own past out.
Proof. intros c past st' out H o n id Hin Hl Hm. eapply toldg_sees; eauto. Qed.
Lemma told_exact : forall c past st' out, told c past st' out -> sees_exactly past st' out.
Proof.
  intros c past st' out H o n Hin Hl. destruct (H o n Hin Hl) as (stc & v & ch & w & next & Hr & E & Hk & Hs & Hok).
  exists stc, w. split; auto. split; auto. subst o. apply record_by_eq.
  intros id. unfold alive_b. destruct (sp_get stc id) as [d|] eqn:Eg.
  - simpl. apply eq_iff_eq_true. rewrite memb_spec. eapply alive_visible_past; eauto. unfold alive. rewrite Eg. discriminate.
  - unfold visible. rewrite Eg. reflexivity.
Qed.

Lemma Inv_app_nil : forall c pool st past, Inv c pool st past -> Inv c pool st (past ++ []).
Proof. intros. rewrite app_nil_r. auto. Qed.

Lemma leb_false_lt : forall a b, (a <=? b) = false -> b < a.
Proof. intros. apply N.leb_gt. auto. Qed.

(** * event! *)
Lemma step_event : forall c mx pool cs, step_ok c mx pool (OEvent cs).
Proof.
  intros c mx pool cs st past st' out Hwf Hh HI H.
  destruct HI as [Ib Ip Ic Is Ipast].
  unfold step in H. set (m := meta_of pool cs) in *.
  destruct (m_level m <=? mx) eqn:Elv; simpl in H.
  2:{ (* above the global max level: the macro drops it *)
      inversion H; subst; clear H. simpl. rewrite app_nil_r. split; [|split].
      - split; [apply quiet_only, quiet_nil|]. intros r Hr. split.
        + intros D. exfalso. eapply quiet_delivered; [apply quiet_nil | exact D].
        + intros A. fold m in A. exfalso. pose proof (proj1 Hh cs st' (leb_false_lt _ _ Elv) r Hr) as F. fold m in F.
          destruct (globals_accept c st' m); simpl in *; [|discriminate]. destruct (no_veto c m); simpl in *; congruence.
      - constructor; auto.
      - apply sees_quiet, quiet_nil. }
  destruct (get_interest c pool st cs) as [[i st1] o1] eqn:Eg.
  destruct (get_interest_spec _ _ _ _ _ _ _ (wf_shape c Hwf) (proj2 Hh cs) Ip Ic Eg) as (Ei & Q1 & B1 & P1 & S1 & K1 & N1 & H1 & C1).
  fold m in Ei.
  assert (V1 : same_view st st1) by (split; auto).
  assert (I1 : forall b, Inv c pool (with_bits st1 b) past -> True) by auto. clear I1.
  assert (Inv1 : forall b, b = 0 -> Inv c pool (with_bits st1 b) past).
  { intros b ->. constructor; simpl; auto; try (rewrite S1, N1; auto); try (rewrite N1; auto). }
  destruct (is_never i) eqn:Enev.
  { (* cached / registered `never` *)
    inversion H; subst st' out; clear H.
    assert (Ev : i = INever) by (destruct i; simpl in Enev; congruence).
    rewrite (news_of_none o1) by (intros n id; apply quiet_delivered; auto). rewrite app_nil_r.
    split; [|split].
    - simpl. split; [apply quiet_only; auto|]. intros r Hr. split.
      + intros D. exfalso. eapply quiet_delivered; eauto.
      + intros A. fold m in A. exfalso. pose proof (proj1 Ei Ev st r Hr) as F.
        destruct (globals_accept c st m); simpl in *; [|discriminate]. destruct (no_veto c m); simpl in *; congruence.
    - pose proof (Inv1 (st_bits st1) (eq_trans B1 Ib)) as X. destruct st1; exact X.
    - apply sees_quiet; auto. }
  destruct (is_always i) eqn:Ealw.
  - (* cached `always`: no [enabled] pass, the bitmap is what the previous operation left: zero *)
    assert (Ev : i = IAlways) by (destruct i; simpl in Ealw; congruence).
    destruct (proj2 Ei Ev st) as [HG HC].
    simpl in H. rewrite B1, Ib in H.
    destruct (c_event_enabled (haspsf c) c m 0) as [[ee b3] o3] eqn:Eee.
    destruct (c_event_enabled_spec c Hwf _ _ _ _ _ _ (bit_0 63) Eee) as (E3 & O3 & Ee). subst b3 o3.
    destruct ee; simpl in H.
    + destruct (c_deliver c (WEvent cs) (with_bits st1 0) 0) as [b4 o4] eqn:Ed.
      assert (Hshaped : shaped (as_layer c) 0) by (apply clear_shaped; intros j _; apply bit_0).
      destruct (c_deliver_spec c Hwf _ _ _ _ _ (support_0 _) Hshaped Ed) as [E4 Ho4]. subst b4.
      inversion H; subst st' out; clear H.
      destruct (recs_deliver_char c (chain_clear 0) _ _ _ Hwf Ho4) as [Honly Hchar].
      match goal with |- context [news_of ?X] => assert (Hdeq : delivs X = delivs o4)
        by (rewrite ?delivs_app, ?(delivs_quiet o1 Q1); reflexivity) end.
      assert (Hnews : news_of o4 = []) by (eapply news_of_only; [exact Honly | discriminate]).
      rewrite (news_of_deq _ _ Hdeq), Hnews, app_nil_r.
      split; [|split].
      * simpl. split; [eapply only_deq; eauto|]. intros r Hr. rewrite (delivered_deq _ _ _ _ Hdeq).
        rewrite (Hchar r Hr). fold m. rewrite and3_true by auto. destruct r as [[n v] ch]. simpl.
        pose proof (HC _ Hr) as X. simpl in X. rewrite X. split; auto. intros _ e _. apply bit_0.
      * apply (Inv1 0 eq_refl).
      * eapply sees_deq; [exact Hdeq|]. eapply (sees_pass c _ (with_bits st1 0)); eauto. rewrite Hnews, app_nil_r. simpl. rewrite S1. exact Is.
    + inversion H; subst st' out; clear H.
      match goal with |- context [news_of ?X] => assert (Q : quiet X)
        by (apply quiet_app; split; auto; simpl; apply quiet_cons; auto using quiet_nil) end.
      rewrite (news_of_none _ (fun n id => quiet_delivered _ Q n (WNew id))), app_nil_r.
      split; [|split].
      * simpl. split; [apply quiet_only; auto|]. intros r Hr. split.
        -- intros D. exfalso. eapply quiet_delivered; eauto.
        -- fold m. rewrite <- Ee. rewrite andb_false_r. simpl. discriminate.
      * apply (Inv1 0 eq_refl).
      * apply sees_quiet; auto.
  - (* `sometimes`: an [enabled] pass, then the dispatch consumes what it set *)
    destruct (do_enabled c pool st1 cs) as [[en st2] o2] eqn:Een.
    destruct (do_enabled_spec _ _ _ _ _ _ _ Hwf (eq_trans B1 Ib) Een) as (b & E2 & Q2 & Er & Hf & Ht). subst st2. fold m in Er, Ht.
    rewrite <- (globals_accept_view c st st1 m V1) in Er.
    destruct en; simpl in H.
    + destruct (Ht eq_refl) as (Hsup & Hshaped & Hfact).
      destruct (c_event_enabled (haspsf c) c m b) as [[ee b3] o3] eqn:Eee.
      destruct (c_event_enabled_spec c Hwf _ _ _ _ _ _ (support_63 _ _ Hsup (wf_small c Hwf)) Eee) as (E3 & O3 & Ee). subst b3 o3.
      destruct ee; simpl in H.
      * destruct (c_deliver c (WEvent cs) (with_bits (with_bits st1 b) b) b) as [b4 o4] eqn:Ed.
        destruct (c_deliver_spec c Hwf _ _ _ _ _ Hsup Hshaped Ed) as [E4 Ho4]. subst b4.
        inversion H; subst st' out; clear H.
        destruct (recs_deliver_char c (chain_clear b) _ _ _ Hwf Ho4) as [Honly Hchar].
        match goal with |- context [news_of ?X] => assert (Hdeq : delivs X = delivs o4)
          by (rewrite ?delivs_app, ?(delivs_quiet o1 Q1), ?(delivs_quiet o2 Q2); reflexivity) end.
        assert (Hnews : news_of o4 = []) by (eapply news_of_only; [exact Honly | discriminate]).
        rewrite (news_of_deq _ _ Hdeq), Hnews, app_nil_r.
        split; [|split].
        -- simpl. split; [eapply only_deq; eauto|]. intros r Hr. rewrite (delivered_deq _ _ _ _ Hdeq).
           rewrite (Hchar r Hr). fold m. rewrite and3_true by auto. destruct r as [[n v] ch]. simpl.
           rewrite (Hfact n v ch Hr). rewrite (chain_accept_view st st1 ch 0 m V1). tauto.
        -- apply (Inv1 0 eq_refl).
        -- eapply sees_deq; [exact Hdeq|]. eapply (sees_pass c _ (with_bits (with_bits st1 b) b)); eauto.
           rewrite Hnews, app_nil_r. simpl. rewrite S1. exact Is.
      * (* a veto in [event_enabled] after an [enabled] pass: the history is not clean *)
        destruct i; simpl in *; discriminate.
    + (* a global filter said no: the collector cleared the bitmap *)
      rewrite (Hf eq_refl) in *. inversion H; subst st' out; clear H.
      assert (Q : quiet (o1 ++ o2)) by (apply quiet_app; auto).
      rewrite (news_of_none _ (fun n id => quiet_delivered _ Q n (WNew id))), app_nil_r.
      split; [|split].
      * simpl. split; [apply quiet_only; auto|]. intros r Hr. split.
        -- intros D. exfalso. eapply quiet_delivered; eauto.
        -- fold m. rewrite <- Er. simpl. discriminate.
      * apply (Inv1 0 eq_refl).
      * apply sees_quiet; auto.
Qed.

(** * span! *)
Lemma cache_ok_eq : forall c pool st st', st_cache st' = st_cache st -> cache_ok c pool st -> cache_ok c pool st'.
Proof. intros c pool st st' E H cs i Ha. rewrite E in Ha. auto. Qed.
Lemma delivs_call : forall p, delivs [OCall p] = [].
Proof. reflexivity. Qed.

Lemma reg_new_span_spec : forall st m st3 id, reg_new_span st m = (st3, id) ->
  id = st_next st /\ st_bits st3 = st_bits st /\ st_pending st3 = st_pending st /\ st_cache st3 = st_cache st /\
  st_next st3 = st_next st + 1 /\
  exists s' d, st_spans st3 = (id, d) :: s' /\ sd_fmap d = st_bits st /\ sub_pool s' (st_spans st).
Proof.
  intros st m st3 id H. unfold reg_new_span in H.
  destruct (current st) as [p|]; inversion H; subst; clear H; simpl.
  - repeat split; auto. eexists _, _. split; [reflexivity|]. split; auto. apply sp_update_sub. reflexivity.
  - repeat split; auto. eexists _, _. split; [reflexivity|]. split; auto. apply sub_pool_refl.
Qed.

Lemma span_tail : forall c pool st2 past m b st3 id b4 o4, WF c ->
  st_pending st2 = None -> cache_ok c pool st2 -> spans_ok c (st_spans st2) (st_next st2) past ->
  (forall n i, In (n, i) past -> i < st_next st2) ->
  st_bits st2 = b -> support b (coll_ids c) -> shaped (as_layer c) b ->
  reg_new_span st2 m = (st3, id) -> c_deliver c (WNew id) st3 (st_bits st3) = (b4, o4) ->
  id = st_next st2 /\ only (WNew id) o4 /\
  (forall r, In r (coll_recs c) -> (delivered (fst (fst r)) (WNew id) o4 <-> chain_clear b (snd r))) /\
  Inv c pool (push_handle (with_bits st3 b4) (Some id)) (past ++ news_of o4) /\ told c past (push_handle (with_bits st3 b4) (Some id)) o4.
Proof.
  intros c pool st2 past m b st3 id b4 o4 Hwf Hp Hc Hs Hpast Hb Hsup Hshaped Hn Hd.
  destruct (reg_new_span_spec _ _ _ _ Hn) as (Eid & B3 & P3 & C3 & N3 & s' & d & S3 & Fd & Hsub).
  rewrite B3, Hb in Hd.
  destruct (c_deliver_spec c Hwf _ _ _ _ _ Hsup Hshaped Hd) as [E4 Ho4]. subst b4.
  destruct (recs_deliver_char c (chain_clear b) _ _ _ Hwf Ho4) as [Honly Hchar].
  assert (Hok : spans_ok c (st_spans st3) (st_next st2 + 1) (past ++ news_of o4)).
  { rewrite S3. intros id0 d0 [E|Hin].
    - inversion E; subst id0 d0; clear E. split; [lia|]. intros n v ch Hr. rewrite Fd, Hb. split.
      + intros Hcl. apply in_or_app. right. apply in_news_of. apply (Hchar (n, v, ch) Hr). exact Hcl.
      + intros Hin. apply in_app_or in Hin. destruct Hin as [Hin|Hin].
        * apply Hpast in Hin. lia.
        * apply in_news_of in Hin. apply (Hchar (n, v, ch) Hr) in Hin. exact Hin.
    - apply Hsub in Hin. destruct Hin as [d1 [Hin E]]. destruct (Hs _ _ Hin) as [Hlt Hiff]. split; [lia|].
      intros n v ch Hr. rewrite E, (Hiff n v ch Hr). split.
      + intros Hin'. apply in_or_app. left. exact Hin'.
      + intros Hin'. apply in_app_or in Hin'. destruct Hin' as [Hin'|Hin']; auto.
        apply in_news_of in Hin'. destruct Hin' as (cur & sc & par & nav & Hin').
        apply Honly in Hin'. inversion Hin'. lia. }
  split; auto. split; auto. split; auto. split.
  - constructor; simpl; auto.
    + congruence.
    + eapply cache_ok_eq; [|exact Hc]. simpl. exact C3.
    + rewrite N3. exact Hok.
    + intros n i Hin. rewrite N3. apply in_app_or in Hin. destruct Hin as [Hin|Hin].
      * apply Hpast in Hin. lia.
      * apply in_news_of in Hin. destruct Hin as (cur & sc & par & nav & Hin). apply Honly in Hin. inversion Hin. lia.
  - eapply (sees_pass c _ st3); eauto.
Qed.

Lemma step_span : forall c mx pool cs, step_ok c mx pool (OSpan cs).
Proof.
  intros c mx pool cs st past st' out Hwf Hh HI H.
  destruct HI as [Ib Ip Ic Is Ipast].
  unfold step in H. set (m := meta_of pool cs) in *.
  destruct (m_level m <=? mx) eqn:Elv; cbn [negb] in H.
  2:{ inversion H; subst; clear H. simpl. rewrite app_nil_r. split; [|split].
      - fold m. split; [apply quiet_only, quiet_nil|]. intros r Hr. split.
        + intros D. exfalso. eapply quiet_delivered; [apply quiet_nil | exact D].
        + intros A. exfalso. pose proof (proj1 Hh cs st (leb_false_lt _ _ Elv) r Hr) as F. fold m in F. congruence.
      - constructor; simpl; auto.
      - apply sees_quiet, quiet_nil. }
  destruct (get_interest c pool st cs) as [[i st1] o1] eqn:Eg.
  destruct (get_interest_spec _ _ _ _ _ _ _ (wf_shape c Hwf) (proj2 Hh cs) Ip Ic Eg) as (Ei & Q1 & B1 & P1 & S1 & K1 & N1 & H1 & C1).
  fold m in Ei.
  assert (V1 : same_view st st1) by (split; auto).
  assert (Inv1 : forall b o, b = 0 -> Inv c pool (push_handle (with_bits st1 b) o) past).
  { intros b o ->. constructor; simpl; auto; try (rewrite S1, N1; auto); try (rewrite N1; auto). }
  destruct (is_never i) eqn:Enev.
  { inversion H; subst st' out; clear H.
    assert (Ev : i = INever) by (destruct i; simpl in Enev; congruence).
    rewrite (news_of_none o1) by (intros n id; apply quiet_delivered; auto). rewrite app_nil_r.
    split; [|split].
    - simpl. fold m. split; [apply quiet_only; auto|]. intros r Hr. split.
      + intros D. exfalso. eapply quiet_delivered; eauto.
      + intros A. exfalso. pose proof (proj1 Ei Ev st r Hr) as F. congruence.
    - pose proof (Inv1 (st_bits st1) None (eq_trans B1 Ib)) as X. destruct st1; exact X.
    - apply sees_quiet; auto. }
  assert (Hs1 : spans_ok c (st_spans st1) (st_next st1) past) by (rewrite S1, N1; auto).
  assert (Hp1 : forall n i0, In (n, i0) past -> i0 < st_next st1) by (rewrite N1; auto).
  destruct (is_always i) eqn:Ealw.
  - assert (Ev : i = IAlways) by (destruct i; simpl in Ealw; congruence).
    destruct (proj2 Ei Ev st) as [HG HC].
    cbn [negb] in H.
    destruct (reg_new_span st1 m) as [st3 id] eqn:En.
    destruct (c_deliver c (WNew id) st3 (st_bits st3)) as [b4 o4] eqn:Ed.
    assert (Hshaped : shaped (as_layer c) 0) by (apply clear_shaped; intros j _; apply bit_0).
    destruct (span_tail c pool st1 past m 0 st3 id b4 o4 Hwf P1 C1 Hs1 Hp1 (eq_trans B1 Ib) (support_0 _) Hshaped En Ed)
      as (Eid & Honly & Hchar & HInv & Hsees).
    inversion H; subst st' out; clear H.
    match goal with |- context [news_of ?X] => assert (Hdeq : delivs X = delivs o4)
      by (rewrite ?delivs_app, ?(delivs_quiet o1 Q1), ?delivs_call, ?app_nil_r; reflexivity) end.
    rewrite (news_of_deq _ _ Hdeq). rewrite N1 in Eid. subst id.
    split; [|split]; auto.
    + simpl. fold m. split; [eapply only_deq; eauto|]. intros r Hr. rewrite (delivered_deq _ _ _ _ Hdeq).
      rewrite (Hchar r Hr). rewrite HG. simpl. rewrite (HC r Hr). split; auto. intros _ e _. apply bit_0.
    + eapply sees_deq; eauto.
  - destruct (do_enabled c pool st1 cs) as [[en st2] o2] eqn:Een.
    destruct (do_enabled_spec _ _ _ _ _ _ _ Hwf (eq_trans B1 Ib) Een) as (b & E2 & Q2 & Er & Hf & Ht). subst st2. fold m in Er, Ht.
    rewrite <- (globals_accept_view c st st1 m V1) in Er.
    destruct en; cbn [negb] in H.
    + destruct (Ht eq_refl) as (Hsup & Hshaped & Hfact).
      destruct (reg_new_span (with_bits st1 b) m) as [st3 id] eqn:En.
      destruct (c_deliver c (WNew id) st3 (st_bits st3)) as [b4 o4] eqn:Ed.
      destruct (span_tail c pool (with_bits st1 b) past m b st3 id b4 o4 Hwf P1 C1 Hs1 Hp1 eq_refl Hsup Hshaped En Ed)
        as (Eid & Honly & Hchar & HInv & Hsees).
      inversion H; subst st' out; clear H.
      match goal with |- context [news_of ?X] => assert (Hdeq : delivs X = delivs o4)
        by (rewrite ?delivs_app, ?(delivs_quiet o1 Q1), ?(delivs_quiet o2 Q2), ?delivs_call, ?app_nil_r; reflexivity) end.
      rewrite (news_of_deq _ _ Hdeq). simpl in Eid. rewrite N1 in Eid. subst id.
      split; [|split]; auto.
      * simpl. fold m. split; [eapply only_deq; eauto|]. intros r Hr. rewrite (delivered_deq _ _ _ _ Hdeq).
        rewrite (Hchar r Hr). rewrite <- Er. simpl. destruct r as [[n v] ch]. simpl.
        rewrite (Hfact n v ch Hr). rewrite (chain_accept_view st st1 ch 0 m V1). tauto.
      * eapply sees_deq; eauto.
    + rewrite (Hf eq_refl) in *. inversion H; subst st' out; clear H.
      assert (Q : quiet (o1 ++ o2)) by (apply quiet_app; auto).
      rewrite (news_of_none _ (fun n id => quiet_delivered _ Q n (WNew id))), app_nil_r.
      split; [|split].
      * simpl. fold m. split; [apply quiet_only; auto|]. intros r Hr. split.
        -- intros D. exfalso. eapply quiet_delivered; eauto.
        -- rewrite <- Er. simpl. discriminate.
      * apply (Inv1 0 None eq_refl).
      * apply sees_quiet; auto.
Qed.

(** * enabled! — in a clean history a probe survives only when a global filter rejects it *)
Lemma step_probe : forall c mx pool cs, step_ok c mx pool (OProbe cs).
Proof.
  intros c mx pool cs st past st' out Hwf Hh HI H.
  destruct HI as [Ib Ip Ic Is Ipast].
  unfold step in H. set (m := meta_of pool cs) in *.
  assert (Fin : forall st0 o0, quiet o0 -> Inv c pool st0 past ->
            step_spec c pool st past (OProbe cs) o0 st0 /\ Inv c pool st0 (past ++ news_of o0) /\ told c past st0 o0).
  { intros st0 o0 Q I0. rewrite (news_of_none _ (fun n id => quiet_delivered _ Q n (WNew id))), app_nil_r.
    split; [|split]; auto. - simpl. apply quiet_delivered. auto. - apply sees_quiet. auto. }
  destruct (m_level m <=? mx) eqn:Elv; simpl in H.
  2:{ inversion H; subst; clear H. apply Fin. - apply quiet_cons; auto using quiet_nil. - constructor; auto. }
  destruct (get_interest c pool st cs) as [[i st1] o1] eqn:Eg.
  destruct (get_interest_spec _ _ _ _ _ _ _ (wf_shape c Hwf) (proj2 Hh cs) Ip Ic Eg) as (Ei & Q1 & B1 & P1 & S1 & K1 & N1 & H1 & C1).
  assert (Inv1 : forall b, b = 0 -> Inv c pool (with_bits st1 b) past).
  { intros b ->. constructor; simpl; auto; try (rewrite S1, N1; auto); try (rewrite N1; auto). }
  assert (Inv1' : Inv c pool st1 past).
  { pose proof (Inv1 (st_bits st1) (eq_trans B1 Ib)) as X. destruct st1; exact X. }
  assert (QR : forall r, quiet [OResult r]) by (intros; apply quiet_cons; auto using quiet_nil).
  destruct (is_never i) eqn:Enev.
  { inversion H; subst st' out; clear H. apply Fin; auto. apply quiet_app. auto. }
  destruct (is_always i) eqn:Ealw.
  - simpl in H. destruct (do_enabled c pool st1 cs) as [[en3 st3] o3] eqn:Een.
    destruct (do_enabled_spec _ _ _ _ _ _ _ Hwf (eq_trans B1 Ib) Een) as (b & E2 & Q2 & Er & Hf & Ht). subst st3.
    destruct en3; simpl in H; [inversion H|].
    rewrite (Hf eq_refl) in *. inversion H; subst st' out; clear H. apply Fin; auto.
    apply quiet_app. split; auto. apply quiet_app. auto.
  - destruct (do_enabled c pool st1 cs) as [[en st2] o2] eqn:Een.
    destruct (do_enabled_spec _ _ _ _ _ _ _ Hwf (eq_trans B1 Ib) Een) as (b & E2 & Q2 & Er & Hf & Ht). subst st2.
    destruct en; simpl in H.
    + destruct (do_enabled c pool (with_bits st1 b) cs) as [[en3 st3] o3]. rewrite orb_true_r in H. inversion H.
    + rewrite (Hf eq_refl) in *. inversion H; subst st' out; clear H. apply Fin; auto.
      apply quiet_app. split; auto. apply quiet_app. auto.
Qed.
