(** C07 — two stacks live on two threads (executable, no proofs).  Everything per-thread is per-thread in the
    code too: the FilterState thread-local (bitmap + pending interest), the default dispatcher, each stack's
    own Registry with its span pool and its per-thread span stack.  What the two share is the per-callsite
    interest cache: the first thread to hit a callsite has *every* live dispatcher register it
    (tracing-core callsite.rs, rebuild_callsite_interest), combines the answers with [Interest::and] and
    caches the result in the callsite. *)
From Coq Require Import NArith List Bool.
From TV Require Import Stack.Model.
Import ListNotations.
Local Open Scope N_scope.

(** Interest::and *)
Definition iand (a b : interest) : interest :=
  match a, b with
  | INever, INever => INever
  | IAlways, IAlways => IAlways
  | _, _ => ISometimes
  end.

Inductive tid := TA | TB.
Record state2 := State2 { s_a : state; s_b : state }.
Definition init2 : state2 := State2 init init.

Definition set_cache (st : state) (cs : N) (i : interest) : state :=
  State (st_bits st) (st_pending st) (st_spans st) (st_stack st) ((cs, i) :: st_cache st) (st_next st) (st_handles st).
Definition cs_of_op (o : op) : option N :=
  match o with OEvent cs | OSpan cs | OProbe cs => Some cs | _ => None end.

Section Two.
  Variables ca cb : coll.
  Variable mx : N.                 (* LevelFilter::current(): the maximum over both stacks' hints *)
  Variable pool : list meta.

  (** the registering thread runs both stacks' [register_callsite]; each stack's Registry takes back the pending
      interest its own Filtereds added, so nothing is left in the thread's FilterState *)
  Definition combined (cs : N) : interest :=
    iand (fst (c_register (haspsf ca) ca (meta_of pool cs) None)) (fst (c_register (haspsf cb) cb (meta_of pool cs) None)).
  Definition prep (s : state2) (o : op) : state2 :=
    match cs_of_op o with
    | Some cs =>
        if m_level (meta_of pool cs) <=? mx then
          match assoc cs (st_cache (s_a s)) with
          | Some _ => s
          | None => State2 (set_cache (s_a s) cs (combined cs)) (set_cache (s_b s) cs (combined cs))
          end
        else s
    | None => s
    end.
  Definition step2 (s : state2) (t : tid) (o : op) : state2 * list obs * bool :=
    let s1 := prep s o in
    match t with
    | TA => let '(st', out, bare) := step ca mx pool (s_a s1) o in (State2 st' (s_b s1), out, bare)
    | TB => let '(st', out, bare) := step cb mx pool (s_b s1) o in (State2 (s_a s1) st', out, bare)
    end.
  Fixpoint run2 (s : state2) (h : list (tid * op)) : state2 * list (list obs) * list bool :=
    match h with
    | [] => (s, [], [])
    | (t, o) :: r =>
        let '(s1, out, bare) := step2 s t o in
        let '(s2, outs, bares) := run2 s1 r in
        (s2, out :: outs, bare :: bares)
    end.
  Definition clean2_from (s : state2) (h : list (tid * op)) : bool := forallb negb (snd (run2 s h)).
  Definition clean2 (h : list (tid * op)) : bool := clean2_from init2 h.
End Two.
