(** C07 — the callsite-interest side: [Filter::callsite_enabled] is sound for the filter language, and the
    interest a stack registers for a callsite ([register_callsite] with [pick_interest], the pending interest
    of [FilterState::add_interest] / [take_interest]) is sound: `never` only if nobody would receive the
    callsite, `always` only if every global and every per-layer filter accepts it whatever the context. *)
From Coq Require Import NArith List Bool Lia.
From TV Require Import Stack.Model Stack.Spec Stack.Bits Stack.Passes.
Import ListNotations.
Local Open Scope N_scope.

(** * Filters *)
Lemma f_interest_sound : forall f m, f12_free f m ->
  (f_interest f m = IAlways -> forall cur, f_enabled f m cur = true) /\
  (f_interest f m = INever -> forall cur, f_enabled f m cur = false).
Proof.
  induction f; intros m HF; simpl in *.
  - destruct (m_level m <=? l); split; intros; congruence.
  - destruct (assoc (m_target m) tbl) as [l|]; [|destruct dflt as [l|]]; try (destruct (m_level m <=? l)); split; intros; congruence.
  - destruct (p m); split; intros; congruence.
  - split; intros; discriminate.
  - unfold env_enabled. destruct (is_span m && dyn_matches dy m) eqn:Em; simpl.
    + split; [|discriminate]. intros _ cur. rewrite (proj2 (N.leb_le _ _) (HF eq_refl)). reflexivity.
    + destruct (env_static st dflt m) eqn:Es.
      * split; [|discriminate]. intros _ cur. apply orb_true_r.
      * destruct dy; split; intros; try discriminate. rewrite orb_false_r.
        destruct (m_level m <=? _); simpl; auto. induction cur; simpl; auto.
  - split; intros; congruence.
  - destruct HF as [H1 H2]. destruct (IHf1 m H1) as [A1 N1]. destruct (IHf2 m H2) as [A2 N2].
    destruct (f_interest f1 m), (f_interest f2 m); simpl; split; intros H cur; try discriminate;
      try (rewrite N1 by auto); try (rewrite N2 by auto); try (rewrite A1 by auto); try (rewrite A2 by auto); auto using andb_false_r.
  - destruct HF as [H1 H2]. destruct (IHf1 m H1) as [A1 N1]. destruct (IHf2 m H2) as [A2 N2].
    destruct (f_interest f1 m), (f_interest f2 m); simpl; split; intros H cur; try discriminate;
      try (rewrite N1 by auto); try (rewrite N2 by auto); try (rewrite A1 by auto); try (rewrite A2 by auto); auto using orb_true_r.
  - destruct (IHf m HF) as [A1 N1]. destruct (f_interest f m); split; intros H cur; try discriminate;
      try (rewrite N1 by auto); try (rewrite A1 by auto); auto.
Qed.

(** * The pending interest *)
Definition psum (p : option interest) (xs : list interest) : option interest := fold_left add_interest xs p.
Lemma psum_app : forall xs ys p, psum p (xs ++ ys) = psum (psum p xs) ys.
Proof. intros. unfold psum. apply fold_left_app. Qed.
Lemma psum_some : forall xs i, exists j, psum (Some i) xs = Some j.
Proof.
  induction xs as [|x xs IH]; intro i; simpl. - eauto. - unfold add_interest. destruct (_ || _); apply IH.
Qed.
Lemma psum_none : forall xs p, psum p xs = None -> p = None /\ xs = [].
Proof.
  intros [|x xs] p H; simpl in H. - auto. - destruct p as [i|]; simpl in H.
    + destruct (_ || _); destruct (psum_some xs ISometimes) as [j Hj]; destruct (psum_some xs i) as [j' Hj']; unfold psum in *; congruence.
    + destruct (psum_some xs x) as [j Hj]. unfold psum in *. congruence.
Qed.
Lemma psum_sometimes : forall xs, psum (Some ISometimes) xs = Some ISometimes.
Proof. induction xs as [|x xs IH]; simpl; auto. Qed.
Lemma psum_always : forall xs p, psum p xs = Some IAlways -> (p = None \/ p = Some IAlways) /\ forall x, In x xs -> x = IAlways.
Proof.
  induction xs as [|x xs IH]; intros p H; simpl in H.
  - split; auto. intros x [].
  - apply IH in H. destruct H as [Hp Hxs]. destruct p as [i|]; simpl in Hp.
    + destruct i, x; simpl in Hp; destruct Hp as [Hp|Hp]; try discriminate; split; auto; intros y [Hy|Hy]; subst; auto.
    + destruct Hp as [Hp|Hp]; try discriminate. inversion Hp; subst. split; auto. intros y [Hy|Hy]; subst; auto.
Qed.
Lemma psum_never : forall xs p, psum p xs = Some INever -> (p = None \/ p = Some INever) /\ forall x, In x xs -> x = INever.
Proof.
  induction xs as [|x xs IH]; intros p H; simpl in H.
  - split; auto. intros x [].
  - apply IH in H. destruct H as [Hp Hxs]. destruct p as [i|]; simpl in Hp.
    + destruct i, x; simpl in Hp; destruct Hp as [Hp|Hp]; try discriminate; split; auto; intros y [Hy|Hy]; subst; auto.
    + destruct Hp as [Hp|Hp]; try discriminate. inversion Hp; subst. split; auto. intros y [Hy|Hy]; subst; auto.
Qed.

(** the interests the reachable [Filtered]s of a tree add, in traversal order *)
Fixpoint adds (l : layer) (m : meta) : list interest :=
  match l with
  | Rec _ _ | Glob _ => []
  | Filt _ l' f => let i := f_interest f m in (if is_never i then [] else adds l' m) ++ [i]
  | Pair o i => adds o m ++ adds i m
  | LOpt None => []
  | LOpt (Some l') => adds l' m
  | LVec ls => flat_map (fun x => adds x m) ls
  end.
Definition gnever (m : meta) (gs : list filt) : bool := existsb (fun g => is_never (f_interest g m)) gs.

Lemma psf_globs : forall l, shape l -> psf l = true -> globs l = [].
Proof.
  induction l using layer_ind'; simpl; intros Hs Hp; try discriminate; auto.
  - destruct Hs. apply plain_globs. auto.
  - destruct Hs. apply andb_true_iff in Hp. destruct Hp. rewrite IHl1, IHl2; auto.
  - apply andb_true_iff in Hp. destruct Hp as [_ Hp].
    induction ls as [|x xs IH]; simpl in *; auto. inversion H; subst. destruct Hs as [Hx Hxs].
    apply andb_true_iff in Hp. destruct Hp as [Hpx Hpxs]. rewrite H2 by auto. simpl. apply IH; auto.
Qed.

Lemma vec_verdict_nn : forall aa, vec_verdict false aa <> INever.
Proof. intros []; discriminate. Qed.
Lemma vec_verdict_na : forall an, vec_verdict an false <> IAlways.
Proof. intros []; discriminate. Qed.

(** ** one layer: no global filter says never *)
Definition RegOk (l : layer) : Prop := forall ov m p,
  shape l -> gnever m (globs l) = false ->
  fst (l_register ov l m p) <> INever /\ snd (l_register ov l m p) = psum p (adds l m).

Lemma l_register_ok : forall l, RegOk l.
Proof.
  induction l using layer_ind'; intros ov m p Hs Hg; simpl in *.
  - split; auto. discriminate.
  - split; auto. rewrite orb_false_r in Hg. destruct (f_interest g m); simpl in *; congruence.
  - destruct Hs as [Hpl Hs]. split; [discriminate|].
    rewrite psum_app. simpl. destruct (is_never (f_interest f m)); auto.
    destruct (IHl ov m p Hs) as [_ E]. { rewrite (plain_globs _ Hpl). reflexivity. } rewrite E. reflexivity.
  - destruct Hs as [Hso Hsi]. unfold gnever in Hg. rewrite existsb_app in Hg. apply orb_false_iff in Hg. destruct Hg as [Hgo Hgi].
    destruct (IHl1 ov m p Hso Hgo) as [No Eo].
    destruct (l_register ov l1 m p) as [oi p1]. simpl in No, Eo. subst p1.
    destruct (IHl2 ov m (psum p (adds l1 m)) Hsi Hgi) as [Ni Ei].
    rewrite psum_app. unfold pick_interest.
    destruct (psf l1); auto.
    destruct (is_never oi) eqn:En. { destruct oi; simpl in En; congruence. }
    destruct (l_register ov l2 m (psum p (adds l1 m))) as [ii p2]. simpl in Ni, Ei.
    destruct (is_sometimes oi); simpl; auto.
    destruct (is_never ii) eqn:En2. { destruct ii; simpl in En2; congruence. } simpl. auto.
  - split; auto. discriminate.
  - apply IHl; auto.
  - assert (G : forall an aa p,
               (an = false -> fst (reg_fold (fun x p => l_register ov x m p) ls an aa p) <> INever) /\
               snd (reg_fold (fun x p => l_register ov x m p) ls an aa p) = psum p (flat_map (fun x => adds x m) ls)).
    { induction ls as [|x xs IH]; intros an aa p0; simpl.
      - split; auto. intros ->. apply vec_verdict_nn.
      - inversion H; subst. simpl in Hs, Hg. destruct Hs as [Hsx Hsxs].
        unfold gnever in Hg. rewrite existsb_app in Hg. apply orb_false_iff in Hg. destruct Hg as [Hgx Hgxs].
        destruct (H2 ov m p0 Hsx Hgx) as [Nx Ex]. destruct (l_register ov x m p0) as [ni p1]. simpl in Nx, Ex. subst p1.
        rewrite psum_app. destruct (IH H3 Hsxs Hgxs (an || is_never ni) (aa && is_always ni) (psum p0 (adds x m))) as [I1 I2].
        split; auto. intros ->. apply I1. destruct ni; simpl; congruence. }
    destruct (G false true p) as [G1 G2]. split; auto.
Qed.

(** ** one layer: a global filter that is not `always` keeps the layer's answer away from `always` *)
Definition gnotalways (m : meta) (gs : list filt) : bool := existsb (fun g => negb (is_always (f_interest g m))) gs.
Lemma l_register_notalways : forall l ov m p, shape l -> gnotalways m (globs l) = true -> fst (l_register ov l m p) <> IAlways.
Proof.
  induction l using layer_ind'; intros ov m p Hs Hg; simpl in *; try discriminate.
  - rewrite orb_false_r in Hg. destruct (f_interest g m); simpl in *; congruence.
  - destruct Hs as [Hpl _]. rewrite (plain_globs _ Hpl) in Hg. discriminate.
  - destruct Hs as [Hso Hsi]. unfold gnotalways in Hg. rewrite existsb_app in Hg. apply orb_true_iff in Hg.
    destruct (l_register ov l1 m p) as [oi p1] eqn:E1. unfold pick_interest.
    destruct Hg as [Hg|Hg].
    + destruct (psf l1) eqn:Ep. { rewrite (psf_globs _ Hso Ep) in Hg. discriminate. }
      pose proof (IHl1 ov m p Hso Hg) as No. rewrite E1 in No. simpl in No.
      destruct oi; simpl; try congruence. destruct (l_register ov l2 m p1). simpl. discriminate.
    + pose proof (IHl2 ov m p1 Hsi Hg) as Ni.
      destruct (psf l1); auto. destruct (is_never oi) eqn:En. { destruct oi; simpl in *; congruence. }
      destruct (l_register ov l2 m p1) as [ii p2]. simpl in Ni.
      destruct (is_sometimes oi) eqn:Es. { destruct oi; simpl in *; congruence. }
      destruct (is_never ii && _); simpl; congruence.
  - apply IHl; auto.
  - assert (G : forall an aa p, (aa = false \/ gnotalways m (flat_map globs ls) = true) ->
               fst (reg_fold (fun x p => l_register ov x m p) ls an aa p) <> IAlways).
    { clear Hg. induction ls as [|x xs IH]; intros an aa p0 Hc; simpl.
      - destruct Hc as [->|Hc]; [apply vec_verdict_na | discriminate].
      - inversion H; subst. simpl in Hs. destruct Hs as [Hsx Hsxs].
        destruct (l_register ov x m p0) as [ni p1] eqn:Ex. apply IH; auto.
        destruct Hc as [->|Hc]; [left; reflexivity|].
        simpl in Hc. unfold gnotalways in Hc. rewrite existsb_app in Hc. apply orb_true_iff in Hc. destruct Hc as [Hc|Hc].
        + left. pose proof (H2 ov m p0 Hsx Hc) as Nx. rewrite Ex in Nx. simpl in Nx. destruct ni; simpl; try congruence; apply andb_false_r.
        + right. exact Hc. }
    apply G. right. exact Hg.
Qed.

(** ** what the added interests say about the leaves *)
Lemma adds_all_always : forall l m, (forall i, In i (adds l m) -> i = IAlways) ->
  forall n v ch, In (n, v, ch) (recs l) -> forall e, In e ch -> f_interest (snd e) m = IAlways.
Proof.
  induction l using layer_ind'; simpl; intros m Ha n0 v0 ch Hin e He.
  - destruct Hin as [E|[]]. inversion E; subst. destruct He.
  - destruct Hin.
  - apply in_map_iff in Hin. destruct Hin as [[[n1 v1] ch1] [E Hin]]. simpl in E. inversion E; subst.
    assert (Hf : f_interest f m = IAlways) by (apply Ha; apply in_or_app; right; left; reflexivity).
    destruct He as [He|He]. + subst e. exact Hf.
    + eapply IHl; eauto. intros i Hi. apply Ha. apply in_or_app. left. rewrite Hf. simpl. exact Hi.
  - apply in_app_or in Hin. destruct Hin; [eapply IHl1 | eapply IHl2]; eauto; intros; apply Ha; apply in_or_app; auto.
  - destruct Hin.
  - eapply IHl; eauto.
  - apply in_flat_map in Hin. destruct Hin as [x [Hx Hin]]. rewrite Forall_forall in H. eapply H; eauto.
    intros i Hi. apply Ha. apply in_flat_map. exists x. auto.
Qed.
Lemma psf_adds_never : forall l m, psf l = true -> (forall i, In i (adds l m) -> i = INever) ->
  forall n v ch, In (n, v, ch) (recs l) -> exists k f ch', ch = (k, f) :: ch' /\ f_interest f m = INever.
Proof.
  induction l using layer_ind'; simpl; intros m Hp Ha n0 v0 ch Hin; try discriminate.
  - apply in_map_iff in Hin. destruct Hin as [[[n1 v1] ch1] [E Hin]]. simpl in E. inversion E; subst.
    exists k, f, ch1. split; auto. apply Ha. apply in_or_app. right. left. reflexivity.
  - apply andb_true_iff in Hp. destruct Hp. apply in_app_or in Hin.
    destruct Hin; [eapply IHl1 | eapply IHl2]; eauto; intros; apply Ha; apply in_or_app; auto.
  - eapply IHl; eauto.
  - apply andb_true_iff in Hp. destruct Hp as [_ Hp]. rewrite forallb_forall in Hp.
    apply in_flat_map in Hin. destruct Hin as [x [Hx Hin]]. rewrite Forall_forall in H. eapply H; eauto.
    intros i Hi. apply Ha. apply in_flat_map. exists x. auto.
Qed.

Lemma chain_all_always : forall ch m st cm, (forall e, In e ch -> f12_free (snd e) m) ->
  (forall e, In e ch -> f_interest (snd e) m = IAlways) -> chain_accept st cm ch m = true.
Proof.
  induction ch as [|[k f] r IH]; intros m st cm HF H; simpl; auto.
  rewrite (proj1 (f_interest_sound f m (HF (k, f) (or_introl eq_refl)))) by (apply (H (k, f)); left; reflexivity). simpl.
  apply IH; intros e He; [apply HF | apply H]; right; exact He.
Qed.
Lemma chain_head_never : forall k f ch m st cm, f12_free f m -> f_interest f m = INever -> chain_accept st cm ((k, f) :: ch) m = false.
Proof. intros. simpl. rewrite (proj2 (f_interest_sound f m H)) by auto. reflexivity. Qed.
