(** C07 — glue for evaluating Stack.Model on the cases the driver generates (no proofs):
    the 45-callsite pool of harness/stack/src/bin/h_stack.rs and the table-shaped closures. *)
From Coq Require Import NArith List Bool.
From TV Require Import Stack.Model.
Import ListNotations.
Local Open Scope N_scope.

Definition kind_of_cs (cs : N) : kind := if cs <? 15 then KEvent else if cs <? 30 then KSpan else KHint.
(** cs = kind * 15 + (level - 1) * 3 + target *)
Definition meta45 (cs : N) : meta := Meta cs (1 + (cs mod 15) / 3) (cs mod 3) (kind_of_cs cs).
Definition pool45 : list meta := map (fun i => meta45 (N.of_nat i)) (seq 0 45).

Definition nov : meta -> bool := fun _ => false.
Definition in_set (s : list N) (m : meta) : bool := existsb (N.eqb (m_cs m)) s.
Definition cur_code (o : list meta) : N := match o with [] => 0 | s :: _ => m_cs s + 1 end.
Definition dyn_tbl (allow cs : list N) (m : meta) (cur : list meta) : bool :=
  existsb (N.eqb (cur_code cur)) allow || in_set cs m.

(** one case: per-operation observations, per-operation `bare` flags, final bitmap *)
Definition run_case (c : coll) (mx : N) (h : list op) : list (list obs) * list bool * N :=
  let b := build c in
  let '(st, outs, bares) := run b mx pool45 init h in
  (outs, bares, st_bits st).

(** two stacks on two threads (Model2): per-operation observations of the acting thread's own stack,
    `bare` flags, and the final bitmaps of both threads *)
From TV Require Import Stack.Model2.
Definition run2_case (ca cb : coll) (mx : N) (h : list (tid * op)) : list (list obs) * list bool * (N * N) :=
  let '(s, outs, bares) := run2 (build ca) (build cb) mx pool45 init2 h in
  (outs, bares, (st_bits (s_a s), st_bits (s_b s))).
