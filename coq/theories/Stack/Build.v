(** C07 — [build] (FilterIds handed out in [on_subscribe] order, [Registry::register_filter]) turns any stack
    of the class with at most 63 per-layer filters and distinct leaf names into a well-formed one. *)
From Coq Require Import NArith List Bool Lia.
From TV Require Import Stack.Model Stack.Spec Stack.Bits Stack.Passes.
Import ListNotations.
Local Open Scope N_scope.
Local Arguments N.add : simpl never.

Definition names (l : layer) : list N := map (fun r => fst (fst r)) (recs l).
Definition coll_names (c : coll) : list N := map (fun r => fst (fst r)) (coll_recs c).

Record PreWF (c : coll) : Prop := {
  pre_shape : coll_shape c;
  pre_count : coll_nfilt c <= 63;
  pre_names : NoDup (coll_names c)
}.

Lemma NoDup_app_intro : forall (A : Type) (a b : list A), NoDup a -> NoDup b -> (forall x, In x a -> In x b -> False) -> NoDup (a ++ b).
Proof.
  induction a as [|x a IH]; simpl; intros b Ha Hb Hd; auto.
  inversion Ha; subst. constructor.
  - intro Hin. apply in_app_or in Hin. destruct Hin; [contradiction|]. eapply Hd; eauto.
  - apply IH; auto. intros y Hy. apply Hd. auto.
Qed.

Definition AssignOk (l : layer) : Prop := forall n l2 n2, assign l n = (l2, n2) ->
  n2 = n + nfilt l /\ (forall k, In k (ids l2) -> n <= k < n2) /\ NoDup (ids l2) /\
  names l2 = names l /\ (plain l -> plain l2) /\ (shape l -> shape l2).

Lemma names_filt : forall k l f, names (Filt k l f) = names l.
Proof. intros. unfold names. simpl. rewrite map_map. reflexivity. Qed.

Lemma assign_ok : forall l, AssignOk l.
Proof.
  induction l using layer_ind'; intros n0 lz n2 Ha; simpl in Ha.
  - inversion Ha; subst. simpl. repeat split; auto; try lia; try constructor; try (intros k []).
  - inversion Ha; subst. simpl. repeat split; auto; try lia; try constructor; try (intros k0 []).
  - destruct (assign l (n0 + 1)) as [l3 n3] eqn:E. inversion Ha; subst; clear Ha.
    destruct (IHl _ _ _ E) as (En & Hr & Hnd & Hnm & Hpl & Hsh). simpl. split; [lia|]. split; [|split; [|split; [|split]]].
    + intros k0 [Hk|Hk]. * subst. lia. * apply Hr in Hk. lia.
    + constructor; auto. intro Hin. apply Hr in Hin. lia.
    + rewrite !names_filt. exact Hnm.
    + auto.
    + intros [A B]. auto.
  - destruct (assign l1 n0) as [o2 n1] eqn:E1. destruct (assign l2 n1) as [i2 n3] eqn:E2. inversion Ha; subst; clear Ha.
    destruct (IHl1 _ _ _ E1) as (En1 & Hr1 & Hnd1 & Hnm1 & Hpl1 & Hsh1).
    destruct (IHl2 _ _ _ E2) as (En2 & Hr2 & Hnd2 & Hnm2 & Hpl2 & Hsh2).
    simpl. split; [lia|]. split; [|split; [|split; [|split]]].
    + intros k Hk. apply in_app_or in Hk. destruct Hk as [Hk|Hk]; [apply Hr1 in Hk | apply Hr2 in Hk]; lia.
    + apply NoDup_app_intro; auto. intros k Ha Hb. apply Hr1 in Ha. apply Hr2 in Hb. lia.
    + unfold names in *. simpl. rewrite !map_app. congruence.
    + intros [A B]. auto.
    + intros [A B]. auto.
  - inversion Ha; subst. simpl. repeat split; auto; try lia; try constructor; try (intros k []).
  - destruct (assign l n0) as [l3 n3] eqn:E. inversion Ha; subst; clear Ha.
    destruct (IHl _ _ _ E) as (En & Hr & Hnd & Hnm & Hpl & Hsh). simpl. repeat split; auto; apply Hr; auto.
  - destruct (assign_list assign ls n0) as [ls2 n3] eqn:E. inversion Ha; subst; clear Ha. simpl.
    revert n0 ls2 n2 E. induction ls as [|x xs IH]; intros n0 ls2 n2 E; simpl in E.
    + inversion E; subst. simpl. repeat split; auto; try lia; try constructor; try (intros k []).
    + destruct (assign x n0) as [x2 n1] eqn:E1. destruct (assign_list assign xs n1) as [xs2 n3] eqn:E2.
      inversion E; subst; clear E. inversion H; subst.
      destruct (H2 _ _ _ E1) as (En1 & Hr1 & Hnd1 & Hnm1 & Hpl1 & Hsh1).
      destruct (IH H3 _ _ _ E2) as (En2 & Hr2 & Hnd2 & Hnm2 & Hpl2 & Hsh2).
      simpl. split; [lia|]. split; [|split; [|split; [|split]]].
      * intros k Hk. apply in_app_or in Hk. destruct Hk as [Hk|Hk]; [apply Hr1 in Hk | apply Hr2 in Hk]; lia.
      * apply NoDup_app_intro; auto. intros k Ha Hb. apply Hr1 in Ha. apply Hr2 in Hb. lia.
      * unfold names in *. simpl in *. rewrite !map_app. congruence.
      * intros [A B]. auto.
      * intros [A B]. auto.
Qed.

Lemma assign_coll_ok : forall c c2 n, assign_coll c = (c2, n) ->
  n = coll_nfilt c /\ (forall k, In k (coll_ids c2) -> k < n) /\ NoDup (coll_ids c2) /\
  coll_names c2 = coll_names c /\ (coll_shape c -> coll_shape c2).
Proof.
  induction c as [|l c IH]; intros c2 n H; simpl in H.
  - inversion H; subst. simpl. repeat split; auto; try constructor; try (intros k []).
  - destruct (assign_coll c) as [c3 n1] eqn:E1. destruct (assign l n1) as [l2 n2] eqn:E2. inversion H; subst; clear H.
    destruct (IH _ _ eq_refl) as (En & Hr & Hnd & Hnm & Hsh).
    destruct (assign_ok l _ _ _ E2) as (En2 & Hr2 & Hnd2 & Hnm2 & _ & Hsh2).
    simpl. split; [lia|]. unfold coll_ids, coll_names, coll_recs, coll_shape in *. simpl. split; [|split; [|split]].
    + intros k Hk. apply in_app_or in Hk. destruct Hk as [Hk|Hk]; [apply Hr2 in Hk | apply Hr in Hk]; lia.
    + apply NoDup_app_intro; auto. intros k Ha Hb. apply Hr2 in Ha. apply Hr in Hb. lia.
    + rewrite !map_app. unfold names in Hnm2. congruence.
    + intros Hs. inversion Hs; subst. constructor; auto.
Qed.

Theorem build_WF : forall c, PreWF c -> WF (build c).
Proof.
  intros c [Hs Hc Hn]. unfold build. destruct (assign_coll c) as [c2 n] eqn:E. simpl.
  destruct (assign_coll_ok _ _ _ E) as (En & Hr & Hnd & Hnm & Hsh).
  constructor; auto.
  - apply Forall_forall. intros k Hk. apply Hr in Hk. lia.
  - fold (coll_names c2). rewrite Hnm. exact Hn.
Qed.
