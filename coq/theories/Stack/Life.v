(** C07 — span follow-ups (enter / exit / record / close, with the cascade of [try_close] to the parents):
    a leaf gets the notification for a span iff it was told about the span ([on_new_span]), which is what the
    filter map stored in the span says; nothing in these operations touches the per-thread bitmap. *)
From Coq Require Import NArith List Bool Lia.
From TV Require Import Stack.Model Stack.Spec Stack.Bits Stack.Passes Stack.Interest Stack.Register Stack.Coll Stack.Inv Stack.Steps.
Import ListNotations.
Local Open Scope N_scope.
Local Arguments N.add : simpl never.
Local Arguments N.leb : simpl never.
Local Arguments N.ltb : simpl never.
Local Arguments N.eqb : simpl never.
Local Arguments N.sub : simpl never.

(** every notification of a follow-up pass is made by a leaf of the tree, with the FilterIds of its chain *)
Lemma l_life_records : forall l w id st cm o, small (ids l) -> bit cm 63 = false -> In o (l_life l w id st cm) ->
  exists n v ch, In (n, v, ch) (recs l) /\ o = record n st (N.lor cm (mask_of ch)) w.
Proof.
  induction l using layer_ind'; intros w id st cm o Hsm Hcm Hin; simpl in *.
  - destruct Hin as [E|[]]. exists n, v, []. split; auto. simpl. rewrite N.lor_0_r. auto.
  - destruct Hin.
  - inversion Hsm as [|? ? Hk Hsm']; subst. rewrite fid_and_lor in Hin by auto.
    destruct (if visible st cm id then sp_get st id else None) as [d|]; [|destruct Hin].
    destruct (fm_enabled (sd_fmap d) (fid_new k)); [|destruct Hin].
    apply IHl in Hin; auto using bit63_lor. destruct Hin as (n & v & ch & Hr & E).
    exists n, v, ((k, f) :: ch). split.
    + apply in_map_iff. exists (n, v, ch). auto.
    + cbn [mask_of]. rewrite N.lor_assoc. exact E.
  - apply small_app in Hsm. destruct Hsm. apply in_app_or in Hin. destruct Hin as [Hin|Hin].
    + apply IHl2 in Hin; auto. destruct Hin as (n & v & ch & Hr & E). exists n, v, ch. split; auto. apply in_or_app. auto.
    + apply IHl1 in Hin; auto. destruct Hin as (n & v & ch & Hr & E). exists n, v, ch. split; auto. apply in_or_app. auto.
  - destruct Hin.
  - eauto.
  - apply in_flat_map in Hin. destruct Hin as [x [Hx Hin]]. rewrite Forall_forall in H.
    assert (Hsx : small (ids x)).
    { unfold small in *. rewrite Forall_forall in *. intros j Hj. apply Hsm. apply in_flat_map. eauto. }
    destruct (H x Hx w id st cm o Hsx Hcm Hin) as (n & v & ch & Hr & E). exists n, v, ch. split; auto. apply in_flat_map. eauto.
Qed.

Lemma c_life_records : forall c w id st o, WF c -> In o (c_life c w id st) ->
  exists n v ch, In (n, v, ch) (coll_recs c) /\ o = record n st (mask_of ch) w.
Proof.
  intros c w id st o Hwf Hin. rewrite c_life_eq in Hin.
  apply l_life_records in Hin; [| rewrite ids_as_layer; apply Hwf | apply bit_0].
  destruct Hin as (n & v & ch & Hr & E). rewrite recs_as_layer in Hr. rewrite N.lor_0_l in E. eauto.
Qed.

Definition sees_past := toldg.
Lemma sees_past_own : forall c past st' out, news_of out = [] ->
  sees_past c past (st_stack st') (st_spans st') out -> told c past st' out.
Proof. intros c past st' out E H. unfold told. rewrite E, app_nil_r. exact H. Qed.
Lemma sees_past_app : forall c past sk sp a b, sees_past c past sk sp a -> sees_past c past sk sp b -> sees_past c past sk sp (a ++ b).
Proof. exact toldg_app. Qed.
Lemma sees_past_quiet : forall c past sk sp out, quiet out -> sees_past c past sk sp out.
Proof. exact toldg_quiet. Qed.
(** [on_close] notifications are allowed any span pool *)
Lemma sees_past_closes : forall c past sk sp sp' out,
  (forall n w cur sc par nav, In (ODeliver n w cur sc par nav) out -> exists id, w = WClose id) ->
  sees_past c past sk sp out -> sees_past c past sk sp' out.
Proof.
  intros c past sk sp sp' out Hc H o n Hin Hl. destruct (H o n Hin Hl) as (stc & v & ch & w & next & Hr & E & Hk & _ & Hok).
  exists stc, v, ch, w, next. split; auto. split; auto. split; auto. split; auto. right.
  subst o. unfold record in Hin. eapply Hc. exact Hin.
Qed.

Definition no_calls (out : list obs) : Prop := forall p, ~ In (OCall p) out.

Lemma life_part : forall c st2 next past w id, WF c -> spans_ok c (st_spans st2) next past ->
  only w (c_life c w id st2) /\ follow_spec c past st2 w id (c_life c w id st2) /\
  sees_past c past (st_stack st2) (st_spans st2) (c_life c w id st2) /\ no_calls (c_life c w id st2).
Proof.
  intros c st2 next past w id Hwf Hok. split; [|split; [|split]].
  - intros n w' cur sc par nav Hin. apply c_life_records in Hin; auto. destruct Hin as (n' & v & ch & _ & E).
    apply record_inv in E. tauto.
  - intros Ha r Hr.
    destruct (recs_deliver_char c (fun ch => visible st2 (mask_of ch) id = true) st2 w _ Hwf (c_life_spec c Hwf w id st2 Ha)) as [_ Hchar].
    rewrite (Hchar r Hr). destruct r as [[n v] ch]. simpl. eapply alive_visible_past; eauto.
  - intros o n Hin Hl. apply c_life_records in Hin; auto. destruct Hin as (n' & v & ch & Hr & E). subst o.
    simpl in Hl. inversion Hl; subst n'. exists st2, v, ch, w, next. split; [exact Hr|]. split; [reflexivity|]. split; [reflexivity|]. split; [left; reflexivity | exact Hok].
  - intros p Hin. apply c_life_records in Hin; auto. destruct Hin as (n' & v & ch & _ & E). discriminate.
Qed.

Lemma delivered_app : forall n w a b, delivered n w (a ++ b) <-> delivered n w a \/ delivered n w b.
Proof.
  intros. unfold delivered. split.
  - intros (cur & sc & par & nav & H). apply in_app_or in H. destruct H; [left|right]; eauto.
  - intros [(cur & sc & par & nav & H)|(cur & sc & par & nav & H)]; exists cur, sc, par, nav; apply in_or_app; auto.
Qed.
Lemma delivered_nil : forall n w, ~ delivered n w [].
Proof. intros n w (cur & sc & par & nav & []). Qed.
Lemma delivered_call : forall n w p, ~ delivered n w [OCall p].
Proof. intros n w p (cur & sc & par & nav & [E|[]]). discriminate. Qed.

(** * try_close *)
Lemma assoc_sp_update_same : forall id f l d, assoc id l = Some d -> assoc id (sp_update id f l) = Some (f d).
Proof.
  induction l as [|[k d0] r IH]; simpl; intros d H; [discriminate|].
  destruct (N.eqb_spec id k).
  - inversion H; subst. simpl. rewrite N.eqb_refl. reflexivity.
  - simpl. destruct (N.eqb_spec id k); [contradiction|]. auto.
Qed.

Definition all_closes (out : list obs) : Prop :=
  forall n w cur sc par nav, In (ODeliver n w cur sc par nav) out -> exists id, w = WClose id.
Definition same_rest (st st' : state) : Prop :=
  st_bits st' = st_bits st /\ st_pending st' = st_pending st /\ st_cache st' = st_cache st /\ st_next st' = st_next st.

Lemma tc_nil : forall c past sk, all_closes [] /\ close_spec c past [] /\ forall sp, sees_past c past sk sp [].
Proof.
  intros. split; [intros n w cur sc par nav []|]. split; [|intros sp o n []].
  intros id' r Hr. split. - intros D. exfalso. eapply delivered_nil; eauto. - intros [[] _].
Qed.

Lemma try_close_spec : forall c past next, WF c -> forall fuel st id st' out,
  spans_ok c (st_spans st) next past -> try_close fuel c st id = (st', out) ->
  same_rest st st' /\ sub_pool (st_spans st') (st_spans st) /\
  all_closes out /\ close_spec c past out /\ (forall sp, sees_past c past (st_stack st) sp out) /\ st_stack st' = st_stack st.
Proof.
  intros c past next Hwf. induction fuel as [|k IH]; intros st id st' out Hok H.
  - simpl in H. inversion H; subst. split; [unfold same_rest; tauto|]. split; [apply sub_pool_refl|]. destruct (tc_nil c past (st_stack st')) as (A & B & C). auto.
  - cbn [try_close] in H. destruct (sp_get st id) as [d|] eqn:Eg.
    2:{ inversion H; subst. split; [unfold same_rest; tauto|]. split; [apply sub_pool_refl|]. destruct (tc_nil c past (st_stack st')) as (A & B & C). auto. }
    destruct (sd_refs d <=? 1).
    2:{ inversion H; subst. split; [unfold same_rest; simpl; tauto|]. split; [apply set_refs_sub|]. destruct (tc_nil c past (st_stack st)) as (A & B & C). auto. }
    set (st1 := set_refs st id 0) in *.
    assert (Hok1 : spans_ok c (st_spans st1) next past) by (eapply spans_ok_sub; [exact Hok | apply set_refs_sub]).
    assert (Ha1 : alive st1 id).
    { unfold alive, sp_get, st1, set_refs. simpl. unfold sp_get in Eg. rewrite (assoc_sp_update_same _ _ _ _ Eg). discriminate. }
    destruct (life_part c st1 next past (WClose id) id Hwf Hok1) as (Honly & Hfollow & Hsees & Hnc).
    set (out1 := c_life c (WClose id) id st1) in *.
    assert (Hsees1 : forall sp, sees_past c past (st_stack st) sp out1).
    { intros sp. eapply sees_past_closes; [|exact Hsees]. intros n w cur sc par nav Hin. apply Honly in Hin. eauto. }
    set (st2 := with_spans st1 (sp_remove id (st_spans st1))) in *.
    assert (Hsub2 : sub_pool (st_spans st2) (st_spans st)).
    { eapply sub_pool_trans; [apply sp_remove_sub | apply set_refs_sub]. }
    assert (Hclose1 : forall id' r, In r (coll_recs c) ->
              (delivered (fst (fst r)) (WClose id') out1 <-> id' = id /\ In (fst (fst r), id') past)).
    { intros id' r Hr. split.
      - intros D. assert (E : id' = id).
        { destruct D as (cur & sc & par & nav & D). apply Honly in D. inversion D. auto. }
        subst id'. split; auto. apply (Hfollow Ha1 r Hr). exact D.
      - intros [-> Hp]. apply (Hfollow Ha1 r Hr). exact Hp. }
    destruct (sd_parent d) as [p|].
    + destruct (try_close k c st2 p) as [st3 out3] eqn:E3. injection H as E1' E2'; subst st' out.
      assert (Hok2 : spans_ok c (st_spans st2) next past) by (eapply spans_ok_sub; [exact Hok | exact Hsub2]).
      destruct (IH st2 p st3 out3 Hok2 E3) as (Hr3 & Hs3 & Hac3 & Hcs3 & Hse3 & Hk3).
      split; [|split; [|split; [|split; [|split]]]].
      * unfold same_rest in *. simpl in *. tauto.
      * eapply sub_pool_trans; eauto.
      * intros n w cur sc par nav Hin. apply in_app_or in Hin. destruct Hin as [Hin|Hin].
        -- apply Honly in Hin. eauto.
        -- apply in_app_or in Hin. destruct Hin as [Hin|[Hin|[]]]; [eapply Hac3; eauto | discriminate].
      * intros id' r Hr. rewrite !delivered_app, (Hclose1 id' r Hr), (Hcs3 id' r Hr). split.
        -- intros [[-> Hp]|[[Hc Hp]|D]].
           ++ split; auto. apply in_or_app. right. apply in_or_app. right. left. reflexivity.
           ++ split; auto. apply in_or_app. right. apply in_or_app. left. exact Hc.
           ++ exfalso. eapply delivered_call; eauto.
        -- intros [Hc Hp]. apply in_app_or in Hc. destruct Hc as [Hc|Hc]; [exfalso; eapply Hnc; eauto|].
           apply in_app_or in Hc. destruct Hc as [Hc|[Hc|[]]].
           ++ right. left. auto.
           ++ inversion Hc; subst. left. auto.
      * intros sp. apply sees_past_app; auto. apply sees_past_app; [apply (Hse3 sp)|]. apply sees_past_quiet. apply quiet_cons; auto using quiet_nil.
      * rewrite Hk3. reflexivity.
    + injection H as E1' E2'; subst st' out.
      split; [|split; [|split; [|split; [|split]]]].
      * unfold same_rest. simpl. tauto.
      * exact Hsub2.
      * intros n w cur sc par nav Hin. apply in_app_or in Hin. destruct Hin as [Hin|[Hin|[]]]; [|discriminate].
        apply Honly in Hin. eauto.
      * intros id' r Hr. rewrite delivered_app, (Hclose1 id' r Hr). split.
        -- intros [[-> Hp]|D].
           ++ split; auto. apply in_or_app. right. left. reflexivity.
           ++ exfalso. eapply delivered_call; eauto.
        -- intros [Hc Hp]. apply in_app_or in Hc. destruct Hc as [Hc|[Hc|[]]]; [exfalso; eapply Hnc; eauto|].
           inversion Hc; subst. left. auto.
      * intros sp. apply sees_past_app; auto. apply sees_past_quiet. apply quiet_cons; auto using quiet_nil.
      * reflexivity.
Qed.

Lemma all_closes_news : forall out, all_closes out -> news_of out = [].
Proof.
  intros out H. apply news_of_none. intros n id (cur & sc & par & nav & Hin). apply H in Hin. destruct Hin as [x E]. discriminate.
Qed.

Lemma Inv_rest : forall c pool st st' past, Inv c pool st past -> same_rest st st' ->
  sub_pool (st_spans st') (st_spans st) -> Inv c pool st' past.
Proof.
  intros c pool st st' past [Ib Ip Ic Is Ipast] (B & P & C & N) Hsub.
  constructor; try congruence.
  - eapply cache_ok_eq; eauto.
  - rewrite N. eapply spans_ok_sub; eauto.
  - rewrite N. auto.
Qed.

(** * enter / record *)
Lemma step_enter : forall c mx pool h, step_ok c mx pool (OEnter h).
Proof.
  intros c mx pool h st past st' out Hwf Hh HI H. unfold step in H. simpl.
  destruct (handle st h) as [id|] eqn:Eh.
  2:{ inversion H; subst. rewrite app_nil_r. split; auto. split; auto. apply sees_quiet, quiet_nil. }
  unfold stack_push in H.
  set (st1 := with_stack st _) in H.
  set (st2 := if negb _ then add_ref st1 id else st1) in H.
  assert (Hrest : same_rest st st2 /\ sub_pool (st_spans st2) (st_spans st)).
  { unfold st2. destruct (negb _).
    - split; [unfold same_rest; simpl; tauto | apply (add_ref_sub st1 id)].
    - split; [unfold same_rest; simpl; tauto | apply sub_pool_refl]. }
  destruct Hrest as [Hrest Hsub].
  injection H as E1' E2'; subst st' out.
  assert (I2 : Inv c pool st2 past) by (eapply Inv_rest; eauto).
  destruct (life_part c st2 _ past (WEnter id) id Hwf (inv_spans _ _ _ _ I2)) as (Honly & Hfollow & Hsees & _).
  rewrite (news_of_only _ _ Honly) by discriminate. rewrite app_nil_r.
  split; auto. split; auto. apply sees_past_own; [eapply news_of_only; [exact Honly | discriminate] | exact Hsees].
Qed.

Lemma step_record : forall c mx pool h, step_ok c mx pool (ORecord h).
Proof.
  intros c mx pool h st past st' out Hwf Hh HI H. unfold step in H. simpl.
  destruct (handle st h) as [id|] eqn:Eh.
  2:{ inversion H; subst. rewrite app_nil_r. split; auto. split; auto. apply sees_quiet, quiet_nil. }
  injection H as E1' E2'; subst st' out.
  destruct (life_part c st _ past (WRecord id) id Hwf (inv_spans _ _ _ _ HI)) as (Honly & Hfollow & Hsees & _).
  rewrite (news_of_only _ _ Honly) by discriminate. rewrite app_nil_r.
  split; auto. split; auto. apply sees_past_own; [eapply news_of_only; [exact Honly | discriminate] | exact Hsees].
Qed.

(** * exit / drop *)
Lemma step_exit : forall c mx pool h, step_ok c mx pool (OExit h).
Proof.
  intros c mx pool h st past st' out Hwf Hh HI H. unfold step in H. simpl.
  destruct (handle st h) as [id|] eqn:Eh.
  2:{ inversion H; subst. rewrite app_nil_r. split; auto. split; auto. apply sees_quiet, quiet_nil. }
  assert (Tail : forall st2 o2, Inv c pool st2 past -> all_closes o2 -> close_spec c past o2 -> (forall sp, sees_past c past (st_stack st2) sp o2) ->
            (closes_or (WExit id) (o2 ++ c_life c (WExit id) id st2) /\
             follow_spec c past st2 (WExit id) id (o2 ++ c_life c (WExit id) id st2) /\
             close_spec c past (o2 ++ c_life c (WExit id) id st2)) /\
            Inv c pool st2 (past ++ news_of (o2 ++ c_life c (WExit id) id st2)) /\
            told c past st2 (o2 ++ c_life c (WExit id) id st2)).
  { intros st2 o2 I2 Hac Hcs Hse.
    destruct (life_part c st2 _ past (WExit id) id Hwf (inv_spans _ _ _ _ I2)) as (Honly & Hfollow & Hsees & Hnc).
    set (ol := c_life c (WExit id) id st2) in *.
    assert (Hnews : news_of (o2 ++ ol) = []).
    { apply news_of_none. intros n i D. apply delivered_app in D. destruct D as [D|D].
      - destruct D as (cur & sc & par & nav & D). apply Hac in D. destruct D as [x E]. discriminate.
      - destruct D as (cur & sc & par & nav & D). apply Honly in D. discriminate. }
    split; [split; [|split]|split]; [| | |rewrite Hnews, app_nil_r; auto|].
    - intros n w cur sc par nav Hin. apply in_app_or in Hin. destruct Hin as [Hin|Hin].
      + right. eapply Hac; eauto. + left. eapply Honly; eauto.
    - intros Ha r Hr. rewrite delivered_app, <- (Hfollow Ha r Hr). split; auto. intros [D|D]; auto.
      destruct D as (cur & sc & par & nav & D). apply Hac in D. destruct D as [x E]. discriminate.
    - intros id' r Hr. rewrite delivered_app, (Hcs id' r Hr). split.
      + intros [[Hc Hp]|D]. * split; auto. apply in_or_app. auto.
        * destruct D as (cur & sc & par & nav & D). apply Honly in D. discriminate.
      + intros [Hc Hp]. apply in_app_or in Hc. destruct Hc as [Hc|Hc]; [left; auto | exfalso; eapply Hnc; eauto].
    - apply sees_past_own; [exact Hnews|]. apply sees_past_app; auto. }
  assert (N1 : all_closes []) by apply (tc_nil c past []).
  assert (N2 : close_spec c past []) by apply (tc_nil c past []).
  assert (N3 : forall sk sp, sees_past c past sk sp []) by (intros sk sp; apply (tc_nil c past sk)).
  destruct (stack_pop id (st_stack st)) as [[s' fresh]|] eqn:Ep.
  - set (st1 := with_stack st s') in *.
    assert (I1 : Inv c pool st1 past).
    { eapply Inv_rest; [exact HI| |apply sub_pool_refl]. unfold same_rest. simpl. tauto. }
    destruct fresh.
    + destruct (try_close (fuel_of st1) c st1 id) as [st2 o2] eqn:Et.
      destruct (try_close_spec c past _ Hwf _ _ _ _ _ (inv_spans _ _ _ _ I1) Et) as (Hr & Hs & Hac & Hcs & Hse & Hk).
      injection H as E1' E2'; subst st' out.
      apply Tail; auto. eapply Inv_rest; eauto. rewrite Hk. exact Hse.
    + injection H as E1' E2'; subst st' out. apply (Tail st1 []); auto.
  - injection H as E1' E2'; subst st' out. apply (Tail st []); auto.
Qed.

Lemma step_drop : forall c mx pool h, step_ok c mx pool (ODrop h).
Proof.
  intros c mx pool h st past st' out Hwf Hh HI H. unfold step in H. simpl.
  destruct (handle st h) as [id|] eqn:Eh.
  2:{ inversion H; subst. rewrite app_nil_r. split; auto. split; auto. apply sees_quiet, quiet_nil. }
  destruct (try_close (fuel_of st) c st id) as [st1 o1] eqn:Et.
  destruct (try_close_spec c past _ Hwf _ _ _ _ _ (inv_spans _ _ _ _ HI) Et) as (Hr & Hs & Hac & Hcs & Hse & Hk).
  injection H as E1' E2'; subst st' out.
  split; [split|split]; [| |rewrite (all_closes_news _ Hac), app_nil_r|]; auto.
  - intros n w cur sc par nav Hin. right. eapply Hac; eauto.
  - eapply Inv_rest; [exact HI| |exact Hs]. unfold same_rest in *. simpl. tauto.
  - apply sees_past_own; [apply all_closes_news; auto|]. simpl. rewrite Hk. apply Hse.
Qed.
