(** C07 — the theorems about whole histories, the known finding F3 as machine-checked witnesses, and
    non-vacuity examples. *)
From Coq Require Import NArith List Bool Lia.
From TV Require Import Stack.Model Stack.Spec Stack.Bits Stack.Passes Stack.Interest Stack.Register Stack.Coll
  Stack.Inv Stack.Steps Stack.Life Stack.Build Stack.Harness.
Import ListNotations.
Local Open Scope N_scope.
Local Arguments N.add : simpl never.
Local Arguments N.leb : simpl never.
Local Arguments N.ltb : simpl never.
Local Arguments N.eqb : simpl never.

Lemma step_all : forall c mx pool o, step_ok c mx pool o.
Proof.
  intros c mx pool []; auto using step_event, step_span, step_enter, step_exit, step_record, step_drop, step_probe.
Qed.

Lemma Inv_init : forall c pool, Inv c pool init [].
Proof.
  intros. constructor; simpl; auto.
  - intros cs i H. discriminate.
  - intros id d [].
  - intros n id [].
Qed.

Lemma clean_from_cons : forall c mx pool st o r,
  clean_from c mx pool st (o :: r) =
  let '(st1, _, bare) := step c mx pool st o in negb bare && clean_from c mx pool st1 r.
Proof.
  intros. unfold clean_from. simpl. destruct (step c mx pool st o) as [[st1 out] bare].
  destruct (run c mx pool st1 r) as [[st2 outs] bares]. reflexivity.
Qed.
Lemma clean_is_clean_from : forall c mx pool h, clean c mx pool h = clean_from c mx pool init h.
Proof. reflexivity. Qed.

Definition final (c : coll) (mx : N) (pool : list meta) (st : state) (h : list op) : state :=
  fst (fst (run c mx pool st h)).
Lemma final_cons : forall c mx pool st o r,
  final c mx pool st (o :: r) = let '(st1, _, _) := step c mx pool st o in final c mx pool st1 r.
Proof.
  intros. unfold final. simpl. destruct (step c mx pool st o) as [[st1 out] bare].
  destruct (run c mx pool st1 r) as [[st2 outs] bares]. reflexivity.
Qed.

(** * The headline: every step of a clean history meets its specification *)
Theorem run_ok : forall c mx pool, WF c -> HintSound c mx pool ->
  forall h st past, Inv c pool st past -> clean_from c mx pool st h = true ->
  run_spec c mx pool st past h /\ run_lookup c mx pool st past h /\ run_exact c mx pool st past h /\
  exists past', Inv c pool (final c mx pool st h) past'.
Proof.
  intros c mx pool Hwf Hh. induction h as [|o r IH]; intros st past HI Hc.
  - simpl. split; auto. split; auto. split; auto. exists past. exact HI.
  - rewrite clean_from_cons in Hc. rewrite final_cons. simpl.
    destruct (step c mx pool st o) as [[st1 out] bare] eqn:Es.
    apply andb_true_iff in Hc. destruct Hc as [Hb Hc]. destruct bare; [discriminate|].
    destruct (step_all c mx pool o st past st1 out Hwf Hh HI Es) as (Hspec & HI1 & Hsees).
    destruct (IH st1 _ HI1 Hc) as (A & B & C & D).
    split; [auto|]. split; [split; [eapply told_sees; eauto | exact B]|]. split; [split; [eapply told_exact; eauto | exact C]|exact D].
Qed.

Theorem isolation : forall c mx pool h, WF c -> HintSound c mx pool -> clean c mx pool h = true ->
  run_spec c mx pool init [] h.
Proof. intros c mx pool h Hwf Hh Hc. apply (run_ok c mx pool Hwf Hh h init [] (Inv_init c pool) Hc). Qed.

Theorem lookup_filtered : forall c mx pool h, WF c -> HintSound c mx pool -> clean c mx pool h = true ->
  run_lookup c mx pool init [] h.
Proof. intros c mx pool h Hwf Hh Hc. apply (run_ok c mx pool Hwf Hh h init [] (Inv_init c pool) Hc). Qed.

Theorem lookup_exact : forall c mx pool h, WF c -> HintSound c mx pool -> clean c mx pool h = true ->
  run_exact c mx pool init [] h.
Proof. intros c mx pool h Hwf Hh Hc. apply (run_ok c mx pool Hwf Hh h init [] (Inv_init c pool) Hc). Qed.

(** every hop of [SpanRef::parent] keeps the FilterId of the SpanRef it started from, and lands on the nearest real
    ancestor that FilterId does not disable: climbing never leaves the layer's own view *)
Theorem parent_hop : forall st r p, sr_parent st r = Some p ->
  snd p = snd r /\ visible st (snd r) (fst p) = true /\
  Some (fst p) = hd_error (filter (visible st (snd r)) (above st (fst r))).
Proof.
  intros st r p H. split; [eapply sr_parent_filter; eauto|]. split; [eapply sr_parent_visible; eauto|].
  unfold sr_parent in H. rewrite (span_parent_by st (snd r) (visible st (snd r)) (fun _ => eq_refl) (Some (fst r))) in H.
  unfold parent_by in H. destruct (hd_error _) as [x|]; inversion H; reflexivity.
Qed.

(** * The carrying invariant: between the operations of a clean history the per-thread FilterState is empty *)
Lemma clean_from_app : forall c mx pool h1 h2 st,
  clean_from c mx pool st (h1 ++ h2) = true -> clean_from c mx pool st h1 = true.
Proof.
  intros c mx pool. induction h1 as [|o r IH]; intros h2 st H; [reflexivity|].
  simpl app in H. rewrite clean_from_cons in *. destruct (step c mx pool st o) as [[st1 out] bare].
  apply andb_true_iff in H. destruct H as [Hb H]. rewrite Hb. simpl. eapply IH; eauto.
Qed.

Theorem bitmap_clean : forall c mx pool h1 h2, WF c -> HintSound c mx pool -> clean c mx pool (h1 ++ h2) = true ->
  st_bits (final c mx pool init h1) = 0 /\ st_pending (final c mx pool init h1) = None.
Proof.
  intros c mx pool h1 h2 Hwf Hh Hc. rewrite clean_is_clean_from in Hc. apply clean_from_app in Hc.
  destruct (run_ok c mx pool Hwf Hh h1 init [] (Inv_init c pool) Hc) as (_ & _ & _ & past' & HI).
  split; [apply (inv_bits _ _ _ _ HI) | apply (inv_pending _ _ _ _ HI)].
Qed.

(** * Histories that are clean for syntactic reasons: no probes and no vetoing leaf *)
Definition no_probe (h : list op) : Prop := forall cs, ~ In (OProbe cs) h.
Definition no_vetoing_leaf (c : coll) : Prop := forall r m, In r (coll_recs c) -> snd (fst r) m = false.

Lemma no_veto_true : forall c m, no_vetoing_leaf c -> no_veto c m = true.
Proof. intros c m H. unfold no_veto. apply forallb_forall. intros r Hr. rewrite (H r m Hr). reflexivity. Qed.

(** without the invariant [event_enabled] may see any bitmap, but it still answers [no_veto] when the FilterIds are small *)
Lemma step_bare_event : forall c mx pool st cs st' out bare, WF c -> no_vetoing_leaf c -> Inv c pool st [] \/ True ->
  step c mx pool st (OEvent cs) = (st', out, bare) -> bit (st_bits st) 63 = false -> st_bits st = 0 -> bare = false.
Proof.
  intros c mx pool st cs st' out bare Hwf Hnv _ H Hb63 Hb0. unfold step in H.
  destruct (m_level (meta_of pool cs) <=? mx); simpl in H; [|inversion H; auto].
  destruct (get_interest c pool st cs) as [[i st1] o1] eqn:Eg.
  assert (B1 : st_bits st1 = st_bits st).
  { unfold get_interest in Eg. destruct (assoc cs (st_cache st)); [inversion Eg; auto|].
    destruct (c_register _ _ _ _). inversion Eg; subst. reflexivity. }
  destruct (is_never i); [inversion H; auto|].
  destruct (is_always i) eqn:Ea.
  - simpl in H. destruct (c_event_enabled _ _ _ _) as [[ee b3] o3]. destruct ee; simpl in H.
    + destruct (c_deliver _ _ _ _). inversion H; auto.
    + inversion H; reflexivity.
  - destruct (do_enabled c pool st1 cs) as [[en st2] o2] eqn:Een.
    destruct (do_enabled_spec _ _ _ _ _ _ _ Hwf (eq_trans B1 Hb0) Een) as (b & E2 & Q2 & Er & Hf & Ht). subst st2.
    destruct en; simpl in H; [|inversion H; auto].
    destruct (Ht eq_refl) as (Hsup & _ & _).
    destruct (c_event_enabled (haspsf c) c (meta_of pool cs) b) as [[ee b3] o3] eqn:Eee.
    destruct (c_event_enabled_spec c Hwf _ _ _ _ _ _ (support_63 _ _ Hsup (wf_small c Hwf)) Eee) as (E3 & O3 & Ee).
    rewrite (no_veto_true c _ Hnv) in Ee. subst ee. simpl in H.
    destruct (c_deliver _ _ _ _). inversion H; auto.
Qed.

Theorem clean_syntactic : forall c mx pool h, WF c -> HintSound c mx pool -> no_vetoing_leaf c -> no_probe h ->
  clean c mx pool h = true.
Proof.
  intros c mx pool h Hwf Hh Hnv Hnp. rewrite clean_is_clean_from.
  assert (G : forall h st past, (forall cs, ~ In (OProbe cs) h) -> Inv c pool st past -> clean_from c mx pool st h = true).
  { clear h Hnp. induction h as [|o r IH]; intros st past Hnp HI; [reflexivity|].
    rewrite clean_from_cons. destruct (step c mx pool st o) as [[st1 out] bare] eqn:Es.
    assert (Hb : bare = false).
    { destruct o; try (unfold step in Es; cbv beta iota zeta in Es).
      - eapply step_bare_event; eauto.
        + rewrite (inv_bits _ _ _ _ HI). apply bit_0.
        + apply (inv_bits _ _ _ _ HI).
      - destruct (m_level (meta_of pool cs) <=? mx); cbn [negb] in Es; [|inversion Es; auto].
        destruct (get_interest c pool st cs) as [[i st1'] o1]. destruct (is_never i); [inversion Es; auto|].
        destruct (if is_always i then (true, st1', []) else do_enabled c pool st1' cs) as [[en st2] o2].
        destruct en; cbn [negb] in Es; [|inversion Es; auto].
        destruct (reg_new_span st2 (meta_of pool cs)). destruct (c_deliver _ _ _ _). inversion Es; auto.
      - destruct (handle st h); [|inversion Es; auto]. destruct (stack_push st n). inversion Es; auto.
      - destruct (handle st h); [|inversion Es; auto]. destruct (stack_pop n (st_stack st)) as [[s' fr]|]; [|inversion Es; auto].
        destruct (if fr then _ else _). inversion Es; auto.
      - destruct (handle st h); inversion Es; auto.
      - destruct (handle st h); [|inversion Es; auto]. destruct (try_close _ _ _ _). inversion Es; auto.
      - exfalso. apply (Hnp cs). left. reflexivity. }
    subst bare. simpl.
    destruct (step_all c mx pool o st past st1 out Hwf Hh HI Es) as (_ & HI1 & _).
    eapply IH; eauto. intros cs Hin. apply (Hnp cs). right. exact Hin. }
  eapply G; eauto. apply Inv_init.
Qed.

(** * Filters that do not look at the context: acceptance is a function of the metadata alone *)
Lemma f_enabled_ctx_free : forall f m cur, ctx_free f -> f_enabled f m cur = f_enabled f m [].
Proof.
  induction f; simpl; intros m cur H; auto.
  - destruct H.
  - destruct H.
  - destruct H. rewrite IHf1, IHf2; auto.
  - destruct H. rewrite IHf1, IHf2; auto.
  - rewrite IHf; auto.
Qed.
Theorem chain_accept_static : forall st ch cm m, (forall e, In e ch -> ctx_free (snd e)) ->
  chain_accept st cm ch m = static_accept ch m.
Proof.
  intros st. induction ch as [|[k f] r IH]; intros cm m H; simpl; auto.
  rewrite (f_enabled_ctx_free f m _ (H (k, f) (or_introl eq_refl))). unfold static_accept in IH. rewrite IH; auto.
  intros e He. apply H. right. exact He.
Qed.

(** * Sound summaries: max level TRACE when the pool has no level above it, and no callsite of the pool in the F12
      situation (decided by computation) *)
Fixpoint f12b (f : filt) (m : meta) : bool :=
  match f with
  | FEnv _ _ dy => negb (is_span m && dyn_matches dy m) || (m_level m <=? dyn_max dy)
  | FAnd a b | FOr a b => f12b a m && f12b b m
  | FNot a => f12b a m
  | _ => true
  end.
Lemma f12b_spec : forall f m, f12b f m = true -> f12_free f m.
Proof.
  induction f; simpl; intros m H; auto.
  - intros E. rewrite E in H. simpl in H. apply N.leb_le. exact H.
  - apply andb_true_iff in H. destruct H. auto.
  - apply andb_true_iff in H. destruct H. auto.
Qed.
Definition nof12b (c : coll) (pool : list meta) : bool :=
  forallb (fun m => forallb (fun g => f12b g m) (coll_globs c) &&
                    forallb (fun r => forallb (fun e => f12b (snd e) m) (snd r)) (coll_recs c)) (dummy_meta :: pool).
Lemma nof12b_spec : forall c pool, nof12b c pool = true -> forall cs, F12Free c (meta_of pool cs).
Proof.
  intros c pool H cs. unfold nof12b in H. rewrite forallb_forall in H.
  assert (Hin : In (meta_of pool cs) (dummy_meta :: pool)).
  { unfold meta_of. destruct (nth_in_or_default (N.to_nat cs) pool dummy_meta) as [Hi|E]; [right; exact Hi | left; symmetry; exact E]. }
  apply H in Hin. apply andb_true_iff in Hin. destruct Hin as [Hg Hr]. rewrite forallb_forall in Hg, Hr. split.
  - intros g Hgin. apply f12b_spec. auto.
  - intros r e Hrin Hein. apply f12b_spec. pose proof (Hr r Hrin) as X. rewrite forallb_forall in X. auto.
Qed.
Lemma hint_trace : forall c pool, forallb (fun m => m_level m <=? 5) pool = true -> nof12b c pool = true -> HintSound c 5 pool.
Proof.
  intros c pool H HF. split; [|apply nof12b_spec; exact HF].
  intros cs st Hlt. exfalso. unfold meta_of in Hlt.
  destruct (nth_in_or_default (N.to_nat cs) pool dummy_meta) as [Hin|E].
  - rewrite forallb_forall in H. apply H in Hin. apply N.leb_le in Hin. lia.
  - rewrite E in Hlt. simpl in Hlt. lia.
Qed.
Lemma pool45_levels : forallb (fun m => m_level m <=? 5) pool45 = true.
Proof. vm_compute. reflexivity. Qed.

Ltac hint5 := apply hint_trace; [apply pool45_levels | vm_compute; reflexivity].

(** * The known finding F3: an [enabled] pass that its own event never follows leaves bits behind *)
(** after history [h], does leaf [n] miss an event at callsite [cs] that every global filter and every filter
    of its own accepts? *)
Definition misses (c : coll) (mx : N) (pool : list meta) (h : list op) (cs n : N) : Prop :=
  let st := final c mx pool init h in
  let out := snd (fst (step c mx pool st (OEvent cs))) in
  exists v ch, In (n, v, ch) (coll_recs c) /\
    globals_accept c st (meta_of pool cs) && no_veto c (meta_of pool cs) && chain_accept st 0 ch (meta_of pool cs) = true /\
    ~ delivered n (WEvent cs) out.

Definition tgt (l : list (N * N)) : filt := FTargets l None.
(** A: target `app`; B: targets `app`, `other` — the replay of DESIGN.md 1.2 (corpus/C07/f3_enabled_probe.json) *)
Definition f3_stack : coll :=
  With (Filt 0 (Rec 2 nov) (tgt [(0, 5); (1, 5)])) (With (Filt 0 (Rec 1 nov) (tgt [(0, 5)])) Registry).
(** the same under a plain layer that vetoes callsite 7 in [event_enabled] (corpus/C07/f3_event_enabled_veto.json) *)
Definition f3_veto_stack : coll := With (Rec 3 (in_set [7])) f3_stack.

Lemma f3_stack_wf : WF (build f3_stack).
Proof.
  apply build_WF. constructor.
  - repeat constructor; intros; reflexivity.
  - vm_compute. discriminate.
  - vm_compute. repeat constructor; simpl; intuition discriminate.
Qed.
Lemma f3_veto_stack_wf : WF (build f3_veto_stack).
Proof.
  apply build_WF. constructor.
  - repeat constructor; intros; reflexivity.
  - vm_compute. discriminate.
  - vm_compute. repeat constructor; simpl; intuition discriminate.
Qed.

Ltac not_delivered :=
  let H := fresh in
  intros (? & ? & ? & ? & H); vm_compute in H;
  repeat (destruct H as [H|H]; [try discriminate H|]); try contradiction.

Theorem F3_refuted_probe :
  exists c h cs n, WF c /\ HintSound c 5 pool45 /\ clean c 5 pool45 h = false /\ misses c 5 pool45 h cs n.
Proof.
  exists (build f3_stack), [OEvent 6; OProbe 37], 6, 1.
  split; [apply f3_stack_wf|]. split; [hint5|]. split; [vm_compute; reflexivity|].
  unfold misses. exists nov, [(0, tgt [(0, 5)])]. split; [|split].
  - vm_compute. auto.
  - vm_compute. reflexivity.
  - not_delivered.
Qed.

Theorem F3_refuted_veto :
  exists c h cs n, WF c /\ HintSound c 5 pool45 /\ no_probe h /\ clean c 5 pool45 h = false /\ misses c 5 pool45 h cs n.
Proof.
  exists (build f3_veto_stack), [OEvent 6; OEvent 7], 6, 1.
  split; [apply f3_veto_stack_wf|]. split; [hint5|].
  split; [intros cs [H|[H|[]]]; discriminate|]. split; [vm_compute; reflexivity|].
  unfold misses. exists nov, [(0, tgt [(0, 5)])]. split; [|split].
  - vm_compute. auto.
  - vm_compute. reflexivity.
  - not_delivered.
Qed.

(** the same stack, the same last event, but a clean history (an event where the probe was): the leaf gets it *)
Example F3_clean_counterpart :
  clean (build f3_stack) 5 pool45 [OEvent 6; OEvent 7] = true /\ ~ misses (build f3_stack) 5 pool45 [OEvent 6; OEvent 7] 6 1.
Proof.
  split; [vm_compute; reflexivity|].
  intros (v & ch & Hr & Hacc & Hnd). apply Hnd. clear.
  remember (snd (fst (step (build f3_stack) 5 pool45 (final (build f3_stack) 5 pool45 init [OEvent 6; OEvent 7]) (OEvent 6)))) as out eqn:E.
  vm_compute in E. subst out. unfold delivered. do 4 eexists. simpl. auto 10.
Qed.

(** * Non-vacuity: a stack with a global filter, nested and side-by-side per-layer filters and a context-dependent
      closure, and a clean history with nested spans on which the leaves disagree *)
Definition nv_stack : coll :=
  With (LVec [Filt 0 (Rec 3 nov) (FDyn (dyn_tbl [22] [6])); LOpt None; Rec 4 nov])
    (With (Glob (FLevel 4))
       (With (Pair (Rec 1 nov) (Filt 0 (Filt 0 (Rec 2 nov) (FLevel 3)) (tgt [(0, 5); (2, 4)]))) Registry)).
Definition nv_history : list op :=
  [OSpan 21; OEnter 0; OEvent 6; OSpan 23; OEnter 1; OEvent 8; OEvent 13; OSpan 25; OEvent 9; OExit 1; OEvent 6; ODrop 1;
   OExit 0; ODrop 0; ODrop 2; OEvent 6].

Lemma nv_stack_wf : WF (build nv_stack).
Proof.
  apply build_WF. constructor.
  - repeat constructor; intros; reflexivity.
  - vm_compute. discriminate.
  - vm_compute. repeat constructor; simpl; intuition discriminate.
Qed.

Definition deliveredb (n : N) (out : list obs) : bool :=
  existsb (fun o => match o with ODeliver n' _ _ _ _ _ => n =? n' | _ => false end) out.

Example nonvacuous :
  WF (build nv_stack) /\ HintSound (build nv_stack) 5 pool45 /\ clean (build nv_stack) 5 pool45 nv_history = true /\
  (* the leaves disagree: the first span reaches leaf 1 and not leaf 3; the span of operation 7 reaches leaf 4 and not leaf 2 *)
  (let outs := run_obs (build nv_stack) 5 pool45 nv_history in
   deliveredb 1 (nth 0 outs []) = true /\ deliveredb 3 (nth 0 outs []) = false /\
   deliveredb 4 (nth 7 outs []) = true /\ deliveredb 2 (nth 7 outs []) = false) /\
  (* ... and the event inside that span reaches leaf 3 (its closure looks at the current span) *)
  deliveredb 3 (nth 2 (run_obs (build nv_stack) 5 pool45 nv_history) []) = true.
Proof.
  split; [apply nv_stack_wf|]. split; [hint5|].
  split; [vm_compute; reflexivity|]. split; [repeat split; vm_compute; reflexivity | vm_compute; reflexivity].
Qed.

(** * Finding F71: with exactly 64 per-layer filters the bitmap can be all-ones.  Then [FilterMap::any_enabled]
      answers false, the Registry vetoes the emission for the whole stack, and a leaf without any filter misses
      an event nothing rejected for it — in the very first operation, so the (trivially clean) empty history
      is a witness.  This is why [WF] asks for FilterIds below 63.  The behaviour hinges on [FilterMap::any_enabled],
      which the translator reads from the source: the statement is conditional on what it finds there. *)
Definition f71_stack : coll :=
  With (Rec 1 nov) (With (LVec (map (fun i => Filt 0 (Rec (N.of_nat i + 2) nov) (tgt [(0, 5)])) (seq 0 64))) Registry).

Lemma NoDup_by_nodup : forall l : list N, nodup N.eq_dec l = l -> NoDup l.
Proof. intros l E. rewrite <- E. apply NoDup_nodup. Qed.

Theorem F71_refuted :
  TVGen.Gen_stack.registry_vetoes_full = true ->
  exists c cs n,
    coll_shape c /\ NoDup (coll_ids c) /\ Forall (fun k => k < 64) (coll_ids c) /\
    NoDup (map (fun r => fst (fst r)) (coll_recs c)) /\ HintSound c 5 pool45 /\
    clean c 5 pool45 [OEvent cs] = true /\ misses c 5 pool45 [] cs n.
Proof.
  (* the flag is generated from the source: when the repair is in the tree the premise is false *)
  intros Hflag.
  first
    [ solve [vm_compute in Hflag; discriminate Hflag]
    | exists (build f71_stack), 7, 1;
      split; [ destruct (assign_coll f71_stack) as [c2 n] eqn:E; unfold build; rewrite E; simpl;
               apply (assign_coll_ok _ _ _ E); repeat constructor; intros; reflexivity |];
      split; [ apply NoDup_by_nodup; vm_compute; reflexivity |];
      split; [ apply Forall_forall; intros k Hk;
               assert (E : forallb (fun k => k <? 64) (coll_ids (build f71_stack)) = true) by (vm_compute; reflexivity);
               rewrite forallb_forall in E; apply N.ltb_lt; auto |];
      split; [ apply NoDup_by_nodup; vm_compute; reflexivity |];
      split; [ hint5 |];
      split; [ vm_compute; reflexivity |];
      unfold misses; exists nov, [];
      split; [ vm_compute; left; reflexivity |];
      split; [ vm_compute; reflexivity | not_delivered ] ].
Qed.

(** * Climbing past a rejected ancestor: DEBUG conn > INFO request > INFO handler, leaf 1 behind a per-layer
      LevelFilter::INFO, leaf 2 plain (corpus/C07/parent_chain_nested.json) *)
Definition climb_stack : coll := With (Rec 2 nov) (With (Filt 0 (Rec 1 nov) (FLevel 3)) Registry).
Definition climb_history : list op := [OSpan 24; OEnter 0; OSpan 21; OEnter 1; OSpan 22].
Definition chain_seen (n : N) (out : list obs) : list (list N * list N * list N) :=
  flat_map (fun o => match o with
                     | ODeliver n' _ _ _ _ nav => if n =? n' then [(nv_chain nav, nv_pscope nav, nv_root nav)] else []
                     | _ => [] end) out.
Example climb_example :
  clean (build climb_stack) 5 pool45 climb_history = true /\
  (let out := nth 4 (run_obs (build climb_stack) 5 pool45 climb_history) [] in
   (* on_new_span of handler (span 3): the filtered leaf climbs to request (2) and stops; the plain leaf goes on to conn (1) *)
   chain_seen 1 out = [([2], [2], [2; 3])] /\ chain_seen 2 out = [([2; 1], [2; 1], [1; 2; 3])]).
Proof. split; [vm_compute; reflexivity | split; vm_compute; reflexivity]. Qed.

(** * Stateful operands: every operand of a filter combinator is told about every callsite (unless the combinator can
      never accept it): the generated description of combinator.rs says so.  This is what makes the functional
      description of the EnvFilter's state ([FEnv]) right under And / Or / Not in either operand order. *)
Lemma operands_told :
  TVGen.Gen_stack.or_asks_both = true /\ TVGen.Gen_stack.and_skips_only_after_never = true /\ TVGen.Gen_stack.not_asks = true.
Proof. repeat split; reflexivity. Qed.

(** the same per-layer filter INFO.or([s]-span directive on target app at TRACE), written in both operand orders *)
Definition env_stack : coll :=
  With (Filt 0 (Rec 2 nov) (FOr (FEnv [] None [(0, 5)]) (FLevel 3)))
    (With (Filt 0 (Rec 1 nov) (FOr (FLevel 3) (FEnv [] None [(0, 5)]))) Registry).
Definition env_history : list op := [OEvent 9; OSpan 21; OEnter 0; OEvent 9; OExit 0; OEvent 9].
Lemma env_stack_wf : WF (build env_stack).
Proof.
  apply build_WF. constructor.
  - repeat constructor; intros; reflexivity.
  - vm_compute. discriminate.
  - vm_compute. repeat constructor; simpl; intuition discriminate.
Qed.
Example env_example :
  WF (build env_stack) /\ HintSound (build env_stack) 5 pool45 /\ clean (build env_stack) 5 pool45 env_history = true /\
  (let outs := run_obs (build env_stack) 5 pool45 env_history in
   (* the DEBUG event outside the span reaches nobody, inside the span both leaves, after the exit nobody *)
   deliveredb 1 (nth 0 outs []) = false /\ deliveredb 2 (nth 0 outs []) = false /\
   deliveredb 1 (nth 3 outs []) = true /\ deliveredb 2 (nth 3 outs []) = true /\
   deliveredb 1 (nth 5 outs []) = false /\ deliveredb 2 (nth 5 outs []) = false).
Proof.
  split; [apply env_stack_wf|]. split; [hint5|]. split; [vm_compute; reflexivity|]. repeat split; vm_compute; reflexivity.
Qed.
