(** C07 — facts about FilterMap / FilterId bit sets (N with lor / land / ldiff) and the layer induction principle. *)
From Coq Require Import NArith List Bool Lia.
From TV Require Import Stack.Model Stack.Spec.
Import ListNotations.
Local Open Scope N_scope.

(** * Induction over layers with the nested list of [LVec] *)
Section LayerInd.
  Variable P : layer -> Prop.
  Hypothesis HRec : forall n v, P (Rec n v).
  Hypothesis HGlob : forall g, P (Glob g).
  Hypothesis HFilt : forall k l f, P l -> P (Filt k l f).
  Hypothesis HPair : forall o i, P o -> P i -> P (Pair o i).
  Hypothesis HNone : P (LOpt None).
  Hypothesis HSome : forall l, P l -> P (LOpt (Some l)).
  Hypothesis HVec : forall ls, Forall P ls -> P (LVec ls).
  Fixpoint layer_ind' (l : layer) : P l :=
    match l with
    | Rec n v => HRec n v
    | Glob g => HGlob g
    | Filt k l' f => HFilt k l' f (layer_ind' l')
    | Pair o i => HPair o i (layer_ind' o) (layer_ind' i)
    | LOpt None => HNone
    | LOpt (Some l') => HSome l' (layer_ind' l')
    | LVec ls => HVec ls ((fix go (ls : list layer) : Forall P ls :=
                             match ls with [] => Forall_nil P | x :: xs => Forall_cons x (layer_ind' x) (go xs) end) ls)
    end.
End LayerInd.

(** * Bits *)
Definition bit (b k : N) : bool := N.testbit b k.
Arguments bit : simpl never.

Lemma fid_new_pow : forall k, fid_new k = 2 ^ k.
Proof. intro k. unfold fid_new. apply N.shiftl_1_l. Qed.

Lemma bit_fid_new : forall k j, bit (fid_new k) j = (k =? j).
Proof. intros. unfold bit. rewrite fid_new_pow. rewrite N.pow2_bits_eqb. reflexivity. Qed.

Lemma fid_new_lt : forall k, k < 63 -> fid_new k < 2 ^ 63.
Proof. intros. rewrite fid_new_pow. apply N.pow_lt_mono_r; lia. Qed.

Lemma MAX64_eq : MAX64 = 2 ^ 64 - 1.
Proof. reflexivity. Qed.

Lemma fid_new_not_max : forall k, k < 63 -> (fid_new k =? MAX64) = false.
Proof.
  intros k H. apply N.eqb_neq. pose proof (fid_new_lt k H).
  assert (2 ^ 63 < MAX64) by (vm_compute; reflexivity). lia.
Qed.

Lemma fm_set_true : forall b k, k < 63 -> fm_set b (fid_new k) true = N.ldiff b (fid_new k).
Proof. intros. unfold fm_set. rewrite fid_new_not_max; auto. Qed.
Lemma fm_set_false : forall b k, k < 63 -> fm_set b (fid_new k) false = N.lor b (fid_new k).
Proof. intros. unfold fm_set. rewrite fid_new_not_max; auto. Qed.

Lemma bit_set : forall b k en j, k < 63 ->
  bit (fm_set b (fid_new k) en) j = if k =? j then negb en else bit b j.
Proof.
  intros. destruct en.
  - rewrite fm_set_true by auto. unfold bit. rewrite N.ldiff_spec. fold (bit (fid_new k) j).
    rewrite bit_fid_new. destruct (k =? j); simpl; [apply andb_false_r | apply andb_true_r].
  - rewrite fm_set_false by auto. unfold bit. rewrite N.lor_spec. fold (bit (fid_new k) j).
    rewrite bit_fid_new. destruct (k =? j); simpl; [apply orb_true_r | apply orb_false_r].
Qed.

Lemma fm_enabled_bit : forall b k, fm_enabled b (fid_new k) = negb (bit b k).
Proof.
  intros. unfold fm_enabled, bit.
  destruct (N.testbit b k) eqn:E; simpl.
  - apply N.eqb_neq. intro H.
    assert (N.testbit (N.land b (fid_new k)) k = false) by (rewrite H; apply N.bits_0).
    rewrite N.land_spec, E in H0. fold (bit (fid_new k) k) in H0. rewrite bit_fid_new, N.eqb_refl in H0. discriminate.
  - apply N.eqb_eq. apply N.bits_inj. intro j. rewrite N.land_spec, N.bits_0.
    fold (bit (fid_new k) j). rewrite bit_fid_new. destruct (N.eqb_spec k j); subst; [rewrite E|]; auto using andb_false_r.
Qed.

(** a set whose members are all below 63 is not the all-ones map *)
Lemma bits_not_max : forall b, bit b 63 = false -> fm_any_enabled b = true.
Proof.
  intros b H. unfold fm_any_enabled. apply negb_true_iff. apply andb_false_intro2. apply N.eqb_neq. intro E. subst b.
  unfold bit in H. vm_compute in H. discriminate.
Qed.

Lemma bits_eq : forall a b, (forall j, bit a j = bit b j) -> a = b.
Proof. intros. apply N.bits_inj. exact H. Qed.
Lemma bit_0 : forall j, bit 0 j = false.
Proof. intro j. unfold bit. apply N.bits_0. Qed.

(** masks of chains *)
Lemma bit_lor : forall a b j, bit (N.lor a b) j = bit a j || bit b j.
Proof. intros. apply N.lor_spec. Qed.
Lemma bit_mask_of : forall ch j, bit (mask_of ch) j = existsb (fun e => fst e =? j) ch.
Proof.
  induction ch as [|[k f] r IH]; intro j; cbn [mask_of existsb fst].
  - apply bit_0.
  - rewrite bit_lor, bit_fid_new, IH. reflexivity.
Qed.
Lemma fm_enabled_spec : forall b m, fm_enabled b m = true <-> forall j, bit m j = true -> bit b j = false.
Proof.
  intros. unfold fm_enabled, bit. rewrite N.eqb_eq. split.
  - intros H j Hm. assert (E : N.testbit (N.land b m) j = false) by (rewrite H; apply N.bits_0).
    rewrite N.land_spec in E. rewrite Hm, andb_true_r in E. exact E.
  - intros H. apply N.bits_inj. intro j. rewrite N.land_spec, N.bits_0.
    destruct (N.testbit m j) eqn:E; [|apply andb_false_r]. rewrite (H j E). reflexivity.
Qed.
