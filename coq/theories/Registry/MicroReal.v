(** Registry/MicroReal.v — second, more faithful micro-step model of the span registry's closing protocol.
    Definitions only, all executable, no proofs (the proofs are in Registry/MicroRealProofs.v).

    Registry/Micro.v idealises two things of the real code away; this file models them:

    (1) sharded.rs `Registry::try_close` holds a sharded_slab `Ref` guard on the slot from `self.get(&id)` until it
        RETURNS, i.e. also for a short while after its fetch_sub ([r_guards], task [KRet]).  It returns before
        `Layered::try_close` runs on_close.
    (2) `spans.clear(idx)` (CloseGuard::drop of the closer) only MARKS the slot ([r_marked]: from then on `get`
        fails) when another thread still holds a guard on it.  The storage is cleared (`Clear for DataInner`:
        `parent.take()` + `try_close(parent)`, [r_cleared]) by whichever thread drops the LAST guard, inside that
        thread's own Registry::try_close return, i.e. nested inside that thread's Layered::try_close frames
        (thread-local CLOSE_COUNT > 0): the flag [n] ("nested") of the tasks.
    (3) CloseGuard::drop clears a slot only when the CLOSE_COUNT it saw is 1.  A cascade that runs nested (2)
        never sees 1: the parent is reported closed (on_close runs) but its slot is never cleared nor marked, and
        its own parent reference is never released.  That is the code as it is NOW ([fixed = false]).
        The repair fixes/F51.patch (`Clear for DataInner` resets CLOSE_COUNT to 0 around try_close(parent) and
        restores it) makes nesting irrelevant ([fixed = true]).

    Everything else is as in Micro.v: spans are creation numbers, reference tokens [r_held], one layer's
    on_close reports [r_closed], any number of threads, every atomic access its own micro-step, sequential
    consistency.  The helpers cnt / rm1 / upd / tok_is / has_tok / rm_tok / hcnt / kcnt of Micro.v are reused
    (guards are (thread, span) pairs like tokens).  All names here are distinct from Micro.v's (prefix r / R / K)
    so that both files can be imported together. *)
From Coq Require Import List Arith Bool PeanoNat.
From TV Require Import Registry.Micro.
Import ListNotations.
Local Open Scope nat_scope.

(** What a thread that is inside try_close does next.  [n] = "nested": it runs inside the frames of another
    try_close of the same thread (its CLOSE_COUNT will not be 1 when its CloseGuard drops). *)
Inductive rtask :=
| KRet (s : nat) (last : bool) (n : bool)   (* after its fetch_sub on s, still holding the Ref guard; last = it saw 1 *)
| KClose (s : nat) (n : bool)               (* run on_close for s *)
| KClear (s : nat) (n : bool)               (* CloseGuard::drop of the outermost frame of this close *)
| KRel (p : nat) (n : bool).                (* cascade: try_close(parent) — get + fetch_sub on p *)

(* tasks: association list, at most one entry per thread *)
Definition rkey_is (t : tid) (x : tid * rtask) : bool := fst x =? t.
Definition rtask_of (t : tid) (l : list (tid * rtask)) : option rtask :=
  match find (rkey_is t) l with Some x => Some (snd x) | None => None end.
Definition rset_task (t : tid) (o : option rtask) (l : list (tid * rtask)) : list (tid * rtask) :=
  match o with Some k => (t, k) :: rm1 (rkey_is t) l | None => rm1 (rkey_is t) l end.

(* predicates on task entries, for counting *)
Definition k_ret1 (q : nat) (x : tid * rtask) : bool :=
  match snd x with KRet s true _ => q =? s | _ => false end.
Definition k_ret0 (q : nat) (x : tid * rtask) : bool :=
  match snd x with KRet s false _ => q =? s | _ => false end.
Definition k_close (q : nat) (x : tid * rtask) : bool :=
  match snd x with KClose s _ => q =? s | _ => false end.
Definition k_clear (q : nat) (x : tid * rtask) : bool :=
  match snd x with KClear s _ => q =? s | _ => false end.
Definition k_rel (q : nat) (x : tid * rtask) : bool :=
  match snd x with KRel s _ => q =? s | _ => false end.
(** thread t' is between its fetch_sub on s' and its return (it holds a guard on s') *)
Definition k_ret_by (t' : tid) (s' : nat) (x : tid * rtask) : bool :=
  (fst x =? t') && match snd x with KRet s _ _ => s =? s' | _ => false end.

Record rstate := mkR {
  r_count : nat;                      (* spans created so far *)
  r_refs : nat -> nat;                (* DataInner::ref_count *)
  r_parent : nat -> option nat;       (* DataInner::parent *)
  r_cleared : nat -> bool;            (* storage cleared: Clear for DataInner ran (parent reference released / scheduled) *)
  r_marked : nat -> bool;             (* slot marked removed: lookups fail *)
  r_closed : nat -> nat;              (* number of on_close reports (per layer) *)
  r_held : list (tid * nat);          (* reference tokens owned by threads *)
  r_guards : list (tid * nat);        (* (t,s): thread t holds a sharded_slab Ref guard on span s *)
  r_tasks : list (tid * rtask);       (* threads inside try_close *)
  r_bad : bool                        (* a panic / underflow / failed lookup inside on_close happened *)
}.

Definition r_task (st : rstate) (t : tid) : option rtask := rtask_of t (r_tasks st).

Definition rheld_n (st : rstate) (s : nat) : nat := hcnt s (r_held st).
Definition rguard_n (st : rstate) (s : nat) : nat := hcnt s (r_guards st).
(** live children: c < count with parent c = Some s whose storage is not cleared yet *)
Definition rkids_n (st : rstate) (s : nat) : nat := kcnt (r_parent st) (r_cleared st) s (r_count st).
Definition rrel_n (st : rstate) (s : nat) : nat := cnt (k_rel s) (r_tasks st).
Definition rret1_n (st : rstate) (s : nat) : nat := cnt (k_ret1 s) (r_tasks st).
Definition rret0_n (st : rstate) (s : nat) : nat := cnt (k_ret0 s) (r_tasks st).
Definition rclose_n (st : rstate) (s : nat) : nat := cnt (k_close s) (r_tasks st).
Definition rclear_n (st : rstate) (s : nat) : nat := cnt (k_clear s) (r_tasks st).

(** no thread is inside try_close and no guard is held *)
Definition rquiescent (st : rstate) : bool :=
  match r_tasks st, r_guards st with [], [] => true | _, _ => false end.

Definition rinit : rstate :=
  mkR 0 (fun _ => 0) (fun _ => None) (fun _ => false) (fun _ => false) (fun _ => 0) [] [] [] false.

Definition rset_bad (st : rstate) : rstate :=
  mkR (r_count st) (r_refs st) (r_parent st) (r_cleared st) (r_marked st) (r_closed st) (r_held st)
      (r_guards st) (r_tasks st) true.
Definition rset_held (st : rstate) (h : list (tid * nat)) : rstate :=
  mkR (r_count st) (r_refs st) (r_parent st) (r_cleared st) (r_marked st) (r_closed st) h
      (r_guards st) (r_tasks st) (r_bad st).

Inductive rop :=
| RNew (t : tid) (par : option nat)
| RClone (t : tid) (s : nat)
| RSend (t t' : tid) (s : nat)
| RDrop (t : tid) (s : nat)
| RRet (t : tid)
| ROnClose (t : tid)
| RClear (t : tid)
| RRel (t : tid).

(* ---------- RNew / RClone / RSend: exactly as in Micro.v ---------- *)

Definition rnew_state (st : rstate) (t : tid) (par : option nat) (h : list (tid * nat)) : rstate :=
  let c := r_count st in
  mkR (S c) (upd (r_refs st) c 1) (upd (r_parent st) c par) (upd (r_cleared st) c false)
      (upd (r_marked st) c false) (upd (r_closed st) c 0) ((t, c) :: h) (r_guards st) (r_tasks st) (r_bad st).

Definition do_rnew (t : tid) (par : option nat) (st : rstate) : rstate :=
  match r_task st t with
  | Some _ => st
  | None =>
      match par with
      | None => rnew_state st t None (r_held st)
      | Some p => if has_tok t p (r_held st) then rnew_state st t (Some p) (rm_tok t p (r_held st)) else st
      end
  end.

(** clone_span: get(id) fails on a marked slot.  No guard is modelled for clone_span: the cloning thread owns
    a token, so the count cannot reach 0 meanwhile. *)
Definition do_rclone (t : tid) (s : nat) (st : rstate) : rstate :=
  match r_task st t with
  | Some _ => st
  | None =>
      if has_tok t s (r_held st) then
        if r_marked st s || (r_refs st s =? 0) then rset_bad st
        else mkR (r_count st) (upd (r_refs st) s (S (r_refs st s))) (r_parent st) (r_cleared st) (r_marked st)
                 (r_closed st) ((t, s) :: r_held st) (r_guards st) (r_tasks st) (r_bad st)
      else st
  end.

Definition do_rsend (t t' : tid) (s : nat) (st : rstate) : rstate :=
  if has_tok t s (r_held st) then rset_held st ((t', s) :: rm_tok t s (r_held st)) else st.

(* ---------- the closing protocol ---------- *)

(** Registry::try_close up to and including its fetch_sub: get(id) (panic when the slot is marked), fetch_sub;
    the thread now holds a guard on p and still has to return. *)
Definition rfetch_sub (t : tid) (p : nat) (n : bool) (st : rstate) : rstate :=
  if r_marked st p || (r_refs st p =? 0) then rset_bad st
  else mkR (r_count st) (upd (r_refs st) p (r_refs st p - 1)) (r_parent st) (r_cleared st) (r_marked st)
           (r_closed st) (r_held st) ((t, p) :: r_guards st)
           (rset_task t (Some (KRet p (r_refs st p =? 1) n)) (r_tasks st)) (r_bad st).

Definition do_rdrop (t : tid) (s : nat) (st : rstate) : rstate :=
  match r_task st t with
  | Some _ => st
  | None => if has_tok t s (r_held st) then rfetch_sub t s false (rset_held st (rm_tok t s (r_held st))) else st
  end.

Definition do_rrel (t : tid) (st : rstate) : rstate :=
  match r_task st t with
  | Some (KRel p n) => rfetch_sub t p n st
  | _ => st
  end.

(** Registry::try_close returns: the Ref guard is dropped.  If the slot was marked meanwhile and this was the
    last guard, sharded_slab clears the storage HERE: `Clear for DataInner` runs nested in this thread's frames. *)
Definition do_rret (t : tid) (st : rstate) : rstate :=
  match r_task st t with
  | Some (KRet s last n) =>
      let g := rm_tok t s (r_guards st) in
      if last then
        mkR (r_count st) (r_refs st) (r_parent st) (r_cleared st) (r_marked st) (r_closed st) (r_held st) g
            (rset_task t (Some (KClose s n)) (r_tasks st)) (r_bad st)
      else if r_marked st s && negb (r_cleared st s) && (hcnt s g =? 0) then
        mkR (r_count st) (r_refs st) (r_parent st) (upd (r_cleared st) s true) (r_marked st) (r_closed st)
            (r_held st) g
            (rset_task t (match r_parent st s with Some p => Some (KRel p true) | None => None end) (r_tasks st))
            (r_bad st)
      else
        mkR (r_count st) (r_refs st) (r_parent st) (r_cleared st) (r_marked st) (r_closed st) (r_held st) g
            (rset_task t None (r_tasks st)) (r_bad st)
  | _ => st
  end.

(** the layers' on_close: each looks the span up *)
Definition do_ronclose (t : tid) (st : rstate) : rstate :=
  match r_task st t with
  | Some (KClose s n) =>
      mkR (r_count st) (r_refs st) (r_parent st) (r_cleared st) (r_marked st)
          (upd (r_closed st) s (S (r_closed st s))) (r_held st) (r_guards st)
          (rset_task t (Some (KClear s n)) (r_tasks st)) (r_bad st || r_marked st s)
  | _ => st
  end.

(** CloseGuard::drop of the outermost frame of this close.  Unfixed and nested: the count it sees is not 1, so
    NOTHING happens to the slot.  Otherwise spans.clear(idx): mark; clear the storage now when no guard is
    held, else leave it to the last guard holder. *)
Definition do_rclear (fixed : bool) (t : tid) (st : rstate) : rstate :=
  match r_task st t with
  | Some (KClear s n) =>
      if n && negb fixed then
        mkR (r_count st) (r_refs st) (r_parent st) (r_cleared st) (r_marked st) (r_closed st) (r_held st)
            (r_guards st) (rset_task t None (r_tasks st)) (r_bad st)
      else if hcnt s (r_guards st) =? 0 then
        mkR (r_count st) (r_refs st) (r_parent st) (upd (r_cleared st) s true) (upd (r_marked st) s true)
            (r_closed st) (r_held st) (r_guards st)
            (rset_task t (match r_parent st s with Some p => Some (KRel p n) | None => None end) (r_tasks st))
            (r_bad st)
      else
        mkR (r_count st) (r_refs st) (r_parent st) (r_cleared st) (upd (r_marked st) s true)
            (r_closed st) (r_held st) (r_guards st) (rset_task t None (r_tasks st)) (r_bad st)
  | _ => st
  end.

Definition rstep (fixed : bool) (st : rstate) (op : rop) : rstate :=
  match op with
  | RNew t par => do_rnew t par st
  | RClone t s => do_rclone t s st
  | RSend t t' s => do_rsend t t' s st
  | RDrop t s => do_rdrop t s st
  | RRet t => do_rret t st
  | ROnClose t => do_ronclose t st
  | RClear t => do_rclear fixed t st
  | RRel t => do_rrel t st
  end.

Definition rrun (fixed : bool) (ops : list rop) : rstate := fold_left (rstep fixed) ops rinit.

(** the micro-op a busy thread executes next, and a potential that decreases with it *)
Definition rnext_op (t : tid) (k : rtask) : rop :=
  match k with KRet _ _ _ => RRet t | KClose _ _ => ROnClose t | KClear _ _ => RClear t | KRel _ _ => RRel t end.
Definition rtask_weight (k : rtask) : nat :=
  match k with
  | KRel p _ => 4 * p + 4 | KRet s _ _ => 4 * s + 3 | KClose s _ => 4 * s + 2 | KClear s _ => 4 * s + 1
  end.
Fixpoint rpending_weight (l : list (tid * rtask)) : nat :=
  match l with [] => 0 | x :: r => rtask_weight (snd x) + rpending_weight r end.

(* ---------- the F51 witness: G = 0 (root), P = 1 (child of G), C = 2 (child of P) ---------- *)

Definition f51_setup : list rop :=
  [ RNew 0 None;                        (* G *)
    RClone 0 0; RNew 0 (Some 0);        (* P, child of G *)
    RClone 0 1; RNew 0 (Some 1);        (* C, child of P *)
    RClone 0 2; RSend 0 1 2;            (* second handle of C, owned by thread 1 *)
    RDrop 0 0; RRet 0;                  (* thread 0 drops its handle of G (P still holds a reference) *)
    RDrop 0 1; RRet 0 ].                (* ... and of P (C still holds a reference) *)

Definition f51_race : list rop :=
  [ RDrop 0 2;                          (* thread 0: C 2 -> 1, parks holding the guard *)
    RDrop 1 2; RRet 1; ROnClose 1;      (* thread 1: C 1 -> 0, it is the closer of C *)
    RClear 1;                           (* marks C; thread 0 still holds a guard: storage clear deferred *)
    RRet 0;                             (* thread 0 drops the last guard: deferred clear, NESTED cascade on P *)
    RRel 0; RRet 0; ROnClose 0;         (* P 1 -> 0, P reported closed *)
    RClear 0 ].                         (* nested: unfixed -> nothing happens to P's slot *)

(** the rest of the cascade (G); no-ops when thread 0 is already idle *)
Definition f51_tail : list rop := [ RRel 0; RRet 0; ROnClose 0; RClear 0 ].

Definition f51_schedule : list rop := f51_setup ++ f51_race ++ f51_tail.

(** per span: (closed, marked, cleared, refs, held_n, kids_n) *)
Definition robs (st : rstate) (s : nat) : nat * bool * bool * nat * nat * nat :=
  (r_closed st s, r_marked st s, r_cleared st s, r_refs st s, rheld_n st s, rkids_n st s).
