(** Registry/C05Proofs.v — the clauses of C05, derived from the invariant for every well-formed OwnDefault history. *)
From Coq Require Import List NArith Bool Arith Lia.
From TV Require Import Registry.Model Registry.Basics Registry.Inv Registry.Close Registry.Steps Registry.NewSpan Registry.Run.
From TV Require Registry.Micro Registry.MicroReal Registry.MicroRealProofs.
From TVGen Require Gen_registry.
Import ListNotations.
Local Open Scope nat_scope.

(** what the property text counts *)
Definition handles_n (st : state) (i : inst) (s : sid) : nat := nH st i s.            (* live Span values (and captured SpanTraces) of the span *)
Definition entered_n (st : state) (i : inst) (s : sid) : nat :=                     (* stack entries on any thread, re-entries included *)
  length (filter (fun e => (e_i e =? i) && sid_eqb (e_s e) s) (st_entries st)).
Definition entered_threads_n (st : state) (i : inst) (s : sid) : nat := nE st i s.   (* threads on which it is entered *)
Definition child_of (st : state) (i : inst) (s : sid) (c : inst * sid * nat) : bool :=
  (fst (fst c) =? i) && match lookup st (fst (fst c)) (snd (fst c)) with
                        | Some cl => osid_eqb (s_parent cl) s
                        | None => false end.
Definition open_children (st : state) (i : inst) (s : sid) : nat := length (filter (child_of st i s) (st_created st)).

Lemma NoDup_map_on : forall {A B} (f : A -> B) l, NoDup l -> (forall x y, In x l -> In y l -> f x = f y -> x = y) -> NoDup (map f l).
Proof.
  induction l as [|a r IH]; simpl; intros ND Inj; [constructor|]. inversion ND; subst. constructor.
  - intros X. apply in_map_iff in X. destruct X as (y & E & Iy). assert (y = a) by (apply Inj; auto). subst. contradiction.
  - apply IH; auto.
Qed.

Lemma NoDup_of_map : forall {A B} (f : A -> B) l, NoDup (map f l) -> NoDup l.
Proof.
  induction l as [|a r IH]; simpl; intros ND; [constructor|]. inversion ND; subst. constructor; auto.
  intros X. apply H1. apply in_map; auto.
Qed.

Lemma osid_eqb_spec : forall o s, osid_eqb o s = true <-> o = Some s.
Proof.
  intros [x|] s; simpl; split; intros H; try discriminate.
  - apply sid_eqb_spec in H; subst; auto.
  - inversion H; apply sid_eqb_refl.
Qed.

Section FromInv.
  Variables (pend : option (inst * sid)) (st : state) (tr : list obs).
  Hypothesis I : Inv pend st tr.

  Lemma child_of_spec : forall i s ic sc qc, child_of st i s (ic, sc, qc) = true <->
    ic = i /\ exists cl, lookup st i sc = Some cl /\ s_parent cl = Some s.
  Proof.
    intros; unfold child_of; simpl. rewrite andb_true_iff, Nat.eqb_eq. split.
    - intros (-> & H). split; auto. destruct (lookup st i sc) as [cl|]; [|discriminate]. exists cl. split; auto. apply osid_eqb_spec; auto.
    - intros (-> & cl & L & P). split; auto. rewrite L. apply osid_eqb_spec; auto.
  Qed.

  Lemma kids_count : forall i s sl, lookup st i s = Some sl -> length (s_kids sl) = open_children st i s.
  Proof.
    intros i s sl L. unfold open_children.
    set (F := filter (child_of st i s) (st_created st)).
    set (K := map (fun c : inst * sid * nat => snd (fst c)) F).
    assert (NDF : NoDup F) by (apply NoDup_filter; eapply NoDup_of_map; apply (i_nodup _ _ _ I)).
    assert (NDK : NoDup K).
    { apply NoDup_map_on; auto. intros [[i1 s1] q1] [[i2 s2] q2] I1 I2 E. simpl in E. subst s2.
      apply filter_In in I1, I2. destruct I1 as (C1 & T1), I2 as (C2 & T2).
      apply child_of_spec in T1, T2. destruct T1 as (-> & _), T2 as (-> & _).
      rewrite (i_keys _ _ _ I _ _ _ _ C1 C2). reflexivity. }
    destruct (i_kids _ _ _ I _ _ _ L) as (NDs & KC).
    assert (E1 : forall x, In x (s_kids sl) -> In x K).
    { intros x Ix. destruct (KC _ Ix) as (cl & Lc & Pc).
      apply in_map_iff. exists (i, x, s_seq cl). split; auto. apply filter_In. split; [eapply i_created; eauto|].
      apply child_of_spec. split; eauto. }
    assert (E2 : forall x, In x K -> In x (s_kids sl)).
    { intros x Ix. apply in_map_iff in Ix. destruct Ix as ([[ic sc] qc] & E & Ic). simpl in E; subst sc.
      apply filter_In in Ic. destruct Ic as (_ & T). apply child_of_spec in T. destruct T as (-> & cl & Lc & Pc).
      destruct (i_parent _ _ _ I _ _ _ _ Lc Pc) as (pl & Lp & Ink & _). rewrite L in Lp; inversion Lp; subst; auto. }
    assert (length (s_kids sl) <= length K) by (apply NoDup_incl_length; auto).
    assert (length K <= length (s_kids sl)) by (apply NoDup_incl_length; auto).
    unfold K in *. rewrite map_length in *. lia.
  Qed.

  (** the reference-count invariant in the property's own terms *)
  Lemma refcount : forall i s sl, lookup st i s = Some sl ->
    s_refs sl = N.of_nat (handles_n st i s + entered_threads_n st i s + open_children st i s + pendn pend i s) /\ (1 <= s_refs sl)%N.
  Proof.
    intros i s sl L. split; [|eapply i_pos; eauto].
    rewrite (i_refs _ _ _ I _ _ _ L), (kids_count _ _ _ L). reflexivity.
  Qed.

  Lemma entered_threads_le : forall i s, nE st i s <= entered_n st i s.
  Proof.
    intros; unfold nE, entered_n, ematch. induction (st_entries st) as [|e r IH]; simpl; auto.
    destruct ((e_i e =? i) && sid_eqb (e_s e) s); simpl; [|exact IH]. destruct (negb (e_dup e)); simpl; lia.
  Qed.

  (** a dead span has no handle, no stack entry, no open child *)
  Lemma dead_all_gone : forall i s, lookup st i s = None -> handles_n st i s = 0 /\ entered_n st i s = 0 /\ open_children st i s = 0.
  Proof.
    intros i s D. repeat split.
    - apply filter_all_false. intros [h v] Ix. unfold hmatch; simpl. destruct v as [|j s0]; auto.
      destruct ((j =? i) && sid_eqb s0 s) eqn:E; auto. apply key_eqb_spec in E. inversion E; subst.
      pose proof (i_handles _ _ _ I _ _ _ Ix) as V. apply is_live_true in V. destruct V as (y & Ly). congruence.
    - apply filter_all_false. intros e Ie.
      destruct ((e_i e =? i) && sid_eqb (e_s e) s) eqn:E; auto. apply key_eqb_spec in E. inversion E as [[E1 E2]].
      pose proof (i_entries _ _ _ I _ Ie) as V. rewrite E1, E2 in V. apply is_live_true in V. destruct V as (y & Ly). congruence.
    - apply filter_all_false. intros [[ic sc] qc] Ic.
      destruct (child_of st i s (ic, sc, qc)) eqn:E; auto. apply child_of_spec in E. destruct E as (-> & cl & Lc & Pc).
      destruct (i_parent _ _ _ I _ _ _ _ Lc Pc) as (pl & Lp & _). congruence.
  Qed.
End FromInv.

Section Clauses.
  Variables (st : state) (tr : list obs).
  Hypothesis I : Inv None st tr.

  Lemma live_has_reference : forall i s sl, lookup st i s = Some sl ->
    1 <= handles_n st i s + entered_n st i s + open_children st i s.
  Proof.
    intros i s sl L. destruct (refcount _ _ _ I _ _ _ L) as (R & P). rewrite pendn_none in R.
    pose proof (entered_threads_le st i s). unfold entered_threads_n in R. lia.
  Qed.

  Lemma live_iff : forall i s, is_live st i s = true <-> 1 <= handles_n st i s + entered_n st i s + open_children st i s.
  Proof.
    intros i s. split.
    - intros V. apply is_live_true in V. destruct V as (sl & L). eapply live_has_reference; eauto.
    - intros H. destruct (is_live st i s) eqn:V; auto. apply is_live_false in V.
      destruct (dead_all_gone _ _ _ I _ _ V) as (A & B & C). lia.
  Qed.

  Lemma exactly_once : forall i s q, In (i, s, q) (st_created st) -> forall l,
    closed_n l q tr <= 1 /\
    (closed_n l q tr = 1 <->
     l < st_layers st i /\ handles_n st i s = 0 /\ entered_n st i s = 0 /\ open_children st i s = 0).
  Proof.
    intros i s q Ic l. rewrite (t_closed _ _ _ I _ _ _ l Ic). split.
    - destruct ((l <? st_layers st i) && negb (is_live st i s)); lia.
    - split.
      + intros H. destruct (l <? st_layers st i) eqn:E1; simpl in H; [|discriminate].
        destruct (is_live st i s) eqn:V; simpl in H; [discriminate|].
        apply Nat.ltb_lt in E1. split; auto. apply is_live_false in V. apply (dead_all_gone _ _ _ I _ _ V).
      + intros (E1 & A & B & C). apply Nat.ltb_lt in E1. rewrite E1. simpl.
        destruct (is_live st i s) eqn:V; auto. apply live_iff in V. lia.
  Qed.

  Lemma not_early : forall i s q, In (i, s, q) (st_created st) ->
    1 <= handles_n st i s + entered_n st i s + open_children st i s -> forall l, closed_n l q tr = 0.
  Proof.
    intros i s q Ic H l. rewrite (t_closed _ _ _ I _ _ _ l Ic).
    apply live_iff in H. rewrite H, andb_false_r. reflexivity.
  Qed.

  Lemma never_created_never_closed : forall q l, st_count st <= q -> closed_n l q tr = 0.
  Proof. apply (t_closed_none _ _ _ I). Qed.

  Lemma children_first : forall tr1 i l q e tr2, tr = tr1 ++ OClose i l q e :: tr2 ->
    forall ic sc c, In (ic, sc, c) (st_created st) -> cpar_get c (st_cpar st) = Some (Some q) ->
    forall l', l' < st_layers st ic -> closed_n l' c tr1 = 1.
  Proof. intros; eapply (t_children _ _ _ I); eauto. Qed.

  Lemma readable_during_close : forall o, In o tr ->
    match o with
    | OCloseGone _ _ => False            (* a layer's ctx.span(id) inside on_close failed *)
    | OClose _ _ q e => e = Some q       (* it found the span and read the span's OWN extension data *)
    | OPanic _ | OFuel => False
    | _ => True
    end.
  Proof. intros o Io. pose proof (t_fine _ _ _ I o Io) as F. destruct o; simpl in *; auto. Qed.

  Lemma gone_after : forall i s q l, In (i, s, q) (st_created st) -> closed_n l q tr = 1 -> lookup st i s = None.
  Proof.
    intros i s q l Ic H. rewrite (t_closed _ _ _ I _ _ _ l Ic) in H.
    destruct (is_live st i s) eqn:V; [rewrite andb_false_r in H; discriminate|]. apply is_live_false; auto.
  Qed.

  Lemma gone_iff_closed : forall i s q, In (i, s, q) (st_created st) ->
    (lookup st i s = None <-> forall l, l < st_layers st i -> closed_n l q tr = 1).
  Proof.
    intros i s q Ic. split.
    - intros D l Hl. rewrite (t_closed _ _ _ I _ _ _ l Ic). apply is_live_false in D. rewrite D.
      apply Nat.ltb_lt in Hl. rewrite Hl. reflexivity.
    - intros H. eapply (gone_after i s q 0); eauto. apply H. apply (i_layers _ _ _ I).
  Qed.

  (** after any amount of slot reuse: what a live span holds is a function of its own creation only *)
  Lemma no_stale_data :
    (forall o, In o tr -> match o with ONew _ _ _ stale _ => stale = None | _ => True end) /\
    (forall i s sl, lookup st i s = Some sl ->
       In (i, s, s_seq sl) (st_created st) /\
       (forall q, In (i, s, q) (st_created st) -> s_seq sl = q) /\
       (forall l, l < st_layers st i -> ext_get l (s_ext sl) = Some (s_seq sl)) /\
       cpar_get (s_seq sl) (st_cpar st) = Some (match s_parent sl with None => None | Some p => seq_at st i p end) /\
       (forall p, s_parent sl = Some p -> exists pl, lookup st i p = Some pl /\ s_seq pl < s_seq sl)) /\
    (forall i x, s_occ (st_slots st i x) = false -> s_ext (st_slots st i x) = [] /\ s_parent (st_slots st i x) = None).
  Proof.
    split; [|split].
    - intros o Io. pose proof (t_fine _ _ _ I o Io) as F. destruct o; simpl in *; auto.
    - intros i s sl L. split; [eapply i_created; eauto|]. split; [intros; eapply live_seq; eauto|].
      split; [intros; eapply i_ext; eauto|]. split; [eapply i_cpar; eauto|].
      intros p P. destruct (i_parent _ _ _ I _ _ _ _ L P) as (pl & Lp & _ & Lt). eauto.
    - intros i x O. destruct (i_vacant _ _ _ I _ _ O) as (A & B & _). auto.
  Qed.

  Lemma unique_ids :
    (forall i s q q', In (i, s, q) (st_created st) -> In (i, s, q') (st_created st) -> q = q') /\
    (forall i s s' q, In (i, s, q) (st_created st) -> In (i, s', q) (st_created st) -> s = s') /\
    (forall i s s' sl sl', lookup st i s = Some sl -> lookup st i s' = Some sl' -> s_seq sl <> s_seq sl' -> s <> s' /\ fst s <> fst s').
  Proof.
    split; [|split].
    - apply (i_keys _ _ _ I).
    - intros i s s' q A B. pose proof (seq_unique _ _ _ _ _ _ (i_nodup _ _ _ I) A B) as X. inversion X; auto.
    - intros i s s' sl sl' L L' Ne. split.
      + intros ->. rewrite L in L'. inversion L'; subst. contradiction.
      + intros E. assert (s = s') by (eapply lookup_same_idx; eauto). subst. rewrite L in L'. inversion L'; subst. contradiction.
  Qed.

  Lemma no_panic : st_panicked st = false.
  Proof. apply (i_nopanic _ _ _ I). Qed.
End Clauses.

(* ---------------------------------------------------------------- as statements about histories *)
Section History.
  Variables (layers : inst -> nat) (g : option inst) (h : list op).
  Hypothesis HL : Config_ok layers.
  Hypothesis HW : WellFormed layers g h.
  Hypothesis HO : OwnDefault layers g h.
  Let st := final (init layers g) h.
  Let tr := trace (init layers g) h.

  Lemma H_inv : Inv None st tr.
  Proof. apply inv_history; auto. Qed.
End History.


(* ---------------------------------------------------------------- the clauses, for every history *)
Local Notation St layers g h := (final (init layers g) h).
Local Notation Tr layers g h := (trace (init layers g) h).

Theorem refcount_invariant : forall layers g h, Config_ok layers -> WellFormed layers g h -> OwnDefault layers g h ->
  forall i s sl, lookup (St layers g h) i s = Some sl ->
    s_refs sl = N.of_nat (handles_n (St layers g h) i s + entered_threads_n (St layers g h) i s + open_children (St layers g h) i s) /\
    (1 <= s_refs sl)%N.
Proof.
  intros layers g h HL HW HO i s sl L. pose proof (H_inv layers g h HL HW HO) as I.
  destruct (refcount _ _ _ I _ _ _ L) as (R & P). rewrite pendn_none, Nat.add_0_r in R. auto.
Qed.

Theorem exactly_once_history : forall layers g h, Config_ok layers -> WellFormed layers g h -> OwnDefault layers g h ->
  (forall i s q, In (i, s, q) (st_created (St layers g h)) -> forall l,
     closed_n l q (Tr layers g h) <= 1 /\
     (closed_n l q (Tr layers g h) = 1 <->
      l < layers i /\ handles_n (St layers g h) i s = 0 /\ entered_n (St layers g h) i s = 0 /\ open_children (St layers g h) i s = 0)) /\
  (forall q l, st_count (St layers g h) <= q -> closed_n l q (Tr layers g h) = 0).
Proof.
  intros layers g h HL HW HO. pose proof (H_inv layers g h HL HW HO) as I. split.
  - intros i s q Ic l. pose proof (exactly_once _ _ I i s q Ic l) as E. rewrite final_layers in E. exact E.
  - apply (never_created_never_closed _ _ I).
Qed.

Theorem not_early_history : forall layers g h, Config_ok layers -> WellFormed layers g h -> OwnDefault layers g h ->
  forall i s q, In (i, s, q) (st_created (St layers g h)) ->
  1 <= handles_n (St layers g h) i s + entered_n (St layers g h) i s + open_children (St layers g h) i s ->
  forall l, closed_n l q (Tr layers g h) = 0.
Proof. intros layers g h HL HW HO. apply (not_early _ _ (H_inv layers g h HL HW HO)). Qed.

Lemma trace_snoc : forall st h o, trace st (h ++ [o]) = trace st h ++ snd (step (final st h) o).
Proof. intros. rewrite trace_app, trace_cons, trace_nil, app_nil_r. reflexivity. Qed.

(** the operation during which a close is reported: nothing referenced the span any more, and it was not reported before *)
Theorem not_early_step : forall layers g h o, Config_ok layers -> WellFormed layers g (h ++ [o]) -> OwnDefault layers g (h ++ [o]) ->
  forall i s q, In (i, s, q) (st_created (St layers g (h ++ [o]))) -> forall l,
  1 <= closed_n l q (snd (step (St layers g h) o)) ->
  closed_n l q (Tr layers g h) = 0 /\ closed_n l q (snd (step (St layers g h) o)) = 1 /\
  lookup (St layers g (h ++ [o])) i s = None /\
  handles_n (St layers g (h ++ [o])) i s = 0 /\ entered_n (St layers g (h ++ [o])) i s = 0 /\ open_children (St layers g (h ++ [o])) i s = 0.
Proof.
  intros layers g h o HL HW HO i s q Ic l H1.
  pose proof (H_inv layers g (h ++ [o]) HL HW HO) as I.
  destruct (exactly_once _ _ I i s q Ic l) as (LE & IFF).
  rewrite trace_snoc, closed_n_app in LE, IFF.
  assert (E : closed_n l q (Tr layers g h) + closed_n l q (snd (step (St layers g h) o)) = 1) by lia.
  destruct (proj1 IFF E) as (_ & A & B & C).
  split; [lia|]. split; [lia|]. split; auto.
  eapply (gone_after _ _ I i s q l); eauto. rewrite trace_snoc, closed_n_app. exact E.
Qed.

Theorem children_first_history : forall layers g h, Config_ok layers -> WellFormed layers g h -> OwnDefault layers g h ->
  forall tr1 i l q e tr2, Tr layers g h = tr1 ++ OClose i l q e :: tr2 ->
  forall ic sc c, In (ic, sc, c) (st_created (St layers g h)) -> cpar_get c (st_cpar (St layers g h)) = Some (Some q) ->
  forall l', l' < layers ic -> closed_n l' c tr1 = 1.
Proof.
  intros layers g h HL HW HO tr1 i l q e tr2 E ic sc c Ic Pc l' Hl. pose proof (H_inv layers g h HL HW HO) as I.
  eapply (children_first _ _ I); eauto. rewrite final_layers. exact Hl.
Qed.

Theorem readable_during_close_history : forall layers g h, Config_ok layers -> WellFormed layers g h -> OwnDefault layers g h ->
  forall o, In o (Tr layers g h) ->
    match o with
    | OCloseGone _ _ => False
    | OClose _ _ q e => e = Some q
    | OPanic _ | OFuel => False
    | _ => True
    end.
Proof. intros layers g h HL HW HO. apply (readable_during_close _ _ (H_inv layers g h HL HW HO)). Qed.

Theorem gone_after_history : forall layers g h, Config_ok layers -> WellFormed layers g h -> OwnDefault layers g h ->
  forall i s q, In (i, s, q) (st_created (St layers g h)) ->
  (forall l, closed_n l q (Tr layers g h) = 1 -> lookup (St layers g h) i s = None) /\
  (lookup (St layers g h) i s = None <-> forall l, l < layers i -> closed_n l q (Tr layers g h) = 1).
Proof.
  intros layers g h HL HW HO i s q Ic. pose proof (H_inv layers g h HL HW HO) as I. split.
  - intros l. apply (gone_after _ _ I); auto.
  - pose proof (gone_iff_closed _ _ I i s q Ic) as E. rewrite final_layers in E. exact E.
Qed.

Theorem no_stale_data_history : forall layers g h, Config_ok layers -> WellFormed layers g h -> OwnDefault layers g h ->
  (forall o, In o (Tr layers g h) -> match o with ONew _ _ _ stale _ => stale = None | _ => True end) /\
  (forall i s sl, lookup (St layers g h) i s = Some sl ->
     In (i, s, s_seq sl) (st_created (St layers g h)) /\
     (forall q, In (i, s, q) (st_created (St layers g h)) -> s_seq sl = q) /\
     (forall l, l < layers i -> ext_get l (s_ext sl) = Some (s_seq sl)) /\
     cpar_get (s_seq sl) (st_cpar (St layers g h)) = Some (match s_parent sl with None => None | Some p => seq_at (St layers g h) i p end) /\
     (forall p, s_parent sl = Some p -> exists pl, lookup (St layers g h) i p = Some pl /\ s_seq pl < s_seq sl)) /\
  (forall i x, s_occ (st_slots (St layers g h) i x) = false ->
     s_ext (st_slots (St layers g h) i x) = [] /\ s_parent (st_slots (St layers g h) i x) = None).
Proof.
  intros layers g h HL HW HO. pose proof (no_stale_data _ _ (H_inv layers g h HL HW HO)) as E. rewrite final_layers in E. exact E.
Qed.

Theorem unique_ids_history : forall layers g h, Config_ok layers -> WellFormed layers g h -> OwnDefault layers g h ->
  (forall i s q q', In (i, s, q) (st_created (St layers g h)) -> In (i, s, q') (st_created (St layers g h)) -> q = q') /\
  (forall i s s' q, In (i, s, q) (st_created (St layers g h)) -> In (i, s', q) (st_created (St layers g h)) -> s = s') /\
  (forall i s s' sl sl', lookup (St layers g h) i s = Some sl -> lookup (St layers g h) i s' = Some sl' ->
     s_seq sl <> s_seq sl' -> s <> s' /\ fst s <> fst s').
Proof. intros layers g h HL HW HO. apply (unique_ids _ _ (H_inv layers g h HL HW HO)). Qed.

Theorem no_panic_history : forall layers g h, Config_ok layers -> WellFormed layers g h -> OwnDefault layers g h ->
  st_panicked (St layers g h) = false.
Proof. intros layers g h HL HW HO. apply (no_panic _ _ (H_inv layers g h HL HW HO)). Qed.

(* ---------------------------------------------------------------- witnesses: non-vacuity and F2 *)
Definition two_layers : inst -> nat := cfg_layers 2 2.

Lemma two_layers_ok : Config_ok two_layers.
Proof. intros i. unfold two_layers, cfg_layers. destruct (i =? 0); auto. Qed.

(** a well-behaved history: parent dropped before its child, out-of-order exit, drop while entered, slot reuse *)
Definition h_good : list op :=
  [ OSetDef 0 (Some 0); ONewSpan 0 2 PRoot (0%N, 0%N); OEnter 0 2; ONewSpan 0 4 PCtx (1%N, 0%N); OEnter 0 4;
    ODrop 0 2; OExit 0 0; ONewSpan 0 6 (PExplicit 4) (2%N, 0%N); OExit 0 1; ODrop 0 4; ODrop 0 6;
    ONewSpan 0 8 PRoot (2%N, 1%N); ODrop 0 8 ].

(** F2, first replay of DESIGN 1.2: `one` in registry 0 and `two` in registry 1 share the raw id; the guard of `one` is
    dropped while registry 1 is the thread's default *)
Definition f2_foreign : list op :=
  [ OSetDef 0 (Some 0); ONewSpan 0 2 PRoot (0%N, 0%N); OSetDef 0 (Some 1); ONewSpan 0 4 PRoot (0%N, 0%N);
    OSetDef 0 (Some 0); OClone 0 2 2002; OEnter 0 2002; OSetDef 0 (Some 1); OExitH 0 2002; ODrop 0 2002;
    OSetDef 0 (Some 0); ODrop 0 2 ].
(** F2, second replay: the default guard is dropped before the span guard *)
Definition f2_nodefault : list op :=
  [ OSetDef 0 (Some 0); ONewSpan 0 2 PRoot (0%N, 0%N); OClone 0 2 2002; OEnter 0 2002; ODrop 0 2; OUnsetDef 0;
    OExitH 0 2002; ODrop 0 2002 ].
(** F2, third route: the parent reference of a child is released (Clear for DataInner) with no default *)
Definition f2_parent : list op :=
  [ OSetDef 0 (Some 0); ONewSpan 0 2 PRoot (0%N, 0%N); ONewSpan 0 4 (PExplicit 2) (1%N, 0%N); ODrop 0 2; OUnsetDef 0; ODrop 0 4 ].

Lemma h_good_ok : WellFormed two_layers None h_good /\ OwnDefault two_layers None h_good /\
  map (fun q => closed_n 1 q (Tr two_layers None h_good)) [0; 1; 2; 3] = [1; 1; 1; 1] /\
  st_count (St two_layers None h_good) = 4.
Proof. vm_compute. repeat split. Qed.

Definition early (layers : inst -> nat) (g : option inst) (h : list op) : Prop :=
  exists i s q l, In (i, s, q) (st_created (St layers g h)) /\ l < layers i /\
                  closed_n l q (Tr layers g h) = 1 /\ 1 <= handles_n (St layers g h) i s.
Definition never (layers : inst -> nat) (g : option inst) (h : list op) : Prop :=
  exists i s q l, In (i, s, q) (st_created (St layers g h)) /\ l < layers i /\
                  handles_n (St layers g h) i s = 0 /\ entered_n (St layers g h) i s = 0 /\ open_children (St layers g h) i s = 0 /\
                  closed_n l q (Tr layers g h) = 0.

Lemma f2_foreign_refutes :
  WellFormed two_layers None f2_foreign /\ ~ OwnDefault two_layers None f2_foreign /\
  early two_layers None f2_foreign /\ never two_layers None f2_foreign /\
  st_panicked (St two_layers None (f2_foreign ++ [OSetDef 0 (Some 1); ODrop 0 4])) = true.
Proof.
  split; [vm_compute; reflexivity|]. split; [unfold OwnDefault; vm_compute; discriminate|]. split; [|split].
  - exists 1, (0%N, 0%N), 1, 1. vm_compute. repeat split; auto.
  - exists 0, (0%N, 0%N), 0, 1. vm_compute. repeat split; auto.
  - vm_compute. reflexivity.
Qed.

Lemma f2_nodefault_refutes :
  WellFormed two_layers None f2_nodefault /\ ~ OwnDefault two_layers None f2_nodefault /\ never two_layers None f2_nodefault.
Proof.
  split; [vm_compute; reflexivity|]. split; [unfold OwnDefault; vm_compute; discriminate|].
  exists 0, (0%N, 0%N), 0, 1. vm_compute. repeat split; auto.
Qed.

Lemma f2_parent_refutes :
  WellFormed two_layers None f2_parent /\ ~ OwnDefault two_layers None f2_parent /\ never two_layers None f2_parent.
Proof.
  split; [vm_compute; reflexivity|]. split; [unfold OwnDefault; vm_compute; discriminate|].
  exists 0, (0%N, 0%N), 0, 1. vm_compute. repeat split; auto.
Qed.

Theorem F2_refuted :
  (exists layers g h, Config_ok layers /\ WellFormed layers g h /\ ~ OwnDefault layers g h /\ early layers g h /\ never layers g h /\
                      exists h', WellFormed layers g (h ++ h') /\ st_panicked (St layers g (h ++ h')) = true) /\
  (exists layers g h, Config_ok layers /\ WellFormed layers g h /\ ~ OwnDefault layers g h /\ never layers g h).
Proof.
  split.
  - exists two_layers, None, f2_foreign. destruct f2_foreign_refutes as (A & B & C & D & E).
    split; [apply two_layers_ok|]. repeat split; auto.
    exists [OSetDef 0 (Some 1); ODrop 0 4]. split; [vm_compute; reflexivity | exact E].
  - exists two_layers, None, f2_nodefault. destruct f2_nodefault_refutes as (A & B & C).
    split; [apply two_layers_ok|]. auto.
Qed.

(** in a history that satisfies the hypotheses neither symptom exists *)
Theorem no_early_no_never : forall layers g h, Config_ok layers -> WellFormed layers g h -> OwnDefault layers g h ->
  ~ early layers g h /\ ~ never layers g h.
Proof.
  intros layers g h HL HW HO. destruct (exactly_once_history layers g h HL HW HO) as (EO & _). split.
  - intros (i & s & q & l & Ic & Hl & C & Hn). destruct (EO i s q Ic l) as (_ & IFF). destruct (proj1 IFF C) as (_ & Z & _). lia.
  - intros (i & s & q & l & Ic & Hl & A & B & C & Z). destruct (EO i s q Ic l) as (_ & IFF).
    assert (closed_n l q (Tr layers g h) = 1) by (apply IFF; auto). lia.
Qed.

(* ---------------------------------------------------------------- tie to the source text *)
(** The constants and shapes translators/registry_shapes.py reads out of sharded.rs / stack.rs / layered.rs /
    registry/mod.rs / context.rs on every run are the ones Registry/Model.v mirrors:
      try_close: fetch_sub(1), "not the last" iff the old value > 1      ([reg_try_close]: r - 1, N.ltb 1 r)
      clone_span: fetch_add(1), panics on old value 0                     ([clone_span])
      new_span: ref_count starts at 1                                      ([do_new])
      start_close: CLOSE_COUNT + 1; CloseGuard::drop: CLOSE_COUNT - 1, clears iff the value it saw is 1 ([close_stack], [frames])
    and every function body listed in [Gen_registry.shapes] has exactly the mirrored shape. *)
Lemma model_mirrors_source :
  (Gen_registry.fetch_sub_by, Gen_registry.close_threshold, Gen_registry.fetch_add_by, Gen_registry.closed_mark,
   Gen_registry.init_refs, Gen_registry.guard_dec, Gen_registry.guard_clear_at, Gen_registry.start_inc)
  = (1, 1, 1, 0, 1, 1, 1, 1)%N /\
  forallb snd Gen_registry.shapes = true /\ length Gen_registry.shapes = 21 /\ Gen_registry.gen_unrecognised = [].
Proof. vm_compute. repeat split. Qed.

(* ---------------------------------------------------------------- the faithful micro-step model, in the variant the source has *)
(** Registry/MicroReal.v takes the variant of `Clear for DataInner` as a parameter; here it is the one the translator
    read out of sharded.rs on this run ([Gen_registry.clear_resets_close_count]). *)
Definition source_run (ops : list MicroReal.rop) : MicroReal.rstate := MicroReal.rrun Gen_registry.clear_resets_close_count ops.

Lemma source_exactly_once_if_repaired : forall ops,
  Gen_registry.clear_resets_close_count = true -> MicroReal.rquiescent (source_run ops) = true ->
  forall s, s < MicroReal.r_count (source_run ops) ->
    (MicroReal.r_closed (source_run ops) s = 1 <-> MicroReal.rheld_n (source_run ops) s = 0 /\ MicroReal.rkids_n (source_run ops) s = 0) /\
    (MicroReal.r_closed (source_run ops) s = 1 <-> MicroReal.r_marked (source_run ops) s = true) /\
    MicroReal.r_marked (source_run ops) s = MicroReal.r_cleared (source_run ops) s.
Proof. unfold source_run. intros ops E. rewrite E. apply MicroRealProofs.real_quiescent_exactly_once. Qed.
