(** Registry/Inv.v — the reference-count invariant and its trace part. *)
From Coq Require Import List NArith Bool Arith Lia.
From TV Require Import Registry.Model Registry.Basics.
Import ListNotations.
Local Open Scope nat_scope.

(** what holds a reference on span (i, s): handles, non-duplicate stack entries, live children, and
    (inside an operation) one release that is still pending *)
Definition hmatch (i : inst) (s : sid) (p : hid * hval) : bool :=
  match snd p with HSpan j s' => (j =? i) && sid_eqb s' s | HNone => false end.
Definition nH (st : state) (i : inst) (s : sid) : nat := length (filter (hmatch i s) (st_handles st)).
Definition ematch (i : inst) (s : sid) (e : entry) : bool := (e_i e =? i) && sid_eqb (e_s e) s && negb (e_dup e).
Definition nE (st : state) (i : inst) (s : sid) : nat := length (filter (ematch i s) (st_entries st)).
Definition pendn (pend : option (inst * sid)) (i : inst) (s : sid) : nat :=
  match pend with Some (j, s') => if (j =? i) && sid_eqb s' s then 1 else 0 | None => 0 end.

Fixpoint dups_ok (es : list entry) : Prop :=
  match es with
  | [] => True
  | e :: r => e_dup e = existsb (same (e_i e) (e_t e) (e_s e)) r /\ dups_ok r
  end.

Definition is_close (l q : nat) (o : obs) : bool :=
  match o with OClose _ l' q' _ => (l' =? l) && (q' =? q) | _ => false end.
Definition closed_n (l q : nat) (tr : list obs) : nat := length (filter (is_close l q) tr).

Fixpoint cpar_get (q : nat) (c : list (nat * option nat)) : option (option nat) :=
  match c with [] => None | (k, v) :: r => if k =? q then Some v else cpar_get q r end.

Definition obs_fine (o : obs) : Prop :=
  match o with
  | OCloseGone _ _ | OPanic _ | OFuel => False
  | OClose _ _ q e => e = Some q
  | ONew _ _ _ stale _ => stale = None
  | _ => True
  end.

Record Inv (pend : option (inst * sid)) (st : state) (tr : list obs) : Prop := mkInv {
  i_layers : forall i, 1 <= st_layers st i;
  i_refs : forall i s sl, lookup st i s = Some sl ->
           s_refs sl = N.of_nat (nH st i s + nE st i s + length (s_kids sl) + pendn pend i s);
  i_pos : forall i s sl, lookup st i s = Some sl -> (1 <= s_refs sl)%N;
  i_created : forall i s sl, lookup st i s = Some sl -> In (i, s, s_seq sl) (st_created st);
  i_seqs : forall i s q, In (i, s, q) (st_created st) -> q < st_count st;
  i_nodup : NoDup (map snd (st_created st));
  i_keys : forall i s q q', In (i, s, q) (st_created st) -> In (i, s, q') (st_created st) -> q = q';
  i_gen : forall i s q, In (i, s, q) (st_created st) ->
          s_used (st_slots st i (fst s)) = true /\ (snd s <= s_gen (st_slots st i (fst s)))%N;
  i_parent : forall i s sl p, lookup st i s = Some sl -> s_parent sl = Some p ->
             exists pl, lookup st i p = Some pl /\ In s (s_kids pl) /\ s_seq pl < s_seq sl;
  i_kids : forall i p pl, lookup st i p = Some pl ->
           NoDup (s_kids pl) /\ forall c, In c (s_kids pl) -> exists cl, lookup st i c = Some cl /\ s_parent cl = Some p;
  i_hnodup : NoDup (map fst (st_handles st));
  i_handles : forall h i s, In (h, HSpan i s) (st_handles st) -> is_live st i s = true;
  i_entries : forall e, In e (st_entries st) -> is_live st (e_i e) (e_s e) = true;
  i_dups : dups_ok (st_entries st);
  i_ene : st_ene st = map (fun e => (e_i e, e_t e, e_s e)) (st_entries st);
  i_vacant : forall i x, s_occ (st_slots st i x) = false ->
             s_ext (st_slots st i x) = [] /\ s_parent (st_slots st i x) = None /\ s_kids (st_slots st i x) = [];
  i_close0 : forall t, cget t (st_close st) = 0;
  i_nopanic : st_panicked st = false;
  i_ext : forall i s sl, lookup st i s = Some sl -> forall l, l < st_layers st i -> ext_get l (s_ext sl) = Some (s_seq sl);
  i_cpar : forall i s sl, lookup st i s = Some sl ->
           cpar_get (s_seq sl) (st_cpar st) = Some (match s_parent sl with None => None | Some p => seq_at st i p end);
  i_cpar_inst : forall ic sc c qq, In (ic, sc, c) (st_created st) -> cpar_get c (st_cpar st) = Some (Some qq) ->
                qq < c /\ exists sq, In (ic, sq, qq) (st_created st);
  i_cpar_dom : forall c v, cpar_get c (st_cpar st) = Some v -> c < st_count st;
  t_closed : forall i s q l, In (i, s, q) (st_created st) ->
             closed_n l q tr = if (l <? st_layers st i) && negb (is_live st i s) then 1 else 0;
  t_closed_none : forall q l, st_count st <= q -> closed_n l q tr = 0;
  t_fine : forall o, In o tr -> obs_fine o;
  t_children : forall tr1 i l q e tr2 ic sc c, tr = tr1 ++ OClose i l q e :: tr2 ->
               In (ic, sc, c) (st_created st) -> cpar_get c (st_cpar st) = Some (Some q) ->
               forall l', l' < st_layers st ic -> closed_n l' c tr1 = 1
}.

(* ---------------------------------------------------------------- small facts *)
Lemma closed_n_app : forall l q a b, closed_n l q (a ++ b) = closed_n l q a + closed_n l q b.
Proof. intros; unfold closed_n; rewrite filter_app, app_length; reflexivity. Qed.

Lemma pendn_none : forall i s, pendn None i s = 0.
Proof. reflexivity. Qed.

Lemma pendn_same : forall i s, pendn (Some (i, s)) i s = 1.
Proof. intros; unfold pendn; rewrite Nat.eqb_refl, sid_eqb_refl; reflexivity. Qed.

Lemma pendn_other : forall i s i' s', (i', s') <> (i, s) -> pendn (Some (i, s)) i' s' = 0.
Proof.
  intros; unfold pendn. destruct (i =? i') eqn:E1; simpl; auto. destruct (sid_eqb s s') eqn:E2; auto.
  apply Nat.eqb_eq in E1; apply sid_eqb_spec in E2; subst; contradiction.
Qed.

Lemma dups_nondup_exists : forall es e, dups_ok es -> In e es ->
  exists e', In e' es /\ same (e_i e) (e_t e) (e_s e) e' = true /\ e_dup e' = false.
Proof.
  induction es as [|a r IH]; simpl; intros e D I; [contradiction|]. destruct D as [D1 D2].
  destruct I as [<-|I].
  - destruct (e_dup a) eqn:Ed.
    + symmetry in D1. apply existsb_exists in D1. destruct D1 as (x & Ix & Sx).
      destruct (IH x D2 Ix) as (e' & I' & S' & N').
      exists e'; split; auto. split; auto.
      apply same_spec in Sx. destruct Sx as (A & B & C). rewrite A, B, C in S'. exact S'.
    + exists a; split; auto. split; auto. apply same_spec; auto.
  - destruct (IH e D2 I) as (e' & I' & S' & N'). exists e'; auto.
Qed.

Lemma nE_zero_no_entry : forall st i s, dups_ok (st_entries st) -> nE st i s = 0 ->
  forall e, In e (st_entries st) -> ~ (e_i e = i /\ e_s e = s).
Proof.
  intros st i s D Z e I [A B].
  destruct (dups_nondup_exists _ _ D I) as (e' & I' & S' & N').
  apply same_spec in S'. destruct S' as (A' & _ & C').
  pose proof (filter_none _ _ Z e' I') as F. unfold ematch in F.
  rewrite A', A, Nat.eqb_refl, C', B, sid_eqb_refl, N' in F. discriminate.
Qed.

Lemma nH_zero_no_handle : forall st i s, nH st i s = 0 -> forall h, ~ In (h, HSpan i s) (st_handles st).
Proof.
  intros st i s Z h I. pose proof (filter_none _ _ Z _ I) as F. unfold hmatch in F; simpl in F.
  rewrite Nat.eqb_refl, sid_eqb_refl in F; discriminate.
Qed.

(** created keys: a live slot's creation number is the one in the table *)
Lemma live_seq : forall pend st tr i s sl q, Inv pend st tr -> lookup st i s = Some sl -> In (i, s, q) (st_created st) -> s_seq sl = q.
Proof. intros. eapply i_keys; eauto. eapply i_created; eauto. Qed.

Lemma seq_unique : forall (c : list (inst * sid * nat)) i s i' s' q, NoDup (map snd c) -> In (i, s, q) c -> In (i', s', q) c -> (i, s) = (i', s').
Proof.
  induction c as [|[[a b] k] r IH]; simpl; intros i s i' s' q ND I1 I2; [contradiction|]. inversion ND; subst.
  destruct I1 as [I1|I1], I2 as [I2|I2].
  - congruence.
  - inversion I1; subst. exfalso; apply H1. change q with (snd (i', s', q)); apply in_map; auto.
  - inversion I2; subst. exfalso; apply H1. change q with (snd (i, s, q)); apply in_map; auto.
  - eauto.
Qed.
