(** Registry/Micro.v — micro-step model of the span registry's reference counting.  Definitions only, all
    executable, no proofs (the proofs are in Registry/MicroProofs.v).

    Mirrors, as the code is NOW in /repo:
      tracing-subscriber/src/registry/sharded.rs
          new_span            parent = clone_span(parent id); slot created with ref_count 1 and data.parent = parent
          clone_span          get(id) (panic if absent); ref_count.fetch_add(1); assert_ne!(old, 0)
          try_close           get(id) (panic if absent); ref_count.fetch_sub(1); return old == 1   (refs > 1 => false)
          CloseGuard::drop    when the outermost try_close frame returned true: spans.clear(idx)
          Clear for DataInner parent.take() and subscriber.try_close(parent)                        (the cascade)
      tracing-subscriber/src/subscribe/layered.rs
          Layered::try_close  if inner.try_close(id) { subscriber.on_close(id, ctx) }  — on_close looks the span
                              up (`ctx.span(&id).expect("Span not found, this is a bug")` in fmt_subscriber.rs)

    Granularity.  Registry/Model.v takes "one API call = one atomic step".  Here every atomic access is its own
    micro-step and ANY number of threads interleave them arbitrarily (sequential consistency; the only shared
    variables touched are the AtomicUsize ref_count, accessed by fetch_add / fetch_sub only, and the slot
    itself):
        fetch_add           [MClone]
        fetch_sub           [MDrop] (a handle / stack entry is given up)  and  [MRel] (the cascade's fetch_sub)
        on_close            [MOnClose]   (the layers' callbacks; each looks the span up)
        slot clear          [MClear]     (the span is removed; its parent field is taken)
    A thread that saw the old value 1 in its fetch_sub is "inside try_close": [m_tasks] records what it does
    next.  One layer is enough: with k layers on top of the registry every layer's on_close runs between the
    same fetch_sub and the same clear, in the same thread, so [m_closed] counts the reports of any one of them.

    Spans are numbered by creation (0,1,2,...); slot reuse (sharded_slab generations) is the business of
    Registry/Model.v and is not repeated here: a reused slot is a new span number.

    Reference tokens [m_held]: one entry (t,s) per reference on span s currently owned by thread t: a `Span`
    handle, a span-stack entry (enter cloned it), an `Id` returned by clone_span that is still in flight
    (for instance between new_span's clone_span(parent) and the slot creation). *)
From Coq Require Import List Arith Bool PeanoNat.
Import ListNotations.
Local Open Scope nat_scope.

Definition tid := nat.

(** What a thread that is inside try_close does next. *)
Inductive task :=
| TClose (s : nat)     (* its fetch_sub on s returned 1: run on_close for s *)
| TClear (s : nat)     (* on_close done: clear the slot of s *)
| TRel (p : nat).      (* slot cleared, the parent field p was taken: fetch_sub on p *)

(* ---------- small executable helpers ---------- *)

Definition upd {A : Type} (f : nat -> A) (k : nat) (v : A) : nat -> A :=
  fun x => if x =? k then v else f x.

Fixpoint cnt {A : Type} (f : A -> bool) (l : list A) : nat :=
  match l with [] => 0 | x :: r => (if f x then 1 else 0) + cnt f r end.

(** remove the first element satisfying [f] *)
Fixpoint rm1 {A : Type} (f : A -> bool) (l : list A) : list A :=
  match l with [] => [] | x :: r => if f x then r else x :: rm1 f r end.

(* tokens *)
Definition tok_is (t : tid) (s : nat) (x : tid * nat) : bool := (fst x =? t) && (snd x =? s).
Definition has_tok (t : tid) (s : nat) (l : list (tid * nat)) : bool := existsb (tok_is t s) l.
Definition rm_tok (t : tid) (s : nat) (l : list (tid * nat)) : list (tid * nat) := rm1 (tok_is t s) l.
Definition hcnt (q : nat) (l : list (tid * nat)) : nat := cnt (fun x => q =? snd x) l.

(* tasks: an association list with at most one entry per thread; no entry = idle *)
Definition key_is (t : tid) (x : tid * task) : bool := fst x =? t.
Definition task_of (t : tid) (l : list (tid * task)) : option task :=
  match find (key_is t) l with Some x => Some (snd x) | None => None end.
Definition set_task (t : tid) (o : option task) (l : list (tid * task)) : list (tid * task) :=
  match o with Some k => (t, k) :: rm1 (key_is t) l | None => rm1 (key_is t) l end.
Definition is_close (q : nat) (k : task) : bool := match k with TClose s => q =? s | _ => false end.
Definition is_clear (q : nat) (k : task) : bool := match k with TClear s => q =? s | _ => false end.
Definition is_rel (q : nat) (k : task) : bool := match k with TRel s => q =? s | _ => false end.
Definition tcnt (P : task -> bool) (l : list (tid * task)) : nat := cnt (fun x => P (snd x)) l.

(* children: c is a live child of q *)
Definition is_kid (par : nat -> option nat) (clr : nat -> bool) (q c : nat) : bool :=
  match par c with Some p => (q =? p) && negb (clr c) | None => false end.
Definition kcnt (par : nat -> option nat) (clr : nat -> bool) (q n : nat) : nat :=
  cnt (is_kid par clr q) (seq 0 n).

(* ---------- state ---------- *)

Record mstate := mkM {
  m_count : nat;                      (* spans created so far: the spans are 0 .. m_count-1 *)
  m_refs : nat -> nat;                (* DataInner::ref_count *)
  m_parent : nat -> option nat;       (* DataInner::parent *)
  m_cleared : nat -> bool;            (* the slot was removed (spans.clear) *)
  m_closed : nat -> nat;              (* number of on_close reports for the span (per layer) *)
  m_held : list (tid * nat);          (* reference tokens owned by threads *)
  m_tasks : list (tid * task);        (* threads inside try_close *)
  m_bad : bool                        (* a panic / underflow / failed lookup inside on_close happened *)
}.

Definition m_task (st : mstate) (t : tid) : option task := task_of t (m_tasks st).
Definition idle (st : mstate) (t : tid) : bool := match m_task st t with None => true | Some _ => false end.

(** the counting functions of the theorems *)
Definition held_n (st : mstate) (s : nat) : nat := hcnt s (m_held st).
Definition kids_n (st : mstate) (s : nat) : nat := kcnt (m_parent st) (m_cleared st) s (m_count st).
Definition rel_n (st : mstate) (s : nat) : nat := tcnt (is_rel s) (m_tasks st).
Definition close_n (st : mstate) (s : nat) : nat := tcnt (is_close s) (m_tasks st).
Definition clear_n (st : mstate) (s : nat) : nat := tcnt (is_clear s) (m_tasks st).

Definition minit : mstate :=
  mkM 0 (fun _ => 0) (fun _ => None) (fun _ => false) (fun _ => 0) [] [] false.

Definition set_bad (st : mstate) : mstate :=
  mkM (m_count st) (m_refs st) (m_parent st) (m_cleared st) (m_closed st) (m_held st) (m_tasks st) true.
Definition set_held (st : mstate) (h : list (tid * nat)) : mstate :=
  mkM (m_count st) (m_refs st) (m_parent st) (m_cleared st) (m_closed st) h (m_tasks st) (m_bad st).

(* ---------- micro-operations ---------- *)

Inductive mop :=
| MNew (t : tid) (par : option nat)
| MClone (t : tid) (s : nat)
| MSend (t t' : tid) (s : nat)
| MDrop (t : tid) (s : nat)
| MOnClose (t : tid)
| MClear (t : tid)
| MRel (t : tid).

(** Slot creation (create_with): the new span is number m_count, ref_count 1, data.parent = par.  With a
    parent, the reference produced by the preceding clone_span(parent) — a token (t,p) — is moved into the
    slot (it stops being a token and is from now on counted by [kids_n]). *)
Definition new_state (st : mstate) (t : tid) (par : option nat) (h : list (tid * nat)) : mstate :=
  let c := m_count st in
  mkM (S c) (upd (m_refs st) c 1) (upd (m_parent st) c par) (upd (m_cleared st) c false)
      (upd (m_closed st) c 0) ((t, c) :: h) (m_tasks st) (m_bad st).

Definition do_new (t : tid) (par : option nat) (st : mstate) : mstate :=
  match m_task st t with
  | Some _ => st
  | None =>
      match par with
      | None => new_state st t None (m_held st)
      | Some p => if has_tok t p (m_held st) then new_state st t (Some p) (rm_tok t p (m_held st)) else st
      end
  end.

(** clone_span: the caller owns a reference (it has an `&Id` it got from a handle / its stack). *)
Definition do_clone (t : tid) (s : nat) (st : mstate) : mstate :=
  match m_task st t with
  | Some _ => st
  | None =>
      if has_tok t s (m_held st) then
        if m_cleared st s || (m_refs st s =? 0) then set_bad st         (* "no span exists" / "already closed" *)
        else mkM (m_count st) (upd (m_refs st) s (S (m_refs st s))) (m_parent st) (m_cleared st) (m_closed st)
                 ((t, s) :: m_held st) (m_tasks st) (m_bad st)
      else st
  end.

(** A handle moves to another thread (Span: Send).  No idleness guard: strictly more schedules. *)
Definition do_send (t t' : tid) (s : nat) (st : mstate) : mstate :=
  if has_tok t s (m_held st) then set_held st ((t', s) :: rm_tok t s (m_held st)) else st.

(** The fetch_sub of try_close executed by thread [t] on span [p]; the thread's task afterwards is
    TClose p when it saw the old value 1 (try_close returns true) and nothing otherwise. *)
Definition fetch_sub (t : tid) (p : nat) (st : mstate) : mstate :=
  if m_cleared st p || (m_refs st p =? 0) then set_bad st               (* "no such span exists" / underflow *)
  else mkM (m_count st) (upd (m_refs st) p (m_refs st p - 1)) (m_parent st) (m_cleared st) (m_closed st)
           (m_held st)
           (set_task t (if m_refs st p =? 1 then Some (TClose p) else None) (m_tasks st))
           (m_bad st).

(** try_close on a reference the thread owns (Span::drop, exit's pop): the token is given up. *)
Definition do_drop (t : tid) (s : nat) (st : mstate) : mstate :=
  match m_task st t with
  | Some _ => st
  | None => if has_tok t s (m_held st) then fetch_sub t s (set_held st (rm_tok t s (m_held st))) else st
  end.

(** The layers' on_close for s: each looks the span up — it must still be in the registry. *)
Definition do_onclose (t : tid) (st : mstate) : mstate :=
  match m_task st t with
  | Some (TClose s) =>
      mkM (m_count st) (m_refs st) (m_parent st) (m_cleared st) (upd (m_closed st) s (S (m_closed st s)))
          (m_held st) (set_task t (Some (TClear s)) (m_tasks st)) (m_bad st || m_cleared st s)
  | _ => st
  end.

(** CloseGuard::drop -> spans.clear(idx) -> Clear for DataInner: the slot goes away, parent.take(). *)
Definition do_clear (t : tid) (st : mstate) : mstate :=
  match m_task st t with
  | Some (TClear s) =>
      mkM (m_count st) (m_refs st) (m_parent st) (upd (m_cleared st) s true) (m_closed st) (m_held st)
          (set_task t (match m_parent st s with Some p => Some (TRel p) | None => None end) (m_tasks st))
          (m_bad st)
  | _ => st
  end.

(** the cascade's subscriber.try_close(parent) *)
Definition do_rel (t : tid) (st : mstate) : mstate :=
  match m_task st t with
  | Some (TRel p) => fetch_sub t p st
  | _ => st
  end.

Definition mstep (st : mstate) (op : mop) : mstate :=
  match op with
  | MNew t par => do_new t par st
  | MClone t s => do_clone t s st
  | MSend t t' s => do_send t t' s st
  | MDrop t s => do_drop t s st
  | MOnClose t => do_onclose t st
  | MClear t => do_clear t st
  | MRel t => do_rel t st
  end.

Definition mrun (ops : list mop) : mstate := fold_left mstep ops minit.

(** the micro-op a thread inside try_close executes next *)
Definition next_op (t : tid) (k : task) : mop :=
  match k with TClose _ => MOnClose t | TClear _ => MClear t | TRel _ => MRel t end.

(** potential of the pending close work (decreases with every step of a busy thread; used for
    "every run can be driven to quiescence") *)
Definition task_weight (k : task) : nat :=
  match k with TClose s => 3 * s + 3 | TClear s => 3 * s + 2 | TRel p => 3 * p + 4 end.
Fixpoint pending_weight (l : list (tid * task)) : nat :=
  match l with [] => 0 | x :: r => task_weight (snd x) + pending_weight r end.

(* ---------- observation helpers for the examples ---------- *)

(** (closed 0, closed 1, cleared 0, cleared 1, no thread busy, bad) *)
Definition obs2 (st : mstate) : nat * nat * bool * bool * bool * bool :=
  (m_closed st 0, m_closed st 1, m_cleared st 0, m_cleared st 1,
   match m_tasks st with [] => true | _ => false end, m_bad st).

(** in every prefix of the schedule: span 0 reported closed only after span 1 was reported AND removed *)
Definition child_first_all_prefixes (ops : list mop) : bool :=
  forallb (fun k => let st := mrun (firstn k ops) in
                    implb (m_closed st 0 =? 1) ((m_closed st 1 =? 1) && m_cleared st 1))
          (seq 0 (S (length ops))).

(** some prefix where span 1 is already closed and span 0 is not yet *)
Definition child_strictly_first (ops : list mop) : bool :=
  existsb (fun k => let st := mrun (firstn k ops) in (m_closed st 1 =? 1) && (m_closed st 0 =? 0))
          (seq 0 (S (length ops))).
