(** Registry/MicroRealProofs.v — proofs about the guard-aware micro-step model Registry/MicroReal.v.

    One inductive invariant [RInv fixed], stated for BOTH values of [fixed]; only its last clause ("a span that
    was reported closed and is not marked is being cleared right now") depends on [fixed = true].
      - safety (no panic, at-most-once, reference count, children first): every schedule, fixed or not;
      - exactly-once at quiescence: every schedule of the repaired code (fixed = true);
      - the unrepaired code (fixed = false) has a schedule ending quiescent with a span reported closed but
        never removed and its parent never closed (F51): by computation. *)
From Coq Require Import List Arith Bool Lia PeanoNat.
From TV Require Import Registry.Micro Registry.MicroProofs Registry.MicroReal.
Import ListNotations.
Local Open Scope nat_scope.

(* ================================================================== *)
(** * Task lists *)

Lemma rfind_key t l x : find (rkey_is t) l = Some x -> x = (t, snd x).
Proof.
  intros H. apply find_some in H. destruct H as [_ H]. unfold rkey_is in H.
  apply Nat.eqb_eq in H. destruct x; simpl in *. now subst.
Qed.

Lemma rtask_rm_none t l : rtask_of t l = None -> rm1 (rkey_is t) l = l.
Proof.
  unfold rtask_of. destruct (find (rkey_is t) l) eqn:E; [discriminate|]. intros _. now apply rm1_none.
Qed.

(** The one delta lemma for every change of a thread's task. *)
Lemma rcnt_set (P : tid * rtask -> bool) t o l :
  cnt P (rset_task t o l) + match rtask_of t l with Some k => if P (t, k) then 1 else 0 | None => 0 end
  = cnt P l + match o with Some k => if P (t, k) then 1 else 0 | None => 0 end.
Proof.
  unfold rtask_of. destruct (find (rkey_is t) l) as [x|] eqn:E.
  - pose proof (cnt_rm1 _ P _ _ E) as H. rewrite (rfind_key _ _ _ E) in H.
    destruct o; simpl; lia.
  - unfold rset_task. destruct o; rewrite (rm1_none _ _ E); simpl; lia.
Qed.

Lemma rcnt_pos (P : tid * rtask -> bool) t l k : rtask_of t l = Some k -> P (t, k) = true -> 1 <= cnt P l.
Proof.
  intros E H. pose proof (rcnt_set P t None l) as D. rewrite E, H in D. simpl in D. lia.
Qed.

Lemma rrm1_keys_in t' t l : In t' (map fst (rm1 (rkey_is t) l)) -> In t' (map fst l).
Proof.
  induction l as [|a r IH]; simpl; [auto|].
  destruct (rkey_is t a); simpl; intuition.
Qed.

Lemma rrm1_keys_nodup t l : NoDup (map fst l) -> NoDup (map fst (rm1 (rkey_is t) l)).
Proof.
  induction l as [|a r IH]; simpl; [auto|]. intros H. inversion H; subst.
  destruct (rkey_is t a); simpl; [assumption|].
  constructor; [|auto]. intros Hin. apply rrm1_keys_in in Hin. contradiction.
Qed.

Lemma rrm1_keys_notin t l : NoDup (map fst l) -> ~ In t (map fst (rm1 (rkey_is t) l)).
Proof.
  induction l as [|a r IH]; simpl; [auto|]. intros H. inversion H; subst.
  destruct (rkey_is t a) eqn:E; unfold rkey_is in E.
  - apply Nat.eqb_eq in E. now rewrite <- E.
  - apply Nat.eqb_neq in E. simpl. intros [Hin|Hin]; [contradiction|]. now apply IH.
Qed.

Lemma rset_task_nodup t o l : NoDup (map fst l) -> NoDup (map fst (rset_task t o l)).
Proof.
  intros H. destruct o; simpl.
  - constructor; [now apply rrm1_keys_notin | now apply rrm1_keys_nodup].
  - now apply rrm1_keys_nodup.
Qed.

(* ================================================================== *)
(** * Guards, per (thread, span) pair *)

Lemma pcnt_rm t s t' s' l :
  has_tok t s l = true ->
  cnt (tok_is t' s') (rm_tok t s l) + (if (t =? t') && (s =? s') then 1 else 0) = cnt (tok_is t' s') l.
Proof.
  intros H. apply existsb_find in H. destruct H as [x [Hf Hx]].
  unfold rm_tok. rewrite <- (cnt_rm1 _ (tok_is t' s') _ _ Hf).
  unfold tok_is in Hx. apply andb_prop in Hx. destruct Hx as [H1 H2].
  apply Nat.eqb_eq in H1. apply Nat.eqb_eq in H2.
  assert (E : tok_is t' s' x = (t =? t') && (s =? s')) by (unfold tok_is; now rewrite H1, H2).
  now rewrite E.
Qed.

Lemma has_tok_of_cnt t s l : 1 <= cnt (tok_is t s) l -> has_tok t s l = true.
Proof.
  unfold has_tok. induction l as [|a r IH]; simpl; [lia|].
  destruct (tok_is t s a); simpl; [reflexivity|]. intros H. apply IH. lia.
Qed.

Lemma hcnt_all_zero (l : list (tid * nat)) : (forall s, hcnt s l = 0) -> l = [].
Proof.
  destruct l as [|[t s] r]; [reflexivity|]. intros H. specialize (H s).
  rewrite hcnt_cons, Nat.eqb_refl in H. lia.
Qed.

(* ================================================================== *)
(** * The invariant *)

(** Per-span invariant of a created span (s < r_count), as arithmetic over the counting functions
    (r1 / r0 = threads between their fetch_sub on s and their return that saw / did not see the old value 1;
    g = guards on s).
      always      : refs = tokens + live children + cascade fetch_subs in flight; guards = r1 + r0
      marked      : reported once, nothing refers to s; storage cleared, or some guard holder will clear it
      not marked  : at most one thread is closing s; refs = 0 exactly when someone closes / has closed s;
                    repaired code only: reported (closed = 1) exactly in the KClear phase *)
Definition rspan_ok (fixed : bool) (refs held kids rel r1 r0 g close clear closed : nat)
           (mk clr : bool) : Prop :=
  g = r1 + r0 /\ refs = held + kids + rel /\
  if mk then
    refs = 0 /\ r1 = 0 /\ close = 0 /\ clear = 0 /\ closed = 1 /\ (if clr then r0 = 0 else 1 <= r0)
  else
    (if clr then False else True) /\ clear <= closed /\ r1 + close + closed <= 1 /\
    ((refs = 0 /\ r1 + close + closed = 1) \/ (1 <= refs /\ r1 + close + closed = 0)) /\
    (if fixed then closed = clear else True).

(** a span number that is not created yet: nothing refers to it *)
Definition rfresh_ok (held rel r1 r0 g close clear closed : nat) (mk clr : bool) : Prop :=
  held = 0 /\ rel = 0 /\ r1 = 0 /\ r0 = 0 /\ g = 0 /\ close = 0 /\ clear = 0 /\ closed = 0 /\
  (if mk then False else True) /\ (if clr then False else True).

Definition rspan_inv (fixed : bool) (st : rstate) (s : nat) : Prop :=
  rspan_ok fixed (r_refs st s) (rheld_n st s) (rkids_n st s) (rrel_n st s) (rret1_n st s)
           (rret0_n st s) (rguard_n st s) (rclose_n st s) (rclear_n st s) (r_closed st s)
           (r_marked st s) (r_cleared st s).

Definition rfresh_inv (st : rstate) (s : nat) : Prop :=
  rfresh_ok (rheld_n st s) (rrel_n st s) (rret1_n st s) (rret0_n st s) (rguard_n st s) (rclose_n st s)
            (rclear_n st s) (r_closed st s) (r_marked st s) (r_cleared st s).

Record RInv (fixed : bool) (st : rstate) : Prop := {
  rinv_bad : r_bad st = false;
  rinv_keys : NoDup (map fst (r_tasks st));
  rinv_par : forall c p, r_parent st c = Some p -> p < c /\ c < r_count st;
  (* the guards are exactly the threads between fetch_sub and return *)
  rinv_guard : forall t s, cnt (tok_is t s) (r_guards st) = cnt (k_ret_by t s) (r_tasks st);
  rinv_span : forall s, s < r_count st -> rspan_inv fixed st s;
  rinv_fresh : forall s, r_count st <= s -> rfresh_inv st s
}.

Ltac runf :=
  unfold rspan_inv, rfresh_inv, rheld_n, rguard_n, rkids_n, rrel_n, rret1_n, rret0_n, rclose_n, rclear_n,
         r_task, rset_held in *;
  cbn [r_count r_refs r_parent r_cleared r_marked r_closed r_held r_guards r_tasks r_bad] in *.

Ltac rfin := unfold rspan_ok, rfresh_ok in *; fin.

Lemma tok_is_pair t' s' t s : tok_is t' s' (t, s) = (t =? t') && (s =? s').
Proof. reflexivity. Qed.
Lemma k_ret_by_pair t' s' t k :
  k_ret_by t' s' (t, k) = (t =? t') && match k with KRet s _ _ => s =? s' | _ => false end.
Proof. reflexivity. Qed.

Ltac kred :=
  rewrite ?tok_is_pair, ?k_ret_by_pair in *;
  cbn [k_rel k_ret1 k_ret0 k_close k_clear fst snd] in *.

(** pose the task-count deltas of the five per-span predicates for the [rset_task t _ _] in the goal *)
Ltac rdeltas q t st :=
  match goal with |- context[rset_task t ?o (r_tasks st)] =>
    pose proof (rcnt_set (k_rel q) t o (r_tasks st));
    pose proof (rcnt_set (k_ret1 q) t o (r_tasks st));
    pose proof (rcnt_set (k_ret0 q) t o (r_tasks st));
    pose proof (rcnt_set (k_close q) t o (r_tasks st));
    pose proof (rcnt_set (k_clear q) t o (r_tasks st))
  end.

Ltac gdelta t' s' t st :=
  match goal with |- context[rset_task t ?o (r_tasks st)] =>
    pose proof (rcnt_set (k_ret_by t' s') t o (r_tasks st))
  end.

Lemma rinit_inv fixed : RInv fixed rinit.
Proof.
  constructor; simpl.
  - reflexivity.
  - constructor.
  - discriminate.
  - reflexivity.
  - intros s H. lia.
  - intros s _. unfold rfresh_inv, rfresh_ok, rheld_n, rguard_n, rrel_n, rret1_n, rret0_n, rclose_n,
      rclear_n, hcnt. simpl. repeat split.
Qed.

(** anything that refers to s proves that s has been created *)
Lemma rlive fixed st s :
  RInv fixed st ->
  1 <= rheld_n st s + rrel_n st s + rret1_n st s + rret0_n st s + rclose_n st s + rclear_n st s ->
  s < r_count st.
Proof.
  intros I H. destruct (Nat.lt_ge_cases s (r_count st)) as [Hlt|Hge]; [assumption|exfalso].
  pose proof (rinv_fresh _ _ I s Hge) as F. unfold rfresh_inv, rfresh_ok in F. lia.
Qed.

(* ---------------- RSend ---------------- *)
Lemma rsend_inv fixed t t' s st : RInv fixed st -> RInv fixed (do_rsend t t' s st).
Proof.
  intros I. unfold do_rsend. destruct (has_tok t s (r_held st)) eqn:Htok; [|exact I].
  constructor; runf; try apply I.
  - intros q Hql. pose proof (rinv_span _ _ I q Hql) as Hq. runf.
    rewrite hcnt_cons. pose proof (hcnt_rm q _ _ _ Htok) as D.
    eqcase q s; rfin.
  - intros q Hge. pose proof (rinv_fresh _ _ I q Hge) as Hq. runf.
    rewrite hcnt_cons. pose proof (hcnt_rm q _ _ _ Htok) as D.
    eqcase q s; rfin.
Qed.

(* ---------------- RClone ---------------- *)
Lemma rclone_inv fixed t s st : RInv fixed st -> RInv fixed (do_rclone t s st).
Proof.
  intros I. unfold do_rclone. destruct (r_task st t); [exact I|].
  destruct (has_tok t s (r_held st)) eqn:Htok; [|exact I].
  pose proof (hcnt_pos _ _ _ Htok) as Hpos.
  assert (Hlt : s < r_count st) by (apply (rlive fixed st s I); unfold rheld_n; lia).
  pose proof (rinv_span _ _ I s Hlt) as Hs. runf.
  destruct (r_marked st s) eqn:Hmk; [exfalso; rfin|]. simpl orb.
  destruct (Nat.eqb_spec (r_refs st s) 0) as [Hz|Hz]; [exfalso; rfin|].
  constructor; runf; try apply I.
  - intros q Hql. pose proof (rinv_span _ _ I q Hql) as Hq. runf.
    rewrite hcnt_cons, ?upd_eq.
    eqcase q s; [clear Hs|]; rfin.
  - intros q Hge. pose proof (rinv_fresh _ _ I q Hge) as Hq. runf.
    rewrite hcnt_cons, ?upd_eq.
    eqcase q s; [exfalso; lia|]; rfin.
Qed.

(* ---------------- RNew ---------------- *)
Lemma rnew_inv fixed t par st : RInv fixed st -> RInv fixed (do_rnew t par st).
Proof.
  intros I. unfold do_rnew. destruct (r_task st t); [exact I|].
  pose proof (kcnt_fresh (r_parent st) (r_cleared st) (r_count st) (r_count st) (rinv_par _ _ I) (le_n _))
    as Hfresh.
  pose proof (rinv_fresh _ _ I (r_count st) (le_n _)) as Hn.
  destruct par as [p|].
  - destruct (has_tok t p (r_held st)) eqn:Htok; [|exact I].
    pose proof (hcnt_pos _ _ _ Htok) as Hpos.
    assert (Hlt : p < r_count st) by (apply (rlive fixed st p I); unfold rheld_n; lia).
    assert (Hnp : (r_count st =? p) = false) by (apply Nat.eqb_neq; lia).
    unfold rnew_state. constructor; runf; try apply I.
    + intros c p'. unfold upd. destruct (Nat.eqb_spec c (r_count st)) as [->|Hc].
      * intros [= <-]. lia.
      * intros H. apply (rinv_par _ _ I) in H. lia.
    + intros q Hql.
      rewrite hcnt_cons, kcnt_new. pose proof (hcnt_rm q _ _ _ Htok) as D.
      rewrite ?upd_eq.
      eqcase q (r_count st); [rewrite ?Hnp in *; rfin|].
      assert (Hql' : q < r_count st) by lia.
      pose proof (rinv_span _ _ I q Hql') as Hq. runf. clear Hn.
      eqcase q p; rfin.
    + intros q Hge. assert (Hge' : r_count st <= q) by lia.
      pose proof (rinv_fresh _ _ I q Hge') as Hq. runf. clear Hn.
      rewrite hcnt_cons. pose proof (hcnt_rm q _ _ _ Htok) as D. rewrite ?upd_eq.
      eqcase q (r_count st); [exfalso; lia|]. eqcase q p; [exfalso; lia|]. rfin.
  - unfold rnew_state. constructor; runf; try apply I.
    + intros c p'. unfold upd. destruct (Nat.eqb_spec c (r_count st)) as [->|Hc].
      * discriminate.
      * intros H. apply (rinv_par _ _ I) in H. lia.
    + intros q Hql.
      rewrite hcnt_cons, kcnt_new. rewrite ?upd_eq.
      eqcase q (r_count st); [rfin|].
      assert (Hql' : q < r_count st) by lia.
      pose proof (rinv_span _ _ I q Hql') as Hq. runf. clear Hn. rfin.
    + intros q Hge. assert (Hge' : r_count st <= q) by lia.
      pose proof (rinv_fresh _ _ I q Hge') as Hq. runf. clear Hn.
      rewrite hcnt_cons, ?upd_eq.
      eqcase q (r_count st); [exfalso; lia|]. rfin.
Qed.

(* ---------------- RDrop ---------------- *)
Lemma rdrop_inv fixed t s st : RInv fixed st -> RInv fixed (do_rdrop t s st).
Proof.
  intros I. unfold do_rdrop. destruct (r_task st t) eqn:Ht; [exact I|].
  destruct (has_tok t s (r_held st)) eqn:Htok; [|exact I].
  pose proof (hcnt_pos _ _ _ Htok) as Hpos.
  assert (Hlt : s < r_count st) by (apply (rlive fixed st s I); unfold rheld_n; lia).
  pose proof (rinv_span _ _ I s Hlt) as Hs. unfold rfetch_sub. runf.
  destruct (r_marked st s) eqn:Hmk; [exfalso; rfin|]. simpl orb.
  destruct (Nat.eqb_spec (r_refs st s) 0) as [Hz|Hz]; [exfalso; rfin|].
  constructor; runf; try apply I.
  - apply rset_task_nodup, I.
  - intros t' s'. pose proof (rinv_guard _ _ I t' s') as G. gdelta t' s' t st.
    rewrite Ht in *. cbn [cnt]. kred. lia.
  - intros q Hql. pose proof (rinv_span _ _ I q Hql) as Hq. runf.
    pose proof (hcnt_rm q _ _ _ Htok) as D. rewrite hcnt_cons, ?upd_eq.
    rdeltas q t st. rewrite Ht in *.
    destruct (Nat.eqb_spec (r_refs st s) 1) as [Hone|Hone]; kred; (eqcase q s; [clear Hs|]); rfin.
  - intros q Hge. pose proof (rinv_fresh _ _ I q Hge) as Hq. runf.
    pose proof (hcnt_rm q _ _ _ Htok) as D. rewrite hcnt_cons.
    rdeltas q t st. rewrite Ht in *. kred.
    eqcase q s; [exfalso; lia|]. destruct (r_refs st s =? 1); rfin.
Qed.

(* ---------------- RRel ---------------- *)
Lemma rrel_inv fixed t st : RInv fixed st -> RInv fixed (do_rrel t st).
Proof.
  intros I. unfold do_rrel. destruct (r_task st t) as [[s l n|s n|s n|p n]|] eqn:Ht; try exact I.
  runf.
  pose proof (rcnt_pos (k_rel p) t _ _ Ht) as Hpos. cbn [k_rel snd] in Hpos.
  rewrite Nat.eqb_refl in Hpos. specialize (Hpos eq_refl).
  assert (Hlt : p < r_count st) by (apply (rlive fixed st p I); unfold rrel_n; lia).
  pose proof (rinv_span _ _ I p Hlt) as Hs. unfold rfetch_sub. runf.
  destruct (r_marked st p) eqn:Hmk; [exfalso; rfin|]. simpl orb.
  destruct (Nat.eqb_spec (r_refs st p) 0) as [Hz|Hz]; [exfalso; rfin|].
  constructor; runf; try apply I.
  - apply rset_task_nodup, I.
  - intros t' s'. pose proof (rinv_guard _ _ I t' s') as G. gdelta t' s' t st.
    rewrite Ht in *. cbn [cnt]. kred. rewrite ?andb_false_r in *. lia.
  - intros q Hql. pose proof (rinv_span _ _ I q Hql) as Hq. runf.
    rewrite hcnt_cons, ?upd_eq.
    rdeltas q t st. rewrite Ht in *.
    destruct (Nat.eqb_spec (r_refs st p) 1) as [Hone|Hone]; kred; (eqcase q p; [clear Hs|]); rfin.
  - intros q Hge. pose proof (rinv_fresh _ _ I q Hge) as Hq. runf.
    rewrite hcnt_cons.
    rdeltas q t st. rewrite Ht in *. kred.
    eqcase q p; [exfalso; lia|]. destruct (r_refs st p =? 1); rfin.
Qed.

(* ---------------- ROnClose ---------------- *)
Lemma ronclose_inv fixed t st : RInv fixed st -> RInv fixed (do_ronclose t st).
Proof.
  intros I. unfold do_ronclose. destruct (r_task st t) as [[s l n|s n|s n|p n]|] eqn:Ht; try exact I.
  runf.
  pose proof (rcnt_pos (k_close s) t _ _ Ht) as Hpos. cbn [k_close snd] in Hpos.
  rewrite Nat.eqb_refl in Hpos. specialize (Hpos eq_refl).
  assert (Hlt : s < r_count st) by (apply (rlive fixed st s I); unfold rclose_n; lia).
  pose proof (rinv_span _ _ I s Hlt) as Hs. runf.
  destruct (r_marked st s) eqn:Hmk; [exfalso; rfin|].
  constructor; runf; try apply I.
  - rewrite (rinv_bad _ _ I). reflexivity.
  - apply (rset_task_nodup t (Some (KClear s n))), I.
  - intros t' s'. pose proof (rinv_guard _ _ I t' s') as G. gdelta t' s' t st.
    rewrite Ht in *. kred. rewrite ?andb_false_r in *. lia.
  - intros q Hql. pose proof (rinv_span _ _ I q Hql) as Hq. runf. rewrite ?upd_eq.
    rdeltas q t st. rewrite Ht in *. kred.
    eqcase q s; [clear Hs|]; rfin.
  - intros q Hge. pose proof (rinv_fresh _ _ I q Hge) as Hq. runf. rewrite ?upd_eq.
    rdeltas q t st. rewrite Ht in *. kred.
    eqcase q s; [exfalso; lia|]; rfin.
Qed.

(* ---------------- RRet ---------------- *)
Lemma rret_inv fixed t st : RInv fixed st -> RInv fixed (do_rret t st).
Proof.
  intros I. unfold do_rret. destruct (r_task st t) as [[s l n|s n|s n|p n]|] eqn:Ht; try exact I.
  runf. cbn zeta.
  assert (Htok : has_tok t s (r_guards st) = true).
  { apply has_tok_of_cnt. rewrite (rinv_guard _ _ I t s).
    apply (rcnt_pos _ t _ _ Ht). rewrite k_ret_by_pair, !Nat.eqb_refl. reflexivity. }
  assert (Hlt : s < r_count st).
  { apply (rlive fixed st s I). unfold rret1_n, rret0_n.
    destruct l.
    - pose proof (rcnt_pos (k_ret1 s) t _ _ Ht) as Hp. cbn [k_ret1 snd] in Hp.
      rewrite Nat.eqb_refl in Hp. specialize (Hp eq_refl). lia.
    - pose proof (rcnt_pos (k_ret0 s) t _ _ Ht) as Hp. cbn [k_ret0 snd] in Hp.
      rewrite Nat.eqb_refl in Hp. specialize (Hp eq_refl). lia. }
  pose proof (rinv_span _ _ I s Hlt) as Hs. runf.
  destruct l.
  - (* it saw 1: go on to on_close *)
    constructor; runf; try apply I.
    + apply (rset_task_nodup t (Some (KClose s n))), I.
    + intros t' s'. pose proof (rinv_guard _ _ I t' s') as G. gdelta t' s' t st.
      pose proof (pcnt_rm t s t' s' _ Htok) as Dg.
      rewrite Ht in *. kred. rewrite ?andb_false_r in *. lia.
    + intros q Hql. pose proof (rinv_span _ _ I q Hql) as Hq. runf.
      pose proof (hcnt_rm q _ _ _ Htok) as D.
      rdeltas q t st. rewrite Ht in *. kred.
      eqcase q s; [clear Hs|]; rfin.
    + intros q Hge. pose proof (rinv_fresh _ _ I q Hge) as Hq. runf.
      pose proof (hcnt_rm q _ _ _ Htok) as D.
      rdeltas q t st. rewrite Ht in *. kred.
      eqcase q s; [exfalso; lia|]; rfin.
  - match goal with |- context[if ?c then _ else _] => destruct c eqn:Hc end.
    + (* the deferred storage clear runs here, nested *)
      apply andb_true_iff in Hc. destruct Hc as [Hc Hg]. apply andb_true_iff in Hc. destruct Hc as [Hmk Hcl].
      apply negb_true_iff in Hcl. apply Nat.eqb_eq in Hg.
      constructor; runf; try apply I.
      * apply rset_task_nodup, I.
      * intros t' s'. pose proof (rinv_guard _ _ I t' s') as G. gdelta t' s' t st.
        pose proof (pcnt_rm t s t' s' _ Htok) as Dg.
        rewrite Ht in *. destruct (r_parent st s); kred; rewrite ?andb_false_r in *; lia.
      * intros q Hql. pose proof (rinv_span _ _ I q Hql) as Hq. runf. rewrite ?upd_eq.
        pose proof (hcnt_rm q _ _ _ Htok) as D.
        pose proof (kcnt_clear (r_parent st) (r_cleared st) q (r_count st) s Hlt Hcl) as Dk.
        rdeltas q t st. rewrite Ht in *.
        destruct (r_parent st s) as [p|] eqn:Hp; kred.
        -- pose proof (rinv_par _ _ I _ _ Hp) as [Hps _].
           assert (Hsp : (s =? p) = false) by (apply Nat.eqb_neq; lia).
           eqcase q s; [clear Hs; rewrite ?Hsp, ?Hmk, ?Hcl in * | clear Hs; eqcase q p]; rfin.
        -- eqcase q s; [clear Hs; rewrite ?Hmk, ?Hcl in *| clear Hs]; rfin.
      * intros q Hge. pose proof (rinv_fresh _ _ I q Hge) as Hq. runf. rewrite ?upd_eq.
        pose proof (hcnt_rm q _ _ _ Htok) as D.
        rdeltas q t st. rewrite Ht in *.
        eqcase q s; [exfalso; lia|]. clear Hs.
        destruct (r_parent st s) as [p|] eqn:Hp; kred.
        -- pose proof (rinv_par _ _ I _ _ Hp) as [Hps _]. eqcase q p; [exfalso; lia|]. rfin.
        -- rfin.
    + (* plain return *)
      constructor; runf; try apply I.
      * apply rset_task_nodup, I.
      * intros t' s'. pose proof (rinv_guard _ _ I t' s') as G. gdelta t' s' t st.
        pose proof (pcnt_rm t s t' s' _ Htok) as Dg.
        rewrite Ht in *. kred. lia.
      * intros q Hql. pose proof (rinv_span _ _ I q Hql) as Hq. runf.
        pose proof (hcnt_rm q _ _ _ Htok) as D.
        rdeltas q t st. rewrite Ht in *. kred.
        eqcase q s; [clear Hs|clear Hs Hc; rfin].
        apply andb_false_iff in Hc. destruct Hc as [Hc|Hc]; [apply andb_false_iff in Hc; destruct Hc as [Hc|Hc]|].
        -- rfin.
        -- apply negb_false_iff in Hc. rfin.
        -- apply Nat.eqb_neq in Hc. rfin.
      * intros q Hge. pose proof (rinv_fresh _ _ I q Hge) as Hq. runf.
        pose proof (hcnt_rm q _ _ _ Htok) as D.
        rdeltas q t st. rewrite Ht in *. kred.
        eqcase q s; [exfalso; lia|]. clear Hs Hc. rfin.
Qed.

(* ---------------- RClear ---------------- *)
Lemma rclear_inv fixed t st : RInv fixed st -> RInv fixed (do_rclear fixed t st).
Proof.
  intros I. unfold do_rclear. destruct (r_task st t) as [[s l n|s n|s n|p n]|] eqn:Ht; try exact I.
  runf.
  pose proof (rcnt_pos (k_clear s) t _ _ Ht) as Hpos. cbn [k_clear snd] in Hpos.
  rewrite Nat.eqb_refl in Hpos. specialize (Hpos eq_refl).
  assert (Hlt : s < r_count st) by (apply (rlive fixed st s I); unfold rclear_n; lia).
  pose proof (rinv_span _ _ I s Hlt) as Hs. runf.
  destruct (r_marked st s) eqn:Hmk; [exfalso; rfin|].
  destruct (n && negb fixed) eqn:Hnf.
  - (* unfixed, nested: CloseGuard saw a count <> 1; nothing happens to the slot *)
    apply andb_true_iff in Hnf. destruct Hnf as [_ Hfx]. apply negb_true_iff in Hfx. subst fixed.
    constructor; runf; try apply I.
    + apply rset_task_nodup, I.
    + intros t' s'. pose proof (rinv_guard _ _ I t' s') as G. gdelta t' s' t st.
      rewrite Ht in *. kred. rewrite ?andb_false_r in *. lia.
    + intros q Hql. pose proof (rinv_span _ _ I q Hql) as Hq. runf.
      rdeltas q t st. rewrite Ht in *. kred.
      eqcase q s; [clear Hs|]; rfin.
    + intros q Hge. pose proof (rinv_fresh _ _ I q Hge) as Hq. runf.
      rdeltas q t st. rewrite Ht in *. kred.
      eqcase q s; [exfalso; lia|]; rfin.
  - clear Hnf. destruct (Nat.eqb_spec (hcnt s (r_guards st)) 0) as [Hg|Hg].
    + (* no guard: the storage is cleared now *)
      assert (Hcl : r_cleared st s = false) by (destruct (r_cleared st s); [exfalso; rfin | reflexivity]).
      constructor; runf; try apply I.
      * apply rset_task_nodup, I.
      * intros t' s'. pose proof (rinv_guard _ _ I t' s') as G. gdelta t' s' t st.
        rewrite Ht in *. destruct (r_parent st s); kred; rewrite ?andb_false_r in *; lia.
      * intros q Hql. pose proof (rinv_span _ _ I q Hql) as Hq. runf. rewrite ?upd_eq.
        pose proof (kcnt_clear (r_parent st) (r_cleared st) q (r_count st) s Hlt Hcl) as Dk.
        rdeltas q t st. rewrite Ht in *.
        destruct (r_parent st s) as [p|] eqn:Hp; kred.
        -- pose proof (rinv_par _ _ I _ _ Hp) as [Hps _].
           assert (Hsp : (s =? p) = false) by (apply Nat.eqb_neq; lia).
           eqcase q s; [clear Hs; rewrite ?Hsp, ?Hcl in * | clear Hs; eqcase q p]; rfin.
        -- eqcase q s; [clear Hs; rewrite ?Hcl in *|clear Hs]; rfin.
      * intros q Hge. pose proof (rinv_fresh _ _ I q Hge) as Hq. runf. rewrite ?upd_eq.
        rdeltas q t st. rewrite Ht in *.
        eqcase q s; [exfalso; lia|]. clear Hs.
        destruct (r_parent st s) as [p|] eqn:Hp; kred.
        -- pose proof (rinv_par _ _ I _ _ Hp) as [Hps _]. eqcase q p; [exfalso; lia|]. rfin.
        -- rfin.
    + (* some guard is held: mark only, the last guard holder clears *)
      constructor; runf; try apply I.
      * apply rset_task_nodup, I.
      * intros t' s'. pose proof (rinv_guard _ _ I t' s') as G. gdelta t' s' t st.
        rewrite Ht in *. kred. rewrite ?andb_false_r in *. lia.
      * intros q Hql. pose proof (rinv_span _ _ I q Hql) as Hq. runf. rewrite ?upd_eq.
        rdeltas q t st. rewrite Ht in *. kred.
        eqcase q s; [clear Hs|]; rfin.
      * intros q Hge. pose proof (rinv_fresh _ _ I q Hge) as Hq. runf. rewrite ?upd_eq.
        rdeltas q t st. rewrite Ht in *. kred.
        eqcase q s; [exfalso; lia|]; rfin.
Qed.

(* ---------------- every step, every run ---------------- *)
Lemma rstep_inv fixed st op : RInv fixed st -> RInv fixed (rstep fixed st op).
Proof.
  destruct op; simpl.
  - apply rnew_inv.
  - apply rclone_inv.
  - apply rsend_inv.
  - apply rdrop_inv.
  - apply rret_inv.
  - apply ronclose_inv.
  - apply rclear_inv.
  - apply rrel_inv.
Qed.

Lemma rfold_inv fixed ops : forall st, RInv fixed st -> RInv fixed (fold_left (rstep fixed) ops st).
Proof.
  induction ops as [|op ops IH]; simpl; intros st I; [exact I|].
  apply IH, rstep_inv, I.
Qed.

Lemma rrun_inv fixed ops : RInv fixed (rrun fixed ops).
Proof. apply rfold_inv, rinit_inv. Qed.

(* ================================================================== *)
(** * A. Safety: every schedule, repaired or not ([fixed] is universally quantified) *)

(** No panic, no underflow, every on_close finds its span. *)
Theorem real_no_bad : forall (fixed : bool) (ops : list rop), r_bad (rrun fixed ops) = false.
Proof. intros fixed ops. apply (rinv_bad _ _ (rrun_inv fixed ops)). Qed.

(** A span is reported closed at most once. *)
Theorem real_at_most_once : forall (fixed : bool) (ops : list rop) (s : nat),
  r_closed (rrun fixed ops) s <= 1.
Proof.
  intros fixed ops s. pose proof (rrun_inv fixed ops) as I.
  destruct (Nat.lt_ge_cases s (r_count (rrun fixed ops))) as [Hlt|Hge].
  - pose proof (rinv_span _ _ I s Hlt) as Hs. unfold rspan_inv, rspan_ok in Hs.
    destruct (r_marked (rrun fixed ops) s); lia.
  - pose proof (rinv_fresh _ _ I s Hge) as Hs. unfold rfresh_inv, rfresh_ok in Hs. lia.
Qed.

(** The exact reference-count equation: for EVERY created span, marked or not, the count is the number of
    references that exist; the guards on it are the threads between their fetch_sub and their return; a
    marked span (and in particular a cleared one) has count 0 and nothing refers to it. *)
Theorem real_refcount : forall (fixed : bool) (ops : list rop) (s : nat),
  let st := rrun fixed ops in
  s < r_count st ->
  r_refs st s = rheld_n st s + rkids_n st s + rrel_n st s /\
  rguard_n st s = rret1_n st s + rret0_n st s /\
  (r_marked st s = true -> r_refs st s = 0 /\ r_closed st s = 1) /\
  (r_cleared st s = true -> r_marked st s = true /\ rguard_n st s = 0).
Proof.
  intros fixed ops s st Hlt. pose proof (rinv_span _ _ (rrun_inv fixed ops) s Hlt) as Hs. fold st in Hs.
  unfold rspan_inv, rspan_ok in Hs.
  destruct (r_marked st s), (r_cleared st s); repeat split; try discriminate; lia.
Qed.

(** When a span has been reported closed, no reference to it exists and every child it ever had has been
    reported closed and its storage cleared before (children first). *)
Theorem real_closed_not_early : forall (fixed : bool) (ops : list rop) (s : nat),
  let st := rrun fixed ops in
  r_closed st s = 1 ->
  rheld_n st s = 0 /\ rrel_n st s = 0 /\ r_refs st s = 0 /\
  (forall c, c < r_count st -> r_parent st c = Some s -> r_closed st c = 1 /\ r_cleared st c = true).
Proof.
  intros fixed ops s st Hc. pose proof (rrun_inv fixed ops) as I. fold st in I.
  assert (Hlt : s < r_count st).
  { destruct (Nat.lt_ge_cases s (r_count st)) as [Hlt|Hge]; [assumption|exfalso].
    pose proof (rinv_fresh _ _ I s Hge) as Hs. unfold rfresh_inv, rfresh_ok in Hs. lia. }
  pose proof (rinv_span _ _ I s Hlt) as Hs. unfold rspan_inv, rspan_ok in Hs.
  assert (Hk : rheld_n st s = 0 /\ rrel_n st s = 0 /\ r_refs st s = 0 /\ rkids_n st s = 0).
  { destruct (r_marked st s); lia. }
  destruct Hk as [H1 [H2 [H3 H4]]]. repeat split; try assumption.
  - destruct (r_cleared st c) eqn:Ec.
    + pose proof (rinv_span _ _ I c H) as Hcc. unfold rspan_inv, rspan_ok in Hcc. rewrite Ec in Hcc.
      destruct (r_marked st c); [lia | exfalso; tauto].
    + pose proof (kcnt_pos (r_parent st) (r_cleared st) s (r_count st) c H H0 Ec) as Hp.
      unfold rkids_n in H4. lia.
  - destruct (r_cleared st c) eqn:Ec; [reflexivity|].
    pose proof (kcnt_pos (r_parent st) (r_cleared st) s (r_count st) c H H0 Ec) as Hp.
    unfold rkids_n in H4. lia.
Qed.

(** At most one thread is the closer of a span (it saw the old value 1 and has not finished yet), and the
    count stays 0 meanwhile. *)
Theorem real_unique_closer : forall (fixed : bool) (ops : list rop) (s : nat),
  let st := rrun fixed ops in
  NoDup (map fst (r_tasks st)) /\
  rret1_n st s + rclose_n st s + rclear_n st s <= 1 /\
  (1 <= rret1_n st s + rclose_n st s + rclear_n st s -> r_refs st s = 0 /\ r_marked st s = false).
Proof.
  intros fixed ops s st. pose proof (rrun_inv fixed ops) as I. fold st in I.
  split; [apply I|].
  destruct (Nat.lt_ge_cases s (r_count st)) as [Hlt|Hge].
  - pose proof (rinv_span _ _ I s Hlt) as Hs. unfold rspan_inv, rspan_ok in Hs.
    destruct (r_marked st s); (split; [lia|]); intros H; [exfalso; lia|]. split; [lia | reflexivity].
  - pose proof (rinv_fresh _ _ I s Hge) as Hs. unfold rfresh_inv, rfresh_ok in Hs.
    split; [lia|]. intros H. exfalso. lia.
Qed.

(* ================================================================== *)
(** * A'. The repaired code: exactly once at quiescence *)

Lemma rquiescent_nil st : rquiescent st = true -> r_tasks st = [] /\ r_guards st = [].
Proof.
  unfold rquiescent. destruct (r_tasks st); [|discriminate]. destruct (r_guards st); [auto|discriminate].
Qed.

(** In a quiescent state of the repaired code a span has been reported closed exactly when no handle and no
    live child refers to it, exactly when it has been removed from the registry, and removal is complete
    (marked = storage cleared). *)
Theorem real_quiescent_exactly_once : forall (ops : list rop),
  let st := rrun true ops in
  rquiescent st = true ->
  forall s, s < r_count st ->
    (r_closed st s = 1 <-> rheld_n st s = 0 /\ rkids_n st s = 0) /\
    (r_closed st s = 1 <-> r_marked st s = true) /\
    r_marked st s = r_cleared st s.
Proof.
  intros ops st Hq s Hlt. pose proof (rrun_inv true ops) as I. fold st in I.
  destruct (rquiescent_nil _ Hq) as [Ht Hg].
  pose proof (rinv_span _ _ I s Hlt) as Hs.
  unfold rspan_inv, rspan_ok, rrel_n, rret1_n, rret0_n, rguard_n, rclose_n, rclear_n in Hs.
  rewrite Ht, Hg in Hs. unfold hcnt in Hs. simpl in Hs.
  destruct (r_marked st s), (r_cleared st s).
  - repeat split; intros; try reflexivity; lia.
  - exfalso. lia.
  - exfalso. tauto.
  - repeat split; intros; try discriminate; try lia.
Qed.

(* ================================================================== *)
(** * Progress: the pending close work decreases; every run can be driven to quiescence (fixed or not) *)

Lemma rpw_set t o l k :
  rtask_of t l = Some k ->
  rpending_weight (rset_task t o l) + rtask_weight k
  = rpending_weight l + match o with Some k' => rtask_weight k' | None => 0 end.
Proof.
  unfold rtask_of. intros H.
  assert (E : rpending_weight (rm1 (rkey_is t) l) + rtask_weight k = rpending_weight l).
  { revert H. induction l as [|a r IH]; simpl; [discriminate|].
    destruct (rkey_is t a).
    - intros [= <-]. lia.
    - intros H. specialize (IH H). simpl. lia. }
  destruct o; simpl; lia.
Qed.

Lemma rnext_op_decreases fixed st t k :
  RInv fixed st -> r_task st t = Some k ->
  rpending_weight (r_tasks (rstep fixed st (rnext_op t k))) < rpending_weight (r_tasks st).
Proof.
  intros I Ht. unfold r_task in Ht. destruct k as [s l n|s n|s n|p n]; simpl.
  - unfold do_rret, r_task. rewrite Ht. cbn zeta.
    destruct l.
    + cbn [r_tasks]. pose proof (rpw_set t (Some (KClose s n)) _ _ Ht) as D. simpl in D. simpl. lia.
    + match goal with |- context[if ?c then _ else _] => destruct c end; cbn [r_tasks].
      * destruct (r_parent st s) as [p|] eqn:Hp.
        -- pose proof (rinv_par _ _ I _ _ Hp) as [Hps _].
           pose proof (rpw_set t (Some (KRel p true)) _ _ Ht) as D. simpl in D. simpl. lia.
        -- pose proof (rpw_set t None _ _ Ht) as D. simpl in D. simpl. lia.
      * pose proof (rpw_set t None _ _ Ht) as D. simpl in D. simpl. lia.
  - unfold do_ronclose, r_task. rewrite Ht. cbn [r_tasks].
    pose proof (rpw_set t (Some (KClear s n)) _ _ Ht) as D. simpl in D. simpl. lia.
  - unfold do_rclear, r_task. rewrite Ht.
    destruct (n && negb fixed); [|destruct (hcnt s (r_guards st) =? 0)]; cbn [r_tasks].
    + pose proof (rpw_set t None _ _ Ht) as D. simpl in D. simpl. lia.
    + destruct (r_parent st s) as [p|] eqn:Hp.
      * pose proof (rinv_par _ _ I _ _ Hp) as [Hps _].
        pose proof (rpw_set t (Some (KRel p n)) _ _ Ht) as D. simpl in D. simpl. lia.
      * pose proof (rpw_set t None _ _ Ht) as D. simpl in D. simpl. lia.
    + pose proof (rpw_set t None _ _ Ht) as D. simpl in D. simpl. lia.
  - pose proof (rcnt_pos (k_rel p) t _ _ Ht) as Hpos. cbn [k_rel snd] in Hpos.
    rewrite Nat.eqb_refl in Hpos. specialize (Hpos eq_refl).
    assert (Hlt : p < r_count st) by (apply (rlive fixed st p I); unfold rrel_n; lia).
    pose proof (rinv_span _ _ I p Hlt) as Hs. unfold rspan_inv, rspan_ok, rrel_n in Hs.
    unfold do_rrel, r_task, rfetch_sub. rewrite Ht.
    destruct (r_marked st p); [exfalso; lia|]. simpl orb.
    destruct (Nat.eqb_spec (r_refs st p) 0) as [Hz|Hz]; [exfalso; lia|]. cbn [r_tasks].
    pose proof (rpw_set t (Some (KRet p (r_refs st p =? 1) n)) _ _ Ht) as D. simpl in D. simpl. lia.
Qed.

Lemma rdrive fixed n : forall st,
  RInv fixed st -> rpending_weight (r_tasks st) < n ->
  exists ops', r_tasks (fold_left (rstep fixed) ops' st) = [].
Proof.
  induction n as [|n IH]; intros st I Hw; [lia|].
  destruct (r_tasks st) as [|[t k] r] eqn:E.
  - exists []. exact E.
  - assert (Ht : r_task st t = Some k).
    { unfold r_task, rtask_of. rewrite E. simpl. unfold rkey_is. simpl. now rewrite Nat.eqb_refl. }
    pose proof (rnext_op_decreases fixed st t k I Ht) as Hd. rewrite E in Hd.
    destruct (IH (rstep fixed st (rnext_op t k))) as [ops' H]; [now apply rstep_inv | lia |].
    exists (rnext_op t k :: ops'). exact H.
Qed.

Theorem real_can_quiesce : forall (fixed : bool) (ops : list rop),
  exists ops', rquiescent (rrun fixed (ops ++ ops')) = true.
Proof.
  intros fixed ops.
  destruct (rdrive fixed (S (rpending_weight (r_tasks (rrun fixed ops)))) (rrun fixed ops)
                   (rrun_inv fixed ops)) as [ops' H]; [lia|].
  exists ops'.
  assert (E : rrun fixed (ops ++ ops') = fold_left (rstep fixed) ops' (rrun fixed ops))
    by (unfold rrun; apply fold_left_app).
  pose proof (rrun_inv fixed (ops ++ ops')) as I. rewrite E in *.
  assert (Hg : r_guards (fold_left (rstep fixed) ops' (rrun fixed ops)) = []).
  { apply hcnt_all_zero. intro s.
    set (st := fold_left (rstep fixed) ops' (rrun fixed ops)) in *.
    destruct (Nat.lt_ge_cases s (r_count st)) as [Hlt|Hge].
    - pose proof (rinv_span _ _ I s Hlt) as Hs.
      unfold rspan_inv, rspan_ok, rguard_n, rret1_n, rret0_n in Hs. rewrite H in Hs. simpl in Hs. lia.
    - pose proof (rinv_fresh _ _ I s Hge) as Hs. unfold rfresh_inv, rfresh_ok, rguard_n in Hs. lia. }
  unfold rquiescent. now rewrite H, Hg.
Qed.

(* ================================================================== *)
(** * B. The unrepaired code: the F51 witness, and the same schedule after the repair *)

(** robs st s = (closed, marked, cleared, refs, held_n, kids_n) of span s.   G = 0, P = 1, C = 2. *)

(** Code as it is now: the schedule ends with every thread idle and no guard held; P was reported closed
    (on_close ran) but is still in the registry, unmarked and uncleared, with count 0; G has no handle left
    and its only child was reported closed, yet G still counts that child (refs 1) and is never reported. *)
Theorem real_F51_refuted :
  let st := rrun false f51_schedule in
  rquiescent st = true /\ r_bad st = false /\
  r_closed st 1 = 1 /\ r_marked st 1 = false /\ r_cleared st 1 = false /\ r_refs st 1 = 0 /\
  rheld_n st 0 = 0 /\ rkids_n st 0 = 1 /\ r_refs st 0 = 1 /\ r_closed st 0 = 0 /\
  r_closed st 2 = 1 /\ r_marked st 2 = true /\ r_cleared st 2 = true.
Proof. vm_compute. repeat split. Qed.

(** so the conclusion of real_quiescent_exactly_once ("reported closed <-> removed") is false for the
    unrepaired code: P is reported closed, and stays a live (uncleared) child of G for ever *)
Corollary real_F51_not_exactly_once :
  let st := rrun false f51_schedule in
  rquiescent st = true /\
  ~ (forall s, s < r_count st -> (r_closed st s = 1 <-> r_marked st s = true)).
Proof.
  split; [vm_compute; reflexivity|].
  intro H. specialize (H 1). vm_compute in H. destruct H as [H _]; [lia|].
  specialize (H eq_refl). discriminate.
Qed.

(** The same schedule on the repaired code: quiescent, all three spans reported once and removed. *)
Theorem real_F51_fixed :
  let st := rrun true f51_schedule in
  rquiescent st = true /\ r_bad st = false /\
  (r_closed st 0 = 1 /\ r_marked st 0 = true /\ r_cleared st 0 = true) /\
  (r_closed st 1 = 1 /\ r_marked st 1 = true /\ r_cleared st 1 = true) /\
  (r_closed st 2 = 1 /\ r_marked st 2 = true /\ r_cleared st 2 = true).
Proof. vm_compute. repeat split. Qed.

(** the interesting intermediate points of the witness *)
Example f51_deferred :   (* after thread 1's clear: C marked, storage not cleared, thread 0 holds the guard *)
  let st := rrun false (f51_setup ++ [RDrop 0 2; RDrop 1 2; RRet 1; ROnClose 1; RClear 1]) in
  (r_marked st 2, r_cleared st 2, rguard_n st 2, r_tasks st) = (true, false, 1, [(0, KRet 2 false false)]).
Proof. vm_compute. reflexivity. Qed.

Example f51_nested_cascade :   (* thread 0's return runs the deferred clear: the cascade on P is NESTED *)
  let st := rrun false (f51_setup ++ [RDrop 0 2; RDrop 1 2; RRet 1; ROnClose 1; RClear 1; RRet 0]) in
  (r_cleared st 2, r_guards st, r_tasks st) = (true, [], [(0, KRel 1 true)]).
Proof. vm_compute. reflexivity. Qed.

(** without the race (thread 0 returns before thread 1 clears) the unrepaired code is fine *)
Example f51_no_race_ok :
  let st := rrun false (f51_setup ++ [RDrop 0 2; RRet 0; RDrop 1 2; RRet 1; ROnClose 1; RClear 1;
                                       RRel 1; RRet 1; ROnClose 1; RClear 1; RRel 1; RRet 1; ROnClose 1; RClear 1]) in
  (rquiescent st, robs st 0, robs st 1, robs st 2)
  = (true, (1, true, true, 0, 0, 0), (1, true, true, 0, 0, 0), (1, true, true, 0, 0, 0)).
Proof. vm_compute. reflexivity. Qed.
