(** Registry/NewSpan.v — Registry::new_span + the layers' on_new_span preserve the invariant. *)
From Coq Require Import List NArith Bool Arith Lia.
From TV Require Import Registry.Model Registry.Basics Registry.Inv Registry.Close Registry.Steps.
Import ListNotations.
Local Open Scope nat_scope.

(** the parent after a child was created: one more reference, one more (ghost) child *)
Definition bump (a : sid) (pl : slot) : slot :=
  mkSlot (s_occ pl) (s_used pl) (s_gen pl) (s_seq pl) (s_parent pl) (s_refs pl + 1)%N (s_ext pl) (a :: s_kids pl).

Lemma filter_all_false : forall {A} (f : A -> bool) l, (forall x, In x l -> f x = false) -> length (filter f l) = 0.
Proof.
  induction l as [|x r IH]; simpl; intros H; auto.
  rewrite (H x (or_introl eq_refl)). apply IH. intros; apply H; auto.
Qed.

Lemma cpar_get_cons_other : forall q v c r, c <> q -> cpar_get c ((q, v) :: r) = cpar_get c r.
Proof. intros; simpl. replace (q =? c) with false; auto. symmetry; apply Nat.eqb_neq; auto. Qed.

Lemma cpar_get_cons_same : forall q v r, cpar_get q ((q, v) :: r) = Some v.
Proof. intros; simpl. rewrite Nat.eqb_refl. reflexivity. Qed.

Section NewInv.
  Variables (st st' : state) (tr : list obs) (i : inst) (a : sid) (h : hid) (parent : option sid)
            (ext : list (nat * nat)) (news : list obs).
  Hypothesis I : Inv None st tr.
  Let q := st_count st.
  Let nsl := mkSlot true true (snd a) q parent 1%N ext [].
  Hypothesis Hvac : s_occ (st_slots st i (fst a)) = false.
  Hypothesis Hgen : s_used (st_slots st i (fst a)) = false \/ (s_gen (st_slots st i (fst a)) < snd a)%N.
  Hypothesis Hpar : forall p, parent = Some p -> is_live st i p = true.
  Hypothesis Hh : hget h (st_handles st) = None.
  Hypothesis Hext : forall l, l < st_layers st i -> ext_get l ext = Some q.
  Hypothesis Hnews : forall o, In o news -> inert o.
  Hypothesis Sslots : forall i' x', st_slots st' i' x' =
     if (i' =? i) && N.eqb x' (fst a) then nsl
     else match parent with
          | Some p => if (i' =? i) && N.eqb x' (fst p) then bump a (st_slots st i (fst p)) else st_slots st i' x'
          | None => st_slots st i' x' end.
  Hypothesis Sl : st_layers st' = st_layers st.
  Hypothesis Se : st_entries st' = st_entries st.
  Hypothesis Sg : st_ene st' = st_ene st.
  Hypothesis Sc : st_close st' = st_close st.
  Hypothesis Sh : st_handles st' = (h, HSpan i a) :: st_handles st.
  Hypothesis Sn : st_count st' = S q.
  Hypothesis Scr : st_created st' = (i, a, q) :: st_created st.
  Hypothesis Scp : st_cpar st' = (q, match parent with Some p => seq_at st i p | None => None end) :: st_cpar st.
  Hypothesis Sp : st_panicked st' = st_panicked st.

  Tactic Notation "cp" ident(p) ident(P) :=
    let po := fresh "po" in remember parent as po eqn:P in |- *; destruct po as [p|]; symmetry in P.
  Tactic Notation "cph" hyp(H) ident(p) ident(P) :=
    let po := fresh "po" in remember parent as po eqn:P in H; destruct po as [p|]; symmetry in P.

  Lemma a_dead : lookup st i a = None.
  Proof. unfold lookup. rewrite Hvac. reflexivity. Qed.

  Lemma idx_dead : forall s', fst s' = fst a -> lookup st i s' = None.
  Proof. intros s' E. unfold lookup. rewrite E, Hvac. reflexivity. Qed.

  Lemma par_live : forall p, parent = Some p -> exists pl, lookup st i p = Some pl /\ pl = st_slots st i (fst p) /\ fst p <> fst a.
  Proof.
    intros p P. pose proof (Hpar p P) as V. apply is_live_true in V. destruct V as (pl & Lp).
    exists pl. split; auto. pose proof (lookup_some _ _ _ _ Lp) as (E & _). split; auto.
    intros X. rewrite (idx_dead p X) in Lp. discriminate.
  Qed.

  Lemma LKn : forall i' s', lookup st' i' s' =
    if (i' =? i) && sid_eqb s' a then Some nsl
    else match parent with
         | Some p => if (i' =? i) && sid_eqb s' p then Some (bump a (st_slots st i (fst p))) else lookup st i' s'
         | None => lookup st i' s'
         end.
  Proof.
    intros i' s'. unfold lookup at 1. rewrite Sslots.
    destruct (i' =? i) eqn:Ei; simpl.
    2:{ cp p P; reflexivity. }
    apply Nat.eqb_eq in Ei; subst i'.
    destruct (N.eqb (fst s') (fst a)) eqn:Ea.
    - apply N.eqb_eq in Ea. simpl.
      destruct (sid_eqb s' a) eqn:Es.
      + apply sid_eqb_spec in Es; subst. rewrite N.eqb_refl. reflexivity.
      + replace (N.eqb (snd a) (snd s')) with false.
        * rewrite (idx_dead s' Ea). cp p P; auto.
          destruct (sid_eqb s' p) eqn:Ep; auto. apply sid_eqb_spec in Ep; subst s'.
          destruct (par_live p P) as (_ & _ & _ & N). contradiction.
        * symmetry. apply N.eqb_neq. intros X. apply sid_eqb_neq in Es. apply Es. destruct s', a; simpl in *; subst; reflexivity.
    - replace (sid_eqb s' a) with false.
      2:{ symmetry. apply sid_eqb_neq. intros ->. rewrite N.eqb_refl in Ea. discriminate. }
      cp p P; [|reflexivity].
      destruct (par_live p P) as (pl & Lp & Epl & Np).
      destruct (N.eqb (fst s') (fst p)) eqn:Ep.
      + apply N.eqb_eq in Ep. unfold bump; simpl.
        pose proof (lookup_some _ _ _ _ Lp) as (_ & Op & Gp). rewrite <- Epl, Op, Gp. simpl.
        destruct (sid_eqb s' p) eqn:Es.
        * apply sid_eqb_spec in Es; subst. rewrite N.eqb_refl. reflexivity.
        * replace (N.eqb (snd p) (snd s')) with false.
          -- unfold lookup. rewrite Ep, <- Epl, Op, Gp. simpl.
             replace (N.eqb (snd p) (snd s')) with false; auto.
             symmetry. apply N.eqb_neq. intros X. apply sid_eqb_neq in Es. apply Es. destruct s', p; simpl in *; subst; reflexivity.
          -- symmetry. apply N.eqb_neq. intros X. apply sid_eqb_neq in Es. apply Es. destruct s', p; simpl in *; subst; reflexivity.
      + replace (sid_eqb s' p) with false; auto.
        symmetry. apply sid_eqb_neq. intros ->. rewrite N.eqb_refl in Ep. discriminate.
  Qed.

  (** every span live afterwards: the new one, or an old one with the same shape / ext *)
  Lemma live_after_new : forall i' s' x, lookup st' i' s' = Some x ->
    ((i', s') = (i, a) /\ x = nsl) \/
    ((i', s') <> (i, a) /\ exists y, lookup st i' s' = Some y /\ same_shape y x /\ s_ext x = s_ext y /\
       ((parent = Some s' /\ i' = i /\ s_refs x = (s_refs y + 1)%N /\ s_kids x = a :: s_kids y) \/
        ((i' <> i \/ parent <> Some s') /\ s_refs x = s_refs y /\ s_kids x = s_kids y))).
  Proof.
    intros i' s' x H. rewrite LKn in H.
    destruct ((i' =? i) && sid_eqb s' a) eqn:E1.
    - left. apply key_eqb_spec in E1. inversion H. auto.
    - right. split. { intros X. apply key_eqb_spec in X. congruence. }
      cph H p P.
      + destruct ((i' =? i) && sid_eqb s' p) eqn:E2.
        * apply key_eqb_spec in E2. inversion E2; subst i' s'.
          destruct (par_live p P) as (pl & Lp & Epl & _). rewrite <- Epl in H. inversion H; subst x.
          exists pl. split; auto. split; [unfold same_shape, bump; simpl; auto|]. split; [reflexivity|].
          left. repeat split; auto.
        * exists x. split; auto. split; [unfold same_shape; auto|]. split; auto. right. split; auto.
          destruct (Nat.eq_dec i' i); [|left; auto]. right. rewrite P. intros X; inversion X; subst. rewrite key_eqb_refl in E2. discriminate.
      + exists x. split; auto. split; [unfold same_shape; auto|]. split; auto. right. split; auto. right; rewrite P; discriminate.
  Qed.

  Lemma live_before_new : forall i' s' y, lookup st i' s' = Some y ->
    (i', s') <> (i, a) /\ exists x, lookup st' i' s' = Some x /\ same_shape y x.
  Proof.
    intros i' s' y Ly.
    assert (Ne : (i', s') <> (i, a)). { intros X; inversion X; subst. rewrite a_dead in Ly. discriminate. }
    split; auto. rewrite LKn, key_eqb_false by auto.
    cp p P.
    - destruct ((i' =? i) && sid_eqb s' p) eqn:E2.
      + apply key_eqb_spec in E2; inversion E2; subst i' s'.
        destruct (par_live p P) as (pl & Lp & Epl & _). rewrite Ly in Lp; inversion Lp as [Ey]; subst y.
        rewrite <- Epl. eexists; split; eauto. unfold same_shape, bump; simpl; auto.
      + eexists; split; eauto. unfold same_shape; auto.
    - eexists; split; eauto. unfold same_shape; auto.
  Qed.

  Lemma is_live_new : forall i' s', is_live st' i' s' = if (i' =? i) && sid_eqb s' a then true else is_live st i' s'.
  Proof.
    intros. destruct ((i' =? i) && sid_eqb s' a) eqn:E.
    - apply is_live_true. rewrite LKn, E. eauto.
    - destruct (is_live st i' s') eqn:V.
      + apply is_live_true in V. destruct V as (y & Ly). destruct (live_before_new _ _ _ Ly) as (_ & x & Lx & _).
        apply is_live_true; eauto.
      + destruct (is_live st' i' s') eqn:V'; auto. apply is_live_true in V'. destruct V' as (x & Lx).
        destruct (live_after_new _ _ _ Lx) as [(X & _)|(_ & y & Ly & _)].
        * apply key_eqb_spec in X. congruence.
        * apply is_live_false in V. congruence.
  Qed.

  Lemma seq_at_new : forall i' p', is_live st i' p' = true -> seq_at st' i' p' = seq_at st i' p'.
  Proof.
    intros i' p' V. apply is_live_true in V. destruct V as (y & Ly).
    destruct (live_before_new _ _ _ Ly) as (_ & x & Lx & (_ & _ & _ & Sq & _)).
    unfold seq_at. rewrite Lx, Ly. congruence.
  Qed.

  Lemma nH_new : forall i' s', nH st' i' s' = (if (i =? i') && sid_eqb a s' then 1 else 0) + nH st i' s'.
  Proof. intros; unfold nH. rewrite Sh. simpl. unfold hmatch at 1. simpl. destruct ((i =? i') && sid_eqb a s'); reflexivity. Qed.

  Lemma nE_new : forall i' s', nE st' i' s' = nE st i' s'.
  Proof. intros; unfold nE. rewrite Se. reflexivity. Qed.

  Lemma no_refs_to_a : nH st i a = 0 /\ nE st i a = 0.
  Proof.
    split.
    - apply filter_all_false. intros [h0 v] Ix. unfold hmatch; simpl. destruct v as [|j s0]; auto.
      destruct ((j =? i) && sid_eqb s0 a) eqn:E; auto. apply key_eqb_spec in E. inversion E; subst.
      pose proof (i_handles _ _ _ I _ _ _ Ix) as V. apply is_live_true in V. destruct V as (y & Ly). rewrite a_dead in Ly. discriminate.
    - apply filter_all_false. intros e Ie. unfold ematch.
      destruct ((e_i e =? i) && sid_eqb (e_s e) a) eqn:E; auto. apply key_eqb_spec in E. inversion E as [[E1 E2]].
      pose proof (i_entries _ _ _ I _ Ie) as V. rewrite E1, E2 in V. apply is_live_true in V. destruct V as (y & Ly). rewrite a_dead in Ly. discriminate.
  Qed.

  Lemma a_not_created : forall q', ~ In (i, a, q') (st_created st).
  Proof.
    intros q' Ic. destruct (i_gen _ _ _ I _ _ _ Ic) as (U & G).
    destruct Hgen as [X|X]; [congruence | lia].
  Qed.

  Lemma old_seq_lt : forall i' s' q', In (i', s', q') (st_created st) -> q' < q.
  Proof. intros. eapply i_seqs; eauto. Qed.

  Lemma new_inv : Inv None st' (tr ++ news).
  Proof.
    apply Inv_inert; auto.
    destruct no_refs_to_a as (ZH & ZE).
    constructor.
    - intros; rewrite Sl; apply (i_layers _ _ _ I).
    - (* refs *)
      intros i' s' x Lx. rewrite nH_new, nE_new, pendn_none.
      destruct (live_after_new _ _ _ Lx) as [(E & ->)|(Ne & y & Ly & _ & _ & [(P & -> & Rx & Kx)|(P & Rx & Kx)])].
      + inversion E; subst i' s'. rewrite Nat.eqb_refl, sid_eqb_refl, ZH, ZE. simpl. reflexivity.
      + rewrite Rx, Kx, (i_refs _ _ _ I _ _ _ Ly), pendn_none.
        rewrite key_eqb_false by (intros X; inversion X; subst; apply Ne; reflexivity). simpl. lia.
      + rewrite Rx, Kx, (i_refs _ _ _ I _ _ _ Ly), pendn_none.
        rewrite key_eqb_false by (intros X; inversion X; subst; apply Ne; reflexivity). simpl. reflexivity.
    - (* pos *)
      intros i' s' x Lx.
      destruct (live_after_new _ _ _ Lx) as [(E & ->)|(Ne & y & Ly & _ & _ & [(P & _ & Rx & Kx)|(P & Rx & Kx)])].
      + simpl. lia.
      + rewrite Rx. pose proof (i_pos _ _ _ I _ _ _ Ly). lia.
      + rewrite Rx. eapply i_pos; eauto.
    - (* created *)
      intros i' s' x Lx. rewrite Scr.
      destruct (live_after_new _ _ _ Lx) as [(E & ->)|(Ne & y & Ly & (_ & _ & _ & Sq & _) & _)].
      + inversion E; subst. left. reflexivity.
      + right. rewrite <- Sq. eapply i_created; eauto.
    - (* seqs *)
      intros i' s' q'. rewrite Scr, Sn. intros [X|X]; [inversion X; lia | pose proof (old_seq_lt _ _ _ X); lia].
    - (* nodup *)
      rewrite Scr. simpl. constructor; [|apply (i_nodup _ _ _ I)].
      intros X. apply in_map_iff in X. destruct X as ([[i0 s0] q0] & E & Ic). simpl in E; subst q0.
      pose proof (old_seq_lt _ _ _ Ic). lia.
    - (* keys *)
      intros i' s' q1 q2. rewrite Scr. intros [X|X] [Y|Y].
      + congruence.
      + inversion X; subst i' s' q1. exfalso. eapply a_not_created; eauto.
      + inversion Y; subst i' s' q2. exfalso. eapply a_not_created; eauto.
      + eapply i_keys; eauto.
    - (* gen *)
      intros i' s' q'. rewrite Scr, Sslots. intros [X|X].
      + inversion X; subst i' s' q'. rewrite Nat.eqb_refl, N.eqb_refl. simpl. split; auto. lia.
      + destruct (i_gen _ _ _ I _ _ _ X) as (U & G).
        destruct ((i' =? i) && N.eqb (fst s') (fst a)) eqn:E1.
        * apply andb_true_iff in E1. destruct E1 as (E1 & E2). apply Nat.eqb_eq in E1; apply N.eqb_eq in E2. subst i'.
          simpl. split; auto. rewrite E2 in U, G. destruct Hgen as [Y|Y]; [congruence | lia].
        * cp p P; auto.
          destruct ((i' =? i) && N.eqb (fst s') (fst p)) eqn:E2; auto.
          apply andb_true_iff in E2. destruct E2 as (E2 & E3). apply Nat.eqb_eq in E2; apply N.eqb_eq in E3. subst i'.
          unfold bump; simpl. rewrite <- E3. auto.
    - (* parent *)
      intros i' s' x p' Lx Px.
      destruct (live_after_new _ _ _ Lx) as [(E & ->)|(Ne & y & Ly & (_ & _ & _ & Sq & Pa) & _)].
      + inversion E; subst i' s'. simpl in Px.
        destruct (par_live p' Px) as (pl & Lp & Epl & Np).
        exists (bump a pl). split.
        * rewrite LKn, Px, key_eqb_false, key_eqb_refl, Epl; auto. intros X; inversion X; subst. apply Np; reflexivity.
        * simpl. split; auto. pose proof (old_seq_lt _ _ _ (i_created _ _ _ I _ _ _ Lp)). exact H.
      + rewrite <- Pa in Px. destruct (i_parent _ _ _ I _ _ _ _ Ly Px) as (pl & Lp & Ink & Lt).
        destruct (live_before_new _ _ _ Lp) as (Np & pl' & Lp' & (_ & _ & _ & Sq' & _)).
        exists pl'. split; auto. rewrite <- Sq', <- Sq. split; auto.
        destruct (live_after_new _ _ _ Lp') as [(X & _)|(_ & y' & Ly' & _ & _ & [(_ & _ & _ & Kx)|(_ & _ & Kx)])]; [contradiction| |];
          rewrite Lp in Ly'; inversion Ly'; subst y'; rewrite Kx; simpl; auto.
    - (* kids *)
      intros i' p' x Lx.
      destruct (live_after_new _ _ _ Lx) as [(E & ->)|(Ne & y & Ly & _ & _ & [(P & -> & _ & Kx)|(P & _ & Kx)])].
      + simpl. split; [constructor | intros c []].
      + destruct (i_kids _ _ _ I _ _ _ Ly) as (ND & KC). rewrite Kx. split.
        * constructor; auto. intros X. destruct (KC _ X) as (cl & Lc & _). rewrite a_dead in Lc. discriminate.
        * intros c [<-|Ic].
          -- exists nsl. split; [rewrite LKn, key_eqb_refl; reflexivity | simpl; auto].
          -- destruct (KC _ Ic) as (cl & Lc & Pc). destruct (live_before_new _ _ _ Lc) as (_ & cl' & Lc' & (_ & _ & _ & _ & Pa)).
             exists cl'. split; auto. congruence.
      + destruct (i_kids _ _ _ I _ _ _ Ly) as (ND & KC). rewrite Kx. split; auto.
        intros c Ic. destruct (KC _ Ic) as (cl & Lc & Pc). destruct (live_before_new _ _ _ Lc) as (_ & cl' & Lc' & (_ & _ & _ & _ & Pa)).
        exists cl'. split; auto. congruence.
    - (* hnodup *)
      rewrite Sh. simpl. constructor; [apply hget_none; auto | apply (i_hnodup _ _ _ I)].
    - (* handles live *)
      intros h0 i0 s0. rewrite Sh. intros [X|X]; rewrite is_live_new.
      + inversion X; subst. rewrite key_eqb_refl. reflexivity.
      + destruct ((i0 =? i) && sid_eqb s0 a); auto. eapply i_handles; eauto.
    - (* entries live *)
      intros e. rewrite Se. intros Ie. rewrite is_live_new.
      destruct ((e_i e =? i) && sid_eqb (e_s e) a); auto. eapply i_entries; eauto.
    - rewrite Se. apply (i_dups _ _ _ I).
    - rewrite Sg, Se. apply (i_ene _ _ _ I).
    - (* vacant *)
      intros i' x'. rewrite Sslots.
      destruct ((i' =? i) && N.eqb x' (fst a)) eqn:E1; [simpl; discriminate|].
      cp p P; [|apply (i_vacant _ _ _ I)].
      destruct ((i' =? i) && N.eqb x' (fst p)) eqn:E2; [|apply (i_vacant _ _ _ I)].
      unfold bump; simpl. intros O. destruct (par_live p P) as (pl & Lp & Epl & _).
      pose proof (lookup_some _ _ _ _ Lp) as (_ & O' & _). rewrite <- Epl in O. congruence.
    - intros t. rewrite Sc. apply (i_close0 _ _ _ I).
    - rewrite Sp. apply (i_nopanic _ _ _ I).
    - (* ext *)
      intros i' s' x Lx l. rewrite Sl. intros Hl.
      destruct (live_after_new _ _ _ Lx) as [(E & ->)|(Ne & y & Ly & (_ & _ & _ & Sq & _) & Ex & _)].
      + inversion E; subst i' s'. simpl. apply Hext; auto.
      + rewrite Ex, <- Sq. eapply i_ext; eauto.
    - (* cpar *)
      intros i' s' x Lx. rewrite Scp.
      destruct (live_after_new _ _ _ Lx) as [(E & ->)|(Ne & y & Ly & (_ & _ & _ & Sq & Pa) & _)].
      + inversion E; subst i' s'. simpl s_seq. simpl s_parent. rewrite cpar_get_cons_same. f_equal.
        cp p P; auto. symmetry. apply seq_at_new. apply Hpar; auto.
      + rewrite <- Sq, <- Pa.
        rewrite cpar_get_cons_other by (pose proof (old_seq_lt _ _ _ (i_created _ _ _ I _ _ _ Ly)); fold q; lia).
        rewrite (i_cpar _ _ _ I _ _ _ Ly). f_equal.
        destruct (s_parent y) as [p'|] eqn:Py; auto. symmetry. apply seq_at_new.
        destruct (i_parent _ _ _ I _ _ _ _ Ly Py) as (pl & Lp & _). apply is_live_true; eauto.
    - (* cpar_inst *)
      intros ic sc c qq. rewrite Scr, Scp. intros [X|X] Pc.
      + inversion X; subst ic sc c. rewrite cpar_get_cons_same in Pc. inversion Pc as [Pc'].
        cph Pc' p P; [|discriminate].
        destruct (par_live p P) as (pl & Lp & _). unfold seq_at in Pc'. rewrite Lp in Pc'. inversion Pc'; subst qq.
        pose proof (i_created _ _ _ I _ _ _ Lp) as Ip. split; [eapply old_seq_lt; eauto|]. exists p. right. auto.
      + rewrite cpar_get_cons_other in Pc by (pose proof (old_seq_lt _ _ _ X); fold q; lia).
        destruct (i_cpar_inst _ _ _ I _ _ _ _ X Pc) as (Lt & sq & Iq). split; auto. exists sq. right; auto.
    - (* cpar_dom *)
      intros c v. rewrite Scp, Sn. simpl. destruct (q =? c) eqn:E.
      + apply Nat.eqb_eq in E. intros _. lia.
      + intros Pc. pose proof (i_cpar_dom _ _ _ I _ _ Pc). fold q in H. lia.
    - (* t_closed *)
      intros i' s' q' l. rewrite Scr, Sl, is_live_new. intros [X|X].
      + inversion X; subst i' s' q'. rewrite key_eqb_refl. simpl. rewrite andb_false_r.
        apply (t_closed_none _ _ _ I). fold q. lia.
      + rewrite key_eqb_false by (intros Y; inversion Y; subst i' s'; eapply a_not_created; eauto).
        apply (t_closed _ _ _ I); auto.
    - (* closed_none *)
      intros q' l. rewrite Sn. intros Hq. apply (t_closed_none _ _ _ I). fold q. lia.
    - apply (t_fine _ _ _ I).
    - (* children first *)
      intros tr1 i0 l0 q0 e0 tr2 ic sc c Etr. rewrite Scr, Scp, Sl. intros [X|X] Pc l' Hl.
      + exfalso. inversion X; subst ic sc c. rewrite cpar_get_cons_same in Pc. inversion Pc as [Pc'].
        cph Pc' p P; [|discriminate].
        destruct (par_live p P) as (pl & Lp & _). unfold seq_at in Pc'. rewrite Lp in Pc'. inversion Pc' as [Sq].
        pose proof (i_created _ _ _ I _ _ _ Lp) as Ip. rewrite Sq in Ip.
        pose proof (t_closed _ _ _ I _ _ _ l0 Ip) as TC.
        replace (is_live st i p) with true in TC by (symmetry; apply is_live_true; eauto).
        rewrite andb_false_r in TC. rewrite Etr, closed_n_app in TC. unfold closed_n at 2 in TC. simpl in TC.
        rewrite !Nat.eqb_refl in TC. simpl in TC. lia.
      + rewrite cpar_get_cons_other in Pc by (pose proof (old_seq_lt _ _ _ X); fold q; lia).
        eapply (t_children _ _ _ I); eauto.
  Qed.
End NewInv.

(* ---------------------------------------------------------------- on_new_span of the layers *)
Definition others_eq (st st' : state) : Prop :=
  st_layers st' = st_layers st /\ st_global st' = st_global st /\ st_scoped st' = st_scoped st /\ st_def st' = st_def st /\
  st_entries st' = st_entries st /\ st_close st' = st_close st /\ st_handles st' = st_handles st /\ st_count st' = st_count st /\
  st_created st' = st_created st /\ st_ene st' = st_ene st /\ st_cpar st' = st_cpar st /\ st_panicked st' = st_panicked st.

Lemma others_eq_refl : forall st, others_eq st st.
Proof. intros; unfold others_eq; repeat split. Qed.

Lemma others_eq_upd : forall st i x v, others_eq st (upd_slot st i x v).
Proof. intros; unfold others_eq; repeat split. Qed.

Lemma others_eq_trans : forall a b c, others_eq a b -> others_eq b c -> others_eq a c.
Proof. unfold others_eq; intros a b c H1 H2. repeat match goal with H : _ /\ _ |- _ => destruct H end. repeat split; congruence. Qed.

Lemma ext_get_cons : forall l l' v e, ext_get l' ((l, v) :: e) = if l =? l' then Some v else ext_get l' e.
Proof. intros; unfold ext_get; simpl. destruct (l =? l'); reflexivity. Qed.

Lemma ext_get_filter : forall l l' e, l' <> l -> ext_get l' (filter (fun p => negb (fst p =? l)) e) = ext_get l' e.
Proof.
  intros l l' e Ne. unfold ext_get. induction e as [|[k v] r IH]; simpl; auto.
  destruct (k =? l) eqn:E1; simpl.
  - apply Nat.eqb_eq in E1; subst k. replace (l =? l') with false by (symmetry; apply Nat.eqb_neq; auto). exact IH.
  - destruct (k =? l') eqn:E2; auto.
Qed.

Lemma new_layers_spec : forall ls st i q s sl,
  lookup st i s = Some sl -> NoDup ls -> (forall l, In l ls -> ext_get l (s_ext sl) = None) ->
  exists e,
    (forall i' x', st_slots (fst (new_layers ls st i q s)) i' x' =
                   if (i' =? i) && N.eqb x' (fst s) then set_ext sl e else st_slots st i' x') /\
    others_eq st (fst (new_layers ls st i q s)) /\
    (forall l, In l ls -> ext_get l e = Some q) /\
    (forall l, ~ In l ls -> ext_get l e = ext_get l (s_ext sl)) /\
    (forall o, In o (snd (new_layers ls st i q s)) -> exists l par, o = ONew i l q None par).
Proof.
  induction ls as [|l r IH]; intros st i q s sl L ND Hn.
  - exists (s_ext sl). simpl. split; [|split; [|split; [|split]]]; auto using others_eq_refl.
    + intros i' x'. destruct ((i' =? i) && N.eqb x' (fst s)) eqn:E; auto.
      apply andb_true_iff in E. destruct E as (Ea & Eb). apply Nat.eqb_eq in Ea; apply N.eqb_eq in Eb; subst.
      pose proof (lookup_some _ _ _ _ L) as (E & _). rewrite <- E. destruct sl; reflexivity.
    + intros l [].
    + intros o [].
  - inversion ND as [|? ? Nin ND']; subst.
    simpl. rewrite L.
    set (e1 := (l, q) :: filter (fun p => negb (fst p =? l)) (s_ext sl)).
    set (st1 := upd_slot st i (fst s) (set_ext sl e1)).
    assert (L1 : lookup st1 i s = Some (set_ext sl e1)).
    { unfold st1. rewrite (lookup_upd_shape _ i s sl); [rewrite key_eqb_refl; reflexivity | exact L | apply same_shape_ext]. }
    destruct (IH st1 i q s (set_ext sl e1) L1 ND') as (e & S1 & O1 & G1 & G2 & N1).
    { intros l' Il'. simpl. unfold e1. rewrite ext_get_cons.
      replace (l =? l') with false by (symmetry; apply Nat.eqb_neq; intros ->; contradiction).
      rewrite ext_get_filter by (intros ->; contradiction). apply Hn. right; auto. }
    destruct (new_layers r st1 i q s) as [st2 o2] eqn:NL. simpl in *.
    exists e. split; [|split; [|split; [|split]]].
    + intros i' x'. rewrite S1. unfold st1. simpl.
      destruct ((i' =? i) && N.eqb x' (fst s)); reflexivity.
    + eapply others_eq_trans; [apply others_eq_upd | exact O1].
    + intros l' [<-|Il']; auto.
      rewrite G2 by auto. simpl. unfold e1. rewrite ext_get_cons, Nat.eqb_refl. reflexivity.
    + intros l' Nl'. rewrite G2 by tauto. simpl. unfold e1. rewrite ext_get_cons.
      replace (l =? l') with false by (symmetry; apply Nat.eqb_neq; intros ->; tauto).
      apply ext_get_filter. intros ->; tauto.
    + intros o [<-|Io]; auto.
      unfold on_new_obs. rewrite L, (Hn l (or_introl eq_refl)). eauto.
Qed.

(* ---------------------------------------------------------------- parent resolution *)
Definition resolve (st : state) (i : inst) (t : tid) (k : pkind) : (state * option sid * list obs) + nat :=
  match k with
  | PRoot => inl (st, None, [])
  | PCtx => match current_span st i t with
            | None => inl (st, None, [])
            | Some c => match clone_span st i c with inl st' => inl (st', Some c, []) | inr e => inr e end
            end
  | PExplicit hp =>
    match hget hp (st_handles st) with
    | None => inl (st, None, [OIll 2])
    | Some HNone => inl (st, None, [])
    | Some (HSpan j p) =>
      match clone_span st i p with
      | inl st' => inl (st', Some p, if j =? i then [] else [OForeignParent])
      | inr e => inr e
      end
    end
  end.

Definition foreign_note (st : state) (i : inst) (k : pkind) : list obs :=
  match k with PExplicit hp => match hget hp (st_handles st) with
                               | Some (HSpan j _) => if j =? i then [] else [OForeignParent]
                               | _ => [] end | _ => [] end.

Definition create (st1 : state) (i : inst) (h : hid) (a : sid) (parent : option sid) (o1 : list obs) : state * list obs :=
  let sl := st_slots st1 i (fst a) in
  if negb (alloc_legal sl a) then (set_panicked st1, o1 ++ [OBadAlloc])
  else
    let q := st_count st1 in
    let st2' := upd_slot st1 i (fst a) (mkSlot true true (snd a) q parent 1%N (s_ext sl) []) in
    let st2 := match parent with
               | Some p => match lookup st2' i p with
                           | Some pl => upd_slot st2' i (fst p) (set_kids pl (a :: s_kids pl))
                           | None => st2' end
               | None => st2' end in
    let pq := match parent with Some p => seq_at st2 i p | None => None end in
    let st3 := set_created (S q) ((i, a, q) :: st_created st2) ((q, pq) :: st_cpar st2) st2 in
    let st4 := set_handles ((h, HSpan i a) :: st_handles st3) st3 in
    let '(st5, o5) := new_layers (seq 0 (st_layers st4 i)) st4 i q a in
    (st5, o1 ++ o5).

Lemma do_new_unfold : forall st t h k a,
  do_new st t h k a =
  match hget h (st_handles st) with
  | Some _ => (st, [OIll 1])
  | None =>
    match eff st t false with
    | None => (set_handles ((h, HNone) :: st_handles st) st, [])
    | Some i =>
      match resolve st i t k with
      | inr e => let '(st', o) := panic st e in (st', foreign_note st i k ++ o)
      | inl (st1, parent, o1) => create st1 i h a parent o1
      end
    end
  end.
Proof. reflexivity. Qed.

Lemma resolve_cases : forall st tr i t k, Inv None st tr ->
  (exists o1, resolve st i t k = inl (st, None, o1) /\ (o1 = [] \/ o1 = [OIll 2])) \/
  (exists p pl o1, resolve st i t k = inl (upd_slot st i (fst p) (set_refs pl (s_refs pl + 1)%N), Some p, o1) /\
                   lookup st i p = Some pl /\ (o1 = [] \/ o1 = [OForeignParent])) \/
  (exists e, resolve st i t k = inr e /\ foreign_note st i k = [OForeignParent]).
Proof.
  intros st tr i t k I. destruct k as [| |hp]; simpl.
  - left. eexists; split; eauto.
  - destruct (current_span st i t) as [c|] eqn:Cs.
    + destruct (clone_span_ok _ _ _ _ _ I (current_span_live _ _ _ _ Cs)) as (sl & L & ->).
      right; left. exists c, sl, []. auto.
    + left. eexists; split; eauto.
  - destruct (hget hp (st_handles st)) as [[|j p]|] eqn:Hp.
    + left. eexists; split; eauto.
    + destruct (j =? i) eqn:Ej.
      * apply Nat.eqb_eq in Ej; subst j.
        pose proof (i_handles _ _ _ I _ _ _ (hget_in _ _ _ Hp)) as V.
        destruct (clone_span_ok _ _ _ _ _ I V) as (sl & L & ->).
        right; left. exists p, sl, []. auto.
      * unfold clone_span. destruct (lookup st i p) as [sl|] eqn:L.
        -- destruct (N.eqb (s_refs sl) 0).
           ++ right; right. eexists; split; eauto.
           ++ right; left. exists p, sl, [OForeignParent]. auto.
        -- right; right. eexists; split; eauto.
    + left. eexists; split; eauto.
Qed.

Lemma bump_eq : forall a pl, set_kids (set_refs pl (s_refs pl + 1)%N) (a :: s_kids pl) = bump a pl.
Proof. reflexivity. Qed.

Definition created_state (st st' : state) (i : inst) (a : sid) (h : hid) (parent : option sid) (e : list (nat * nat)) : Prop :=
  (forall i' x', st_slots st' i' x' =
     if (i' =? i) && N.eqb x' (fst a) then mkSlot true true (snd a) (st_count st) parent 1%N e []
     else match parent with
          | Some p => if (i' =? i) && N.eqb x' (fst p) then bump a (st_slots st i (fst p)) else st_slots st i' x'
          | None => st_slots st i' x' end) /\
  st_layers st' = st_layers st /\ st_entries st' = st_entries st /\ st_ene st' = st_ene st /\
  st_close st' = st_close st /\ st_handles st' = (h, HSpan i a) :: st_handles st /\ st_count st' = S (st_count st) /\
  st_created st' = (i, a, st_count st) :: st_created st /\
  st_cpar st' = (st_count st, match parent with Some p => seq_at st i p | None => None end) :: st_cpar st /\
  st_panicked st' = st_panicked st /\ st_global st' = st_global st /\ st_scoped st' = st_scoped st /\ st_def st' = st_def st.

Lemma create_spec : forall st tr st1 i h a parent st' ob,
  Inv None st tr ->
  ((parent = None /\ st1 = st) \/
   (exists p pl, parent = Some p /\ lookup st i p = Some pl /\ st1 = upd_slot st i (fst p) (set_refs pl (s_refs pl + 1)%N))) ->
  create st1 i h a parent [] = (st', ob) -> forallb wf_obs ob = true ->
  s_occ (st_slots st i (fst a)) = false /\
  (s_used (st_slots st i (fst a)) = false \/ (s_gen (st_slots st i (fst a)) < snd a)%N) /\
  exists e, created_state st st' i a h parent e /\
            (forall l, l < st_layers st i -> ext_get l e = Some (st_count st)) /\
            (forall o, In o ob -> exists l par, o = ONew i l (st_count st) None par).
Proof.
  intros st tr st1 i h a parent st' ob I HP H W. unfold create in H.
  set (sl := st_slots st1 i (fst a)) in *.
  destruct (alloc_legal sl a) eqn:AL; simpl in H; [|inversion H; subst; simpl in W; discriminate].
  unfold alloc_legal in AL. apply andb_true_iff in AL. destruct AL as (AO & AG). apply negb_true_iff in AO.
  (* the slot of [a] in st: the same as in st1 up to the reference count *)
  assert (SL : exists r, sl = set_refs (st_slots st i (fst a)) r).
  { unfold sl. destruct HP as [(_ & ->)|(p & pl & _ & Lp & ->)]; [apply slots_same_refs_only|].
    rewrite slots_upd. eapply slots_refs_upd; eauto. }
  destruct SL as (r0 & SL).
  assert (Hvac : s_occ (st_slots st i (fst a)) = false) by (rewrite SL in AO; exact AO).
  assert (Hgen : s_used (st_slots st i (fst a)) = false \/ (s_gen (st_slots st i (fst a)) < snd a)%N).
  { rewrite SL in AG. simpl in AG. apply orb_true_iff in AG. destruct AG as [X|X]; [left; apply negb_true_iff; auto | right; apply N.ltb_lt; auto]. }
  assert (Hext0 : s_ext sl = []) by (rewrite SL; simpl; apply (i_vacant _ _ _ I _ _ Hvac)).
  rewrite Hext0 in H.
  set (q := st_count st1) in *.
  assert (Eq : q = st_count st) by (unfold q; destruct HP as [(_ & ->)|(p & pl & _ & _ & ->)]; reflexivity).
  clearbody q. subst q. set (q := st_count st) in *.
  set (nsl0 := mkSlot true true (snd a) q parent 1%N [] []) in *.
  set (st2' := upd_slot st1 i (fst a) nsl0) in *.
  (* the state before the layers run *)
  match type of H with (let '(_, _) := new_layers _ ?S _ _ _ in _) = _ => set (st4 := S) in * end.
  assert (L4 : lookup st4 i a = Some nsl0 /\
               (forall i' x', st_slots st4 i' x' =
                  if (i' =? i) && N.eqb x' (fst a) then nsl0
                  else match parent with
                       | Some p => if (i' =? i) && N.eqb x' (fst p) then bump a (st_slots st i (fst p)) else st_slots st i' x'
                       | None => st_slots st i' x' end) /\
               st_layers st4 = st_layers st /\ st_entries st4 = st_entries st /\ st_ene st4 = st_ene st /\
               st_close st4 = st_close st /\ st_handles st4 = (h, HSpan i a) :: st_handles st /\ st_count st4 = S q /\
               st_created st4 = (i, a, q) :: st_created st /\
               st_cpar st4 = (q, match parent with Some p => seq_at st i p | None => None end) :: st_cpar st /\
               st_panicked st4 = st_panicked st /\ st_global st4 = st_global st /\ st_scoped st4 = st_scoped st /\ st_def st4 = st_def st).
  { destruct HP as [(-> & E1)|(p & pl & -> & Lp & E1)].
    - subst st1. unfold st4. simpl. split; [|repeat split].
      unfold lookup. simpl. rewrite Nat.eqb_refl, N.eqb_refl. simpl. rewrite N.eqb_refl. reflexivity.
    - assert (Npa : fst p <> fst a).
      { intros X. pose proof (lookup_some _ _ _ _ Lp) as (Ep & Op & _). rewrite Ep, X in Op. congruence. }
      pose proof (lookup_some _ _ _ _ Lp) as (Epl & Op & Gp).
      assert (L2 : lookup st2' i p = Some (set_refs pl (s_refs pl + 1)%N)).
      { unfold st2'. rewrite lookup_upd_other by (intros X; inversion X; contradiction).
        rewrite E1. rewrite (lookup_upd_shape _ i p pl); [rewrite key_eqb_refl; reflexivity | exact Lp | apply same_shape_refs]. }
      unfold st4. rewrite L2. simpl st_slots. simpl st_layers. simpl st_entries. simpl st_ene. simpl st_close. simpl st_handles.
      simpl st_count. simpl st_created. simpl st_cpar. simpl st_panicked. simpl st_global. simpl st_scoped. simpl st_def.
      rewrite E1. simpl st_created. simpl st_cpar. simpl st_layers. simpl st_entries. simpl st_ene. simpl st_close. simpl st_handles. simpl st_panicked.
      simpl st_global. simpl st_scoped. simpl st_def.
      split; [|split; [|repeat split]].
      + unfold lookup. simpl. rewrite Nat.eqb_refl.
        replace (N.eqb (fst a) (fst p)) with false by (symmetry; apply N.eqb_neq; auto). simpl.
        rewrite N.eqb_refl. simpl. rewrite N.eqb_refl. reflexivity.
      + intros i' x'. simpl.
        destruct ((i' =? i) && N.eqb x' (fst p)) eqn:Ep.
        * apply andb_true_iff in Ep. destruct Ep as (Ea & Eb). apply N.eqb_eq in Eb. subst x'. rewrite Ea. simpl.
          replace (N.eqb (fst p) (fst a)) with false by (symmetry; apply N.eqb_neq; auto).
          rewrite <- Epl. reflexivity.
        * destruct ((i' =? i) && N.eqb x' (fst a)); reflexivity.
      + f_equal. f_equal. unfold seq_at.
        match goal with |- match lookup ?S i p with _ => _ end = _ => assert (LS : lookup S i p = Some (bump a pl)) end.
        { rewrite (lookup_upd_shape _ i p _ _ L2); [rewrite key_eqb_refl; reflexivity | unfold same_shape; simpl; auto]. }
        rewrite LS, Lp. reflexivity. }
  destruct L4 as (La & S4 & F1 & F2 & F3 & F4 & F5 & F6 & F7 & F8 & F9 & F10 & F11 & F12).
  destruct (new_layers_spec (seq 0 (st_layers st4 i)) st4 i q a nsl0 La (seq_NoDup _ _)) as (e & S5 & O5 & G1 & _ & N5).
  { intros; reflexivity. }
  match type of H with (let '(_, _) := new_layers (seq 0 ?N) _ _ _ _ in _) = _ => change N with (st_layers st4 i) in H end.
  destruct (new_layers (seq 0 (st_layers st4 i)) st4 i q a) as [st5 o5] eqn:NL. cbn [fst snd] in S5, O5, N5.
  inversion H; try subst st'; try subst ob; clear H. simpl.
  destruct O5 as (E1 & E2 & E3 & E4 & E5 & E6 & E7 & E8 & E9 & E10 & E11 & E12).
  split; [exact Hvac|]. split; [exact Hgen|]. exists e. split; [|split].
  - unfold created_state. unfold q in *. split; [|repeat split; congruence].
    intros i' x'. rewrite S5, S4. destruct ((i' =? i) && N.eqb x' (fst a)); reflexivity.
  - intros l Hl. apply G1. apply in_seq. rewrite F1. lia.
  - exact N5.
Qed.

Lemma inv_create : forall st tr st1 i h a parent st' ob,
  Inv None st tr -> hget h (st_handles st) = None ->
  ((parent = None /\ st1 = st) \/
   (exists p pl, parent = Some p /\ lookup st i p = Some pl /\ st1 = upd_slot st i (fst p) (set_refs pl (s_refs pl + 1)%N))) ->
  create st1 i h a parent [] = (st', ob) -> forallb wf_obs ob = true -> Inv None st' (tr ++ ob).
Proof.
  intros st tr st1 i h a parent st' ob I Hh HP H W.
  destruct (create_spec st tr st1 i h a parent st' ob I HP H W) as (Hvac & Hgen & e & CS & G1 & N5).
  destruct CS as (S5 & F1 & F2 & F3 & F4 & F5 & F6 & F7 & F8 & F9 & _).
  eapply (new_inv st st' tr i a h parent e ob I Hvac Hgen); eauto.
  - intros p P. destruct HP as [(X & _)|(p' & pl & X & Lp & _)]; [congruence|]. rewrite X in P; inversion P; subst. apply is_live_true; eauto.
  - intros o Io. destruct (N5 _ Io) as (l & par & ->). split; simpl; auto.
Qed.

Lemma inv_new : forall st tr t h k a st' ob, Inv None st tr -> do_new st t h k a = (st', ob) ->
  forallb wf_obs ob = true -> Inv None st' (tr ++ ob).
Proof.
  intros st tr t h k a st' ob I H W. rewrite do_new_unfold in H.
  destruct (hget h (st_handles st)) eqn:Hh; [inversion H; subst; simpl in W; discriminate|].
  destruct (eff st t false) as [i|] eqn:Ef.
  2:{ inversion H; subst. rewrite app_nil_r. apply inv_add_none_handle; auto. }
  destruct (resolve_cases st tr i t k I) as [(o1 & ER & Ho)|[(p & pl & o1 & ER & Lp & Ho)|(e & ER & Fn)]]; rewrite ER in H.
  - destruct Ho as [->| ->].
    + refine (inv_create st tr _ i h a _ st' ob I Hh _ H W). left; auto.
    + unfold create in H. destruct (negb (alloc_legal (st_slots st i (fst a)) a)).
      * inversion H; subst. simpl in W. discriminate.
      * match type of H with (let '(_, _) := ?X in _) = _ => destruct X end. inversion H; subst. simpl in W. discriminate.
  - destruct Ho as [->| ->].
    + refine (inv_create st tr _ i h a _ st' ob I Hh _ H W). right. exists p, pl. auto.
    + unfold create in H. match type of H with (if ?B then _ else _) = _ => destruct B end.
      * inversion H; subst. simpl in W. discriminate.
      * match type of H with (let '(_, _) := ?X in _) = _ => destruct X end. inversion H; subst. simpl in W. discriminate.
  - simpl in H. inversion H; subst. rewrite Fn in W. simpl in W. discriminate.
Qed.
