(** Registry/Single.v — a syntactic sufficient condition for OwnDefault: one collector installed as the global default and
    no scoped default anywhere.  Every release that sharded.rs routes through dispatch::get_default then reaches the span's
    own collector, whatever the history does. *)
From Coq Require Import List NArith Bool Arith Lia.
From TV Require Import Registry.Model Registry.Basics Registry.Inv Registry.Close Registry.Steps Registry.NewSpan Registry.Run.
Import ListNotations.
Local Open Scope nat_scope.

Definition no_setdef (o : op) : bool := match o with OSetDef _ _ | OUnsetDef _ => false | _ => true end.

Definition single (i0 : inst) (st : state) : Prop :=
  st_global st = Some i0 /\ st_scoped st = 0 /\
  (forall h i s, In (h, HSpan i s) (st_handles st) -> i = i0) /\
  (forall i s q, In (i, s, q) (st_created st) -> i = i0).

Definition dflt_eq (st st' : state) : Prop := st_global st' = st_global st /\ st_scoped st' = st_scoped st.
Lemma dflt_refl : forall st, dflt_eq st st.
Proof. split; reflexivity. Qed.
Lemma dflt_trans : forall a b c, dflt_eq a b -> dflt_eq b c -> dflt_eq a c.
Proof. unfold dflt_eq; intros a b c [] []; split; congruence. Qed.
Lemma frame_dflt : forall a b, frame_eq a b -> dflt_eq a b.
Proof. unfold frame_eq, dflt_eq; tauto. Qed.

Lemma eff_single : forall st t n i0, st_global st = Some i0 -> st_scoped st = 0 -> eff st t n = Some i0.
Proof. intros st t n i0 G S. unfold eff. rewrite S. simpl. exact G. Qed.

Lemma route_ok_app : forall a b, forallb route_ok (a ++ b) = forallb route_ok a && forallb route_ok b.
Proof. intros; apply forallb_app. Qed.

(* ---------------------------------------------------------------- closing routes every parent release to i0 *)
Lemma clear_slot_routes : forall casc st t nested i0 s,
  st_global st = Some i0 -> st_scoped st = 0 ->
  (forall st0 p, st_global st0 = Some i0 -> st_scoped st0 = 0 -> forallb route_ok (snd (casc st0 i0 p)) = true) ->
  forallb route_ok (snd (clear_slot casc st t nested i0 s)) = true.
Proof.
  intros casc st t nested i0 s G S HC. unfold clear_slot.
  destruct (lookup st i0 s) as [sl|]; [|reflexivity].
  destruct (s_parent sl) as [p|]; [|destruct (guarded st i0 s); reflexivity].
  match goal with |- context [if ?B then _ else _] => destruct B end; [reflexivity|].
  destruct (frame_dflt _ _ (frame_eq_vacate st i0 s sl)) as (G' & S').
  set (std := drop_note (vacate st i0 s sl) i0 s).
  assert (Gd : st_global std = Some i0) by (unfold std; simpl; congruence).
  assert (Sd : st_scoped std = 0) by (unfold std; simpl; congruence).
  rewrite (eff_single std t nested i0) by auto.
  specialize (HC std p Gd Sd).
  destruct (casc std i0 p) as [st'' o]. simpl in *. rewrite Nat.eqb_refl. exact HC.
Qed.

(** handles (the phantom references parked by closes under a slab guard included) stay within the one collector *)
Definition hs_inst (i0 : inst) (st : state) : Prop := forall h i s, In (h, HSpan i s) (st_handles st) -> i = i0.

Lemma vacate_handles : forall st i s sl, st_handles (vacate st i s sl) = st_handles st.
Proof.
  intros. unfold vacate. destruct (s_parent sl); [|reflexivity].
  match goal with |- context [match ?x with Some _ => _ | None => _ end] => destruct x end; reflexivity.
Qed.

Lemma clear_slot_hs : forall casc st t nested i0 s,
  st_global st = Some i0 -> st_scoped st = 0 -> hs_inst i0 st ->
  (forall st0 p, st_global st0 = Some i0 -> st_scoped st0 = 0 -> hs_inst i0 st0 -> hs_inst i0 (fst (casc st0 i0 p))) ->
  hs_inst i0 (fst (clear_slot casc st t nested i0 s)).
Proof.
  intros casc st t nested i0 s G S H HC. unfold clear_slot.
  destruct (lookup st i0 s) as [sl|]; [|exact H].
  assert (HV : hs_inst i0 (vacate st i0 s sl)) by (unfold hs_inst; rewrite vacate_handles; exact H).
  destruct (s_parent sl) as [p|]; [|destruct (guarded st i0 s); exact HV].
  match goal with |- context [if ?B then _ else _] => destruct B end.
  - simpl. intros h i s0 [X|X]; [inversion X; auto | eapply HV; eauto].
  - destruct (frame_dflt _ _ (frame_eq_vacate st i0 s sl)) as (G' & S').
    set (std := drop_note (vacate st i0 s sl) i0 s).
    assert (Gd : st_global std = Some i0) by (unfold std; simpl; congruence).
    assert (Sd : st_scoped std = 0) by (unfold std; simpl; congruence).
    rewrite (eff_single std t nested i0) by auto.
    specialize (HC std p Gd Sd HV).
    destruct (casc std i0 p) as [st'' o]. simpl in *. exact HC.
Qed.

Lemma frames_hs : forall casc ls st t nested i0 s,
  st_global st = Some i0 -> st_scoped st = 0 -> hs_inst i0 st ->
  (forall st0 j p, frame_eq st0 (fst (casc st0 j p))) ->
  (forall st0 p, st_global st0 = Some i0 -> st_scoped st0 = 0 -> hs_inst i0 st0 -> hs_inst i0 (fst (casc st0 i0 p))) ->
  hs_inst i0 (fst (frames casc ls st t nested i0 s)).
Proof.
  induction ls as [|l r IH]; intros st t nested i0 s G S H HF HC; simpl; [exact H|].
  set (st2 := put_close st t (cget t (st_close st) - 1)).
  assert (X : hs_inst i0 (fst (if cget t (st_close st) =? 1 then clear_slot casc st2 t nested i0 s else (st2, []))) /\
              dflt_eq st (fst (if cget t (st_close st) =? 1 then clear_slot casc st2 t nested i0 s else (st2, [])))).
  { destruct (cget t (st_close st) =? 1).
    - split; [apply clear_slot_hs; auto|].
      eapply dflt_trans; [|apply frame_dflt, frame_eq_clear_slot; auto]. split; reflexivity.
    - split; [exact H | split; reflexivity]. }
  destruct (if cget t (st_close st) =? 1 then clear_slot casc st2 t nested i0 s else (st2, [])) as [st3 o3]. simpl in X.
  destruct X as (H3 & G3 & S3).
  specialize (IH st3 t nested i0 s ltac:(congruence) ltac:(congruence) H3 HF HC).
  destruct (frames casc r st3 t nested i0 s) as [st4 o4]. simpl in *. exact IH.
Qed.

Lemma close_stack_hs : forall fuel st t nested i0 s, st_global st = Some i0 -> st_scoped st = 0 -> hs_inst i0 st ->
  hs_inst i0 (fst (close_stack fuel st t nested i0 s)).
Proof.
  induction fuel as [|f IH]; intros st t nested i0 s G S H; simpl; [exact H|].
  unfold reg_try_close. change (lookup (add_close st t (st_layers st i0)) i0 s) with (lookup st i0 s).
  destruct (lookup st i0 s) as [sl|]; simpl; [|exact H].
  destruct (negb (N.ltb 1 (s_refs sl))); [|exact H].
  apply frames_hs.
  - simpl. exact G.
  - simpl. exact S.
  - exact H.
  - intros; apply frame_eq_close_stack.
  - intros st0 p G0 S0 H0. apply IH; auto.
Qed.

Lemma frames_routes : forall casc ls st t nested i0 s,
  st_global st = Some i0 -> st_scoped st = 0 ->
  (forall st0 j p, frame_eq st0 (fst (casc st0 j p))) ->
  (forall st0 p, st_global st0 = Some i0 -> st_scoped st0 = 0 -> forallb route_ok (snd (casc st0 i0 p)) = true) ->
  forallb route_ok (snd (frames casc ls st t nested i0 s)) = true.
Proof.
  induction ls as [|l r IH]; intros st t nested i0 s G S HF HC; simpl; [reflexivity|].
  set (st2 := put_close st t (cget t (st_close st) - 1)).
  assert (X : forallb route_ok (snd (if cget t (st_close st) =? 1 then clear_slot casc st2 t nested i0 s else (st2, []))) = true /\
              dflt_eq st (fst (if cget t (st_close st) =? 1 then clear_slot casc st2 t nested i0 s else (st2, [])))).
  { destruct (cget t (st_close st) =? 1).
    - split; [apply clear_slot_routes; auto|].
      eapply dflt_trans; [|apply frame_dflt, frame_eq_clear_slot; auto]. split; reflexivity.
    - split; [reflexivity | split; reflexivity]. }
  destruct (if cget t (st_close st) =? 1 then clear_slot casc st2 t nested i0 s else (st2, [])) as [st3 o3]. simpl in X.
  destruct X as (R3 & G3 & S3).
  specialize (IH st3 t nested i0 s ltac:(congruence) ltac:(congruence) HF HC).
  destruct (frames casc r st3 t nested i0 s) as [st4 o4]. simpl in *.
  rewrite route_ok_app, R3, IH. unfold on_close_obs. destruct (lookup st i0 s); reflexivity.
Qed.

Lemma close_stack_routes : forall fuel st t nested i0 s, st_global st = Some i0 -> st_scoped st = 0 ->
  forallb route_ok (snd (close_stack fuel st t nested i0 s)) = true.
Proof.
  induction fuel as [|f IH]; intros st t nested i0 s G S; simpl; [reflexivity|].
  unfold reg_try_close. change (lookup (add_close st t (st_layers st i0)) i0 s) with (lookup st i0 s).
  destruct (lookup st i0 s) as [sl|]; simpl; [|reflexivity].
  destruct (negb (N.ltb 1 (s_refs sl))); [|reflexivity].
  apply frames_routes.
  - simpl. exact G.
  - simpl. exact S.
  - intros; apply frame_eq_close_stack.
  - intros st0 p G0 S0. apply IH; auto.
Qed.

(* ---------------------------------------------------------------- one step *)
Lemma single_clone : forall i0 st i s st', single i0 st -> clone_span st i s = inl st' -> single i0 st'.
Proof. intros i0 st i s st' H E. destruct (clone_span_upd _ _ _ _ E) as (v & ->). exact H. Qed.

Lemma exit_at_single : forall i0 st t s, single i0 st ->
  single i0 (fst (exit_at st t i0 s)) /\ forallb route_ok (snd (exit_at st t i0 s)) = true.
Proof.
  intros i0 st t s (G & S & Hh & Hc). unfold exit_at.
  destruct (pop i0 t s (st_entries st)) as [[es last]|]; [|split; [repeat split; auto | reflexivity]].
  destruct last; [|split; [repeat split; auto | reflexivity]].
  set (st1 := set_entries es (gpop i0 t s (st_ene st)) st).
  rewrite (eff_single st1 t false i0) by auto.
  pose proof (frame_eq_close_stack (fuel_of st1) st1 t true i0 s) as F.
  pose proof (close_stack_routes (fuel_of st1) st1 t true i0 s G S) as R.
  pose proof (close_stack_hs (fuel_of st1) st1 t true i0 s G S Hh) as HS.
  destruct (close_stack (fuel_of st1) st1 t true i0 s) as [st2 o2]. simpl in *.
  rewrite Nat.eqb_refl, R. split; [|reflexivity].
  destruct F as (_ & F2 & F3 & _ & _ & _ & F8 & _). split; [|split; [|split]].
  - rewrite F2. exact G.
  - rewrite F3. exact S.
  - exact HS.
  - intros i s0 q. rewrite F8. apply Hc.
Qed.

Lemma only_routes_matter : forall ob, (forall o, In o ob -> match o with ORoute _ _ => False | _ => True end) -> forallb route_ok ob = true.
Proof.
  induction ob as [|o r IH]; intros H; [reflexivity|]. simpl. rewrite IH by (intros; apply H; right; auto).
  specialize (H o (or_introl eq_refl)). destruct o; simpl; auto; contradiction.
Qed.

Lemma new_layers_obs : forall ls st i q s o, In o (snd (new_layers ls st i q s)) -> match o with ORoute _ _ => False | _ => True end.
Proof.
  induction ls as [|l r IH]; intros st i q s o; simpl; [tauto|].
  match goal with |- context [new_layers r ?S i q s] => specialize (IH S i q s); destruct (new_layers r S i q s) as [st2 o2] end.
  simpl in *. intros [<-|I]; [|apply IH; exact I]. unfold on_new_obs. destruct (lookup st i s); exact I.
Qed.

Lemma create_single : forall i0 st1 h a parent o1, single i0 st1 -> forallb route_ok o1 = true ->
  single i0 (fst (create st1 i0 h a parent o1)) /\ forallb route_ok (snd (create st1 i0 h a parent o1)) = true.
Proof.
  intros i0 st1 h a parent o1 (G1 & S1 & Hh1 & Hc1) R1. unfold create.
  destruct (negb (alloc_legal (st_slots st1 i0 (fst a)) a)).
  - simpl. split; [repeat split; auto|]. rewrite route_ok_app, R1; reflexivity.
  - match goal with |- context [new_layers ?L ?S ?I ?Q ?A] => set (st4 := S) in * end.
    assert (E4 : st_global st4 = st_global st1 /\ st_scoped st4 = st_scoped st1 /\
                 st_handles st4 = (h, HSpan i0 a) :: st_handles st1 /\
                 st_created st4 = (i0, a, st_count st1) :: st_created st1).
    { unfold st4. simpl. destruct parent as [p|]; [|repeat split].
      match goal with |- context [match ?x with Some _ => _ | None => _ end] => destruct x end; repeat split. }
    destruct E4 as (E1 & E2 & E3 & E4).
    match goal with |- context [new_layers ?L st4 ?I ?Q ?A] =>
      pose proof (new_layers_others L st4 I Q A) as F; pose proof (new_layers_obs L st4 I Q A) as NO; destruct (new_layers L st4 I Q A) as [st5 o5] end.
    simpl in F, NO. simpl fst. simpl snd.
    destruct F as (_ & F2 & F3 & _ & _ & _ & F7 & _ & F9 & _). split.
    + split; [|split; [|split]].
      * rewrite F2, E1. exact G1.
      * rewrite F3, E2. exact S1.
      * intros h0 i s. rewrite F7, E3. intros [X|X]; [inversion X; auto | eapply Hh1; eauto].
      * intros i s q. rewrite F9, E4. intros [X|X]; [inversion X; auto | eapply Hc1; eauto].
    + rewrite route_ok_app, R1. apply only_routes_matter. exact NO.
Qed.

Lemma step_single : forall i0 st o, single i0 st -> no_setdef o = true ->
  single i0 (fst (step st o)) /\ forallb route_ok (snd (step st o)) = true.
Proof.
  intros i0 st o H NS. pose proof H as (G & S & Hh & Hc). unfold step. destruct (st_panicked st); [split; auto|].
  destruct (existsb odd_hid (op_hids o)); [split; auto|].
  destruct o; simpl in NS; try discriminate; simpl.
  - (* new *)
    assert (D : single i0 (fst (do_new st t h k a)) /\ forallb route_ok (snd (do_new st t h k a)) = true);
    [|unfold new_with_guards; rewrite (eff_single st t false i0) by auto;
      destruct (in_limbo st i0 (fst a)); [split; [repeat split; auto | reflexivity]|];
      destruct (do_new st t h k a) as [st' ob]; simpl in *; destruct D as ((G' & S' & Hh' & Hc') & R'); split;
      [unfold note_vis; destruct (st_count st <? st_count st'); repeat split; auto
      |rewrite route_ok_app, R'; destruct (note_at st i0 (fst a)); [destruct (st_count st <? st_count st')|]; reflexivity]].
    rewrite do_new_unfold. destruct (hget h (st_handles st)); [split; auto|].
    rewrite (eff_single st t false i0) by auto.
    assert (R : match resolve st i0 t k with
                | inl (st1, _, o1) => single i0 st1 /\ forallb route_ok o1 = true
                | inr _ => True end).
    { unfold resolve. destruct k as [| |hp]; auto.
      - destruct (current_span st i0 t) as [c|]; auto. destruct (clone_span st i0 c) eqn:E; auto. split; auto. eapply single_clone; eauto.
      - destruct (hget hp (st_handles st)) as [[|j p]|]; auto. destruct (clone_span st i0 p) eqn:E; auto.
        split; [eapply single_clone; eauto | destruct (j =? i0); reflexivity]. }
    destruct (resolve st i0 t k) as [[[st1 parent] o1]|e].
    + destruct R as (H1 & R1). apply create_single; auto.
    + simpl. split; auto. rewrite route_ok_app. simpl. rewrite andb_true_r.
      unfold foreign_note. destruct k; auto. destruct (hget h0 (st_handles st)) as [[|j p]|]; auto. destruct (j =? i0); reflexivity.
  - (* clone *)
    unfold do_clone. destruct (hget h (st_handles st)) as [[|i s]|] eqn:Hg; destruct (hget h' (st_handles st)); try (split; auto; fail).
    + simpl. split; auto. repeat split; auto. intros h0 i s [X|X]; [inversion X | eapply Hh; eauto].
    + destruct (clone_span st i s) as [st'|] eqn:E; [|split; auto].
      destruct (single_clone _ _ _ _ _ H E) as (G1 & S1 & Hh1 & Hc1). simpl. split; auto. repeat split; auto.
      intros h0 i1 s1 [X|X]; [inversion X; subst; eapply Hh; apply hget_in; eauto | eapply Hh1; eauto].
  - (* drop *)
    unfold do_drop. destruct (hget h (st_handles st)) as [[|i s]|] eqn:Hg; try (split; auto; fail).
    + simpl. split; auto. repeat split; auto. intros h0 i s X. apply hdel_in in X. destruct X. eapply Hh; eauto.
    + assert (i = i0) by (eapply Hh; apply hget_in; eauto). subst i.
      set (st1 := set_handles (hdel h (st_handles st)) st).
      pose proof (frame_eq_close_stack (fuel_of st1) st1 t false i0 s) as F.
      pose proof (close_stack_routes (fuel_of st1) st1 t false i0 s G S) as R.
      assert (H1 : hs_inst i0 st1) by (intros h0 i s0 X; simpl in X; apply hdel_in in X; destruct X; eapply Hh; eauto).
      pose proof (close_stack_hs (fuel_of st1) st1 t false i0 s G S H1) as HS.
      destruct (close_stack (fuel_of st1) st1 t false i0 s) as [st2 o2]. simpl in *. split; auto.
      destruct F as (_ & F2 & F3 & _ & _ & _ & F8 & _). split; [|split; [|split]].
      * rewrite F2. exact G.
      * rewrite F3. exact S.
      * exact HS.
      * intros i s0 q. rewrite F8. apply Hc.
  - (* enter *)
    unfold do_enter. destruct (hget h (st_handles st)) as [[|i s]|]; try (split; auto; fail).
    unfold push. destruct (negb (existsb (same i t s) (st_entries st))); [|split; auto; repeat split; auto].
    match goal with |- context [clone_span ?S1 i s] => destruct (clone_span S1 i s) as [st2|] eqn:E end; [|split; auto; repeat split; auto].
    simpl. split; auto. eapply single_clone; [|exact E]. repeat split; auto.
  - (* exit *)
    unfold do_exit. destruct (find_seq q (st_created st)) as [[i s]|] eqn:F; [|split; auto].
    assert (i = i0) by (eapply Hc; apply find_seq_in; eauto). subst i. apply exit_at_single; auto.
  - (* exith *)
    unfold do_exith. destruct (hget h (st_handles st)) as [[|i s]|] eqn:Hg; try (split; auto; fail).
    assert (i = i0) by (eapply Hh; apply hget_in; eauto). subst i. apply exit_at_single; auto.
  - (* current *)
    unfold do_current. destruct (hget h (st_handles st)); [split; auto|].
    rewrite (eff_single st t false i0) by auto.
    destruct (current_span st i0 t) as [c|].
    + destruct (clone_span st i0 c) as [st'|] eqn:E; [|split; auto].
      destruct (single_clone _ _ _ _ _ H E) as (G1 & S1 & Hh1 & Hc1). simpl. split; auto. repeat split; auto.
      intros h0 i1 s1 [X|X]; [inversion X; auto | eapply Hh1; eauto].
    + simpl. split; auto. repeat split; auto. intros h0 i s [X|X]; [inversion X | eapply Hh; eauto].
  - (* event *)
    unfold do_event. destruct (eff st t false); split; auto.
  - (* readtrace *)
    unfold do_readtrace. destruct (hget h (st_handles st)) as [[|i s]|]; split; auto.
  - (* hold *)
    unfold do_hold. destruct (gget k (st_held st)); [split; auto|].
    destruct (hget h (st_handles st)) as [[|i s]|]; try (split; auto; fail).
    destruct (lookup st i s); split; auto; repeat split; auto.
  - (* poke *)
    unfold do_poke. destruct (gget k (st_held st)) as [[[i s] q]|]; split; auto; repeat split; auto.
  - (* peek *)
    unfold do_peek. destruct (gget k (st_held st)) as [[[i s] q]|]; split; auto.
  - (* release: the deferred Clear releases the parent through get_default of this thread *)
    unfold do_release. destruct (gget k (st_held st)) as [[[i s] q]|]; [|split; auto].
    match goal with |- context [if ?B then _ else _] => destruct B end; [split; [repeat split; auto | reflexivity]|].
    match goal with |- context [match ?F with Some _ => _ | None => _ end] => destruct F as [l|] end; [|split; [repeat split; auto | reflexivity]].
    match goal with |- context [hget (phantom q) (st_handles ?S2)] => set (st2 := S2) in * end.
    assert (H2 : single i0 st2) by (repeat split; auto).
    destruct (hget (phantom q) (st_handles st2)) as [[|i' p]|] eqn:Hg; try (split; [exact H2 | reflexivity]).
    assert (i' = i0) by (eapply Hh; apply hget_in in Hg; exact Hg). subst i'.
    set (st3 := set_handles (hdel (phantom q) (st_handles st2)) st2) in *.
    rewrite (eff_single st3 t false i0) by auto.
    pose proof (frame_eq_close_stack (fuel_of st3) st3 t false i0 p) as F.
    pose proof (close_stack_routes (fuel_of st3) st3 t false i0 p G S) as R.
    assert (H3 : hs_inst i0 st3) by (intros h0 i1 s0 X; simpl in X; apply hdel_in in X; destruct X; eapply Hh; eauto).
    pose proof (close_stack_hs (fuel_of st3) st3 t false i0 p G S H3) as HS.
    destruct (close_stack (fuel_of st3) st3 t false i0 p) as [st4 o4]. simpl in *. rewrite Nat.eqb_refl, R. split; auto.
    destruct F as (_ & F2 & F3 & _ & _ & _ & F8 & _). split; [|split; [|split]].
    + rewrite F2. exact G.
    + rewrite F3. exact S.
    + exact HS.
    + intros i1 s0 q0. rewrite F8. apply Hc.
  - (* enabled *)
    unfold do_enabled. split; auto; repeat split; auto.
  - (* fevent *)
    unfold do_fevent. destruct (eff st t false); split; auto.
  - (* eventq *)
    unfold do_eventq. destruct (eff st t false); split; auto.
Qed.

Lemma run_single : forall h i0 st, single i0 st -> forallb no_setdef h = true -> own_default (trace st h) = true.
Proof.
  induction h as [|o r IH]; intros i0 st H NS; [reflexivity|].
  simpl in NS. apply andb_true_iff in NS. destruct NS as (N1 & N2).
  rewrite trace_cons. unfold own_default in *. rewrite forallb_app.
  destruct (step_single i0 st o H N1) as (H' & R). rewrite R. simpl. eapply IH; eauto.
Qed.

Theorem single_collector_own_default : forall layers i0 h, forallb no_setdef h = true -> OwnDefault layers (Some i0) h.
Proof.
  intros layers i0 h NS. unfold OwnDefault. eapply run_single; eauto.
  repeat split; simpl; auto; intros; contradiction.
Qed.
