(** Registry/C06Proofs.v — current span, parent, scope: the clauses of C06. *)
From Coq Require Import List NArith Bool Arith Lia.
From TV Require Import Registry.Model Registry.Basics Registry.Inv Registry.Close Registry.Steps Registry.NewSpan Registry.Run
                       Registry.C05Proofs.
Import ListNotations.
Local Open Scope nat_scope.

(* ---------------------------------------------------------------- the specification side *)
(** spans entered and not yet exited by thread t on instance i, most recently entered first (out-of-order exits allowed:
    an exit removes the span's entry wherever it is) *)
Definition on_thread (i : inst) (t : tid) (g : inst * tid * sid) : bool := (fst (fst g) =? i) && (snd (fst g) =? t).
Definition thread_ene (st : state) (i : inst) (t : tid) : list sid := map snd (filter (on_thread i t) (st_ene st)).
(** the property's exclusion: no span is entered twice at once on this thread *)
Definition NoReentry (st : state) (i : inst) (t : tid) : Prop := NoDup (thread_ene st i t).

(** how the list evolves, op by op *)
Definition ene_step (st : state) (o : op) (g : list (inst * tid * sid)) : list (inst * tid * sid) :=
  if existsb odd_hid (op_hids o) then g else        (* odd handle ids are reserved (phantom references): such an op is ignored *)
  match o with
  | OEnter t h => match hget h (st_handles st) with Some (HSpan i s) => (i, t, s) :: g | _ => g end
  | OExit t q => match find_seq q (st_created st) with Some (i, s) => gpop i t s g | None => g end
  | OExitH t h => match hget h (st_handles st) with Some (HSpan i s) => gpop i t s g | _ => g end
  | _ => g
  end.

(* ---------------------------------------------------------------- stack.rs *)
Lemma thread_ene_entries : forall pend st tr i t, Inv pend st tr ->
  thread_ene st i t = map e_s (filter (mine i t) (st_entries st)).
Proof.
  intros pend st tr i t I. unfold thread_ene. rewrite (i_ene _ _ _ I).
  induction (st_entries st) as [|e r IH]; simpl; auto.
  unfold on_thread at 1, mine at 1. simpl. destruct ((e_i e =? i) && (e_t e =? t)); simpl; rewrite IH; reflexivity.
Qed.

Lemma mine_same : forall i t e, mine i t e = true -> forall x, same i t (e_s e) x = true <-> (mine i t x = true /\ e_s x = e_s e).
Proof.
  intros i t e M x. unfold same, mine. rewrite !andb_true_iff, !Nat.eqb_eq, sid_eqb_spec. tauto.
Qed.

Lemma nodup_no_dupflag : forall i t es, dups_ok es -> NoDup (map e_s (filter (mine i t) es)) ->
  filter (fun e => mine i t e && negb (e_dup e)) es = filter (mine i t) es.
Proof.
  induction es as [|e r IH]; simpl; intros D ND; auto. destruct D as (D1 & D2).
  destruct (mine i t e) eqn:M; simpl.
  - simpl in ND. inversion ND as [|? ? Nin ND']; subst.
    assert (Ed : e_dup e = false).
    { rewrite D1. destruct (existsb (same (e_i e) (e_t e) (e_s e)) r) eqn:X; auto. exfalso.
      apply existsb_exists in X. destruct X as (x & Ix & Sx).
      unfold mine in M. apply andb_true_iff in M. destruct M as (Mi & Mt). apply Nat.eqb_eq in Mi; apply Nat.eqb_eq in Mt.
      rewrite Mi, Mt in Sx. apply same_spec in Sx. destruct Sx as (A & B & C).
      apply Nin. apply in_map_iff. exists x. split; auto. apply filter_In. split; auto.
      unfold mine. rewrite A, B, !Nat.eqb_refl. reflexivity. }
    rewrite Ed. simpl. f_equal. apply IH; auto.
  - apply IH; auto.
Qed.

Lemma current_live : forall pend st tr i t c, Inv pend st tr -> current i t (st_entries st) = Some c -> is_live st i c = true.
Proof.
  intros pend st tr i t c I H. unfold current in H.
  destruct (filter (fun e => mine i t e && negb (e_dup e)) (st_entries st)) as [|e r] eqn:F; [discriminate|]. inversion H; subst.
  assert (Ie : In e (filter (fun e => mine i t e && negb (e_dup e)) (st_entries st))) by (rewrite F; left; auto).
  apply filter_In in Ie. destruct Ie as (Ie & M). apply andb_true_iff in M. destruct M as (M & _).
  unfold mine in M. apply andb_true_iff in M. destruct M as (Mi & _). apply Nat.eqb_eq in Mi.
  pose proof (i_entries _ _ _ I _ Ie) as V. rewrite Mi in V. exact V.
Qed.

(** Registry::current_span and the stack's current() agree: an entry keeps its span alive *)
Lemma current_span_eq : forall pend st tr i t, Inv pend st tr -> current_span st i t = current i t (st_entries st).
Proof.
  intros pend st tr i t I. unfold current_span. destruct (current i t (st_entries st)) as [c|] eqn:C; auto.
  pose proof (current_live _ _ _ _ _ _ I C) as V. apply is_live_true in V. destruct V as (sl & ->). reflexivity.
Qed.

Theorem current_spec : forall pend st tr i t, Inv pend st tr -> NoReentry st i t ->
  current i t (st_entries st) = hd_error (thread_ene st i t) /\
  current_span st i t = hd_error (thread_ene st i t) /\
  lookup_current st i t = hd_error (thread_ene st i t).
Proof.
  intros pend st tr i t I NR. unfold NoReentry in NR. rewrite (thread_ene_entries _ _ _ _ _ I) in *.
  assert (C : current i t (st_entries st) = hd_error (map e_s (filter (mine i t) (st_entries st)))).
  { unfold current. rewrite (nodup_no_dupflag i t _ (i_dups _ _ _ I) NR).
    destruct (filter (mine i t) (st_entries st)); reflexivity. }
  split; auto. unfold lookup_current. rewrite (current_span_eq _ _ _ _ _ I). auto.
Qed.

(* ---------------------------------------------------------------- which operations touch the stacks *)
Definition ent_eq (st st' : state) : Prop := st_entries st' = st_entries st /\ st_ene st' = st_ene st.
Lemma ent_eq_refl : forall st, ent_eq st st.
Proof. split; reflexivity. Qed.
Lemma ent_eq_trans : forall a b c, ent_eq a b -> ent_eq b c -> ent_eq a c.
Proof. unfold ent_eq; intros a b c [] []; split; congruence. Qed.
Lemma frame_ent : forall a b, frame_eq a b -> ent_eq a b.
Proof. unfold frame_eq, ent_eq; tauto. Qed.
Lemma others_ent : forall a b, others_eq a b -> ent_eq a b.
Proof. unfold others_eq, ent_eq; tauto. Qed.

Lemma ent_clone : forall st i s, match clone_span st i s with inl st' => ent_eq st st' | inr _ => True end.
Proof.
  intros. destruct (clone_span st i s) as [st'|] eqn:E; auto. destruct (clone_span_upd _ _ _ _ E) as (v & ->). split; reflexivity.
Qed.

Definition stack_op (o : op) : bool := match o with OEnter _ _ | OExit _ _ | OExitH _ _ => true | _ => false end.

Lemma other_ops_keep_stacks : forall st o, stack_op o = false -> ent_eq st (fst (step st o)).
Proof.
  intros st o SO. unfold step. destruct (st_panicked st); [apply ent_eq_refl|].
  destruct (existsb odd_hid (op_hids o)); [apply ent_eq_refl|].
  assert (RG : forall st h l n, ent_eq st (set_guards h l n st)) by (split; reflexivity).
  assert (RF : forall st f v, ent_eq st (set_filter f v st)) by (split; reflexivity).
  assert (RP : forall st, ent_eq st (set_panicked st)) by (split; reflexivity).
  assert (RH : forall st h, ent_eq st (set_handles (hdel h (st_handles st)) st)) by (split; reflexivity).
  destruct o; simpl in *; try discriminate;
    [ apply (rel_new_guards ent_eq ent_eq_trans RF RP) | .. | apply (rel_hold ent_eq ent_eq_refl RG) | apply (rel_poke ent_eq ent_eq_refl RG)
    | apply (rel_peek ent_eq ent_eq_refl) | apply (rel_release ent_eq ent_eq_refl ent_eq_trans RG RH frame_ent)
    | apply (rel_enabled ent_eq RF) | apply (rel_fevent ent_eq ent_eq_refl) | apply (rel_eventq ent_eq ent_eq_refl) ].
  - rewrite do_new_unfold. destruct (hget h (st_handles st)); [apply ent_eq_refl|].
    destruct (eff st t false) as [i|]; [|split; reflexivity].
    assert (R : match resolve st i t k with inl (st1, _, _) => ent_eq st st1 | inr _ => True end).
    { unfold resolve. destruct k as [| |hp]; try apply ent_eq_refl.
      - destruct (current_span st i t) as [c|]; [|apply ent_eq_refl]. pose proof (ent_clone st i c). destruct (clone_span st i c); auto.
      - destruct (hget hp (st_handles st)) as [[|j p]|]; try apply ent_eq_refl. pose proof (ent_clone st i p). destruct (clone_span st i p); auto. }
    destruct (resolve st i t k) as [[[st1 parent] o1]|e]; [|split; reflexivity].
    unfold create. destruct (negb (alloc_legal (st_slots st1 i (fst a)) a)); [eapply ent_eq_trans; [exact R | split; reflexivity]|].
    match goal with |- context [new_layers ?L ?S ?I ?Q ?A] => pose proof (others_ent _ _ (new_layers_others L S I Q A)) as F; destruct (new_layers L S I Q A) as [st5 o5] end.
    simpl in *. eapply ent_eq_trans; [exact R|]. eapply ent_eq_trans; [|exact F].
    destruct parent as [p|]; [|split; reflexivity].
    match goal with |- context [match ?x with Some _ => _ | None => _ end] => destruct x end; split; reflexivity.
  - unfold do_clone. destruct (hget h (st_handles st)) as [[|i s]|]; destruct (hget h' (st_handles st)); try apply ent_eq_refl; try (split; reflexivity).
    pose proof (ent_clone st i s). destruct (clone_span st i s); [|split; reflexivity]. simpl. destruct H; split; auto.
  - unfold do_drop. destruct (hget h (st_handles st)) as [[|i s]|]; try apply ent_eq_refl; try (split; reflexivity).
    eapply ent_eq_trans; [|apply frame_ent, frame_eq_close_stack]. split; reflexivity.
  - unfold do_current. destruct (hget h (st_handles st)); [apply ent_eq_refl|]. destruct (eff st t false) as [i|]; [|split; reflexivity].
    destruct (current_span st i t) as [c|]; [|split; reflexivity].
    pose proof (ent_clone st i c). destruct (clone_span st i c); [|split; reflexivity]. simpl. destruct H; split; auto.
  - unfold do_event. destruct (eff st t false); apply ent_eq_refl.
  - unfold do_setdef. destruct (dget t (st_def st)); split; reflexivity.
  - unfold do_unsetdef. destruct (dget t (st_def st)); try apply ent_eq_refl; split; reflexivity.
  - unfold do_readtrace. destruct (hget h (st_handles st)) as [[|i s]|]; apply ent_eq_refl.
Qed.

Lemma enter_stacks : forall st t h i s, hget h (st_handles st) = Some (HSpan i s) ->
  st_entries (fst (do_enter st t h)) = mkEntry i t s (existsb (same i t s) (st_entries st)) :: st_entries st /\
  st_ene (fst (do_enter st t h)) = (i, t, s) :: st_ene st.
Proof.
  intros st t h i s Hh. unfold do_enter. rewrite Hh. unfold push.
  destruct (negb (existsb (same i t s) (st_entries st))); [|split; reflexivity].
  match goal with |- context [clone_span ?S i s] => pose proof (ent_clone S i s) as C; destruct (clone_span S i s) end; [|split; reflexivity].
  simpl. destruct C as (C1 & C2). rewrite C1, C2. split; reflexivity.
Qed.

Lemma exit_at_stacks : forall st t i s,
  match pop i t s (st_entries st) with
  | Some (es, _) => st_entries (fst (exit_at st t i s)) = es /\ st_ene (fst (exit_at st t i s)) = gpop i t s (st_ene st)
  | None => fst (exit_at st t i s) = st
  end.
Proof.
  intros. unfold exit_at. destruct (pop i t s (st_entries st)) as [[es last]|]; [|reflexivity].
  destruct last; [|split; reflexivity].
  match goal with |- context [eff ?S t false] => destruct (eff S t false) as [j|] end; [|split; reflexivity].
  match goal with |- context [close_stack ?F ?S t true j s] => pose proof (frame_ent _ _ (frame_eq_close_stack F S t true j s)) as C;
    destruct (close_stack F S t true j s) as [st2 o2] end.
  simpl in *. destruct C as (C1 & C2). rewrite C1, C2. split; reflexivity.
Qed.

(** the specification list really is "entered and not yet exited": enter pushes, exit removes, nothing else touches it *)
Theorem ene_history : forall pend st tr o, Inv pend st tr -> st_ene (fst (step st o)) = ene_step st o (st_ene st).
Proof.
  intros pend st tr o I. unfold ene_step. destruct (stack_op o) eqn:SO.
  - unfold step. rewrite (i_nopanic _ _ _ I). destruct (existsb odd_hid (op_hids o)); [reflexivity|].
    assert (EX : forall t i s, st_ene (fst (exit_at st t i s)) = gpop i t s (st_ene st)).
    { intros t i s. pose proof (exit_at_stacks st t i s) as E.
      destruct (pop i t s (st_entries st)) as [[es b]|] eqn:P; [tauto|]. rewrite E.
      rewrite (i_ene _ _ _ I), gpop_map, P. reflexivity. }
    destruct o; simpl in *; try discriminate.
    + destruct (hget h (st_handles st)) as [[|i s]|] eqn:Hh; try (unfold do_enter; rewrite Hh; reflexivity).
      apply (enter_stacks st t h i s Hh).
    + unfold do_exit. destruct (find_seq q (st_created st)) as [[i s]|]; [apply EX | reflexivity].
    + unfold do_exith. destruct (hget h (st_handles st)) as [[|i s]|]; try reflexivity. apply EX.
  - destruct (other_ops_keep_stacks st o SO) as (_ & E). rewrite E.
    destruct (existsb odd_hid (op_hids o)); [reflexivity|]. destruct o; simpl in *; try discriminate; reflexivity.
Qed.

(* ---------------------------------------------------------------- frame rule between threads *)
Lemma filter_pop_other : forall (f : entry -> bool) i t' s es es' b,
  (forall e, f e = true -> e_t e <> t') -> pop i t' s es = Some (es', b) -> filter f es' = filter f es.
Proof.
  intros f i t' s es es' b Hf P. destruct (pop_spec _ _ _ _ _ _ P) as (l1 & e & l2 & -> & -> & Se & _).
  rewrite !filter_app. simpl. destruct (f e) eqn:Fe; auto.
  apply same_spec in Se. destruct Se as (_ & T & _). exfalso. apply (Hf e Fe). exact T.
Qed.

Lemma step_stack_cases : forall st o,
  ent_eq st (fst (step st o)) \/
  (exists i s d, st_entries (fst (step st o)) = mkEntry i (op_tid o) s d :: st_entries st /\
                 st_ene (fst (step st o)) = (i, op_tid o, s) :: st_ene st) \/
  (exists i s es' b, pop i (op_tid o) s (st_entries st) = Some (es', b) /\ st_entries (fst (step st o)) = es' /\
                     st_ene (fst (step st o)) = gpop i (op_tid o) s (st_ene st)).
Proof.
  intros st o. destruct (stack_op o) eqn:SO; [|left; apply other_ops_keep_stacks; auto].
  unfold step. destruct (st_panicked st); [left; apply ent_eq_refl|].
  destruct (existsb odd_hid (op_hids o)); [left; apply ent_eq_refl|].
  assert (EX : forall t i s, ent_eq st (fst (exit_at st t i s)) \/
            (exists es' b, pop i t s (st_entries st) = Some (es', b) /\ st_entries (fst (exit_at st t i s)) = es' /\
                           st_ene (fst (exit_at st t i s)) = gpop i t s (st_ene st))).
  { intros t i s. pose proof (exit_at_stacks st t i s) as E.
    destruct (pop i t s (st_entries st)) as [[es b]|] eqn:P; [right; exists es, b; tauto | left; rewrite E; apply ent_eq_refl]. }
  destruct o; simpl in *; try discriminate.
  - destruct (hget h (st_handles st)) as [[|i s]|] eqn:Hh; try (left; unfold do_enter; rewrite Hh; apply ent_eq_refl).
    right; left. destruct (enter_stacks st t h i s Hh) as (A & B). eauto.
  - unfold do_exit. destruct (find_seq q (st_created st)) as [[i s]|]; [|left; apply ent_eq_refl].
    destruct (EX t i s) as [E|(es' & b & P & A & B)]; [left; auto | right; right; exists i, s, es', b; auto].
  - unfold do_exith. destruct (hget h (st_handles st)) as [[|i s]|]; try (left; apply ent_eq_refl).
    destruct (EX t i s) as [E|(es' & b & P & A & B)]; [left; auto | right; right; exists i, s, es', b; auto].
Qed.

Lemma gpop_other_thread : forall i' t' s i t g, t' <> t ->
  filter (on_thread i t) (gpop i' t' s g) = filter (on_thread i t) g.
Proof.
  intros i' t' s i t g Ne. induction g as [|x r IH]; simpl; auto.
  destruct (sameg i' t' s x) eqn:Sx.
  - unfold sameg in Sx. apply andb_true_iff in Sx. destruct Sx as (Sx & _). apply andb_true_iff in Sx. destruct Sx as (_ & Tx).
    apply Nat.eqb_eq in Tx. unfold on_thread. rewrite Tx. replace (t' =? t) with false by (symmetry; apply Nat.eqb_neq; auto).
    rewrite andb_false_r. reflexivity.
  - simpl. rewrite IH. reflexivity.
Qed.

(** what thread t sees is not affected by any operation executed by another thread *)
Theorem thread_independent : forall st o t, op_tid o <> t -> forall i,
  filter (mine i t) (st_entries (fst (step st o))) = filter (mine i t) (st_entries st) /\
  current i t (st_entries (fst (step st o))) = current i t (st_entries st) /\
  thread_ene (fst (step st o)) i t = thread_ene st i t.
Proof.
  intros st o t Ne i.
  assert (Hm : forall f : entry -> bool, (forall e, f e = true -> e_t e = t) ->
               filter f (st_entries (fst (step st o))) = filter f (st_entries st)).
  { intros f Hf. destruct (step_stack_cases st o) as [(E & _)|[(i' & s & d & E & _)|(i' & s & es' & b & P & E & _)]]; rewrite E; auto.
    - simpl. destruct (f (mkEntry i' (op_tid o) s d)) eqn:Fe; auto. apply Hf in Fe. simpl in Fe. contradiction.
    - eapply filter_pop_other; eauto. intros e Fe X. apply Hf in Fe. congruence. }
  split; [|split].
  - apply Hm. intros e M. unfold mine in M. apply andb_true_iff in M. destruct M as (_ & M). apply Nat.eqb_eq in M; auto.
  - unfold current. rewrite Hm; auto.
    intros e M. apply andb_true_iff in M. destruct M as (M & _). unfold mine in M. apply andb_true_iff in M. destruct M as (_ & M). apply Nat.eqb_eq in M; auto.
  - unfold thread_ene. destruct (step_stack_cases st o) as [(_ & E)|[(i' & s & d & _ & E)|(i' & s & es' & b & _ & _ & E)]]; rewrite E; auto.
    + simpl. unfold on_thread at 1. simpl. replace (op_tid o =? t) with false by (symmetry; apply Nat.eqb_neq; auto).
      rewrite andb_false_r. reflexivity.
    + rewrite gpop_other_thread; auto.
Qed.

(* ---------------------------------------------------------------- parents *)
(** what new_span is asked to use as parent *)
Definition wanted_parent (st : state) (i : inst) (t : tid) (k : pkind) : option sid :=
  match k with
  | PRoot => None
  | PCtx => current_span st i t
  | PExplicit hp => match hget hp (st_handles st) with Some (HSpan _ p) => Some p | _ => None end
  end.

Lemma do_new_parent : forall st tr t h k a st' ob i, Inv None st tr ->
  do_new st t h k a = (st', ob) -> forallb wf_obs ob = true ->
  hget h (st_handles st) = None -> eff st t false = Some i ->
  exists sl, lookup st' i a = Some sl /\ s_seq sl = st_count st /\
             s_parent sl = wanted_parent st i t k /\
             cpar_get (st_count st) (st_cpar st') =
               Some (match wanted_parent st i t k with Some p => seq_at st i p | None => None end) /\
             hget h (st_handles st') = Some (HSpan i a).
Proof.
  intros st tr t h k a st' ob i I H W Hh Ef.
  rewrite do_new_unfold, Hh, Ef in H.
  assert (G : forall st1 parent, parent = wanted_parent st i t k ->
            ((parent = None /\ st1 = st) \/
             (exists p pl, parent = Some p /\ lookup st i p = Some pl /\ st1 = upd_slot st i (fst p) (set_refs pl (s_refs pl + 1)%N))) ->
            create st1 i h a parent [] = (st', ob) ->
            exists sl, lookup st' i a = Some sl /\ s_seq sl = st_count st /\ s_parent sl = wanted_parent st i t k /\
                       cpar_get (st_count st) (st_cpar st') = Some (match wanted_parent st i t k with Some p => seq_at st i p | None => None end) /\
                       hget h (st_handles st') = Some (HSpan i a)).
  { intros st1 parent EP HP HC.
    destruct (create_spec st tr st1 i h a parent st' ob I HP HC W) as (_ & _ & e & CS & _).
    destruct CS as (S5 & _ & _ & _ & _ & F5 & _ & _ & F8 & _).
    exists (mkSlot true true (snd a) (st_count st) parent 1%N e []). split; [|split; [|split; [|split]]]; auto.
    - unfold lookup. rewrite S5, Nat.eqb_refl, N.eqb_refl. simpl. rewrite N.eqb_refl. reflexivity.
    - rewrite F8, cpar_get_cons_same, <- EP. reflexivity.
    - rewrite F5. simpl. rewrite Nat.eqb_refl. reflexivity. }
  destruct (resolve_cases st tr i t k I) as [(o1 & ER & Ho)|[(p & pl & o1 & ER & Lp & Ho)|(e & ER & Fn)]]; rewrite ER in H.
  - destruct Ho as [->| ->].
    + apply (G st None); auto.
      unfold resolve in ER. unfold wanted_parent. destruct k as [| |hp]; auto.
      * destruct (current_span st i t) as [c|]; auto. destruct (clone_span st i c); discriminate.
      * destruct (hget hp (st_handles st)) as [[|j p]|]; auto. destruct (clone_span st i p); discriminate.
    + exfalso. unfold create in H. destruct (negb (alloc_legal (st_slots st i (fst a)) a)).
      * inversion H; subst. simpl in W. discriminate.
      * match type of H with (let '(_, _) := ?X in _) = _ => destruct X end. inversion H; subst. simpl in W. discriminate.
  - destruct Ho as [->| ->].
    + apply (G (upd_slot st i (fst p) (set_refs pl (s_refs pl + 1)%N)) (Some p)); auto; [|right; exists p, pl; auto].
      unfold resolve in ER. unfold wanted_parent. destruct k as [| |hp]; try discriminate.
      * destruct (current_span st i t) as [c|]; [|discriminate]. destruct (clone_span st i c); inversion ER; auto.
      * destruct (hget hp (st_handles st)) as [[|j p']|]; try discriminate. destruct (clone_span st i p'); inversion ER; auto.
    + exfalso. unfold create in H. match type of H with (if ?B then _ else _) = _ => destruct B end.
      * inversion H; subst. simpl in W. discriminate.
      * match type of H with (let '(_, _) := ?X in _) = _ => destruct X end. inversion H; subst. simpl in W. discriminate.
  - exfalso. simpl in H. inversion H; subst. rewrite Fn in W. simpl in W. discriminate.
Qed.

Theorem new_span_parent : forall st tr t h k a st' ob i, Inv None st tr ->
  step st (ONewSpan t h k a) = (st', ob) -> forallb wf_obs ob = true ->
  hget h (st_handles st) = None -> eff st t false = Some i ->
  exists sl, lookup st' i a = Some sl /\ s_seq sl = st_count st /\
             s_parent sl = wanted_parent st i t k /\
             cpar_get (st_count st) (st_cpar st') =
               Some (match wanted_parent st i t k with Some p => seq_at st i p | None => None end) /\
             hget h (st_handles st') = Some (HSpan i a).
Proof.
  intros st tr t h k a st' ob i I H W Hh Ef. unfold step in H. rewrite (i_nopanic _ _ _ I) in H.
  destruct (existsb odd_hid (op_hids (ONewSpan t h k a))); [inversion H; subst; simpl in W; discriminate|].
  unfold new_with_guards in H. rewrite Ef in H.
  destruct (in_limbo st i (fst a)); [inversion H; subst; simpl in W; discriminate|].
  destruct (do_new st t h k a) as [st0 ob0] eqn:D. inversion H; subst st' ob; clear H.
  rewrite forallb_app in W. apply andb_true_iff in W. destruct W as (W & _).
  destruct (do_new_parent st tr t h k a st0 ob0 i I D W Hh Ef) as (sl & A & B & C & E & F).
  exists sl. unfold note_vis. destruct (st_count st <? st_count st0); auto.
Qed.

(** events: event_span / event_scope as layer 0 sees them *)
Definition event_parent (st : state) (i : inst) (t : tid) (k : pkind) : option sid :=
  match k with
  | PRoot => None
  | PCtx => lookup_current st i t
  | PExplicit hp => match hget hp (st_handles st) with
                    | Some (HSpan _ p) => match lookup st i p with Some _ => Some p | None => None end
                    | _ => None end
  end.

Theorem event_parent_spec : forall st t k i, st_panicked st = false -> existsb odd_hid (op_hids (OEvent_ t k)) = false ->
  eff st t false = Some i ->
  exists d, step st (OEvent_ t k) =
    (st, [OEvent i (match lookup_current st i t with Some c => seq_at st i c | None => None end)
                 (match event_parent st i t k with Some s => seq_at st i s | None => None end)
                 (match event_parent st i t k with Some s => scope st i s | None => [] end)
                 (rev (match event_parent st i t k with Some s => scope st i s | None => [] end)) d]).
Proof.
  intros st t k i NP OH Ef. unfold step. rewrite NP, OH. unfold do_event. rewrite Ef. eexists. reflexivity.
Qed.

(* ---------------------------------------------------------------- scope = the chain of creation-time ancestors *)
(** [chain cp q l]: l = q, parent of q, grand-parent, ..., up to a root, where cp is the creation-time parent table.
    No fuel: the relation is well-founded because a parent is created before its child. *)
Inductive chain (cp : nat -> option (option nat)) : nat -> list nat -> Prop :=
| chain_root : forall q, cp q = Some None -> chain cp q [q]
| chain_step : forall q p l, cp q = Some (Some p) -> chain cp p l -> chain cp q (q :: l).

Lemma chain_functional : forall cp q l, chain cp q l -> forall l', chain cp q l' -> l = l'.
Proof.
  intros cp q l H. induction H as [q E|q p l E C IH]; intros l' H'; inversion H'; subst; try congruence.
  rewrite E in H; inversion H; subst. f_equal. apply IH; auto.
Qed.

Definition cpar_of (st : state) : nat -> option (option nat) := fun q => cpar_get q (st_cpar st).

Lemma scope_from_chain : forall pend st tr i, Inv pend st tr -> forall fuel s sl, lookup st i s = Some sl -> s_seq sl < fuel ->
  chain (cpar_of st) (s_seq sl) (scope_from fuel st i (Some s)) /\
  Forall (fun q => exists s', lookup st i s' <> None /\ In (i, s', q) (st_created st)) (scope_from fuel st i (Some s)) /\
  Forall (fun q => q <= s_seq sl) (scope_from fuel st i (Some s)).
Proof.
  intros pend st tr i I. induction fuel as [|f IH]; intros s sl L Lt; [lia|].
  simpl. rewrite L. pose proof (i_cpar _ _ _ I _ _ _ L) as CP.
  assert (Self : exists s', lookup st i s' <> None /\ In (i, s', s_seq sl) (st_created st)).
  { exists s. split; [congruence | eapply i_created; eauto]. }
  destruct (s_parent sl) as [p|] eqn:P.
  - destruct (i_parent _ _ _ I _ _ _ _ L P) as (pl & Lp & _ & Ltp).
    destruct (IH p pl Lp ltac:(lia)) as (C & F & B).
    unfold seq_at in CP. rewrite Lp in CP. split; [|split].
    + eapply chain_step; eauto.
    + constructor; auto.
    + constructor; auto. eapply Forall_impl; [|exact B]. simpl. intros; lia.
  - destruct f; simpl; (split; [apply chain_root; exact CP | split; constructor; auto]).
Qed.

Theorem scope_spec : forall pend st tr i s sl, Inv pend st tr -> lookup st i s = Some sl ->
  chain (cpar_of st) (s_seq sl) (scope st i s) /\
  (forall l, chain (cpar_of st) (s_seq sl) l -> l = scope st i s) /\
  from_root (scope st i s) = rev (scope st i s) /\
  (forall q, In q (scope st i s) -> exists s', lookup st i s' <> None /\ In (i, s', q) (st_created st)).
Proof.
  intros pend st tr i s sl I L.
  assert (Lt : s_seq sl < S (st_count st)) by (pose proof (i_seqs _ _ _ I _ _ _ (i_created _ _ _ I _ _ _ L)); lia).
  destruct (scope_from_chain _ _ _ i I _ _ _ L Lt) as (C & F & _). fold (scope st i s) in *.
  split; auto. split; [intros l Cl; eapply chain_functional; eauto|]. split; [reflexivity|].
  intros q Iq. rewrite Forall_forall in F. apply F; auto.
Qed.

(** any reference (a handle, a captured SpanTrace, a stack entry, an open child) keeps the whole chain readable *)
Theorem ancestors_readable : forall st tr i s q, Inv None st tr -> In (i, s, q) (st_created st) ->
  1 <= handles_n st i s + entered_n st i s + open_children st i s ->
  exists sl, lookup st i s = Some sl /\ s_seq sl = q /\ chain (cpar_of st) q (scope st i s) /\
             forall a, In a (scope st i s) -> exists sa, lookup st i sa <> None /\ In (i, sa, a) (st_created st).
Proof.
  intros st tr i s q I Ic H. apply (live_iff _ _ I) in H. apply is_live_true in H. destruct H as (sl & L).
  exists sl. split; auto. pose proof (live_seq _ _ _ _ _ _ _ I L Ic) as Sq. split; auto.
  destruct (scope_spec _ _ _ _ _ _ I L) as (C & _ & _ & R). rewrite Sq in C. auto.
Qed.

(** the creation-time parent table only grows: the entry of a span is written once, by its creation *)
Lemma frame_cpar : forall a b, frame_eq a b -> st_cpar b = st_cpar a.
Proof. unfold frame_eq; intros a b H; decompose [and] H; auto. Qed.

Definition cp_eq (a b : state) : Prop := st_cpar b = st_cpar a.

Lemma do_new_cpar : forall st t h k a,
  st_cpar (fst (do_new st t h k a)) = st_cpar st \/ exists w, st_cpar (fst (do_new st t h k a)) = (st_count st, w) :: st_cpar st.
Proof.
  intros. rewrite do_new_unfold. destruct (hget h (st_handles st)); [left; reflexivity|].
  destruct (eff st t false) as [i|]; [|left; reflexivity].
  assert (R : match resolve st i t k with inl (st1, _, _) => st_cpar st1 = st_cpar st /\ st_count st1 = st_count st | inr _ => True end).
  { unfold resolve. destruct k as [| |hp]; auto.
    - destruct (current_span st i t) as [c|]; auto. destruct (clone_span st i c) as [st2|] eqn:E; auto. destruct (clone_span_upd _ _ _ _ E) as (w & ->). auto.
    - destruct (hget hp (st_handles st)) as [[|j p]|]; auto. destruct (clone_span st i p) as [st2|] eqn:E; auto. destruct (clone_span_upd _ _ _ _ E) as (w & ->). auto. }
  destruct (resolve st i t k) as [[[st1 parent] o1]|e]; [|left; reflexivity]. destruct R as (R1 & R2).
  unfold create. destruct (negb (alloc_legal (st_slots st1 i (fst a)) a)); [left; exact R1|].
  match goal with |- context [new_layers ?L ?S ?I ?Q ?A] => pose proof (new_layers_others L S I Q A) as F; destruct (new_layers L S I Q A) as [st5 o5] end.
  simpl in *. destruct F as (_ & _ & _ & _ & _ & _ & _ & _ & _ & _ & F & _). right. rewrite F. simpl. rewrite R2. eexists.
  f_equal. destruct parent as [p|]; [|exact R1].
  match goal with |- context [match ?x with Some _ => _ | None => _ end] => destruct x end; exact R1.
Qed.

Lemma cpar_stable_step : forall st o,
  st_cpar (fst (step st o)) = st_cpar st \/ exists w, st_cpar (fst (step st o)) = (st_count st, w) :: st_cpar st.
Proof.
  intros st o. unfold step. destruct (st_panicked st); [left; reflexivity|].
  destruct (existsb odd_hid (op_hids o)); [left; reflexivity|].
  assert (Rr : forall st, cp_eq st st) by reflexivity.
  assert (Rt : forall a b c, cp_eq a b -> cp_eq b c -> cp_eq a c) by (unfold cp_eq; intros; congruence).
  assert (RG : forall st h l n, cp_eq st (set_guards h l n st)) by reflexivity.
  assert (RF : forall st f v, cp_eq st (set_filter f v st)) by reflexivity.
  assert (RH : forall st h, cp_eq st (set_handles (hdel h (st_handles st)) st)) by reflexivity.
  assert (RFr : forall a b, frame_eq a b -> cp_eq a b) by (intros; apply frame_cpar; auto).
  assert (EX : forall t i s, st_cpar (fst (exit_at st t i s)) = st_cpar st).
  { intros. unfold exit_at. destruct (pop i t s (st_entries st)) as [[es last]|]; [|reflexivity].
    destruct last; [|reflexivity].
    match goal with |- context [eff ?S t false] => destruct (eff S t false) as [j|] end; [|reflexivity].
    match goal with |- context [close_stack ?F ?S t true j s] => pose proof (frame_eq_close_stack F S t true j s) as C;
      destruct (close_stack F S t true j s) as [st2 o2] end.
    simpl in *. rewrite (frame_cpar _ _ C). reflexivity. }
  destruct o; simpl.
  - unfold new_with_guards.
    assert (N : forall st', st_cpar (note_vis st st' t) = st_cpar st') by (intros; unfold note_vis; destruct (st_count st <? st_count st'); reflexivity).
    pose proof (do_new_cpar st t h k a) as D.
    destruct (eff st t false) as [i|].
    + destruct (in_limbo st i (fst a)); [left; reflexivity|].
      destruct (do_new st t h k a) as [st' ob]. simpl in *. rewrite N. exact D.
    + destruct (do_new st t h k a) as [st' ob]. simpl in *. rewrite N. exact D.
  - left. unfold do_clone. destruct (hget h (st_handles st)) as [[|i s]|]; destruct (hget h' (st_handles st)); try reflexivity.
    destruct (clone_span st i s) as [st2|] eqn:E; [|reflexivity]. destruct (clone_span_upd _ _ _ _ E) as (w & ->). reflexivity.
  - left. unfold do_drop. destruct (hget h (st_handles st)) as [[|i s]|]; try reflexivity.
    match goal with |- context [close_stack ?F ?S t false i s] => pose proof (frame_eq_close_stack F S t false i s) as C end.
    rewrite (frame_cpar _ _ C). reflexivity.
  - left. unfold do_enter. destruct (hget h (st_handles st)) as [[|i s]|]; try reflexivity. unfold push.
    destruct (negb (existsb (same i t s) (st_entries st))); [|reflexivity].
    match goal with |- context [clone_span ?S i s] => destruct (clone_span S i s) as [st2|] eqn:E end; [|reflexivity].
    destruct (clone_span_upd _ _ _ _ E) as (w & ->). reflexivity.
  - left. unfold do_exit. destruct (find_seq q (st_created st)) as [[i s]|]; [apply EX | reflexivity].
  - left. unfold do_exith. destruct (hget h (st_handles st)) as [[|i s]|]; try reflexivity. apply EX.
  - left. unfold do_current. destruct (hget h (st_handles st)); [reflexivity|]. destruct (eff st t false) as [i|]; [|reflexivity].
    destruct (current_span st i t) as [c|]; [|reflexivity].
    destruct (clone_span st i c) as [st2|] eqn:E; [|reflexivity]. destruct (clone_span_upd _ _ _ _ E) as (w & ->). reflexivity.
  - left. unfold do_event. destruct (eff st t false); reflexivity.
  - left. unfold do_setdef. destruct (dget t (st_def st)); reflexivity.
  - left. unfold do_unsetdef. destruct (dget t (st_def st)); reflexivity.
  - left. unfold do_readtrace. destruct (hget h (st_handles st)) as [[|i s]|]; reflexivity.
  - left. apply (rel_hold cp_eq Rr RG).
  - left. apply (rel_poke cp_eq Rr RG).
  - left. apply (rel_peek cp_eq Rr).
  - left. apply (rel_release cp_eq Rr Rt RG RH RFr).
  - left. exact (rel_enabled cp_eq RF st t dis).
  - left. exact (rel_fevent cp_eq Rr st t k).
  - left. exact (rel_eventq cp_eq Rr st t q).
Qed.

Theorem cpar_stable : forall pend st tr o q v, Inv pend st tr -> cpar_get q (st_cpar st) = Some v ->
  cpar_get q (st_cpar (fst (step st o))) = Some v.
Proof.
  intros pend st tr o q v I H. pose proof (i_cpar_dom _ _ _ I _ _ H) as Lt.
  destruct (cpar_stable_step st o) as [->|(w & ->)]; auto.
  rewrite cpar_get_cons_other by lia. exact H.
Qed.

(* ---------------------------------------------------------------- the clauses, for every history *)
Local Notation St layers g h := (final (init layers g) h).
Local Notation Tr layers g h := (trace (init layers g) h).

Theorem current_history : forall layers g h, Config_ok layers -> WellFormed layers g h -> OwnDefault layers g h ->
  forall i t, NoReentry (St layers g h) i t ->
    current i t (st_entries (St layers g h)) = hd_error (thread_ene (St layers g h) i t) /\
    current_span (St layers g h) i t = hd_error (thread_ene (St layers g h) i t) /\
    lookup_current (St layers g h) i t = hd_error (thread_ene (St layers g h) i t).
Proof. intros layers g h HL HW HO i t. apply (current_spec _ _ _ i t (H_inv layers g h HL HW HO)). Qed.

Theorem ene_history_all : forall layers g h, Config_ok layers -> WellFormed layers g h -> OwnDefault layers g h ->
  st_ene (init layers g) = [] /\
  forall o, st_ene (St layers g (h ++ [o])) = ene_step (St layers g h) o (st_ene (St layers g h)).
Proof.
  intros layers g h HL HW HO. split; [reflexivity|]. intros o.
  rewrite final_app, final_cons, final_nil. apply (ene_history _ _ _ o (H_inv layers g h HL HW HO)).
Qed.

Theorem thread_independent_history : forall layers g h o t, Config_ok layers ->
  WellFormed layers g (h ++ [o]) -> OwnDefault layers g (h ++ [o]) -> op_tid o <> t -> forall i,
  thread_ene (St layers g (h ++ [o])) i t = thread_ene (St layers g h) i t /\
  current_span (St layers g (h ++ [o])) i t = current_span (St layers g h) i t /\
  lookup_current (St layers g (h ++ [o])) i t = lookup_current (St layers g h) i t.
Proof.
  intros layers g h o t HL HW HO Ne i.
  pose proof (H_inv layers g (h ++ [o]) HL HW HO) as I1.
  pose proof (H_inv layers g h HL (WellFormed_prefix _ _ _ _ HW) (OwnDefault_prefix _ _ _ _ HO)) as I0.
  assert (E : St layers g (h ++ [o]) = fst (step (St layers g h) o)) by (rewrite final_app, final_cons, final_nil; reflexivity).
  destruct (thread_independent (St layers g h) o t Ne i) as (_ & C & T).
  unfold lookup_current. rewrite (current_span_eq _ _ _ _ _ I1), (current_span_eq _ _ _ _ _ I0), E. auto.
Qed.

Theorem new_span_parent_history : forall layers g h t hd k a, Config_ok layers ->
  WellFormed layers g (h ++ [ONewSpan t hd k a]) -> OwnDefault layers g h ->
  forall i, hget hd (st_handles (St layers g h)) = None -> eff (St layers g h) t false = Some i ->
  exists sl, lookup (St layers g (h ++ [ONewSpan t hd k a])) i a = Some sl /\
             s_seq sl = st_count (St layers g h) /\
             s_parent sl = wanted_parent (St layers g h) i t k /\
             cpar_get (st_count (St layers g h)) (st_cpar (St layers g (h ++ [ONewSpan t hd k a]))) =
               Some (match wanted_parent (St layers g h) i t k with Some p => seq_at (St layers g h) i p | None => None end) /\
             hget hd (st_handles (St layers g (h ++ [ONewSpan t hd k a]))) = Some (HSpan i a).
Proof.
  intros layers g h t hd k a HL HW HO i Hh Ef.
  pose proof (H_inv layers g h HL (WellFormed_prefix _ _ _ _ HW) HO) as I0.
  rewrite final_app, final_cons, final_nil.
  destruct (step (St layers g h) (ONewSpan t hd k a)) as [st' ob] eqn:S. simpl.
  eapply new_span_parent; eauto.
  unfold WellFormed, well_formed in HW. rewrite trace_app, trace_cons, trace_nil, app_nil_r, forallb_app, S in HW.
  apply andb_true_iff in HW. tauto.
Qed.

Theorem scope_history : forall layers g h, Config_ok layers -> WellFormed layers g h -> OwnDefault layers g h ->
  forall i s sl, lookup (St layers g h) i s = Some sl ->
  chain (cpar_of (St layers g h)) (s_seq sl) (scope (St layers g h) i s) /\
  (forall l, chain (cpar_of (St layers g h)) (s_seq sl) l -> l = scope (St layers g h) i s) /\
  from_root (scope (St layers g h) i s) = rev (scope (St layers g h) i s) /\
  (forall q, In q (scope (St layers g h) i s) -> exists s', lookup (St layers g h) i s' <> None /\ In (i, s', q) (st_created (St layers g h))).
Proof. intros layers g h HL HW HO i s sl. apply (scope_spec _ _ _ i s sl (H_inv layers g h HL HW HO)). Qed.

Theorem ancestors_readable_history : forall layers g h, Config_ok layers -> WellFormed layers g h -> OwnDefault layers g h ->
  forall i s q, In (i, s, q) (st_created (St layers g h)) ->
  1 <= handles_n (St layers g h) i s + entered_n (St layers g h) i s + open_children (St layers g h) i s ->
  exists sl, lookup (St layers g h) i s = Some sl /\ s_seq sl = q /\
             chain (cpar_of (St layers g h)) q (scope (St layers g h) i s) /\
             forall a, In a (scope (St layers g h) i s) ->
               exists sa, lookup (St layers g h) i sa <> None /\ In (i, sa, a) (st_created (St layers g h)).
Proof. intros layers g h HL HW HO i s q. apply (ancestors_readable _ _ i s q (H_inv layers g h HL HW HO)). Qed.

Theorem cpar_stable_history : forall layers g h o, Config_ok layers -> WellFormed layers g h -> OwnDefault layers g h ->
  forall q v, cpar_of (St layers g h) q = Some v -> cpar_of (St layers g (h ++ [o])) q = Some v.
Proof.
  intros layers g h o HL HW HO q v H. unfold cpar_of in *. rewrite final_app, final_cons, final_nil.
  eapply cpar_stable; eauto. apply H_inv; auto.
Qed.

(* ---------------------------------------------------------------- non-vacuity *)
(** root -> mid -> leaf entered in that order on thread 0, the root also entered on thread 1; thread 0 exits the MIDDLE one first *)
Definition h_chain : list op :=
  [ OSetDef 0 (Some 0); OSetDef 1 (Some 0);
    ONewSpan 0 2 PRoot (0%N, 0%N); OEnter 0 2; ONewSpan 0 4 PCtx (1%N, 0%N); OEnter 0 4; ONewSpan 0 6 PCtx (2%N, 0%N); OEnter 0 6;
    OEnter 1 2; OExit 0 1 ].

Lemma h_chain_ok :
  WellFormed two_layers None h_chain /\ OwnDefault two_layers None h_chain /\
  NoReentry (St two_layers None h_chain) 0 0 /\
  thread_ene (St two_layers None h_chain) 0 0 = [(2%N, 0%N); (0%N, 0%N)] /\
  thread_ene (St two_layers None h_chain) 0 1 = [(0%N, 0%N)] /\
  current_span (St two_layers None h_chain) 0 0 = Some (2%N, 0%N) /\
  current_span (St two_layers None h_chain) 0 1 = Some (0%N, 0%N) /\
  scope (St two_layers None h_chain) 0 (2%N, 0%N) = [2; 1; 0] /\
  from_root (scope (St two_layers None h_chain) 0 (2%N, 0%N)) = [0; 1; 2].
Proof.
  split; [vm_compute; reflexivity|]. split; [vm_compute; reflexivity|]. split.
  - unfold NoReentry. replace (thread_ene (St two_layers None h_chain) 0 0) with [(2%N, 0%N); (0%N, 0%N)] by (vm_compute; reflexivity).
    repeat constructor; simpl; intuition discriminate.
  - vm_compute. repeat split.
Qed.
