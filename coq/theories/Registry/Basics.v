(** Registry/Basics.v — elementary facts about the model's data structures. *)
From Coq Require Import List NArith Bool Arith Lia.
From TV Require Import Registry.Model.
Import ListNotations.
Local Open Scope nat_scope.

Lemma sid_eqb_spec : forall a b : sid, sid_eqb a b = true <-> a = b.
Proof.
  intros [a1 a2] [b1 b2]; unfold sid_eqb; simpl; rewrite andb_true_iff, !N.eqb_eq.
  split; [intros [-> ->]; reflexivity | intros H; inversion H; auto].
Qed.
Lemma sid_eqb_refl : forall a, sid_eqb a a = true.
Proof. intros; apply sid_eqb_spec; reflexivity. Qed.
Lemma sid_eqb_neq : forall a b : sid, sid_eqb a b = false <-> a <> b.
Proof.
  intros a b; split; intros H.
  - intros E; apply sid_eqb_spec in E; congruence.
  - destruct (sid_eqb a b) eqn:E; [apply sid_eqb_spec in E; contradiction | reflexivity].
Qed.
Lemma sid_eqb_sym : forall a b, sid_eqb a b = sid_eqb b a.
Proof.
  intros a b; destruct (sid_eqb a b) eqn:E.
  - apply sid_eqb_spec in E; subst; symmetry; apply sid_eqb_refl.
  - symmetry; apply sid_eqb_neq; apply sid_eqb_neq in E; congruence.
Qed.
Lemma sid_dec : forall a b : sid, {a = b} + {a <> b}.
Proof. intros; destruct (sid_eqb a b) eqn:E; [left; apply sid_eqb_spec; auto | right; apply sid_eqb_neq; auto]. Qed.

(* ---------------------------------------------------------------- slots *)
Lemma set_refs_proj : forall sl r,
  s_occ (set_refs sl r) = s_occ sl /\ s_used (set_refs sl r) = s_used sl /\ s_gen (set_refs sl r) = s_gen sl /\
  s_seq (set_refs sl r) = s_seq sl /\ s_parent (set_refs sl r) = s_parent sl /\ s_refs (set_refs sl r) = r /\
  s_ext (set_refs sl r) = s_ext sl /\ s_kids (set_refs sl r) = s_kids sl.
Proof. intros; unfold set_refs; simpl; repeat split. Qed.

Lemma slots_upd : forall st i x v i' x',
  st_slots (upd_slot st i x v) i' x' = if (i' =? i) && N.eqb x' x then v else st_slots st i' x'.
Proof. reflexivity. Qed.

Lemma slots_upd_same : forall st i x v, st_slots (upd_slot st i x v) i x = v.
Proof. intros; rewrite slots_upd, Nat.eqb_refl, N.eqb_refl; reflexivity. Qed.

Lemma slots_upd_other : forall st i x v i' x', (i', x') <> (i, x) -> st_slots (upd_slot st i x v) i' x' = st_slots st i' x'.
Proof.
  intros; rewrite slots_upd.
  destruct (i' =? i) eqn:E1; simpl; auto. destruct (N.eqb x' x) eqn:E2; auto.
  apply Nat.eqb_eq in E1; apply N.eqb_eq in E2; subst; contradiction.
Qed.

Lemma lookup_some : forall st i s sl, lookup st i s = Some sl ->
  sl = st_slots st i (fst s) /\ s_occ sl = true /\ s_gen sl = snd s.
Proof.
  unfold lookup; intros st i s sl H.
  destruct (s_occ (st_slots st i (fst s))) eqn:O; simpl in H; try discriminate.
  destruct (N.eqb (s_gen (st_slots st i (fst s))) (snd s)) eqn:G; try discriminate.
  inversion H; subst; apply N.eqb_eq in G; auto.
Qed.

Lemma lookup_intro : forall st i s, s_occ (st_slots st i (fst s)) = true -> s_gen (st_slots st i (fst s)) = snd s ->
  lookup st i s = Some (st_slots st i (fst s)).
Proof. unfold lookup; intros st i s O G; rewrite O, G, N.eqb_refl; reflexivity. Qed.

Lemma lookup_none : forall st i s, lookup st i s = None ->
  s_occ (st_slots st i (fst s)) = false \/ s_gen (st_slots st i (fst s)) <> snd s.
Proof.
  unfold lookup; intros st i s H.
  destruct (s_occ (st_slots st i (fst s))); auto. simpl in H.
  destruct (N.eqb (s_gen (st_slots st i (fst s))) (snd s)) eqn:G; try discriminate. apply N.eqb_neq in G; auto.
Qed.

(** two live ids at the same index are the same id *)
Lemma lookup_same_idx : forall st i s s' sl sl', lookup st i s = Some sl -> lookup st i s' = Some sl' -> fst s = fst s' -> s = s'.
Proof.
  intros st i [x g] [x' g'] sl sl' H1 H2 E; simpl in E; subst x'.
  apply lookup_some in H1; apply lookup_some in H2; simpl in *.
  destruct H1 as (-> & _ & G1), H2 as (-> & _ & G2). congruence.
Qed.

Definition is_live (st : state) (i : inst) (s : sid) : bool :=
  match lookup st i s with Some _ => true | None => false end.

Lemma is_live_true : forall st i s, is_live st i s = true <-> exists sl, lookup st i s = Some sl.
Proof. unfold is_live; intros; destruct (lookup st i s); split; intros; eauto; try discriminate. destruct H; discriminate. Qed.
Lemma is_live_false : forall st i s, is_live st i s = false <-> lookup st i s = None.
Proof. unfold is_live; intros; destruct (lookup st i s); split; intros; auto; discriminate. Qed.

(** lookup after an update of one slot *)
Lemma lookup_upd_other : forall st i x v i' s', (i', fst s') <> (i, x) -> lookup (upd_slot st i x v) i' s' = lookup st i' s'.
Proof. intros; unfold lookup; rewrite slots_upd_other; auto. Qed.

Lemma lookup_upd_same : forall st i x v s', fst s' = x ->
  lookup (upd_slot st i x v) i s' = if s_occ v && N.eqb (s_gen v) (snd s') then Some v else None.
Proof. intros; subst; unfold lookup; rewrite slots_upd_same; reflexivity. Qed.

(** changing only refs / ext / kids of a live slot keeps every lookup's liveness *)
Definition same_shape (a b : slot) : Prop :=
  s_occ a = s_occ b /\ s_used a = s_used b /\ s_gen a = s_gen b /\ s_seq a = s_seq b /\ s_parent a = s_parent b.

Lemma lookup_upd_shape : forall st i s sl v, lookup st i s = Some sl -> same_shape sl v ->
  forall i' s', lookup (upd_slot st i (fst s) v) i' s' =
                if (i' =? i) && sid_eqb s' s then Some v else lookup st i' s'.
Proof.
  intros st i s sl v L (O & _ & G & _) i' s'.
  pose proof (lookup_some _ _ _ _ L) as (E & O' & G').
  destruct (i' =? i) eqn:Ei; simpl.
  - apply Nat.eqb_eq in Ei; subst i'.
    destruct (N.eq_dec (fst s') (fst s)) as [Ex|Ex].
    + rewrite lookup_upd_same by auto. rewrite <- O, <- G, O', G'.
      destruct (sid_eqb s' s) eqn:Es.
      * apply sid_eqb_spec in Es; subst; rewrite N.eqb_refl; reflexivity.
      * simpl. destruct (N.eqb (snd s) (snd s')) eqn:Eg.
        -- apply N.eqb_eq in Eg. apply sid_eqb_neq in Es. destruct s, s'; simpl in *; subst; contradiction.
        -- unfold lookup. rewrite Ex, <- E, O', G'. simpl. rewrite Eg. reflexivity.
    + rewrite lookup_upd_other by (intros X; inversion X; contradiction).
      destruct (sid_eqb s' s) eqn:Es; auto. apply sid_eqb_spec in Es; subst; contradiction.
  - rewrite lookup_upd_other; auto. intros X; inversion X; subst; rewrite Nat.eqb_refl in Ei; discriminate.
Qed.

(* ---------------------------------------------------------------- CLOSE_COUNT list *)
Lemma cget_cput : forall t n c t', cget t' (cput t n c) = if t' =? t then n else cget t' c.
Proof.
  induction c as [|[k v] r IH]; intros t'; simpl.
  - rewrite (Nat.eqb_sym t t'). reflexivity.
  - destruct (k =? t) eqn:E; simpl.
    + apply Nat.eqb_eq in E; subst. rewrite (Nat.eqb_sym t t'). destruct (t' =? t); reflexivity.
    + rewrite IH. destruct (k =? t') eqn:E'; auto.
      apply Nat.eqb_eq in E'; subst. rewrite E. reflexivity.
Qed.

Lemma cput_cput : forall t a b c, cput t b (cput t a c) = cput t b c.
Proof.
  induction c as [|[k v] r IH]; simpl.
  - rewrite Nat.eqb_refl; reflexivity.
  - destruct (k =? t) eqn:E; simpl; rewrite E; [reflexivity | rewrite IH; reflexivity].
Qed.

(* ---------------------------------------------------------------- filters and counts *)
Lemma filter_length_le : forall {A} (f : A -> bool) l, length (filter f l) <= length l.
Proof. induction l; simpl; auto. destruct (f a); simpl; lia. Qed.

Lemma filter_ext_in' : forall {A} (f g : A -> bool) l, (forall x, In x l -> f x = g x) -> filter f l = filter g l.
Proof. intros; apply filter_ext_in; auto. Qed.

Lemma filter_none : forall {A} (f : A -> bool) l, length (filter f l) = 0 -> forall x, In x l -> f x = false.
Proof.
  induction l; simpl; intros H x I; [contradiction|].
  destruct (f a) eqn:E; simpl in H; try lia. destruct I; subst; auto.
Qed.

Lemma length_filter_remove : forall (l : list sid) c, NoDup l -> In c l ->
  S (length (filter (fun k => negb (sid_eqb k c)) l)) = length l.
Proof.
  induction l as [|a r IH]; intros c ND I; [contradiction|].
  inversion ND; subst. simpl. destruct (sid_eqb a c) eqn:E; simpl.
  - apply sid_eqb_spec in E; subst. f_equal.
    rewrite (filter_ext_in' _ (fun _ => true)).
    + clear; induction r; simpl; auto.
    + intros x Ix. destruct (sid_eqb x c) eqn:E; auto. apply sid_eqb_spec in E; subst; contradiction.
  - destruct I as [->|I]; [rewrite sid_eqb_refl in E; discriminate|]. rewrite IH; auto.
Qed.

Lemma in_filter_remove : forall (l : list sid) c x, In x (filter (fun k => negb (sid_eqb k c)) l) <-> In x l /\ x <> c.
Proof.
  intros; rewrite filter_In. split; intros [A B]; split; auto.
  - apply negb_true_iff, sid_eqb_neq in B; auto.
  - apply negb_true_iff, sid_eqb_neq; auto.
Qed.

Lemma NoDup_filter : forall {A} (f : A -> bool) l, NoDup l -> NoDup (filter f l).
Proof.
  induction l; simpl; intros ND; auto. inversion ND; subst.
  destruct (f a); auto. constructor; auto. rewrite filter_In; tauto.
Qed.

(* handles *)
Lemma hget_in : forall h v hs, hget h hs = Some v -> In (h, v) hs.
Proof.
  induction hs as [|[k w] r IH]; simpl; intros H; [discriminate|].
  destruct (k =? h) eqn:E; [apply Nat.eqb_eq in E; inversion H; subst; auto | auto].
Qed.
Lemma hget_none : forall h hs, hget h hs = None -> ~ In h (map fst hs).
Proof.
  induction hs as [|[k w] r IH]; simpl; intros H; [tauto|].
  destruct (k =? h) eqn:E; [discriminate|]. apply Nat.eqb_neq in E. intros [X|X]; [contradiction|]. apply IH; auto.
Qed.
Lemma in_hget : forall h v hs, NoDup (map fst hs) -> In (h, v) hs -> hget h hs = Some v.
Proof.
  induction hs as [|[k w] r IH]; simpl; intros ND I; [contradiction|]. inversion ND; subst.
  destruct I as [I|I].
  - inversion I; subst. rewrite Nat.eqb_refl; reflexivity.
  - destruct (k =? h) eqn:E; [|auto]. apply Nat.eqb_eq in E; subst.
    exfalso; apply H1. change h with (fst (h, v)). apply in_map; auto.
Qed.
Lemma hdel_in : forall h hs x, In x (hdel h hs) <-> In x hs /\ fst x <> h.
Proof.
  intros; unfold hdel; rewrite filter_In. split; intros [A B]; split; auto.
  - apply negb_true_iff, Nat.eqb_neq in B; auto.
  - apply negb_true_iff, Nat.eqb_neq; auto.
Qed.
Lemma hdel_nodup : forall h hs, NoDup (map fst hs) -> NoDup (map fst (hdel h hs)).
Proof.
  induction hs as [|[k w] r IH]; simpl; intros ND; auto. inversion ND; subst.
  destruct (negb (k =? h)); simpl; auto. constructor; auto.
  intros X. apply H1. apply in_map_iff in X. destruct X as (x & E & I). apply hdel_in in I.
  apply in_map_iff. exists x; tauto.
Qed.

(* creation table *)
Lemma find_seq_in : forall q c i s, find_seq q c = Some (i, s) -> In (i, s, q) c.
Proof.
  induction c as [|[[i' s'] q'] r IH]; simpl; intros i s H; [discriminate|].
  destruct (q' =? q) eqn:E; [apply Nat.eqb_eq in E; inversion H; subst; auto | auto].
Qed.
Lemma in_find_seq : forall q c i s, NoDup (map snd c) -> In (i, s, q) c -> find_seq q c = Some (i, s).
Proof.
  induction c as [|[[i' s'] q'] r IH]; simpl; intros i s ND I; [contradiction|]. inversion ND; subst.
  destruct I as [I|I].
  - inversion I; subst. rewrite Nat.eqb_refl; reflexivity.
  - destruct (q' =? q) eqn:E; auto. apply Nat.eqb_eq in E; subst.
    exfalso; apply H1. change q with (snd (i, s, q)). apply in_map; auto.
Qed.
Lemma find_seq_none : forall q c, find_seq q c = None -> forall i s, ~ In (i, s, q) c.
Proof.
  induction c as [|[[i' s'] q'] r IH]; simpl; intros H i s; [tauto|].
  destruct (q' =? q) eqn:E; [discriminate|]. apply Nat.eqb_neq in E.
  intros [X|X]; [inversion X; subst; contradiction | eapply IH; eauto].
Qed.

(* stack *)
Lemma same_spec : forall i t s e, same i t s e = true <-> e_i e = i /\ e_t e = t /\ e_s e = s.
Proof.
  intros; unfold same. rewrite !andb_true_iff, !Nat.eqb_eq, sid_eqb_spec. tauto.
Qed.

Lemma pop_spec : forall i t s es es' b, pop i t s es = Some (es', b) ->
  exists l1 e l2, es = l1 ++ e :: l2 /\ es' = l1 ++ l2 /\ same i t s e = true /\ b = negb (e_dup e) /\
                  forall x, In x l1 -> same i t s x = false.
Proof.
  induction es as [|e r IH]; simpl; intros es' b H; [discriminate|].
  destruct (same i t s e) eqn:E.
  - inversion H; subst. exists [], e, es'. simpl; repeat split; auto. intros x [].
  - destruct (pop i t s r) as [[r' b']|] eqn:P; [|discriminate]. inversion H; subst.
    destruct (IH _ _ eq_refl) as (l1 & e0 & l2 & -> & -> & S0 & B & N).
    exists (e :: l1), e0, l2. simpl; repeat split; auto. intros x [<-|I]; auto.
Qed.

Lemma pop_none : forall i t s es, pop i t s es = None -> forall x, In x es -> same i t s x = false.
Proof.
  induction es as [|e r IH]; simpl; intros H x I; [contradiction|].
  destruct (same i t s e) eqn:E; [discriminate|].
  destruct (pop i t s r) as [[r' b']|] eqn:P; [discriminate|]. destruct I as [<-|I]; auto.
Qed.

Lemma gpop_map : forall i t s es,
  gpop i t s (map (fun e => (e_i e, e_t e, e_s e)) es) =
  map (fun e => (e_i e, e_t e, e_s e)) (match pop i t s es with Some (es', _) => es' | None => es end).
Proof.
  induction es as [|e r IH]; simpl; auto.
  unfold sameg, same in *; simpl.
  destruct ((e_i e =? i) && (e_t e =? t) && sid_eqb (e_s e) s) eqn:E; auto.
  rewrite IH. destruct (pop i t s r) as [[r' b']|]; reflexivity.
Qed.
