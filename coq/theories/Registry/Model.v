(** Registry/Model.v — executable model of tracing-subscriber's span registry (C05, C06).  No proofs here.

    Mirrors, as the code is NOW in /repo:
      registry/sharded.rs   new_span / clone_span / enter / exit / try_close / start_close / CloseGuard /
                            CLOSE_COUNT / Clear for DataInner (parent release = cascade)
      registry/stack.rs     push (marks duplicates) / pop (removes the LAST matching entry) / current
      subscribe/layered.rs  Layered::try_close: start_close per frame, inner first, then on_close, guard drop
      registry/mod.rs       Scope iterator, from_root
      subscribe/context.rs  lookup_current, event_span, event_scope
      tracing-core dispatch get_default: scoped/global default, and the re-entrancy rule ("a get_default nested
                            in another get_default sees Dispatch::none" whenever a scoped default exists anywhere)
      tracing span.rs       Span::new/child_of/new_root/current, Clone, Drop (these go to the span's OWN dispatch)

    Granularity: one API operation = one atomic step (sequential consistency, op-level interleaving of any
    number of threads: every op carries the thread that executes it).  The refcount micro-step system is
    Registry/Micro.v.

    Abstractions (see notes/C05.md): sharded_slab::Pool is an abstract allocator — the op [ONewSpan] carries
    the slot index and generation the allocator chose; the model only checks the choice is legal (slot vacant,
    generation never used before at that index).  Per-layer filters (FilterMap) are not modelled (C07).
    ThreadLocal<RefCell<SpanStack>> (a map thread -> stack) is represented by ONE list of entries tagged with
    (instance, thread), newest first; the stack of a thread is the sub-list with its tag. *)
From Coq Require Import List NArith Bool Arith Lia.
Import ListNotations.
Local Open Scope nat_scope.

Definition inst := nat.
Definition tid := nat.
Definition hid := nat.
Definition sid := (N * N)%type.            (* slot index, generation: the span Id *)

Definition sid_eqb (a b : sid) : bool := N.eqb (fst a) (fst b) && N.eqb (snd a) (snd b).
Definition osid_eqb (a : option sid) (b : sid) : bool := match a with Some x => sid_eqb x b | None => false end.
Definition MAXU : N := 18446744073709551615%N.

(** DataInner (pooled; `ext` survives in a vacant slot unless Clear empties it). *)
Record slot := mkSlot {
  s_occ : bool;               (* slot currently holds a span *)
  s_used : bool;              (* slot has been occupied at least once *)
  s_gen : N;                  (* generation of the current / last occupant *)
  s_seq : nat;                (* creation number of the occupant = its Metadata (one callsite per span) *)
  s_parent : option sid;
  s_refs : N;                 (* ref_count: AtomicUsize *)
  s_ext : list (nat * nat);   (* extensions typemap: layer -> value stored by that layer *)
  s_kids : list sid           (* ghost (not in the code): the live children holding a reference on this span *)
}.
Definition empty_slot : slot := mkSlot false false 0%N 0 None 0%N [] [].
Definition set_refs (sl : slot) (r : N) : slot := mkSlot (s_occ sl) (s_used sl) (s_gen sl) (s_seq sl) (s_parent sl) r (s_ext sl) (s_kids sl).
Definition set_ext (sl : slot) (e : list (nat * nat)) : slot := mkSlot (s_occ sl) (s_used sl) (s_gen sl) (s_seq sl) (s_parent sl) (s_refs sl) e (s_kids sl).
Definition set_kids (sl : slot) (k : list sid) : slot := mkSlot (s_occ sl) (s_used sl) (s_gen sl) (s_seq sl) (s_parent sl) (s_refs sl) (s_ext sl) k.

Inductive hval := HNone | HSpan (i : inst) (s : sid).     (* a tracing::Span value: disabled, or (id, own dispatch) *)

Record entry := mkEntry { e_i : inst; e_t : tid; e_s : sid; e_dup : bool }.   (* ContextId, tagged *)

Record state := mkState {
  st_slots : inst -> N -> slot;
  st_layers : inst -> nat;                 (* config: number of Layered frames on top of the registry *)
  st_global : option inst;                 (* config: global default dispatcher *)
  st_scoped : nat;                         (* SCOPED_COUNT *)
  st_def : list (tid * option inst);       (* threads holding a scoped DefaultGuard (None = Dispatch::none()) *)
  st_entries : list entry;                 (* all span stacks, newest first *)
  st_close : list (tid * nat);             (* CLOSE_COUNT thread-local (absent = 0) *)
  st_handles : list (hid * hval);          (* user side: live Span values *)
  st_count : nat;                          (* spans created so far *)
  st_created : list (inst * sid * nat);    (* user side: (instance, id, creation number), newest first *)
  st_ene : list (inst * tid * sid);        (* ghost/spec: entered and not yet exited, newest first *)
  st_cpar : list (nat * option nat);       (* ghost/spec: creation-time parent of each creation number *)
  st_panicked : bool;
  (* slab guards (SpanRef / Data obtained by LookupSpan::span and kept across operations) *)
  st_held : list (nat * (inst * sid * nat));      (* guard key -> (instance, id, creation number) *)
  st_limbo : list (inst * sid * nat * option sid);(* spans reported closed while a guard was held: slot only MARKED, storage
                                                     (parent reference, extensions) released with the last guard *)
  st_notes : list (inst * N * nat);               (* slot storage: the extension written through a held guard, per slot index *)
  (* the per-subscriber-filtered layer (outermost Layered frame) *)
  st_filtering : list tid;                        (* FILTERING thread-local: the filter disabled the callsite last asked about *)
  st_vis : list (nat * bool)                      (* FilterMap bit per span (by creation number): enabled for the filtered layer *)
}.

Definition init (layers : inst -> nat) (global : option inst) : state :=
  mkState (fun _ _ => empty_slot) layers global 0 [] [] [] [] 0 [] [] [] false [] [] [] [] [].

(* setters *)
Definition set_slots f st := mkState f (st_layers st) (st_global st) (st_scoped st) (st_def st) (st_entries st) (st_close st) (st_handles st) (st_count st) (st_created st) (st_ene st) (st_cpar st) (st_panicked st) (st_held st) (st_limbo st) (st_notes st) (st_filtering st) (st_vis st).
Definition set_def n d st := mkState (st_slots st) (st_layers st) (st_global st) n d (st_entries st) (st_close st) (st_handles st) (st_count st) (st_created st) (st_ene st) (st_cpar st) (st_panicked st) (st_held st) (st_limbo st) (st_notes st) (st_filtering st) (st_vis st).
Definition set_entries e g st := mkState (st_slots st) (st_layers st) (st_global st) (st_scoped st) (st_def st) e (st_close st) (st_handles st) (st_count st) (st_created st) g (st_cpar st) (st_panicked st) (st_held st) (st_limbo st) (st_notes st) (st_filtering st) (st_vis st).
Definition set_close c st := mkState (st_slots st) (st_layers st) (st_global st) (st_scoped st) (st_def st) (st_entries st) c (st_handles st) (st_count st) (st_created st) (st_ene st) (st_cpar st) (st_panicked st) (st_held st) (st_limbo st) (st_notes st) (st_filtering st) (st_vis st).
Definition set_handles h st := mkState (st_slots st) (st_layers st) (st_global st) (st_scoped st) (st_def st) (st_entries st) (st_close st) h (st_count st) (st_created st) (st_ene st) (st_cpar st) (st_panicked st) (st_held st) (st_limbo st) (st_notes st) (st_filtering st) (st_vis st).
Definition set_created n c p st := mkState (st_slots st) (st_layers st) (st_global st) (st_scoped st) (st_def st) (st_entries st) (st_close st) (st_handles st) n c (st_ene st) p (st_panicked st) (st_held st) (st_limbo st) (st_notes st) (st_filtering st) (st_vis st).
Definition set_panicked st := mkState (st_slots st) (st_layers st) (st_global st) (st_scoped st) (st_def st) (st_entries st) (st_close st) (st_handles st) (st_count st) (st_created st) (st_ene st) (st_cpar st) true (st_held st) (st_limbo st) (st_notes st) (st_filtering st) (st_vis st).

Definition set_guards h l n st := mkState (st_slots st) (st_layers st) (st_global st) (st_scoped st) (st_def st) (st_entries st) (st_close st) (st_handles st) (st_count st) (st_created st) (st_ene st) (st_cpar st) (st_panicked st) h l n (st_filtering st) (st_vis st).
Definition set_filter f v st := mkState (st_slots st) (st_layers st) (st_global st) (st_scoped st) (st_def st) (st_entries st) (st_close st) (st_handles st) (st_count st) (st_created st) (st_ene st) (st_cpar st) (st_panicked st) (st_held st) (st_limbo st) (st_notes st) f v.

Definition upd_slot (st : state) (i : inst) (x : N) (v : slot) : state :=
  set_slots (fun i' x' => if (i' =? i) && N.eqb x' x then v else st_slots st i' x') st.

(** Pool::get(key): the slot at the key's index, if occupied by that generation. *)
Definition lookup (st : state) (i : inst) (s : sid) : option slot :=
  let sl := st_slots st i (fst s) in
  if s_occ sl && N.eqb (s_gen sl) (snd s) then Some sl else None.

(** Observations.  Span identities are creation numbers (the harness renames raw ids the same way). *)
Inductive obs :=
| ONew (i l q : nat) (stale : option nat) (par : option (option nat))
      (* layer l's on_new_span for span q: extension found before inserting (must be None), and
         ctx.span(id).parent(): None = no parent id, Some None = parent id stored but not found *)
| OClose (i l q : nat) (ext : option nat)     (* on_close at layer l; ctx.span(id) succeeded and read ext *)
| OCloseGone (i l : nat)                      (* on_close at layer l but ctx.span(id) = None *)
| OEvent (i : nat) (cur espan : option nat) (escope efromroot : list nat) (dump : list (nat * option (list nat)))
| OCur (q : option nat)                       (* Span::current() / SpanTrace::capture() from user code *)
| OTrace (r : option (list nat))              (* SpanTrace::with_spans / span(id).scope() through the own dispatch *)
| OPanic (k : nat)                            (* 1 clone_span: no such span, 2 clone_span: already closed, 3 try_close: no such span *)
| OIll (k : nat)                              (* ill-formed op (dead / duplicate handle id ...): ignored *)
| OForeignParent                              (* explicit parent from another collector than the current default *)
| OBadAlloc                                   (* allocator choice not legal for the abstract pool *)
| OFuel
| ORoute (own : nat) (to : option nat)        (* model only: a release that sharded.rs routes through
                                                 dispatch::get_default went to [to]; the span lives in [own] *)
| OHold (q : option nat)                      (* registry.span(&id) for a guard that is kept: the span found (its creation number) or not *)
| OPeek (v : option nat)                      (* the extension read through a held guard *)
| OStaleNote (i q v : nat)                    (* on_new_span of span q found the extension [v] an earlier occupant's guard wrote into the slot *)
| OFEvent (i : nat) (cur espan : option nat) (escope efromroot : list nat).
                                              (* what the per-subscriber-filtered layer sees inside on_event *)

(* ------------------------------------------------------------------ user-side tables *)
Fixpoint hget (h : hid) (hs : list (hid * hval)) : option hval :=
  match hs with [] => None | (k, v) :: r => if k =? h then Some v else hget h r end.
Definition hdel (h : hid) (hs : list (hid * hval)) := filter (fun p => negb (fst p =? h)) hs.

Fixpoint find_seq (q : nat) (c : list (inst * sid * nat)) : option (inst * sid) :=
  match c with [] => None | (i, s, q') :: r => if q' =? q then Some (i, s) else find_seq q r end.
Fixpoint seq_of (i : inst) (s : sid) (c : list (inst * sid * nat)) : option nat :=
  match c with [] => None | (i', s', q) :: r => if (i' =? i) && sid_eqb s' s then Some q else seq_of i s r end.
Fixpoint dget (t : tid) (d : list (tid * option inst)) : option (option inst) :=
  match d with [] => None | (k, v) :: r => if k =? t then Some v else dget t r end.
Definition ddel (t : tid) (d : list (tid * option inst)) := filter (fun p => negb (fst p =? t)) d.

(** dispatch::get_default as seen by a call made on thread t; [nested] = inside another get_default closure. *)
Definition eff (st : state) (t : tid) (nested : bool) : option inst :=
  if st_scoped st =? 0 then st_global st
  else if nested then None
  else match dget t (st_def st) with Some d => d | None => st_global st end.

(* ------------------------------------------------------------------ stack.rs *)
Definition same (i : inst) (t : tid) (s : sid) (e : entry) : bool :=
  (e_i e =? i) && (e_t e =? t) && sid_eqb (e_s e) s.
Definition mine (i : inst) (t : tid) (e : entry) : bool := (e_i e =? i) && (e_t e =? t).

(** push: duplicate iff the id is already anywhere in this thread's stack; returns !duplicate. *)
Definition push (i : inst) (t : tid) (s : sid) (es : list entry) : list entry * bool :=
  let dup := existsb (same i t s) es in (mkEntry i t s dup :: es, negb dup).

(** pop: removes the LAST pushed matching entry (newest first = first match); returns Some (!duplicate). *)
Fixpoint pop (i : inst) (t : tid) (s : sid) (es : list entry) : option (list entry * bool) :=
  match es with
  | [] => None
  | e :: r => if same i t s e then Some (r, negb (e_dup e))
              else match pop i t s r with Some (r', b) => Some (e :: r', b) | None => None end
  end.

(** current: the most recently pushed non-duplicate entry of this thread's stack. *)
Definition current (i : inst) (t : tid) (es : list entry) : option sid :=
  match filter (fun e => mine i t e && negb (e_dup e)) es with e :: _ => Some (e_s e) | [] => None end.

(** Registry::current_span: current() and the slot must exist. *)
Definition current_span (st : state) (i : inst) (t : tid) : option sid :=
  match current i t (st_entries st) with
  | Some s => match lookup st i s with Some _ => Some s | None => None end
  | None => None
  end.

(* ghost: entered-not-exited, same operations without the duplicate flag *)
Definition sameg (i : inst) (t : tid) (s : sid) (g : inst * tid * sid) : bool :=
  (fst (fst g) =? i) && (snd (fst g) =? t) && sid_eqb (snd g) s.
Fixpoint gpop (i : inst) (t : tid) (s : sid) (g : list (inst * tid * sid)) : list (inst * tid * sid) :=
  match g with [] => [] | x :: r => if sameg i t s x then r else x :: gpop i t s r end.

(* ------------------------------------------------------------------ sharded.rs *)
(** clone_span: Err k = panic. *)
Definition clone_span (st : state) (i : inst) (s : sid) : state + nat :=
  match lookup st i s with
  | None => inr 1
  | Some sl =>
      if N.eqb (s_refs sl) 0 then inr 2
      else inl (upd_slot st i (fst s) (set_refs sl (s_refs sl + 1)%N))
  end.

(** Registry::try_close: None = panic; Some (st, true) = this call took the count to zero. *)
Definition reg_try_close (st : state) (i : inst) (s : sid) : option (state * bool) :=
  match lookup st i s with
  | None => None
  | Some sl =>
      let r := s_refs sl in
      let r' := if N.eqb r 0 then MAXU else (r - 1)%N in
      Some (upd_slot st i (fst s) (set_refs sl r'), negb (N.ltb 1 r))
  end.

Definition ext_get (l : nat) (e : list (nat * nat)) : option nat :=
  match find (fun p => fst p =? l) e with Some p => Some (snd p) | None => None end.

Definition on_close_obs (st : state) (i : inst) (l : nat) (s : sid) : obs :=
  match lookup st i s with
  | Some sl => OClose i l (s_seq sl) (ext_get l (s_ext sl))
  | None => OCloseGone i l
  end.

Fixpoint cget (t : tid) (c : list (tid * nat)) : nat :=
  match c with [] => 0 | (k, v) :: r => if k =? t then v else cget t r end.
Fixpoint cput (t : tid) (n : nat) (c : list (tid * nat)) : list (tid * nat) :=
  match c with [] => [(t, n)] | (k, v) :: r => if k =? t then (k, n) :: r else (k, v) :: cput t n r end.
Definition put_close (st : state) (t : tid) (n : nat) : state := set_close (cput t n (st_close st)) st.
Definition add_close (st : state) (t : tid) (n : nat) : state := put_close st t (cget t (st_close st) + n).

(** spans.clear(idx) = Clear for DataInner, state part: the slot becomes vacant, its parent field is taken
    and its extensions are emptied.  Ghost: the parent's child list loses this span. *)
Definition vacate (st : state) (i : inst) (s : sid) (sl : slot) : state :=
  let st' := upd_slot st i (fst s) (mkSlot false true (s_gen sl) (s_seq sl) None (s_refs sl) [] []) in
  match s_parent sl with
  | Some p => match lookup st' i p with
              | Some pl => upd_slot st' i (fst p) (set_kids pl (filter (fun k => negb (sid_eqb k s)) (s_kids pl)))
              | None => st'
              end
  | None => st'
  end.

(* ------------------------------------------------------------------ slab guards *)
(** handle ids: the user's are even; [phantom q] (odd) names the parent reference that the storage of span q still holds
    after q was reported closed while a guard kept its slot from being cleared *)
Definition phantom (q : nat) : hid := S (2 * q).
Definition gmatch (i : inst) (s : sid) (g : nat * (inst * sid * nat)) : bool :=
  (fst (fst (snd g)) =? i) && sid_eqb (snd (fst (snd g))) s.
Definition guarded (st : state) (i : inst) (s : sid) : bool := existsb (gmatch i s) (st_held st).
Fixpoint gget (k : nat) (g : list (nat * (inst * sid * nat))) : option (inst * sid * nat) :=
  match g with [] => None | (k', v) :: r => if k' =? k then Some v else gget k r end.
Definition lmatch (i : inst) (x : N) (l : inst * sid * nat * option sid) : bool :=
  (fst (fst (fst l)) =? i) && N.eqb (fst (snd (fst (fst l)))) x.
Definition in_limbo (st : state) (i : inst) (x : N) : bool := existsb (lmatch i x) (st_limbo st).
Definition nmatch (i : inst) (x : N) (n : inst * N * nat) : bool := (fst (fst n) =? i) && N.eqb (snd (fst n)) x.
Definition note_at (st : state) (i : inst) (x : N) : option nat :=
  match find (nmatch i x) (st_notes st) with Some n => Some (snd n) | None => None end.
(** the slot's storage is cleared (Clear for DataInner): its note goes.  (Guards on that span cannot exist at this point —
    a guarded span goes to limbo instead —; the model forgets them nevertheless, which keeps the bookkeeping invariants of
    Registry/Guards.v independent of that fact.) *)
Definition drop_note (st : state) (i : inst) (s : sid) : state :=
  set_guards (filter (fun g => negb (gmatch i s g)) (st_held st)) (st_limbo st)
             (filter (fun n => negb (nmatch i (fst s) n)) (st_notes st)) st.
Definition add_limbo (st : state) (l : inst * sid * nat * option sid) : state :=
  set_guards (st_held st) (l :: st_limbo st) (st_notes st) st.

(** Clear for DataInner, whole: vacate, then release the parent THROUGH dispatch::get_default ([casc] is
    Layered::try_close on whatever collector that is).
    With a slab guard on the slot, Pool::clear only MARKS it (from now on lookups fail — [vacate] —) and the storage stays:
    the span goes to [st_limbo]; the reference it holds on its parent becomes the phantom handle [phantom q], released when
    the last guard is dropped ([do_release]); the slot's note stays.  (The freshness test of the phantom id never fails:
    Registry/Guards.v.) *)
Definition clear_slot (casc : state -> inst -> sid -> state * list obs)
           (st : state) (t : tid) (nested : bool) (i : inst) (s : sid) : state * list obs :=
  match lookup st i s with
  | None => (st, [])                                   (* Pool::clear on a key that is not there: no-op *)
  | Some sl =>
    let st' := vacate st i s sl in
    match s_parent sl with
    | None => if guarded st i s then (add_limbo st' (i, s, s_seq sl, None), []) else (drop_note st' i s, [])
    | Some p =>
      if guarded st i s && match hget (phantom (s_seq sl)) (st_handles st) with None => true | Some _ => false end
      then (add_limbo (set_handles ((phantom (s_seq sl), HSpan i p) :: st_handles st') st') (i, s, s_seq sl, Some p), [])
      else
      let st' := drop_note st' i s in
      let d := eff st' t nested in
      let '(st'', o) := match d with
                        | Some j => casc st' j p
                        | None => (st', [])                (* NoCollector::try_close *)
                        end in
      (st'', ORoute i d :: o)
    end
  end.

(** The Layered frames of one closing span, innermost first: on_close, then the frame's CloseGuard drops:
    c := CLOSE_COUNT; CLOSE_COUNT := c - 1; if c == 1 then spans.clear(idx). *)
Fixpoint frames (casc : state -> inst -> sid -> state * list obs) (ls : list nat)
         (st : state) (t : tid) (nested : bool) (i : inst) (s : sid) : state * list obs :=
  match ls with
  | [] => (st, [])
  | l :: ls' =>
    let o := on_close_obs st i l s in
    let c := cget t (st_close st) in
    let st2 := put_close st t (c - 1) in
    let '(st3, o3) := if c =? 1 then clear_slot casc st2 t nested i s else (st2, []) in
    let '(st4, o4) := frames casc ls' st3 t nested i s in
    (st4, o :: o3 ++ o4)
  end.

(** Layered::try_close over the whole stack of instance i:
      per frame start_close (CLOSE_COUNT += 1), Registry::try_close (fetch_sub), and if that took the
      count to zero, the frames above.  [nested]: the call runs inside Registry::exit's get_default closure. *)
Fixpoint close_stack (fuel : nat) (st : state) (t : tid) (nested : bool) (i : inst) (s : sid) : state * list obs :=
  match fuel with
  | O => (set_panicked st, [OFuel])
  | S f =>
    let n := st_layers st i in
    let st0 := add_close st t n in
    match reg_try_close st0 i s with
    | None => (set_panicked (put_close st0 t (cget t (st_close st0) - n)), [OPanic 3])     (* guards unwind *)
    | Some (st1, false) => (put_close st1 t (cget t (st_close st1) - n), [])
    | Some (st1, true) => frames (fun st' j p => close_stack f st' t nested j p) (seq 0 n) st1 t nested i s
    end
  end.

(** Scope iterator (registry/mod.rs): follows stored parent ids while the lookup succeeds. *)
Fixpoint scope_from (fuel : nat) (st : state) (i : inst) (next : option sid) : list nat :=
  match fuel with
  | O => []
  | S f => match next with
           | None => []
           | Some s => match lookup st i s with
                       | None => []
                       | Some sl => s_seq sl :: scope_from f st i (s_parent sl)
                       end
           end
  end.
Definition scope (st : state) (i : inst) (s : sid) : list nat := scope_from (S (st_count st)) st i (Some s).
Definition from_root (l : list nat) : list nat := rev l.     (* collect, then iterate reversed *)

Definition seq_at (st : state) (i : inst) (s : sid) : option nat :=
  match lookup st i s with Some sl => Some (s_seq sl) | None => None end.

(** Context::lookup_current *)
Definition lookup_current (st : state) (i : inst) (t : tid) : option sid := current_span st i t.

Inductive pkind := PRoot | PCtx | PExplicit (h : hid).

Definition fuel_of (st : state) : nat := S (st_count st).

Definition panic (st : state) (k : nat) : state * list obs := (set_panicked st, [OPanic k]).

Definition on_new_obs (st : state) (i : inst) (q : nat) (s : sid) (l : nat) : obs :=
  match lookup st i s with
  | None => OIll 9
  | Some sl =>
    ONew i l q (ext_get l (s_ext sl))
         (match s_parent sl with None => None | Some p => Some (seq_at st i p) end)
  end.

(** on_new_span of the layers, innermost first: observe, then store this layer's extension. *)
Fixpoint new_layers (ls : list nat) (st : state) (i : inst) (q : nat) (s : sid) : state * list obs :=
  match ls with
  | [] => (st, [])
  | l :: r =>
    let o := on_new_obs st i q s l in
    let st1 := match lookup st i s with
               | Some sl => upd_slot st i (fst s) (set_ext sl ((l, q) :: filter (fun p => negb (fst p =? l)) (s_ext sl)))
               | None => st end in
    let '(st2, o2) := new_layers r st1 i q s in (st2, o :: o2)
  end.

Inductive op :=
| ONewSpan (t : tid) (h : hid) (k : pkind) (a : sid)
| OClone (t : tid) (h h' : hid)
| ODrop (t : tid) (h : hid)
| OEnter (t : tid) (h : hid)
| OExit (t : tid) (q : nat)
| OExitH (t : tid) (h : hid)
| OCurrent (t : tid) (h : hid)
| OEvent_ (t : tid) (k : pkind)
| OSetDef (t : tid) (d : option inst)
| OUnsetDef (t : tid)
| OReadTrace (t : tid) (h : hid)
| OHold_ (t : tid) (k : nat) (h : hid)       (* keep the SpanRef of registry.span(&id) under key k *)
| OPoke (t : tid) (k : nat)                  (* write the extension 900 + creation number through guard k *)
| OPeek_ (t : tid) (k : nat)                 (* read it back through guard k *)
| ORelease (t : tid) (k : nat)               (* drop guard k *)
| OEnabled (t : tid) (dis : bool)            (* Collect::enabled for the next callsite: the filtered layer's verdict (dis = disabled) *)
| OFEvent_ (t : tid) (k : pkind)             (* the event of the preceding OEvent_, as the filtered layer sees it *)
| OEventQ (t : tid) (q : nat).               (* an event whose EXPLICIT parent is the retained Id of span number q — possibly stale
                                                (the span has closed, its slot may have been reused) —, as layer 1 and as the
                                                filtered layer see it *)

Definition op_tid (o : op) : tid :=
  match o with
  | ONewSpan t _ _ _ | OClone t _ _ | ODrop t _ | OEnter t _ | OExit t _ | OExitH t _ | OCurrent t _ | OEvent_ t _
  | OSetDef t _ | OUnsetDef t | OReadTrace t _ | OHold_ t _ _ | OPoke t _ | OPeek_ t _ | ORelease t _ | OEnabled t _ | OFEvent_ t _
  | OEventQ t _ => t
  end.

Definition alloc_legal (sl : slot) (a : sid) : bool :=
  negb (s_occ sl) && (negb (s_used sl) || N.ltb (s_gen sl) (snd a)).

(** Registry::new_span + Layered::new_span, on the instance that is the thread's current default. *)
Definition do_new (st : state) (t : tid) (h : hid) (k : pkind) (a : sid) : state * list obs :=
  match hget h (st_handles st) with
  | Some _ => (st, [OIll 1])
  | None =>
    match eff st t false with
    | None => (set_handles ((h, HNone) :: st_handles st) st, [])
    | Some i =>
      (* resolve the parent and clone a reference on it *)
      let pr : (state * option sid * list obs) + nat :=
        match k with
        | PRoot => inl (st, None, [])
        | PCtx => match current_span st i t with
                  | None => inl (st, None, [])
                  | Some c => match clone_span st i c with inl st' => inl (st', Some c, []) | inr e => inr e end
                  end
        | PExplicit hp =>
          match hget hp (st_handles st) with
          | None => inl (st, None, [OIll 2])
          | Some HNone => inl (st, None, [])
          | Some (HSpan j p) =>
            match clone_span st i p with
            | inl st' => inl (st', Some p, if j =? i then [] else [OForeignParent])
            | inr e => inr e
            end
          end
        end in
      match pr with
      | inr e => let '(st', o) := panic st e in
                 (st', (match k with PExplicit hp => match hget hp (st_handles st) with
                                                     | Some (HSpan j _) => if j =? i then [] else [OForeignParent]
                                                     | _ => [] end | _ => [] end) ++ o)
      | inl (st1, parent, o1) =>
        let sl := st_slots st1 i (fst a) in
        if negb (alloc_legal sl a) then (set_panicked st1, o1 ++ [OBadAlloc])
        else
          let q := st_count st1 in
          let st2' := upd_slot st1 i (fst a) (mkSlot true true (snd a) q parent 1%N (s_ext sl) []) in
          let st2 := match parent with                    (* ghost: the parent gains a child *)
                     | Some p => match lookup st2' i p with
                                 | Some pl => upd_slot st2' i (fst p) (set_kids pl (a :: s_kids pl))
                                 | None => st2' end
                     | None => st2' end in
          let pq := match parent with Some p => seq_at st2 i p | None => None end in
          let st3 := set_created (S q) ((i, a, q) :: st_created st2) ((q, pq) :: st_cpar st2) st2 in
          let st4 := set_handles ((h, HSpan i a) :: st_handles st3) st3 in
          let '(st5, o5) := new_layers (seq 0 (st_layers st4 i)) st4 i q a in
          (st5, o1 ++ o5)
      end
    end
  end.

Definition do_clone (st : state) (h h' : hid) : state * list obs :=
  match hget h (st_handles st), hget h' (st_handles st) with
  | None, _ => (st, [OIll 3])
  | _, Some _ => (st, [OIll 1])
  | Some HNone, None => (set_handles ((h', HNone) :: st_handles st) st, [])
  | Some (HSpan i s), None =>
    match clone_span st i s with
    | inl st' => (set_handles ((h', HSpan i s) :: st_handles st') st', [])
    | inr e => panic st e
    end
  end.

Definition do_drop (st : state) (t : tid) (h : hid) : state * list obs :=
  match hget h (st_handles st) with
  | None => (st, [OIll 3])
  | Some HNone => (set_handles (hdel h (st_handles st)) st, [])
  | Some (HSpan i s) =>
    let st1 := set_handles (hdel h (st_handles st)) st in
    close_stack (fuel_of st1) st1 t false i s
  end.

(** Registry::enter (through the span's own dispatch). *)
Definition do_enter (st : state) (t : tid) (h : hid) : state * list obs :=
  match hget h (st_handles st) with
  | None => (st, [OIll 3])
  | Some HNone => (st, [])
  | Some (HSpan i s) =>
    let '(es, fresh) := push i t s (st_entries st) in
    let st1 := set_entries es ((i, t, s) :: st_ene st) st in
    if fresh then match clone_span st1 i s with inl st2 => (st2, []) | inr e => panic st1 e end
    else (st1, [])
  end.

(** Registry::exit (through the span's own dispatch; the release goes through get_default). *)
Definition exit_at (st : state) (t : tid) (i : inst) (s : sid) : state * list obs :=
  match pop i t s (st_entries st) with
  | None => (st, [])
  | Some (es, last) =>
    let st1 := set_entries es (gpop i t s (st_ene st)) st in
    if last then
      let d := eff st1 t false in
      let '(st2, o2) := match d with
                        | Some j => close_stack (fuel_of st1) st1 t true j s
                        | None => (st1, [])
                        end in
      (st2, ORoute i d :: o2)
    else (st1, [])
  end.

(** exit by creation number: the caller kept (Id, Dispatch) of a span whose handles may all be gone *)
Definition do_exit (st : state) (t : tid) (q : nat) : state * list obs :=
  match find_seq q (st_created st) with
  | None => (st, [OIll 4])
  | Some (i, s) => exit_at st t i s
  end.

(** exit through a live handle (Entered / EnteredSpan guard drop) *)
Definition do_exith (st : state) (t : tid) (h : hid) : state * list obs :=
  match hget h (st_handles st) with
  | None => (st, [OIll 3])
  | Some HNone => (st, [])
  | Some (HSpan i s) => exit_at st t i s
  end.

(** Span::current() / SpanTrace::capture(). *)
Definition do_current (st : state) (t : tid) (h : hid) : state * list obs :=
  match hget h (st_handles st) with
  | Some _ => (st, [OIll 1])
  | None =>
    match eff st t false with
    | None => (set_handles ((h, HNone) :: st_handles st) st, [OCur None])
    | Some i =>
      match current_span st i t with
      | None => (set_handles ((h, HNone) :: st_handles st) st, [OCur None])
      | Some c =>
        match clone_span st i c with
        | inl st' => (set_handles ((h, HSpan i c) :: st_handles st') st', [OCur (seq_at st i c)])
        | inr e => panic st e
        end
      end
    end
  end.

Definition dump (st : state) (i : inst) : list (nat * option (list nat)) :=
  map (fun c => (snd c, match lookup st i (snd (fst c)) with
                        | Some _ => Some (scope st i (snd (fst c)))
                        | None => None end))
      (rev (filter (fun c => fst (fst c) =? i) (st_created st))).

(** An event on the current default: what layer 0 sees in on_event. *)
Definition do_event (st : state) (t : tid) (k : pkind) : state * list obs :=
  match eff st t false with
  | None => (st, [])
  | Some i =>
    let es : option sid :=
      match k with
      | PRoot => None
      | PCtx => lookup_current st i t
      | PExplicit hp => match hget hp (st_handles st) with
                        | Some (HSpan _ p) => match lookup st i p with Some _ => Some p | None => None end
                        | _ => None end
      end in
    let sc := match es with Some s => scope st i s | None => [] end in
    (st, [OEvent i (match lookup_current st i t with Some c => seq_at st i c | None => None end)
                 (match es with Some s => seq_at st i s | None => None end)
                 sc (from_root sc) (dump st i)])
  end.

Definition do_setdef (st : state) (t : tid) (d : option inst) : state * list obs :=
  match dget t (st_def st) with
  | Some _ => (set_def (st_scoped st) ((t, d) :: ddel t (st_def st)) st, [])
  | None => (set_def (S (st_scoped st)) ((t, d) :: st_def st) st, [])
  end.
Definition do_unsetdef (st : state) (t : tid) : state * list obs :=
  match dget t (st_def st) with
  | Some _ => (set_def (st_scoped st - 1) (ddel t (st_def st)) st, [])
  | None => (st, [])
  end.

Definition do_readtrace (st : state) (h : hid) : state * list obs :=
  match hget h (st_handles st) with
  | None => (st, [OIll 3])
  | Some HNone => (st, [OTrace (Some [])])
  | Some (HSpan i s) =>
    (st, [OTrace (match lookup st i s with Some _ => Some (scope st i s) | None => None end)])
  end.

(* ------------------------------------------------------------------ slab guards: the operations *)
Definition do_hold (st : state) (k : nat) (h : hid) : state * list obs :=
  match gget k (st_held st), hget h (st_handles st) with
  | Some _, _ => (st, [OIll 1])
  | None, None => (st, [OIll 3])
  | None, Some HNone => (st, [])
  | None, Some (HSpan i s) =>
    match lookup st i s with
    | Some sl => (set_guards ((k, (i, s, s_seq sl)) :: st_held st) (st_limbo st) (st_notes st) st, [OHold (Some (s_seq sl))])
    | None => (st, [OHold None])
    end
  end.

Definition do_poke (st : state) (k : nat) : state * list obs :=
  match gget k (st_held st) with
  | None => (st, [OIll 3])
  | Some (i, s, q) =>
    (set_guards (st_held st) (st_limbo st) ((i, fst s, 900 + q) :: filter (fun n => negb (nmatch i (fst s) n)) (st_notes st)) st, [])
  end.

Definition do_peek (st : state) (k : nat) : state * list obs :=
  match gget k (st_held st) with
  | None => (st, [OIll 3])
  | Some (i, s, q) => (st, [OPeek (note_at st i (fst s))])
  end.

Definition limbo_is (i : inst) (s : sid) (l : inst * sid * nat * option sid) : bool :=
  (fst (fst (fst l)) =? i) && sid_eqb (snd (fst (fst l))) s.

(** dropping a guard; the last guard of a span in limbo runs the deferred Clear for DataInner: the storage is cleared (note
    dropped) and the parent reference is released through dispatch::get_default of THIS thread (not nested) *)
Definition do_release (st : state) (t : tid) (k : nat) : state * list obs :=
  match gget k (st_held st) with
  | None => (st, [OIll 3])
  | Some (i, s, q) =>
    let held' := filter (fun g => negb (fst g =? k)) (st_held st) in
    let st1 := set_guards held' (st_limbo st) (st_notes st) st in
    if guarded st1 i s then (st1, [])
    else match find (limbo_is i s) (st_limbo st1) with
         | None => (st1, [])
         | Some l =>
           let st2 := drop_note (set_guards held' (filter (fun x => negb (limbo_is i s x)) (st_limbo st1)) (st_notes st1) st1) i s in
           match hget (phantom q) (st_handles st2) with
           | Some (HSpan i' p) =>
             let st3 := set_handles (hdel (phantom q) (st_handles st2)) st2 in
             let d := eff st3 t false in
             let '(st4, o4) := match d with
                               | Some j => close_stack (fuel_of st3) st3 t false j p
                               | None => (st3, [])
                               end in
             (st4, ORoute i' d :: o4)
           | _ => (st2, [])
           end
         end
  end.

(* ------------------------------------------------------------------ the per-subscriber-filtered layer *)
Fixpoint vis_get (q : nat) (v : list (nat * bool)) : bool :=
  match v with [] => true | (k, b) :: r => if k =? q then b else vis_get q r end.
(** SpanRef::is_enabled_for(filter) *)
Definition enabled_for (st : state) (i : inst) (s : sid) : bool :=
  match lookup st i s with Some sl => vis_get (s_seq sl) (st_vis st) | None => false end.

(** Context::lookup_current of the filtered layer: the top of the stack if its filter enabled it, else
    lookup_current_filtered = walk the thread's span STACK (non-duplicate entries, most recent first) for the first
    span that exists and that the filter enabled *)
Definition flookup_current (st : state) (i : inst) (t : tid) : option sid :=
  match filter (fun e => mine i t e && negb (e_dup e) && enabled_for st i (e_s e)) (st_entries st) with
  | e :: _ => Some (e_s e)
  | [] => None
  end.

(** the C06-D reading (refuted): the disabled top-of-stack span's nearest enabled ANCESTOR *)
Fixpoint first_enabled_from (fuel : nat) (st : state) (i : inst) (next : option sid) : option sid :=
  match fuel with
  | O => None
  | S f => match next with
           | None => None
           | Some s => match lookup st i s with
                       | None => None
                       | Some sl => if vis_get (s_seq sl) (st_vis st) then Some s else first_enabled_from f st i (s_parent sl)
                       end
           end
  end.
Definition flookup_parent_chain (st : state) (i : inst) (t : tid) : option sid :=
  first_enabled_from (S (st_count st)) st i (current_span st i t).

(** Scope with a filter: disabled spans are skipped, the walk continues through their parents *)
Definition fscope (st : state) (i : inst) (s : sid) : list nat :=
  filter (fun q => vis_get q (st_vis st)) (scope st i s).

Definition do_fevent (st : state) (t : tid) (k : pkind) : state * list obs :=
  match eff st t false with
  | None => (st, [])
  | Some i =>
    let es : option sid :=
      match k with
      | PRoot => None
      | PCtx => flookup_current st i t
      | PExplicit hp => match hget hp (st_handles st) with
                        | Some (HSpan _ p) => if enabled_for st i p then Some p else None
                        | _ => None end
      end in
    let sc := match es with Some s => fscope st i s | None => [] end in
    (st, [OFEvent i (match flookup_current st i t with Some c => seq_at st i c | None => None end)
                  (match es with Some s => seq_at st i s | None => None end) sc (from_root sc)])
  end.

(** Context::event_span for an explicit parent Id: `event.parent().and_then(|id| self.span(id))` — an Id that does not resolve
    in this registry (closed span, recycled slot), or, for the filtered layer, resolves to a span its filter disabled, gives NO
    span: the explicit parent overrides the contextual one, it is never replaced by the current span. *)
Definition explicit_parent (st : state) (i : inst) (p : sid) : option sid :=
  match lookup st i p with Some _ => Some p | None => None end.
Definition explicit_parent_filtered (st : state) (i : inst) (p : sid) : option sid :=
  if enabled_for st i p then Some p else None.

Definition do_eventq (st : state) (t : tid) (q : nat) : state * list obs :=
  match eff st t false with
  | None => (st, [])
  | Some i =>
    let es := match find_seq q (st_created st) with Some (_, p) => explicit_parent st i p | None => None end in
    let fes := match find_seq q (st_created st) with Some (_, p) => explicit_parent_filtered st i p | None => None end in
    let sc := match es with Some s => scope st i s | None => [] end in
    let fsc := match fes with Some s => fscope st i s | None => [] end in
    (st, [OEvent i (match lookup_current st i t with Some c => seq_at st i c | None => None end)
                 (match es with Some s => seq_at st i s | None => None end) sc (from_root sc) (dump st i);
          OFEvent i (match flookup_current st i t with Some c => seq_at st i c | None => None end)
                  (match fes with Some s => seq_at st i s | None => None end) fsc (from_root fsc)])
  end.

Definition do_enabled (st : state) (t : tid) (dis : bool) : state * list obs :=
  (set_filter (if dis then t :: filter (fun x => negb (x =? t)) (st_filtering st) else filter (fun x => negb (x =? t)) (st_filtering st))
              (st_vis st) st, []).

(** Registry::new_span stores the FilterMap of the FILTERING thread-local (and the layers' on_new_span consume it) *)
Definition note_vis (st st' : state) (t : tid) : state :=
  let f := filter (fun x => negb (x =? t)) (st_filtering st') in
  if st_count st <? st_count st'
  then set_filter f ((st_count st, negb (existsb (fun x => x =? t) (st_filtering st))) :: st_vis st') st'
  else set_filter f (st_vis st') st'.

Definition new_with_guards (st : state) (t : tid) (h : hid) (k : pkind) (a : sid) : state * list obs :=
  match eff st t false with
  | Some i =>
    if in_limbo st i (fst a) then (set_panicked st, [OBadAlloc])       (* a marked slot is not handed out *)
    else
      let '(st', ob) := do_new st t h k a in
      let stale := match note_at st i (fst a) with
                   | Some v => if st_count st <? st_count st' then [OStaleNote i (st_count st) v] else []
                   | None => [] end in
      (note_vis st st' t, ob ++ stale)
  | None => let '(st', ob) := do_new st t h k a in (note_vis st st' t, ob)
  end.

Definition odd_hid (h : hid) : bool := Nat.odd h.
Definition op_hids (o : op) : list hid :=
  match o with
  | ONewSpan _ h k _ => h :: match k with PExplicit hp => [hp] | _ => [] end
  | OClone _ h h' => [h; h']
  | ODrop _ h | OEnter _ h | OExitH _ h | OCurrent _ h | OReadTrace _ h | OHold_ _ _ h => [h]
  | OEvent_ _ k | OFEvent_ _ k => match k with PExplicit hp => [hp] | _ => [] end
  | _ => []
  end.

Definition step (st : state) (o : op) : state * list obs :=
  if st_panicked st then (st, [])
  else if existsb odd_hid (op_hids o) then (st, [OIll 7])       (* odd handle ids are reserved for phantom references *)
  else match o with
       | ONewSpan t h k a => new_with_guards st t h k a
       | OClone _ h h' => do_clone st h h'
       | ODrop t h => do_drop st t h
       | OEnter t h => do_enter st t h
       | OExit t q => do_exit st t q
       | OExitH t h => do_exith st t h
       | OCurrent t h => do_current st t h
       | OEvent_ t k => do_event st t k
       | OSetDef t d => do_setdef st t d
       | OUnsetDef t => do_unsetdef st t
       | OReadTrace _ h => do_readtrace st h
       | OHold_ _ k h => do_hold st k h
       | OPoke _ k => do_poke st k
       | OPeek_ _ k => do_peek st k
       | ORelease t k => do_release st t k
       | OEnabled t dis => do_enabled st t dis
       | OFEvent_ t k => do_fevent st t k
       | OEventQ t q => do_eventq st t q
       end.

Fixpoint run (st : state) (h : list op) : state * list (list obs) :=
  match h with
  | [] => (st, [])
  | o :: r => let '(st1, o1) := step st o in
              let '(st2, o2) := run st1 r in (st2, o1 :: o2)
  end.

Definition final (st : state) (h : list op) : state := fst (run st h).
Definition trace (st : state) (h : list op) : list obs := concat (snd (run st h)).

(** Hypotheses of the theorems, as decidable predicates on the model's own trace. *)
Definition route_ok (o : obs) : bool :=
  match o with ORoute own (Some to) => own =? to | ORoute _ None => false | _ => true end.
Definition wf_obs (o : obs) : bool :=
  match o with OIll _ | OForeignParent | OBadAlloc => false | _ => true end.
Definition own_default (tr : list obs) : bool := forallb route_ok tr.
Definition well_formed (tr : list obs) : bool := forallb wf_obs tr.

(* a few summaries printed for the correspondence *)
Definition live_count (st : state) : nat :=
  length (filter (fun c => match lookup st (fst (fst c)) (snd (fst c)) with Some _ => true | None => false end) (st_created st)).

(** The standard configuration of the harness: two instances. *)
Definition cfg_layers (n0 n1 : nat) : inst -> nat := fun i => if i =? 0 then n0 else n1.
Definition run_case (n0 n1 : nat) (g : option inst) (h : list op) : list (list obs) * bool :=
  let r := run (init (cfg_layers n0 n1) g) h in (snd r, st_panicked (fst r)).
