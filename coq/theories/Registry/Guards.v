(** Registry/Guards.v — slab guards (a SpanRef kept across operations): bookkeeping invariants that hold in EVERY reachable
    state (no hypothesis on the history at all), and what they give:
      - a span in limbo (reported closed while a guard keeps its storage) cannot be looked up, and its slot is not handed out;
      - an extension written through a guard sits in a slot that is occupied or in limbo, so a new span never finds one in its
        slot: no [OStaleNote] is ever observed, whatever was poked and whenever the guards were released.
    The invariant of Registry/Inv.v (reference counts, exactly once, children first, ...) is preserved by the guard operations
    too (Run.inv_step), so every theorem of C05Proofs / C06Proofs holds for histories with guards. *)
From Coq Require Import List NArith Bool Arith Lia.
From TV Require Import Registry.Model Registry.Basics Registry.Inv Registry.Close Registry.Steps Registry.NewSpan Registry.Run.
Import ListNotations.
Local Open Scope nat_scope.

Definition occ (st : state) (i : inst) (x : N) : bool := s_occ (st_slots st i x).
Definition limbo_has (st : state) (i : inst) (s : sid) : bool := existsb (limbo_is i s) (st_limbo st).

Record GN (st : state) : Prop := mkGN {
  gn_notes : forall i x v, In (i, x, v) (st_notes st) -> occ st i x = true \/ in_limbo st i x = true;
  gn_held : forall k i s q, In (k, (i, s, q)) (st_held st) -> is_live st i s = true \/ limbo_has st i s = true;
  gn_limbo : forall i s q p, In (i, s, q, p) (st_limbo st) -> occ st i (fst s) = false
}.

Lemma in_limbo_intro : forall st i s q p, In (i, s, q, p) (st_limbo st) -> in_limbo st i (fst s) = true.
Proof.
  intros. unfold in_limbo. apply existsb_exists. exists (i, s, q, p). split; auto.
  unfold lmatch; simpl. rewrite Nat.eqb_refl, N.eqb_refl. reflexivity.
Qed.

Lemma limbo_has_elim : forall st i s, limbo_has st i s = true -> exists q p, In (i, s, q, p) (st_limbo st).
Proof.
  intros st i s H. unfold limbo_has in H. apply existsb_exists in H. destruct H as ([[[i' s'] q] p] & I & M).
  unfold limbo_is in M; simpl in M. apply andb_true_iff in M. destruct M as (A & B). apply Nat.eqb_eq in A; apply sid_eqb_spec in B. subst.
  eauto.
Qed.

Lemma limbo_has_in_limbo : forall st i s, limbo_has st i s = true -> in_limbo st i (fst s) = true.
Proof. intros st i s H. destruct (limbo_has_elim _ _ _ H) as (q & p & I). eapply in_limbo_intro; eauto. Qed.

Lemma live_occ : forall st i s, is_live st i s = true -> occ st i (fst s) = true.
Proof. intros st i s V. apply is_live_true in V. destruct V as (sl & L). pose proof (lookup_some _ _ _ _ L) as (-> & O & _). exact O. Qed.

(** states that agree on the guard bookkeeping, keep every live span live, and do not occupy a limbo slot *)
Lemma GN_mono : forall st st', GN st ->
  st_held st' = st_held st -> st_limbo st' = st_limbo st -> st_notes st' = st_notes st ->
  (forall i x, occ st i x = true -> occ st' i x = true) ->
  (forall i s, is_live st i s = true -> is_live st' i s = true) ->
  (forall i x, in_limbo st i x = true -> occ st' i x = occ st i x) ->
  GN st'.
Proof.
  intros st st' [N H L] Eh El En Mo Lv Li.
  assert (IL : forall i x, in_limbo st' i x = in_limbo st i x) by (intros; unfold in_limbo; rewrite El; reflexivity).
  assert (LH : forall i s, limbo_has st' i s = limbo_has st i s) by (intros; unfold limbo_has; rewrite El; reflexivity).
  constructor.
  - intros i x v. rewrite En. intros I. rewrite IL. destruct (N _ _ _ I); auto.
  - intros k i s q. rewrite Eh. intros I. rewrite LH. destruct (H _ _ _ _ I); auto.
  - intros i s q p. rewrite El. intros I. rewrite Li by (eapply in_limbo_intro; eauto). eapply L; eauto.
Qed.

(** only reference counts / extensions / child lists of live slots changed *)
Lemma GN_shape : forall st st', GN st ->
  st_held st' = st_held st -> st_limbo st' = st_limbo st -> st_notes st' = st_notes st ->
  (forall i x, s_occ (st_slots st' i x) = s_occ (st_slots st i x) /\ s_gen (st_slots st' i x) = s_gen (st_slots st i x)) -> GN st'.
Proof.
  intros st st' G Eh El En SH.
  assert (LV : forall i s, is_live st' i s = is_live st i s).
  { intros. unfold is_live, lookup. destruct (SH i (fst s)) as (-> & ->).
    destruct (s_occ (st_slots st i (fst s)) && N.eqb (s_gen (st_slots st i (fst s))) (snd s)); reflexivity. }
  apply (GN_mono st st' G Eh El En); unfold occ.
  - intros i x H. destruct (SH i x) as (-> & _); auto.
  - intros i s H. rewrite LV; auto.
  - intros i x _. destruct (SH i x) as (-> & _); auto.
Qed.

Lemma shape_upd : forall st i s sl v, lookup st i s = Some sl -> same_shape sl v ->
  forall i' x', s_occ (st_slots (upd_slot st i (fst s) v) i' x') = s_occ (st_slots st i' x') /\
                s_gen (st_slots (upd_slot st i (fst s) v) i' x') = s_gen (st_slots st i' x').
Proof.
  intros st i s sl v L (O & _ & G & _) i' x'. rewrite slots_upd.
  destruct ((i' =? i) && N.eqb x' (fst s)) eqn:E; auto.
  apply andb_true_iff in E. destruct E as (A & B). apply Nat.eqb_eq in A; apply N.eqb_eq in B; subst.
  pose proof (lookup_some _ _ _ _ L) as (<- & _). auto.
Qed.

(* ---------------------------------------------------------------- vacating a slot *)
Lemma vacate_ghost : forall st i s sl, st_held (vacate st i s sl) = st_held st /\ st_limbo (vacate st i s sl) = st_limbo st /\
  st_notes (vacate st i s sl) = st_notes st /\ st_handles (vacate st i s sl) = st_handles st.
Proof.
  intros. unfold vacate. destruct (s_parent sl); [|repeat split].
  match goal with |- context [match ?x with Some _ => _ | None => _ end] => destruct x end; repeat split.
Qed.

Lemma vacate_slots : forall st i s sl, lookup st i s = Some sl -> forall i' x',
  (s_occ (st_slots (vacate st i s sl) i' x') = if (i' =? i) && N.eqb x' (fst s) then false else s_occ (st_slots st i' x')) /\
  ((i' =? i) && N.eqb x' (fst s) = false -> s_gen (st_slots (vacate st i s sl) i' x') = s_gen (st_slots st i' x')).
Proof.
  intros st i s sl L i' x'. unfold vacate.
  set (st1 := upd_slot st i (fst s) (mkSlot false true (s_gen sl) (s_seq sl) None (s_refs sl) [] [])).
  assert (S1 : forall a b, st_slots st1 a b = if (a =? i) && N.eqb b (fst s) then mkSlot false true (s_gen sl) (s_seq sl) None (s_refs sl) [] [] else st_slots st a b)
    by (intros; unfold st1; apply slots_upd).
  assert (R1 : (s_occ (st_slots st1 i' x') = if (i' =? i) && N.eqb x' (fst s) then false else s_occ (st_slots st i' x')) /\
               ((i' =? i) && N.eqb x' (fst s) = false -> s_gen (st_slots st1 i' x') = s_gen (st_slots st i' x'))).
  { rewrite S1. destruct ((i' =? i) && N.eqb x' (fst s)); split; auto; discriminate. }
  destruct (s_parent sl) as [p|]; [|exact R1].
  destruct (lookup st1 i p) as [pl|] eqn:Lp; [|exact R1].
  destruct (shape_upd st1 i p pl (set_kids pl (filter (fun k => negb (sid_eqb k s)) (s_kids pl))) Lp (same_shape_kids _ _) i' x') as (A & B).
  rewrite A, B. exact R1.
Qed.

Lemma is_live_vacate : forall st i s sl, lookup st i s = Some sl -> forall i' s',
  is_live (vacate st i s sl) i' s' = if (i' =? i) && sid_eqb s' s then false else is_live st i' s'.
Proof.
  intros st i s sl L i' s'. destruct (vacate_slots st i s sl L i' (fst s')) as (O & G).
  unfold is_live, lookup. rewrite O.
  destruct ((i' =? i) && N.eqb (fst s') (fst s)) eqn:E.
  - simpl. apply andb_true_iff in E. destruct E as (A & B). apply Nat.eqb_eq in A; apply N.eqb_eq in B. subst i'. rewrite Nat.eqb_refl. simpl.
    destruct (sid_eqb s' s) eqn:Es; auto.
    destruct (s_occ (st_slots st i (fst s')) && N.eqb (s_gen (st_slots st i (fst s'))) (snd s')) eqn:X; auto.
    exfalso. apply sid_eqb_neq in Es. apply Es. apply (lookup_same_idx st i s' s (st_slots st i (fst s')) sl); auto.
    unfold lookup. rewrite X. reflexivity.
  - rewrite (G eq_refl).
    assert (X : (i' =? i) && sid_eqb s' s = false).
    { destruct ((i' =? i) && sid_eqb s' s) eqn:X; auto. apply key_eqb_spec in X. inversion X; subst.
      rewrite Nat.eqb_refl, N.eqb_refl in E. discriminate. }
    rewrite X. destruct (s_occ (st_slots st i' (fst s')) && N.eqb (s_gen (st_slots st i' (fst s'))) (snd s')); reflexivity.
Qed.

(** immediate clear: slot vacant, its note and the guards on the span forgotten *)
Lemma GN_clear_now : forall st i s sl, GN st -> lookup st i s = Some sl -> GN (drop_note (vacate st i s sl) i s).
Proof.
  intros st i s sl [N H L] Lk. destruct (vacate_ghost st i s sl) as (Eh & El & En & _).
  assert (IL : forall a b, in_limbo (drop_note (vacate st i s sl) i s) a b = in_limbo st a b).
  { intros; unfold in_limbo, drop_note; simpl. rewrite El. reflexivity. }
  assert (LH : forall a b, limbo_has (drop_note (vacate st i s sl) i s) a b = limbo_has st a b).
  { intros; unfold limbo_has, drop_note; simpl. rewrite El. reflexivity. }
  assert (OC : forall a b, occ (drop_note (vacate st i s sl) i s) a b = if (a =? i) && N.eqb b (fst s) then false else occ st a b).
  { intros. destruct (vacate_slots st i s sl Lk a b) as (O & _). exact O. }
  assert (LV : forall a b, is_live (drop_note (vacate st i s sl) i s) a b = if (a =? i) && sid_eqb b s then false else is_live st a b).
  { intros. apply (is_live_vacate st i s sl Lk). }
  constructor.
  - intros a b v I. simpl in I. rewrite En in I. apply filter_In in I. destruct I as (I & M).
    rewrite IL, OC. unfold nmatch in M; simpl in M. apply negb_true_iff in M. rewrite M. eapply N; eauto.
  - intros k a s' q I. simpl in I. rewrite Eh in I. apply filter_In in I. destruct I as (I & M).
    rewrite LH, LV. unfold gmatch in M; simpl in M. apply negb_true_iff in M. rewrite M. eapply H; eauto.
  - intros a s' q p I. simpl in I. rewrite El in I. rewrite OC. destruct ((a =? i) && N.eqb (fst s') (fst s)); auto. eapply L; eauto.
Qed.

(** deferred clear: slot vacant, the span goes to limbo, notes and guards stay (a phantom handle may be added) *)
Lemma GN_clear_deferred : forall st i s sl st' p, GN st -> lookup st i s = Some sl ->
  st_slots st' = st_slots (vacate st i s sl) -> st_held st' = st_held st -> st_notes st' = st_notes st ->
  st_limbo st' = (i, s, s_seq sl, p) :: st_limbo st -> GN st'.
Proof.
  intros st i s sl st' p [N H L] Lk Es Eh En El.
  assert (OC : forall a b, occ st' a b = if (a =? i) && N.eqb b (fst s) then false else occ st a b).
  { intros. unfold occ. rewrite Es. destruct (vacate_slots st i s sl Lk a b) as (O & _). exact O. }
  assert (LV : forall a b, is_live st' a b = if (a =? i) && sid_eqb b s then false else is_live st a b).
  { intros. unfold is_live, lookup. rewrite Es. apply (is_live_vacate st i s sl Lk). }
  assert (IL : forall a b, in_limbo st' a b = ((a =? i) && N.eqb b (fst s)) || in_limbo st a b).
  { intros. unfold in_limbo. rewrite El. simpl. unfold lmatch at 1. simpl. rewrite (Nat.eqb_sym i a), (N.eqb_sym (fst s) b). reflexivity. }
  assert (LH : forall a b, limbo_has st' a b = ((a =? i) && sid_eqb b s) || limbo_has st a b).
  { intros. unfold limbo_has. rewrite El. simpl. unfold limbo_is at 1. simpl. rewrite (Nat.eqb_sym i a), (sid_eqb_sym s b). reflexivity. }
  constructor.
  - intros a b v. rewrite En. intros I. rewrite IL, OC. destruct ((a =? i) && N.eqb b (fst s)); simpl; auto. eapply N; eauto.
  - intros k a s' q. rewrite Eh. intros I. rewrite LH, LV. destruct ((a =? i) && sid_eqb s' s); simpl; auto. eapply H; eauto.
  - intros a s' q p'. rewrite El. intros [X|X]; rewrite OC.
    + inversion X; subst. rewrite Nat.eqb_refl, N.eqb_refl. reflexivity.
    + destruct ((a =? i) && N.eqb (fst s') (fst s)); auto. eapply L; eauto.
Qed.

(* ---------------------------------------------------------------- closing *)
Lemma GN_clear_slot : forall casc st t nested i s, GN st ->
  (forall st0 j p, GN st0 -> GN (fst (casc st0 j p))) -> GN (fst (clear_slot casc st t nested i s)).
Proof.
  intros casc st t nested i s G HC. unfold clear_slot.
  destruct (lookup st i s) as [sl|] eqn:L; [|exact G].
  destruct (vacate_ghost st i s sl) as (Eh & El & En & _).
  destruct (s_parent sl) as [p|].
  - match goal with |- context [if ?B then _ else _] => destruct B end.
    + simpl. eapply (GN_clear_deferred st i s sl _ (Some p) G L); simpl; auto. rewrite El. reflexivity.
    + pose proof (GN_clear_now st i s sl G L) as G1.
      destruct (eff (drop_note (vacate st i s sl) i s) t nested) as [j|]; [|exact G1].
      specialize (HC (drop_note (vacate st i s sl) i s) j p G1).
      destruct (casc (drop_note (vacate st i s sl) i s) j p) as [st'' o]. exact HC.
  - destruct (guarded st i s); simpl.
    + eapply (GN_clear_deferred st i s sl _ None G L); simpl; auto. rewrite El. reflexivity.
    + apply GN_clear_now; auto.
Qed.

Lemma GN_put_close : forall st t n, GN st -> GN (put_close st t n).
Proof. intros st t n G. eapply GN_shape; eauto. Qed.

Lemma GN_frames : forall casc ls st t nested i s, GN st ->
  (forall st0 j p, GN st0 -> GN (fst (casc st0 j p))) -> GN (fst (frames casc ls st t nested i s)).
Proof.
  induction ls as [|l r IH]; intros st t nested i s G HC; simpl; [exact G|].
  set (st2 := put_close st t (cget t (st_close st) - 1)).
  assert (G3 : GN (fst (if cget t (st_close st) =? 1 then clear_slot casc st2 t nested i s else (st2, [])))).
  { destruct (cget t (st_close st) =? 1); [apply GN_clear_slot; auto|]; apply GN_put_close; auto. }
  destruct (if cget t (st_close st) =? 1 then clear_slot casc st2 t nested i s else (st2, [])) as [st3 o3]. simpl in G3.
  specialize (IH st3 t nested i s G3 HC). destruct (frames casc r st3 t nested i s) as [st4 o4]. exact IH.
Qed.

Lemma GN_panicked : forall st, GN st -> GN (set_panicked st).
Proof. intros st G. eapply GN_shape; eauto. Qed.

Lemma GN_close_stack : forall fuel st t nested i s, GN st -> GN (fst (close_stack fuel st t nested i s)).
Proof.
  induction fuel as [|f IH]; intros st t nested i s G; simpl; [apply GN_panicked; auto|].
  unfold reg_try_close. change (lookup (add_close st t (st_layers st i)) i s) with (lookup st i s).
  destruct (lookup st i s) as [sl|] eqn:L; simpl.
  - assert (G1 : GN (upd_slot (add_close st t (st_layers st i)) i (fst s) (set_refs sl (if N.eqb (s_refs sl) 0 then MAXU else (s_refs sl - 1)%N)))).
    { eapply GN_shape with (st := st); eauto. intros i' x'.
      apply (shape_upd (add_close st t (st_layers st i)) i s sl _ L (same_shape_refs _ _)). }
    destruct (negb (N.ltb 1 (s_refs sl))).
    + apply GN_frames; auto.
    + simpl. apply GN_put_close; auto.
  - apply GN_panicked. apply GN_put_close. eapply GN_shape; eauto.
Qed.

(* ---------------------------------------------------------------- new_span: which slots change *)
Definition in_limbo_ok (st : state) (t : tid) (a : sid) : Prop :=
  match eff st t false with Some i => in_limbo st i (fst a) = false | None => True end.
Definition shape_eq (st st' : state) : Prop :=
  forall i x, s_occ (st_slots st' i x) = s_occ (st_slots st i x) /\ s_gen (st_slots st' i x) = s_gen (st_slots st i x).
Lemma shape_refl : forall st, shape_eq st st.
Proof. intros st i x; auto. Qed.
Lemma shape_trans : forall a b c, shape_eq a b -> shape_eq b c -> shape_eq a c.
Proof. intros a b c H1 H2 i x. destruct (H1 i x) as (A & B), (H2 i x) as (C & D). split; congruence. Qed.

Definition ghost_eq (st st' : state) : Prop :=
  st_held st' = st_held st /\ st_limbo st' = st_limbo st /\ st_notes st' = st_notes st.
Lemma ghost_refl : forall st, ghost_eq st st.
Proof. intros; repeat split. Qed.
Lemma ghost_trans : forall a b c, ghost_eq a b -> ghost_eq b c -> ghost_eq a c.
Proof. unfold ghost_eq; intros a b c (A & B & C) (D & E & F); repeat split; congruence. Qed.

Lemma new_layers_shape : forall ls st i q s, shape_eq st (fst (new_layers ls st i q s)) /\ ghost_eq st (fst (new_layers ls st i q s)) /\
  st_count (fst (new_layers ls st i q s)) = st_count st.
Proof.
  induction ls as [|l r IH]; intros; simpl; [split; [apply shape_refl | split; [apply ghost_refl | reflexivity]]|].
  match goal with |- context [new_layers r ?S i q s] => destruct (IH S i q s) as (A & B & C); destruct (new_layers r S i q s) as [st2 o2] end.
  simpl in *. destruct (lookup st i s) as [sl|] eqn:L; [|auto].
  split; [|split; [exact B | exact C]].
  eapply shape_trans; [|exact A]. intros i' x'. apply (shape_upd st i s sl _ L (same_shape_ext _ _)).
Qed.

Lemma clone_span_shape : forall st i s st', clone_span st i s = inl st' ->
  shape_eq st st' /\ ghost_eq st st' /\ st_count st' = st_count st /\ exists sl, lookup st i s = Some sl.
Proof.
  unfold clone_span; intros st i s st' H. destruct (lookup st i s) as [sl|] eqn:L; [|discriminate].
  destruct (N.eqb (s_refs sl) 0); inversion H; subst. split; [|split; [repeat split | split; [reflexivity | eauto]]].
  intros i' x'. apply (shape_upd st i s sl _ L (same_shape_refs _ _)).
Qed.

(** do_new: either no slot changes occupancy / generation, or exactly the allocated one — vacant before — becomes occupied
    (and then the creation counter grows) *)
Lemma do_new_slots : forall st t h k a,
  ghost_eq st (fst (do_new st t h k a)) /\
  (shape_eq st (fst (do_new st t h k a)) /\ st_count (fst (do_new st t h k a)) = st_count st \/
   exists i, eff st t false = Some i /\ s_occ (st_slots st i (fst a)) = false /\
     s_occ (st_slots (fst (do_new st t h k a)) i (fst a)) = true /\
     forall i' x', (i' =? i) && N.eqb x' (fst a) = false ->
       s_occ (st_slots (fst (do_new st t h k a)) i' x') = s_occ (st_slots st i' x') /\
       s_gen (st_slots (fst (do_new st t h k a)) i' x') = s_gen (st_slots st i' x')).
Proof.
  intros. rewrite do_new_unfold.
  destruct (hget h (st_handles st)); [split; [apply ghost_refl | left; split; [apply shape_refl | reflexivity]]|].
  destruct (eff st t false) as [i|] eqn:Ef; [|split; [repeat split | left; split; [intros i x; auto | reflexivity]]].
  assert (R : match resolve st i t k with
              | inl (st1, _, _) => shape_eq st st1 /\ ghost_eq st st1 /\ st_count st1 = st_count st
              | inr _ => True end).
  { unfold resolve. destruct k as [| |hp]; try (split; [apply shape_refl | split; [apply ghost_refl | reflexivity]]).
    - destruct (current_span st i t) as [c|]; [|split; [apply shape_refl | split; [apply ghost_refl | reflexivity]]].
      destruct (clone_span st i c) as [st1|] eqn:E; auto. destruct (clone_span_shape _ _ _ _ E) as (A & B & C & _). auto.
    - destruct (hget hp (st_handles st)) as [[|j p]|]; try (split; [apply shape_refl | split; [apply ghost_refl | reflexivity]]).
      destruct (clone_span st i p) as [st1|] eqn:E; auto. destruct (clone_span_shape _ _ _ _ E) as (A & B & C & _). auto. }
  destruct (resolve st i t k) as [[[st1 parent] o1]|e]; [|split; [repeat split | left; split; [intros i' x'; auto | reflexivity]]].
  destruct R as (SH1 & GH1 & CN1). unfold create.
  destruct (alloc_legal (st_slots st1 i (fst a)) a) eqn:AL; simpl negb; cbv iota.
  2:{ simpl. split; [exact GH1 | left; split; [exact SH1 | exact CN1]]. }
  unfold alloc_legal in AL. apply andb_true_iff in AL. destruct AL as (AO & _). apply negb_true_iff in AO.
  match goal with |- context [new_layers ?L ?S ?I ?Q ?A] => set (st4 := S) in * end.
  match goal with |- context [new_layers ?L st4 ?I ?Q ?A] => destruct (new_layers_shape L st4 I Q A) as (SH5 & GH5 & _);
    destruct (new_layers L st4 I Q A) as [st5 o5] end.
  simpl fst in *.
  set (st2' := upd_slot st1 i (fst a) (mkSlot true true (snd a) (st_count st1) parent 1%N (s_ext (st_slots st1 i (fst a))) [])) in *.
  (* st4's slots: st2' possibly with the parent's child list updated *)
  assert (S4 : forall i' x', (s_occ (st_slots st4 i' x') = s_occ (st_slots st2' i' x') /\ s_gen (st_slots st4 i' x') = s_gen (st_slots st2' i' x'))).
  { intros i' x'. unfold st4. simpl st_slots. destruct parent as [p|]; [|auto].
    destruct (lookup st2' i p) as [pl|] eqn:Lp; [|auto]. apply (shape_upd st2' i p pl _ Lp (same_shape_kids _ _)). }
  assert (G4 : ghost_eq st1 st4) by (unfold st4; destruct parent as [p|]; [destruct (lookup st2' i p)|]; repeat split).
  split; [eapply ghost_trans; [exact GH1|]; eapply ghost_trans; [exact G4 | exact GH5]|].
  right. exists i. split; auto. destruct (SH1 i (fst a)) as (O1 & _). split; [congruence|]. split.
  - destruct (SH5 i (fst a)) as (-> & _). destruct (S4 i (fst a)) as (-> & _). unfold st2'. rewrite slots_upd_same. reflexivity.
  - intros i' x' Ne. destruct (SH5 i' x') as (-> & ->). destruct (S4 i' x') as (-> & ->). unfold st2'. rewrite slots_upd, Ne. apply SH1.
Qed.

Lemma GN_new_guards : forall st t h k a, GN st -> GN (fst (new_with_guards st t h k a)).
Proof.
  intros st t h k a G. unfold new_with_guards.
  assert (NV : forall st', GN st' -> GN (note_vis st st' t)).
  { intros st' G'. unfold note_vis. destruct (st_count st <? st_count st'); eapply GN_shape; eauto; intros; auto. }
  destruct (do_new_slots st t h k a) as ((Eh & El & En) & D).
  assert (GD : in_limbo_ok st t a -> GN (fst (do_new st t h k a))).
  { intros IL. destruct D as [(SH & _)|(i & Ef & O0 & O1 & Oth)]; [eapply GN_shape; eauto|].
    apply (GN_mono st _ G Eh El En).
    - intros i' x' H. destruct ((i' =? i) && N.eqb x' (fst a)) eqn:E.
      + apply andb_true_iff in E. destruct E as (A & B). apply Nat.eqb_eq in A; apply N.eqb_eq in B; subst. exact O1.
      + unfold occ. destruct (Oth i' x' E) as (-> & _). exact H.
    - intros i' s' V. destruct ((i' =? i) && N.eqb (fst s') (fst a)) eqn:E.
      + apply andb_true_iff in E. destruct E as (A & B). apply Nat.eqb_eq in A; apply N.eqb_eq in B; subst.
        apply live_occ in V. unfold occ in V. rewrite B in V. congruence.
      + unfold is_live, lookup in *. destruct (Oth i' (fst s') E) as (-> & ->).
        destruct (s_occ (st_slots st i' (fst s')) && N.eqb (s_gen (st_slots st i' (fst s'))) (snd s')); auto.
    - intros i' x' Li. destruct ((i' =? i) && N.eqb x' (fst a)) eqn:E.
      + apply andb_true_iff in E. destruct E as (A & B). apply Nat.eqb_eq in A; apply N.eqb_eq in B; subst.
        unfold in_limbo_ok in IL. rewrite Ef in IL. congruence.
      + unfold occ. destruct (Oth i' x' E) as (-> & _). reflexivity. }
  unfold in_limbo_ok in GD.
  destruct (eff st t false) as [i|].
  - destruct (in_limbo st i (fst a)) eqn:IL; [apply GN_panicked; auto|].
    destruct (do_new st t h k a) as [st' ob]. simpl in *. apply NV. apply GD. reflexivity.
  - destruct (do_new st t h k a) as [st' ob]. simpl in *. apply NV. apply GD. exact I.
Qed.

(* ---------------------------------------------------------------- every step *)
Lemma GN_same_slots : forall st st', GN st -> st_slots st' = st_slots st -> ghost_eq st st' -> GN st'.
Proof. intros st st' G Es (A & B & C). eapply GN_shape; eauto. intros i x. rewrite Es. auto. Qed.

Lemma GN_clone : forall st i s, GN st -> match clone_span st i s with inl st' => GN st' | inr _ => True end.
Proof.
  intros st i s G. destruct (clone_span st i s) as [st'|] eqn:E; auto.
  destruct (clone_span_shape _ _ _ _ E) as (A & (B & C & D) & _). eapply GN_shape; eauto.
Qed.

Lemma GN_exit_at : forall st t i s, GN st -> GN (fst (exit_at st t i s)).
Proof.
  intros st t i s G. unfold exit_at. destruct (pop i t s (st_entries st)) as [[es last]|]; [|exact G].
  set (st1 := set_entries es (gpop i t s (st_ene st)) st).
  assert (G1 : GN st1) by (eapply GN_same_slots; eauto; repeat split).
  destruct last; [|exact G1].
  destruct (eff st1 t false) as [j|]; [|exact G1].
  pose proof (GN_close_stack (fuel_of st1) st1 t true j s G1) as C.
  destruct (close_stack (fuel_of st1) st1 t true j s) as [st2 o2]. exact C.
Qed.

Lemma gget_in : forall k g v, gget k g = Some v -> In (k, v) g.
Proof.
  induction g as [|[k' w] r IH]; simpl; intros v H; [discriminate|].
  destruct (k' =? k) eqn:E; [apply Nat.eqb_eq in E; inversion H; subst; auto | auto].
Qed.

Lemma GN_release : forall st t k, GN st -> GN (fst (do_release st t k)).
Proof.
  intros st t k G. unfold do_release. destruct (gget k (st_held st)) as [[[i s] q]|]; [|exact G].
  set (held' := filter (fun g => negb (fst g =? k)) (st_held st)).
  set (st1 := set_guards held' (st_limbo st) (st_notes st) st).
  assert (G1 : GN st1).
  { destruct G as [N H L]. constructor; auto.
    intros k0 i0 s0 q0 I. simpl in I. apply filter_In in I. destruct I as (I & _). eapply H; eauto. }
  destruct (guarded st1 i s) eqn:GD; [exact G1|].
  destruct (find (limbo_is i s) (st_limbo st1)) as [l|]; [|exact G1].
  (* the last guard of a span in limbo: its storage is cleared *)
  match goal with |- context [hget (phantom q) (st_handles ?S2)] => set (st2 := S2) in * end.
  assert (G2 : GN st2).
  { destruct G1 as [N H L].
    assert (NG : forall g, In g held' -> gmatch i s g = false).
    { intros g Ig. unfold guarded in GD. simpl in GD. destruct (gmatch i s g) eqn:M; auto.
      assert (existsb (gmatch i s) held' = true) by (apply existsb_exists; eauto). congruence. }
    assert (IL : forall a b, in_limbo st2 a b = true -> in_limbo st1 a b = true).
    { intros a b X. unfold in_limbo in *. simpl in *. apply existsb_exists in X. destruct X as (x & Ix & Mx).
      apply filter_In in Ix. destruct Ix as (Ix & _). apply existsb_exists. eauto. }
    constructor.
    - intros a b v I. simpl in I. apply filter_In in I. destruct I as (I & M). simpl in I.
      destruct (N _ _ _ I) as [O|Li]; [left; exact O|]. right.
      (* the limbo entry that justifies this note is not one of the removed ones: those sit at the index whose notes went *)
      unfold in_limbo in *. simpl in *. apply existsb_exists in Li. destruct Li as ([[[i' s'] q'] p'] & Ix & Mx).
      apply existsb_exists. exists (i', s', q', p'). split; auto. apply filter_In. split; auto.
      unfold limbo_is; simpl. unfold lmatch in Mx; simpl in Mx. apply andb_true_iff in Mx. destruct Mx as (A & B).
      apply Nat.eqb_eq in A; apply N.eqb_eq in B. subst a b.
      destruct ((i' =? i) && sid_eqb s' s) eqn:X; auto. apply key_eqb_spec in X. inversion X; subst i' s'.
      unfold nmatch in M; simpl in M. rewrite Nat.eqb_refl, N.eqb_refl in M. discriminate.
    - intros k0 a s0 q0 I. simpl in I. apply filter_In in I. destruct I as (I & M).
      destruct (H _ _ _ _ I) as [V|Lh]; [left; exact V|]. right.
      unfold limbo_has in *. simpl in *. apply existsb_exists in Lh. destruct Lh as (x & Ix & Mx).
      apply existsb_exists. exists x. split; auto. apply filter_In. split; auto.
      destruct x as [[[i' s'] q'] p']. unfold limbo_is in *; simpl in *.
      apply andb_true_iff in Mx. destruct Mx as (A & B). apply Nat.eqb_eq in A; apply sid_eqb_spec in B. subst i' s'.
      unfold gmatch in M; simpl in M. apply negb_true_iff in M. rewrite M. reflexivity.
    - intros a s0 q0 p0 I. simpl in I. apply filter_In in I. destruct I as (I & _). eapply L; eauto. }
  destruct (hget (phantom q) (st_handles st2)) as [[|i' p]|]; try exact G2.
  set (st3 := set_handles (hdel (phantom q) (st_handles st2)) st2).
  assert (G3 : GN st3) by (eapply GN_same_slots; eauto; repeat split).
  destruct (eff st3 t false) as [j|]; [|exact G3].
  pose proof (GN_close_stack (fuel_of st3) st3 t false j p G3) as C.
  destruct (close_stack (fuel_of st3) st3 t false j p) as [st4 o4]. exact C.
Qed.

Lemma GN_step : forall st o, GN st -> GN (fst (step st o)).
Proof.
  intros st o G. unfold step. destruct (st_panicked st); [exact G|].
  destruct (existsb odd_hid (op_hids o)); [exact G|].
  destruct o; simpl.
  - apply GN_new_guards; auto.
  - unfold do_clone. destruct (hget h (st_handles st)) as [[|i s]|]; destruct (hget h' (st_handles st)); try exact G.
    + eapply GN_same_slots; eauto; repeat split.
    + pose proof (GN_clone st i s G) as C. destruct (clone_span st i s); [|apply GN_panicked; exact G]. simpl. eapply GN_same_slots; eauto; repeat split.
  - unfold do_drop. destruct (hget h (st_handles st)) as [[|i s]|]; try exact G.
    + eapply GN_same_slots; eauto; repeat split.
    + apply GN_close_stack. eapply GN_same_slots; eauto; repeat split.
  - unfold do_enter. destruct (hget h (st_handles st)) as [[|i s]|]; try exact G. unfold push.
    set (st1 := set_entries (mkEntry i t s (existsb (same i t s) (st_entries st)) :: st_entries st) ((i, t, s) :: st_ene st) st).
    assert (G1 : GN st1) by (eapply GN_same_slots; eauto; repeat split).
    destruct (negb (existsb (same i t s) (st_entries st))); [|exact G1].
    pose proof (GN_clone st1 i s G1) as C. destruct (clone_span st1 i s); [exact C | apply GN_panicked; exact G1].
  - unfold do_exit. destruct (find_seq q (st_created st)) as [[i s]|]; [apply GN_exit_at; auto | exact G].
  - unfold do_exith. destruct (hget h (st_handles st)) as [[|i s]|]; try exact G. apply GN_exit_at; auto.
  - unfold do_current. destruct (hget h (st_handles st)); [exact G|]. destruct (eff st t false) as [i|].
    + destruct (current_span st i t) as [c|].
      * pose proof (GN_clone st i c G) as C. destruct (clone_span st i c); [|apply GN_panicked; exact G].
        simpl. eapply GN_same_slots; eauto; repeat split.
      * simpl. eapply GN_same_slots; eauto; repeat split.
    + simpl. eapply GN_same_slots; eauto; repeat split.
  - unfold do_event. destruct (eff st t false); exact G.
  - unfold do_setdef. destruct (dget t (st_def st)); simpl; eapply GN_same_slots; eauto; repeat split.
  - unfold do_unsetdef. destruct (dget t (st_def st)); simpl; [eapply GN_same_slots; eauto; repeat split | exact G].
  - unfold do_readtrace. destruct (hget h (st_handles st)) as [[|i s]|]; exact G.
  - (* hold *)
    unfold do_hold. destruct (gget k (st_held st)); [exact G|].
    destruct (hget h (st_handles st)) as [[|i s]|]; try exact G.
    destruct (lookup st i s) as [sl|] eqn:L; [|exact G]. simpl.
    destruct G as [N H Li]. constructor; auto.
    intros k0 i0 s0 q0 [X|X]; [inversion X; subst; left; apply is_live_true; eauto | eapply H; eauto].
  - (* poke *)
    unfold do_poke. destruct (gget k (st_held st)) as [[[i s] q]|] eqn:Gk; [|exact G]. simpl.
    pose proof G as [N H Li]. constructor; auto.
    intros a b v [X|X].
    + inversion X; subst a b v. destruct (H _ _ _ _ (gget_in _ _ _ Gk)) as [V|Lh].
      * left. apply live_occ in V. exact V.
      * right. apply limbo_has_in_limbo in Lh. exact Lh.
    + apply filter_In in X. destruct X as (X & _). eapply N; eauto.
  - unfold do_peek. destruct (gget k (st_held st)) as [[[i s] q]|]; exact G.
  - apply GN_release; auto.
  - unfold do_enabled. simpl. eapply GN_same_slots; eauto; repeat split.
  - unfold do_fevent. destruct (eff st t false); exact G.
  - unfold do_eventq. destruct (eff st t false); exact G.
Qed.

Lemma GN_init : forall layers g, GN (init layers g).
Proof. intros. constructor; simpl; intros; contradiction. Qed.

Lemma GN_final : forall h st, GN st -> GN (final st h).
Proof. induction h as [|o r IH]; intros st G; [exact G|]. rewrite final_cons. apply IH. apply GN_step; auto. Qed.

Theorem GN_history : forall layers g h, GN (final (init layers g) h).
Proof. intros. apply GN_final. apply GN_init. Qed.

(* ---------------------------------------------------------------- what it gives *)
(** a span reported closed while a guard keeps its storage cannot be looked up, and its slot is not occupied *)
Theorem limbo_gone : forall layers g h i s q p, In (i, s, q, p) (st_limbo (final (init layers g) h)) ->
  lookup (final (init layers g) h) i s = None /\ s_occ (st_slots (final (init layers g) h) i (fst s)) = false.
Proof.
  intros layers g h i s q p I. pose proof (gn_limbo _ (GN_history layers g h) _ _ _ _ I) as O. split; auto.
  unfold lookup. unfold occ in O. rewrite O. reflexivity.
Qed.

(** do_new creates a span only in a slot that was vacant *)
Lemma do_new_count : forall st t h k a, st_count st < st_count (fst (do_new st t h k a)) ->
  exists i, eff st t false = Some i /\ s_occ (st_slots st i (fst a)) = false.
Proof.
  intros st t h k a C. destruct (do_new_slots st t h k a) as (_ & [(_ & E)|(i & Ef & O & _)]); [lia | eauto].
Qed.

(** no new span ever finds, in its slot, an extension written through a guard of an earlier occupant — in any history *)
Definition ns (x : obs) : Prop := match x with OStaleNote _ _ _ => False | _ => True end.
Definition NS (l : list obs) : Prop := forall x, In x l -> ns x.
Lemma NS_nil : NS [].
Proof. intros x []. Qed.
Lemma NS_cons : forall x l, ns x -> NS l -> NS (x :: l).
Proof. intros x l A B y [<-|I]; auto. Qed.
Lemma NS_app : forall a b, NS a -> NS b -> NS (a ++ b).
Proof. intros a b A B y I. apply in_app_or in I. destruct I; auto. Qed.
Global Hint Resolve NS_nil NS_cons NS_app : nsdb.

Lemma NS_clear_slot : forall casc st t nested i s, (forall st0 j p, NS (snd (casc st0 j p))) -> NS (snd (clear_slot casc st t nested i s)).
Proof.
  intros casc st t nested i s HC. unfold clear_slot. destruct (lookup st i s) as [sl|]; [|apply NS_nil].
  destruct (s_parent sl) as [p|]; [|destruct (guarded st i s); apply NS_nil].
  match goal with |- context [if ?B then _ else _] => destruct B end; [apply NS_nil|].
  match goal with |- context [eff ?S t nested] => destruct (eff S t nested) as [j|] end.
  - match goal with |- context [casc ?S j p] => specialize (HC S j p); destruct (casc S j p) as [st'' o] end.
    simpl in *. apply NS_cons; [exact I | exact HC].
  - simpl. apply NS_cons; [exact I | apply NS_nil].
Qed.

Lemma NS_frames : forall casc ls st t nested i s, (forall st0 j p, NS (snd (casc st0 j p))) -> NS (snd (frames casc ls st t nested i s)).
Proof.
  induction ls as [|l r IH]; intros st t nested i s HC; simpl; [apply NS_nil|].
  match goal with |- context [if ?B then clear_slot casc ?S2 t nested i s else _] =>
    assert (X : NS (snd (if B then clear_slot casc S2 t nested i s else (S2, [])))) by (destruct B; [apply NS_clear_slot; auto | apply NS_nil]);
    destruct (if B then clear_slot casc S2 t nested i s else (S2, [])) as [st3 o3] end.
  specialize (IH st3 t nested i s HC). destruct (frames casc r st3 t nested i s) as [st4 o4]. simpl in *.
  apply NS_cons; [unfold on_close_obs; destruct (lookup st i s); exact I | apply NS_app; auto].
Qed.

Lemma NS_close_stack : forall fuel st t nested i s, NS (snd (close_stack fuel st t nested i s)).
Proof.
  induction fuel as [|f IH]; intros; simpl; [apply NS_cons; [exact I | apply NS_nil]|].
  unfold reg_try_close. change (lookup (add_close st t (st_layers st i)) i s) with (lookup st i s).
  destruct (lookup st i s) as [sl|]; simpl; [|apply NS_cons; [exact I | apply NS_nil]].
  destruct (negb (N.ltb 1 (s_refs sl))); [|apply NS_nil]. apply NS_frames. intros; apply IH.
Qed.

Lemma NS_exit_at : forall st t i s, NS (snd (exit_at st t i s)).
Proof.
  intros. unfold exit_at. destruct (pop i t s (st_entries st)) as [[es last]|]; [|apply NS_nil].
  destruct last; [|apply NS_nil].
  match goal with |- context [eff ?S t false] => destruct (eff S t false) as [j|] end.
  - match goal with |- context [close_stack ?F ?S t true j s] => pose proof (NS_close_stack F S t true j s) as C; destruct (close_stack F S t true j s) as [st2 o2] end.
    simpl in *. apply NS_cons; [exact I | exact C].
  - simpl. apply NS_cons; [exact I | apply NS_nil].
Qed.

Lemma NS_new_layers : forall ls st i q s, NS (snd (new_layers ls st i q s)).
Proof.
  induction ls as [|l r IH]; intros; simpl; [apply NS_nil|].
  match goal with |- context [new_layers r ?S i q s] => specialize (IH S i q s); destruct (new_layers r S i q s) as [st2 o2] end.
  simpl in *. apply NS_cons; auto. unfold on_new_obs. destruct (lookup st i s); exact I.
Qed.

Lemma NS_do_new : forall st t h k a, NS (snd (do_new st t h k a)).
Proof.
  intros. rewrite do_new_unfold. destruct (hget h (st_handles st)); [apply NS_cons; [exact I | apply NS_nil]|].
  destruct (eff st t false) as [i|]; [|apply NS_nil].
  assert (R : match resolve st i t k with inl (_, _, o1) => NS o1 | inr _ => True end).
  { unfold resolve. destruct k as [| |hp]; try apply NS_nil.
    - destruct (current_span st i t) as [c|]; [destruct (clone_span st i c); auto|]; apply NS_nil.
    - destruct (hget hp (st_handles st)) as [[|j p]|]; try apply NS_nil; try (apply NS_cons; [exact I | apply NS_nil]).
      destruct (clone_span st i p); auto. destruct (j =? i); [apply NS_nil | apply NS_cons; [exact I | apply NS_nil]]. }
  destruct (resolve st i t k) as [[[st1 parent] o1]|e].
  - unfold create. destruct (negb (alloc_legal (st_slots st1 i (fst a)) a)).
    + simpl. apply NS_app; auto. apply NS_cons; [exact I | apply NS_nil].
    + match goal with |- context [new_layers ?L ?S ?I ?Q ?A] => pose proof (NS_new_layers L S I Q A) as NO; destruct (new_layers L S I Q A) as [st5 o5] end.
      simpl in *. apply NS_app; auto.
  - simpl. apply NS_app; [|apply NS_cons; [exact I | apply NS_nil]].
    unfold foreign_note. destruct k; try apply NS_nil. destruct (hget h0 (st_handles st)) as [[|j p]|]; try apply NS_nil.
    destruct (j =? i); [apply NS_nil | apply NS_cons; [exact I | apply NS_nil]].
Qed.

Theorem no_stale_note_step : forall st o, GN st -> NS (snd (step st o)).
Proof.
  intros st o G. unfold step. destruct (st_panicked st); [apply NS_nil|].
  destruct (existsb odd_hid (op_hids o)); [apply NS_cons; [exact I | apply NS_nil]|].
  destruct o; simpl.
  - unfold new_with_guards. pose proof (NS_do_new st t h k a) as ND.
    destruct (eff st t false) as [i0|] eqn:Ef.
    + destruct (in_limbo st i0 (fst a)) eqn:IL; [apply NS_cons; [exact I | apply NS_nil]|].
      destruct (do_new st t h k a) as [st' ob] eqn:D. simpl in *. apply NS_app; auto.
      destruct (note_at st i0 (fst a)) as [v0|] eqn:NA; [|apply NS_nil].
      destruct (st_count st <? st_count st') eqn:C; [|apply NS_nil]. exfalso. apply Nat.ltb_lt in C.
      assert (C' : st_count st < st_count (fst (do_new st t h k a))) by (rewrite D; exact C).
      destruct (do_new_count _ _ _ _ _ C') as (j & Ej & O). rewrite Ef in Ej. inversion Ej; subst j.
      (* a note at a vacant slot that is not in limbo: impossible *)
      unfold note_at in NA. destruct (find (nmatch i0 (fst a)) (st_notes st)) as [[[a1 b1] v1]|] eqn:F; [|discriminate].
      apply find_some in F. destruct F as (In1 & M). unfold nmatch in M; simpl in M.
      apply andb_true_iff in M. destruct M as (A & B). apply Nat.eqb_eq in A; apply N.eqb_eq in B. subst a1 b1.
      destruct (gn_notes _ G _ _ _ In1) as [X|X]; unfold occ in *; congruence.
    + destruct (do_new st t h k a) as [st' ob]. exact ND.
  - unfold do_clone. destruct (hget h (st_handles st)) as [[|i s]|]; destruct (hget h' (st_handles st));
      try apply NS_nil; try (apply NS_cons; [exact I | apply NS_nil]).
    destruct (clone_span st i s); [apply NS_nil | apply NS_cons; [exact I | apply NS_nil]].
  - unfold do_drop. destruct (hget h (st_handles st)) as [[|i s]|]; try apply NS_nil; try (apply NS_cons; [exact I | apply NS_nil]).
    apply NS_close_stack.
  - unfold do_enter. destruct (hget h (st_handles st)) as [[|i s]|]; try apply NS_nil; try (apply NS_cons; [exact I | apply NS_nil]).
    unfold push. destruct (negb (existsb (same i t s) (st_entries st))); [|apply NS_nil].
    match goal with |- context [clone_span ?S i s] => destruct (clone_span S i s) end; [apply NS_nil | apply NS_cons; [exact I | apply NS_nil]].
  - unfold do_exit. destruct (find_seq q (st_created st)) as [[i s]|]; [apply NS_exit_at | apply NS_cons; [exact I | apply NS_nil]].
  - unfold do_exith. destruct (hget h (st_handles st)) as [[|i s]|]; try apply NS_nil; try (apply NS_cons; [exact I | apply NS_nil]). apply NS_exit_at.
  - unfold do_current. destruct (hget h (st_handles st)); [apply NS_cons; [exact I | apply NS_nil]|].
    destruct (eff st t false) as [i|]; [|apply NS_cons; [exact I | apply NS_nil]].
    destruct (current_span st i t) as [c|]; [|apply NS_cons; [exact I | apply NS_nil]].
    destruct (clone_span st i c); apply NS_cons; try exact I; apply NS_nil.
  - unfold do_event. destruct (eff st t false); [apply NS_cons; [exact I | apply NS_nil] | apply NS_nil].
  - unfold do_setdef. destruct (dget t (st_def st)); apply NS_nil.
  - unfold do_unsetdef. destruct (dget t (st_def st)); apply NS_nil.
  - unfold do_readtrace. destruct (hget h (st_handles st)) as [[|i s]|]; apply NS_cons; try exact I; apply NS_nil.
  - unfold do_hold. destruct (gget k (st_held st)); [apply NS_cons; [exact I | apply NS_nil]|].
    destruct (hget h (st_handles st)) as [[|i s]|]; try apply NS_nil; try (apply NS_cons; [exact I | apply NS_nil]).
    destruct (lookup st i s); apply NS_cons; try exact I; apply NS_nil.
  - unfold do_poke. destruct (gget k (st_held st)) as [[[i s] q]|]; [apply NS_nil | apply NS_cons; [exact I | apply NS_nil]].
  - unfold do_peek. destruct (gget k (st_held st)) as [[[i s] q]|]; apply NS_cons; try exact I; apply NS_nil.
  - unfold do_release. destruct (gget k (st_held st)) as [[[i s] q]|]; [|apply NS_cons; [exact I | apply NS_nil]].
    match goal with |- context [if ?B then _ else _] => destruct B end; [apply NS_nil|].
    match goal with |- context [match ?F with Some _ => _ | None => _ end] => destruct F as [l|] end; [|apply NS_nil].
    match goal with |- context [hget (phantom q) (st_handles ?S2)] => destruct (hget (phantom q) (st_handles S2)) as [[|i' p]|] end; try apply NS_nil.
    match goal with |- context [eff ?S t false] => destruct (eff S t false) as [j|] end.
    + match goal with |- context [close_stack ?F ?S t false j p] => pose proof (NS_close_stack F S t false j p) as C; destruct (close_stack F S t false j p) as [st4 o4] end.
      simpl in *. apply NS_cons; [exact I | exact C].
    + simpl. apply NS_cons; [exact I | apply NS_nil].
  - unfold do_enabled. apply NS_nil.
  - unfold do_fevent. destruct (eff st t false); [apply NS_cons; [exact I | apply NS_nil] | apply NS_nil].
  - unfold do_eventq. destruct (eff st t false); [apply NS_cons; [exact I | apply NS_cons; [exact I | apply NS_nil]] | apply NS_nil].
Qed.

Theorem no_stale_note : forall layers g h x, In x (trace (init layers g) h) -> ns x.
Proof.
  intros layers g h. generalize (GN_init layers g). generalize (init layers g).
  induction h as [|o r IH]; intros st G x Ix; [contradiction|].
  rewrite trace_cons in Ix. apply in_app_or in Ix. destruct Ix as [Ix|Ix].
  - eapply no_stale_note_step; eauto.
  - eapply IH; [|exact Ix]. apply GN_step; auto.
Qed.

(** the handle count of the reference-count invariant splits into the user's handles (even ids) and the phantom references
    parked by closes under a guard (odd ids): the "closed children whose storage a guard still keeps" *)
Definition user_handles_n (st : state) (i : inst) (s : sid) : nat :=
  length (filter (fun p => hmatch i s p && negb (odd_hid (fst p))) (st_handles st)).
Definition parked_n (st : state) (i : inst) (s : sid) : nat :=
  length (filter (fun p => hmatch i s p && odd_hid (fst p)) (st_handles st)).
Lemma handles_split : forall st i s, nH st i s = user_handles_n st i s + parked_n st i s.
Proof.
  intros. unfold nH, user_handles_n, parked_n. induction (st_handles st) as [|p r IH]; simpl; auto.
  destruct (hmatch i s p); simpl; auto. destruct (odd_hid (fst p)); simpl; lia.
Qed.

(** non-vacuity: parent P, child C; a guard on C; C's last handle dropped: C is reported closed and unlookupable, P stays
    (its reference is parked); an extension poked through the guard is visible through it; the release clears the
    storage and closes P; the next span reuses C's slot and finds nothing. *)
Definition h_guard : list op :=
  [ OSetDef 0 (Some 0); ONewSpan 0 2 PRoot (0%N, 0%N); ONewSpan 0 4 (PExplicit 2) (1%N, 0%N); ODrop 0 2;
    OHold_ 0 1 4; ODrop 0 4; OPoke 0 1; OPeek_ 0 1 ].
Definition h_guard_end : list op := [ ORelease 0 1; ONewSpan 0 6 PRoot (1%N, 1%N) ].

Example h_guard_ok :
  let st := final (init (fun _ => 2) None) h_guard in
  let tr := trace (init (fun _ => 2) None) h_guard in
  well_formed tr = true /\ own_default tr = true /\
  (closed_n 1 1 tr, closed_n 1 0 tr) = (1, 0) /\ lookup st 0 (1%N, 0%N) = None /\
  st_limbo st = [(0, (1%N, 0%N), 1, Some (0%N, 0%N))] /\ parked_n st 0 (0%N, 0%N) = 1 /\ user_handles_n st 0 (0%N, 0%N) = 0 /\
  In (OPeek (Some 901)) tr /\
  let st' := final (init (fun _ => 2) None) (h_guard ++ h_guard_end) in
  let tr' := trace (init (fun _ => 2) None) (h_guard ++ h_guard_end) in
  well_formed tr' = true /\ own_default tr' = true /\ closed_n 1 0 tr' = 1 /\ st_limbo st' = [] /\ st_notes st' = [] /\
  forallb (fun o => match o with ONew _ _ 2 (Some _) _ | OStaleNote _ _ _ => false | _ => true end) tr' = true /\
  match lookup st' 0 (1%N, 1%N) with Some sl => s_seq sl = 2 | None => False end.
Proof. vm_compute. repeat split; auto. right; right; right; right; right; right; auto 20. Qed.
