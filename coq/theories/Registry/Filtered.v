(** Registry/Filtered.v — a layer behind a per-subscriber filter (C06): its current span, event parent and scope. *)
From Coq Require Import List NArith Bool Arith Lia.
From TV Require Import Registry.Model Registry.Basics Registry.Inv Registry.Close Registry.Steps Registry.NewSpan Registry.Run
                       Registry.C05Proofs Registry.C06Proofs.
Import ListNotations.
Local Open Scope nat_scope.

Lemma filter_filter : forall {A} (f g : A -> bool) l, filter g (filter f l) = filter (fun x => f x && g x) l.
Proof. induction l as [|a r IH]; simpl; auto. destruct (f a); simpl; [destruct (g a); rewrite IH; reflexivity | exact IH]. Qed.

Lemma filter_map_comm : forall {A B} (f : A -> B) (p : B -> bool) l, filter p (map f l) = map f (filter (fun x => p (f x)) l).
Proof. induction l as [|a r IH]; simpl; auto. destruct (p (f a)); simpl; rewrite IH; reflexivity. Qed.

(** the filtered layer's current span = the most recently entered, not yet exited span of the thread THAT ITS FILTER ENABLED
    (a walk over the thread's own enter/exit history, not over the span tree) *)
Theorem flookup_spec : forall pend st tr i t, Inv pend st tr -> NoReentry st i t ->
  flookup_current st i t = hd_error (filter (enabled_for st i) (thread_ene st i t)).
Proof.
  intros pend st tr i t I NR. unfold NoReentry in NR. rewrite (thread_ene_entries _ _ _ _ _ I) in *.
  unfold flookup_current. rewrite filter_map_comm.
  rewrite <- (filter_filter (fun e => mine i t e && negb (e_dup e)) (fun e => enabled_for st i (e_s e))).
  rewrite (nodup_no_dupflag i t _ (i_dups _ _ _ I) NR).
  destruct (filter (fun x => enabled_for st i (e_s x)) (filter (mine i t) (st_entries st))); reflexivity.
Qed.

(** the filtered scope = the enabled members of THE ancestor chain, in chain order; from_root reverses it *)
Theorem fscope_spec : forall pend st tr i s sl, Inv pend st tr -> lookup st i s = Some sl ->
  exists l, chain (cpar_of st) (s_seq sl) l /\
            fscope st i s = filter (fun q => vis_get q (st_vis st)) l /\
            from_root (fscope st i s) = rev (filter (fun q => vis_get q (st_vis st)) l).
Proof.
  intros pend st tr i s sl I L. destruct (scope_spec _ _ _ _ _ _ I L) as (C & _).
  exists (scope st i s). split; auto.
Qed.

(** what the filtered layer sees inside on_event *)
Theorem fevent_spec : forall st t k i, st_panicked st = false -> existsb odd_hid (op_hids (OFEvent_ t k)) = false ->
  eff st t false = Some i ->
  let es := match k with
            | PRoot => None
            | PCtx => flookup_current st i t
            | PExplicit hp => match hget hp (st_handles st) with
                              | Some (HSpan _ p) => if enabled_for st i p then Some p else None
                              | _ => None end
            end in
  step st (OFEvent_ t k) =
    (st, [OFEvent i (match flookup_current st i t with Some c => seq_at st i c | None => None end)
                  (match es with Some s => seq_at st i s | None => None end)
                  (match es with Some s => fscope st i s | None => [] end)
                  (rev (match es with Some s => fscope st i s | None => [] end))]).
Proof. intros st t k i NP OH Ef. unfold step. rewrite NP, OH. unfold do_fevent. rewrite Ef. reflexivity. Qed.

(** the FilterMap bit of a span is the verdict Collect::enabled left in the FILTERING thread-local of the creating thread *)
Theorem vis_at_creation : forall st t h k a, st_panicked st = false -> existsb odd_hid (op_hids (ONewSpan t h k a)) = false ->
  st_count st < st_count (fst (step st (ONewSpan t h k a))) ->
  vis_get (st_count st) (st_vis (fst (step st (ONewSpan t h k a)))) = negb (existsb (fun x => x =? t) (st_filtering st)).
Proof.
  intros st t h k a NP OH C. unfold step in *. rewrite NP, OH in *. unfold new_with_guards in *.
  assert (X : forall st', st_count st < st_count (note_vis st st' t) ->
              vis_get (st_count st) (st_vis (note_vis st st' t)) = negb (existsb (fun x => x =? t) (st_filtering st))).
  { intros st' C'. unfold note_vis in *. destruct (st_count st <? st_count st') eqn:E; simpl in *.
    - rewrite Nat.eqb_refl. reflexivity.
    - apply Nat.ltb_ge in E. lia. }
  destruct (eff st t false) as [i|].
  - destruct (in_limbo st i (fst a)); [simpl in C; lia|]. destruct (do_new st t h k a) as [st' ob]. simpl in *. apply X; auto.
  - destruct (do_new st t h k a) as [st' ob]. simpl in *. apply X; auto.
Qed.

(* ---------------------------------------------------------------- the parent-chain reading is refuted *)
(** INFO span `request` (root) entered; DEBUG explicit-root span `connection` entered inside it: the stack walk finds
    `request`, the parent-chain walk (seeded mutant C06-D) finds nothing.  On another thread only a DEBUG child of the INFO
    span `job` is entered: the stack walk finds nothing, the parent-chain walk reports `job`, which this thread never entered. *)
Definition h_outchain : list op :=
  [ OSetDef 0 (Some 0); OSetDef 1 (Some 0);
    ONewSpan 0 2 PRoot (0%N, 0%N); OEnter 0 2; OEnabled 0 true; ONewSpan 0 4 PRoot (1%N, 0%N); OEnter 0 4;
    ONewSpan 0 6 PRoot (2%N, 0%N); OEnabled 0 true; ONewSpan 0 8 (PExplicit 6) (3%N, 0%N); OEnter 1 8 ].

Example parent_chain_reading_differs :
  let st := final (init (fun _ => 2) None) h_outchain in
  well_formed (trace (init (fun _ => 2) None) h_outchain) = true /\ own_default (trace (init (fun _ => 2) None) h_outchain) = true /\
  NoReentry st 0 0 /\ NoReentry st 0 1 /\
  map (fun q => vis_get q (st_vis st)) [0; 1; 2; 3] = [true; false; true; false] /\
  flookup_current st 0 0 = Some (0%N, 0%N) /\ flookup_parent_chain st 0 0 = None /\
  flookup_current st 0 1 = None /\ flookup_parent_chain st 0 1 = Some (2%N, 0%N) /\
  fscope st 0 (3%N, 0%N) = [2] /\ scope st 0 (3%N, 0%N) = [3; 2].
Proof.
  split; [vm_compute; reflexivity|]. split; [vm_compute; reflexivity|]. split; [|split].
  - unfold NoReentry. replace (thread_ene (final (init (fun _ => 2) None) h_outchain) 0 0) with [(1%N, 0%N); (0%N, 0%N)] by (vm_compute; reflexivity).
    repeat constructor; simpl; intuition discriminate.
  - unfold NoReentry. replace (thread_ene (final (init (fun _ => 2) None) h_outchain) 0 1) with [(3%N, 0%N)] by (vm_compute; reflexivity).
    repeat constructor; simpl; intuition.
  - vm_compute. repeat split.
Qed.

Theorem parent_chain_reading_refuted :
  exists layers g h i t, Config_ok layers /\ WellFormed layers g h /\ OwnDefault layers g h /\
    NoReentry (final (init layers g) h) i t /\
    flookup_parent_chain (final (init layers g) h) i t <>
    hd_error (filter (enabled_for (final (init layers g) h) i) (thread_ene (final (init layers g) h) i t)).
Proof.
  exists (fun _ => 2), None, h_outchain, 0, 0. destruct parent_chain_reading_differs as (W & O & N0 & _ & _ & _ & P & _).
  split; [intros j; auto|]. split; [exact W|]. split; [exact O|]. split; [exact N0|].
  rewrite P. vm_compute. discriminate.
Qed.

(* ---------------------------------------------------------------- for every history *)
Theorem flookup_history : forall layers g h, Config_ok layers -> WellFormed layers g h -> OwnDefault layers g h ->
  forall i t, NoReentry (final (init layers g) h) i t ->
  flookup_current (final (init layers g) h) i t =
  hd_error (filter (enabled_for (final (init layers g) h) i) (thread_ene (final (init layers g) h) i t)).
Proof. intros layers g h HL HW HO i t. apply (flookup_spec _ _ _ i t (H_inv layers g h HL HW HO)). Qed.

Theorem fscope_history : forall layers g h, Config_ok layers -> WellFormed layers g h -> OwnDefault layers g h ->
  forall i s sl, lookup (final (init layers g) h) i s = Some sl ->
  exists l, chain (cpar_of (final (init layers g) h)) (s_seq sl) l /\
            fscope (final (init layers g) h) i s = filter (fun q => vis_get q (st_vis (final (init layers g) h))) l /\
            from_root (fscope (final (init layers g) h) i s) = rev (filter (fun q => vis_get q (st_vis (final (init layers g) h))) l).
Proof. intros layers g h HL HW HO i s sl. apply (fscope_spec _ _ _ i s sl (H_inv layers g h HL HW HO)). Qed.

(* ---------------------------------------------------------------- an explicit parent that does not resolve *)
(** an event with an EXPLICIT parent Id (the retained Id of span number q, possibly stale): the explicit parent overrides the
    contextual one — if the Id does not resolve in this registry (the span has closed; its slot may have been recycled) the
    event has NO span and an empty scope, whatever the thread's current span is; the same for the filtered layer when the
    Id resolves to a span its filter disabled *)
Theorem eventq_unresolved : forall st t q i j p, st_panicked st = false -> eff st t false = Some i ->
  find_seq q (st_created st) = Some (j, p) ->
  (lookup st i p = None -> exists cur d fo, step st (OEventQ t q) = (st, [OEvent i cur None [] [] d; fo])) /\
  (enabled_for st i p = false -> exists eo cur, step st (OEventQ t q) = (st, [eo; OFEvent i cur None [] []])).
Proof.
  intros st t q i j p NP Ef F. unfold step. rewrite NP. simpl. unfold do_eventq. rewrite Ef, F. split.
  - intros L. unfold explicit_parent. rewrite L. simpl. eauto.
  - intros E. unfold explicit_parent_filtered. rewrite E. simpl. eauto.
Qed.

Theorem eventq_resolved : forall st t q i j p, st_panicked st = false -> eff st t false = Some i ->
  find_seq q (st_created st) = Some (j, p) -> lookup st i p <> None -> enabled_for st i p = true ->
  exists cur fcur d, step st (OEventQ t q) =
    (st, [OEvent i cur (seq_at st i p) (scope st i p) (rev (scope st i p)) d;
          OFEvent i fcur (seq_at st i p) (fscope st i p) (rev (fscope st i p))]).
Proof.
  intros st t q i j p NP Ef F L E. unfold step. rewrite NP. simpl. unfold do_eventq. rewrite Ef, F.
  unfold explicit_parent, explicit_parent_filtered. rewrite E. destruct (lookup st i p); [|congruence]. simpl. eauto.
Qed.

(** the same through a handle (OEvent_ / OFEvent_ with PExplicit) *)
Theorem event_parent_unresolved : forall st i t hp,
  match hget hp (st_handles st) with Some (HSpan _ p) => lookup st i p = None | _ => True end ->
  event_parent st i t (PExplicit hp) = None.
Proof.
  intros st i t hp H. unfold event_parent. destruct (hget hp (st_handles st)) as [[|j p]|]; auto. rewrite H. reflexivity.
Qed.

(** and, along every history: once a span has been reported closed its Id never resolves again *)
Theorem closed_parent_unresolved : forall layers g h, Config_ok layers -> WellFormed layers g h -> OwnDefault layers g h ->
  forall i p q l, In (i, p, q) (st_created (final (init layers g) h)) -> closed_n l q (trace (init layers g) h) = 1 ->
  explicit_parent (final (init layers g) h) i p = None /\ explicit_parent_filtered (final (init layers g) h) i p = None.
Proof.
  intros layers g h HL HW HO i p q l Ic C.
  assert (L : lookup (final (init layers g) h) i p = None) by (eapply (gone_after _ _ (H_inv layers g h HL HW HO)); eauto).
  unfold explicit_parent, explicit_parent_filtered, enabled_for. rewrite L. auto.
Qed.
