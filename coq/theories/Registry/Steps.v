(** Registry/Steps.v — every operation preserves the invariant (histories in WF and OwnDefault). *)
From Coq Require Import List NArith Bool Arith Lia.
From TV Require Import Registry.Model Registry.Basics Registry.Inv Registry.Close.
Import ListNotations.
Local Open Scope nat_scope.

Lemma set_refs_id : forall sl, set_refs sl (s_refs sl) = sl.
Proof. destruct sl; reflexivity. Qed.

Lemma slots_same_refs_only : forall st i' x', exists r0, st_slots st i' x' = set_refs (st_slots st i' x') r0.
Proof. intros; exists (s_refs (st_slots st i' x')). symmetry; apply set_refs_id. Qed.

Lemma slots_refs_upd : forall st i s sl r i' x', lookup st i s = Some sl ->
  exists r0, (if (i' =? i) && N.eqb x' (fst s) then set_refs sl r else st_slots st i' x') = set_refs (st_slots st i' x') r0.
Proof.
  intros st i s sl r i' x' L. destruct ((i' =? i) && N.eqb x' (fst s)) eqn:E.
  - apply andb_true_iff in E. destruct E as (Ea & Eb). apply Nat.eqb_eq in Ea; apply N.eqb_eq in Eb; subst.
    pose proof (lookup_some _ _ _ _ L) as (<- & _). eauto.
  - apply slots_same_refs_only.
Qed.

(* counting *)
Lemma filter_split_count : forall {A} (f : A -> bool) l1 e l2,
  length (filter f (l1 ++ e :: l2)) = length (filter f (l1 ++ l2)) + (if f e then 1 else 0).
Proof. intros; rewrite !filter_app, !app_length; simpl. destruct (f e); simpl; lia. Qed.

Lemma filter_hdel_count : forall (f : hid * hval -> bool) h v hs, NoDup (map fst hs) -> In (h, v) hs ->
  length (filter f hs) = length (filter f (hdel h hs)) + (if f (h, v) then 1 else 0).
Proof.
  induction hs as [|[k w] r IH]; simpl; intros ND I; [contradiction|]. inversion ND; subst.
  destruct I as [I|I].
  - inversion I; subst. rewrite Nat.eqb_refl; simpl.
    assert (E : hdel h r = r).
    { unfold hdel. rewrite (filter_ext_in' _ (fun _ => true)).
      - clear; induction r; simpl; auto. f_equal; auto.
      - intros x Ix. apply negb_true_iff, Nat.eqb_neq. intros <-. apply H1. apply in_map; auto. }
    fold (hdel h r). rewrite E. destruct (f (h, v)); simpl; lia.
  - destruct (k =? h) eqn:E.
    + apply Nat.eqb_eq in E; subst. exfalso; apply H1. change h with (fst (h, v)); apply in_map; auto.
    + simpl. fold (hdel h r). destruct (f (k, w)); simpl; rewrite IH; auto.
Qed.

Lemma dups_ok_pop : forall i t s es es' b, dups_ok es -> pop i t s es = Some (es', b) -> dups_ok es'.
Proof.
  induction es as [|e r IH]; simpl; intros es' b D P; [discriminate|]. destruct D as (D1 & D2).
  destruct (same i t s e) eqn:E.
  - inversion P; subst; auto.
  - destruct (pop i t s r) as [[r' b']|] eqn:Pr; [|discriminate]. inversion P; subst. simpl. split; eauto.
    rewrite D1. destruct (pop_spec _ _ _ _ _ _ Pr) as (l1 & e0 & l2 & -> & -> & S0 & _ & _).
    rewrite !existsb_app. simpl.
    replace (same (e_i e) (e_t e) (e_s e) e0) with false; auto.
    symmetry. apply same_spec in S0. destruct S0 as (A & B & C).
    destruct (same (e_i e) (e_t e) (e_s e) e0) eqn:X; auto.
    apply same_spec in X. destruct X as (A' & B' & C').
    assert (same i t s e = true) by (apply same_spec; repeat split; congruence). congruence.
Qed.

(** a state that differs from [st] only in reference counts and the user-side lists *)
Ltac ro_fields := split; [|repeat split].

Lemma Inv_unchanged : forall pend st st' tr, Inv pend st tr ->
  st_slots st' = st_slots st -> st_layers st' = st_layers st -> st_count st' = st_count st ->
  st_created st' = st_created st -> st_cpar st' = st_cpar st -> st_panicked st' = st_panicked st ->
  st_close st' = st_close st -> st_handles st' = st_handles st -> st_entries st' = st_entries st -> st_ene st' = st_ene st ->
  Inv pend st' tr.
Proof.
  intros pend st st' tr I Es El En Ec Ep Ek Ecl Eh Ee Eg.
  eapply Inv_refs_only; eauto.
  - ro_fields; auto. intros; rewrite Es; apply slots_same_refs_only.
  - intros; rewrite Ecl; apply (i_close0 _ _ _ I).
  - rewrite Eh; apply (i_hnodup _ _ _ I).
  - rewrite Eh; apply (i_handles _ _ _ I).
  - rewrite Ee; apply (i_entries _ _ _ I).
  - rewrite Ee; apply (i_dups _ _ _ I).
  - rewrite Eg, Ee; apply (i_ene _ _ _ I).
  - intros i s sl L. rewrite Es. pose proof (lookup_some _ _ _ _ L) as (<- & _).
    unfold nH, nE. rewrite Eh, Ee. split; [apply (i_refs _ _ _ I _ _ _ L) | apply (i_pos _ _ _ I _ _ _ L)].
Qed.

(* ---------------------------------------------------------------- ops that do not touch the registry *)
Lemma inv_setdef : forall st tr t d st' ob, Inv None st tr -> do_setdef st t d = (st', ob) -> Inv None st' (tr ++ ob).
Proof.
  intros st tr t d st' ob I H. unfold do_setdef in H.
  destruct (dget t (st_def st)); inversion H; subst; rewrite app_nil_r; eapply Inv_unchanged; eauto.
Qed.

Lemma inv_unsetdef : forall st tr t st' ob, Inv None st tr -> do_unsetdef st t = (st', ob) -> Inv None st' (tr ++ ob).
Proof.
  intros st tr t st' ob I H. unfold do_unsetdef in H.
  destruct (dget t (st_def st)); inversion H; subst; rewrite app_nil_r; auto. eapply Inv_unchanged; eauto.
Qed.

Lemma inv_event : forall st tr t k st' ob, Inv None st tr -> do_event st t k = (st', ob) -> Inv None st' (tr ++ ob).
Proof.
  intros st tr t k st' ob I H. unfold do_event in H.
  destruct (eff st t false); inversion H; subst; [|rewrite app_nil_r; auto].
  apply Inv_inert; auto. intros o [<-|[]]. split; simpl; auto.
Qed.

Lemma inv_readtrace : forall st tr h st' ob, Inv None st tr -> do_readtrace st h = (st', ob) -> forallb wf_obs ob = true -> Inv None st' (tr ++ ob).
Proof.
  intros st tr h st' ob I H W. unfold do_readtrace in H.
  destruct (hget h (st_handles st)) as [[|i s]|]; inversion H; subst; try (simpl in W; discriminate);
    (apply Inv_inert; auto; intros o [<-|[]]; split; simpl; auto).
Qed.

(* ---------------------------------------------------------------- clone_span *)
Lemma nH_cons : forall st h v i s, nH (set_handles ((h, v) :: st_handles st) st) i s = (if hmatch i s (h, v) then 1 else 0) + nH st i s.
Proof. intros; unfold nH; simpl. destruct (hmatch i s (h, v)); reflexivity. Qed.

Lemma clone_span_ok : forall pend st tr i s, Inv pend st tr -> is_live st i s = true ->
  exists sl, lookup st i s = Some sl /\ clone_span st i s = inl (upd_slot st i (fst s) (set_refs sl (s_refs sl + 1)%N)).
Proof.
  intros pend st tr i s I V. apply is_live_true in V. destruct V as (sl & L). exists sl. split; auto.
  unfold clone_span. rewrite L. pose proof (i_pos _ _ _ I _ _ _ L).
  replace (N.eqb (s_refs sl) 0) with false by (symmetry; apply N.eqb_neq; lia). reflexivity.
Qed.

(** a new handle on a live span, with the count incremented *)
Lemma inv_add_handle : forall st tr i s sl h, Inv None st tr -> lookup st i s = Some sl -> hget h (st_handles st) = None ->
  let st1 := upd_slot st i (fst s) (set_refs sl (s_refs sl + 1)%N) in
  Inv None (set_handles ((h, HSpan i s) :: st_handles st1) st1) tr.
Proof.
  intros st tr i s sl h I L F st1.
  eapply Inv_refs_only with (st := st); eauto.
  - ro_fields; auto. intros i' x'. simpl. eapply slots_refs_upd; eauto.
  - apply (i_close0 _ _ _ I).
  - simpl. constructor; [apply hget_none; auto | apply (i_hnodup _ _ _ I)].
  - simpl. intros h0 i0 s0 [X|X]; [inversion X; subst; apply is_live_true; eauto | eapply i_handles; eauto].
  - apply (i_entries _ _ _ I).
  - apply (i_dups _ _ _ I).
  - apply (i_ene _ _ _ I).
  - intros i' s' y Ly. simpl st_slots.
    change (nE _ i' s') with (nE st i' s').
    change (nH _ i' s') with (nH (set_handles ((h, HSpan i s) :: st_handles st) st) i' s'). rewrite nH_cons.
    rewrite pendn_none. unfold hmatch; simpl snd.
    destruct ((i' =? i) && N.eqb (fst s') (fst s)) eqn:E.
    + apply andb_true_iff in E. destruct E as (Ea & Eb). apply Nat.eqb_eq in Ea; apply N.eqb_eq in Eb; subst i'.
      assert (s' = s) by (eapply lookup_same_idx; eauto). subst s'. rewrite L in Ly; inversion Ly; subst y.
      rewrite Nat.eqb_refl, sid_eqb_refl. simpl. rewrite (i_refs _ _ _ I _ _ _ L), pendn_none. split; lia.
    + pose proof (lookup_some _ _ _ _ Ly) as (Ey & _). rewrite <- Ey.
      replace ((i =? i') && sid_eqb s s') with false.
      * simpl. split; [rewrite (i_refs _ _ _ I _ _ _ Ly), pendn_none; auto | eapply i_pos; eauto].
      * symmetry. destruct ((i =? i') && sid_eqb s s') eqn:E2; auto. apply andb_true_iff in E2. destruct E2 as (Ea & Eb).
        apply Nat.eqb_eq in Ea; apply sid_eqb_spec in Eb; subst. rewrite Nat.eqb_refl, N.eqb_refl in E; discriminate.
Qed.

Lemma inv_add_none_handle : forall st tr h, Inv None st tr -> hget h (st_handles st) = None ->
  Inv None (set_handles ((h, HNone) :: st_handles st) st) tr.
Proof.
  intros st tr h I F.
  eapply Inv_refs_only with (st := st); eauto.
  - ro_fields; auto. intros; simpl; apply slots_same_refs_only.
  - apply (i_close0 _ _ _ I).
  - simpl. constructor; [apply hget_none; auto | apply (i_hnodup _ _ _ I)].
  - simpl. intros h0 i0 s0 [X|X]; [inversion X | eapply i_handles; eauto].
  - apply (i_entries _ _ _ I).
  - apply (i_dups _ _ _ I).
  - apply (i_ene _ _ _ I).
  - intros i' s' y Ly. simpl st_slots. change (nE _ i' s') with (nE st i' s'). rewrite nH_cons. simpl.
    pose proof (lookup_some _ _ _ _ Ly) as (Ey & _). rewrite <- Ey.
    split; [apply (i_refs _ _ _ I _ _ _ Ly) | apply (i_pos _ _ _ I _ _ _ Ly)].
Qed.

Lemma inv_clone : forall st tr h h' st' ob, Inv None st tr -> do_clone st h h' = (st', ob) -> forallb wf_obs ob = true ->
  Inv None st' (tr ++ ob).
Proof.
  intros st tr h h' st' ob I H W. unfold do_clone in H.
  destruct (hget h (st_handles st)) as [[|i s]|] eqn:Hh.
  - destruct (hget h' (st_handles st)) eqn:Hh'; inversion H; subst; [simpl in W; discriminate|].
    rewrite app_nil_r. apply inv_add_none_handle; auto.
  - destruct (hget h' (st_handles st)) eqn:Hh'; [inversion H; subst; simpl in W; discriminate|].
    pose proof (i_handles _ _ _ I _ _ _ (hget_in _ _ _ Hh)) as V.
    destruct (clone_span_ok _ _ _ _ _ I V) as (sl & L & CE). rewrite CE in H. inversion H; subst.
    rewrite app_nil_r. apply inv_add_handle; auto.
  - destruct (hget h' (st_handles st)); inversion H; subst; simpl in W; discriminate.
Qed.

Lemma current_span_live : forall st i t c, current_span st i t = Some c -> is_live st i c = true.
Proof.
  intros st i t c H. unfold current_span in H. destruct (current i t (st_entries st)) as [s|]; [|discriminate].
  destruct (lookup st i s) eqn:L; inversion H; subst. apply is_live_true; eauto.
Qed.

Lemma inv_current : forall st tr t h st' ob, Inv None st tr -> do_current st t h = (st', ob) -> forallb wf_obs ob = true ->
  Inv None st' (tr ++ ob).
Proof.
  intros st tr t h st' ob I H W. unfold do_current in H.
  assert (IN : forall x, inert (OCur x)) by (intros; split; simpl; auto).
  destruct (hget h (st_handles st)) eqn:Hh; [inversion H; subst; simpl in W; discriminate|].
  destruct (eff st t false) as [i|].
  - destruct (current_span st i t) as [c|] eqn:Cs.
    + destruct (clone_span_ok _ _ _ _ _ I (current_span_live _ _ _ _ Cs)) as (sl & L & CE). rewrite CE in H.
      inversion H; subst. apply Inv_inert; [apply inv_add_handle; auto | intros o [<-|[]]; auto].
    + inversion H; subst. apply Inv_inert; [apply inv_add_none_handle; auto | intros o [<-|[]]; auto].
  - inversion H; subst. apply Inv_inert; [apply inv_add_none_handle; auto | intros o [<-|[]]; auto].
Qed.

(* ---------------------------------------------------------------- enter *)
Lemma inv_enter : forall st tr t h st' ob, Inv None st tr -> do_enter st t h = (st', ob) -> forallb wf_obs ob = true ->
  Inv None st' (tr ++ ob).
Proof.
  intros st tr t h st' ob I H W. unfold do_enter in H.
  destruct (hget h (st_handles st)) as [[|i s]|] eqn:Hh; try (inversion H; subst; try (simpl in W; discriminate); rewrite app_nil_r; auto; fail).
  pose proof (i_handles _ _ _ I _ _ _ (hget_in _ _ _ Hh)) as V.
  unfold push in H.
  set (dup := existsb (same i t s) (st_entries st)) in *.
  set (e := mkEntry i t s dup) in *.
  set (st1 := set_entries (e :: st_entries st) ((i, t, s) :: st_ene st) st) in *.
  assert (DU : dups_ok (e :: st_entries st)) by (simpl; split; [reflexivity | apply (i_dups _ _ _ I)]).
  assert (EN : st_ene st1 = map (fun e => (e_i e, e_t e, e_s e)) (st_entries st1)) by (simpl; rewrite (i_ene _ _ _ I); reflexivity).
  assert (EL : forall x, In x (st_entries st1) -> is_live st (e_i x) (e_s x) = true).
  { simpl. intros x [<-|X]; auto. apply (i_entries _ _ _ I); auto. }
  assert (NE : forall i' s', nE st1 i' s' = (if ematch i' s' e then 1 else 0) + nE st i' s').
  { intros; unfold nE; simpl. destruct (ematch i' s' e); reflexivity. }
  destruct (negb dup) eqn:Ed.
  - (* first entry on this thread: clone a reference *)
    destruct (clone_span_ok _ _ _ _ _ I V) as (sl & L & _).
    unfold clone_span in H. change (lookup st1 i s) with (lookup st i s) in H. rewrite L in H.
    pose proof (i_pos _ _ _ I _ _ _ L) as P.
    replace (N.eqb (s_refs sl) 0) with false in H by (symmetry; apply N.eqb_neq; lia).
    inversion H; subst st' ob; clear H. rewrite app_nil_r.
    eapply Inv_refs_only with (st := st); eauto.
    + ro_fields; auto. intros i' x'. simpl. eapply slots_refs_upd; eauto.
    + apply (i_close0 _ _ _ I).
    + apply (i_hnodup _ _ _ I).
    + apply (i_handles _ _ _ I).
    + intros i' s' y Ly. simpl st_slots.
      change (nH _ i' s') with (nH st i' s'). change (nE _ i' s') with (nE st1 i' s'). rewrite NE, pendn_none.
      unfold ematch; simpl. apply negb_true_iff in Ed. rewrite Ed. simpl. rewrite andb_true_r.
      destruct ((i' =? i) && N.eqb (fst s') (fst s)) eqn:E.
      * apply andb_true_iff in E. destruct E as (Ea & Eb). apply Nat.eqb_eq in Ea; apply N.eqb_eq in Eb; subst i'.
        assert (s' = s) by (eapply lookup_same_idx; eauto). subst s'. rewrite L in Ly; inversion Ly; subst y.
        rewrite Nat.eqb_refl, sid_eqb_refl. simpl. rewrite (i_refs _ _ _ I _ _ _ L), pendn_none. split; lia.
      * pose proof (lookup_some _ _ _ _ Ly) as (Ey & _). rewrite <- Ey.
        replace ((i =? i') && sid_eqb s s') with false.
        -- simpl. split; [rewrite (i_refs _ _ _ I _ _ _ Ly), pendn_none; auto | eapply i_pos; eauto].
        -- symmetry. destruct ((i =? i') && sid_eqb s s') eqn:E2; auto. apply andb_true_iff in E2. destruct E2 as (Ea & Eb).
           apply Nat.eqb_eq in Ea; apply sid_eqb_spec in Eb; subst. rewrite Nat.eqb_refl, N.eqb_refl in E; discriminate.
  - (* re-entry: a duplicate entry, no reference *)
    inversion H; subst st' ob; clear H. rewrite app_nil_r.
    eapply Inv_refs_only with (st := st); eauto.
    + ro_fields; auto. intros; simpl; apply slots_same_refs_only.
    + apply (i_close0 _ _ _ I).
    + apply (i_hnodup _ _ _ I).
    + apply (i_handles _ _ _ I).
    + intros i' s' y Ly. simpl st_slots. change (nH _ i' s') with (nH st i' s'). rewrite NE.
      unfold ematch; simpl. rewrite Ed, andb_false_r. simpl.
      pose proof (lookup_some _ _ _ _ Ly) as (Ey & _). rewrite <- Ey.
      split; [apply (i_refs _ _ _ I _ _ _ Ly) | apply (i_pos _ _ _ I _ _ _ Ly)].
Qed.

(* ---------------------------------------------------------------- drop of a handle *)
Lemma hmatch_pendn : forall i s i' s' h, (if hmatch i' s' (h, HSpan i s) then 1 else 0) = pendn (Some (i, s)) i' s'.
Proof. intros; unfold hmatch, pendn; simpl. reflexivity. Qed.

Lemma inv_drop : forall st tr t h st' ob, Inv None st tr -> do_drop st t h = (st', ob) ->
  forallb wf_obs ob = true -> forallb route_ok ob = true -> Inv None st' (tr ++ ob).
Proof.
  intros st tr t h st' ob I H W RO. unfold do_drop in H.
  destruct (hget h (st_handles st)) as [[|i s]|] eqn:Hh.
  - inversion H; subst. rewrite app_nil_r.
    eapply Inv_refs_only with (st := st); eauto.
    + ro_fields; auto. intros; simpl; apply slots_same_refs_only.
    + apply (i_close0 _ _ _ I).
    + simpl. apply hdel_nodup. apply (i_hnodup _ _ _ I).
    + simpl. intros h0 i0 s0 X. apply hdel_in in X. destruct X. eapply i_handles; eauto.
    + apply (i_entries _ _ _ I).
    + apply (i_dups _ _ _ I).
    + apply (i_ene _ _ _ I).
    + intros i' s' y Ly. simpl st_slots. change (nE _ i' s') with (nE st i' s').
      pose proof (lookup_some _ _ _ _ Ly) as (Ey & _). rewrite <- Ey.
      split; [|apply (i_pos _ _ _ I _ _ _ Ly)]. rewrite (i_refs _ _ _ I _ _ _ Ly). unfold nH at 1.
      rewrite (filter_hdel_count (hmatch i' s') h HNone (st_handles st) (i_hnodup _ _ _ I) (hget_in _ _ _ Hh)).
      unfold nH. simpl st_handles. f_equal. replace (hmatch i' s' (h, HNone)) with false by reflexivity. lia.
  - set (st1 := set_handles (hdel h (st_handles st)) st) in *.
    pose proof (i_handles _ _ _ I _ _ _ (hget_in _ _ _ Hh)) as V. apply is_live_true in V. destruct V as (sl & L).
    assert (I1 : Inv (Some (i, s)) st1 tr).
    { eapply Inv_refs_only with (st := st); eauto.
      + ro_fields; auto. intros; simpl; apply slots_same_refs_only.
      + apply (i_close0 _ _ _ I).
      + simpl. apply hdel_nodup. apply (i_hnodup _ _ _ I).
      + simpl. intros h0 i0 s0 X. apply hdel_in in X. destruct X. eapply i_handles; eauto.
      + apply (i_entries _ _ _ I).
      + apply (i_dups _ _ _ I).
      + apply (i_ene _ _ _ I).
      + intros i' s' y Ly. simpl st_slots. change (nE _ i' s') with (nE st i' s').
        pose proof (lookup_some _ _ _ _ Ly) as (Ey & _). rewrite <- Ey.
        split; [|apply (i_pos _ _ _ I _ _ _ Ly)]. rewrite (i_refs _ _ _ I _ _ _ Ly). unfold nH at 1.
        rewrite (filter_hdel_count (hmatch i' s') h (HSpan i s) (st_handles st) (i_hnodup _ _ _ I) (hget_in _ _ _ Hh)).
        rewrite hmatch_pendn, pendn_none. unfold nH. simpl. f_equal. lia. }
    refine (close_stack_inv (fuel_of st1) st1 tr t false i s sl I1 L _ _ _ H RO).
    unfold fuel_of. simpl. pose proof (i_seqs _ _ _ I _ _ _ (i_created _ _ _ I _ _ _ L)). lia.
  - inversion H; subst. simpl in W. discriminate.
Qed.

(* ---------------------------------------------------------------- exit *)
Lemma inv_exit_at : forall st tr t i s st' ob, Inv None st tr -> exit_at st t i s = (st', ob) ->
  forallb route_ok ob = true -> Inv None st' (tr ++ ob).
Proof.
  intros st tr t i s st' ob I H RO. unfold exit_at in H.
  destruct (pop i t s (st_entries st)) as [[es' last]|] eqn:P; [|inversion H; subst; rewrite app_nil_r; auto].
  destruct (pop_spec _ _ _ _ _ _ P) as (l1 & e & l2 & Ees & -> & Se & -> & _).
  apply same_spec in Se. destruct Se as (Ei & Et & Es).
  set (st1 := set_entries (l1 ++ l2) (gpop i t s (st_ene st)) st) in *.
  assert (Ie : In e (st_entries st)) by (rewrite Ees; apply in_or_app; right; left; auto).
  pose proof (i_entries _ _ _ I _ Ie) as V. rewrite Ei, Es in V. apply is_live_true in V. destruct V as (sl & L).
  assert (I1 : Inv (if negb (e_dup e) then Some (i, s) else None) st1 tr).
  { eapply Inv_refs_only with (st := st); eauto.
    + ro_fields; auto. intros; simpl; apply slots_same_refs_only.
    + apply (i_close0 _ _ _ I).
    + apply (i_hnodup _ _ _ I).
    + apply (i_handles _ _ _ I).
    + simpl. intros x X. apply (i_entries _ _ _ I). rewrite Ees. apply in_app_or in X. apply in_or_app. destruct X; auto. right; right; auto.
    + simpl. eapply dups_ok_pop; [apply (i_dups _ _ _ I) | exact P].
    + simpl. rewrite (i_ene _ _ _ I), gpop_map, P. reflexivity.
    + intros i' s' y Ly. simpl st_slots. change (nH _ i' s') with (nH st i' s').
      pose proof (lookup_some _ _ _ _ Ly) as (Ey & _). rewrite <- Ey.
      split; [|apply (i_pos _ _ _ I _ _ _ Ly)]. rewrite (i_refs _ _ _ I _ _ _ Ly), pendn_none.
      unfold nE at 1. rewrite Ees, filter_split_count. unfold nE. simpl st_entries. f_equal.
      unfold ematch at 2. rewrite Ei, Es.
      destruct (negb (e_dup e)); simpl.
      * rewrite andb_true_r. unfold pendn. rewrite (Nat.eqb_sym i i'), (sid_eqb_sym s s'). lia.
      * rewrite andb_false_r. simpl. lia. }
  destruct (negb (e_dup e)) eqn:Ed.
  - destruct (eff st1 t false) as [j|] eqn:Ef.
    + destruct (close_stack (fuel_of st1) st1 t true j s) as [st2 o2] eqn:CS. inversion H; subst st' ob; clear H.
      simpl in RO. apply andb_true_iff in RO. destruct RO as (Rj & RO). apply Nat.eqb_eq in Rj; subst j.
      change (tr ++ ORoute i (Some i) :: o2) with (tr ++ [ORoute i (Some i)] ++ o2). rewrite app_assoc.
      refine (close_stack_inv (fuel_of st1) st1 _ t true i s sl _ L _ _ _ CS RO).
      * apply Inv_inert; eauto. intros o [<-|[]]. split; simpl; auto.
      * unfold fuel_of. simpl. pose proof (i_seqs _ _ _ I _ _ _ (i_created _ _ _ I _ _ _ L)). lia.
    + inversion H; subst. simpl in RO. discriminate.
  - inversion H; subst. rewrite app_nil_r. exact I1.
Qed.

Lemma inv_exit : forall st tr t q st' ob, Inv None st tr -> do_exit st t q = (st', ob) ->
  forallb wf_obs ob = true -> forallb route_ok ob = true -> Inv None st' (tr ++ ob).
Proof.
  intros st tr t q st' ob I H W RO. unfold do_exit in H.
  destruct (find_seq q (st_created st)) as [[i s]|]; [eapply inv_exit_at; eauto|].
  inversion H; subst. simpl in W; discriminate.
Qed.

Lemma inv_exith : forall st tr t h st' ob, Inv None st tr -> do_exith st t h = (st', ob) ->
  forallb wf_obs ob = true -> forallb route_ok ob = true -> Inv None st' (tr ++ ob).
Proof.
  intros st tr t h st' ob I H W RO. unfold do_exith in H.
  destruct (hget h (st_handles st)) as [[|i s]|]; [inversion H; subst; rewrite app_nil_r; auto | eapply inv_exit_at; eauto |].
  inversion H; subst. simpl in W; discriminate.
Qed.
