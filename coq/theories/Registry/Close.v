(** Registry/Close.v — Layered::try_close / CloseGuard / Clear preserve the invariant (the cascade). *)
From Coq Require Import List NArith Bool Arith Lia.
From TV Require Import Registry.Model Registry.Basics Registry.Inv.
Import ListNotations.
Local Open Scope nat_scope.

(* ---------------------------------------------------------------- frames = on_close per layer, then one clear *)
Lemma put_close_put_close : forall st t a b, put_close (put_close st t a) t b = put_close st t b.
Proof. intros; unfold put_close, set_close; simpl. rewrite cput_cput. reflexivity. Qed.

Lemma on_close_obs_put_close : forall st t n i l s, on_close_obs (put_close st t n) i l s = on_close_obs st i l s.
Proof. reflexivity. Qed.

Lemma frames_eq : forall casc ls st t nested i s,
  cget t (st_close st) = length ls -> ls <> [] ->
  frames casc ls st t nested i s =
  let '(stc, oc) := clear_slot casc (put_close st t 0) t nested i s in
  (stc, map (fun l => on_close_obs st i l s) ls ++ oc).
Proof.
  induction ls as [|l r IH]; intros st t nested i s C NE; [congruence|].
  simpl frames. rewrite C. destruct r as [|l2 r2].
  - simpl length. simpl. destruct (clear_slot casc (put_close st t 0) t nested i s) as [st3 o3].
    simpl. rewrite app_nil_r. reflexivity.
  - replace (length (l :: l2 :: r2) =? 1) with false by (simpl; reflexivity).
    rewrite IH.
    + rewrite put_close_put_close.
      destruct (clear_slot casc (put_close st t 0) t nested i s) as [st3 o3]. simpl. reflexivity.
    + unfold put_close, set_close; simpl st_close. rewrite cget_cput, Nat.eqb_refl. simpl. lia.
    + discriminate.
Qed.

(* ---------------------------------------------------------------- lookups after vacating *)
Lemma lookup_upd_vacant : forall st i s sl v, lookup st i s = Some sl -> s_occ v = false ->
  forall i' s', lookup (upd_slot st i (fst s) v) i' s' = if (i' =? i) && sid_eqb s' s then None else lookup st i' s'.
Proof.
  intros st i s sl v L O i' s'.
  destruct (i' =? i) eqn:Ei; simpl.
  - apply Nat.eqb_eq in Ei; subst i'.
    destruct (N.eq_dec (fst s') (fst s)) as [Ex|Ex].
    + rewrite lookup_upd_same by auto. rewrite O. simpl.
      destruct (sid_eqb s' s) eqn:Es; auto.
      destruct (lookup st i s') eqn:L'; auto.
      apply sid_eqb_neq in Es. exfalso; apply Es. eapply lookup_same_idx; eauto.
    + rewrite lookup_upd_other by (intros X; inversion X; contradiction).
      destruct (sid_eqb s' s) eqn:Es; auto. apply sid_eqb_spec in Es; subst; contradiction.
  - rewrite lookup_upd_other; auto. intros X; inversion X; subst; rewrite Nat.eqb_refl in Ei; discriminate.
Qed.

Definition vacant_of (sl : slot) : slot := mkSlot false true (s_gen sl) (s_seq sl) None 0%N [] [].
Definition unkid (s : sid) (pl : slot) : slot := set_kids pl (filter (fun k => negb (sid_eqb k s)) (s_kids pl)).

(** the state after "refs := 0, close counters := c', vacate" *)
Definition closing (st : state) (c' : list (tid * nat)) (i : inst) (s : sid) (sl : slot) : state :=
  vacate (set_close c' (upd_slot st i (fst s) (set_refs sl 0%N))) i s (set_refs sl 0%N).

Lemma lookup_set_close : forall c st i s, lookup (set_close c st) i s = lookup st i s.
Proof. reflexivity. Qed.

Lemma same_shape_refs : forall sl r, same_shape sl (set_refs sl r).
Proof. intros; unfold same_shape, set_refs; simpl; auto. Qed.
Lemma same_shape_kids : forall sl k, same_shape sl (set_kids sl k).
Proof. intros; unfold same_shape, set_kids; simpl; auto. Qed.
Lemma same_shape_ext : forall sl k, same_shape sl (set_ext sl k).
Proof. intros; unfold same_shape, set_ext; simpl; auto. Qed.

Section Closing.
  Variables (st : state) (c' : list (tid * nat)) (i : inst) (s : sid) (sl : slot).
  Hypothesis L : lookup st i s = Some sl.

  Let st1 := set_close c' (upd_slot st i (fst s) (set_refs sl 0%N)).
  Let st2 := upd_slot st1 i (fst s) (vacant_of sl).

  Lemma lookup_st1 : forall i' s', lookup st1 i' s' = if (i' =? i) && sid_eqb s' s then Some (set_refs sl 0%N) else lookup st i' s'.
  Proof. intros; unfold st1; rewrite lookup_set_close. eapply lookup_upd_shape; eauto. apply same_shape_refs. Qed.

  Lemma lookup_st2 : forall i' s', lookup st2 i' s' = if (i' =? i) && sid_eqb s' s then None else lookup st i' s'.
  Proof.
    intros; unfold st2.
    rewrite (lookup_upd_vacant st1 i s (set_refs sl 0%N)).
    - rewrite lookup_st1. destruct ((i' =? i) && sid_eqb s' s); reflexivity.
    - rewrite lookup_st1, Nat.eqb_refl, sid_eqb_refl; reflexivity.
    - reflexivity.
  Qed.

  Lemma closing_root : s_parent sl = None -> closing st c' i s sl = st2.
  Proof. intros P; unfold closing, vacate; simpl. rewrite P. reflexivity. Qed.

  Lemma closing_child : forall p pl, s_parent sl = Some p -> lookup st i p = Some pl -> p <> s ->
    closing st c' i s sl = upd_slot st2 i (fst p) (unkid s pl).
  Proof.
    intros p pl P Lp Ne; unfold closing, vacate; simpl. rewrite P.
    fold st1. change (upd_slot st1 i (fst s) (mkSlot false true (s_gen sl) (s_seq sl) None 0%N [] [])) with st2.
    rewrite lookup_st2, Nat.eqb_refl. simpl.
    destruct (sid_eqb p s) eqn:E; [apply sid_eqb_spec in E; contradiction|]. rewrite Lp. reflexivity.
  Qed.

  (** every lookup after the close *)
  Lemma lookup_closing : forall i' s',
    (forall p, s_parent sl = Some p -> p <> s /\ exists pl, lookup st i p = Some pl) ->
    lookup (closing st c' i s sl) i' s' =
    if (i' =? i) && sid_eqb s' s then None
    else match s_parent sl with
         | Some p => if (i' =? i) && sid_eqb s' p
                     then match lookup st i p with Some pl => Some (unkid s pl) | None => None end
                     else lookup st i' s'
         | None => lookup st i' s'
         end.
  Proof.
    intros i' s' HP. destruct (s_parent sl) as [p|] eqn:P.
    - destruct (HP p eq_refl) as (Ne & pl & Lp).
      rewrite (closing_child p pl); auto.
      assert (L2 : lookup st2 i p = Some pl).
      { rewrite lookup_st2, Nat.eqb_refl; simpl. destruct (sid_eqb p s) eqn:E; auto. apply sid_eqb_spec in E; contradiction. }
      rewrite (lookup_upd_shape st2 i p pl (unkid s pl) L2 (same_shape_kids _ _)).
      rewrite lookup_st2, Lp.
      destruct ((i' =? i) && sid_eqb s' s) eqn:E1; destruct ((i' =? i) && sid_eqb s' p) eqn:E2; auto.
      apply andb_true_iff in E1; apply andb_true_iff in E2. destruct E1 as [_ E1], E2 as [_ E2].
      apply sid_eqb_spec in E1; apply sid_eqb_spec in E2; subst. contradiction.
    - rewrite closing_root; auto. apply lookup_st2.
  Qed.

  Lemma slots_closing : forall i' x',
    (forall p, s_parent sl = Some p -> p <> s /\ exists pl, lookup st i p = Some pl) ->
    st_slots (closing st c' i s sl) i' x' =
    if (i' =? i) && N.eqb x' (fst s) then vacant_of sl
    else match s_parent sl with
         | Some p => if (i' =? i) && N.eqb x' (fst p) then unkid s (st_slots st i (fst p)) else st_slots st i' x'
         | None => st_slots st i' x'
         end.
  Proof.
    intros i' x' HP.
    assert (S2 : forall a b, st_slots st2 a b = if (a =? i) && N.eqb b (fst s) then vacant_of sl else st_slots st a b).
    { intros; unfold st2. rewrite slots_upd. destruct ((a =? i) && N.eqb b (fst s)) eqn:E; auto.
      unfold st1. simpl. rewrite E. reflexivity. }
    destruct (s_parent sl) as [p|] eqn:P.
    - destruct (HP p eq_refl) as (Ne & pl & Lp).
      rewrite (closing_child p pl); auto. rewrite slots_upd, S2.
      pose proof (lookup_some _ _ _ _ Lp) as (Epl & _ & _). pose proof (lookup_some _ _ _ _ L) as (Esl & _ & _).
      destruct ((i' =? i) && N.eqb x' (fst s)) eqn:E1; destruct ((i' =? i) && N.eqb x' (fst p)) eqn:E2; auto.
      + apply andb_true_iff in E1; apply andb_true_iff in E2. destruct E1 as [_ E1], E2 as [_ E2].
        apply N.eqb_eq in E1; apply N.eqb_eq in E2. exfalso; apply Ne. eapply lookup_same_idx; eauto. congruence.
      + rewrite Epl. reflexivity.
    - rewrite closing_root; auto.
  Qed.

  Lemma closing_fields :
    st_layers (closing st c' i s sl) = st_layers st /\ st_handles (closing st c' i s sl) = st_handles st /\
    st_entries (closing st c' i s sl) = st_entries st /\ st_ene (closing st c' i s sl) = st_ene st /\
    st_created (closing st c' i s sl) = st_created st /\ st_count (closing st c' i s sl) = st_count st /\
    st_cpar (closing st c' i s sl) = st_cpar st /\ st_panicked (closing st c' i s sl) = st_panicked st /\
    st_close (closing st c' i s sl) = c' /\ st_def (closing st c' i s sl) = st_def st /\
    st_scoped (closing st c' i s sl) = st_scoped st /\ st_global (closing st c' i s sl) = st_global st.
  Proof.
    unfold closing, vacate. simpl. destruct (s_parent sl); [|repeat split].
    match goal with |- context [match ?x with Some _ => _ | None => _ end] => destruct x end; repeat split.
  Qed.
End Closing.

(* ---------------------------------------------------------------- key comparisons *)
Lemma key_eqb_spec : forall (i i' : inst) (s s' : sid), (i' =? i) && sid_eqb s' s = true <-> (i', s') = (i, s).
Proof.
  intros; rewrite andb_true_iff, Nat.eqb_eq, sid_eqb_spec. split; [intros [-> ->]; auto | intros X; inversion X; auto].
Qed.
Lemma key_eqb_false : forall (i i' : inst) (s s' : sid), (i', s') <> (i, s) -> (i' =? i) && sid_eqb s' s = false.
Proof. intros; destruct ((i' =? i) && sid_eqb s' s) eqn:E; auto. apply key_eqb_spec in E; contradiction. Qed.
Lemma key_eqb_refl : forall (i : inst) (s : sid), (i =? i) && sid_eqb s s = true.
Proof. intros; apply key_eqb_spec; reflexivity. Qed.
Lemma key_dec : forall (a b : inst * sid), {a = b} + {a <> b}.
Proof. intros [i s] [i' s']. destruct (Nat.eq_dec i i'); [|right; congruence]. destruct (sid_dec s s'); [left|right]; congruence. Qed.

(* ---------------------------------------------------------------- the closing step preserves the invariant *)
Section ClosingInv.
  Variables (st : state) (tr : list obs) (c' : list (tid * nat)) (i : inst) (s : sid) (sl : slot).
  Hypothesis I : Inv (Some (i, s)) st tr.
  Hypothesis L : lookup st i s = Some sl.
  Hypothesis R1 : s_refs sl = 1%N.
  Hypothesis C0 : forall t, cget t c' = 0.

  Let stv := closing st c' i s sl.
  Let q := s_seq sl.
  Let closes := map (fun l => OClose i l q (Some q)) (seq 0 (st_layers st i)).
  Let pend' := match s_parent sl with Some p => Some (i, p) | None => None end.

  Lemma zero_counts : nH st i s = 0 /\ nE st i s = 0 /\ s_kids sl = [].
  Proof.
    pose proof (i_refs _ _ _ I _ _ _ L) as R. rewrite R1, pendn_same in R.
    assert (nH st i s + nE st i s + length (s_kids sl) = 0) by lia.
    repeat split; try lia. destruct (s_kids sl); simpl in *; auto; lia.
  Qed.

  Lemma HP : forall p, s_parent sl = Some p -> p <> s /\ exists pl, lookup st i p = Some pl.
  Proof.
    intros p P. destruct (i_parent _ _ _ I _ _ _ _ L P) as (pl & Lp & _ & Lt).
    split; eauto. intros ->. rewrite L in Lp; inversion Lp; subst; lia.
  Qed.

  Lemma LK : forall i' s', lookup stv i' s' =
    if (i' =? i) && sid_eqb s' s then None
    else match s_parent sl with
         | Some p => if (i' =? i) && sid_eqb s' p
                     then match lookup st i p with Some pl => Some (unkid s pl) | None => None end
                     else lookup st i' s'
         | None => lookup st i' s'
         end.
  Proof. intros; apply lookup_closing; auto. apply HP. Qed.

  (** a span live after the step was live before, with the same shape, refs and ext *)
  Lemma live_after : forall i' s' x, lookup stv i' s' = Some x ->
    (i', s') <> (i, s) /\ exists y, lookup st i' s' = Some y /\ same_shape y x /\ s_refs x = s_refs y /\ s_ext x = s_ext y /\
      ((s_kids x = s_kids y /\ pend' <> Some (i', s')) \/
       (pend' = Some (i', s') /\ s_kids x = filter (fun k => negb (sid_eqb k s)) (s_kids y))).
  Proof.
    intros i' s' x H. rewrite LK in H.
    destruct ((i' =? i) && sid_eqb s' s) eqn:E1; [discriminate|].
    split. { intros X. apply key_eqb_spec in X. congruence. }
    unfold pend'. destruct (s_parent sl) as [p|] eqn:P.
    - destruct ((i' =? i) && sid_eqb s' p) eqn:E2.
      + apply key_eqb_spec in E2. inversion E2; subst.
        destruct (lookup st i p) as [pl|] eqn:Lp; [|discriminate]. inversion H; subst.
        exists pl. split; auto. split; [apply same_shape_kids|]. repeat split; auto.
      + exists x. split; auto. split; [unfold same_shape; auto|]. repeat split; auto. left; split; auto.
        intros X; inversion X; subst. rewrite key_eqb_refl in E2; discriminate.
    - exists x. split; auto. split; [unfold same_shape; auto|]. repeat split; auto. left; split; auto. discriminate.
  Qed.

  Lemma live_before : forall i' s' y, (i', s') <> (i, s) -> lookup st i' s' = Some y ->
    exists x, lookup stv i' s' = Some x /\ same_shape y x.
  Proof.
    intros i' s' y Ne Ly. rewrite LK, key_eqb_false by auto.
    destruct (s_parent sl) as [p|] eqn:P.
    - destruct ((i' =? i) && sid_eqb s' p) eqn:E2.
      + apply key_eqb_spec in E2; inversion E2; subst. rewrite Ly. eexists; split; eauto. apply same_shape_kids.
      + eexists; split; eauto. unfold same_shape; auto.
    - eexists; split; eauto. unfold same_shape; auto.
  Qed.

  Lemma is_live_after : forall i' s', is_live stv i' s' = if (i' =? i) && sid_eqb s' s then false else is_live st i' s'.
  Proof.
    intros. destruct ((i' =? i) && sid_eqb s' s) eqn:E.
    - apply is_live_false. rewrite LK, E. reflexivity.
    - destruct (is_live st i' s') eqn:V.
      + apply is_live_true in V. destruct V as (y & Ly).
        destruct (live_before i' s' y) as (x & Lx & _); auto.
        { intros X; apply key_eqb_spec in X; congruence. }
        apply is_live_true; eauto.
      + destruct (is_live stv i' s') eqn:V'; auto. apply is_live_true in V'. destruct V' as (x & Lx).
        destruct (live_after _ _ _ Lx) as (_ & y & Ly & _). apply is_live_false in V. congruence.
  Qed.

  Lemma fields : st_layers stv = st_layers st /\ st_handles stv = st_handles st /\
    st_entries stv = st_entries st /\ st_ene stv = st_ene st /\
    st_created stv = st_created st /\ st_count stv = st_count st /\
    st_cpar stv = st_cpar st /\ st_panicked stv = st_panicked st /\ st_close stv = c'.
  Proof. pose proof (closing_fields st c' i s sl) as F. unfold stv. tauto. Qed.

  Lemma nH_after : forall i' s', nH stv i' s' = nH st i' s'.
  Proof. intros; unfold nH. destruct fields as (_ & -> & _). reflexivity. Qed.
  Lemma nE_after : forall i' s', nE stv i' s' = nE st i' s'.
  Proof. intros; unfold nE. destruct fields as (_ & _ & -> & _). reflexivity. Qed.

  Lemma seq_at_after : forall i' p', (i', p') <> (i, s) -> seq_at stv i' p' = seq_at st i' p'.
  Proof.
    intros i' p' Ne. unfold seq_at. destruct (lookup st i' p') as [y|] eqn:Ly.
    - destruct (live_before _ _ _ Ne Ly) as (x & -> & (_ & _ & _ & Sq & _)). congruence.
    - destruct (lookup stv i' p') as [x|] eqn:Lx; auto.
      destruct (live_after _ _ _ Lx) as (_ & y & Ly' & _). congruence.
  Qed.

  Lemma closed_n_closes : forall l q', closed_n l q' closes = if (q' =? q) && (l <? st_layers st i) then 1 else 0.
  Proof.
    intros l q'. unfold closes, closed_n. generalize (st_layers st i) as n.
    induction n as [|n IH].
    - simpl. rewrite andb_false_r. reflexivity.
    - rewrite seq_S, map_app, filter_app, app_length, IH. simpl.
      rewrite (Nat.eqb_sym q q'). destruct (q' =? q); simpl; [|rewrite andb_false_r; reflexivity].
      rewrite andb_true_r. destruct (n =? l) eqn:E; simpl.
      + apply Nat.eqb_eq in E; subst. replace (l <? l) with false by (symmetry; apply Nat.ltb_ge; lia).
        replace (l <? S l) with true by (symmetry; apply Nat.ltb_lt; lia). reflexivity.
      + apply Nat.eqb_neq in E. destruct (l <? n) eqn:E1.
        * apply Nat.ltb_lt in E1. replace (l <? S n) with true by (symmetry; apply Nat.ltb_lt; lia). reflexivity.
        * apply Nat.ltb_ge in E1. replace (l <? S n) with false by (symmetry; apply Nat.ltb_ge; lia). reflexivity.
  Qed.

  (** the children of the closing span are all closed already *)
  Lemma children_closed : forall ic sc c, In (ic, sc, c) (st_created st) -> cpar_get c (st_cpar st) = Some (Some q) ->
    c <> q /\ ic = i /\ forall l', l' < st_layers st i -> closed_n l' c tr = 1.
  Proof.
    intros ic sc c Ic Pc.
    destruct (i_cpar_inst _ _ _ I _ _ _ _ Ic Pc) as (Lt & sq & Iq).
    pose proof (i_created _ _ _ I _ _ _ L) as Iqs. fold q in Iqs.
    pose proof (seq_unique _ _ _ _ _ _ (i_nodup _ _ _ I) Iq Iqs) as X. inversion X; subst ic sq.
    split; [lia|]. split; auto. intros l' Hl.
    rewrite (t_closed _ _ _ I _ _ _ l' Ic).
    replace (l' <? st_layers st i) with true by (symmetry; apply Nat.ltb_lt; auto). simpl.
    destruct (is_live st i sc) eqn:V; auto. exfalso.
    apply is_live_true in V. destruct V as (cl & Lc).
    pose proof (live_seq _ _ _ _ _ _ _ I Lc Ic) as Sc.
    pose proof (i_cpar _ _ _ I _ _ _ Lc) as Pc'. rewrite Sc, Pc in Pc'. inversion Pc' as [Pc''].
    destruct (s_parent cl) as [p'|] eqn:Pp; [|discriminate].
    unfold seq_at in Pc''. destruct (lookup st i p') as [pl'|] eqn:Lp'; [|discriminate]. inversion Pc'' as [Sq].
    pose proof (i_created _ _ _ I _ _ _ Lp') as Ip'. rewrite <- Sq in Ip'.
    pose proof (seq_unique _ _ _ _ _ _ (i_nodup _ _ _ I) Ip' Iqs) as Y. inversion Y; subst p'.
    destruct (i_parent _ _ _ I _ _ _ _ Lc Pp) as (pl2 & Lp2 & Ink & _).
    rewrite L in Lp2; inversion Lp2; subst pl2. destruct zero_counts as (_ & _ & K). rewrite K in Ink. contradiction.
  Qed.

  Lemma closing_inv : Inv pend' stv (tr ++ closes).
  Proof.
    destruct fields as (Fl & Fh & Fe & Fg & Fc & Fn & Fp & Fk & Fcl).
    destruct zero_counts as (ZH & ZE & ZK).
    constructor.
    - (* layers *) intros; rewrite Fl; apply (i_layers _ _ _ I).
    - (* refs *)
      intros i' s' x Lx. destruct (live_after _ _ _ Lx) as (Ne & y & Ly & _ & Rx & _ & Kx).
      rewrite Rx, nH_after, nE_after, (i_refs _ _ _ I _ _ _ Ly), pendn_other by auto. f_equal.
      destruct Kx as [(Kx & Np)|(Ep & Kx)].
      + rewrite Kx. unfold pend' in *. destruct (s_parent sl) as [p|]; [|reflexivity].
        rewrite pendn_other; auto. congruence.
      + rewrite Ep, pendn_same, Kx. unfold pend' in Ep. destruct (s_parent sl) as [p|] eqn:P; [|discriminate].
        inversion Ep; subst i' s'.
        destruct (i_parent _ _ _ I _ _ _ _ L P) as (pl & Lp & Ink & _). rewrite Ly in Lp; inversion Lp; subst pl.
        destruct (i_kids _ _ _ I _ _ _ Ly) as (ND & _).
        pose proof (length_filter_remove _ _ ND Ink). lia.
    - (* pos *)
      intros i' s' x Lx. destruct (live_after _ _ _ Lx) as (_ & y & Ly & _ & Rx & _). rewrite Rx. eapply i_pos; eauto.
    - (* created *)
      intros i' s' x Lx. destruct (live_after _ _ _ Lx) as (_ & y & Ly & (_ & _ & _ & Sq & _) & _).
      rewrite Fc, <- Sq. eapply i_created; eauto.
    - intros i' s' q'. rewrite Fc, Fn. apply (i_seqs _ _ _ I).
    - rewrite Fc. apply (i_nodup _ _ _ I).
    - intros i' s' q1 q2. rewrite Fc. apply (i_keys _ _ _ I).
    - (* gen *)
      intros i' s' q'. rewrite Fc. intros Ic. destruct (i_gen _ _ _ I _ _ _ Ic) as (U & G).
      unfold stv. rewrite slots_closing by (auto; apply HP).
      destruct ((i' =? i) && N.eqb (fst s') (fst s)) eqn:E1.
      + apply andb_true_iff in E1. destruct E1 as (E1 & E2). apply Nat.eqb_eq in E1; apply N.eqb_eq in E2. subst i'.
        simpl. split; auto. rewrite E2 in G. pose proof (lookup_some _ _ _ _ L) as (-> & _ & _). exact G.
      + destruct (s_parent sl) as [p|]; auto.
        destruct ((i' =? i) && N.eqb (fst s') (fst p)) eqn:E2; auto.
        apply andb_true_iff in E2. destruct E2 as (E2 & E3). apply Nat.eqb_eq in E2; apply N.eqb_eq in E3. subst i'.
        unfold unkid, set_kids; simpl. rewrite <- E3. auto.
    - (* parent *)
      intros i' s' x p' Lx Px. destruct (live_after _ _ _ Lx) as (Ne & y & Ly & (_ & _ & _ & Sq & Pa) & _).
      rewrite <- Pa in Px. destruct (i_parent _ _ _ I _ _ _ _ Ly Px) as (pl & Lp & Ink & Lt).
      assert (Np : (i', p') <> (i, s)).
      { intros X; inversion X; subst i' p'. rewrite L in Lp; inversion Lp; subst pl. rewrite ZK in Ink; contradiction. }
      destruct (live_before _ _ _ Np Lp) as (pl' & Lp' & Sh).
      exists pl'. split; auto. destruct Sh as (_ & _ & _ & Sq' & _). rewrite <- Sq', <- Sq. split; auto.
      destruct (live_after _ _ _ Lp') as (_ & y' & Ly' & _ & _ & _ & Kx). rewrite Lp in Ly'; inversion Ly'; subst y'.
      destruct Kx as [(-> & _)|(Ep & ->)]; auto.
      apply in_filter_remove. split; auto. intros ->.
      unfold pend' in Ep. destruct (s_parent sl); [|discriminate]. inversion Ep; subst i' p'. apply Ne; reflexivity.
    - (* kids *)
      intros i' p' x Lx. destruct (live_after _ _ _ Lx) as (Ne & y & Ly & _ & _ & _ & Kx).
      destruct (i_kids _ _ _ I _ _ _ Ly) as (ND & KC).
      assert (KK : forall c, In c (s_kids x) -> In c (s_kids y) /\ (i', c) <> (i, s)).
      { intros c Ic. destruct Kx as [(Kx & Np)|(Ep & Kx)]; rewrite Kx in Ic.
        - split; auto. intros X; inversion X; subst i' c.
          destruct (KC _ Ic) as (cl & Lc & Pc). rewrite L in Lc; inversion Lc; subst cl.
          (* s is a child of p' (live, <> s): then pend' = Some (i, p') *)
          apply Np. unfold pend'. rewrite Pc. reflexivity.
        - apply in_filter_remove in Ic. destruct Ic as (Ic & Nc). split; auto.
          intros X; inversion X; subst i' c; contradiction. }
      split.
      + destruct Kx as [(-> & _)|(_ & ->)]; auto. apply NoDup_filter; auto.
      + intros c Ic. destruct (KK _ Ic) as (Ic' & Nc). destruct (KC _ Ic') as (cl & Lc & Pc).
        destruct (live_before _ _ _ Nc Lc) as (cl' & Lc' & (_ & _ & _ & _ & Pa)). exists cl'; split; auto. congruence.
    - rewrite Fh. apply (i_hnodup _ _ _ I).
    - (* handles live *)
      intros h i' s'. rewrite Fh. intros Ih. rewrite is_live_after.
      rewrite key_eqb_false; [eapply i_handles; eauto|].
      intros X; inversion X; subst i' s'. eapply nH_zero_no_handle; eauto.
    - (* entries live *)
      intros e. rewrite Fe. intros Ie. rewrite is_live_after.
      rewrite key_eqb_false; [eapply i_entries; eauto|].
      intros X; inversion X. eapply (nE_zero_no_entry st i s); eauto. apply (i_dups _ _ _ I).
    - rewrite Fe. apply (i_dups _ _ _ I).
    - rewrite Fg, Fe. apply (i_ene _ _ _ I).
    - (* vacant *)
      intros i' x'. unfold stv. rewrite slots_closing by (auto; apply HP).
      destruct ((i' =? i) && N.eqb x' (fst s)) eqn:E1; [simpl; auto|].
      destruct (s_parent sl) as [p|] eqn:P; [|apply (i_vacant _ _ _ I)].
      destruct ((i' =? i) && N.eqb x' (fst p)) eqn:E2; [|apply (i_vacant _ _ _ I)].
      unfold unkid, set_kids; simpl. intros O. destruct (HP p P) as (_ & pl & Lp).
      pose proof (lookup_some _ _ _ _ Lp) as (Epl & O' & _). rewrite <- Epl in O. congruence.
    - intros t. rewrite Fcl. apply C0.
    - rewrite Fk. apply (i_nopanic _ _ _ I).
    - (* ext *)
      intros i' s' x Lx l. rewrite Fl. intros Hl.
      destruct (live_after _ _ _ Lx) as (_ & y & Ly & (_ & _ & _ & Sq & _) & _ & Ex & _).
      rewrite Ex, <- Sq. eapply i_ext; eauto.
    - (* cpar *)
      intros i' s' x Lx. destruct (live_after _ _ _ Lx) as (Ne & y & Ly & (_ & _ & _ & Sq & Pa) & _).
      rewrite Fp, <- Sq, <- Pa, (i_cpar _ _ _ I _ _ _ Ly). f_equal.
      destruct (s_parent y) as [p'|] eqn:Py; auto. symmetry. apply seq_at_after.
      intros X; inversion X; subst i' p'.
      destruct (i_parent _ _ _ I _ _ _ _ Ly Py) as (pl & Lp & Ink & _).
      rewrite L in Lp; inversion Lp; subst pl. rewrite ZK in Ink; contradiction.
    - intros ic sc c qq. rewrite Fc, Fp. apply (i_cpar_inst _ _ _ I).
    - intros c v. rewrite Fp, Fn. apply (i_cpar_dom _ _ _ I).
    - (* t_closed *)
      intros i' s' q' l. rewrite Fc. intros Ic. rewrite closed_n_app, (t_closed _ _ _ I _ _ _ l Ic), closed_n_closes, Fl, is_live_after.
      pose proof (i_created _ _ _ I _ _ _ L) as Iq. fold q in Iq.
      destruct ((i' =? i) && sid_eqb s' s) eqn:E.
      + apply key_eqb_spec in E; inversion E; subst i' s'.
        rewrite (i_keys _ _ _ I _ _ _ _ Ic Iq), Nat.eqb_refl.
        replace (is_live st i s) with true by (symmetry; apply is_live_true; eauto). simpl.
        rewrite andb_false_r, andb_true_r. reflexivity.
      + destruct (q' =? q) eqn:Eq.
        * apply Nat.eqb_eq in Eq; subst q'.
          pose proof (seq_unique _ _ _ _ _ _ (i_nodup _ _ _ I) Ic Iq) as X. inversion X; subst i' s'.
          rewrite key_eqb_refl in E; discriminate.
        * simpl. lia.
    - (* closed_none *)
      intros q' l. rewrite Fn. intros Hq. rewrite closed_n_app, (t_closed_none _ _ _ I _ l Hq), closed_n_closes.
      pose proof (i_seqs _ _ _ I _ _ _ (i_created _ _ _ I _ _ _ L)) as Lt. fold q in Lt.
      replace (q' =? q) with false by (symmetry; apply Nat.eqb_neq; lia). reflexivity.
    - (* fine *)
      intros o Io. apply in_app_or in Io. destruct Io as [Io|Io]; [apply (t_fine _ _ _ I); auto|].
      unfold closes in Io. apply in_map_iff in Io. destruct Io as (l & <- & _). simpl. reflexivity.
    - (* children first *)
      intros tr1 i0 l0 q0 e0 tr2 ic sc c Esplit. rewrite Fc, Fp, Fl. intros Ic Pc l' Hl.
      (* where does the split fall? *)
      assert (Hsplit : (exists r, tr = tr1 ++ OClose i0 l0 q0 e0 :: r) \/
                       (exists a b, tr1 = tr ++ a /\ closes = a ++ OClose i0 l0 q0 e0 :: b)).
      { clear - Esplit. revert tr1 Esplit. induction tr as [|x r IH]; intros tr1 E.
        - right. exists tr1, tr2. simpl in *. auto.
        - destruct tr1 as [|y tr1']; simpl in E.
          + left. exists r. simpl. inversion E. reflexivity.
          + inversion E; subst y. destruct (IH _ H1) as [(r0 & ->)|(a & b & -> & E2)].
            * left. exists r0. reflexivity.
            * right. exists a, b. auto. }
      destruct Hsplit as [(r & Er)|(a & b & -> & Ecl)].
      + eapply (t_children _ _ _ I); eauto.
      + assert (Ein : In (OClose i0 l0 q0 e0) closes) by (rewrite Ecl; apply in_or_app; right; left; auto).
        unfold closes in Ein. apply in_map_iff in Ein. destruct Ein as (l1 & Eo & _). inversion Eo; subst i0 l0 q0 e0.
        destruct (children_closed _ _ _ Ic Pc) as (Nq & -> & CC).
        rewrite closed_n_app, CC by auto.
        assert (Za : closed_n l' c a = 0).
        { assert (Le : closed_n l' c a <= closed_n l' c closes).
          { rewrite Ecl, closed_n_app. lia. }
          rewrite closed_n_closes in Le. replace (c =? q) with false in Le by (symmetry; apply Nat.eqb_neq; auto).
          simpl in Le. lia. }
        lia.
  Qed.
End ClosingInv.

(* ---------------------------------------------------------------- inert observations *)
Definition inert (o : obs) : Prop := (forall l q, is_close l q o = false) /\ obs_fine o.

Lemma split_app_close : forall (tr ex tr1 tr2 : list obs) x, tr ++ ex = tr1 ++ x :: tr2 ->
  (exists r, tr = tr1 ++ x :: r) \/ (exists a b, tr1 = tr ++ a /\ ex = a ++ x :: b).
Proof.
  induction tr as [|y r IH]; intros ex tr1 tr2 x E.
  - right. exists tr1, tr2. simpl in *. auto.
  - destruct tr1 as [|z tr1']; simpl in E.
    + left. exists r. simpl. inversion E. reflexivity.
    + inversion E; subst z. destruct (IH _ _ _ _ H1) as [(r0 & ->)|(a & b & -> & E2)].
      * left. exists r0. reflexivity.
      * right. exists a, b. auto.
Qed.

Lemma Inv_inert : forall pend st tr ex, Inv pend st tr -> (forall o, In o ex -> inert o) -> Inv pend st (tr ++ ex).
Proof.
  intros pend st tr ex I IN.
  assert (Z : forall l q, closed_n l q ex = 0).
  { intros l q. unfold closed_n. induction ex as [|o r IH]; simpl; auto.
    destruct (IN o (or_introl eq_refl)) as (C & _). rewrite C. apply IH. intros; apply IN; right; auto. }
  destruct I as [a1 a2 a2' a3 a4 a5 a6 a7 a8 a9 a10 a11 a12 a13 a14 a15 a16 a17 a18 a19 a20 a21 b1 b2 b3 b4].
  constructor; auto.
  - intros; rewrite closed_n_app, Z, Nat.add_0_r; auto.
  - intros; rewrite closed_n_app, Z, Nat.add_0_r; auto.
  - intros o Io. apply in_app_or in Io. destruct Io; auto. apply IN; auto.
  - intros tr1 i l q e tr2 ic sc c E. destruct (split_app_close _ _ _ _ _ E) as [(r & Er)|(a & b & -> & Eex)].
    + eapply b4; eauto.
    + exfalso. assert (Io : In (OClose i l q e) ex) by (rewrite Eex; apply in_or_app; right; left; auto).
      destruct (IN _ Io) as (C & _). specialize (C l q). simpl in C. rewrite !Nat.eqb_refl in C. discriminate.
Qed.

(* ---------------------------------------------------------------- changes of reference counts and of the user-side lists *)
Definition refs_only (st st' : state) : Prop :=
  (forall i x, exists r, st_slots st' i x = set_refs (st_slots st i x) r) /\
  st_layers st' = st_layers st /\ st_count st' = st_count st /\ st_created st' = st_created st /\
  st_cpar st' = st_cpar st /\ st_panicked st' = st_panicked st.

Lemma lookup_refs_only : forall st st' i s, refs_only st st' ->
  lookup st' i s = match lookup st i s with
                   | Some sl => Some (set_refs sl (s_refs (st_slots st' i (fst s))))
                   | None => None end.
Proof.
  intros st st' i s (S & _). unfold lookup. destruct (S i (fst s)) as (r & E). rewrite E. simpl.
  destruct (s_occ (st_slots st i (fst s)) && N.eqb (s_gen (st_slots st i (fst s))) (snd s)); reflexivity.
Qed.

Lemma is_live_refs_only : forall st st' i s, refs_only st st' -> is_live st' i s = is_live st i s.
Proof. intros; unfold is_live. rewrite (lookup_refs_only st st'); auto. destruct (lookup st i s); reflexivity. Qed.

Lemma seq_at_refs_only : forall st st' i s, refs_only st st' -> seq_at st' i s = seq_at st i s.
Proof. intros; unfold seq_at. rewrite (lookup_refs_only st st'); auto. destruct (lookup st i s); reflexivity. Qed.

Lemma Inv_refs_only : forall pend pend' st st' tr,
  Inv pend st tr -> refs_only st st' ->
  (forall t, cget t (st_close st') = 0) ->
  NoDup (map fst (st_handles st')) ->
  (forall h i s, In (h, HSpan i s) (st_handles st') -> is_live st i s = true) ->
  (forall e, In e (st_entries st') -> is_live st (e_i e) (e_s e) = true) ->
  dups_ok (st_entries st') ->
  st_ene st' = map (fun e => (e_i e, e_t e, e_s e)) (st_entries st') ->
  (forall i s sl, lookup st i s = Some sl ->
     s_refs (st_slots st' i (fst s)) = N.of_nat (nH st' i s + nE st' i s + length (s_kids sl) + pendn pend' i s) /\
     (1 <= s_refs (st_slots st' i (fst s)))%N) ->
  Inv pend' st' tr.
Proof.
  intros pend pend' st st' tr I RO C0 HN HL EL DU EN RF.
  pose proof RO as (S & Fl & Fn & Fc & Fp & Fk).
  assert (LK : forall i s x, lookup st' i s = Some x -> exists y, lookup st i s = Some y /\ x = set_refs y (s_refs (st_slots st' i (fst s)))).
  { intros i s x H. rewrite (lookup_refs_only st st') in H by auto. destruct (lookup st i s) as [y|]; [|discriminate].
    inversion H. eauto. }
  constructor.
  - intros; rewrite Fl; apply (i_layers _ _ _ I).
  - intros i s x Lx. destruct (LK _ _ _ Lx) as (y & Ly & ->). simpl. apply (RF _ _ _ Ly).
  - intros i s x Lx. destruct (LK _ _ _ Lx) as (y & Ly & ->). simpl. apply (RF _ _ _ Ly).
  - intros i s x Lx. destruct (LK _ _ _ Lx) as (y & Ly & ->). simpl. rewrite Fc. eapply i_created; eauto.
  - intros i s q. rewrite Fc, Fn. apply (i_seqs _ _ _ I).
  - rewrite Fc. apply (i_nodup _ _ _ I).
  - intros i s q q'. rewrite Fc. apply (i_keys _ _ _ I).
  - intros i s q. rewrite Fc. intros Ic. destruct (S i (fst s)) as (r & ->). simpl. eapply i_gen; eauto.
  - intros i s x p Lx Px. destruct (LK _ _ _ Lx) as (y & Ly & ->). simpl in *.
    destruct (i_parent _ _ _ I _ _ _ _ Ly Px) as (pl & Lp & Ink & Lt).
    exists (set_refs pl (s_refs (st_slots st' i (fst p)))). rewrite (lookup_refs_only st st'), Lp by auto. simpl. auto.
  - intros i p x Lx. destruct (LK _ _ _ Lx) as (y & Ly & ->). simpl.
    destruct (i_kids _ _ _ I _ _ _ Ly) as (ND & KC). split; auto.
    intros c Ic. destruct (KC _ Ic) as (cl & Lc & Pc).
    exists (set_refs cl (s_refs (st_slots st' i (fst c)))). rewrite (lookup_refs_only st st'), Lc by auto. simpl. auto.
  - exact HN.
  - intros h i s Ih. rewrite (is_live_refs_only st st') by auto. eauto.
  - intros e Ie. rewrite (is_live_refs_only st st') by auto. eauto.
  - exact DU.
  - exact EN.
  - intros i x. destruct (S i x) as (r & ->). simpl. apply (i_vacant _ _ _ I).
  - exact C0.
  - rewrite Fk. apply (i_nopanic _ _ _ I).
  - intros i s x Lx l. rewrite Fl. destruct (LK _ _ _ Lx) as (y & Ly & ->). simpl. eapply i_ext; eauto.
  - intros i s x Lx. destruct (LK _ _ _ Lx) as (y & Ly & ->). simpl. rewrite Fp, (i_cpar _ _ _ I _ _ _ Ly).
    destruct (s_parent y); auto. rewrite (seq_at_refs_only st st'); auto.
  - intros ic sc c qq. rewrite Fc, Fp. apply (i_cpar_inst _ _ _ I).
  - intros c v. rewrite Fp, Fn. apply (i_cpar_dom _ _ _ I).
  - intros i s q l. rewrite Fc, Fl, (is_live_refs_only st st') by auto. apply (t_closed _ _ _ I).
  - intros q l. rewrite Fn. apply (t_closed_none _ _ _ I).
  - apply (t_fine _ _ _ I).
  - intros tr1 i l q e tr2 ic sc c E. rewrite Fc, Fp, Fl. eapply (t_children _ _ _ I); eauto.
Qed.

(** the invariant does not look at the slab-guard and filter fields *)
Lemma Inv_ghost : forall pend st st' tr, Inv pend st tr ->
  st_slots st' = st_slots st -> st_layers st' = st_layers st -> st_count st' = st_count st ->
  st_created st' = st_created st -> st_cpar st' = st_cpar st -> st_panicked st' = st_panicked st ->
  st_close st' = st_close st -> st_handles st' = st_handles st -> st_entries st' = st_entries st -> st_ene st' = st_ene st ->
  Inv pend st' tr.
Proof.
  intros pend st st' tr I Es El En Ec Ep Ek Ecl Eh Ee Eg.
  eapply Inv_refs_only; eauto.
  - split; [|repeat split; auto]. intros i x; rewrite Es. exists (s_refs (st_slots st i x)). destruct (st_slots st i x); reflexivity.
  - intros; rewrite Ecl; apply (i_close0 _ _ _ I).
  - rewrite Eh; apply (i_hnodup _ _ _ I).
  - rewrite Eh; apply (i_handles _ _ _ I).
  - rewrite Ee; apply (i_entries _ _ _ I).
  - rewrite Ee; apply (i_dups _ _ _ I).
  - rewrite Eg, Ee; apply (i_ene _ _ _ I).
  - intros i s sl L. rewrite Es. pose proof (lookup_some _ _ _ _ L) as (<- & _).
    unfold nH, nE. rewrite Eh, Ee. split; [apply (i_refs _ _ _ I _ _ _ L) | apply (i_pos _ _ _ I _ _ _ L)].
Qed.

(** a pending release turned into a (phantom) handle: the storage of a span reported closed under a guard keeps the
    reference on the parent *)
Lemma Inv_pend_to_handle : forall st tr i p ph, Inv (Some (i, p)) st tr -> is_live st i p = true ->
  hget ph (st_handles st) = None -> Inv None (set_handles ((ph, HSpan i p) :: st_handles st) st) tr.
Proof.
  intros st tr i p ph I V F.
  eapply Inv_refs_only with (st := st); eauto.
  - split; [|repeat split; auto]. intros i' x'; simpl. exists (s_refs (st_slots st i' x')). destruct (st_slots st i' x'); reflexivity.
  - apply (i_close0 _ _ _ I).
  - simpl. constructor; [apply hget_none; auto | apply (i_hnodup _ _ _ I)].
  - simpl. intros h0 i0 s0 [X|X]; [inversion X; subst; auto | eapply i_handles; eauto].
  - apply (i_entries _ _ _ I).
  - apply (i_dups _ _ _ I).
  - apply (i_ene _ _ _ I).
  - intros i' s' y Ly. simpl st_slots. pose proof (lookup_some _ _ _ _ Ly) as (Ey & _). rewrite <- Ey.
    split; [|apply (i_pos _ _ _ I _ _ _ Ly)]. rewrite (i_refs _ _ _ I _ _ _ Ly).
    change (nE (set_handles ((ph, HSpan i p) :: st_handles st) st) i' s') with (nE st i' s').
    assert (EH : nH (set_handles ((ph, HSpan i p) :: st_handles st) st) i' s' = pendn (Some (i, p)) i' s' + nH st i' s').
    { unfold nH, pendn. simpl st_handles. simpl filter. unfold hmatch at 1. simpl snd.
      destruct ((i =? i') && sid_eqb p s'); reflexivity. }
    rewrite EH, pendn_none. f_equal. lia.
Qed.

(* ---------------------------------------------------------------- Layered::try_close, whole *)
Lemma forallb_app_l : forall {A} (f : A -> bool) a b, forallb f (a ++ b) = true -> forallb f a = true /\ forallb f b = true.
Proof. intros; rewrite forallb_app in H; apply andb_true_iff in H; auto. Qed.

Lemma on_close_map : forall st i s sl n, lookup st i s = Some sl ->
  (forall l, l < n -> ext_get l (s_ext sl) = Some (s_seq sl)) ->
  map (fun l => on_close_obs st i l s) (seq 0 n) = map (fun l => OClose i l (s_seq sl) (Some (s_seq sl))) (seq 0 n).
Proof.
  intros st i s sl n L E. apply map_ext_in. intros l Il. apply in_seq in Il.
  unfold on_close_obs. rewrite L, E by lia. reflexivity.
Qed.

Lemma close_stack_inv : forall fuel st tr t nested i s sl,
  Inv (Some (i, s)) st tr -> lookup st i s = Some sl -> s_seq sl < fuel ->
  forall st' o, close_stack fuel st t nested i s = (st', o) -> forallb route_ok o = true ->
  Inv None st' (tr ++ o).
Proof.
  induction fuel as [|f IH]; intros st tr t nested i s sl I L Lt st' o CS RO; [lia|].
  simpl in CS.
  set (n := st_layers st i) in *.
  assert (Hn : 1 <= n) by apply (i_layers _ _ _ I).
  pose proof (i_refs _ _ _ I _ _ _ L) as R. rewrite pendn_same in R.
  set (k := nH st i s + nE st i s + length (s_kids sl)) in *.
  unfold reg_try_close in CS.
  change (lookup (add_close st t n) i s) with (lookup st i s) in CS. rewrite L in CS.
  assert (R0 : N.eqb (s_refs sl) 0 = false) by (apply N.eqb_neq; lia). rewrite R0 in CS.
  assert (C0 : cget t (st_close st) = 0) by apply (i_close0 _ _ _ I).
  destruct (N.ltb 1 (s_refs sl)) eqn:E1; simpl in CS.
  - (* other references remain *)
    apply N.ltb_lt in E1. inversion CS; subst st' o; clear CS. rewrite app_nil_r.
    eapply Inv_refs_only with (st := st); eauto.
    + split; [|repeat split]. intros i' x'. simpl.
      destruct ((i' =? i) && N.eqb x' (fst s)) eqn:E.
      * apply andb_true_iff in E. destruct E as (Ea & Eb). apply Nat.eqb_eq in Ea; apply N.eqb_eq in Eb; subst.
        pose proof (lookup_some _ _ _ _ L) as (<- & _). eauto.
      * exists (s_refs (st_slots st i' x')). destruct (st_slots st i' x'); reflexivity.
    + intros t'. simpl. rewrite !cget_cput. rewrite Nat.eqb_refl. destruct (t' =? t) eqn:Et.
      * rewrite C0. lia.
      * apply (i_close0 _ _ _ I).
    + apply (i_hnodup _ _ _ I).
    + apply (i_handles _ _ _ I).
    + apply (i_entries _ _ _ I).
    + apply (i_dups _ _ _ I).
    + apply (i_ene _ _ _ I).
    + intros i' s' y Ly. simpl.
      change (nH _ i' s') with (nH st i' s'). change (nE _ i' s') with (nE st i' s').
      destruct ((i' =? i) && N.eqb (fst s') (fst s)) eqn:E.
      * apply andb_true_iff in E. destruct E as (Ea & Eb). apply Nat.eqb_eq in Ea; apply N.eqb_eq in Eb; subst i'.
        assert (s' = s) by (eapply lookup_same_idx; eauto). subst s'. rewrite L in Ly; inversion Ly; subst y.
        simpl. fold k. rewrite R. split; lia.
      * pose proof (lookup_some _ _ _ _ Ly) as (Ey & _). rewrite <- Ey. split; [|eapply i_pos; eauto].
        rewrite (i_refs _ _ _ I _ _ _ Ly).
        rewrite pendn_other; auto. intros X; inversion X; subst. rewrite Nat.eqb_refl, N.eqb_refl in E; discriminate.
  - (* this call takes the count to zero *)
    apply N.ltb_ge in E1. assert (R1 : s_refs sl = 1%N) by lia.
    replace (s_refs sl - 1)%N with 0%N in CS by lia.
    rewrite frames_eq in CS.
    2:{ simpl. rewrite cget_cput, Nat.eqb_refl, seq_length. lia. }
    2:{ destruct n; [lia|]. simpl. discriminate. }
    set (c' := cput t 0 (st_close (upd_slot (add_close st t n) i (fst s) (set_refs sl 0%N)))) in *.
    set (st1 := upd_slot (add_close st t n) i (fst s) (set_refs sl 0%N)) in *.
    assert (L1 : lookup st1 i s = Some (set_refs sl 0%N)).
    { unfold st1. rewrite (lookup_upd_shape _ i s sl); [rewrite key_eqb_refl; reflexivity | exact L | apply same_shape_refs]. }
    assert (C0' : forall t', cget t' c' = 0).
    { intros t'. unfold c'. rewrite cget_cput. destruct (t' =? t) eqn:Et; auto. simpl. rewrite cget_cput, Et.
      apply (i_close0 _ _ _ I). }
    pose proof (closing_inv st tr c' i s sl I L R1 C0') as IV.
    rewrite (on_close_map st1 i s (set_refs sl 0%N) n L1) in CS.
    2:{ intros l Hl. simpl. apply (i_ext _ _ _ I _ _ _ L). exact Hl. }
    simpl s_seq in CS.
    unfold clear_slot in CS.
    change (lookup (put_close st1 t 0) i s) with (lookup st1 i s) in CS. rewrite L1 in CS.
    change (vacate (put_close st1 t 0) i s (set_refs sl 0%N)) with (closing st c' i s sl) in CS.
    simpl s_parent in CS. simpl s_seq in CS.
    set (stv := closing st c' i s sl) in *.
    destruct (closing_fields st c' i s sl) as (Fl & Fh & Fe & Fg & Fc & Fn & Fp & Fk & Fcl & Fd & Fs & Fgl). fold stv in Fl, Fh, Fe, Fg, Fc, Fn, Fp, Fk, Fcl, Fd, Fs, Fgl.
    destruct (s_parent sl) as [p|] eqn:P.
    + destruct (i_parent _ _ _ I _ _ _ _ L P) as (pl & Lp & Ink & Ltp).
      assert (Lp' : lookup stv i p = Some (unkid s pl)).
      { unfold stv. rewrite lookup_closing; auto.
        - rewrite P, Lp, key_eqb_refl. rewrite key_eqb_false; auto.
          intros X; inversion X; subst. rewrite L in Lp; inversion Lp; subst; lia.
        - intros p0 P0. rewrite P in P0; inversion P0; subst p0. split; eauto.
          intros ->. rewrite L in Lp; inversion Lp; subst; lia. }
      match type of CS with (let '(_, _) := (if ?B then _ else _) in _) = _ => destruct B eqn:EB end.
      * (* a guard keeps the storage: the parent reference becomes a phantom handle, no cascade *)
        apply andb_true_iff in EB. destruct EB as (_ & EB).
        change (st_handles (put_close st1 t 0)) with (st_handles st) in EB.
        destruct (hget (phantom (s_seq sl)) (st_handles st)) eqn:HG; [discriminate|].
        inversion CS; subst st' o; clear CS. rewrite app_nil_r.
        eapply Inv_ghost; [eapply (Inv_pend_to_handle stv _ i p (phantom (s_seq sl)) IV)|..]; try reflexivity.
        -- apply is_live_true; eauto.
        -- rewrite Fh. exact HG.
      * (* release the parent through get_default *)
        set (std := drop_note stv i s) in *.
        change (eff std t nested) with (eff stv t nested) in CS.
        destruct (eff stv t nested) as [j|] eqn:Ed.
        -- destruct (close_stack f std t nested j p) as [st'' o''] eqn:CS2.
           inversion CS; subst st' o; clear CS.
           apply forallb_app_l in RO. destruct RO as (_ & RO). simpl in RO. apply andb_true_iff in RO. destruct RO as (Rj & RO).
           apply Nat.eqb_eq in Rj. subst j.
           assert (IV' : Inv (Some (i, p)) std ((tr ++ map (fun l => OClose i l (s_seq sl) (Some (s_seq sl))) (seq 0 n)) ++ [ORoute i (Some i)])).
           { apply Inv_inert; [|intros o [<-|[]]; split; simpl; auto]. eapply Inv_ghost; [exact IV|..]; reflexivity. }
           pose proof (IH _ _ _ _ _ _ _ IV' Lp' ltac:(simpl; lia) _ _ CS2 RO) as IF.
           rewrite <- !app_assoc in IF. simpl in IF. exact IF.
        -- inversion CS; subst st' o; clear CS.
           apply forallb_app_l in RO. destruct RO as (_ & RO). simpl in RO. discriminate.
    + match type of CS with (let '(_, _) := (if ?B then _ else _) in _) = _ => destruct B end;
        inversion CS; subst st' o; clear CS; rewrite app_nil_r; (eapply Inv_ghost; [exact IV|..]; reflexivity).
Qed.
