(** Registry/MicroProofs.v — proofs about the micro-step model Registry/Micro.v.

    One inductive invariant [MInv] is preserved by every micro-operation; the theorems micro_* at the end hold
    for [mrun ops] for EVERY list [ops] of micro-operations, i.e. for every schedule of the fetch_add /
    fetch_sub / on_close / clear steps of any number of threads. *)
From Coq Require Import List Arith Bool Lia PeanoNat.
From TV Require Import Registry.Micro.
Import ListNotations.
Local Open Scope nat_scope.

(* ================================================================== *)
(** * Generic list lemmas: cnt, rm1, find *)

Lemma cnt_app {A} (f : A -> bool) l1 l2 : cnt f (l1 ++ l2) = cnt f l1 + cnt f l2.
Proof. induction l1; simpl; lia. Qed.

Lemma cnt_ext_in {A} (f g : A -> bool) l : (forall x, In x l -> f x = g x) -> cnt f l = cnt g l.
Proof.
  induction l as [|a r IH]; simpl; intros H; [reflexivity|].
  rewrite (H a) by auto. rewrite IH; auto.
Qed.

Lemma cnt_zero {A} (f : A -> bool) l : (forall x, In x l -> f x = false) -> cnt f l = 0.
Proof.
  induction l as [|a r IH]; simpl; intros H; [reflexivity|].
  rewrite (H a) by auto. rewrite IH; auto.
Qed.

Lemma cnt_in_pos {A} (f : A -> bool) l x : In x l -> f x = true -> 1 <= cnt f l.
Proof.
  induction l as [|a r IH]; simpl; [intros []|].
  intros [->|H] Hx; [rewrite Hx; lia|].
  specialize (IH H Hx). lia.
Qed.

Lemma cnt_rm1 {A} (f g : A -> bool) l x :
  find f l = Some x -> cnt g (rm1 f l) + (if g x then 1 else 0) = cnt g l.
Proof.
  induction l as [|a r IH]; simpl; [discriminate|].
  destruct (f a).
  - intros [= <-]. lia.
  - intros H. specialize (IH H). simpl. lia.
Qed.

Lemma rm1_none {A} (f : A -> bool) l : find f l = None -> rm1 f l = l.
Proof.
  induction l as [|a r IH]; simpl; [reflexivity|].
  destruct (f a); [discriminate|]. intros H. now rewrite IH.
Qed.

Lemma existsb_find {A} (f : A -> bool) l :
  existsb f l = true -> exists x, find f l = Some x /\ f x = true.
Proof.
  induction l as [|a r IH]; simpl; [discriminate|].
  destruct (f a) eqn:E; simpl; intros H; [exists a; auto | auto].
Qed.

(* ================================================================== *)
(** * Tokens *)

Lemma hcnt_cons q t s l : hcnt q ((t, s) :: l) = (if q =? s then 1 else 0) + hcnt q l.
Proof. reflexivity. Qed.

Lemma hcnt_rm q t s l :
  has_tok t s l = true -> hcnt q (rm_tok t s l) + (if q =? s then 1 else 0) = hcnt q l.
Proof.
  intros H. apply existsb_find in H. destruct H as [x [Hf Hx]].
  unfold hcnt, rm_tok. rewrite <- (cnt_rm1 _ (fun x => q =? snd x) _ _ Hf).
  unfold tok_is in Hx. apply andb_prop in Hx. destruct Hx as [_ Hx]. apply Nat.eqb_eq in Hx.
  now rewrite Hx.
Qed.

Lemma hcnt_pos t s l : has_tok t s l = true -> 1 <= hcnt s l.
Proof. intros H. pose proof (hcnt_rm s t s l H) as E. rewrite Nat.eqb_refl in E. lia. Qed.

(* ================================================================== *)
(** * Tasks *)

Lemma tcnt_rm (P : task -> bool) t l k :
  task_of t l = Some k -> tcnt P (rm1 (key_is t) l) + (if P k then 1 else 0) = tcnt P l.
Proof.
  unfold task_of, tcnt. destruct (find (key_is t) l) eqn:E; [|discriminate].
  intros [= <-]. apply (cnt_rm1 _ (fun x => P (snd x)) _ _ E).
Qed.

Lemma task_rm_none t l : task_of t l = None -> rm1 (key_is t) l = l.
Proof.
  unfold task_of. destruct (find (key_is t) l) eqn:E; [discriminate|]. intros _. now apply rm1_none.
Qed.

(** The one delta lemma for every change of a thread's task. *)
Lemma tcnt_set (P : task -> bool) t o l :
  tcnt P (set_task t o l) + match task_of t l with Some k => if P k then 1 else 0 | None => 0 end
  = tcnt P l + match o with Some k => if P k then 1 else 0 | None => 0 end.
Proof.
  destruct (task_of t l) as [k|] eqn:E.
  - pose proof (tcnt_rm P t l k E) as H. destruct o; simpl; unfold tcnt in *; simpl; lia.
  - unfold set_task. destruct o; rewrite (task_rm_none t l E); unfold tcnt; simpl; lia.
Qed.

Lemma tcnt_pos (P : task -> bool) t l k : task_of t l = Some k -> P k = true -> 1 <= tcnt P l.
Proof. intros E H. pose proof (tcnt_rm P t l k E) as D. rewrite H in D. lia. Qed.

Lemma rm1_keys_in t' t l : In t' (map fst (rm1 (key_is t) l)) -> In t' (map fst l).
Proof.
  induction l as [|a r IH]; simpl; [auto|].
  destruct (key_is t a); simpl; intuition.
Qed.

Lemma rm1_keys_nodup t l : NoDup (map fst l) -> NoDup (map fst (rm1 (key_is t) l)).
Proof.
  induction l as [|a r IH]; simpl; [auto|]. intros H. inversion H; subst.
  destruct (key_is t a); simpl; [assumption|].
  constructor; [|auto]. intros Hin. apply rm1_keys_in in Hin. contradiction.
Qed.

Lemma rm1_keys_notin t l : NoDup (map fst l) -> ~ In t (map fst (rm1 (key_is t) l)).
Proof.
  induction l as [|a r IH]; simpl; [auto|]. intros H. inversion H; subst.
  destruct (key_is t a) eqn:E; unfold key_is in E.
  - apply Nat.eqb_eq in E. now rewrite <- E.
  - apply Nat.eqb_neq in E. simpl. intros [Hin|Hin]; [contradiction|]. now apply IH.
Qed.

Lemma set_task_nodup t o l : NoDup (map fst l) -> NoDup (map fst (set_task t o l)).
Proof.
  intros H. destruct o; simpl.
  - constructor; [now apply rm1_keys_notin | now apply rm1_keys_nodup].
  - now apply rm1_keys_nodup.
Qed.

Lemma find_rm1_other t t' l :
  t <> t' -> find (key_is t') (rm1 (key_is t) l) = find (key_is t') l.
Proof.
  intros Hne. induction l as [|a r IH]; simpl; [reflexivity|].
  destruct (key_is t a) eqn:E1.
  - unfold key_is in *. apply Nat.eqb_eq in E1.
    destruct (Nat.eqb_spec (fst a) t'); [congruence | reflexivity].
  - simpl. destruct (key_is t' a); [reflexivity | exact IH].
Qed.

Lemma two_tasks (P : task -> bool) t1 t2 k1 k2 l :
  t1 <> t2 -> task_of t1 l = Some k1 -> task_of t2 l = Some k2 ->
  (if P k1 then 1 else 0) + (if P k2 then 1 else 0) <= tcnt P l.
Proof.
  intros Hne E1 E2.
  pose proof (tcnt_rm P t1 l k1 E1) as D1.
  assert (E2' : task_of t2 (rm1 (key_is t1) l) = Some k2).
  { unfold task_of in *. now rewrite find_rm1_other. }
  pose proof (tcnt_rm P t2 _ k2 E2') as D2. lia.
Qed.

Lemma all_idle_nil l : (forall t, task_of t l = None) -> l = [].
Proof.
  destruct l as [|[t k] r]; [reflexivity|]. intros H. specialize (H t).
  unfold task_of in H. simpl in H. unfold key_is in H. simpl in H. rewrite Nat.eqb_refl in H. discriminate.
Qed.

(* ================================================================== *)
(** * Children *)

Lemma kcnt_S par clr q n :
  kcnt par clr q (S n) = kcnt par clr q n + (if is_kid par clr q n then 1 else 0).
Proof. unfold kcnt. rewrite seq_S, cnt_app. simpl. lia. Qed.

Lemma kcnt_ext par clr par' clr' q n :
  (forall c, c < n -> par' c = par c /\ clr' c = clr c) -> kcnt par' clr' q n = kcnt par clr q n.
Proof.
  intros H. unfold kcnt. apply cnt_ext_in. intros c Hc. apply in_seq in Hc.
  destruct (H c) as [E1 E2]; [lia|]. unfold is_kid. now rewrite E1, E2.
Qed.

(** creating span n with parent x *)
Lemma kcnt_new par clr q n x :
  kcnt (upd par n x) (upd clr n false) q (S n)
  = kcnt par clr q n + match x with Some p => if q =? p then 1 else 0 | None => 0 end.
Proof.
  rewrite kcnt_S. f_equal.
  - apply kcnt_ext. intros c Hc. unfold upd.
    destruct (Nat.eqb_spec c n); [lia | auto].
  - unfold is_kid, upd. rewrite Nat.eqb_refl. destruct x; [|reflexivity].
    simpl. now rewrite andb_true_r.
Qed.

(** clearing span s *)
Lemma kcnt_clear par clr q n s :
  s < n -> clr s = false ->
  kcnt par (upd clr s true) q n + match par s with Some p => if q =? p then 1 else 0 | None => 0 end
  = kcnt par clr q n.
Proof.
  intros Hs Hc. induction n as [|n IH]; [lia|].
  rewrite !kcnt_S. destruct (Nat.eq_dec s n) as [->|Hne].
  - rewrite (kcnt_ext par clr par (upd clr n true) q n).
    2:{ intros c Hlt. unfold upd. destruct (Nat.eqb_spec c n); [lia | auto]. }
    unfold is_kid, upd. rewrite Nat.eqb_refl, Hc. destruct (par n); [|lia].
    simpl. rewrite andb_false_r, andb_true_r. lia.
  - assert (Hlt : s < n) by lia. specialize (IH Hlt).
    assert (E : is_kid par (upd clr s true) q n = is_kid par clr q n).
    { unfold is_kid, upd. destruct (Nat.eqb_spec n s); [lia | reflexivity]. }
    rewrite E. lia.
Qed.

Lemma kcnt_fresh par clr q n :
  (forall c p, par c = Some p -> p < c /\ c < n) -> n <= q -> kcnt par clr q n = 0.
Proof.
  intros H Hq. unfold kcnt. apply cnt_zero. intros c Hc. apply in_seq in Hc.
  unfold is_kid. destruct (par c) as [p|] eqn:E; [|reflexivity].
  apply H in E. destruct (Nat.eqb_spec q p); [lia | reflexivity].
Qed.

Lemma kcnt_pos par clr p n c :
  c < n -> par c = Some p -> clr c = false -> 1 <= kcnt par clr p n.
Proof.
  intros Hc Hp Hcl. unfold kcnt. apply (cnt_in_pos _ _ c).
  - apply in_seq. lia.
  - unfold is_kid. now rewrite Hp, Hcl, Nat.eqb_refl.
Qed.

(* ================================================================== *)
(** * The invariant *)

(** Per-span invariant, as arithmetic over the counting functions.  [n] = m_count.
      cleared (Gone)      : nothing refers to s any more, reported exactly once
      s < n, not cleared  : refs = tokens + live children + in-flight cascade fetch_subs;
                            at most one thread is closing s (TClose s or TClear s), exactly when refs = 0;
                            reported (closed = 1) exactly in the TClear phase
      s >= n (not created): nothing refers to s *)
Definition span_ok (s n refs held kids rel close clear closed : nat) (clr : bool) : Prop :=
  if clr then
    s < n /\ held = 0 /\ kids = 0 /\ rel = 0 /\ close = 0 /\ clear = 0 /\ closed = 1 /\ refs = 0
  else
    (s < n -> refs = held + kids + rel /\ close + clear <= 1 /\ closed = clear
              /\ (refs = 0 <-> close + clear = 1))
    /\ (n <= s -> held = 0 /\ rel = 0 /\ close = 0 /\ clear = 0 /\ closed = 0).

Definition span_inv (st : mstate) (s : nat) : Prop :=
  span_ok s (m_count st) (m_refs st s) (held_n st s) (kids_n st s) (rel_n st s) (close_n st s)
          (clear_n st s) (m_closed st s) (m_cleared st s).

Record MInv (st : mstate) : Prop := {
  inv_bad : m_bad st = false;
  inv_keys : NoDup (map fst (m_tasks st));
  inv_par : forall c p, m_parent st c = Some p -> p < c /\ c < m_count st;
  inv_span : forall s, span_inv st s
}.

Ltac unf :=
  unfold span_inv, held_n, kids_n, rel_n, close_n, clear_n, m_task, set_held in *;
  cbn [m_count m_refs m_parent m_cleared m_closed m_held m_tasks m_bad] in *.

(** split on q = s and normalise every [q =? s] / [s =? q] *)
Ltac eqcase q s :=
  let Hne := fresh "Hne" in
  destruct (Nat.eq_dec q s) as [?|Hne];
  [ subst; rewrite ?Nat.eqb_refl in *
  | rewrite ?(proj2 (Nat.eqb_neq _ _) Hne), ?(proj2 (Nat.eqb_neq _ _) (not_eq_sym Hne)) in * ].

Ltac fin :=
  unfold span_ok in *;
  repeat match goal with H : context[if _ then _ else _] |- _ => revert H end;
  repeat match goal with |- context[if ?b then _ else _] => destruct b eqn:? end;
  intros;
  repeat match goal with
         | H : (_ =? _) = true |- _ => apply Nat.eqb_eq in H
         | H : (_ =? _) = false |- _ => apply Nat.eqb_neq in H
         end;
  try discriminate; try congruence; try lia.

Lemma upd_eq {A} (f : nat -> A) k v x : upd f k v x = if x =? k then v else f x.
Proof. reflexivity. Qed.

Lemma minit_inv : MInv minit.
Proof.
  constructor; simpl.
  - reflexivity.
  - constructor.
  - discriminate.
  - intro s. unfold span_inv, span_ok, held_n, kids_n, rel_n, close_n, clear_n, tcnt, hcnt, kcnt. simpl. lia.
Qed.

(** anything that refers to s (a token, a pending task) proves s is created and not cleared *)
Lemma live_of_pos st s :
  MInv st -> 1 <= held_n st s + rel_n st s + close_n st s + clear_n st s ->
  s < m_count st /\ m_cleared st s = false.
Proof.
  intros I H. pose proof (inv_span _ I s) as Hs. unfold span_inv, span_ok in Hs.
  destruct (m_cleared st s); [exfalso; lia|]. split; [lia | reflexivity].
Qed.

(* ---------------- MSend ---------------- *)
Lemma send_inv t t' s st : MInv st -> MInv (do_send t t' s st).
Proof.
  intros I. unfold do_send. destruct (has_tok t s (m_held st)) eqn:Htok; [|exact I].
  constructor; unf; try apply I.
  intro q. pose proof (inv_span _ I q) as Hq. unf.
  rewrite hcnt_cons. pose proof (hcnt_rm q _ _ _ Htok) as D.
  eqcase q s; fin.
Qed.

(* ---------------- MClone ---------------- *)
Lemma clone_inv t s st : MInv st -> MInv (do_clone t s st).
Proof.
  intros I. unfold do_clone. destruct (m_task st t); [exact I|].
  destruct (has_tok t s (m_held st)) eqn:Htok; [|exact I].
  pose proof (hcnt_pos _ _ _ Htok) as Hpos.
  destruct (live_of_pos st s I) as [Hlt Hclr]; [unfold held_n; lia|].
  pose proof (inv_span _ I s) as Hs. unf. rewrite Hclr in *. simpl orb.
  destruct (Nat.eqb_spec (m_refs st s) 0) as [Hz|Hz]; [exfalso; fin|].
  constructor; unf; try apply I.
  intro q. pose proof (inv_span _ I q) as Hq. unf.
  rewrite hcnt_cons. rewrite ?upd_eq.
  eqcase q s; fin.
Qed.

(* ---------------- MNew ---------------- *)
Lemma new_inv t par st : MInv st -> MInv (do_new t par st).
Proof.
  intros I. unfold do_new. destruct (m_task st t); [exact I|].
  pose proof (kcnt_fresh (m_parent st) (m_cleared st) (m_count st) (m_count st) (inv_par _ I) (le_n _)) as Hfresh.
  pose proof (inv_span _ I (m_count st)) as Hn.
  destruct par as [p|].
  - destruct (has_tok t p (m_held st)) eqn:Htok; [|exact I].
    pose proof (hcnt_pos _ _ _ Htok) as Hpos.
    destruct (live_of_pos st p I) as [Hlt Hclr]; [unfold held_n; lia|].
    pose proof (inv_span _ I p) as Hp.
    assert (Hnp : (m_count st =? p) = false) by (apply Nat.eqb_neq; lia).
    unfold new_state. constructor; unf; try apply I.
    + intros c p'. unfold upd. destruct (Nat.eqb_spec c (m_count st)) as [->|Hc].
      * intros [= <-]. lia.
      * intros H. apply (inv_par _ I) in H. lia.
    + intro q. pose proof (inv_span _ I q) as Hq. unf.
      rewrite hcnt_cons, kcnt_new. pose proof (hcnt_rm q _ _ _ Htok) as D.
      rewrite ?upd_eq.
      eqcase q (m_count st); [rewrite ?Hnp in * | eqcase q p]; fin.
  - unfold new_state. constructor; unf; try apply I.
    + intros c p'. unfold upd. destruct (Nat.eqb_spec c (m_count st)) as [->|Hc].
      * discriminate.
      * intros H. apply (inv_par _ I) in H. lia.
    + intro q. pose proof (inv_span _ I q) as Hq. unf.
      rewrite hcnt_cons, kcnt_new. rewrite ?upd_eq.
      eqcase q (m_count st); fin.
Qed.

(* ---------------- MDrop ---------------- *)
Lemma drop_inv t s st : MInv st -> MInv (do_drop t s st).
Proof.
  intros I. unfold do_drop. destruct (m_task st t) eqn:Ht; [exact I|].
  destruct (has_tok t s (m_held st)) eqn:Htok; [|exact I].
  pose proof (hcnt_pos _ _ _ Htok) as Hpos.
  destruct (live_of_pos st s I) as [Hlt Hclr]; [unfold held_n; lia|].
  pose proof (inv_span _ I s) as Hs. unfold fetch_sub. unf. rewrite Hclr in *. simpl orb.
  destruct (Nat.eqb_spec (m_refs st s) 0) as [Hz|Hz]; [exfalso; fin|].
  constructor; unf; try apply I.
  - apply set_task_nodup, I.
  - intro q. pose proof (inv_span _ I q) as Hq. unf.
    pose proof (hcnt_rm q _ _ _ Htok) as D. rewrite ?upd_eq.
    match goal with |- context[set_task t ?o _] =>
      pose proof (tcnt_set (is_rel q) t o (m_tasks st)) as Dr;
      pose proof (tcnt_set (is_close q) t o (m_tasks st)) as Dc;
      pose proof (tcnt_set (is_clear q) t o (m_tasks st)) as Dl
    end.
    rewrite Ht in *.
    destruct (Nat.eqb_spec (m_refs st s) 1) as [H1|H1]; cbn [is_rel is_close is_clear] in *;
      eqcase q s; fin.
Qed.

(* ---------------- MRel ---------------- *)
Lemma rel_inv t st : MInv st -> MInv (do_rel t st).
Proof.
  intros I. unfold do_rel. destruct (m_task st t) as [[s|s|p]|] eqn:Ht; try exact I.
  unf.
  pose proof (tcnt_pos (is_rel p) t _ _ Ht) as Hpos. cbn [is_rel] in Hpos.
  rewrite Nat.eqb_refl in Hpos. specialize (Hpos eq_refl).
  destruct (live_of_pos st p I) as [Hlt Hclr]; [unfold rel_n; lia|].
  pose proof (inv_span _ I p) as Hs. unfold fetch_sub. unf. rewrite Hclr in *. simpl orb.
  destruct (Nat.eqb_spec (m_refs st p) 0) as [Hz|Hz]; [exfalso; fin|].
  constructor; unf; try apply I.
  - apply set_task_nodup, I.
  - intro q. pose proof (inv_span _ I q) as Hq. unf. rewrite ?upd_eq.
    match goal with |- context[set_task t ?o _] =>
      pose proof (tcnt_set (is_rel q) t o (m_tasks st)) as Dr;
      pose proof (tcnt_set (is_close q) t o (m_tasks st)) as Dc;
      pose proof (tcnt_set (is_clear q) t o (m_tasks st)) as Dl
    end.
    rewrite Ht in *.
    destruct (Nat.eqb_spec (m_refs st p) 1) as [H1|H1]; cbn [is_rel is_close is_clear] in *;
      eqcase q p; fin.
Qed.

(* ---------------- MOnClose ---------------- *)
Lemma onclose_inv t st : MInv st -> MInv (do_onclose t st).
Proof.
  intros I. unfold do_onclose. destruct (m_task st t) as [[s|s|p]|] eqn:Ht; try exact I.
  unf.
  pose proof (tcnt_pos (is_close s) t _ _ Ht) as Hpos. cbn [is_close] in Hpos.
  rewrite Nat.eqb_refl in Hpos. specialize (Hpos eq_refl).
  destruct (live_of_pos st s I) as [Hlt Hclr]; [unfold close_n; lia|].
  pose proof (inv_span _ I s) as Hs. unf.
  constructor; unf; try apply I.
  - rewrite Hclr, (inv_bad _ I). reflexivity.
  - apply (set_task_nodup t (Some (TClear s))), I.
  - intro q. pose proof (inv_span _ I q) as Hq. unf. rewrite ?upd_eq.
    match goal with |- context[set_task t ?o _] =>
      pose proof (tcnt_set (is_rel q) t o (m_tasks st)) as Dr;
      pose proof (tcnt_set (is_close q) t o (m_tasks st)) as Dc;
      pose proof (tcnt_set (is_clear q) t o (m_tasks st)) as Dl
    end.
    rewrite Ht in *. cbn [is_rel is_close is_clear] in *.
    eqcase q s; fin.
Qed.

(* ---------------- MClear ---------------- *)
Lemma clear_inv t st : MInv st -> MInv (do_clear t st).
Proof.
  intros I. unfold do_clear. destruct (m_task st t) as [[s|s|p]|] eqn:Ht; try exact I.
  unf.
  pose proof (tcnt_pos (is_clear s) t _ _ Ht) as Hpos. cbn [is_clear] in Hpos.
  rewrite Nat.eqb_refl in Hpos. specialize (Hpos eq_refl).
  destruct (live_of_pos st s I) as [Hlt Hclr]; [unfold clear_n; lia|].
  pose proof (inv_span _ I s) as Hs. unf.
  constructor; unf; try apply I.
  - apply set_task_nodup, I.
  - intro q. pose proof (inv_span _ I q) as Hq. unf. rewrite ?upd_eq.
    pose proof (kcnt_clear (m_parent st) (m_cleared st) q (m_count st) s Hlt Hclr) as Dk.
    match goal with |- context[set_task t ?o _] =>
      pose proof (tcnt_set (is_rel q) t o (m_tasks st)) as Dr;
      pose proof (tcnt_set (is_close q) t o (m_tasks st)) as Dc;
      pose proof (tcnt_set (is_clear q) t o (m_tasks st)) as Dl
    end.
    rewrite Ht in *.
    destruct (m_parent st s) as [p|] eqn:Hp; cbn [is_rel is_close is_clear] in *.
    + pose proof (inv_par _ I _ _ Hp) as [Hps _].
      assert (Hsp : (s =? p) = false) by (apply Nat.eqb_neq; lia).
      eqcase q s; [rewrite ?Hsp in * | eqcase q p]; fin.
    + eqcase q s; fin.
Qed.

(* ---------------- every step, every run ---------------- *)
Lemma mstep_inv st op : MInv st -> MInv (mstep st op).
Proof.
  destruct op; simpl.
  - apply new_inv.
  - apply clone_inv.
  - apply send_inv.
  - apply drop_inv.
  - apply onclose_inv.
  - apply clear_inv.
  - apply rel_inv.
Qed.

Lemma fold_inv ops : forall st, MInv st -> MInv (fold_left mstep ops st).
Proof.
  induction ops as [|op ops IH]; simpl; intros st I; [exact I|].
  apply IH, mstep_inv, I.
Qed.

Lemma mrun_inv ops : MInv (mrun ops).
Proof. apply fold_inv, minit_inv. Qed.

(* ================================================================== *)
(** * The theorems: every schedule of the micro-steps *)

(** 1. The reference count of a span that is still in the registry is exactly the number of references
       that exist: tokens held by threads + live children + cascade fetch_subs in flight. *)
Theorem micro_refcount : forall (ops : list mop) (s : nat),
  let st := mrun ops in
  s < m_count st -> m_cleared st s = false ->
  m_refs st s = held_n st s + kids_n st s + rel_n st s.
Proof.
  intros ops s st Hlt Hclr. pose proof (inv_span _ (mrun_inv ops) s) as Hs. fold st in Hs.
  unfold span_inv, span_ok in Hs. rewrite Hclr in Hs. lia.
Qed.

(** 2. No panic, no underflow, and every on_close finds its span in the registry. *)
Theorem micro_no_bad : forall ops : list mop, m_bad (mrun ops) = false.
Proof. intros ops. apply (inv_bad _ (mrun_inv ops)). Qed.

(** 3. A span is reported closed at most once. *)
Theorem micro_at_most_once : forall (ops : list mop) (s : nat), m_closed (mrun ops) s <= 1.
Proof.
  intros ops s. pose proof (inv_span _ (mrun_inv ops) s) as Hs.
  unfold span_inv, span_ok in Hs. destruct (m_cleared (mrun ops) s); lia.
Qed.

(** 4. When a span has been reported closed, no reference to it exists, and every child it ever had has
       been reported closed AND removed before (children first). *)
Theorem micro_closed_not_early : forall (ops : list mop) (s : nat),
  let st := mrun ops in
  m_closed st s = 1 ->
  held_n st s = 0 /\ rel_n st s = 0 /\ m_refs st s = 0 /\
  (forall c, c < m_count st -> m_parent st c = Some s -> m_closed st c = 1 /\ m_cleared st c = true).
Proof.
  intros ops s st Hc. pose proof (mrun_inv ops) as I. fold st in I.
  pose proof (inv_span _ I s) as Hs. unfold span_inv, span_ok in Hs.
  assert (Hk : held_n st s = 0 /\ rel_n st s = 0 /\ m_refs st s = 0 /\ kids_n st s = 0).
  { destruct (m_cleared st s); [lia|].
    destruct (Nat.lt_ge_cases s (m_count st)); lia. }
  destruct Hk as [H1 [H2 [H3 H4]]]. repeat split; try assumption.
  - destruct (m_cleared st c) eqn:Ec.
    + pose proof (inv_span _ I c) as Hcc. unfold span_inv, span_ok in Hcc. rewrite Ec in Hcc. lia.
    + pose proof (kcnt_pos (m_parent st) (m_cleared st) s (m_count st) c H H0 Ec) as Hp.
      unfold kids_n in H4. lia.
  - destruct (m_cleared st c) eqn:Ec; [reflexivity|].
    pose proof (kcnt_pos (m_parent st) (m_cleared st) s (m_count st) c H H0 Ec) as Hp.
    unfold kids_n in H4. lia.
Qed.

(** 5. At most one thread is closing a span (between its fetch_sub that saw 1 and the clear of the slot);
       while it does, the count stays 0 and the span stays in the registry; on_close has not been / has
       been run according to the phase. *)
Theorem micro_unique_closer : forall (ops : list mop) (s : nat),
  let st := mrun ops in
  NoDup (map fst (m_tasks st)) /\
  close_n st s + clear_n st s <= 1 /\
  (forall t1 t2,
      (m_task st t1 = Some (TClose s) \/ m_task st t1 = Some (TClear s)) ->
      (m_task st t2 = Some (TClose s) \/ m_task st t2 = Some (TClear s)) -> t1 = t2) /\
  (forall t, m_task st t = Some (TClose s) ->
             m_refs st s = 0 /\ m_closed st s = 0 /\ m_cleared st s = false) /\
  (forall t, m_task st t = Some (TClear s) ->
             m_refs st s = 0 /\ m_closed st s = 1 /\ m_cleared st s = false).
Proof.
  intros ops s st. pose proof (mrun_inv ops) as I. fold st in I.
  pose proof (inv_span _ I s) as Hs. unfold span_inv, span_ok in Hs.
  assert (Hle : close_n st s + clear_n st s <= 1).
  { destruct (m_cleared st s); [lia|]. destruct (Nat.lt_ge_cases s (m_count st)); lia. }
  split; [apply I|]. split; [exact Hle|]. split; [|split].
  - intros t1 t2 H1 H2. destruct (Nat.eq_dec t1 t2) as [|Hne]; [assumption|exfalso].
    unfold m_task, close_n, clear_n in *.
    destruct H1 as [H1|H1], H2 as [H2|H2];
      pose proof (two_tasks (is_close s) _ _ _ _ _ Hne H1 H2) as Dc;
      pose proof (two_tasks (is_clear s) _ _ _ _ _ Hne H1 H2) as Dl;
      cbn [is_close is_clear] in Dc, Dl; rewrite ?Nat.eqb_refl in Dc; rewrite ?Nat.eqb_refl in Dl;
      cbn [is_close is_clear] in Dc, Dl; lia.
  - intros t Ht. unfold m_task in Ht.
    pose proof (tcnt_pos (is_close s) t _ _ Ht) as Hp. cbn [is_close] in Hp.
    rewrite Nat.eqb_refl in Hp. specialize (Hp eq_refl).
    destruct (live_of_pos st s I) as [Hlt Hclr]; [unfold close_n; lia|].
    rewrite Hclr in Hs. unfold close_n, clear_n in *. repeat split; lia || assumption.
  - intros t Ht. unfold m_task in Ht.
    pose proof (tcnt_pos (is_clear s) t _ _ Ht) as Hp. cbn [is_clear] in Hp.
    rewrite Nat.eqb_refl in Hp. specialize (Hp eq_refl).
    destruct (live_of_pos st s I) as [Hlt Hclr]; [unfold clear_n; lia|].
    rewrite Hclr in Hs. unfold close_n, clear_n in *. repeat split; lia || assumption.
Qed.

(** 6. In a quiescent state (no thread inside try_close) a span has been reported closed exactly when no
       handle and no live child refers to it, and exactly when it has been removed. *)
Theorem micro_quiescent_exactly_once : forall (ops : list mop),
  let st := mrun ops in
  (forall t, m_task st t = None) ->
  forall s, s < m_count st ->
    (m_closed st s = 1 <-> held_n st s = 0 /\ kids_n st s = 0) /\
    (m_closed st s = 1 <-> m_cleared st s = true).
Proof.
  intros ops st Hidle s Hlt. pose proof (mrun_inv ops) as I. fold st in I.
  assert (Hnil : m_tasks st = []) by (apply all_idle_nil; exact Hidle).
  pose proof (inv_span _ I s) as Hs. unfold span_inv, span_ok, rel_n, close_n, clear_n in Hs.
  rewrite Hnil in Hs. unfold tcnt in Hs. simpl in Hs.
  destruct (m_cleared st s).
  - split; split; intros; try reflexivity; lia.
  - split; split; intros; try discriminate; lia.
Qed.

(** 7. Progress: a thread inside try_close always has an enabled micro-step (its next step changes the
       state) ... *)
Theorem micro_progress : forall (ops : list mop) (t : tid) (k : task),
  let st := mrun ops in
  m_task st t = Some k -> mstep st (next_op t k) <> st.
Proof.
  intros ops t k st Ht. pose proof (mrun_inv ops) as I. fold st in I.
  destruct k as [s|s|p]; simpl.
  - unfold do_onclose. rewrite Ht. intro E.
    apply (f_equal (fun x => m_closed x s)) in E. cbn [m_closed] in E.
    rewrite upd_eq, Nat.eqb_refl in E. lia.
  - unfold m_task in Ht.
    pose proof (tcnt_pos (is_clear s) t _ _ Ht) as Hp. cbn [is_clear] in Hp.
    rewrite Nat.eqb_refl in Hp. specialize (Hp eq_refl).
    destruct (live_of_pos st s I) as [Hlt Hclr]; [unfold clear_n; lia|].
    unfold do_clear, m_task. rewrite Ht. intro E.
    apply (f_equal (fun x => m_cleared x s)) in E. cbn [m_cleared] in E.
    rewrite upd_eq, Nat.eqb_refl in E. congruence.
  - unfold m_task in Ht.
    pose proof (tcnt_pos (is_rel p) t _ _ Ht) as Hp. cbn [is_rel] in Hp.
    rewrite Nat.eqb_refl in Hp. specialize (Hp eq_refl).
    destruct (live_of_pos st p I) as [Hlt Hclr]; [unfold rel_n; lia|].
    pose proof (inv_span _ I p) as Hs. unfold span_inv, span_ok, rel_n in Hs. rewrite Hclr in Hs.
    unfold do_rel, m_task, fetch_sub. rewrite Ht, Hclr. simpl orb.
    destruct (Nat.eqb_spec (m_refs st p) 0) as [Hz|Hz]; [lia|]. intro E.
    apply (f_equal (fun x => m_refs x p)) in E. cbn [m_refs] in E.
    rewrite upd_eq, Nat.eqb_refl in E. lia.
Qed.

(** ... and the pending close work strictly decreases with each such step, so every run can be driven to
    a quiescent state by letting the busy threads finish (the cascade terminates: parents have smaller
    numbers). *)
Lemma pw_rm t l k :
  task_of t l = Some k -> pending_weight (rm1 (key_is t) l) + task_weight k = pending_weight l.
Proof.
  unfold task_of. induction l as [|a r IH]; simpl; [discriminate|].
  destruct (key_is t a).
  - intros [= <-]. lia.
  - intros H. specialize (IH H). simpl. lia.
Qed.

Lemma pw_set t o l k :
  task_of t l = Some k ->
  pending_weight (set_task t o l) + task_weight k
  = pending_weight l + match o with Some k' => task_weight k' | None => 0 end.
Proof.
  intros H. pose proof (pw_rm t l k H). destruct o; simpl; lia.
Qed.

Lemma next_op_decreases st t k :
  MInv st -> m_task st t = Some k ->
  pending_weight (m_tasks (mstep st (next_op t k))) < pending_weight (m_tasks st).
Proof.
  intros I Ht. unfold m_task in Ht. destruct k as [s|s|p]; simpl.
  - unfold do_onclose, m_task. rewrite Ht. cbn [m_tasks].
    pose proof (pw_set t (Some (TClear s)) _ _ Ht) as D. simpl in D. simpl. lia.
  - unfold do_clear, m_task. rewrite Ht. cbn [m_tasks].
    destruct (m_parent st s) as [p|] eqn:Hp.
    + pose proof (inv_par _ I _ _ Hp) as [Hps _].
      pose proof (pw_set t (Some (TRel p)) _ _ Ht) as D. simpl in D. simpl. lia.
    + pose proof (pw_set t None _ _ Ht) as D. simpl in D. simpl. lia.
  - pose proof (tcnt_pos (is_rel p) t _ _ Ht) as Hp. cbn [is_rel] in Hp.
    rewrite Nat.eqb_refl in Hp. specialize (Hp eq_refl).
    destruct (live_of_pos st p I) as [Hlt Hclr]; [unfold rel_n; lia|].
    pose proof (inv_span _ I p) as Hs. unfold span_inv, span_ok, rel_n in Hs. rewrite Hclr in Hs.
    unfold do_rel, m_task, fetch_sub. rewrite Ht, Hclr. simpl orb.
    destruct (Nat.eqb_spec (m_refs st p) 0) as [Hz|Hz]; [lia|]. cbn [m_tasks].
    destruct (m_refs st p =? 1).
    + pose proof (pw_set t (Some (TClose p)) _ _ Ht) as D. simpl in D. simpl. lia.
    + pose proof (pw_set t None _ _ Ht) as D. simpl in D. simpl. lia.
Qed.

Lemma drive_to_quiescence n : forall st,
  MInv st -> pending_weight (m_tasks st) < n ->
  exists ops', m_tasks (fold_left mstep ops' st) = [].
Proof.
  induction n as [|n IH]; intros st I Hw; [lia|].
  destruct (m_tasks st) as [|[t k] r] eqn:E.
  - exists []. exact E.
  - assert (Ht : m_task st t = Some k).
    { unfold m_task, task_of. rewrite E. simpl. unfold key_is. simpl. now rewrite Nat.eqb_refl. }
    pose proof (next_op_decreases st t k I Ht) as Hd. rewrite E in Hd.
    destruct (IH (mstep st (next_op t k))) as [ops' H]; [now apply mstep_inv | lia |].
    exists (next_op t k :: ops'). exact H.
Qed.

Theorem micro_can_quiesce : forall ops : list mop,
  exists ops', forall t, m_task (mrun (ops ++ ops')) t = None.
Proof.
  intros ops.
  destruct (drive_to_quiescence (S (pending_weight (m_tasks (mrun ops)))) (mrun ops) (mrun_inv ops))
    as [ops' H]; [lia|].
  exists ops'. intro t. unfold mrun. rewrite fold_left_app. fold (mrun ops).
  unfold m_task. rewrite H. reflexivity.
Qed.

(* ================================================================== *)
(** * Examples (non-vacuity, and the two classic races, by computation) *)

(** obs2 = (closed 0, closed 1, cleared 0, cleared 1, every thread idle, bad) *)

(** (a) Threads 1 and 2 each hold one of the last two handles of span 0 and drop them.  The tail lets
        whichever thread saw the old value 1 finish; the other thread's MOnClose / MClear are no-ops. *)
Definition setup_a : list mop := [MNew 1 None; MClone 1 0; MSend 1 2 0].
Definition finish : list mop := [MOnClose 1; MClear 1; MOnClose 2; MClear 2].

Example race_a_setup : let st := mrun setup_a in (m_refs st 0, held_n st 0, m_count st) = (2, 2, 1).
Proof. vm_compute. reflexivity. Qed.

Example race_a_12 : obs2 (mrun (setup_a ++ [MDrop 1 0; MDrop 2 0] ++ finish)) = (1, 0, true, false, true, false).
Proof. vm_compute. reflexivity. Qed.

Example race_a_21 : obs2 (mrun (setup_a ++ [MDrop 2 0; MDrop 1 0] ++ finish)) = (1, 0, true, false, true, false).
Proof. vm_compute. reflexivity. Qed.

(** who closes: the thread whose fetch_sub came second *)
Example race_a_12_closer : m_tasks (mrun (setup_a ++ [MDrop 1 0; MDrop 2 0])) = [(2, TClose 0)].
Proof. vm_compute. reflexivity. Qed.
Example race_a_21_closer : m_tasks (mrun (setup_a ++ [MDrop 2 0; MDrop 1 0])) = [(1, TClose 0)].
Proof. vm_compute. reflexivity. Qed.

(** (b) Span 0 is the parent of span 1.  Thread 1 (A) drops the last handle of 1: fetch_sub, on_close 1,
        clear 1, cascade fetch_sub on 0.  Thread 2 (B) drops the last handle of 0; its fetch_sub is placed
        at each of the five possible positions. *)
Definition setup_b : list mop := [MNew 1 None; MClone 1 0; MNew 1 (Some 0); MSend 1 2 0].

Example race_b_setup :
  let st := mrun setup_b in
  (m_refs st 0, m_refs st 1, held_n st 0, kids_n st 0, held_n st 1, m_parent st 1) = (2, 1, 1, 1, 1, Some 0).
Proof. vm_compute. reflexivity. Qed.

Definition race_b0 := setup_b ++ [MDrop 2 0; MDrop 1 1; MOnClose 1; MClear 1; MRel 1] ++ finish.
Definition race_b1 := setup_b ++ [MDrop 1 1; MDrop 2 0; MOnClose 1; MClear 1; MRel 1] ++ finish.
Definition race_b2 := setup_b ++ [MDrop 1 1; MOnClose 1; MDrop 2 0; MClear 1; MRel 1] ++ finish.
Definition race_b3 := setup_b ++ [MDrop 1 1; MOnClose 1; MClear 1; MDrop 2 0; MRel 1] ++ finish.
Definition race_b4 := setup_b ++ [MDrop 1 1; MOnClose 1; MClear 1; MRel 1; MDrop 2 0] ++ finish.

Definition race_b_ok (ops : list mop) : bool * bool * (nat * nat * bool * bool * bool * bool) :=
  (child_first_all_prefixes ops, child_strictly_first ops, obs2 (mrun ops)).

Example race_b0_ok : race_b_ok race_b0 = (true, true, (1, 1, true, true, true, false)).
Proof. vm_compute. reflexivity. Qed.
Example race_b1_ok : race_b_ok race_b1 = (true, true, (1, 1, true, true, true, false)).
Proof. vm_compute. reflexivity. Qed.
Example race_b2_ok : race_b_ok race_b2 = (true, true, (1, 1, true, true, true, false)).
Proof. vm_compute. reflexivity. Qed.
Example race_b3_ok : race_b_ok race_b3 = (true, true, (1, 1, true, true, true, false)).
Proof. vm_compute. reflexivity. Qed.
Example race_b4_ok : race_b_ok race_b4 = (true, true, (1, 1, true, true, true, false)).
Proof. vm_compute. reflexivity. Qed.

(** who closes the parent: A's cascade when B's fetch_sub came before A's MRel, B otherwise *)
Example race_b3_closer :
  m_tasks (mrun (setup_b ++ [MDrop 1 1; MOnClose 1; MClear 1; MDrop 2 0; MRel 1])) = [(1, TClose 0)].
Proof. vm_compute. reflexivity. Qed.
Example race_b4_closer :
  m_tasks (mrun (setup_b ++ [MDrop 1 1; MOnClose 1; MClear 1; MRel 1; MDrop 2 0])) = [(2, TClose 0)].
Proof. vm_compute. reflexivity. Qed.

(** the guards are real: dropping a handle one does not hold, or stepping an idle thread, does nothing *)
Example guards_noop :
  obs2 (mrun (setup_a ++ [MDrop 3 0; MOnClose 3; MClear 1; MRel 2; MNew 3 (Some 0)])) = obs2 (mrun setup_a)
  /\ m_count (mrun (setup_a ++ [MNew 3 (Some 0)])) = 1.
Proof. vm_compute. split; reflexivity. Qed.
