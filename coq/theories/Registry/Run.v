(** Registry/Run.v — the invariant holds after every well-formed OwnDefault history; frame facts of the operations. *)
From Coq Require Import List NArith Bool Arith Lia.
From TV Require Import Registry.Model Registry.Basics Registry.Inv Registry.Close Registry.Steps Registry.NewSpan.
Import ListNotations.
Local Open Scope nat_scope.

(* ---------------------------------------------------------------- what closing a span can never touch *)
(** everything except the slots, the CLOSE_COUNT cells, the panic flag, and — since a close under a slab guard parks the
    parent reference as a phantom handle — the handle table and the guard bookkeeping *)
Definition frame_eq (st st' : state) : Prop :=
  st_layers st' = st_layers st /\ st_global st' = st_global st /\ st_scoped st' = st_scoped st /\ st_def st' = st_def st /\
  st_entries st' = st_entries st /\ st_count st' = st_count st /\
  st_created st' = st_created st /\ st_ene st' = st_ene st /\ st_cpar st' = st_cpar st /\
  st_filtering st' = st_filtering st /\ st_vis st' = st_vis st.

Lemma frame_eq_refl : forall st, frame_eq st st.
Proof. intros; unfold frame_eq; repeat split. Qed.
Lemma frame_eq_trans : forall a b c, frame_eq a b -> frame_eq b c -> frame_eq a c.
Proof. unfold frame_eq; intros a b c H1 H2. repeat match goal with H : _ /\ _ |- _ => destruct H end. repeat split; congruence. Qed.
Lemma frame_eq_upd : forall st i x v, frame_eq st (upd_slot st i x v).
Proof. intros; unfold frame_eq; repeat split. Qed.
Lemma frame_eq_put_close : forall st t n, frame_eq st (put_close st t n).
Proof. intros; unfold frame_eq; repeat split. Qed.
Lemma frame_eq_add_close : forall st t n, frame_eq st (add_close st t n).
Proof. intros; unfold frame_eq; repeat split. Qed.
Lemma frame_eq_panicked : forall st, frame_eq st (set_panicked st).
Proof. intros; unfold frame_eq; repeat split. Qed.

Lemma frame_eq_guards : forall st h l n, frame_eq st (set_guards h l n st).
Proof. intros; unfold frame_eq; repeat split. Qed.
Lemma frame_eq_handles : forall st h, frame_eq st (set_handles h st).
Proof. intros; unfold frame_eq; repeat split. Qed.

Lemma frame_eq_vacate : forall st i s sl, frame_eq st (vacate st i s sl).
Proof.
  intros. unfold vacate. destruct (s_parent sl); [|apply frame_eq_upd].
  match goal with |- context [match ?x with Some _ => _ | None => _ end] => destruct x end.
  - eapply frame_eq_trans; apply frame_eq_upd.
  - apply frame_eq_upd.
Qed.

Lemma frame_eq_clear_slot : forall casc st t nested i s,
  (forall st0 j p, frame_eq st0 (fst (casc st0 j p))) -> frame_eq st (fst (clear_slot casc st t nested i s)).
Proof.
  intros casc st t nested i s HC. unfold clear_slot.
  destruct (lookup st i s) as [sl|]; [|apply frame_eq_refl].
  pose proof (frame_eq_vacate st i s sl) as FV.
  destruct (s_parent sl) as [p|].
  - match goal with |- context [if ?B then _ else _] => destruct B end.
    + simpl. eapply frame_eq_trans; [exact FV|]. eapply frame_eq_trans; [apply frame_eq_handles | apply frame_eq_guards].
    + assert (FD : frame_eq st (drop_note (vacate st i s sl) i s)) by (eapply frame_eq_trans; [exact FV | apply frame_eq_guards]).
      destruct (eff (drop_note (vacate st i s sl) i s) t nested) as [j|].
      * specialize (HC (drop_note (vacate st i s sl) i s) j p).
        destruct (casc (drop_note (vacate st i s sl) i s) j p) as [st'' o]. simpl in *.
        eapply frame_eq_trans; [exact FD | exact HC].
      * simpl. exact FD.
  - destruct (guarded st i s); simpl; (eapply frame_eq_trans; [exact FV | apply frame_eq_guards]).
Qed.

Lemma frame_eq_frames : forall casc ls st t nested i s,
  (forall st0 j p, frame_eq st0 (fst (casc st0 j p))) -> frame_eq st (fst (frames casc ls st t nested i s)).
Proof.
  induction ls as [|l r IH]; intros st t nested i s HC; simpl; [apply frame_eq_refl|].
  set (st2 := put_close st t (cget t (st_close st) - 1)).
  assert (F3 : frame_eq st (fst (if cget t (st_close st) =? 1 then clear_slot casc st2 t nested i s else (st2, [])))).
  { destruct (cget t (st_close st) =? 1).
    - eapply frame_eq_trans; [apply frame_eq_put_close | apply frame_eq_clear_slot; auto].
    - apply frame_eq_put_close. }
  destruct (if cget t (st_close st) =? 1 then clear_slot casc st2 t nested i s else (st2, [])) as [st3 o3]. simpl in F3.
  specialize (IH st3 t nested i s HC). destruct (frames casc r st3 t nested i s) as [st4 o4]. simpl in *.
  eapply frame_eq_trans; eauto.
Qed.

Lemma frame_eq_close_stack : forall fuel st t nested i s, frame_eq st (fst (close_stack fuel st t nested i s)).
Proof.
  induction fuel as [|f IH]; intros; simpl; [apply frame_eq_panicked|].
  unfold reg_try_close.
  change (lookup (add_close st t (st_layers st i)) i s) with (lookup st i s).
  destruct (lookup st i s) as [sl|]; simpl.
  - destruct (negb (N.ltb 1 (s_refs sl))).
    + eapply frame_eq_trans; [|apply frame_eq_frames; intros; apply IH].
      eapply frame_eq_trans; [apply frame_eq_add_close | apply frame_eq_upd].
    + simpl. eapply frame_eq_trans; [|apply frame_eq_put_close].
      eapply frame_eq_trans; [apply frame_eq_add_close | apply frame_eq_upd].
  - eapply frame_eq_trans; [apply frame_eq_add_close|]. eapply frame_eq_trans; [apply frame_eq_put_close | apply frame_eq_panicked].
Qed.

(* ---------------------------------------------------------------- slab guards and the filtered layer: new operations *)
Lemma Inv_handle_to_pend : forall st tr h i s, Inv None st tr -> hget h (st_handles st) = Some (HSpan i s) ->
  Inv (Some (i, s)) (set_handles (hdel h (st_handles st)) st) tr.
Proof.
  intros st tr h i s I Hh.
  eapply Inv_refs_only with (st := st); eauto.
  - split; [|repeat split; auto]. intros; simpl; apply slots_same_refs_only.
  - apply (i_close0 _ _ _ I).
  - simpl. apply hdel_nodup. apply (i_hnodup _ _ _ I).
  - simpl. intros h0 i0 s0 X. apply hdel_in in X. destruct X. eapply i_handles; eauto.
  - apply (i_entries _ _ _ I).
  - apply (i_dups _ _ _ I).
  - apply (i_ene _ _ _ I).
  - intros i' s' y Ly. simpl st_slots. change (nE _ i' s') with (nE st i' s').
    pose proof (lookup_some _ _ _ _ Ly) as (Ey & _). rewrite <- Ey.
    split; [|apply (i_pos _ _ _ I _ _ _ Ly)]. rewrite (i_refs _ _ _ I _ _ _ Ly). unfold nH at 1.
    rewrite (filter_hdel_count (hmatch i' s') h (HSpan i s) (st_handles st) (i_hnodup _ _ _ I) (hget_in _ _ _ Hh)).
    rewrite hmatch_pendn, pendn_none. unfold nH. simpl. f_equal. lia.
Qed.

Lemma inv_new_guards : forall st tr t h k a st' ob, Inv None st tr -> new_with_guards st t h k a = (st', ob) ->
  forallb wf_obs ob = true -> Inv None st' (tr ++ ob).
Proof.
  intros st tr t h k a st' ob I H W. unfold new_with_guards in H.
  assert (G : forall st0 ob0 stale, do_new st t h k a = (st0, ob0) -> forallb wf_obs (ob0 ++ stale) = true ->
              (forall o, In o stale -> exists i q v, o = OStaleNote i q v) -> Inv None (note_vis st st0 t) (tr ++ ob0 ++ stale)).
  { intros st0 ob0 stale D W0 HS. rewrite forallb_app in W0. apply andb_true_iff in W0. destruct W0 as (W0 & _).
    rewrite app_assoc. apply Inv_inert.
    - eapply Inv_ghost; [eapply inv_new; eauto|..]; unfold note_vis; destruct (st_count st <? st_count st0); reflexivity.
    - intros o Io. destruct (HS o Io) as (i & q & v & ->). split; simpl; auto. }
  destruct (eff st t false) as [i|].
  - destruct (in_limbo st i (fst a)); [inversion H; subst; simpl in W; discriminate|].
    destruct (do_new st t h k a) as [st0 ob0] eqn:D. inversion H; subst st' ob; clear H.
    apply G; auto. intros o Io. destruct (note_at st i (fst a)); [|contradiction].
    destruct (st_count st <? st_count st0); [|contradiction]. destruct Io as [<-|[]]. eauto.
  - destruct (do_new st t h k a) as [st0 ob0] eqn:D. inversion H; subst st' ob; clear H.
    specialize (G st0 ob0 [] eq_refl). rewrite !app_nil_r in G. apply G; auto. intros o [].
Qed.

Lemma inv_release : forall st tr t k st' ob, Inv None st tr -> do_release st t k = (st', ob) ->
  forallb route_ok ob = true -> Inv None st' (tr ++ ob).
Proof.
  intros st tr t k st' ob I H RO. unfold do_release in H.
  destruct (gget k (st_held st)) as [[[i s] q]|]; [|inversion H; subst; apply Inv_inert; auto; intros o [<-|[]]; split; simpl; auto].
  match type of H with (if ?B then _ else _) = _ => destruct B end.
  { inversion H; subst. rewrite app_nil_r. eapply Inv_ghost; eauto. }
  match type of H with (match ?F with Some _ => _ | None => _ end) = _ => destruct F as [l|] end.
  2:{ inversion H; subst. rewrite app_nil_r. eapply Inv_ghost; eauto. }
  match type of H with context [hget (phantom q) (st_handles ?S)] => set (st2 := S) in * end.
  assert (I2 : Inv None st2 tr) by (eapply Inv_ghost; eauto).
  destruct (hget (phantom q) (st_handles st2)) as [[|i' p]|] eqn:Hh;
    try (inversion H; subst; rewrite app_nil_r; exact I2).
  set (st3 := set_handles (hdel (phantom q) (st_handles st2)) st2) in *.
  pose proof (Inv_handle_to_pend st2 tr _ _ _ I2 Hh) as I3. fold st3 in I3.
  pose proof (i_handles _ _ _ I2 _ _ _ (hget_in _ _ _ Hh)) as V. apply is_live_true in V. destruct V as (pl & Lp).
  destruct (eff st3 t false) as [j|] eqn:Ef.
  - destruct (close_stack (fuel_of st3) st3 t false j p) as [st4 o4] eqn:CS. inversion H; subst st' ob; clear H.
    simpl in RO. apply andb_true_iff in RO. destruct RO as (Rj & RO). apply Nat.eqb_eq in Rj; subst j.
    change (tr ++ ORoute i' (Some i') :: o4) with (tr ++ [ORoute i' (Some i')] ++ o4). rewrite app_assoc.
    refine (close_stack_inv (fuel_of st3) st3 _ t false i' p pl _ Lp _ _ _ CS RO).
    + apply Inv_inert; eauto. intros o [<-|[]]. split; simpl; auto.
    + unfold fuel_of. simpl. pose proof (i_seqs _ _ _ I2 _ _ _ (i_created _ _ _ I2 _ _ _ Lp)). simpl in H. lia.
  - inversion H; subst. simpl in RO. discriminate.
Qed.

Lemma inv_hold : forall st tr k h st' ob, Inv None st tr -> do_hold st k h = (st', ob) -> forallb wf_obs ob = true -> Inv None st' (tr ++ ob).
Proof.
  intros st tr k h st' ob I H W. unfold do_hold in H.
  destruct (gget k (st_held st)); [inversion H; subst; simpl in W; discriminate|].
  destruct (hget h (st_handles st)) as [[|i s]|]; try (inversion H; subst; try (simpl in W; discriminate); rewrite app_nil_r; exact I).
  destruct (lookup st i s); inversion H; subst; (apply Inv_inert; [|intros o [<-|[]]; split; simpl; auto]); auto.
  eapply Inv_ghost; eauto.
Qed.

Lemma inv_poke : forall st tr k st' ob, Inv None st tr -> do_poke st k = (st', ob) -> forallb wf_obs ob = true -> Inv None st' (tr ++ ob).
Proof.
  intros st tr k st' ob I H W. unfold do_poke in H.
  destruct (gget k (st_held st)) as [[[i s] q]|]; inversion H; subst; [|simpl in W; discriminate].
  rewrite app_nil_r. eapply Inv_ghost; eauto.
Qed.

Lemma inv_peek : forall st tr k st' ob, Inv None st tr -> do_peek st k = (st', ob) -> forallb wf_obs ob = true -> Inv None st' (tr ++ ob).
Proof.
  intros st tr k st' ob I H W. unfold do_peek in H.
  destruct (gget k (st_held st)) as [[[i s] q]|]; inversion H; subst; [|simpl in W; discriminate].
  apply Inv_inert; auto. intros o [<-|[]]; split; simpl; auto.
Qed.

Lemma inv_fevent : forall st tr t k st' ob, Inv None st tr -> do_fevent st t k = (st', ob) -> Inv None st' (tr ++ ob).
Proof.
  intros st tr t k st' ob I H. unfold do_fevent in H.
  destruct (eff st t false); inversion H; subst; [|rewrite app_nil_r; auto].
  apply Inv_inert; auto. intros o [<-|[]]. split; simpl; auto.
Qed.

(* ---------------------------------------------------------------- one step *)
Lemma inv_step : forall st tr o st' ob, Inv None st tr -> step st o = (st', ob) ->
  forallb wf_obs ob = true -> forallb route_ok ob = true -> Inv None st' (tr ++ ob).
Proof.
  intros st tr o st' ob I H W RO. unfold step in H. rewrite (i_nopanic _ _ _ I) in H.
  destruct (existsb odd_hid (op_hids o)); [inversion H; subst; simpl in W; discriminate|].
  destruct o.
  - eapply inv_new_guards; eauto.
  - eapply inv_clone; eauto.
  - eapply inv_drop; eauto.
  - eapply inv_enter; eauto.
  - eapply inv_exit; eauto.
  - eapply inv_exith; eauto.
  - eapply inv_current; eauto.
  - eapply inv_event; eauto.
  - eapply inv_setdef; eauto.
  - eapply inv_unsetdef; eauto.
  - eapply inv_readtrace; eauto.
  - eapply inv_hold; eauto.
  - eapply inv_poke; eauto.
  - eapply inv_peek; eauto.
  - eapply inv_release; eauto.
  - unfold do_enabled in H. inversion H; subst. rewrite app_nil_r. eapply Inv_ghost; eauto.
  - eapply inv_fevent; eauto.
  - unfold do_eventq in H. destruct (eff st t false); inversion H; subst; [|rewrite app_nil_r; auto].
    apply Inv_inert; auto. intros o [<-|[<-|[]]]; split; simpl; auto.
Qed.

(* ---------------------------------------------------------------- histories *)
Lemma run_cons : forall st o r, run st (o :: r) =
  (fst (run (fst (step st o)) r), snd (step st o) :: snd (run (fst (step st o)) r)).
Proof. intros; simpl. destruct (step st o) as [st1 o1]. simpl. destruct (run st1 r) as [st2 o2]. reflexivity. Qed.

Lemma final_cons : forall st o r, final st (o :: r) = final (fst (step st o)) r.
Proof. intros; unfold final. rewrite run_cons. reflexivity. Qed.
Lemma trace_cons : forall st o r, trace st (o :: r) = snd (step st o) ++ trace (fst (step st o)) r.
Proof. intros; unfold trace. rewrite run_cons. reflexivity. Qed.
Lemma final_nil : forall st, final st [] = st.
Proof. reflexivity. Qed.
Lemma trace_nil : forall st, trace st [] = [].
Proof. reflexivity. Qed.

Lemma final_app : forall h1 h2 st, final st (h1 ++ h2) = final (final st h1) h2.
Proof. induction h1 as [|o r IH]; intros; simpl app; [reflexivity|]. rewrite !final_cons. apply IH. Qed.
Lemma trace_app : forall h1 h2 st, trace st (h1 ++ h2) = trace st h1 ++ trace (final st h1) h2.
Proof.
  induction h1 as [|o r IH]; intros; simpl app; [reflexivity|].
  rewrite !trace_cons, final_cons, IH, app_assoc. reflexivity.
Qed.

Lemma inv_run : forall h st tr, Inv None st tr ->
  well_formed (trace st h) = true -> own_default (trace st h) = true ->
  Inv None (final st h) (tr ++ trace st h).
Proof.
  induction h as [|o r IH]; intros st tr I W RO.
  - rewrite final_nil, trace_nil, app_nil_r. exact I.
  - rewrite final_cons, trace_cons in *. unfold well_formed, own_default in *.
    rewrite forallb_app in W, RO. apply andb_true_iff in W, RO. destruct W as (W1 & W2), RO as (R1 & R2).
    destruct (step st o) as [st1 o1] eqn:S. simpl in *.
    rewrite app_assoc. apply IH; auto. eapply inv_step; eauto.
Qed.

Lemma inv_init : forall layers g, (forall i, 1 <= layers i) -> Inv None (init layers g) [].
Proof.
  intros layers g HL. constructor; simpl; auto; try (intros; discriminate); try (intros; contradiction); try constructor.
Qed.

(** the hypotheses of the theorems *)
Definition Config_ok (layers : inst -> nat) : Prop := forall i, 1 <= layers i.
Definition OwnDefault (layers : inst -> nat) (g : option inst) (h : list op) : Prop :=
  own_default (trace (init layers g) h) = true.
Definition WellFormed (layers : inst -> nat) (g : option inst) (h : list op) : Prop :=
  well_formed (trace (init layers g) h) = true.

Theorem inv_history : forall layers g h, Config_ok layers -> WellFormed layers g h -> OwnDefault layers g h ->
  Inv None (final (init layers g) h) (trace (init layers g) h).
Proof.
  intros layers g h HL W RO. change (trace (init layers g) h) with ([] ++ trace (init layers g) h).
  apply inv_run; auto. apply inv_init; auto.
Qed.

(** both hypotheses are closed under prefixes *)
Lemma WellFormed_prefix : forall layers g h1 h2, WellFormed layers g (h1 ++ h2) -> WellFormed layers g h1.
Proof. unfold WellFormed, well_formed; intros. rewrite trace_app, forallb_app in H. apply andb_true_iff in H. tauto. Qed.
Lemma OwnDefault_prefix : forall layers g h1 h2, OwnDefault layers g (h1 ++ h2) -> OwnDefault layers g h1.
Proof. unfold OwnDefault, own_default; intros. rewrite trace_app, forallb_app in H. apply andb_true_iff in H. tauto. Qed.

(* ---------------------------------------------------------------- the configuration never changes *)
Lemma new_layers_others : forall ls st i q s, others_eq st (fst (new_layers ls st i q s)).
Proof.
  induction ls as [|l r IH]; intros; simpl; [apply others_eq_refl|].
  match goal with |- context [new_layers r ?S i q s] => pose proof (IH S i q s) as F; destruct (new_layers r S i q s) as [st2 o2] end.
  simpl in *. eapply others_eq_trans; [|exact F]. destruct (lookup st i s); [apply others_eq_upd | apply others_eq_refl].
Qed.

Lemma clone_span_upd : forall st i s st', clone_span st i s = inl st' -> exists v, st' = upd_slot st i (fst s) v.
Proof.
  unfold clone_span; intros st i s st' H. destruct (lookup st i s) as [sl|]; [|discriminate].
  destruct (N.eqb (s_refs sl) 0); inversion H. eauto.
Qed.

Definition cfg_eq (st st' : state) : Prop := st_layers st' = st_layers st /\ st_global st' = st_global st.

Lemma cfg_eq_refl : forall st, cfg_eq st st.
Proof. split; reflexivity. Qed.
Lemma cfg_eq_trans : forall a b c, cfg_eq a b -> cfg_eq b c -> cfg_eq a c.
Proof. unfold cfg_eq; intros a b c [] []; split; congruence. Qed.
Lemma frame_cfg : forall a b, frame_eq a b -> cfg_eq a b.
Proof. unfold frame_eq, cfg_eq; tauto. Qed.
Lemma others_cfg : forall a b, others_eq a b -> cfg_eq a b.
Proof. unfold others_eq, cfg_eq; tauto. Qed.

Lemma cfg_clone : forall st i s, match clone_span st i s with inl st' => cfg_eq st st' | inr _ => True end.
Proof.
  intros. destruct (clone_span st i s) as [st'|] eqn:E; auto. destruct (clone_span_upd _ _ _ _ E) as (v & ->). split; reflexivity.
Qed.

Lemma cfg_exit_at : forall st t i s, cfg_eq st (fst (exit_at st t i s)).
Proof.
  intros. unfold exit_at. destruct (pop i t s (st_entries st)) as [[es last]|]; [|apply cfg_eq_refl].
  destruct last; [|split; reflexivity].
  match goal with |- context [eff ?S t false] => destruct (eff S t false) as [j|] end; [|split; reflexivity].
  match goal with |- context [close_stack ?F ?S t true j s] => pose proof (frame_cfg _ _ (frame_eq_close_stack F S t true j s)) as C;
    destruct (close_stack F S t true j s) as [st2 o2] end.
  simpl in *. eapply cfg_eq_trans; [|exact C]. split; reflexivity.
Qed.

(** the operations on slab guards and the filtered layer, for any relation between states that is closed under what they
    touch (used for cfg_eq here, and for the stack / parent-table / single-collector frames elsewhere) *)
Section NewOpsRel.
  Variable R : state -> state -> Prop.
  Hypothesis Rrefl : forall st, R st st.
  Hypothesis Rtrans : forall a b c, R a b -> R b c -> R a c.
  Hypothesis Rguards : forall st h l n, R st (set_guards h l n st).
  Hypothesis Rfilter : forall st f v, R st (set_filter f v st).
  Hypothesis Rpanic : forall st, R st (set_panicked st).
  Hypothesis Rhdel : forall st h, R st (set_handles (hdel h (st_handles st)) st).
  Hypothesis Rframe : forall a b, frame_eq a b -> R a b.

  Lemma rel_hold : forall st k h, R st (fst (do_hold st k h)).
  Proof.
    intros. unfold do_hold. destruct (gget k (st_held st)); [apply Rrefl|].
    destruct (hget h (st_handles st)) as [[|i s]|]; try apply Rrefl. destruct (lookup st i s); [apply Rguards | apply Rrefl].
  Qed.
  Lemma rel_poke : forall st k, R st (fst (do_poke st k)).
  Proof. intros. unfold do_poke. destruct (gget k (st_held st)) as [[[i s] q]|]; [apply Rguards | apply Rrefl]. Qed.
  Lemma rel_peek : forall st k, R st (fst (do_peek st k)).
  Proof. intros. unfold do_peek. destruct (gget k (st_held st)) as [[[i s] q]|]; apply Rrefl. Qed.
  Lemma rel_enabled : forall st t d, R st (fst (do_enabled st t d)).
  Proof. intros. unfold do_enabled. apply Rfilter. Qed.
  Lemma rel_fevent : forall st t k, R st (fst (do_fevent st t k)).
  Proof. intros. unfold do_fevent. destruct (eff st t false); apply Rrefl. Qed.
  Lemma rel_eventq : forall st t q, R st (fst (do_eventq st t q)).
  Proof. intros. unfold do_eventq. destruct (eff st t false); apply Rrefl. Qed.

  Lemma rel_release : forall st t k, R st (fst (do_release st t k)).
  Proof.
    intros. unfold do_release. destruct (gget k (st_held st)) as [[[i s] q]|]; [|apply Rrefl].
    match goal with |- context [if ?B then _ else _] => destruct B end; [apply Rguards|].
    match goal with |- context [match ?F with Some _ => _ | None => _ end] => destruct F as [l|] end; [|apply Rguards].
    match goal with |- context [hget (phantom q) (st_handles ?S)] => set (st2 := S) in * end.
    assert (R2 : R st st2) by (unfold st2, drop_note; eapply Rtrans; [|apply Rguards]; eapply Rtrans; apply Rguards).
    destruct (hget (phantom q) (st_handles st2)) as [[|i' p]|]; try exact R2.
    set (st3 := set_handles (hdel (phantom q) (st_handles st2)) st2) in *.
    assert (R3 : R st st3) by (eapply Rtrans; [exact R2 | apply Rhdel]).
    destruct (eff st3 t false) as [j|]; [|exact R3].
    pose proof (Rframe _ _ (frame_eq_close_stack (fuel_of st3) st3 t false j p)) as C.
    destruct (close_stack (fuel_of st3) st3 t false j p) as [st4 o4]. simpl in *. eapply Rtrans; eauto.
  Qed.

  Lemma rel_new_guards : forall st t h k a, R st (fst (do_new st t h k a)) -> R st (fst (new_with_guards st t h k a)).
  Proof.
    intros st t h k a H. unfold new_with_guards.
    assert (N : forall st', R st st' -> R st (note_vis st st' t)).
    { intros st' H'. unfold note_vis. destruct (st_count st <? st_count st'); (eapply Rtrans; [exact H' | apply Rfilter]). }
    destruct (eff st t false) as [i|].
    - destruct (in_limbo st i (fst a)); [apply Rpanic|].
      destruct (do_new st t h k a) as [st' ob]. simpl in *. apply N; auto.
    - destruct (do_new st t h k a) as [st' ob]. simpl in *. apply N; auto.
  Qed.
End NewOpsRel.

Lemma cfg_step : forall st o, cfg_eq st (fst (step st o)).
Proof.
  intros st o. unfold step. destruct (st_panicked st); [apply cfg_eq_refl|].
  destruct (existsb odd_hid (op_hids o)); [apply cfg_eq_refl|].
  assert (RG : forall st h l n, cfg_eq st (set_guards h l n st)) by (split; reflexivity).
  assert (RF : forall st f v, cfg_eq st (set_filter f v st)) by (split; reflexivity).
  assert (RP : forall st, cfg_eq st (set_panicked st)) by (split; reflexivity).
  assert (RH : forall st h, cfg_eq st (set_handles (hdel h (st_handles st)) st)) by (split; reflexivity).
  destruct o; simpl;
    [ apply (rel_new_guards cfg_eq cfg_eq_trans RF RP) | .. | apply (rel_hold cfg_eq cfg_eq_refl RG) | apply (rel_poke cfg_eq cfg_eq_refl RG)
    | apply (rel_peek cfg_eq cfg_eq_refl) | apply (rel_release cfg_eq cfg_eq_refl cfg_eq_trans RG RH frame_cfg)
    | apply (rel_enabled cfg_eq RF) | apply (rel_fevent cfg_eq cfg_eq_refl) | apply (rel_eventq cfg_eq cfg_eq_refl) ].
  - rewrite do_new_unfold. destruct (hget h (st_handles st)); [apply cfg_eq_refl|].
    destruct (eff st t false) as [i|]; [|split; reflexivity].
    assert (R : match resolve st i t k with inl (st1, _, _) => cfg_eq st st1 | inr _ => True end).
    { unfold resolve. destruct k as [| |hp]; try apply cfg_eq_refl.
      - destruct (current_span st i t) as [c|]; [|apply cfg_eq_refl]. pose proof (cfg_clone st i c). destruct (clone_span st i c); auto.
      - destruct (hget hp (st_handles st)) as [[|j p]|]; try apply cfg_eq_refl. pose proof (cfg_clone st i p). destruct (clone_span st i p); auto. }
    destruct (resolve st i t k) as [[[st1 parent] o1]|e]; [|split; reflexivity].
    unfold create. destruct (negb (alloc_legal (st_slots st1 i (fst a)) a)); [eapply cfg_eq_trans; [exact R | split; reflexivity]|].
    match goal with |- context [new_layers ?L ?S ?I ?Q ?A] => pose proof (others_cfg _ _ (new_layers_others L S I Q A)) as F; destruct (new_layers L S I Q A) as [st5 o5] end.
    simpl in *. eapply cfg_eq_trans; [exact R|]. eapply cfg_eq_trans; [|exact F].
    destruct parent as [p|]; [|split; reflexivity].
    match goal with |- context [match ?x with Some _ => _ | None => _ end] => destruct x end; split; reflexivity.
  - unfold do_clone. destruct (hget h (st_handles st)) as [[|i s]|]; destruct (hget h' (st_handles st)); try apply cfg_eq_refl; try (split; reflexivity).
    pose proof (cfg_clone st i s). destruct (clone_span st i s); [|split; reflexivity]. simpl. destruct H; split; auto.
  - unfold do_drop. destruct (hget h (st_handles st)) as [[|i s]|]; try apply cfg_eq_refl; try (split; reflexivity).
    eapply cfg_eq_trans; [|apply frame_cfg, frame_eq_close_stack]. split; reflexivity.
  - unfold do_enter. destruct (hget h (st_handles st)) as [[|i s]|]; try apply cfg_eq_refl.
    unfold push. destruct (negb (existsb (same i t s) (st_entries st))); [|split; reflexivity].
    match goal with |- context [clone_span ?S i s] => pose proof (cfg_clone S i s) as C; destruct (clone_span S i s) end; [|split; reflexivity].
    simpl. eapply cfg_eq_trans; [|exact C]. split; reflexivity.
  - unfold do_exit. destruct (find_seq q (st_created st)) as [[i s]|]; [apply cfg_exit_at | apply cfg_eq_refl].
  - unfold do_exith. destruct (hget h (st_handles st)) as [[|i s]|]; try apply cfg_eq_refl. apply cfg_exit_at.
  - unfold do_current. destruct (hget h (st_handles st)); [apply cfg_eq_refl|]. destruct (eff st t false) as [i|]; [|split; reflexivity].
    destruct (current_span st i t) as [c|]; [|split; reflexivity].
    pose proof (cfg_clone st i c). destruct (clone_span st i c); [|split; reflexivity]. simpl. destruct H; split; auto.
  - unfold do_event. destruct (eff st t false); apply cfg_eq_refl.
  - unfold do_setdef. destruct (dget t (st_def st)); split; reflexivity.
  - unfold do_unsetdef. destruct (dget t (st_def st)); try apply cfg_eq_refl; split; reflexivity.
  - unfold do_readtrace. destruct (hget h (st_handles st)) as [[|i s]|]; apply cfg_eq_refl.
Qed.

Lemma final_cfg : forall h st, cfg_eq st (final st h).
Proof.
  induction h as [|o r IH]; intros st; [apply cfg_eq_refl|]. rewrite final_cons.
  eapply cfg_eq_trans; [apply cfg_step | apply IH].
Qed.

Lemma final_layers : forall layers g h, st_layers (final (init layers g) h) = layers.
Proof. intros. destruct (final_cfg h (init layers g)) as (A & _). exact A. Qed.
