(** Registry/Run.v — the invariant holds after every well-formed OwnDefault history; frame facts of the operations. *)
From Coq Require Import List NArith Bool Arith Lia.
From TV Require Import Registry.Model Registry.Basics Registry.Inv Registry.Close Registry.Steps Registry.NewSpan.
Import ListNotations.
Local Open Scope nat_scope.

(* ---------------------------------------------------------------- what closing a span can never touch *)
(** everything except the slots, the CLOSE_COUNT cells and the panic flag *)
Definition frame_eq (st st' : state) : Prop :=
  st_layers st' = st_layers st /\ st_global st' = st_global st /\ st_scoped st' = st_scoped st /\ st_def st' = st_def st /\
  st_entries st' = st_entries st /\ st_handles st' = st_handles st /\ st_count st' = st_count st /\
  st_created st' = st_created st /\ st_ene st' = st_ene st /\ st_cpar st' = st_cpar st.

Lemma frame_eq_refl : forall st, frame_eq st st.
Proof. intros; unfold frame_eq; repeat split. Qed.
Lemma frame_eq_trans : forall a b c, frame_eq a b -> frame_eq b c -> frame_eq a c.
Proof. unfold frame_eq; intros a b c H1 H2. repeat match goal with H : _ /\ _ |- _ => destruct H end. repeat split; congruence. Qed.
Lemma frame_eq_upd : forall st i x v, frame_eq st (upd_slot st i x v).
Proof. intros; unfold frame_eq; repeat split. Qed.
Lemma frame_eq_put_close : forall st t n, frame_eq st (put_close st t n).
Proof. intros; unfold frame_eq; repeat split. Qed.
Lemma frame_eq_add_close : forall st t n, frame_eq st (add_close st t n).
Proof. intros; unfold frame_eq; repeat split. Qed.
Lemma frame_eq_panicked : forall st, frame_eq st (set_panicked st).
Proof. intros; unfold frame_eq; repeat split. Qed.

Lemma frame_eq_vacate : forall st i s sl, frame_eq st (vacate st i s sl).
Proof.
  intros. unfold vacate. destruct (s_parent sl); [|apply frame_eq_upd].
  match goal with |- context [match ?x with Some _ => _ | None => _ end] => destruct x end.
  - eapply frame_eq_trans; apply frame_eq_upd.
  - apply frame_eq_upd.
Qed.

Lemma frame_eq_clear_slot : forall casc st t nested i s,
  (forall st0 j p, frame_eq st0 (fst (casc st0 j p))) -> frame_eq st (fst (clear_slot casc st t nested i s)).
Proof.
  intros casc st t nested i s HC. unfold clear_slot.
  destruct (lookup st i s) as [sl|]; [|apply frame_eq_refl].
  destruct (s_parent sl) as [p|]; [|apply frame_eq_vacate].
  destruct (eff (vacate st i s sl) t nested) as [j|].
  - specialize (HC (vacate st i s sl) j p). destruct (casc (vacate st i s sl) j p) as [st'' o]. simpl in *.
    eapply frame_eq_trans; [apply frame_eq_vacate | exact HC].
  - simpl. apply frame_eq_vacate.
Qed.

Lemma frame_eq_frames : forall casc ls st t nested i s,
  (forall st0 j p, frame_eq st0 (fst (casc st0 j p))) -> frame_eq st (fst (frames casc ls st t nested i s)).
Proof.
  induction ls as [|l r IH]; intros st t nested i s HC; simpl; [apply frame_eq_refl|].
  set (st2 := put_close st t (cget t (st_close st) - 1)).
  assert (F3 : frame_eq st (fst (if cget t (st_close st) =? 1 then clear_slot casc st2 t nested i s else (st2, [])))).
  { destruct (cget t (st_close st) =? 1).
    - eapply frame_eq_trans; [apply frame_eq_put_close | apply frame_eq_clear_slot; auto].
    - apply frame_eq_put_close. }
  destruct (if cget t (st_close st) =? 1 then clear_slot casc st2 t nested i s else (st2, [])) as [st3 o3]. simpl in F3.
  specialize (IH st3 t nested i s HC). destruct (frames casc r st3 t nested i s) as [st4 o4]. simpl in *.
  eapply frame_eq_trans; eauto.
Qed.

Lemma frame_eq_close_stack : forall fuel st t nested i s, frame_eq st (fst (close_stack fuel st t nested i s)).
Proof.
  induction fuel as [|f IH]; intros; simpl; [apply frame_eq_panicked|].
  unfold reg_try_close.
  change (lookup (add_close st t (st_layers st i)) i s) with (lookup st i s).
  destruct (lookup st i s) as [sl|]; simpl.
  - destruct (negb (N.ltb 1 (s_refs sl))).
    + eapply frame_eq_trans; [|apply frame_eq_frames; intros; apply IH].
      eapply frame_eq_trans; [apply frame_eq_add_close | apply frame_eq_upd].
    + simpl. eapply frame_eq_trans; [|apply frame_eq_put_close].
      eapply frame_eq_trans; [apply frame_eq_add_close | apply frame_eq_upd].
  - eapply frame_eq_trans; [apply frame_eq_add_close|]. eapply frame_eq_trans; [apply frame_eq_put_close | apply frame_eq_panicked].
Qed.

(* ---------------------------------------------------------------- one step *)
Lemma inv_step : forall st tr o st' ob, Inv None st tr -> step st o = (st', ob) ->
  forallb wf_obs ob = true -> forallb route_ok ob = true -> Inv None st' (tr ++ ob).
Proof.
  intros st tr o st' ob I H W RO. unfold step in H. rewrite (i_nopanic _ _ _ I) in H.
  destruct o.
  - eapply inv_new; eauto.
  - eapply inv_clone; eauto.
  - eapply inv_drop; eauto.
  - eapply inv_enter; eauto.
  - eapply inv_exit; eauto.
  - eapply inv_exith; eauto.
  - eapply inv_current; eauto.
  - eapply inv_event; eauto.
  - eapply inv_setdef; eauto.
  - eapply inv_unsetdef; eauto.
  - eapply inv_readtrace; eauto.
Qed.

(* ---------------------------------------------------------------- histories *)
Lemma run_cons : forall st o r, run st (o :: r) =
  (fst (run (fst (step st o)) r), snd (step st o) :: snd (run (fst (step st o)) r)).
Proof. intros; simpl. destruct (step st o) as [st1 o1]. simpl. destruct (run st1 r) as [st2 o2]. reflexivity. Qed.

Lemma final_cons : forall st o r, final st (o :: r) = final (fst (step st o)) r.
Proof. intros; unfold final. rewrite run_cons. reflexivity. Qed.
Lemma trace_cons : forall st o r, trace st (o :: r) = snd (step st o) ++ trace (fst (step st o)) r.
Proof. intros; unfold trace. rewrite run_cons. reflexivity. Qed.
Lemma final_nil : forall st, final st [] = st.
Proof. reflexivity. Qed.
Lemma trace_nil : forall st, trace st [] = [].
Proof. reflexivity. Qed.

Lemma final_app : forall h1 h2 st, final st (h1 ++ h2) = final (final st h1) h2.
Proof. induction h1 as [|o r IH]; intros; simpl app; [reflexivity|]. rewrite !final_cons. apply IH. Qed.
Lemma trace_app : forall h1 h2 st, trace st (h1 ++ h2) = trace st h1 ++ trace (final st h1) h2.
Proof.
  induction h1 as [|o r IH]; intros; simpl app; [reflexivity|].
  rewrite !trace_cons, final_cons, IH, app_assoc. reflexivity.
Qed.

Lemma inv_run : forall h st tr, Inv None st tr ->
  well_formed (trace st h) = true -> own_default (trace st h) = true ->
  Inv None (final st h) (tr ++ trace st h).
Proof.
  induction h as [|o r IH]; intros st tr I W RO.
  - rewrite final_nil, trace_nil, app_nil_r. exact I.
  - rewrite final_cons, trace_cons in *. unfold well_formed, own_default in *.
    rewrite forallb_app in W, RO. apply andb_true_iff in W, RO. destruct W as (W1 & W2), RO as (R1 & R2).
    destruct (step st o) as [st1 o1] eqn:S. simpl in *.
    rewrite app_assoc. apply IH; auto. eapply inv_step; eauto.
Qed.

Lemma inv_init : forall layers g, (forall i, 1 <= layers i) -> Inv None (init layers g) [].
Proof.
  intros layers g HL. constructor; simpl; auto; try (intros; discriminate); try (intros; contradiction); try constructor.
Qed.

(** the hypotheses of the theorems *)
Definition Config_ok (layers : inst -> nat) : Prop := forall i, 1 <= layers i.
Definition OwnDefault (layers : inst -> nat) (g : option inst) (h : list op) : Prop :=
  own_default (trace (init layers g) h) = true.
Definition WellFormed (layers : inst -> nat) (g : option inst) (h : list op) : Prop :=
  well_formed (trace (init layers g) h) = true.

Theorem inv_history : forall layers g h, Config_ok layers -> WellFormed layers g h -> OwnDefault layers g h ->
  Inv None (final (init layers g) h) (trace (init layers g) h).
Proof.
  intros layers g h HL W RO. change (trace (init layers g) h) with ([] ++ trace (init layers g) h).
  apply inv_run; auto. apply inv_init; auto.
Qed.

(** both hypotheses are closed under prefixes *)
Lemma WellFormed_prefix : forall layers g h1 h2, WellFormed layers g (h1 ++ h2) -> WellFormed layers g h1.
Proof. unfold WellFormed, well_formed; intros. rewrite trace_app, forallb_app in H. apply andb_true_iff in H. tauto. Qed.
Lemma OwnDefault_prefix : forall layers g h1 h2, OwnDefault layers g (h1 ++ h2) -> OwnDefault layers g h1.
Proof. unfold OwnDefault, own_default; intros. rewrite trace_app, forallb_app in H. apply andb_true_iff in H. tauto. Qed.

(* ---------------------------------------------------------------- the configuration never changes *)
Lemma new_layers_others : forall ls st i q s, others_eq st (fst (new_layers ls st i q s)).
Proof.
  induction ls as [|l r IH]; intros; simpl; [apply others_eq_refl|].
  match goal with |- context [new_layers r ?S i q s] => pose proof (IH S i q s) as F; destruct (new_layers r S i q s) as [st2 o2] end.
  simpl in *. eapply others_eq_trans; [|exact F]. destruct (lookup st i s); [apply others_eq_upd | apply others_eq_refl].
Qed.

Lemma clone_span_upd : forall st i s st', clone_span st i s = inl st' -> exists v, st' = upd_slot st i (fst s) v.
Proof.
  unfold clone_span; intros st i s st' H. destruct (lookup st i s) as [sl|]; [|discriminate].
  destruct (N.eqb (s_refs sl) 0); inversion H. eauto.
Qed.

Definition cfg_eq (st st' : state) : Prop := st_layers st' = st_layers st /\ st_global st' = st_global st.

Lemma cfg_eq_refl : forall st, cfg_eq st st.
Proof. split; reflexivity. Qed.
Lemma cfg_eq_trans : forall a b c, cfg_eq a b -> cfg_eq b c -> cfg_eq a c.
Proof. unfold cfg_eq; intros a b c [] []; split; congruence. Qed.
Lemma frame_cfg : forall a b, frame_eq a b -> cfg_eq a b.
Proof. unfold frame_eq, cfg_eq; tauto. Qed.
Lemma others_cfg : forall a b, others_eq a b -> cfg_eq a b.
Proof. unfold others_eq, cfg_eq; tauto. Qed.

Lemma cfg_clone : forall st i s, match clone_span st i s with inl st' => cfg_eq st st' | inr _ => True end.
Proof.
  intros. destruct (clone_span st i s) as [st'|] eqn:E; auto. destruct (clone_span_upd _ _ _ _ E) as (v & ->). split; reflexivity.
Qed.

Lemma cfg_exit_at : forall st t i s, cfg_eq st (fst (exit_at st t i s)).
Proof.
  intros. unfold exit_at. destruct (pop i t s (st_entries st)) as [[es last]|]; [|apply cfg_eq_refl].
  destruct last; [|split; reflexivity].
  match goal with |- context [eff ?S t false] => destruct (eff S t false) as [j|] end; [|split; reflexivity].
  match goal with |- context [close_stack ?F ?S t true j s] => pose proof (frame_cfg _ _ (frame_eq_close_stack F S t true j s)) as C;
    destruct (close_stack F S t true j s) as [st2 o2] end.
  simpl in *. eapply cfg_eq_trans; [|exact C]. split; reflexivity.
Qed.

Lemma cfg_step : forall st o, cfg_eq st (fst (step st o)).
Proof.
  intros st o. unfold step. destruct (st_panicked st); [apply cfg_eq_refl|].
  destruct o; simpl.
  - rewrite do_new_unfold. destruct (hget h (st_handles st)); [apply cfg_eq_refl|].
    destruct (eff st t false) as [i|]; [|split; reflexivity].
    assert (R : match resolve st i t k with inl (st1, _, _) => cfg_eq st st1 | inr _ => True end).
    { unfold resolve. destruct k as [| |hp]; try apply cfg_eq_refl.
      - destruct (current_span st i t) as [c|]; [|apply cfg_eq_refl]. pose proof (cfg_clone st i c). destruct (clone_span st i c); auto.
      - destruct (hget hp (st_handles st)) as [[|j p]|]; try apply cfg_eq_refl. pose proof (cfg_clone st i p). destruct (clone_span st i p); auto. }
    destruct (resolve st i t k) as [[[st1 parent] o1]|e]; [|split; reflexivity].
    unfold create. destruct (negb (alloc_legal (st_slots st1 i (fst a)) a)); [eapply cfg_eq_trans; [exact R | split; reflexivity]|].
    match goal with |- context [new_layers ?L ?S ?I ?Q ?A] => pose proof (others_cfg _ _ (new_layers_others L S I Q A)) as F; destruct (new_layers L S I Q A) as [st5 o5] end.
    simpl in *. eapply cfg_eq_trans; [exact R|]. eapply cfg_eq_trans; [|exact F].
    destruct parent as [p|]; [|split; reflexivity].
    match goal with |- context [match ?x with Some _ => _ | None => _ end] => destruct x end; split; reflexivity.
  - unfold do_clone. destruct (hget h (st_handles st)) as [[|i s]|]; destruct (hget h' (st_handles st)); try apply cfg_eq_refl; try (split; reflexivity).
    pose proof (cfg_clone st i s). destruct (clone_span st i s); [|split; reflexivity]. simpl. destruct H; split; auto.
  - unfold do_drop. destruct (hget h (st_handles st)) as [[|i s]|]; try apply cfg_eq_refl; try (split; reflexivity).
    eapply cfg_eq_trans; [|apply frame_cfg, frame_eq_close_stack]. split; reflexivity.
  - unfold do_enter. destruct (hget h (st_handles st)) as [[|i s]|]; try apply cfg_eq_refl.
    unfold push. destruct (negb (existsb (same i t s) (st_entries st))); [|split; reflexivity].
    match goal with |- context [clone_span ?S i s] => pose proof (cfg_clone S i s) as C; destruct (clone_span S i s) end; [|split; reflexivity].
    simpl. eapply cfg_eq_trans; [|exact C]. split; reflexivity.
  - unfold do_exit. destruct (find_seq q (st_created st)) as [[i s]|]; [apply cfg_exit_at | apply cfg_eq_refl].
  - unfold do_exith. destruct (hget h (st_handles st)) as [[|i s]|]; try apply cfg_eq_refl. apply cfg_exit_at.
  - unfold do_current. destruct (hget h (st_handles st)); [apply cfg_eq_refl|]. destruct (eff st t false) as [i|]; [|split; reflexivity].
    destruct (current_span st i t) as [c|]; [|split; reflexivity].
    pose proof (cfg_clone st i c). destruct (clone_span st i c); [|split; reflexivity]. simpl. destruct H; split; auto.
  - unfold do_event. destruct (eff st t false); apply cfg_eq_refl.
  - unfold do_setdef. destruct (dget t (st_def st)); split; reflexivity.
  - unfold do_unsetdef. destruct (dget t (st_def st)); try apply cfg_eq_refl; split; reflexivity.
  - unfold do_readtrace. destruct (hget h (st_handles st)) as [[|i s]|]; apply cfg_eq_refl.
Qed.

Lemma final_cfg : forall h st, cfg_eq st (final st h).
Proof.
  induction h as [|o r IH]; intros st; [apply cfg_eq_refl|]. rewrite final_cons.
  eapply cfg_eq_trans; [apply cfg_step | apply IH].
Qed.

Lemma final_layers : forall layers g h, st_layers (final (init layers g) h) = layers.
Proof. intros. destruct (final_cfg h (init layers g)) as (A & _). exact A. Qed.
