(** C19 — proofs about the interpreted (generated) level code. *)
From Coq Require Import Lia.
From TV Require Import Levels.Model.
Local Open Scope N_scope.
Local Arguments N.add : simpl never.
Local Arguments N.mul : simpl never.
Local Arguments N.sub : simpl never.
Local Arguments N.leb : simpl never.
Local Arguments N.ltb : simpl never.
Local Arguments N.eqb : simpl never.
Local Arguments N.compare : simpl never.

(** ** The translator recognised every shape *)
Lemma nothing_unrecognised : gen_unrecognised = [].
Proof. reflexivity. Qed.

(** ** Every operator agrees with the specification order (finite: 10 operators x 11 x 11 values) *)
Lemma ops_agree : forall x a b, applicable x a b = true -> eval_x x a b = Some (spec_x x a b).
Proof.
  intros x a b H.
  destruct x as [[]| | |]; destruct a as [[]|[[]|]]; destruct b as [[]|[[]|]];
    try discriminate H; vm_compute; reflexivity.
Qed.

(** The same statement in the enumerated form, as a cross-check that the enumeration used by the
    correspondence driver is complete. *)
Lemma all_values_complete : forall v, In v all_values.
Proof. intros [[]|[[]|]]; vm_compute; tauto. Qed.
Lemma all_xops_complete : forall x, In x all_xops.
Proof. intros [[]| | |]; vm_compute; tauto. Qed.

(** ** The spec is a total order on ranks; equality of ranks on one type is identity *)
Lemma rank_lv_inj : forall a b, rank_lv a = rank_lv b -> a = b.
Proof. intros [] []; simpl; intros H; try reflexivity; discriminate H. Qed.
Lemma rank_inj_same_kind : forall a b, kind_of a = kind_of b -> rank a = rank b -> a = b.
Proof.
  intros [a|[a|]] [b|[b|]]; simpl; intros Hk H; try discriminate Hk;
    try (f_equal; try f_equal; apply rank_lv_inj; exact H); try reflexivity;
    destruct a || destruct b; discriminate H.
Qed.

Definition le_spec (a b : value) : Prop := (rank a <= rank b)%N.

Lemma total_order :
  (forall a, le_spec a a) /\
  (forall a b c, le_spec a b -> le_spec b c -> le_spec a c) /\
  (forall a b, le_spec a b -> le_spec b a -> rank a = rank b) /\
  (forall a b, le_spec a b \/ le_spec b a) /\
  (forall a b, kind_of a = kind_of b -> le_spec a b -> le_spec b a -> a = b).
Proof.
  unfold le_spec. repeat split; intros.
  - lia.
  - lia.
  - lia.
  - lia.
  - apply rank_inj_same_kind; [assumption | lia].
Qed.

(** the chain itself *)
Lemma chain :
  (rank (VF None) < rank (VL Error) /\ rank (VL Error) < rank (VL Warn) /\ rank (VL Warn) < rank (VL Info) /\
   rank (VL Info) < rank (VL Debug) /\ rank (VL Debug) < rank (VL Trace))%N /\
  forall l, rank (VL l) = rank (VF (Some l)).
Proof. split; [vm_compute; repeat split; reflexivity | intros []; reflexivity]. Qed.

(** the code's `<=` *is* the spec order, on all four type combinations *)
Lemma code_le_is_spec : forall a b, eval_op OpLe a b = Some (RB (rank a <=? rank b)).
Proof. intros a b. exact (ops_agree (XBase OpLe) a b eq_refl). Qed.

(** "level enabled by filter" means level <= filter *)
Lemma enabled_is_le : forall which f l,
  (which = "enabled"%string \/ which = "register_callsite"%string) ->
  layer_enabled which f l = Some (rank (VL l) <=? rank (VF f)).
Proof.
  intros which f l [-> | ->]; destruct f as [[]|]; destruct l; vm_compute; reflexivity.
Qed.

(** ** The published maximum level reads back as what was set; no unreachable arm *)
Lemma max_roundtrip : forall f, current_after f = Some f.
Proof. intros [[]|]; vm_compute; reflexivity. Qed.

(** before anything was published the maximum reads OFF *)
Lemma max_initial : current_initial = Some None.
Proof. reflexivity. Qed.

(** each public LevelFilter constant denotes itself *)
Lemma filter_consts : forall f, assoc_olv f gen_filter_const = Some f.
Proof. intros [[]|]; vm_compute; reflexivity. Qed.

(** the five conversions between Level, Option<Level> and LevelFilter are the identity on the wrapped value *)
Lemma conversions_identity : map snd gen_conv_identity = [true; true; true; true; true].
Proof. reflexivity. Qed.

(** ** Text: display then parse *)
Lemma display_parse_level : forall l, exists s, display_level l = Some s /\ parse_level s = Some l
                                       /\ as_str_level l = Some s.
Proof. intros []; (eexists; split; [vm_compute; reflexivity | split; vm_compute; reflexivity]). Qed.
Lemma display_parse_filter : forall f, exists s, display_filter f = Some s /\ parse_filter s = Some f.
Proof. intros [[]|]; (eexists; split; [vm_compute; reflexivity | vm_compute; reflexivity]). Qed.

(** ** Text: the accepted language, for ALL byte strings *)
Definition code_lv (l : lv) : N := rank_lv l.
Definition code_f (f : option lv) : N := rank (VF f).
Definition lname (l : lv) : list N :=
  match l with
  | Error => [101; 114; 114; 111; 114]
  | Warn => [119; 97; 114; 110]
  | Info => [105; 110; 102; 111]
  | Debug => [100; 101; 98; 117; 103]
  | Trace => [116; 114; 97; 99; 101]
  end.
Definition fname (f : option lv) : list N :=
  match f with Some l => lname l | None => [111; 102; 102] end.

(** [numeral n s]: s is an optional `+`, any number of `0`s and the digit n. *)
Definition numeral (n : N) (s : list N) : Prop :=
  exists sign z, (sign = [] \/ sign = [43]) /\ s = sign ++ repeat 48 z ++ [48 + n].

Lemma list_eqb_eq : forall a b, list_eqb a b = true <-> a = b.
Proof.
  induction a as [|x a IH]; destruct b as [|y b]; simpl; split; intros H; try reflexivity; try discriminate.
  - apply andb_true_iff in H. destruct H as [H1 H2]. apply N.eqb_eq in H1. apply IH in H2. congruence.
  - inversion H; subst. apply andb_true_iff. split; [apply N.eqb_refl | apply IH; reflexivity].
Qed.

Lemma parse_digits_ge : forall ds acc n, parse_digits acc ds = Some n -> acc <= n.
Proof.
  induction ds as [|d ds IH]; simpl; intros acc n H.
  - inversion H; lia.
  - destruct (is_digit d) eqn:Hd; [|discriminate].
    destruct (acc * 10 + (d - 48) <=? USIZE_MAX) eqn:Hm; [|discriminate].
    apply IH in H. lia.
Qed.

Lemma parse_digits_ge10 : forall ds acc n, ds <> [] -> parse_digits acc ds = Some n -> acc * 10 <= n.
Proof.
  intros [|d ds] acc n Hne H; [congruence|]. simpl in H.
  destruct (is_digit d) eqn:Hd; [|discriminate].
  destruct (acc * 10 + (d - 48) <=? USIZE_MAX) eqn:Hm; [|discriminate].
  apply parse_digits_ge in H. lia.
Qed.

Lemma is_digit_spec : forall d, is_digit d = true <-> 48 <= d <= 57.
Proof. intros d; unfold is_digit; rewrite andb_true_iff, !N.leb_le; tauto. Qed.

(** A digit string (accumulator 0) has a value n <= 9 iff it is zeros followed by the digit n. *)
Lemma parse_digits_small : forall ds n, ds <> [] -> n <= 9 ->
  (parse_digits 0 ds = Some n <-> exists z, ds = repeat 48 z ++ [48 + n]).
Proof.
  induction ds as [|d ds IH]; intros n Hne Hn; [congruence|].
  split.
  - intros H. simpl in H.
    destruct (is_digit d) eqn:Hd; [|discriminate]. apply is_digit_spec in Hd.
    destruct (0 * 10 + (d - 48) <=? USIZE_MAX) eqn:Hm; [|discriminate].
    destruct ds as [|d2 ds2].
    + simpl in H. inversion H; subst. exists 0%nat. simpl. f_equal. lia.
    + assert (Hd0 : d = 48).
      { assert (Hge := parse_digits_ge10 (d2 :: ds2) _ _ ltac:(congruence) H). lia. }
      subst d. replace (0 * 10 + (48 - 48)) with 0 in H by lia.
      apply IH in H; [|congruence|assumption]. destruct H as [z Hz].
      exists (S z). simpl. rewrite Hz. reflexivity.
  - intros [z Hz]. revert ds IH Hne Hz. revert d.
    induction z as [|z IHz]; intros d ds IH Hne Hz.
    + simpl in Hz. inversion Hz; subst. simpl.
      assert (Hdig : is_digit (48 + n) = true) by (apply is_digit_spec; lia).
      rewrite Hdig. replace (0 * 10 + (48 + n - 48)) with n by lia.
      assert (Hle : (n <=? USIZE_MAX) = true) by (apply N.leb_le; unfold USIZE_MAX; lia).
      rewrite Hle. reflexivity.
    + simpl in Hz. inversion Hz; subst. simpl.
      change (is_digit 48) with true. cbn iota.
      replace (0 * 10 + (48 - 48)) with 0 by lia.
      change (0 <=? USIZE_MAX) with true. cbn iota.
      apply IH; [destruct z; simpl; congruence | assumption | exists z; reflexivity].
Qed.

Lemma repeat_cons_app : forall (z : nat) (x : N) l, repeat x z ++ x :: l = x :: repeat x z ++ l.
Proof. induction z as [|z IH]; intros x l; simpl; [reflexivity | rewrite IH; reflexivity]. Qed.

(** parse_usize yields a small number exactly on numerals. *)
Lemma parse_usize_small : forall s n, n <= 9 -> (parse_usize s = Some n <-> numeral n s).
Proof.
  intros s n Hn. unfold numeral. split.
  - intros H. destruct s as [|c [|c2 rest]]; unfold parse_usize in H; [discriminate| |].
    + destruct (is_digit c) eqn:Hd; [|discriminate]. apply is_digit_spec in Hd.
      inversion H; subst. exists [], 0%nat. split; [left; reflexivity|]. simpl. f_equal. lia.
    + destruct (c =? 43) eqn:Hc.
      * apply N.eqb_eq in Hc; subst c.
        apply parse_digits_small in H; [|congruence|assumption]. destruct H as [z Hz].
        exists [43], z. split; [right; reflexivity|]. simpl. rewrite Hz. reflexivity.
      * apply (parse_digits_small (c :: c2 :: rest)) in H; [|congruence|assumption]. destruct H as [z Hz].
        exists [], z. split; [left; reflexivity|]. simpl. exact Hz.
  - intros (sign & z & Hs & ->).
    assert (Hpd : parse_digits 0 (repeat 48 z ++ [48 + n]) = Some n).
    { apply parse_digits_small; [destruct z; simpl; congruence | assumption | exists z; reflexivity]. }
    destruct Hs as [-> | ->].
    + simpl app at 1. destruct z as [|z].
      * simpl. assert (Hdig : is_digit (48 + n) = true) by (apply is_digit_spec; lia).
        rewrite Hdig. f_equal. lia.
      * remember (repeat 48 (S z) ++ [48 + n]) as ds eqn:Eds.
        destruct ds as [|c [|c2 r]].
        -- simpl in Eds. discriminate.
        -- exfalso. simpl in Eds. inversion Eds as [[E1 E2]]. destruct z; simpl in E2; discriminate.
        -- assert (Hc : c = 48) by (simpl in Eds; congruence). subst c.
           unfold parse_usize. change (48 =? 43) with false. cbn iota. exact Hpd.
    + simpl app at 1.
      remember (repeat 48 z ++ [48 + n]) as ds eqn:Eds.
      destruct ds as [|c r]; [destruct z; discriminate|].
      unfold parse_usize. change (43 =? 43) with true. cbn iota. exact Hpd.
Qed.

(** A string whose lower-casing is a name does not start with a digit or `+`, so it is not a number. *)
Lemma lower_letter : forall a x, 97 <= x <= 122 -> lower a = x -> a = x \/ a + 32 = x.
Proof.
  intros a x Hx H. unfold lower in H.
  destruct ((65 <=? a) && (a <=? 90)) eqn:E; [right | left]; exact H.
Qed.

Lemma name_not_number : forall s c r, map lower s = c :: r -> 97 <= c <= 122 -> parse_usize s = None.
Proof.
  intros s c r H Hc. destruct s as [|a s']; [discriminate|]. simpl in H. inversion H as [[Ha Hr]].
  assert (Hnd : is_digit a = false).
  { unfold is_digit. destruct (lower_letter a c Hc Ha) as [E|E]; subst c;
      destruct (48 <=? a) eqn:E1; destruct (a <=? 57) eqn:E2; try reflexivity;
      apply N.leb_le in E1; apply N.leb_le in E2; lia. }
  assert (Hn43 : (a =? 43) = false).
  { apply N.eqb_neq. destruct (lower_letter a c Hc Ha) as [E|E]; lia. }
  destruct s' as [|b s'']; simpl; rewrite ?Hnd, ?Hn43; simpl; rewrite ?Hnd; reflexivity.
Qed.

Lemma lname_head : forall l, exists c r, lname l = c :: r /\ 97 <= c <= 122.
Proof. intros []; simpl; eexists _, _; (split; [reflexivity | lia]). Qed.
Lemma fname_head : forall f, exists c r, fname f = c :: r /\ 97 <= c <= 122.
Proof. intros [l|]; [apply lname_head | simpl; eexists _, _; (split; [reflexivity | lia])]. Qed.

(** Numerals lower-case to themselves and are never names. *)
Lemma numeral_not_name : forall n s c r, n <= 9 -> numeral n s -> map lower s = c :: r -> ~ (97 <= c <= 122).
Proof.
  intros n s c r Hn (sign & z & Hs & ->) H Hc.
  destruct Hs as [-> | ->]; simpl in H.
  - destruct z as [|z]; simpl in H; inversion H as [[E1 E2]].
    + unfold lower in E1. destruct ((65 <=? 48 + n) && (48 + n <=? 90)) eqn:E;
        [apply andb_true_iff in E; destruct E as [E3 E4]; apply N.leb_le in E3; lia | lia].
    + vm_compute in E1. subst c. lia.
  - inversion H as [[E1 E2]]. vm_compute in E1. subst c. lia.
Qed.

Lemma eq_ic_lower_lit : forall s lit, map lower lit = lit -> (eq_ic s lit = true <-> map lower s = lit).
Proof. intros s lit Hl. unfold eq_ic. rewrite Hl. apply list_eqb_eq. Qed.

(** The name arms of `FromStr for Level`, characterised. *)
Lemma level_names : forall s l, first_name gen_level_name_arms s = Some l <-> map lower s = lname l.
Proof.
  intros s l. unfold gen_level_name_arms, first_name.
  repeat match goal with
  | |- context [eq_ic s ?lit] =>
      let H := fresh "E" in
      destruct (eq_ic s lit) eqn:H;
      [apply (eq_ic_lower_lit s lit eq_refl) in H |
       assert (map lower s <> lit) by (intros Hc; apply (eq_ic_lower_lit s lit eq_refl) in Hc; congruence); clear H]
  end;
  (split; [intros Hx; inversion Hx; subst; simpl; assumption
          | intros Hx; destruct l; simpl in Hx; try congruence]).
Qed.

Lemma filter_names : forall s f, s <> [] ->
  (first_name gen_filter_name_arms s = Some f <-> map lower s = fname f).
Proof.
  intros s f Hne. unfold gen_filter_name_arms, first_name.
  destruct (list_eqb s []) eqn:E0; [apply list_eqb_eq in E0; congruence|]. clear E0.
  repeat match goal with
  | |- context [eq_ic s ?lit] =>
      let H := fresh "E" in
      destruct (eq_ic s lit) eqn:H;
      [apply (eq_ic_lower_lit s lit eq_refl) in H |
       assert (map lower s <> lit) by (intros Hc; apply (eq_ic_lower_lit s lit eq_refl) in Hc; congruence); clear H]
  end;
  (split; [intros Hx; inversion Hx; subst; simpl; assumption
          | intros Hx; destruct f as [[]|]; simpl in Hx; try congruence]).
Qed.

Lemma level_num_arms : forall n, assocN n gen_level_num_arms =
  (if n =? 1 then Some Error else if n =? 2 then Some Warn else if n =? 3 then Some Info
   else if n =? 4 then Some Debug else if n =? 5 then Some Trace else None).
Proof. reflexivity. Qed.
Lemma filter_num_arms : forall n, assocN n gen_filter_num_arms =
  (if n =? 0 then Some None else if n =? 1 then Some (Some Error) else if n =? 2 then Some (Some Warn)
   else if n =? 3 then Some (Some Info) else if n =? 4 then Some (Some Debug)
   else if n =? 5 then Some (Some Trace) else None).
Proof. reflexivity. Qed.

Lemma level_num_code : forall n l, assocN n gen_level_num_arms = Some l <-> n = code_lv l.
Proof.
  intros n l. rewrite level_num_arms.
  repeat match goal with |- context [n =? ?k] => destruct (N.eqb_spec n k) end;
    subst; split; intros H; try (inversion H; subst; reflexivity); try discriminate;
    destruct l; vm_compute in H; try reflexivity; try discriminate; try lia.
Qed.
Lemma filter_num_code : forall n f, assocN n gen_filter_num_arms = Some f <-> n = code_f f.
Proof.
  intros n f. rewrite filter_num_arms.
  repeat match goal with |- context [n =? ?k] => destruct (N.eqb_spec n k) end;
    subst; split; intros H; try (inversion H; subst; reflexivity); try discriminate;
    destruct f as [[]|]; vm_compute in H; try reflexivity; try discriminate; try lia.
Qed.

Lemma code_lv_small : forall l, code_lv l <= 9.
Proof. intros []; vm_compute; discriminate. Qed.
Lemma code_f_small : forall f, code_f f <= 9.
Proof. intros [[]|]; vm_compute; discriminate. Qed.

Lemma parse_language_level : forall s l,
  parse_level s = Some l <-> (map lower s = lname l \/ numeral (code_lv l) s).
Proof.
  intros s l. unfold parse_level. split.
  - intros H. destruct (parse_usize s) as [n|] eqn:Hp.
    + destruct (assocN n gen_level_num_arms) as [l'|] eqn:Ha.
      * inversion H; subst l'. right. apply level_num_code in Ha. subst n.
        apply parse_usize_small in Hp; [assumption | apply code_lv_small].
      * left. apply level_names. exact H.
    + left. apply level_names. exact H.
  - intros [H | H].
    + destruct (lname_head l) as (c & r & Hl & Hc). rewrite Hl in H.
      rewrite (name_not_number s c r H Hc). apply level_names. rewrite H, Hl. reflexivity.
    + apply parse_usize_small in H; [|apply code_lv_small]. rewrite H.
      assert (Ha : assocN (code_lv l) gen_level_num_arms = Some l) by (apply level_num_code; reflexivity).
      rewrite Ha. reflexivity.
Qed.

Lemma parse_language_filter : forall s f, s <> [] ->
  (parse_filter s = Some f <-> (map lower s = fname f \/ numeral (code_f f) s)).
Proof.
  intros s f Hne. unfold parse_filter. split.
  - intros H. destruct (parse_usize s) as [n|] eqn:Hp.
    + destruct (assocN n gen_filter_num_arms) as [f'|] eqn:Ha.
      * inversion H; subst f'. right. apply filter_num_code in Ha. subst n.
        apply parse_usize_small in Hp; [assumption | apply code_f_small].
      * left. apply filter_names; assumption.
    + left. apply filter_names; assumption.
  - intros [H | H].
    + destruct (fname_head f) as (c & r & Hl & Hc). rewrite Hl in H.
      rewrite (name_not_number s c r H Hc). apply filter_names; [assumption|]. rewrite H, Hl. reflexivity.
    + apply parse_usize_small in H; [|apply code_f_small]. rewrite H.
      assert (Ha : assocN (code_f f) gen_filter_num_arms = Some f) by (apply filter_num_code; reflexivity).
      rewrite Ha. reflexivity.
Qed.

(** F13: the empty string is accepted by `LevelFilter::from_str` (an arm outside the documented language). *)
Lemma F13_refuted : parse_filter [] = Some (Some Error) /\
  ~ (map lower [] = fname (Some Error) \/ numeral (code_f (Some Error)) []).
Proof.
  split; [reflexivity|]. intros [H | (sign & z & Hs & H)]; [discriminate|].
  destruct Hs as [-> | ->]; [destruct z; discriminate | discriminate].
Qed.

(** ** log <-> tracing level conversion is an order-preserving bijection *)
Lemma log_level_bijection :
  (forall l, as_log_level l = Some l) /\ (forall l, as_trace_level l = Some l) /\
  (forall f, as_log_filter f = Some f) /\ (forall f, as_trace_filter f = Some f).
Proof.
  repeat split; try (intros []; vm_compute; reflexivity); intros [[]|]; vm_compute; reflexivity.
Qed.

(** ** The attribute's level parser (tracing-attributes `impl Parse for Level`): string literals *)
Lemma attr_names : forall s l, attr_parse_str s = Some l <-> map lower s = lname l.
Proof.
  intros s l. unfold attr_parse_str, gen_attr_scrutinee. cbn [fold_left apply_xf].
  unfold gen_attr_name_arms, first_name.
  (* the committed shape: `s if s.eq_ignore_ascii_case("name")` guards on the untransformed value; the equivalent
     `match value.to_ascii_lowercase().as_str() { "name" => .. }` is accepted by the same proof *)
  repeat match goal with
  | |- context [eq_ic s ?lit] =>
      let H := fresh "E" in
      destruct (eq_ic s lit) eqn:H;
      [apply (eq_ic_lower_lit s lit eq_refl) in H |
       assert (map lower s <> lit) by (intros Hc; apply (eq_ic_lower_lit s lit eq_refl) in Hc; congruence); clear H]
  | |- context [list_eqb (map lower s) ?lit] =>
      let H := fresh "E" in
      destruct (list_eqb (map lower s) lit) eqn:H;
      [apply list_eqb_eq in H |
       assert (map lower s <> lit) by (intros Hc; apply list_eqb_eq in Hc; congruence); clear H]
  end;
  (split; [intros Hx; inversion Hx; subst; simpl; assumption
          | intros Hx; destruct l; simpl in Hx; try congruence]).
Qed.

(** it accepts exactly the *names* `Level::from_str` accepts, with the same meaning (for all byte strings) *)
Lemma attr_agrees_with_from_str : forall s l,
  parse_level s = Some l <-> (attr_parse_str s = Some l \/ numeral (code_lv l) s).
Proof. intros s l. rewrite parse_language_level, attr_names. tauto. Qed.

(** integer literals: exactly 1..5, each level has one, and the assignment is monotone or (as committed) reversed *)
Lemma attr_int_language :
  (forall n l, attr_parse_int n = Some l -> 1 <= n <= 5) /\
  (forall n, 1 <= n <= 5 -> exists l, attr_parse_int n = Some l) /\
  (forall l, exists n, attr_parse_int n = Some l) /\
  ((forall n l, attr_parse_int n = Some l -> rank_lv l = n) \/
   (forall n l, attr_parse_int n = Some l -> rank_lv l + n = 6)).
Proof.
  assert (Hcases : forall n l, attr_parse_int n = Some l ->
            (n = 1 \/ n = 2 \/ n = 3 \/ n = 4 \/ n = 5) /\ attr_parse_int n = Some l).
  { intros n l H. split; [|exact H]. unfold attr_parse_int, gen_attr_int_arms, assocN in H.
    destruct (n <=? gen_attr_int_max); [|discriminate].
    repeat match type of H with context [n =? ?k] => destruct (N.eqb_spec n k) end; try discriminate; tauto. }
  split; [|split; [|split]].
  - intros n l H. destruct (Hcases n l H) as [Hn _]. lia.
  - intros n Hn. assert (Hc : n = 1 \/ n = 2 \/ n = 3 \/ n = 4 \/ n = 5) by lia.
    destruct Hc as [->|[->|[->|[->| ->]]]]; eexists; vm_compute; reflexivity.
  - intros []; first [exists 1; reflexivity | exists 2; reflexivity | exists 3; reflexivity
                     | exists 4; reflexivity | exists 5; reflexivity].
  - first [ left; intros n l H; destruct (Hcases n l H) as [[->|[->|[->|[->| ->]]]] H'];
            vm_compute in H'; inversion H'; reflexivity
          | right; intros n l H; destruct (Hcases n l H) as [[->|[->|[->|[->| ->]]]] H'];
            vm_compute in H'; inversion H'; reflexivity ].
Qed.

(** ** Who publishes the maximum: the fold in callsite.rs `rebuild_interest` *)
Lemma pub_step_spec : forall acc h,
  pub_step acc h = Some (if rank (VF acc) <? rank (VF (hint_of h)) then hint_of h else acc).
Proof. intros [[]|] [[[]|]|]; vm_compute; reflexivity. Qed.

Lemma hint_rank : forall h,
  rank (VF (hint_of h)) = rank (VF (match h with Some f => f | None => Some Trace end)).
Proof. intros [f|]; reflexivity. Qed.

Lemma pub_fold_spec : forall hs acc, exists m, pub_fold acc hs = Some m /\
  rank (VF m) = fold_left N.max
    (map (fun h => rank (VF (match h with Some f => f | None => Some Trace end))) hs) (rank (VF acc)).
Proof.
  induction hs as [|h hs IH]; intros acc.
  - exists acc. split; reflexivity.
  - cbn [pub_fold map fold_left]. rewrite pub_step_spec.
    destruct (IH (if rank (VF acc) <? rank (VF (hint_of h)) then hint_of h else acc)) as (m & Hm & Hr).
    exists m. split; [exact Hm|]. rewrite Hr. f_equal. rewrite <- hint_rank.
    destruct (N.ltb_spec (rank (VF acc)) (rank (VF (hint_of h)))); lia.
Qed.

(** after a rebuild, `current()` is the greatest hint of the live dispatchers (no hint counts as TRACE, none at all is OFF) *)
Lemma published_max : forall hs, exists m, published hs = Some m /\ rank (VF m) = spec_max hs.
Proof.
  intros hs. unfold published, spec_max.
  destruct (pub_fold_spec hs gen_pub_init) as (m & Hm & Hr). rewrite Hm.
  exists m. split; [apply max_roundtrip | exact Hr].
Qed.

(** the sequential statement above applies to the implementation because `set_max` has a single, serialised writer *)
Lemma pub_exclusive : gen_pub_exclusive = true.
Proof. reflexivity. Qed.

(** ** Non-vacuity examples *)
Example ex_parse_mixed_case : parse_level [87; 97; 82; 110] = Some Warn. (* "WaRn" *)
Proof. reflexivity. Qed.
Example ex_parse_plus_zero : parse_filter [43; 48; 48; 51] = Some (Some Info). (* "+003" *)
Proof. reflexivity. Qed.
Example ex_parse_overflow : parse_level [49;56;52;52;54;55;52;52;48;55;51;55;48;57;53;53;49;54;49;55] = None.
Proof. reflexivity. Qed.
Example ex_numeral : numeral 3 [43; 48; 48; 51].
Proof. exists [43], 2%nat. split; [right; reflexivity | reflexivity]. Qed.
Example ex_attr_mixed_case : attr_parse_str [105; 78; 102; 79] = Some Info. (* "iNfO" *)
Proof. reflexivity. Qed.
Example ex_attr_dotless_i : attr_parse_str [196; 177; 110; 102; 111] = None /\ parse_level [196; 177; 110; 102; 111] = None. (* U+0131 "nfo" *)
Proof. split; reflexivity. Qed.
Example ex_attr_digit_string : attr_parse_str [51] = None /\ parse_level [51] = Some Info. (* "3": a numeral, not a name *)
Proof. split; reflexivity. Qed.
Example ex_attr_int : attr_parse_int 1 = Some Trace /\ attr_parse_int 0 = None /\ attr_parse_int 6 = None
                      /\ attr_parse_int 18446744073709551617 = None.
Proof. repeat split; reflexivity. Qed.
Example ex_published : published [Some (Some Warn); None; Some None] = Some (Some Trace)
                       /\ published [Some (Some Warn); Some (Some Error)] = Some (Some Warn)
                       /\ published [] = Some None.
Proof. repeat split; reflexivity. Qed.
