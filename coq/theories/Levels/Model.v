(** C19 — executable model of Level / LevelFilter: an *interpreter* for the data the translator
    extracts from metadata.rs (TVGen.Gen_levels), plus the specification order.  No proofs here. *)
From TV Require Export Levels.Syntax.
From TVGen Require Export Gen_levels.
Local Open Scope N_scope.

(** * Values *)
Inductive value := VL (l : lv) | VF (f : option lv).
Definition kind_of (v : value) : kind := match v with VL _ => KLevel | VF _ => KFilter end.

Definition lv_eqb (a b : lv) : bool :=
  match a, b with
  | Error, Error | Warn, Warn | Info, Info | Debug, Debug | Trace, Trace => true
  | _, _ => false
  end.
Definition olv_eqb (a b : option lv) : bool :=
  match a, b with Some x, Some y => lv_eqb x y | None, None => true | _, _ => false end.
Definition value_eqb (a b : value) : bool :=
  match a, b with VL x, VL y => lv_eqb x y | VF x, VF y => olv_eqb x y | _, _ => false end.
Definition kind_eqb (a b : kind) : bool :=
  match a, b with KLevel, KLevel | KFilter, KFilter => true | _, _ => false end.
Definition opname_eqb (a b : opname) : bool :=
  match a, b with
  | OpEq, OpEq | OpLt, OpLt | OpLe, OpLe | OpGt, OpGt | OpGe, OpGe | OpCmp, OpCmp | OpPartialCmp, OpPartialCmp => true
  | _, _ => false
  end.

Definition all_lv : list lv := [Error; Warn; Info; Debug; Trace].
Definition all_values : list value :=
  map VL all_lv ++ VF None :: map (fun l => VF (Some l)) all_lv.

(** * The specification: OFF < ERROR < WARN < INFO < DEBUG < TRACE *)
Definition rank_lv (l : lv) : N :=
  match l with Error => 1 | Warn => 2 | Info => 3 | Debug => 4 | Trace => 5 end.
Definition rank (v : value) : N :=
  match v with VL l => rank_lv l | VF None => 0 | VF (Some l) => rank_lv l end.

(** * Interpreting the generated operator bodies *)
Definition to_usize (c : conv) (v : value) : option N :=
  match c, v with
  | AsUsize, VL l => Some (gen_disc l)                    (* `self.0 as usize` on a Level *)
  | FilterAsUsize, VF f => Some (gen_filter_as_usize f)   (* filter_as_usize(&self.0) on a LevelFilter *)
  | _, _ => None                                          (* would not type-check *)
  end.
Definition pick (s : side) (a b : value) : value := match s with Self => a | Other => b end.
Definition operand (o : side * conv) (a b : value) : option N := to_usize (snd o) (pick (fst o) a b).

Definition rel_eval (r : rel) (x y : N) : bool :=
  match r with
  | RLt => x <? y | RLe => x <=? y | RGt => y <? x | RGe => y <=? x | REq => x =? y
  end.

Fixpoint lookup_op (tbl : list (kind * kind * opname * gbody)) (ks ko : kind) (op : opname) : option gbody :=
  match tbl with
  | [] => None
  | (k1, k2, o, g) :: r =>
      if kind_eqb k1 ks && kind_eqb k2 ko && opname_eqb o op then Some g else lookup_op r ks ko op
  end.

Inductive result := RB (b : bool) | RO (c : comparison) | ROO (c : option comparison) | RV (v : value).

Definition eval_cmp (a b : value) : option comparison :=
  match lookup_op gen_ops (kind_of a) (kind_of b) OpCmp with
  | Some (GCmp l r) =>
      match operand l a b, operand r a b with
      | Some x, Some y => Some (x ?= y)
      | _, _ => None
      end
  | _ => None
  end.

(** [eval_op op a b] is `a.op(&b)` as written in metadata.rs ([a] is `self`). *)
Definition eval_op (op : opname) (a b : value) : option result :=
  match lookup_op gen_ops (kind_of a) (kind_of b) op with
  | Some (GRel l r rr) =>
      match op with
      | OpCmp | OpPartialCmp => None
      | _ => match operand l a b, operand rr a b with
             | Some x, Some y => Some (RB (rel_eval r x y))
             | _, _ => None
             end
      end
  | Some (GNotRel l r rr) =>
      match op with
      | OpCmp | OpPartialCmp => None
      | _ => match operand l a b, operand rr a b with
             | Some x, Some y => Some (RB (negb (rel_eval r x y)))
             | _, _ => None
             end
      end
  | Some (GCmp _ _) =>
      match op with OpCmp => option_map RO (eval_cmp a b) | _ => None end
  | Some (GSomeCmp l r) =>
      match op with
      | OpPartialCmp => match operand l a b, operand r a b with
                        | Some x, Some y => Some (ROO (Some (x ?= y)))
                        | _, _ => None
                        end
      | _ => None
      end
  | Some GSomeSelfCmp =>
      match op with OpPartialCmp => option_map (fun c => ROO (Some c)) (eval_cmp a b) | _ => None end
  | Some GDerived =>
      match op with OpEq => Some (RB (value_eqb a b)) | _ => None end
  | None => None
  end.

(** Operators the standard library derives from the hand-written ones: `!=` is `!eq`;
    `Ord::max`/`min` (std 1.95: `if other < self { self } else { other }` and dually). *)
Inductive xop := XBase (o : opname) | XNe | XMin | XMax.
Definition all_xops : list xop :=
  map XBase [OpEq; OpLt; OpLe; OpGt; OpGe; OpCmp; OpPartialCmp] ++ [XNe; XMin; XMax].

Definition eval_x (x : xop) (a b : value) : option result :=
  match x with
  | XBase o => eval_op o a b
  | XNe => match eval_op OpEq a b with Some (RB r) => Some (RB (negb r)) | _ => None end
  | XMax => match eval_op OpLt b a with Some (RB r) => Some (RV (if r then a else b)) | _ => None end
  | XMin => match eval_op OpLt b a with Some (RB r) => Some (RV (if r then b else a)) | _ => None end
  end.

(** `cmp`, `min`, `max` need both sides of one type (they come from `Ord`). *)
Definition applicable (x : xop) (a b : value) : bool :=
  match x with
  | XBase OpCmp | XMin | XMax => kind_eqb (kind_of a) (kind_of b)
  | _ => true
  end.

Definition spec_x (x : xop) (a b : value) : result :=
  let ra := rank a in let rb := rank b in
  match x with
  | XBase OpEq => RB (ra =? rb)
  | XBase OpLt => RB (ra <? rb)
  | XBase OpLe => RB (ra <=? rb)
  | XBase OpGt => RB (rb <? ra)
  | XBase OpGe => RB (rb <=? ra)
  | XBase OpCmp => RO (ra ?= rb)
  | XBase OpPartialCmp => ROO (Some (ra ?= rb))
  | XNe => RB (negb (ra =? rb))
  | XMax => RV (if rb <? ra then a else b)
  | XMin => RV (if rb <? ra then b else a)
  end.

(** * The published maximum level *)
Fixpoint assocN {A} (k : N) (l : list (N * A)) : option A :=
  match l with [] => None | (k', v) :: r => if k =? k' then Some v else assocN k r end.
(** [current_after f]: the value `LevelFilter::current()` returns after `set_max(f)`;
    [None] means the `unreachable` arm was taken. *)
Definition current_after (f : option lv) : option (option lv) := assocN (gen_set_max f) gen_current_arms.
(** `current()` before any `set_max` (the static's initialiser) *)
Definition current_initial : option (option lv) := assocN gen_max_initial gen_current_arms.

(** * Text *)
Fixpoint list_eqb (a b : list N) : bool :=
  match a, b with
  | [], [] => true
  | x :: a', y :: b' => (x =? y) && list_eqb a' b'
  | _, _ => false
  end.
Definition lower (b : N) : N := if (65 <=? b) && (b <=? 90) then b + 32 else b.
Definition eq_ic (s t : list N) : bool := list_eqb (map lower s) (map lower t).

Definition is_digit (b : N) : bool := (48 <=? b) && (b <=? 57).
Definition USIZE_MAX : N := 18446744073709551615.
(** `usize::from_str` (radix 10, 64-bit): optional single `+`, at least one digit, overflow is an error. *)
Fixpoint parse_digits (acc : N) (ds : list N) : option N :=
  match ds with
  | [] => Some acc
  | d :: rest =>
      if is_digit d then
        let acc' := acc * 10 + (d - 48) in
        if acc' <=? USIZE_MAX then parse_digits acc' rest else None
      else None
  end.
Definition parse_usize (s : list N) : option N :=
  match s with
  | [] => None
  | [c] => if is_digit c then Some (c - 48) else None
  | c :: rest => if c =? 43 then parse_digits 0 rest else parse_digits 0 s
  end.

Fixpoint first_name {A} (arms : list (bool * list N * A)) (s : list N) : option A :=
  match arms with
  | [] => None
  | (exact, lit, v) :: r =>
      if (if exact then list_eqb s lit else eq_ic s lit) then Some v else first_name r s
  end.

Definition parse_level (s : list N) : option lv :=
  match (match parse_usize s with Some n => assocN n gen_level_num_arms | None => None end) with
  | Some l => Some l
  | None => first_name gen_level_name_arms s
  end.
Definition parse_filter (s : list N) : option (option lv) :=
  match (match parse_usize s with Some n => assocN n gen_filter_num_arms | None => None end) with
  | Some f => Some f
  | None => first_name gen_filter_name_arms s
  end.

Fixpoint assoc_lv {A} (k : lv) (l : list (lv * A)) : option A :=
  match l with [] => None | (k', v) :: r => if lv_eqb k k' then Some v else assoc_lv k r end.
Fixpoint assoc_olv {A} (k : option lv) (l : list (option lv * A)) : option A :=
  match l with [] => None | (k', v) :: r => if olv_eqb k k' then Some v else assoc_olv k r end.
Definition display_level (l : lv) : option (list N) := assoc_lv l gen_level_display.
Definition as_str_level (l : lv) : option (list N) := assoc_lv l gen_level_as_str.
Definition display_filter (f : option lv) : option (list N) := assoc_olv f gen_filter_display.

(** * LevelFilter used as a layer / the meaning of "enabled": `self REL metadata.level()` *)
Fixpoint assoc_str {A} (k : string) (l : list (string * A)) : option A :=
  match l with [] => None | (k', v) :: r => if String.eqb k k' then Some v else assoc_str k r end.
Definition rel_op (r : rel) : opname :=
  match r with RLt => OpLt | RLe => OpLe | RGt => OpGt | RGe => OpGe | REq => OpEq end.
Definition layer_enabled (which : string) (f : option lv) (l : lv) : option bool :=
  match assoc_str which gen_filter_layer with
  | Some r => match eval_op (rel_op r) (VF f) (VL l) with Some (RB b) => Some b | _ => None end
  | None => None
  end.

(** * log <-> tracing conversions (the `log` crate's levels are written with the same constructors) *)
Definition as_log_level (l : lv) : option lv := assoc_lv l gen_level_as_log.
Definition as_trace_level (l : lv) : option lv := assoc_lv l gen_level_as_trace.
Definition as_log_filter (f : option lv) : option (option lv) := assoc_olv f gen_filter_as_log.
Definition as_trace_filter (f : option lv) : option (option lv) := assoc_olv f gen_filter_as_trace.

(** * The third parser of level names: tracing-attributes' `impl Parse for Level`
    (`#[instrument(level = ..)]`, `err(level = ..)`, `ret(level = ..)`), composed with `ToTokens`.
    String literals: the scrutinee transformations (none in the committed source) then the name arms.
    Case mappings are byte-level on UTF-8; the Unicode ones are *partial*: ASCII plus the code points whose
    full case mapping contains an ASCII letter of a level name (enough to exhibit a wrongly accepted string). *)
Definition upper (b : N) : N := if (97 <=? b) && (b <=? 122) then b - 32 else b.
Fixpoint uni_upper (s : list N) : list N :=
  match s with
  | [] => []
  | a :: r =>
      match r with
      | [] => [upper a]
      | b :: r' =>
          if (a =? 196) && (b =? 177) then 73 :: uni_upper r'            (* U+0131 dotless i -> I *)
          else if (a =? 197) && (b =? 191) then 83 :: uni_upper r'       (* U+017F long s    -> S *)
          else if (a =? 195) && (b =? 159) then 83 :: 83 :: uni_upper r' (* U+00DF sharp s   -> SS *)
          else upper a :: uni_upper r
      end
  end.
Fixpoint uni_lower (s : list N) : list N :=
  match s with
  | [] => []
  | a :: r =>
      match r with
      | [] => [lower a]
      | b :: l =>
          if (a =? 196) && (b =? 176) then 105 :: 204 :: 135 :: uni_lower l   (* U+0130 -> i + U+0307 *)
          else match l with
               | c :: r' =>
                   if (a =? 226) && (b =? 132) && (c =? 170) then 107 :: uni_lower r' (* U+212A Kelvin sign -> k *)
                   else lower a :: uni_lower r
               | [] => lower a :: uni_lower r
               end
      end
  end.
Definition is_ws (b : N) : bool := ((9 <=? b) && (b <=? 13)) || (b =? 32).
Fixpoint trim_start (s : list N) : list N :=
  match s with b :: r => if is_ws b then trim_start r else s | [] => [] end.
Definition trim (s : list N) : list N := rev (trim_start (rev (trim_start s))).
Definition apply_xf (x : strxf) (s : list N) : list N :=
  match x with
  | XfAsciiLower => map lower s
  | XfAsciiUpper => map upper s
  | XfUniLower => uni_lower s
  | XfUniUpper => uni_upper s
  | XfTrim => trim s
  end.
(** `level = "<s>"` *)
Definition attr_parse_str (s : list N) : option lv :=
  first_name gen_attr_name_arms (fold_left (fun acc x => apply_xf x acc) gen_attr_scrutinee s).
(** `level = <n>`: [n] is the value of the integer literal (syn's `LitInt::base10_parse`; out of range is an error) *)
Definition attr_parse_int (n : N) : option lv :=
  if n <=? gen_attr_int_max then assocN n gen_attr_int_arms else None.

(** * Who publishes the maximum level: callsite.rs `rebuild_interest` folds the hints of the live
    dispatchers (a collector without a hint counts as [gen_pub_nohint]) with the hand-written
    LevelFilter comparison named in the source, then calls `set_max`. *)
Definition hint_of (h : option (option lv)) : option lv := match h with Some f => f | None => gen_pub_nohint end.
Definition pub_step (acc : option lv) (h : option (option lv)) : option (option lv) :=
  let hint := hint_of h in
  match gen_pub_update with
  | [(r, hint_left)] =>
      match eval_op (rel_op r) (VF (if hint_left then hint else acc)) (VF (if hint_left then acc else hint)) with
      | Some (RB true) => Some hint
      | Some (RB false) => Some acc
      | _ => None
      end
  | _ => None
  end.
Fixpoint pub_fold (acc : option lv) (hs : list (option (option lv))) : option (option lv) :=
  match hs with
  | [] => Some acc
  | h :: r => match pub_step acc h with Some a => pub_fold a r | None => None end
  end.
(** what `LevelFilter::current()` returns after a rebuild with live dispatchers [hs] *)
Definition published (hs : list (option (option lv))) : option (option lv) :=
  match pub_fold gen_pub_init hs with Some m => current_after m | None => None end.
Definition spec_max (hs : list (option (option lv))) : N :=
  fold_left N.max (map (fun h => rank (VF (match h with Some f => f | None => Some Trace end))) hs) 0.

(** * Encodings used by the correspondence driver (values as small numbers) *)
Definition enc_value (v : value) : N := match v with VL l => rank_lv l | VF f => 10 + rank (VF f) end.
Definition enc_cmp (c : comparison) : N := match c with Lt => 0 | Eq => 1 | Gt => 2 end.
Definition enc_result (r : option result) : list N :=
  match r with
  | None => [99]
  | Some (RB b) => [0; if b then 1 else 0]
  | Some (RO c) => [1; enc_cmp c]
  | Some (ROO None) => [2; 9]
  | Some (ROO (Some c)) => [2; enc_cmp c]
  | Some (RV v) => [3; enc_value v]
  end.
Definition enc_olv (f : option lv) : N := rank (VF f).
