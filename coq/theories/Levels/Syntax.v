(** Data types the levels translator (translators/levels.py) emits into; no definitions about the code here. *)
From Coq Require Export List NArith Bool String.
Export ListNotations.

Inductive lv := Error | Warn | Info | Debug | Trace.
Inductive kind := KLevel | KFilter.
Inductive side := Self | Other.
Inductive conv := AsUsize | FilterAsUsize.
Inductive rel := RLt | RLe | RGt | RGe | REq.
Inductive opname := OpEq | OpLt | OpLe | OpGt | OpGe | OpCmp | OpPartialCmp.

(** The shapes of hand-written operator bodies in metadata.rs. *)
Inductive gbody :=
| GRel (l : side * conv) (r : rel) (rr : side * conv)   (* l REL rr *)
| GNotRel (l : side * conv) (r : rel) (rr : side * conv) (* !(l REL rr) *)
| GCmp (l rr : side * conv)                            (* l.cmp(&rr) *)
| GSomeCmp (l rr : side * conv)                        (* Some(l.cmp(&rr)) *)
| GSomeSelfCmp                                         (* Some(self.cmp(other)) *)
| GDerived.                                            (* #[derive(PartialEq)] on a newtype: structural *)

(** Transformations a level-name parser may apply to its input before comparing it with the names
    (tracing-attributes/src/attr.rs `impl Parse for Level`: the scrutinee `str.value()<.method()>*`).
    The source as committed applies none; the others exist so that a changed source is *interpreted*
    (and the language theorem then fails on a concrete string) instead of merely being unrecognised. *)
Inductive strxf := XfAsciiLower | XfAsciiUpper | XfUniLower | XfUniUpper | XfTrim.
