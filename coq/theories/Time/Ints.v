(** Time/Ints.v — Rust's fixed-width integer types as far as datetime.rs uses them: range, wrapping
    (`as` casts and release-build arithmetic) and range checks (debug-build arithmetic).  Definitions only.
    The bounds are written as literals (not [2 ^ n]) so that range checks cost nothing under vm_compute;
    [IntsProofs] relates them to powers of two. *)
From Coq Require Import ZArith Bool.
Local Open Scope Z_scope.

Inductive ity := I8 | U8 | I32 | U32 | I64 | U64 | USIZE.

Definition bits (ty : ity) : Z :=
  match ty with I8 | U8 => 8 | I32 | U32 => 32 | I64 | U64 | USIZE => 64 end.
Definition signed (ty : ity) : bool :=
  match ty with I8 | I32 | I64 => true | _ => false end.

(** 2 ^ bits *)
Definition modulus (ty : ity) : Z :=
  match ty with
  | I8 | U8 => 256
  | I32 | U32 => 4294967296
  | I64 | U64 | USIZE => 18446744073709551616
  end.

Definition ty_min (ty : ity) : Z :=
  match ty with
  | I8 => -128 | I32 => -2147483648 | I64 => -9223372036854775808
  | U8 | U32 | U64 | USIZE => 0
  end.
Definition ty_max (ty : ity) : Z :=
  match ty with
  | I8 => 127 | I32 => 2147483647 | I64 => 9223372036854775807
  | U8 => 255 | U32 => 4294967295 | U64 | USIZE => 18446744073709551615
  end.

(** [fits ty x]: the mathematical integer [x] is a value of type [ty]. *)
Definition fits (ty : ity) (x : Z) : bool := (ty_min ty <=? x) && (x <=? ty_max ty).

(** Two's-complement wrapping into [ty]: what `x as ty` and release-build arithmetic produce. *)
Definition wrap (ty : ity) (x : Z) : Z :=
  if fits ty x then x                                    (* fast path; equal to the general case *)
  else let r := x mod modulus ty in
       if ty_max ty <? r then r - modulus ty else r.

Definition I64_MIN : Z := -9223372036854775808.
Definition I64_MAX : Z := 9223372036854775807.
