(** Time/Ints.v — Rust's fixed-width integer types as far as datetime.rs uses them: range, wrapping
    (`as` casts and release-build arithmetic) and range checks (debug-build arithmetic).  Definitions only. *)
From Coq Require Import ZArith Bool.
Local Open Scope Z_scope.

Inductive ity := I8 | U8 | I32 | U32 | I64 | U64 | USIZE.

Definition bits (ty : ity) : Z :=
  match ty with I8 | U8 => 8 | I32 | U32 => 32 | I64 | U64 | USIZE => 64 end.
Definition signed (ty : ity) : bool :=
  match ty with I8 | I32 | I64 => true | _ => false end.
Definition ty_min (ty : ity) : Z := if signed ty then - 2 ^ (bits ty - 1) else 0.
Definition ty_max (ty : ity) : Z := if signed ty then 2 ^ (bits ty - 1) - 1 else 2 ^ bits ty - 1.

(** [fits ty x]: the mathematical integer [x] is a value of type [ty]. *)
Definition fits (ty : ity) (x : Z) : bool := (ty_min ty <=? x) && (x <=? ty_max ty).

(** Two's-complement wrapping into [ty]: what `x as ty` and release-build arithmetic produce. *)
Definition wrap (ty : ity) (x : Z) : Z :=
  let m := 2 ^ bits ty in
  let r := x mod m in
  if signed ty && (2 ^ (bits ty - 1) <=? r) then r - m else r.

Definition I64_MIN : Z := - 2 ^ 63.
Definition I64_MAX : Z := 2 ^ 63 - 1.
