(** Time/SandwichProofs.v — what a printed timestamp says about the instant it was taken at.

    The default-configuration leg of C20's check does not control the clock: it reads the clock ([t0]), lets a
    default-built `fmt` layer print a record, reads the clock again ([t1]) and looks at the text the layer printed.
    These lemmas say what may be demanded of that text, and what it proves:

    - [sandwich]            the text of every instant in [t0, t1] lies bytewise between the texts of t0 and t1
                            (so demanding it never raises an alarm on code that prints the instant's text);
    - [rfc3339_inj], [printed_determines_instant]
                            inside 0000..9999 the text determines the instant up to the microsecond;
    - [sandwich_tight]      a text of some instant that lies between the texts of t0 and t1 is the text of an
                            instant inside the window, at microsecond resolution (so the demand is as strong as
                            the printed precision allows). *)
From Coq Require Import ZArith Lia Bool List.
From TV Require Import Time.Civil Time.CivilProofs Time.Musl Time.MuslProofs Time.Rfc3339 Time.DisplayProofs.
Import ListNotations.
Local Open Scope Z_scope.

(** * Byte order is a total order on strings of one length *)

Lemma lex_le_antisym : forall a b, length a = length b -> lex_le a b -> lex_le b a -> a = b.
Proof.
  induction a as [|x a IH]; intros [|y b] L A B; cbn [length lex_le] in *; try discriminate; try reflexivity.
  destruct A as [A|[-> A]]; destruct B as [B|[E B]]; try lia.
  f_equal. apply IH; [lia | exact A | exact B].
Qed.

Lemma lex_le_total : forall a b, length a = length b -> lex_le a b \/ lex_le b a.
Proof.
  induction a as [|x a IH]; intros [|y b] L; cbn [length lex_le] in *; try discriminate; auto.
  destruct (Z.lt_trichotomy x y) as [H|[H|H]]; auto.
  subst y. destruct (IH b ltac:(lia)) as [H|H]; [left|right]; right; auto.
Qed.

(** * Fixed-width decimal fields are injective *)

Lemma digits_app_inj : forall k a b s s', 0 <= a < 10 ^ Z.of_nat k -> 0 <= b < 10 ^ Z.of_nat k ->
  digits k a ++ s = digits k b ++ s' -> a = b /\ s = s'.
Proof.
  induction k as [|k IH]; intros a b s s' Ha Hb E.
  - cbn in Ha, Hb. cbn [digits app] in E. split; [lia | exact E].
  - rewrite pow10_succ in Ha, Hb. cbn [digits] in E. rewrite <- !app_assoc in E.
    assert (A1 : 0 <= a / 10 < 10 ^ Z.of_nat k) by (clear IH E Hb; Z.div_mod_to_equations; lia).
    assert (B1 : 0 <= b / 10 < 10 ^ Z.of_nat k) by (clear IH E Ha; Z.div_mod_to_equations; lia).
    destruct (IH (a / 10) (b / 10) _ _ A1 B1 E) as [Q R].
    change ((48 + a mod 10) :: s = (48 + b mod 10) :: s') in R.
    assert (R1 : 48 + a mod 10 = 48 + b mod 10) by congruence. assert (R2 : s = s') by congruence. clear R.
    split; [clear IH E Ha Hb A1 B1; Z.div_mod_to_equations; lia | exact R2].
Qed.

Lemma sep_inj : forall (c : Z) s s', [c] ++ s = [c] ++ s' -> s = s'.
Proof. intros c s s' E. change (c :: s = c :: s') in E. congruence. Qed.

Lemma rfc3339_inj : forall y1 m1 d1 h1 mi1 c1 u1 y2 m2 d2 h2 mi2 c2 u2,
  0 <= y1 <= 9999 -> 0 <= y2 <= 9999 -> 0 <= m1 < 100 -> 0 <= m2 < 100 -> 0 <= d1 < 100 -> 0 <= d2 < 100 ->
  0 <= h1 < 100 -> 0 <= h2 < 100 -> 0 <= mi1 < 100 -> 0 <= mi2 < 100 -> 0 <= c1 < 100 -> 0 <= c2 < 100 ->
  0 <= u1 < 1000000 -> 0 <= u2 < 1000000 ->
  rfc3339 y1 m1 d1 h1 mi1 c1 u1 = rfc3339 y2 m2 d2 h2 mi2 c2 u2 ->
  [y1; m1; d1; h1; mi1; c1; u1] = [y2; m2; d2; h2; mi2; c2; u2].
Proof.
  intros y1 m1 d1 h1 mi1 c1 u1 y2 m2 d2 h2 mi2 c2 u2 ? ? ? ? ? ? ? ? ? ? ? ? ? ? E.
  assert (P4 : 10 ^ Z.of_nat 4 = 10000) by reflexivity.
  assert (P2 : 10 ^ Z.of_nat 2 = 100) by reflexivity.
  assert (P6 : 10 ^ Z.of_nat 6 = 1000000) by reflexivity.
  unfold rfc3339, tail_text in E.
  apply digits_app_inj in E; [|lia|lia]. destruct E as [-> E]. apply sep_inj in E.
  apply digits_app_inj in E; [|lia|lia]. destruct E as [-> E]. apply sep_inj in E.
  apply digits_app_inj in E; [|lia|lia]. destruct E as [-> E]. apply sep_inj in E.
  apply digits_app_inj in E; [|lia|lia]. destruct E as [-> E]. apply sep_inj in E.
  apply digits_app_inj in E; [|lia|lia]. destruct E as [-> E]. apply sep_inj in E.
  apply digits_app_inj in E; [|lia|lia]. destruct E as [-> E]. apply sep_inj in E.
  apply digits_app_inj in E; [|lia|lia]. destruct E as [-> E].
  reflexivity.
Qed.

(** * Instants inside 0000..9999 *)

Definition in_rfc_range (s : Z) : Prop := YEAR0_SECS <= s < YEAR10000_SECS.

(** (second, microsecond) pairs, lexicographically. *)
Definition us_le (s1 n1 s2 n2 : Z) : Prop := s1 < s2 \/ (s1 = s2 /\ n1 / 1000 <= n2 / 1000).

Lemma year_in_range : forall s y m d h mi c, in_rfc_range s ->
  civil_from_secs s = ((y, m, d), (h, mi, c)) -> 0 <= y <= 9999.
Proof.
  intros s y m d h mi c [L1 L2] E. unfold YEAR0_SECS, YEAR10000_SECS in *.
  unfold civil_from_secs, SECS_PER_DAY in E.
  assert (A : civil_from_days (s / 86400) = (y, m, d)) by congruence.
  assert (D0 : days_from_civil 0 1 1 = -719528) by reflexivity.
  assert (D9 : days_from_civil (9999 + 1) 1 1 = 2932897) by reflexivity.
  split; [apply (civil_from_days_year_ge _ _ _ _ 0 A) | apply (civil_from_days_year_le _ _ _ _ 9999 A)];
    rewrite ?D0, ?D9; Z.div_mod_to_equations; lia.
Qed.

(** The text of an instant inside the range, with the facts about its fields that the other lemmas need. *)
Lemma format_in_range : forall md, md = release \/ md = debug ->
  forall s n, valid_systemtime s n -> in_rfc_range s ->
  exists y m d h mi c,
    civil_from_secs s = ((y, m, d), (h, mi, c)) /\
    format_system_time md s n = Some (rfc3339 y m d h mi c (n / 1000)) /\
    0 <= y <= 9999 /\ 1 <= m <= 12 /\ 1 <= d <= 31 /\ 0 <= h < 24 /\ 0 <= mi < 60 /\ 0 <= c < 60 /\
    0 <= n / 1000 < 1000000 /\ secs_from_civil y m d h mi c = s.
Proof.
  intros md Hmd s n V R.
  destruct (civil_from_secs s) as [[[y m] d] [[h mi] c]] eqn:E.
  exists y, m, d, h, mi, c.
  pose proof (year_in_range _ _ _ _ _ _ _ R E) as Hy.
  destruct (civil_from_secs_correct _ _ _ _ _ _ _ E) as ([Vm Vd] & T & S).
  pose proof (days_in_month_le_31 y m).
  destruct V as [Vs Vn]. unfold NANOS_PER_SEC in Vn. unfold valid_time in T.
  split; [reflexivity|].
  split; [exact (format_rfc3339 md Hmd s n (conj Vs Vn) _ _ _ _ _ _ E Hy)|].
  repeat split; try lia; try exact S; Z.div_mod_to_equations; lia.
Qed.

(** ** Necessary: what lies in the window prints between the window's ends. *)
Theorem sandwich : forall md, md = release \/ md = debug ->
  forall s0 n0 s n s1 n1 o0 o o1,
  valid_systemtime s0 n0 -> valid_systemtime s n -> valid_systemtime s1 n1 ->
  in_rfc_range s0 -> in_rfc_range s1 ->
  (s0 < s \/ (s0 = s /\ n0 <= n)) -> (s < s1 \/ (s = s1 /\ n <= n1)) ->
  format_system_time md s0 n0 = Some o0 -> format_system_time md s n = Some o ->
  format_system_time md s1 n1 = Some o1 ->
  lex_le o0 o /\ lex_le o o1.
Proof.
  intros md Hmd s0 n0 s n s1 n1 o0 o o1 V0 V V1 [L0 U0] [L1 U1] A B F0 F F1.
  split.
  - apply (monotone md Hmd s0 n0 s n o0 o V0 V); try assumption. lia.
  - apply (monotone md Hmd s n s1 n1 o o1 V V1); try assumption. lia.
Qed.

(** ** The text determines the instant, to the microsecond. *)
Theorem printed_determines_instant : forall md, md = release \/ md = debug ->
  forall s1 n1 s2 n2 o,
  valid_systemtime s1 n1 -> valid_systemtime s2 n2 -> in_rfc_range s1 -> in_rfc_range s2 ->
  format_system_time md s1 n1 = Some o -> format_system_time md s2 n2 = Some o ->
  s1 = s2 /\ n1 / 1000 = n2 / 1000.
Proof.
  intros md Hmd s1 n1 s2 n2 o V1 V2 R1 R2 F1 F2.
  destruct (format_in_range md Hmd s1 n1 V1 R1) as (y1 & m1 & d1 & h1 & mi1 & c1 & _ & G1 & ? & ? & ? & ? & ? & ? & ? & S1).
  destruct (format_in_range md Hmd s2 n2 V2 R2) as (y2 & m2 & d2 & h2 & mi2 & c2 & _ & G2 & ? & ? & ? & ? & ? & ? & ? & S2).
  assert (E : rfc3339 y1 m1 d1 h1 mi1 c1 (n1 / 1000) = rfc3339 y2 m2 d2 h2 mi2 c2 (n2 / 1000)) by congruence.
  apply rfc3339_inj in E; try lia.
  assert (Q : y1 = y2 /\ m1 = m2 /\ d1 = d2 /\ h1 = h2 /\ mi1 = mi2 /\ c1 = c2 /\ n1 / 1000 = n2 / 1000)
    by (repeat split; congruence).
  destruct Q as (-> & -> & -> & -> & -> & -> & Eu).
  split; [congruence | exact Eu].
Qed.

(** ** Sufficient: a text of some instant that lies between the window's texts is the text of an instant of the
    window, at the printed resolution. *)
Theorem sandwich_tight : forall md, md = release \/ md = debug ->
  forall s0 n0 s n s1 n1 o0 o o1,
  valid_systemtime s0 n0 -> valid_systemtime s n -> valid_systemtime s1 n1 ->
  in_rfc_range s0 -> in_rfc_range s -> in_rfc_range s1 ->
  format_system_time md s0 n0 = Some o0 -> format_system_time md s n = Some o ->
  format_system_time md s1 n1 = Some o1 ->
  lex_le o0 o -> lex_le o o1 ->
  us_le s0 n0 s n /\ us_le s n s1 n1.
Proof.
  intros md Hmd s0 n0 s n s1 n1 o0 o o1 V0 V V1 R0 R R1 F0 F F1 A B.
  assert (Len : forall s n o, valid_systemtime s n -> in_rfc_range s -> format_system_time md s n = Some o ->
                length o = 27%nat).
  { intros s' n' o' V' R' F'.
    destruct (format_in_range md Hmd s' n' V' R') as (y & m & d & h & mi & c & _ & G & _).
    assert (Eo : o' = rfc3339 y m d h mi c (n' / 1000)) by congruence. rewrite Eo. apply rfc3339_length. }
  pose proof (Len _ _ _ V0 R0 F0) as K0. pose proof (Len _ _ _ V R F) as K. pose proof (Len _ _ _ V1 R1 F1) as K1.
  assert (Key : forall sa na sb nb oa ob, valid_systemtime sa na -> valid_systemtime sb nb ->
                in_rfc_range sa -> in_rfc_range sb ->
                format_system_time md sa na = Some oa -> format_system_time md sb nb = Some ob ->
                length oa = 27%nat -> length ob = 27%nat ->
                lex_le oa ob -> us_le sa na sb nb).
  { intros sa na sb nb oa ob Va Vb Ra Rb Fa Fb Ka Kb Lab. unfold us_le.
    destruct (Z.lt_trichotomy sa sb) as [H|[H|H]]; [left; exact H | |].
    - subst sb. right. split; [reflexivity|].
      destruct (Z.le_gt_cases (na / 1000) (nb / 1000)) as [Q|Q]; [exact Q|exfalso].
      assert (Lba : lex_le ob oa).
      { apply (monotone md Hmd sa nb sa na ob oa Vb Va); try assumption; try apply Ra; try apply Rb.
        right. split; [reflexivity|]. Z.div_mod_to_equations. lia. }
      pose proof (lex_le_antisym oa ob ltac:(congruence) Lab Lba) as Eq. subst ob.
      destruct (printed_determines_instant md Hmd sa na sa nb oa Va Vb Ra Rb Fa Fb) as [_ Eu]. lia.
    - exfalso.
      assert (Lba : lex_le ob oa).
      { apply (monotone md Hmd sb nb sa na ob oa Vb Va); try assumption; try apply Ra; try apply Rb. left. exact H. }
      pose proof (lex_le_antisym oa ob ltac:(congruence) Lab Lba) as Eq. subst ob.
      destruct (printed_determines_instant md Hmd sa na sb nb oa Va Vb Ra Rb Fa Fb) as [Es _]. lia. }
  split; [exact (Key _ _ _ _ _ _ V0 V R0 R F0 F K0 K A) | exact (Key _ _ _ _ _ _ V V1 R R1 F F1 K K1 B)].
Qed.
