(** Time/Sweep.v — checking a decidable predicate on every integer of a range by kernel computation,
    with the lemma that lifts the computed [true] to the universally quantified statement.
    The counter is a binary [Z] driven by [N.iter] (never a unary [nat]: 146097 iterations). *)
From Coq Require Import ZArith Lia.
Local Open Scope Z_scope.

Definition sweep_step (f : Z -> bool) (st : Z * bool) : Z * bool :=
  (fst st + 1, if f (fst st) then snd st else false).

Definition forall_range (f : Z -> bool) (lo : Z) (n : N) : bool :=
  snd (N.iter n (sweep_step f) (lo, true)).

Lemma sweep_iter_spec : forall f lo n,
  fst (N.iter n (sweep_step f) (lo, true)) = lo + Z.of_N n /\
  (snd (N.iter n (sweep_step f) (lo, true)) = true -> forall i, lo <= i < lo + Z.of_N n -> f i = true).
Proof.
  intros f lo n. induction n as [|n IH] using N.peano_ind.
  - simpl. split; [lia | intros _ i Hi; lia].
  - rewrite N.iter_succ. destruct IH as [IHf IHs].
    destruct (N.iter n (sweep_step f) (lo, true)) as [c ok] eqn:E. simpl in *. subst c.
    split; [lia|]. intros H i Hi.
    destruct (f (lo + Z.of_N n)) eqn:Ef; [|discriminate].
    destruct (Z.eq_dec i (lo + Z.of_N n)) as [->|Hne]; [exact Ef|].
    apply IHs; [exact H | lia].
Qed.

Lemma forall_range_spec : forall f lo n,
  forall_range f lo n = true -> forall i, lo <= i < lo + Z.of_N n -> f i = true.
Proof. intros f lo n H. exact (proj2 (sweep_iter_spec f lo n) H). Qed.
