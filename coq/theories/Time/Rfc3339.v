(** Time/Rfc3339.v — the *specification* of the printed form: RFC 3339 `date-time` in UTC with six
    fractional digits, `YYYY-MM-DDThh:mm:ssffffffZ` (ASCII codes), and the byte order on strings.
    Definitions only.  Independent of Musl.v's [display]. *)
From Coq Require Import ZArith List.
Import ListNotations.
Local Open Scope Z_scope.

(** Exactly [k] decimal digits of [n], most significant first (n is reduced modulo 10^k). *)
Fixpoint digits (k : nat) (n : Z) : list Z :=
  match k with
  | O => []
  | S k' => digits k' (n / 10) ++ [48 + n mod 10]
  end.

(** `-MM-DDThh:mm:ss.ffffffZ` *)
Definition tail_text (m d h mi s us : Z) : list Z :=
  [45] ++ digits 2 m ++ [45] ++ digits 2 d ++ [84] ++ digits 2 h ++ [58] ++ digits 2 mi ++ [58] ++ digits 2 s
    ++ [46] ++ digits 6 us ++ [90].

Definition rfc3339 (y m d h mi s us : Z) : list Z := digits 4 y ++ tail_text m d h mi s us.

(** Byte-wise lexicographic order (what sorting log lines compares). *)
Fixpoint lex_le (a b : list Z) : Prop :=
  match a, b with
  | [], _ => True
  | _ :: _, [] => False
  | x :: a', y :: b' => x < y \/ (x = y /\ lex_le a' b')
  end.

(** 0000-01-01T00:00:00Z and 10000-01-01T00:00:00Z as Unix times: the range RFC 3339 can express. *)
Definition YEAR0_SECS : Z := -62167219200.
Definition YEAR10000_SECS : Z := 253402300800.
