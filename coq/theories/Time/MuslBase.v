(** Time/MuslBase.v — the run-time vocabulary of the model of tracing-subscriber/src/fmt/time/datetime.rs:
    Rust's integer operations under a build profile ([mode]), std's `SystemTime::duration_since` and std's
    integer formatting (`{}`, `{:0w}`).  Definitions only.  Nothing of datetime.rs itself is written here:
    the statements of `impl From<SystemTime> for DateTime` and `impl Display for DateTime` are translated
    from the source on every run by translators/datetime.py into TVGen.Gen_datetime, in this vocabulary.

    Conventions of the translation (every Rust operation becomes one monadic step on [Z]):
      - Rust's `/` and `%` truncate toward zero: [Z.quot] / [Z.rem];
      - every arithmetic result and every `as` / `From` conversion goes through the [mode]:
          [release]  arithmetic wraps (overflow-checks off), casts wrap, debug_assert! is compiled out;
          [debug]    arithmetic overflow panics, casts wrap, debug_assert! is checked;
          [strict]   like [debug] and additionally every cast must be the identity
                     (used to *state* "no cast ever changes a value");
        a panic is the value [None];
      - indexing `DAYS_IN_MONTH[i]` panics ([None]) out of bounds;
      - `x.wrapping_neg()` wraps in every build profile; in [strict] it must not change the value;
      - the constants LEAPOCH, DAYS_PER_400Y, DAYS_PER_100Y, DAYS_PER_4Y and the table DAYS_IN_MONTH
        come from TVGen.Gen_time_consts, regenerated from the source on every run.

    Input: a `SystemTime` is std's `Timespec { tv_sec : i64, tv_nsec : 0..1e9 }` (unix), denoting
    tv_sec + tv_nsec/1e9 seconds after the epoch; [std_duration_since_epoch] is
    `timestamp.duration_since(UNIX_EPOCH)` (std, trusted: assumption "SystemTime <-> (secs,nanos) is std's"). *)
From Coq Require Import ZArith List Bool.
From TV Require Export Time.Ints.
Import ListNotations.
Local Open Scope Z_scope.

(* ---------------------------------------------------------------------------------------------- *)
(** * Modes *)

Record mode := Mode {
  m_arith : ity -> Z -> option Z;      (* the result of + - * unary- at type ty *)
  m_cast : ity -> Z -> option Z;       (* `x as ty`, `ty::from(x)` *)
  m_dassert : bool -> option unit;     (* debug_assert!(b) *)
  m_wrapping : ity -> Z -> option Z    (* the result of an explicitly wrapping operation (`wrapping_neg`) *)
}.

Definition ck (ty : ity) (x : Z) : option Z := if fits ty x then Some x else None.
Definition wr (ty : ity) (x : Z) : option Z := Some (wrap ty x).
Definition assert_on (b : bool) : option unit := if b then Some tt else None.
Definition assert_off (b : bool) : option unit := Some tt.

Definition release : mode := Mode wr wr assert_off wr.
Definition debug : mode := Mode ck wr assert_on wr.
Definition strict : mode := Mode ck ck assert_on ck.

Notation "x <- e ;; k" := (match e with Some x => k | None => None end)
  (at level 61, e at next level, right associativity, only parsing).
Notation "' p <- e ;; k" := (match e with Some p => k | None => None end)
  (at level 61, p pattern, e at next level, right associativity, only parsing).

Definition add (md : mode) (ty : ity) (a b : Z) : option Z := m_arith md ty (a + b).
Definition sub (md : mode) (ty : ity) (a b : Z) : option Z := m_arith md ty (a - b).
Definition mul (md : mode) (ty : ity) (a b : Z) : option Z := m_arith md ty (a * b).
Definition neg (md : mode) (ty : ity) (a : Z) : option Z := m_arith md ty (- a).
Definition wrapping_neg (md : mode) (ty : ity) (a : Z) : option Z := m_wrapping md ty (- a).
(** Division and remainder panic on a zero divisor and on MIN / -1 in every build profile. *)
Definition div (ty : ity) (a b : Z) : option Z := if b =? 0 then None else ck ty (Z.quot a b).
Definition rem (ty : ity) (a b : Z) : option Z :=
  if b =? 0 then None else if fits ty (Z.quot a b) then Some (Z.rem a b) else None.

Fixpoint nth_Z (l : list Z) (i : Z) : option Z :=
  match l with
  | [] => None
  | x :: r => if i =? 0 then Some x else nth_Z r (i - 1)
  end.

(* ---------------------------------------------------------------------------------------------- *)
(** * DateTime *)

Record datetime := DT {
  year : Z;     (* i64 *)
  month : Z;    (* u8 *)
  day : Z;      (* u8 *)
  hour : Z;     (* u8 *)
  minute : Z;   (* u8 *)
  second : Z;   (* u8 *)
  nanos : Z     (* u32 *)
}.

(** std: `SystemTime::duration_since(UNIX_EPOCH)` — Ok(duration) when not before the epoch, else
    Err(error) with `error.duration()` the distance *back* to the epoch; (secs : u64, subsec_nanos). *)
Inductive dur_result := DOk (secs nanos : Z) | DErr (secs nanos : Z).

Definition NANOS_PER_SEC : Z := 1000000000.

Definition std_duration_since_epoch (tv_sec tv_nsec : Z) : dur_result :=
  if 0 <=? tv_sec then DOk tv_sec tv_nsec
  else if tv_nsec =? 0 then DErr (- tv_sec) 0
  else DErr (- tv_sec - 1) (NANOS_PER_SEC - tv_nsec).

Definition valid_systemtime (tv_sec tv_nsec : Z) : Prop :=
  I64_MIN <= tv_sec <= I64_MAX /\ 0 <= tv_nsec < NANOS_PER_SEC.

(* ---------------------------------------------------------------------------------------------- *)
(** * std's integer formatting *)

(** Decimal digits (ASCII codes) of a non-negative integer, most significant first; what `{}` prints.
    [fuel] bounds the number of digits; running out of it is [None], never a truncated numeral. *)
Fixpoint dec_digits (fuel : nat) (n : Z) (acc : list Z) : option (list Z) :=
  match fuel with
  | O => None
  | S fuel' =>
      let acc := (48 + n mod 10) :: acc in
      if n <? 10 then Some acc else dec_digits fuel' (n / 10) acc
  end.

Definition dec (n : Z) : option (list Z) := dec_digits 40 n [].

(** `{:0w}` of a non-negative integer: zero-padded on the left to at least [w] characters. *)
Definition pad0 (w : nat) (n : Z) : option (list Z) :=
  ds <- dec n ;;
  Some (repeat 48 (w - length ds) ++ ds).

Definition ch_plus : Z := 43.   Definition ch_minus : Z := 45.   Definition ch_dot : Z := 46.
Definition ch_colon : Z := 58.  Definition ch_T : Z := 84.       Definition ch_Z : Z := 90.

(** `{}` (w = 0) and `{:0w}` of an integer, as core::fmt prints it: the `0` flag is sign-aware — the sign
    comes first and the digits are zero-padded so that the whole field (sign included) has at least [w]
    characters.  (`{:05}` of -1 is `-0001`, of -12345 is `-12345`.) *)
Definition fmt_int (w : nat) (n : Z) : option (list Z) :=
  if n <? 0 then ds <- dec (- n) ;; Some (ch_minus :: repeat 48 (w - 1 - length ds) ++ ds)
  else pad0 w n.
