(** Time/CivilProofs.v — facts about the calendar specification Time/Civil.v.

    1. [days_from_civil] is characterised by the leap-year rule alone:
         [dfc_epoch]     days_from_civil 1970 1 1 = 0
         [dfc_next_day]  the successor date (by month lengths) has the next day number
       so it is *the* day count of the proleptic Gregorian calendar, and
         [days_from_civil_lex_lt]  it is strictly increasing in (y,m,d) on valid dates,
         [days_from_civil_inj]     hence a day number has at most one valid date.
    2. 400-year periodicity: [dfc_shift_400], [valid_date_shift_400].
    3. [civil_from_days] (Hinnant) is its inverse, for every integer:
         [civil_from_days_valid], [days_from_civil_from_days], [civil_from_days_from_civil];
       one 146097-day era is checked by kernel computation ([hinnant_era_sweep], under the lifting lemma
       [forall_range_spec]); [cfd_shift] extends it to all of Z.
    4. Year bounds for [civil_from_days]: [civil_from_days_year_ge], [civil_from_days_year_le]. *)
From Coq Require Import ZArith Lia Bool.
From TV Require Import Time.Civil Time.Sweep.
Local Open Scope Z_scope.

(* ---------------------------------------------------------------------------------------------- *)
(** * The leap-year rule *)

Lemma is_leap_shift_400 : forall y k, is_leap (y + 400 * k) = is_leap y.
Proof.
  intros y k. unfold is_leap.
  replace (y + 400 * k) with (y + (100 * k) * 4) at 1 by ring.
  replace (y + 400 * k) with (y + (4 * k) * 100) at 1 by ring.
  replace (y + 400 * k) with (y + k * 400) by ring.
  rewrite !Z.mod_add by lia. reflexivity.
Qed.

Lemma leaps_upto_shift_400 : forall y k, leaps_upto (y + 400 * k) = leaps_upto y + 97 * k.
Proof.
  intros y k. unfold leaps_upto.
  replace (y + 400 * k) with (y + (100 * k) * 4) at 1 by ring.
  replace (y + 400 * k) with (y + (4 * k) * 100) at 1 by ring.
  replace (y + 400 * k) with (y + k * 400) by ring.
  rewrite !Z.div_add by lia. ring.
Qed.

Lemma is_leap_cases : forall y,
  (is_leap y = true /\ ((y mod 4 = 0 /\ y mod 100 <> 0) \/ y mod 400 = 0)) \/
  (is_leap y = false /\ (y mod 4 <> 0 \/ y mod 100 = 0) /\ y mod 400 <> 0).
Proof.
  intros y. unfold is_leap.
  destruct (Z.eqb_spec (y mod 4) 0), (Z.eqb_spec (y mod 100) 0), (Z.eqb_spec (y mod 400) 0); simpl; intuition lia.
Qed.

(** The number of leap years grows by one exactly at a leap year. *)
Lemma leaps_upto_step : forall y, leaps_upto y = leaps_upto (y - 1) + (if is_leap y then 1 else 0).
Proof.
  intros y. destruct (is_leap_cases y) as [[-> H]|[-> H]]; unfold leaps_upto;
    Z.div_mod_to_equations; lia.
Qed.

Lemma days_before_year_step : forall y, days_before_year (y + 1) = days_before_year y + days_in_year y.
Proof.
  intros y. unfold days_before_year, days_in_year.
  replace (y + 1 - 1) with y by ring. rewrite (leaps_upto_step y).
  destruct (is_leap y); ring.
Qed.

Lemma days_in_year_ge : forall y, 365 <= days_in_year y <= 366.
Proof. intros y. unfold days_in_year. destruct (is_leap y); lia. Qed.

Lemma days_before_year_mono : forall a b, a <= b -> days_before_year a <= days_before_year b.
Proof.
  intros a b Hab. unfold days_before_year, leaps_upto. Z.div_mod_to_equations. lia.
Qed.

(* ---------------------------------------------------------------------------------------------- *)
(** * Months *)

Lemma month_cases : forall m, 1 <= m <= 12 ->
  m = 1 \/ m = 2 \/ m = 3 \/ m = 4 \/ m = 5 \/ m = 6 \/ m = 7 \/ m = 8 \/ m = 9 \/ m = 10 \/ m = 11 \/ m = 12.
Proof. intros; lia. Qed.

Ltac month_split H :=
  apply month_cases in H;
  destruct H as [H|[H|[H|[H|[H|[H|[H|[H|[H|[H|[H|H]]]]]]]]]]]; subst.

Lemma days_in_month_le_31 : forall y m, days_in_month y m <= 31.
Proof.
  intros y m. unfold days_in_month.
  destruct m as [|p|p]; try lia.
  do 4 (try destruct p as [p|p|]); try lia; destruct (is_leap y); lia.
Qed.

Lemma days_in_month_ge_28 : forall y m, 1 <= m <= 12 -> 28 <= days_in_month y m.
Proof. intros y m H. month_split H; unfold days_in_month; try destruct (is_leap y); lia. Qed.

(** The cumulative table is the running sum of the month lengths. *)
Lemma days_before_month_step : forall y m, 1 <= m <= 11 ->
  days_before_month y (m + 1) = days_before_month y m + days_in_month y m.
Proof.
  intros y m H. assert (H' : 1 <= m <= 12) by lia.
  month_split H'; try lia; unfold days_before_month, days_in_month; simpl; destruct (is_leap y); reflexivity.
Qed.

Lemma days_before_month_last : forall y, days_before_month y 12 + days_in_month y 12 = days_in_year y.
Proof. intros y. unfold days_before_month, days_in_month, days_in_year. simpl. destruct (is_leap y); reflexivity. Qed.

Lemma days_before_month_first : forall y, days_before_month y 1 = 0.
Proof. intros y. reflexivity. Qed.

Lemma days_before_month_mono : forall y m m', 1 <= m -> m < m' -> m' <= 12 ->
  days_before_month y m + days_in_month y m <= days_before_month y m'.
Proof.
  intros y m m' H1 H2 H3.
  assert (Hm : 1 <= m <= 12) by lia. assert (Hm' : 1 <= m' <= 12) by lia.
  month_split Hm; month_split Hm'; try lia;
    unfold days_before_month, days_in_month; simpl; destruct (is_leap y); lia.
Qed.

Lemma days_before_month_bound : forall y m, 1 <= m <= 12 ->
  0 <= days_before_month y m /\ days_before_month y m + days_in_month y m <= days_in_year y.
Proof.
  intros y m H. month_split H; unfold days_before_month, days_in_month, days_in_year; simpl; destruct (is_leap y); lia.
Qed.

(* ---------------------------------------------------------------------------------------------- *)
(** * [days_from_civil] is the day count *)

Lemma dfc_epoch : days_from_civil 1970 1 1 = 0.
Proof. reflexivity. Qed.

Lemma next_day_valid_succ : forall y m d, valid_date y m d ->
  forall y' m' d', next_day (y, m, d) = (y', m', d') ->
  valid_date y' m' d' /\ days_from_civil y' m' d' = days_from_civil y m d + 1.
Proof.
  intros y m d [Hm Hd] y' m' d' E. unfold next_day in E.
  destruct (Z.ltb_spec d (days_in_month y m)).
  - injection E as E1 E2 E3. subst y' m' d'. split; [split; lia|]. unfold days_from_civil. ring.
  - assert (d = days_in_month y m) by lia. subst d.
    destruct (Z.ltb_spec m 12).
    + injection E as E1 E2 E3. subst y' m' d'. split.
      * split; [lia|]. pose proof (days_in_month_ge_28 y (m + 1)). lia.
      * unfold days_from_civil. rewrite days_before_month_step by lia. ring.
    + assert (m = 12) by lia. subst m. injection E as E1 E2 E3. subst y' m' d'. split.
      * split; [lia|]. unfold days_in_month. lia.
      * unfold days_from_civil. rewrite days_before_year_step, <- days_before_month_last.
        rewrite days_before_month_first. ring.
Qed.

Lemma dfc_next_day : forall y m d, valid_date y m d ->
  let '(y', m', d') := next_day (y, m, d) in
  valid_date y' m' d' /\ days_from_civil y' m' d' = days_from_civil y m d + 1.
Proof.
  intros y m d H. destruct (next_day (y, m, d)) as [[y' m'] d'] eqn:E.
  exact (next_day_valid_succ y m d H y' m' d' E).
Qed.

(** Lexicographic order on dates. *)
Definition date_lt (y m d y' m' d' : Z) : Prop :=
  y < y' \/ (y = y' /\ (m < m' \/ (m = m' /\ d < d'))).

Lemma days_from_civil_lex_lt : forall y m d y' m' d',
  valid_date y m d -> valid_date y' m' d' -> date_lt y m d y' m' d' ->
  days_from_civil y m d < days_from_civil y' m' d'.
Proof.
  intros y m d y' m' d' [Hm Hd] [Hm' Hd'] L. unfold days_from_civil.
  destruct L as [L|[-> [L|[-> L]]]].
  - pose proof (days_before_month_bound y m Hm). pose proof (days_before_month_bound y' m' Hm').
    pose proof (days_before_year_step y). pose proof (days_before_year_mono (y + 1) y' ltac:(lia)). lia.
  - pose proof (days_before_month_mono y' m m' ltac:(lia) L ltac:(lia)). lia.
  - lia.
Qed.

Lemma date_trichotomy : forall y m d y' m' d',
  date_lt y m d y' m' d' \/ (y, m, d) = (y', m', d') \/ date_lt y' m' d' y m d.
Proof.
  intros. unfold date_lt.
  destruct (Z.lt_trichotomy y y') as [?|[->|?]]; [lia| |lia].
  destruct (Z.lt_trichotomy m m') as [?|[->|?]]; [lia| |lia].
  destruct (Z.lt_trichotomy d d') as [?|[->|?]]; [lia| |lia].
  right; left; reflexivity.
Qed.

(** Uniqueness of the decomposition: a day number has at most one valid date. *)
Lemma days_from_civil_inj : forall y m d y' m' d',
  valid_date y m d -> valid_date y' m' d' ->
  days_from_civil y m d = days_from_civil y' m' d' -> (y, m, d) = (y', m', d').
Proof.
  intros y m d y' m' d' V V' E.
  destruct (date_trichotomy y m d y' m' d') as [L|[L|L]]; [|exact L|].
  - pose proof (days_from_civil_lex_lt _ _ _ _ _ _ V V' L). lia.
  - pose proof (days_from_civil_lex_lt _ _ _ _ _ _ V' V L). lia.
Qed.

(** Monotone in the other direction: an earlier-or-equal day number is an earlier-or-equal date. *)
Lemma days_from_civil_le_inv : forall y m d y' m' d',
  valid_date y m d -> valid_date y' m' d' ->
  days_from_civil y m d <= days_from_civil y' m' d' ->
  (y, m, d) = (y', m', d') \/ date_lt y m d y' m' d'.
Proof.
  intros y m d y' m' d' V V' E.
  destruct (date_trichotomy y m d y' m' d') as [L|[L|L]]; [right; exact L|left; exact L|].
  pose proof (days_from_civil_lex_lt _ _ _ _ _ _ V' V L). lia.
Qed.

(* ---------------------------------------------------------------------------------------------- *)
(** * 400-year periodicity *)

Lemma days_before_month_shift_400 : forall y m k, days_before_month (y + 400 * k) m = days_before_month y m.
Proof. intros. unfold days_before_month. rewrite is_leap_shift_400. reflexivity. Qed.

Lemma days_in_month_shift_400 : forall y m k, days_in_month (y + 400 * k) m = days_in_month y m.
Proof. intros. unfold days_in_month. rewrite is_leap_shift_400. reflexivity. Qed.

Lemma dfc_shift_400 : forall y m d k,
  days_from_civil (y + 400 * k) m d = days_from_civil y m d + 146097 * k.
Proof.
  intros. unfold days_from_civil, days_before_year.
  rewrite days_before_month_shift_400.
  replace (y + 400 * k - 1) with (y - 1 + 400 * k) by ring.
  rewrite leaps_upto_shift_400. ring.
Qed.

Lemma valid_date_shift_400 : forall y m d k, valid_date (y + 400 * k) m d <-> valid_date y m d.
Proof. intros. unfold valid_date. rewrite days_in_month_shift_400. reflexivity. Qed.

Lemma valid_dateb_spec : forall y m d, valid_dateb y m d = true <-> valid_date y m d.
Proof. intros. unfold valid_dateb, valid_date. rewrite !andb_true_iff, !Z.leb_le. tauto. Qed.

Lemma valid_timeb_spec : forall h mi s, valid_timeb h mi s = true <-> valid_time h mi s.
Proof. intros. unfold valid_timeb, valid_time. rewrite !andb_true_iff, !Z.leb_le, !Z.ltb_lt. tauto. Qed.

(* ---------------------------------------------------------------------------------------------- *)
(** * [civil_from_days] is the inverse *)

Definition hinnant_check (z : Z) : bool :=
  let '(y, m, d) := civil_from_days z in valid_dateb y m d && (days_from_civil y m d =? z).

(** One whole era (0000-03-01 .. 0400-02-29), every day, by kernel computation. *)
Lemma hinnant_era_sweep : forall_range hinnant_check (-719468) 146097 = true.
Proof. vm_compute. reflexivity. Qed.

Lemma hinnant_era : forall z, -719468 <= z < -719468 + 146097 ->
  forall y m d, civil_from_days z = (y, m, d) -> valid_date y m d /\ days_from_civil y m d = z.
Proof.
  intros z Hz y m d E.
  pose proof (forall_range_spec _ _ _ hinnant_era_sweep z Hz) as H.
  unfold hinnant_check in H. rewrite E in H.
  apply andb_true_iff in H. destruct H as [H1 H2].
  split; [apply valid_dateb_spec; exact H1 | apply Z.eqb_eq; exact H2].
Qed.

(** Shifting the day number by whole eras shifts the year by 400 per era and nothing else. *)
Lemma cfd_shift : forall z k y m d,
  civil_from_days z = (y, m, d) -> civil_from_days (z + 146097 * k) = (y + 400 * k, m, d).
Proof.
  intros z k y m d. unfold civil_from_days.
  replace (z + 146097 * k + 719468) with (z + 719468 + k * 146097) by ring.
  rewrite Z.div_add by lia.
  set (era := (z + 719468) / 146097).
  replace (z + 719468 + k * 146097 - (era + k) * 146097) with (z + 719468 - era * 146097) by ring.
  set (doe := z + 719468 - era * 146097).
  set (yoe := (doe - doe / 1460 + doe / 36524 - doe / 146096) / 365).
  set (doy := doe - (365 * yoe + yoe / 4 - yoe / 100)).
  set (mp := (5 * doy + 2) / 153).
  cbv zeta.
  set (mm := if mp <? 10 then mp + 3 else mp - 9).
  destruct (mm <=? 2); intros E; inversion E; subst; f_equal; f_equal; ring.
Qed.

Lemma cfd_correct : forall z y m d,
  civil_from_days z = (y, m, d) -> valid_date y m d /\ days_from_civil y m d = z.
Proof.
  intros z y m d E.
  set (k := (z + 719468) / 146097).
  set (z0 := z - 146097 * k).
  assert (Hz0 : -719468 <= z0 < -719468 + 146097).
  { subst z0 k. pose proof (Z.mod_pos_bound (z + 719468) 146097 ltac:(lia)).
    pose proof (Z.div_mod (z + 719468) 146097 ltac:(lia)). lia. }
  destruct (civil_from_days z0) as [[y0 m0] d0] eqn:E0.
  pose proof (cfd_shift z0 k y0 m0 d0 E0) as Es.
  replace (z0 + 146097 * k) with z in Es by (subst z0; ring).
  rewrite E in Es.
  assert (Hy : y = y0 + 400 * k /\ m = m0 /\ d = d0) by (repeat split; congruence).
  destruct Hy as [-> [-> ->]]. clear Es.
  destruct (hinnant_era z0 Hz0 y0 m0 d0 E0) as [V D].
  split; [apply valid_date_shift_400; exact V|].
  rewrite dfc_shift_400, D. subst z0. ring.
Qed.

Lemma civil_from_days_valid : forall z y m d, civil_from_days z = (y, m, d) -> valid_date y m d.
Proof. intros z y m d E. exact (proj1 (cfd_correct z y m d E)). Qed.

Lemma days_from_civil_from_days : forall z y m d, civil_from_days z = (y, m, d) -> days_from_civil y m d = z.
Proof. intros z y m d E. exact (proj2 (cfd_correct z y m d E)). Qed.

Lemma civil_from_days_from_civil : forall y m d,
  valid_date y m d -> civil_from_days (days_from_civil y m d) = (y, m, d).
Proof.
  intros y m d V.
  destruct (civil_from_days (days_from_civil y m d)) as [[y' m'] d'] eqn:E.
  destruct (cfd_correct _ _ _ _ E) as [V' D].
  exact (days_from_civil_inj _ _ _ _ _ _ V' V D).
Qed.

(** Every integer is the day number of exactly one valid date. *)
Lemma civil_decomposition_unique : forall z, exists! ymd : Z * Z * Z,
  let '(y, m, d) := ymd in valid_date y m d /\ days_from_civil y m d = z.
Proof.
  intros z. exists (civil_from_days z). split.
  - destruct (civil_from_days z) as [[y m] d] eqn:E. exact (cfd_correct z y m d E).
  - intros [[y m] d] [V D]. subst z. apply civil_from_days_from_civil. exact V.
Qed.

(* ---------------------------------------------------------------------------------------------- *)
(** * Year bounds *)

Lemma valid_jan1 : forall Y, valid_date Y 1 1.
Proof. intros. unfold valid_date, days_in_month. lia. Qed.

Lemma civil_from_days_year_ge : forall z y m d Y,
  civil_from_days z = (y, m, d) -> days_from_civil Y 1 1 <= z -> Y <= y.
Proof.
  intros z y m d Y E H. destruct (cfd_correct z y m d E) as [V D].
  destruct (Z.le_gt_cases Y y) as [?|L]; [assumption|].
  assert (LT : date_lt y m d Y 1 1) by (left; lia).
  pose proof (days_from_civil_lex_lt y m d Y 1 1 V (valid_jan1 Y) LT). lia.
Qed.

Lemma civil_from_days_year_le : forall z y m d Y,
  civil_from_days z = (y, m, d) -> z < days_from_civil (Y + 1) 1 1 -> y <= Y.
Proof.
  intros z y m d Y E H. destruct (cfd_correct z y m d E) as [V D].
  destruct (Z.le_gt_cases y Y) as [?|L]; [assumption|].
  destruct V as [Vm Vd].
  pose proof (days_before_year_mono (Y + 1) y ltac:(lia)).
  pose proof (days_before_month_bound y m Vm).
  unfold days_from_civil in *. rewrite days_before_month_first in H. lia.
Qed.

(* ---------------------------------------------------------------------------------------------- *)
(** * Seconds *)

Lemma time_from_secs_of_day_valid : forall r, 0 <= r < 86400 ->
  let '(h, mi, s) := time_from_secs_of_day r in
  valid_time h mi s /\ h * 3600 + mi * 60 + s = r.
Proof.
  intros r Hr. unfold time_from_secs_of_day, valid_time. Z.div_mod_to_equations. lia.
Qed.

(** The decomposition of a Unix time into a valid date and time of day is unique. *)
Lemma secs_from_civil_inj : forall y m d h mi s y' m' d' h' mi' s',
  valid_date y m d -> valid_time h mi s -> valid_date y' m' d' -> valid_time h' mi' s' ->
  secs_from_civil y m d h mi s = secs_from_civil y' m' d' h' mi' s' ->
  (y, m, d) = (y', m', d') /\ (h, mi, s) = (h', mi', s').
Proof.
  intros y m d h mi s y' m' d' h' mi' s' V T V' T' E.
  unfold secs_from_civil, SECS_PER_DAY, valid_time in *.
  assert (D : days_from_civil y m d = days_from_civil y' m' d') by lia.
  split; [exact (days_from_civil_inj _ _ _ _ _ _ V V' D)|].
  rewrite D in E. assert (h = h') by lia. subst. assert (mi = mi') by lia. subst.
  assert (s = s') by lia. subst. reflexivity.
Qed.

Lemma civil_from_secs_correct : forall t y m d h mi s,
  civil_from_secs t = ((y, m, d), (h, mi, s)) ->
  valid_date y m d /\ valid_time h mi s /\ secs_from_civil y m d h mi s = t.
Proof.
  intros t y m d h mi s E. unfold civil_from_secs, SECS_PER_DAY in E.
  assert (E1 : civil_from_days (t / 86400) = (y, m, d)) by congruence.
  assert (E2 : time_from_secs_of_day (t mod 86400) = (h, mi, s)) by congruence.
  clear E.
  destruct (cfd_correct _ _ _ _ E1) as [V D].
  pose proof (time_from_secs_of_day_valid (t mod 86400) (Z.mod_pos_bound t 86400 ltac:(lia))) as T.
  rewrite E2 in T. destruct T as [T1 T2].
  split; [exact V|]. split; [exact T1|].
  unfold secs_from_civil, SECS_PER_DAY. rewrite D.
  pose proof (Z.div_mod t 86400 ltac:(lia)). lia.
Qed.
