(** Time/MuslProofs.v — the musl-derived conversion of datetime.rs (Time/Musl.v) computes the proleptic
    Gregorian UTC date and time of every instant a SystemTime can hold (specification: Time/Civil.v).

    Structure of the argument (every statement is for *all* instants; nothing is bounded):
      - the program text is TVGen.Gen_datetime (translated from datetime.rs on every run); the proofs below
        execute it symbolically with tactics that do not depend on the names of its temporaries;
      - [split_ok], [day_split_ok], [cycle_split_ok], [years_of_ok], [finish_ok]: the blocks whose inputs range
        over 64-bit values are handled symbolically (lia over the truncating-division equations), for every
        *sound* mode (a mode in which an operation whose mathematical result fits its type returns it);
        [release], [debug] and [strict] are sound;
      - [cycle_sweep]: the block that depends only on the day within the 400-year cycle (146097 values) is
        checked by kernel computation against [days_from_civil] in [strict] mode, lifted to a universally
        quantified statement by [forall_range_spec], and transferred to every sound mode ([in_cycle_transfer],
        [months_of_transfer]);
      - 400-year periodicity of the specification ([dfc_shift_400]) extends the cycle to all of Z. *)
From Coq Require Import ZArith Lia Bool List.
From TV Require Import Time.Civil Time.CivilProofs Time.Sweep Time.Musl.
Import ListNotations.
Local Open Scope Z_scope.

(* ---------------------------------------------------------------------------------------------- *)
(** * Integer types *)

Lemma fits_iff : forall ty x, fits ty x = true <-> ty_min ty <= x <= ty_max ty.
Proof. intros. unfold fits. rewrite andb_true_iff, !Z.leb_le. tauto. Qed.

Lemma fits_intro : forall ty x, ty_min ty <= x <= ty_max ty -> fits ty x = true.
Proof. intros. apply fits_iff. assumption. Qed.

Lemma modulus_pow : forall ty, modulus ty = 2 ^ bits ty.
Proof. destruct ty; reflexivity. Qed.

Lemma ty_range_pow : forall ty,
  (signed ty = true -> ty_min ty = - 2 ^ (bits ty - 1) /\ ty_max ty = 2 ^ (bits ty - 1) - 1) /\
  (signed ty = false -> ty_min ty = 0 /\ ty_max ty = 2 ^ bits ty - 1).
Proof. destruct ty; split; intros H; try discriminate H; split; reflexivity. Qed.

Lemma wrap_fits : forall ty x, fits ty x = true -> wrap ty x = x.
Proof. intros ty x H. unfold wrap. rewrite H. reflexivity. Qed.

(** [wrap] is two's-complement reduction: in range, and congruent modulo 2^bits. *)
Lemma wrap_spec : forall ty x, fits ty (wrap ty x) = true /\ (wrap ty x - x) mod modulus ty = 0.
Proof.
  intros ty x. unfold wrap. destruct (fits ty x) eqn:F.
  - split; [exact F|]. rewrite Z.sub_diag. apply Z.mod_0_l. destruct ty; discriminate.
  - assert (M : 0 < modulus ty) by (destruct ty; reflexivity).
    pose proof (Z.mod_pos_bound x (modulus ty) M) as B.
    destruct (Z.ltb_spec (ty_max ty) (x mod modulus ty)) as [L|L]; split.
    + apply fits_intro. destruct ty; cbn [ty_min ty_max modulus] in *; lia.
    + replace (x mod modulus ty - modulus ty - x) with (x mod modulus ty - x + (-1) * modulus ty) by ring.
      rewrite Z.mod_add by lia. rewrite Zminus_mod, Z.mod_mod, Z.sub_diag by lia. apply Z.mod_0_l. lia.
    + apply fits_intro. destruct ty; cbn [ty_min ty_max modulus] in *; lia.
    + rewrite Zminus_mod, Z.mod_mod, Z.sub_diag by lia. apply Z.mod_0_l. lia.
Qed.

Lemma ck_some : forall ty x v, ck ty x = Some v -> fits ty x = true /\ v = x.
Proof. intros ty x v H. unfold ck in H. destruct (fits ty x); [|discriminate]. injection H as <-. auto. Qed.

Lemma ck_ok : forall ty x, fits ty x = true -> ck ty x = Some x.
Proof. intros ty x H. unfold ck. rewrite H. reflexivity. Qed.

Lemma div_ok : forall ty a b, b <> 0 -> fits ty (Z.quot a b) = true -> div ty a b = Some (Z.quot a b).
Proof. intros ty a b Hb F. unfold div. destruct (Z.eqb_spec b 0); [contradiction|]. apply ck_ok, F. Qed.

Lemma rem_ok : forall ty a b, b <> 0 -> fits ty (Z.quot a b) = true -> rem ty a b = Some (Z.rem a b).
Proof. intros ty a b Hb F. unfold rem. destruct (Z.eqb_spec b 0); [contradiction|]. rewrite F. reflexivity. Qed.

(* ---------------------------------------------------------------------------------------------- *)
(** * Sound modes *)

Definition sound (md : mode) : Prop :=
  (forall ty x, fits ty x = true -> m_arith md ty x = Some x) /\
  (forall ty x, fits ty x = true -> m_cast md ty x = Some x) /\
  m_dassert md true = Some tt /\
  (forall ty x, fits ty x = true -> m_wrapping md ty x = Some x).

Lemma sound_release : sound release.
Proof. repeat split; intros; cbn; unfold wr; rewrite ?wrap_fits by assumption; reflexivity. Qed.
Lemma sound_debug : sound debug.
Proof. repeat split; intros; cbn; unfold wr; rewrite ?wrap_fits by assumption; try apply ck_ok; auto. Qed.
Lemma sound_strict : sound strict.
Proof. repeat split; intros; cbn; try apply ck_ok; auto. Qed.

Ltac fits_tac :=
  apply fits_intro; cbn [ty_min ty_max]; unfold I64_MIN, I64_MAX, NANOS_PER_SEC in *;
  Z.to_euclidean_division_equations; lia.

(** Execute the next operation of the program in the goal, given soundness facts SA (arith) / SC (cast) /
    SW (explicitly wrapping operations). *)
Ltac op_ok SA SC SW :=
  match goal with
  | |- context [m_arith _ ?ty ?x] => rewrite (SA ty x) by fits_tac
  | |- context [m_cast _ ?ty ?x] => rewrite (SC ty x) by fits_tac
  | |- context [m_wrapping _ ?ty ?x] => rewrite (SW ty x) by fits_tac
  | |- context [div ?ty ?a ?b] => rewrite (div_ok ty a b) by (first [lia | fits_tac])
  | |- context [rem ?ty ?a ?b] => rewrite (rem_ok ty a b) by (first [lia | fits_tac])
  end; cbv beta iota.

(** ... or the next debug_assert!, whose condition is a comparison that holds. *)
Ltac step_ok SA SC SD SW :=
  first [ op_ok SA SC SW
        | match goal with
          | |- context [m_dassert _ ?b] =>
              replace b with true by (symmetry; apply Z.leb_le; lia); rewrite SD; cbv beta iota
          end ].

Ltac unfold_ops := unfold add, sub, mul, neg, wrapping_neg in *.

(* ---------------------------------------------------------------------------------------------- *)
(** * `let (t, nanos) = match timestamp.duration_since(UNIX_EPOCH) { .. }`: splitting the SystemTime *)

(** The earliest representable instant, UNIX_EPOCH - 2^63 s.  Its distance back to the epoch, 2^63 s, is the
    one value of `duration.as_secs()` that `as i64` changes (to i64::MIN) and whose negation must wrap. *)
Definition earliest_instant (tv_sec tv_nsec : Z) : Prop := tv_sec = I64_MIN /\ tv_nsec = 0.

Lemma split_ok : forall md, sound md -> forall sec nsec,
  valid_systemtime sec nsec -> ~ earliest_instant sec nsec -> split md sec nsec = Some (sec, nsec).
Proof.
  intros md (SA & SC & SD & SW) sec nsec [Hs Hn] NK. unfold earliest_instant in NK.
  unfold split, std_duration_since_epoch. unfold_ops.
  unfold I64_MIN, I64_MAX, NANOS_PER_SEC in *.
  destruct (Z.leb_spec 0 sec).
  - repeat step_ok SA SC SD SW. reflexivity.
  - destruct (Z.eqb_spec nsec 0).
    + subst nsec. repeat step_ok SA SC SD SW. cbn [Z.eqb]. repeat step_ok SA SC SD SW.
      rewrite Z.opp_involutive. reflexivity.
    + repeat step_ok SA SC SD SW.
      destruct (Z.eqb_spec (1000000000 - nsec) 0); [lia|].
      repeat step_ok SA SC SD SW.
      f_equal. f_equal; ring.
Qed.

(** At the earliest instant both shipped profiles obtain the right pair: `2^63 as i64` is i64::MIN and
    `i64::MIN.wrapping_neg()` is i64::MIN again; the (relaxed) debug assertion holds.  In [strict] reading the
    cast is reported, as it must be: it is the one cast in the function that changes a value, by design. *)
Lemma split_earliest :
  split release I64_MIN 0 = Some (I64_MIN, 0) /\ split debug I64_MIN 0 = Some (I64_MIN, 0) /\
  split strict I64_MIN 0 = None.
Proof. repeat split; vm_compute; reflexivity. Qed.

Lemma split_shipped : forall md, md = release \/ md = debug -> forall sec nsec,
  valid_systemtime sec nsec -> split md sec nsec = Some (sec, nsec).
Proof.
  intros md Hmd sec nsec V.
  assert (Smd : sound md) by (destruct Hmd; subst; [apply sound_release | apply sound_debug]).
  destruct (Z.eq_dec sec I64_MIN) as [E1|NE]; [destruct (Z.eq_dec nsec 0) as [E2|NE]|].
  - subst sec nsec. destruct Hmd; subst md; apply split_earliest.
  - apply (split_ok md Smd sec nsec V). unfold earliest_instant. tauto.
  - apply (split_ok md Smd sec nsec V). unfold earliest_instant. tauto.
Qed.

(** ** Finding F20 (repaired in a774a84): the shape of the Err branch before the repair, kept for the record.
    `debug_assert!(duration.as_secs() <= i64::MAX as u64)` and `(-secs, 0)`: at the earliest instant the debug
    build panicked (assertion; and the unary minus of i64::MIN would have overflowed next). *)
Definition split_before_a774a84 (md : mode) (tv_sec tv_nsec : Z) : option (Z * Z) :=
  match std_duration_since_epoch tv_sec tv_nsec with
  | DOk secs nanos =>
      imax <- m_cast md U64 I64_MAX ;;
      _ <- m_dassert md (secs <=? imax) ;;
      t <- m_cast md I64 secs ;;
      Some (t, nanos)
  | DErr secs nanos =>
      imax <- m_cast md U64 I64_MAX ;;
      _ <- m_dassert md (secs <=? imax) ;;                   (* debug_assert!(duration.as_secs() <= i64::MAX as u64) *)
      secs <- m_cast md I64 secs ;;
      if nanos =? 0 then
        t <- neg md I64 secs ;;                              (* (-secs, 0) *)
        Some (t, 0)
      else
        a <- neg md I64 secs ;;
        t <- sub md I64 a 1 ;;
        n <- sub md U32 NANOS_PER_SEC nanos ;;
        Some (t, n)
  end.

Lemma F20_old_shape_refuted :
  valid_systemtime I64_MIN 0 /\
  split_before_a774a84 debug I64_MIN 0 = None /\                    (* the panic that was F20 *)
  split_before_a774a84 release I64_MIN 0 = Some (I64_MIN, 0) /\     (* release wrapped twice and was right *)
  split debug I64_MIN 0 = Some (I64_MIN, 0) /\                      (* the current source *)
  (forall sec nsec, valid_systemtime sec nsec -> ~ earliest_instant sec nsec ->
     split_before_a774a84 debug sec nsec = split debug sec nsec).   (* and nothing else changed *)
Proof.
  split; [unfold valid_systemtime, I64_MIN, I64_MAX, NANOS_PER_SEC; lia|].
  split; [vm_compute; reflexivity|]. split; [vm_compute; reflexivity|]. split; [vm_compute; reflexivity|].
  intros sec nsec V NK. rewrite (split_ok debug sound_debug sec nsec V NK).
  destruct sound_debug as (SA & SC & SD & SW). destruct V as [Hs Hn]. unfold earliest_instant in NK.
  unfold split_before_a774a84, std_duration_since_epoch. unfold_ops.
  unfold I64_MIN, I64_MAX, NANOS_PER_SEC in *.
  destruct (Z.leb_spec 0 sec).
  - repeat step_ok SA SC SD SW. reflexivity.
  - destruct (Z.eqb_spec nsec 0).
    + subst nsec. repeat step_ok SA SC SD SW. cbn [Z.eqb]. repeat step_ok SA SC SD SW.
      rewrite Z.opp_involutive. reflexivity.
    + repeat step_ok SA SC SD SW.
      destruct (Z.eqb_spec (1000000000 - nsec) 0); [lia|].
      repeat step_ok SA SC SD SW.
      f_equal. f_equal; ring.
Qed.

(* ---------------------------------------------------------------------------------------------- *)
(** * day number, second of day, 400-year cycle *)

Definition LEAPOCH_DAY : Z := Z.quot LEAPOCH 86400.

Lemma LEAPOCH_DAY_value : LEAPOCH_DAY = days_from_civil 2000 3 1.
Proof. vm_compute. reflexivity. Qed.

Lemma day_split_ok : forall md, sound md -> forall t, I64_MIN <= t <= I64_MAX ->
  day_split md t = Some (t / 86400 - LEAPOCH_DAY, t mod 86400).
Proof.
  intros md (SA & SC & SD & SW) t Ht. unfold day_split, LEAPOCH_DAY. unfold_ops.
  change (Z.quot LEAPOCH 86400) with 11017. unfold LEAPOCH.
  unfold I64_MIN, I64_MAX in *.
  do 2 op_ok SA SC SW. change (Z.quot 951868800 86400) with 11017.
  repeat op_ok SA SC SW.
  destruct (Z.ltb_spec (Z.rem t 86400) 0).
  - repeat op_ok SA SC SW. f_equal. f_equal; Z.to_euclidean_division_equations; lia.
  - cbv beta iota. f_equal. f_equal; Z.to_euclidean_division_equations; lia.
Qed.

Lemma cycle_split_ok : forall md, sound md -> forall days,
  -110000000000000 <= days <= 110000000000000 ->
  cycle_split md days = Some (days / 146097, days mod 146097).
Proof.
  intros md (SA & SC & SD & SW) days Hd. unfold cycle_split. unfold_ops. unfold DAYS_PER_400Y.
  repeat op_ok SA SC SW.
  destruct (Z.ltb_spec (Z.rem days 146097) 0).
  - repeat op_ok SA SC SW. f_equal. f_equal; Z.to_euclidean_division_equations; lia.
  - cbv beta iota. f_equal. f_equal; Z.to_euclidean_division_equations; lia.
Qed.

(* ---------------------------------------------------------------------------------------------- *)
(** * inside one 400-year cycle — every day of the cycle, by kernel computation *)

(** What the code does with day [r] of a cycle, and what it must be: the date it denotes (in the cycle
    that starts on 2000-03-01) has day number LEAPOCH_DAY + r and is a valid date; all intermediate values
    fit their types ([strict]) and are small. *)
Definition cycle_check (r : Z) : bool :=
  match in_cycle strict r with
  | Some (c, q, ry, rd) =>
    (0 <=? c) && (c <=? 3) && (0 <=? q) && (q <=? 24) && (0 <=? ry) && (ry <=? 3) &&
    match months_of strict rd with
    | Some (mo, rd') =>
       (0 <=? mo) && (mo <=? 11) && (0 <=? rd') && (rd' <=? 30) &&
       (let yy := ry + 4 * q + 100 * c + (if 10 <=? mo then 1 else 0) in
        let m := (if 10 <=? mo then mo - 12 else mo) + 3 in
        valid_dateb (2000 + yy) m (rd' + 1) &&
        (days_from_civil (2000 + yy) m (rd' + 1) =? LEAPOCH_DAY + r))
    | None => false
    end
  | None => false
  end.

Lemma cycle_sweep : forall_range cycle_check 0 (Z.to_N DAYS_PER_400Y) = true.
Proof. vm_compute. reflexivity. Qed.

Lemma cycle_facts : forall r, 0 <= r < 146097 ->
  exists c q ry rd mo rd',
    in_cycle strict r = Some (c, q, ry, rd) /\
    months_of strict rd = Some (mo, rd') /\
    0 <= c <= 3 /\ 0 <= q <= 24 /\ 0 <= ry <= 3 /\ 0 <= mo <= 11 /\ 0 <= rd' <= 30 /\
    let yy := ry + 4 * q + 100 * c + (if 10 <=? mo then 1 else 0) in
    let m := (if 10 <=? mo then mo - 12 else mo) + 3 in
    valid_date (2000 + yy) m (rd' + 1) /\
    days_from_civil (2000 + yy) m (rd' + 1) = LEAPOCH_DAY + r.
Proof.
  intros r Hr.
  assert (Hr' : 0 <= r < 0 + Z.of_N (Z.to_N DAYS_PER_400Y)) by (change (Z.of_N (Z.to_N DAYS_PER_400Y)) with 146097; lia).
  pose proof (forall_range_spec _ _ _ cycle_sweep r Hr') as H. unfold cycle_check in H.
  destruct (in_cycle strict r) as [[[[c q] ry] rd]|] eqn:E1; [|discriminate H].
  destruct (months_of strict rd) as [[mo rd']|] eqn:E2;
    [|rewrite andb_false_r in H; discriminate H].
  cbv zeta in H.
  repeat match goal with B : _ && _ = true |- _ => apply andb_true_iff in B; destruct B end.
  repeat match goal with B : (_ <=? _) = true |- _ => apply Z.leb_le in B end.
  exists c, q, ry, rd, mo, rd'. cbv zeta.
  split; [first [reflexivity | assumption]|]. split; [first [reflexivity | assumption]|].
  match goal with B : valid_dateb _ _ _ = true |- _ => apply valid_dateb_spec in B end.
  match goal with B : (_ =? _) = true |- _ => apply Z.eqb_eq in B end.
  do 5 (split; [lia|]). split; assumption.
Qed.

(* ---------------------------------------------------------------------------------------------- *)
(** * From [strict] to any sound mode *)

(** One step of symbolic execution of a [strict] run (hypothesis H) and the same program in mode md (goal). *)
Ltac tstep SA SC H :=
  match type of H with
  | context [if ?c then _ else _] =>
      lazymatch c with
      | fits _ _ => fail
      | _ => destruct c eqn:?
      end
  | context [ck ?ty ?x] =>
      let K := fresh "K" in let v := fresh "v" in
      destruct (ck ty x) as [v|] eqn:K; [|cbv beta iota in H; discriminate H];
      apply ck_some in K; destruct K as [K ->];
      first [rewrite (SA ty x K) | rewrite (SC ty x K)]
  | context [div ?ty ?a ?b] => destruct (div ty a b); [|cbv beta iota in H; discriminate H]
  | context [rem ?ty ?a ?b] => destruct (rem ty a b); [|cbv beta iota in H; discriminate H]
  | context [nth_Z ?l ?i] => destruct (nth_Z l i); [|cbv beta iota in H; discriminate H]
  end; cbv beta iota in H |- *.

Lemma in_cycle_transfer : forall md, sound md -> forall r v,
  in_cycle strict r = Some v -> in_cycle md r = Some v.
Proof.
  intros md (SA & SC & SD & SW) r v H. unfold in_cycle in *. unfold_ops.
  cbn [m_arith m_cast strict] in H.
  repeat tstep SA SC H. all: exact H.
Qed.

Lemma month_loop_transfer : forall md, sound md -> forall fuel rd mo v,
  month_loop strict fuel rd mo = Some v -> month_loop md fuel rd mo = Some v.
Proof.
  intros md (SA & SC & SD & SW) fuel. induction fuel as [|fuel IH]; intros rd mo v H; [discriminate H|].
  cbn [month_loop] in *. unfold_ops. cbn [m_arith m_cast strict] in H.
  repeat tstep SA SC H.
  - apply IH. exact H.
  - exact H.
Qed.

Lemma months_of_transfer : forall md, sound md -> forall rd v,
  months_of strict rd = Some v -> months_of md rd = Some v.
Proof.
  intros md Smd rd v H. unfold months_of in *.
  destruct (month_loop strict (S (length DAYS_IN_MONTH)) rd 0) as [w|] eqn:E; [|discriminate H].
  rewrite (month_loop_transfer md Smd _ _ _ _ E). exact H.
Qed.

(* ---------------------------------------------------------------------------------------------- *)
(** * `let mut years = ..` and the tail of the function *)

Lemma years_of_ok : forall md, sound md -> forall ry q c qc,
  0 <= ry <= 3 -> 0 <= q <= 24 -> 0 <= c <= 3 -> -2147483648 <= qc <= 2147483647 ->
  years_of md ry q c qc = Some (ry + 4 * q + 100 * c + 400 * qc).
Proof.
  intros md (SA & SC & SD & SW) ry q c qc H1 H2 H3 H4. unfold years_of. unfold_ops.
  repeat op_ok SA SC SW. reflexivity.
Qed.

Lemma finish_ok : forall md, sound md -> forall years mo rd remsecs nanos,
  -1000000000000 <= years <= 1000000000000 -> 0 <= mo <= 11 -> 0 <= rd <= 30 -> 0 <= remsecs < 86400 ->
  finish md mo years rd remsecs nanos =
  Some (DT (years + (if 10 <=? mo then 1 else 0) + 2000) ((if 10 <=? mo then mo - 12 else mo) + 3) (rd + 1)
           (remsecs / 3600) ((remsecs / 60) mod 60) (remsecs mod 60) nanos).
Proof.
  intros md (SA & SC & SD & SW) years mo rd remsecs nanos H1 H2 H3 H4. unfold finish. unfold_ops.
  destruct (10 <=? mo) eqn:E.
  - apply Z.leb_le in E. repeat op_ok SA SC SW.
    f_equal. f_equal; Z.to_euclidean_division_equations; lia.
  - apply Z.leb_gt in E. repeat op_ok SA SC SW.
    f_equal. f_equal; Z.to_euclidean_division_equations; lia.
Qed.

(* ---------------------------------------------------------------------------------------------- *)
(** * The conversion is correct *)

(** [dt] is the UTC calendar time of the instant tv_sec + tv_nsec/1e9 (specification: Time/Civil.v).
    By [secs_from_civil_inj] there is exactly one such record. *)
Definition is_civil_time_of (dt : datetime) (tv_sec tv_nsec : Z) : Prop :=
  valid_date (year dt) (month dt) (day dt) /\
  valid_time (hour dt) (minute dt) (second dt) /\
  secs_from_civil (year dt) (month dt) (day dt) (hour dt) (minute dt) (second dt) = tv_sec /\
  nanos dt = tv_nsec.

Definition is_civil_time_ofb (dt : datetime) (tv_sec tv_nsec : Z) : bool :=
  valid_dateb (year dt) (month dt) (day dt) && valid_timeb (hour dt) (minute dt) (second dt) &&
  (secs_from_civil (year dt) (month dt) (day dt) (hour dt) (minute dt) (second dt) =? tv_sec) &&
  (nanos dt =? tv_nsec).

Lemma is_civil_time_ofb_spec : forall dt s n, is_civil_time_ofb dt s n = true -> is_civil_time_of dt s n.
Proof.
  intros dt s n H. unfold is_civil_time_ofb in H.
  apply andb_true_iff in H as [H H4]. apply andb_true_iff in H as [H H3]. apply andb_true_iff in H as [H1 H2].
  unfold is_civil_time_of.
  split; [apply valid_dateb_spec; exact H1|]. split; [apply valid_timeb_spec; exact H2|].
  split; apply Z.eqb_eq; assumption.
Qed.

Lemma from_parts_ok : forall md, sound md -> forall t nanos, I64_MIN <= t <= I64_MAX ->
  exists dt, from_parts md t nanos = Some dt /\ is_civil_time_of dt t nanos.
Proof.
  intros md S t nanos Ht. unfold from_parts.
  rewrite (day_split_ok md S t Ht).
  set (days := t / 86400 - LEAPOCH_DAY).
  assert (Hdays : -110000000000000 <= days <= 110000000000000).
  { subst days. change LEAPOCH_DAY with 11017. unfold I64_MIN, I64_MAX in Ht.
    Z.div_mod_to_equations. lia. }
  rewrite (cycle_split_ok md S days Hdays).
  assert (Hr : 0 <= days mod 146097 < 146097) by (apply Z.mod_pos_bound; lia).
  destruct (cycle_facts _ Hr) as (c & q & ry & rd & mo & rd' & E1 & E2 & Hc & Hq & Hry & Hmo & Hrd' & V & D).
  rewrite (in_cycle_transfer md S _ _ E1).
  assert (Hqc : -2147483648 <= days / 146097 <= 2147483647) by (Z.div_mod_to_equations; lia).
  rewrite (years_of_ok md S ry q c _ Hry Hq Hc Hqc).
  rewrite (months_of_transfer md S _ _ E2).
  assert (Hrs : 0 <= t mod 86400 < 86400) by (apply Z.mod_pos_bound; lia).
  assert (Hy : -1000000000000 <= ry + 4 * q + 100 * c + 400 * (days / 146097) <= 1000000000000)
    by (Z.div_mod_to_equations; lia).
  rewrite (finish_ok md S _ mo rd' (t mod 86400) nanos Hy Hmo Hrd' Hrs).
  eexists. split; [reflexivity|].
  unfold is_civil_time_of. cbn [year month day hour minute second MuslBase.nanos].
  set (yy := ry + 4 * q + 100 * c + (if 10 <=? mo then 1 else 0)) in *.
  set (m := (if 10 <=? mo then mo - 12 else mo) + 3) in *.
  replace (ry + 4 * q + 100 * c + 400 * (days / 146097) + (if 10 <=? mo then 1 else 0) + 2000)
    with (2000 + yy + 400 * (days / 146097)) by (subst yy; ring).
  split; [apply valid_date_shift_400; exact V|].
  split; [unfold valid_time; Z.div_mod_to_equations; lia|].
  split; [|reflexivity].
  unfold secs_from_civil, SECS_PER_DAY. rewrite dfc_shift_400, D.
  pose proof (Z.div_mod days 146097 ltac:(lia)).
  subst days. Z.div_mod_to_equations. lia.
Qed.

(** For every sound mode (in particular the [strict] reading) and every instant except the earliest. *)
Theorem from_systemtime_ok : forall md, sound md -> forall sec nsec,
  valid_systemtime sec nsec -> ~ earliest_instant sec nsec ->
  exists dt, from_systemtime md sec nsec = Some dt /\ is_civil_time_of dt sec nsec.
Proof.
  intros md S sec nsec V NK. unfold from_systemtime. rewrite (split_ok md S sec nsec V NK).
  destruct V as [Hs Hn]. exact (from_parts_ok md S sec nsec Hs).
Qed.

(** Both shipped build profiles, for *every* instant, the earliest included. *)
Theorem correct_shipped : forall md, md = release \/ md = debug -> forall sec nsec, valid_systemtime sec nsec ->
  exists dt, from_systemtime md sec nsec = Some dt /\ is_civil_time_of dt sec nsec.
Proof.
  intros md Hmd sec nsec V. unfold from_systemtime. rewrite (split_shipped md Hmd sec nsec V).
  assert (Smd : sound md) by (destruct Hmd; subst; [apply sound_release | apply sound_debug]).
  destruct V as [Hs Hn]. exact (from_parts_ok md Smd sec nsec Hs).
Qed.

Theorem correct_release : forall sec nsec, valid_systemtime sec nsec ->
  exists dt, from_systemtime release sec nsec = Some dt /\ is_civil_time_of dt sec nsec.
Proof. exact (correct_shipped release (or_introl eq_refl)). Qed.

Theorem correct_debug : forall sec nsec, valid_systemtime sec nsec ->
  exists dt, from_systemtime debug sec nsec = Some dt /\ is_civil_time_of dt sec nsec.
Proof. exact (correct_shipped debug (or_intror eq_refl)). Qed.

Lemma is_civil_time_of_inj : forall a b sec nsec,
  is_civil_time_of a sec nsec -> is_civil_time_of b sec nsec -> a = b.
Proof.
  intros [y m d h mi s n] [y' m' d' h' mi' s' n'] sec nsec (Va & Ta & Sa & Na) (Vb & Tb & Sb & Nb).
  cbn [year month day hour minute second MuslBase.nanos] in *.
  destruct (secs_from_civil_inj _ _ _ _ _ _ _ _ _ _ _ _ Va Ta Vb Tb (eq_trans Sa (eq_sym Sb))) as [P1 P2].
  congruence.
Qed.

(** No arithmetic overflows, no assertion fails, no index is out of bounds, for every instant: the debug build
    (overflow checks and debug assertions on) succeeds and agrees with the release build.  And no cast changes a
    value — the strictest reading of the code succeeds with the same result — for every instant but the earliest,
    where `2^63 as i64` and `wrapping_neg` wrap on purpose ([split_earliest]). *)
Theorem no_overflow : forall sec nsec, valid_systemtime sec nsec ->
  exists dt, from_systemtime debug sec nsec = Some dt /\ from_systemtime release sec nsec = Some dt /\
             is_civil_time_of dt sec nsec /\
             (~ earliest_instant sec nsec -> from_systemtime strict sec nsec = Some dt).
Proof.
  intros sec nsec V.
  destruct (correct_debug sec nsec V) as (d2 & E2 & C2).
  destruct (correct_release sec nsec V) as (d3 & E3 & C3).
  exists d2. rewrite (is_civil_time_of_inj d3 d2 _ _ C3 C2) in E3.
  repeat split; try assumption; try apply C2.
  intros NK. destruct (from_systemtime_ok strict sound_strict sec nsec V NK) as (d1 & E1 & C1).
  rewrite (is_civil_time_of_inj d1 d2 _ _ C1 C2) in E1. exact E1.
Qed.

(** The earliest instant: exactly one value-changing cast, and it is the intended one. *)
Theorem earliest_instant_wraps_by_design :
  valid_systemtime I64_MIN 0 /\ earliest_instant I64_MIN 0 /\
  from_systemtime strict I64_MIN 0 = None /\
  std_duration_since_epoch I64_MIN 0 = DErr 9223372036854775808 0 /\
  wrap I64 9223372036854775808 = I64_MIN /\ wrap I64 (- I64_MIN) = I64_MIN /\
  exists dt, from_systemtime debug I64_MIN 0 = Some dt /\ from_systemtime release I64_MIN 0 = Some dt /\
             is_civil_time_of dt I64_MIN 0.
Proof.
  assert (V : valid_systemtime I64_MIN 0) by (unfold valid_systemtime, I64_MIN, I64_MAX, NANOS_PER_SEC; lia).
  split; [exact V|]. split; [split; reflexivity|].
  split; [vm_compute; reflexivity|]. split; [vm_compute; reflexivity|].
  split; [vm_compute; reflexivity|]. split; [vm_compute; reflexivity|].
  destruct (no_overflow I64_MIN 0 V) as (dt & E2 & E3 & C & _). exists dt. auto.
Qed.

(** The functional form: the record is the one [civil_from_secs] (Hinnant's inverse) computes. *)
Definition dt_of_civil (c : (Z * Z * Z) * (Z * Z * Z)) (nsec : Z) : datetime :=
  let '((y, m, d), (h, mi, s)) := c in DT y m d h mi s nsec.

Lemma is_civil_time_of_unique : forall dt sec nsec,
  is_civil_time_of dt sec nsec -> dt = dt_of_civil (civil_from_secs sec) nsec.
Proof.
  intros [y m d h mi s n] sec nsec (Va & Ta & Sa & Na). cbn [year month day hour minute second MuslBase.nanos] in *.
  destruct (civil_from_secs sec) as [[[y' m'] d'] [[h' mi'] s']] eqn:E.
  destruct (civil_from_secs_correct _ _ _ _ _ _ _ E) as (Vb & Tb & Sb).
  destruct (secs_from_civil_inj _ _ _ _ _ _ _ _ _ _ _ _ Va Ta Vb Tb (eq_trans Sa (eq_sym Sb))) as [P1 P2].
  unfold dt_of_civil. congruence.
Qed.

Theorem correct_functional : forall md, md = release \/ md = debug -> forall sec nsec, valid_systemtime sec nsec ->
  from_systemtime md sec nsec = Some (dt_of_civil (civil_from_secs sec) nsec).
Proof.
  intros md Hmd sec nsec V. destruct (correct_shipped md Hmd sec nsec V) as (dt & E & C).
  rewrite E. f_equal. apply is_civil_time_of_unique. exact C.
Qed.

Theorem correct_release_functional : forall sec nsec, valid_systemtime sec nsec ->
  from_systemtime release sec nsec = Some (dt_of_civil (civil_from_secs sec) nsec).
Proof. exact (correct_functional release (or_introl eq_refl)). Qed.

(** Pre-1970 instants: std hands the code the distance *back* to the epoch; the code's split recovers the
    floor pair (t, nanos) with t + nanos/1e9 the instant and 0 <= nanos < 1e9 — for every such instant,
    the earliest representable one included, in both build profiles. *)
Theorem pre_epoch : forall sec nsec, valid_systemtime sec nsec -> sec < 0 ->
  exists secs nanos,
    std_duration_since_epoch sec nsec = DErr secs nanos /\
    0 <= nanos < NANOS_PER_SEC /\ 0 <= secs /\
    secs * NANOS_PER_SEC + nanos = - (sec * NANOS_PER_SEC + nsec) /\
    split release sec nsec = Some (sec, nsec) /\
    split debug sec nsec = Some (sec, nsec).
Proof.
  intros sec nsec V Hneg. pose proof V as [Hs Hn].
  pose proof (split_shipped release (or_introl eq_refl) sec nsec V) as R.
  pose proof (split_shipped debug (or_intror eq_refl) sec nsec V) as D.
  unfold std_duration_since_epoch.
  destruct (Z.leb_spec 0 sec); [lia|].
  destruct (Z.eqb_spec nsec 0).
  - exists (- sec), 0. unfold NANOS_PER_SEC in *. repeat split; try lia; assumption.
  - exists (- sec - 1), (NANOS_PER_SEC - nsec). unfold NANOS_PER_SEC in *. repeat split; try lia; assumption.
Qed.
