(** Time/Musl.v — executable model of tracing-subscriber/src/fmt/time/datetime.rs
    (`impl From<SystemTime> for DateTime`, musl's __secs_to_tm, and `impl Display for DateTime`).
    Definitions only; the proofs are in Time/MuslProofs.v.

    The Rust code is transcribed statement by statement on [Z]:
      - Rust's `/` and `%` truncate toward zero: [Z.quot] / [Z.rem];
      - every arithmetic result and every `as` / `From` conversion goes through the [mode]:
          [release]  arithmetic wraps (overflow-checks off), casts wrap, debug_assert! is compiled out;
          [debug]    arithmetic overflow panics, casts wrap, debug_assert! is checked;
          [strict]   like [debug] and additionally every cast must be the identity
                     (used to *state* "no cast ever changes a value");
        a panic is the value [None];
      - indexing `DAYS_IN_MONTH[i]` panics ([None]) out of bounds;
      - the constants LEAPOCH, DAYS_PER_400Y, DAYS_PER_100Y, DAYS_PER_4Y and the table DAYS_IN_MONTH are
        not written here: they come from TVGen.Gen_time_consts, regenerated from the source on every run.

    Input: a `SystemTime` is std's `Timespec { tv_sec : i64, tv_nsec : 0..1e9 }` (unix), denoting
    tv_sec + tv_nsec/1e9 seconds after the epoch; [std_duration_since_epoch] is
    `timestamp.duration_since(UNIX_EPOCH)` (std, trusted: assumption "SystemTime <-> (secs,nanos) is std's"). *)
From Coq Require Import ZArith List Bool.
From TV Require Export Time.Ints.
From TVGen Require Export Gen_time_consts.
Import ListNotations.
Local Open Scope Z_scope.

(* ---------------------------------------------------------------------------------------------- *)
(** * Modes *)

Record mode := Mode {
  m_arith : ity -> Z -> option Z;      (* the result of + - * unary- at type ty *)
  m_cast : ity -> Z -> option Z;       (* `x as ty`, `ty::from(x)` *)
  m_dassert : bool -> option unit      (* debug_assert!(b) *)
}.

Definition ck (ty : ity) (x : Z) : option Z := if fits ty x then Some x else None.
Definition wr (ty : ity) (x : Z) : option Z := Some (wrap ty x).
Definition assert_on (b : bool) : option unit := if b then Some tt else None.
Definition assert_off (b : bool) : option unit := Some tt.

Definition release : mode := Mode wr wr assert_off.
Definition debug : mode := Mode ck wr assert_on.
Definition strict : mode := Mode ck ck assert_on.

Notation "x <- e ;; k" := (match e with Some x => k | None => None end)
  (at level 61, e at next level, right associativity, only parsing).
Notation "' p <- e ;; k" := (match e with Some p => k | None => None end)
  (at level 61, p pattern, e at next level, right associativity, only parsing).

Definition add (md : mode) (ty : ity) (a b : Z) : option Z := m_arith md ty (a + b).
Definition sub (md : mode) (ty : ity) (a b : Z) : option Z := m_arith md ty (a - b).
Definition mul (md : mode) (ty : ity) (a b : Z) : option Z := m_arith md ty (a * b).
Definition neg (md : mode) (ty : ity) (a : Z) : option Z := m_arith md ty (- a).
(** Division and remainder panic on a zero divisor and on MIN / -1 in every build profile. *)
Definition div (ty : ity) (a b : Z) : option Z := if b =? 0 then None else ck ty (Z.quot a b).
Definition rem (ty : ity) (a b : Z) : option Z :=
  if b =? 0 then None else if fits ty (Z.quot a b) then Some (Z.rem a b) else None.

Fixpoint nth_Z (l : list Z) (i : Z) : option Z :=
  match l with
  | [] => None
  | x :: r => if i =? 0 then Some x else nth_Z r (i - 1)
  end.

(* ---------------------------------------------------------------------------------------------- *)
(** * DateTime *)

Record datetime := DT {
  year : Z;     (* i64 *)
  month : Z;    (* u8 *)
  day : Z;      (* u8 *)
  hour : Z;     (* u8 *)
  minute : Z;   (* u8 *)
  second : Z;   (* u8 *)
  nanos : Z     (* u32 *)
}.

(** std: `SystemTime::duration_since(UNIX_EPOCH)` — Ok(duration) when not before the epoch, else
    Err(error) with `error.duration()` the distance *back* to the epoch; (secs : u64, subsec_nanos). *)
Inductive dur_result := DOk (secs nanos : Z) | DErr (secs nanos : Z).

Definition NANOS_PER_SEC : Z := 1000000000.

Definition std_duration_since_epoch (tv_sec tv_nsec : Z) : dur_result :=
  if 0 <=? tv_sec then DOk tv_sec tv_nsec
  else if tv_nsec =? 0 then DErr (- tv_sec) 0
  else DErr (- tv_sec - 1) (NANOS_PER_SEC - tv_nsec).

(** datetime.rs lines 247-262: `let (t, nanos) = match timestamp.duration_since(UNIX_EPOCH) {...}`. *)
Definition split (md : mode) (tv_sec tv_nsec : Z) : option (Z * Z) :=
  match std_duration_since_epoch tv_sec tv_nsec with
  | DOk secs nanos =>
      imax <- m_cast md U64 I64_MAX ;;                       (* i64::MAX as u64 *)
      _ <- m_dassert md (secs <=? imax) ;;                   (* debug_assert!(duration.as_secs() <= ..) *)
      t <- m_cast md I64 secs ;;                             (* duration.as_secs() as i64 *)
      Some (t, nanos)
  | DErr secs nanos =>
      imax <- m_cast md U64 I64_MAX ;;
      _ <- m_dassert md (secs <=? imax) ;;
      secs <- m_cast md I64 secs ;;
      if nanos =? 0 then
        t <- neg md I64 secs ;;                              (* (-secs, 0) *)
        Some (t, 0)
      else
        a <- neg md I64 secs ;;                              (* (-secs - 1, 1_000_000_000 - nanos) *)
        t <- sub md I64 a 1 ;;
        n <- sub md U32 NANOS_PER_SEC nanos ;;
        Some (t, n)
  end.

(** datetime.rs lines 309-313: `while i32::from(DAYS_IN_MONTH[months as usize]) <= remdays {...}`.
    The fuel is one more than the table length: [months] grows by one per iteration from 0, so the
    index runs off the table (a panic, [None]) before the fuel can run out. *)
Fixpoint month_loop (md : mode) (fuel : nat) (months remdays : Z) : option (Z * Z) :=
  match fuel with
  | O => None
  | S fuel' =>
      idx <- m_cast md USIZE months ;;
      e <- nth_Z DAYS_IN_MONTH idx ;;
      e <- m_cast md I32 e ;;
      if e <=? remdays then
        remdays <- sub md I32 remdays e ;;                   (* remdays -= i32::from(DAYS_IN_MONTH[..]) *)
        months <- add md I32 months 1 ;;                     (* months += 1 *)
        month_loop md fuel' months remdays
      else Some (months, remdays)
  end.

(** datetime.rs lines 264-328 in five contiguous blocks, composed in source order by [from_parts]. *)

(** lines 272-277: (days since LEAPOCH's day, second of the day). *)
Definition day_split (md : mode) (t : Z) : option (Z * Z) :=
  (* let mut days: i64 = (t / 86_400) - (LEAPOCH / 86_400); *)
  d0 <- div I64 t 86400 ;;
  lq <- div I64 LEAPOCH 86400 ;;
  days <- sub md I64 d0 lq ;;
  (* let mut remsecs: i32 = (t % 86_400) as i32; *)
  r0 <- rem I64 t 86400 ;;
  remsecs <- m_cast md I32 r0 ;;
  (* if remsecs < 0i32 { remsecs += 86_400; days -= 1 } *)
  if remsecs <? 0 then
    remsecs <- add md I32 remsecs 86400 ;;
    days <- sub md I64 days 1 ;;
    Some (days, remsecs)
  else Some (days, remsecs).

(** lines 279-284: (400-year cycle number, day within the cycle). *)
Definition cycle_split (md : mode) (days : Z) : option (Z * Z) :=
  (* let mut qc_cycles: i32 = (days / i64::from(DAYS_PER_400Y)) as i32; *)
  d400 <- m_cast md I64 DAYS_PER_400Y ;;
  qc0 <- div I64 days d400 ;;
  qc_cycles <- m_cast md I32 qc0 ;;
  (* let mut remdays: i32 = (days % i64::from(DAYS_PER_400Y)) as i32; *)
  d400 <- m_cast md I64 DAYS_PER_400Y ;;
  rd0 <- rem I64 days d400 ;;
  remdays <- m_cast md I32 rd0 ;;
  (* if remdays < 0 { remdays += DAYS_PER_400Y; qc_cycles -= 1; } *)
  if remdays <? 0 then
    remdays <- add md I32 remdays DAYS_PER_400Y ;;
    qc_cycles <- sub md I32 qc_cycles 1 ;;
    Some (qc_cycles, remdays)
  else Some (qc_cycles, remdays).

(** lines 286-302: (c_cycles, q_cycles, remyears, day within the year starting 1 March). *)
Definition in_cycle (md : mode) (remdays : Z) : option (Z * Z * Z * Z) :=
  (* let mut c_cycles: i32 = remdays / DAYS_PER_100Y; if c_cycles == 4 { c_cycles -= 1; } *)
  c_cycles <- div I32 remdays DAYS_PER_100Y ;;
  c_cycles <- (if c_cycles =? 4 then sub md I32 c_cycles 1 else Some c_cycles) ;;
  (* remdays -= c_cycles * DAYS_PER_100Y; *)
  x <- mul md I32 c_cycles DAYS_PER_100Y ;;
  remdays <- sub md I32 remdays x ;;
  (* let mut q_cycles: i32 = remdays / DAYS_PER_4Y; if q_cycles == 25 { q_cycles -= 1; } *)
  q_cycles <- div I32 remdays DAYS_PER_4Y ;;
  q_cycles <- (if q_cycles =? 25 then sub md I32 q_cycles 1 else Some q_cycles) ;;
  (* remdays -= q_cycles * DAYS_PER_4Y; *)
  x <- mul md I32 q_cycles DAYS_PER_4Y ;;
  remdays <- sub md I32 remdays x ;;
  (* let mut remyears: i32 = remdays / 365; if remyears == 4 { remyears -= 1; } *)
  remyears <- div I32 remdays 365 ;;
  remyears <- (if remyears =? 4 then sub md I32 remyears 1 else Some remyears) ;;
  (* remdays -= remyears * 365; *)
  x <- mul md I32 remyears 365 ;;
  remdays <- sub md I32 remdays x ;;
  Some (c_cycles, q_cycles, remyears, remdays).

(** lines 304-307. *)
Definition years_of (md : mode) (remyears q_cycles c_cycles qc_cycles : Z) : option Z :=
  (* let mut years: i64 = i64::from(remyears) + 4 * i64::from(q_cycles)
                          + 100 * i64::from(c_cycles) + 400 * i64::from(qc_cycles); *)
  a <- m_cast md I64 remyears ;;
  b <- m_cast md I64 q_cycles ;;
  b <- mul md I64 4 b ;;
  ab <- add md I64 a b ;;
  c <- m_cast md I64 c_cycles ;;
  c <- mul md I64 100 c ;;
  abc <- add md I64 ab c ;;
  d <- m_cast md I64 qc_cycles ;;
  d <- mul md I64 400 d ;;
  add md I64 abc d.

(** lines 315-328. *)
Definition finish (md : mode) (years months remdays remsecs nanos : Z) : option datetime :=
  (* if months >= 10 { months -= 12; years += 1; } *)
  '(months, years) <- (if 10 <=? months then
                         mo <- sub md I32 months 12 ;;
                         ye <- add md I64 years 1 ;;
                         Some (mo, ye)
                       else Some (months, years)) ;;
  (* DateTime { year: years + 2000, month: (months + 3) as u8, day: (remdays + 1) as u8,
                hour: (remsecs / 3600) as u8, minute: (remsecs / 60 % 60) as u8,
                second: (remsecs % 60) as u8, nanos } *)
  ye <- add md I64 years 2000 ;;
  mo <- add md I32 months 3 ;;
  mo <- m_cast md U8 mo ;;
  da <- add md I32 remdays 1 ;;
  da <- m_cast md U8 da ;;
  ho <- div I32 remsecs 3600 ;;
  ho <- m_cast md U8 ho ;;
  mi <- div I32 remsecs 60 ;;
  mi <- rem I32 mi 60 ;;
  mi <- m_cast md U8 mi ;;
  se <- rem I32 remsecs 60 ;;
  se <- m_cast md U8 se ;;
  Some (DT ye mo da ho mi se nanos).

Definition from_parts (md : mode) (t nanos : Z) : option datetime :=
  '(days, remsecs) <- day_split md t ;;
  '(qc_cycles, remdays) <- cycle_split md days ;;
  '(c_cycles, q_cycles, remyears, remdays) <- in_cycle md remdays ;;
  years <- years_of md remyears q_cycles c_cycles qc_cycles ;;
  (* let mut months: i32 = 0; while ... *)
  '(months, remdays) <- month_loop md (S (length DAYS_IN_MONTH)) 0 remdays ;;
  finish md years months remdays remsecs nanos.

(** `DateTime::from(timestamp)`. *)
Definition from_systemtime (md : mode) (tv_sec tv_nsec : Z) : option datetime :=
  '(t, nanos) <- split md tv_sec tv_nsec ;;
  from_parts md t nanos.

(* ---------------------------------------------------------------------------------------------- *)
(** * Display *)

(** Decimal digits (ASCII codes) of a non-negative integer, most significant first; what `{}` prints.
    [fuel] bounds the number of digits; running out of it is [None], never a truncated numeral. *)
Fixpoint dec_digits (fuel : nat) (n : Z) (acc : list Z) : option (list Z) :=
  match fuel with
  | O => None
  | S fuel' =>
      let acc := (48 + n mod 10) :: acc in
      if n <? 10 then Some acc else dec_digits fuel' (n / 10) acc
  end.

Definition dec (n : Z) : option (list Z) := dec_digits 40 n [].

(** `{:0w}` of a non-negative integer: zero-padded on the left to at least [w] characters. *)
Definition pad0 (w : nat) (n : Z) : option (list Z) :=
  ds <- dec n ;;
  Some (repeat 48 (w - length ds) ++ ds).

Definition ch_plus : Z := 43.   Definition ch_minus : Z := 45.   Definition ch_dot : Z := 46.
Definition ch_colon : Z := 58.  Definition ch_T : Z := 84.       Definition ch_Z : Z := 90.

(** datetime.rs lines 222-243.  `{:05}` of a negative i64 prints the sign and pads the digits to the
    remaining four columns. *)
Definition display (dt : datetime) : option (list Z) :=
  y <- (if 9999 <? year dt then ds <- dec (year dt) ;; Some (ch_plus :: ds)
        else if year dt <? 0 then ds <- pad0 4 (- year dt) ;; Some (ch_minus :: ds)
        else pad0 4 (year dt)) ;;
  mo <- pad0 2 (month dt) ;;
  da <- pad0 2 (day dt) ;;
  ho <- pad0 2 (hour dt) ;;
  mi <- pad0 2 (minute dt) ;;
  se <- pad0 2 (second dt) ;;
  us <- pad0 6 (Z.quot (nanos dt) 1000) ;;                    (* self.nanos / 1_000 *)
  Some (y ++ [ch_minus] ++ mo ++ [ch_minus] ++ da ++ [ch_T] ++ ho ++ [ch_colon] ++ mi ++ [ch_colon] ++ se
          ++ [ch_dot] ++ us ++ [ch_Z]).

(** What `SystemTime::format_time` writes for the instant (tv_sec, tv_nsec): ASCII codes, or [None] = panic. *)
Definition format_system_time (md : mode) (tv_sec tv_nsec : Z) : option (list Z) :=
  dt <- from_systemtime md tv_sec tv_nsec ;;
  display dt.

Definition valid_systemtime (tv_sec tv_nsec : Z) : Prop :=
  I64_MIN <= tv_sec <= I64_MAX /\ 0 <= tv_nsec < NANOS_PER_SEC.
