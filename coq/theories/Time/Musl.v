(** Time/Musl.v — executable model of tracing-subscriber/src/fmt/time/datetime.rs
    (`impl From<SystemTime> for DateTime`, musl's __secs_to_tm, and `impl Display for DateTime`).
    Definitions only; the proofs are in Time/MuslProofs.v and Time/DisplayProofs.v.

    Nothing of datetime.rs is transcribed by hand any more:
      - Time/MuslBase.v          the vocabulary: Rust integer operations per build profile ([release], [debug],
                                 [strict]), std's `duration_since` and std's integer formatting;
      - TVGen.Gen_time_consts    LEAPOCH, DAYS_PER_400Y, DAYS_PER_100Y, DAYS_PER_4Y, DAYS_IN_MONTH   (translators/time_consts.py)
      - TVGen.Gen_datetime       [split], [day_split], [cycle_split], [in_cycle], [years_of], [month_loop], [months_of],
                                 [finish], [from_parts], [from_systemtime], [display]: every statement of the two
                                 function bodies, one monadic step per Rust operation; [format_system_time]: what
                                 fmt/time/mod.rs's `SystemTime::format_time` (and the hook H2) writes  (translators/datetime_rs.py)
    both regenerated from the source on every run; this file only composes them. *)
From Coq Require Import ZArith List Bool String.
From TV Require Export Time.MuslBase.
From TVGen Require Export Gen_time_consts Gen_datetime.
Import ListNotations.
Local Open Scope Z_scope.

(** The fields in print order: [year; month; day; hour; minute; second; microseconds printed]. *)
Definition fields_of (dt : datetime) : list Z :=
  [year dt; month dt; day dt; hour dt; minute dt; second dt; nanos dt / 1000].
