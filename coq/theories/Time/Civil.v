(** Time/Civil.v — the *specification* of the proleptic Gregorian calendar (UTC, no leap seconds).

    Definitions only (no proofs; lemmas are in Time/CivilProofs.v).  Nothing here is derived from, or
    shaped after, tracing-subscriber's datetime.rs: the day number of a date is given directly by the
    leap-year rule, and [CivilProofs] shows that it is the unique function with
        days_from_civil 1970 1 1 = 0      and      days_from_civil (next day) = days_from_civil (day) + 1,
    where "next day" is the familiar rule on month lengths.

    Stable API (used by Time/Musl.v for C20 and by the rolling-appender model for C16; do not rename):

      is_leap          : Z -> bool
      days_in_month    : Z -> Z -> Z                  (year, month 1..12)
      valid_date       : Z -> Z -> Z -> Prop          valid_dateb : Z -> Z -> Z -> bool
      valid_time       : Z -> Z -> Z -> Prop          valid_timeb : Z -> Z -> Z -> bool
      days_from_civil  : Z -> Z -> Z -> Z             days since 1970-01-01 of (year, month, day)
      civil_from_days  : Z -> Z * Z * Z               its inverse: (year, month, day) of a day number
      weekday_from_days: Z -> Z                       0 = Sunday .. 6 = Saturday
      secs_from_civil  : Z -> Z -> Z -> Z -> Z -> Z -> Z      Unix time of y-m-d h:mi:s
      civil_from_secs  : Z -> (Z * Z * Z) * (Z * Z * Z)       ((y,m,d),(h,mi,s)) of a Unix time
      next_day         : Z * Z * Z -> Z * Z * Z

    Years are astronomical: year 0 exists (= 1 BC) and is a leap year; negative years are allowed.
    All divisions are floor divisions ([Z.div]/[Z.modulo]). *)
From Coq Require Import ZArith Bool.
Local Open Scope Z_scope.

Definition SECS_PER_DAY : Z := 86400.

(** Gregorian leap-year rule. *)
Definition is_leap (y : Z) : bool :=
  ((y mod 4 =? 0) && negb (y mod 100 =? 0)) || (y mod 400 =? 0).

Definition days_in_month (y m : Z) : Z :=
  match m with
  | 1 => 31 | 2 => if is_leap y then 29 else 28 | 3 => 31 | 4 => 30 | 5 => 31 | 6 => 30
  | 7 => 31 | 8 => 31 | 9 => 30 | 10 => 31 | 11 => 30 | 12 => 31
  | _ => 0
  end.

Definition days_in_year (y : Z) : Z := if is_leap y then 366 else 365.

Definition valid_date (y m d : Z) : Prop := 1 <= m <= 12 /\ 1 <= d <= days_in_month y m.
Definition valid_dateb (y m d : Z) : bool :=
  (1 <=? m) && (m <=? 12) && (1 <=? d) && (d <=? days_in_month y m).

Definition valid_time (h mi s : Z) : Prop := 0 <= h < 24 /\ 0 <= mi < 60 /\ 0 <= s < 60.
Definition valid_timeb (h mi s : Z) : bool :=
  (0 <=? h) && (h <? 24) && (0 <=? mi) && (mi <? 60) && (0 <=? s) && (s <? 60).

(** Number of leap years among the years 1 .. y (for y >= 0; extended to every y by floor division,
    so that [leaps_upto y - leaps_upto (y-1) = 1] exactly when [y] is a leap year, for every y). *)
Definition leaps_upto (y : Z) : Z := y / 4 - y / 100 + y / 400.

(** Days from 0001-01-01 to y-01-01. *)
Definition days_before_year (y : Z) : Z := 365 * (y - 1) + leaps_upto (y - 1).

(** Days from y-01-01 to y-m-01. *)
Definition days_before_month (y m : Z) : Z :=
  match m with
  | 1 => 0 | 2 => 31 | 3 => 59 | 4 => 90 | 5 => 120 | 6 => 151
  | 7 => 181 | 8 => 212 | 9 => 243 | 10 => 273 | 11 => 304 | 12 => 334
  | _ => 0
  end + (if (2 <? m) && is_leap y then 1 else 0).

(** Days from 0001-01-01 to 1970-01-01. *)
Definition EPOCH_FROM_0001 : Z := 719162.

(** Day number (days since 1970-01-01; negative before) of the date y-m-d. *)
Definition days_from_civil (y m d : Z) : Z :=
  days_before_year y + days_before_month y m + (d - 1) - EPOCH_FROM_0001.

(** The successor of a date, by the rule on month lengths (used to characterise [days_from_civil]). *)
Definition next_day (ymd : Z * Z * Z) : Z * Z * Z :=
  let '(y, m, d) := ymd in
  if d <? days_in_month y m then (y, m, d + 1)
  else if m <? 12 then (y, m + 1, 1)
  else (y + 1, 1, 1).

(** Inverse of [days_from_civil]: the algorithm published by Howard Hinnant ("chrono-compatible
    low-level date algorithms", civil_from_days), with floor division.  Written from the publication;
    it shares nothing with datetime.rs (eras start on 0000-03-01, no clamps, month by the
    (5*doy+2)/153 formula). *)
Definition civil_from_days (z : Z) : Z * Z * Z :=
  let z := z + 719468 in
  let era := z / 146097 in
  let doe := z - era * 146097 in                                          (* [0, 146096] *)
  let yoe := (doe - doe / 1460 + doe / 36524 - doe / 146096) / 365 in     (* [0, 399] *)
  let y := yoe + era * 400 in
  let doy := doe - (365 * yoe + yoe / 4 - yoe / 100) in                   (* [0, 365] *)
  let mp := (5 * doy + 2) / 153 in                                        (* [0, 11] *)
  let d := doy - (153 * mp + 2) / 5 + 1 in                                (* [1, 31] *)
  let m := if mp <? 10 then mp + 3 else mp - 9 in                         (* [1, 12] *)
  ((if m <=? 2 then y + 1 else y), m, d).

(** 1970-01-01 was a Thursday. 0 = Sunday. *)
Definition weekday_from_days (z : Z) : Z := (z + 4) mod 7.

Definition secs_from_civil (y m d h mi s : Z) : Z :=
  days_from_civil y m d * SECS_PER_DAY + h * 3600 + mi * 60 + s.

Definition time_from_secs_of_day (r : Z) : Z * Z * Z := (r / 3600, (r / 60) mod 60, r mod 60).

Definition civil_from_secs (t : Z) : (Z * Z * Z) * (Z * Z * Z) :=
  (civil_from_days (t / SECS_PER_DAY), time_from_secs_of_day (t mod SECS_PER_DAY)).
