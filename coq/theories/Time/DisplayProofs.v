(** Time/DisplayProofs.v — [display] (TVGen.Gen_datetime, translated from `impl Display for DateTime`) prints
    RFC 3339 with the microseconds truncated; the printed *fields* are ordered like the instants over the whole
    range of SystemTime, and inside years 0000..9999 (fixed width) so are the printed strings. *)
From Coq Require Import ZArith Lia Bool List.
From TV Require Import Time.Civil Time.CivilProofs Time.Musl Time.MuslProofs Time.Rfc3339.
Import ListNotations.
Local Open Scope Z_scope.

(* ---------------------------------------------------------------------------------------------- *)
(** * Decimal printing *)

Lemma digits_length : forall k n, length (digits k n) = k.
Proof. induction k; intros; simpl; [reflexivity|]. rewrite app_length, IHk. simpl. lia. Qed.

Lemma repeat_snoc : forall (x : Z) k, repeat x k ++ [x] = x :: repeat x k.
Proof. induction k; simpl; [reflexivity|]. rewrite IHk. reflexivity. Qed.

Lemma digits_zero : forall k, digits k 0 = repeat 48 k.
Proof.
  induction k; [reflexivity|]. cbn [digits repeat].
  change (0 / 10) with 0. change (48 + 0 mod 10) with 48. rewrite IHk. apply repeat_snoc.
Qed.

Lemma pow10_succ : forall k : nat, 10 ^ Z.of_nat (S k) = 10 * 10 ^ Z.of_nat k.
Proof. intros. rewrite Nat2Z.inj_succ, Z.pow_succ_r by lia. reflexivity. Qed.

(** [dec_digits] with enough fuel produces the digits of [n] in front of the accumulator; padded with
    zeros to width k they are exactly [digits k n]. *)
Lemma dec_digits_spec : forall (k : nat) (fuel : nat) n acc,
  (1 <= k)%nat -> (k <= fuel)%nat -> 0 <= n < 10 ^ Z.of_nat k ->
  exists ds, dec_digits fuel n acc = Some (ds ++ acc) /\ (length ds <= k)%nat /\
             repeat 48 (k - length ds) ++ ds = digits k n.
Proof.
  induction k as [|k IH]; intros fuel n acc Hk Hf Hn; [lia|].
  destruct fuel as [|fuel]; [lia|]. cbn [dec_digits].
  destruct (Z.ltb_spec n 10) as [L|L].
  - exists [48 + n mod 10]. split; [reflexivity|]. split; [simpl; lia|].
    cbn [length digits]. replace (S k - 1)%nat with k by lia.
    rewrite (Z.div_small n 10) by lia. rewrite digits_zero. reflexivity.
  - rewrite pow10_succ in Hn.
    assert (Hk' : (1 <= k)%nat).
    { destruct k; [|lia]. simpl in Hn. lia. }
    assert (Hn' : 0 <= n / 10 < 10 ^ Z.of_nat k) by (Z.div_mod_to_equations; lia).
    destruct (IH fuel (n / 10) ((48 + n mod 10) :: acc) Hk' ltac:(lia) Hn') as (ds & E & Hl & Hp).
    exists (ds ++ [48 + n mod 10]). split; [rewrite E, <- app_assoc; reflexivity|].
    split; [rewrite app_length; simpl; lia|].
    cbn [digits]. rewrite <- Hp, app_length. cbn [length].
    replace (S k - (length ds + 1))%nat with (k - length ds)%nat by lia.
    rewrite app_assoc. reflexivity.
Qed.

Lemma pad0_digits : forall (k : nat) n, (1 <= k <= 40)%nat -> 0 <= n < 10 ^ Z.of_nat k ->
  pad0 k n = Some (digits k n).
Proof.
  intros k n Hk Hn. unfold pad0, dec.
  destruct (dec_digits_spec k 40 n [] ltac:(lia) ltac:(lia) Hn) as (ds & E & Hl & Hp).
  rewrite E, app_nil_r. rewrite Hp. reflexivity.
Qed.

Lemma dec_total : forall n, 0 <= n < 10 ^ 40 -> exists ds, dec n = Some ds.
Proof.
  intros n Hn. unfold dec.
  destruct (dec_digits_spec 40 40 n [] ltac:(lia) ltac:(lia) Hn) as (ds & E & _).
  exists (ds ++ []). exact E.
Qed.

Lemma pad0_total : forall k n, 0 <= n < 10 ^ 40 -> exists ds, pad0 k n = Some ds.
Proof. intros k n Hn. unfold pad0. destruct (dec_total n Hn) as (ds & ->). eauto. Qed.

(** [dec] prints the shortest numeral: k digits exactly when 10^(k-1) <= n < 10^k (k = 1 for n < 10). *)
Lemma dec_digits_exact : forall (k : nat) (fuel : nat) n acc,
  (1 <= k)%nat -> (k <= fuel)%nat -> 0 <= n < 10 ^ Z.of_nat k -> (k = 1%nat \/ 10 ^ Z.of_nat (k - 1) <= n) ->
  dec_digits fuel n acc = Some (digits k n ++ acc).
Proof.
  induction k as [|k IH]; intros fuel n acc Hk Hf Hn Hlow; [lia|].
  destruct fuel as [|fuel]; [lia|]. cbn [dec_digits digits].
  destruct (Z.ltb_spec n 10) as [L|L].
  - assert (k = 0%nat).
    { destruct Hlow as [E|Hlow]; [lia|]. destruct k; [reflexivity|].
      replace (S (S k) - 1)%nat with (S k) in Hlow by lia. rewrite pow10_succ in Hlow.
      pose proof (Z.pow_pos_nonneg 10 (Z.of_nat k) ltac:(lia) ltac:(lia)). lia. }
    subst k. reflexivity.
  - rewrite pow10_succ in Hn.
    assert (Hk' : (1 <= k)%nat).
    { destruct k; [|lia]. simpl in Hn. lia. }
    rewrite (IH fuel (n / 10) ((48 + n mod 10) :: acc) Hk' ltac:(lia)).
    + rewrite <- app_assoc. reflexivity.
    + Z.div_mod_to_equations; lia.
    + destruct Hlow as [E|Hlow]; [lia|].
      destruct (Nat.eq_dec k 1) as [->|NE]; [left; reflexivity|right].
      replace (S k - 1)%nat with (S (k - 1)) in Hlow by lia. rewrite pow10_succ in Hlow.
      Z.div_mod_to_equations; lia.
Qed.

Lemma dec_exact : forall (k : nat) n, (1 <= k <= 40)%nat -> 0 <= n < 10 ^ Z.of_nat k ->
  (k = 1%nat \/ 10 ^ Z.of_nat (k - 1) <= n) -> dec n = Some (digits k n).
Proof.
  intros k n Hk Hn Hl. unfold dec. rewrite (dec_digits_exact k 40 n [] ltac:(lia) ltac:(lia) Hn Hl).
  rewrite app_nil_r. reflexivity.
Qed.

(** Every 0 <= n < 10^39 has such a k. *)
Lemma numeral_length : forall n, 0 <= n < 10 ^ 39 ->
  exists k : nat, (1 <= k <= 39)%nat /\ n < 10 ^ Z.of_nat k /\ (k = 1%nat \/ 10 ^ Z.of_nat (k - 1) <= n).
Proof.
  intros n Hn.
  assert (G : forall m : nat, (1 <= m)%nat -> n < 10 ^ Z.of_nat m ->
            exists k : nat, (1 <= k <= m)%nat /\ n < 10 ^ Z.of_nat k /\ (k = 1%nat \/ 10 ^ Z.of_nat (k - 1) <= n)).
  { induction m as [|m IH]; intros Hm Hlt; [lia|].
    destruct (Nat.eq_dec m 0) as [->|NE]; [exists 1%nat; repeat split; auto; lia|].
    destruct (Z.lt_ge_cases n (10 ^ Z.of_nat m)) as [L|G].
    - destruct (IH ltac:(lia) L) as (k & Hk & Hk1 & Hk2). exists k. repeat split; auto; lia.
    - exists (S m). repeat split; try lia. right. replace (S m - 1)%nat with m by lia. lia. }
  apply (G 39%nat); [lia|]. exact (proj2 Hn).
Qed.

(** `{:0w}` / `{}` of a non-negative integer that fits w digits: exactly w digits. *)
Lemma fmt_int_digits : forall (k : nat) n, (1 <= k <= 40)%nat -> 0 <= n < 10 ^ Z.of_nat k ->
  fmt_int k n = Some (digits k n).
Proof.
  intros k n Hk Hn. unfold fmt_int. destruct (Z.ltb_spec n 0); [lia|]. apply pad0_digits; assumption.
Qed.

(* ---------------------------------------------------------------------------------------------- *)
(** * The shape of [display] *)

Definition fields_in_range (dt : datetime) : Prop :=
  - 10 ^ 39 < year dt < 10 ^ 39 /\ 0 <= month dt < 100 /\ 0 <= day dt < 100 /\ 0 <= hour dt < 100 /\
  0 <= minute dt < 100 /\ 0 <= second dt < 100 /\ 0 <= nanos dt < 1000000000.

(** The text of the year, by the three branches of `Display::fmt`:
      0 <= y <= 9999   `{:04}`  four digits;
      y > 9999         `+{}`    a plus sign and the shortest numeral (at least five digits);
      y < 0            `{:05}`  a minus sign and at least four digits, zero-padded only up to four. *)
Definition year_text (y : Z) (ytext : list Z) : Prop :=
  (0 <= y <= 9999 -> ytext = digits 4 y) /\
  (9999 < y -> exists k : nat, (5 <= k)%nat /\ 10 ^ Z.of_nat (k - 1) <= y < 10 ^ Z.of_nat k /\ ytext = ch_plus :: digits k y) /\
  (y < 0 -> exists k : nat, (4 <= k)%nat /\ - y < 10 ^ Z.of_nat k /\ (k = 4%nat \/ 10 ^ Z.of_nat (k - 1) <= - y) /\
            ytext = ch_minus :: digits k (- y)).

(** For every record: the year text, then `-MM-DDThh:mm:ss.ffffffZ` with ffffff = floor(nanos / 1000). *)
Lemma display_shape : forall md dt, fields_in_range dt ->
  exists ytext,
    display md dt = Some (ytext ++ tail_text (month dt) (day dt) (hour dt) (minute dt) (second dt) (nanos dt / 1000)) /\
    year_text (year dt) ytext.
Proof.
  intros md dt (Hy & Hmo & Hd & Hh & Hmi & Hs & Hn). unfold display.
  assert (P2 : forall n, 0 <= n < 100 -> fmt_int 2 n = Some (digits 2 n)).
  { intros n H. apply fmt_int_digits; [lia|]. change (10 ^ Z.of_nat 2) with 100. lia. }
  rewrite (P2 _ Hmo), (P2 _ Hd), (P2 _ Hh), (P2 _ Hmi), (P2 _ Hs).
  rewrite (div_ok U32 (nanos dt) 1000) by (first [lia | apply fits_intro; cbn [ty_min ty_max]; Z.to_euclidean_division_equations; lia]).
  rewrite Z.quot_div_nonneg by lia.
  rewrite (fmt_int_digits 6 (nanos dt / 1000)) by (try lia; change (10 ^ Z.of_nat 6) with 1000000; Z.div_mod_to_equations; lia).
  assert (B39 : 10 ^ 39 < 10 ^ 40) by (vm_compute; reflexivity).
  assert (B4 : 10 ^ Z.of_nat 4 = 10000) by reflexivity.
  assert (B3 : 10 ^ Z.of_nat 3 = 1000) by reflexivity.
  cbv beta iota.
  destruct (Z.ltb_spec 9999 (year dt)) as [Y|Y].
  - (* +{} *)
    destruct (numeral_length (year dt) ltac:(lia)) as (k & Hk & Hk1 & Hk2).
    assert (K5 : (5 <= k)%nat).
    { destruct (le_lt_dec 5 k) as [?|Lt]; [assumption|exfalso].
      assert (10 ^ Z.of_nat k <= 10 ^ Z.of_nat 4) by (apply Z.pow_le_mono_r; lia). lia. }
    unfold fmt_int. destruct (Z.ltb_spec (year dt) 0); [lia|].
    unfold pad0. rewrite (dec_exact k (year dt) ltac:(lia) ltac:(lia) Hk2). cbv beta iota.
    rewrite digits_length, Nat.sub_0_l. change (repeat 48 0) with (@nil Z). rewrite app_nil_l.
    exists (ch_plus :: digits k (year dt)). split; [reflexivity|]. unfold year_text. repeat split; intros; try lia.
    exists k. repeat split; lia.
  - destruct (Z.ltb_spec (year dt) 0) as [N|N].
    + (* {:05} of a negative year *)
      destruct (numeral_length (- year dt) ltac:(lia)) as (k & Hk & Hk1 & Hk2).
      unfold fmt_int. destruct (Z.ltb_spec (year dt) 0); [|lia].
      rewrite (dec_exact k (- year dt) ltac:(lia) ltac:(lia) Hk2). cbv beta iota. rewrite digits_length.
      destruct (le_lt_dec 4 k) as [K4|K4].
      * replace (5 - 1 - k)%nat with 0%nat by lia. change (repeat 48 0) with (@nil Z). rewrite app_nil_l.
        exists (ch_minus :: digits k (- year dt)). split; [reflexivity|]. unfold year_text. repeat split; intros; try lia.
        exists k. repeat split; lia.
      * (* fewer than four digits: padded to four *)
        assert (E : repeat 48 (5 - 1 - k) ++ digits k (- year dt) = digits 4 (- year dt)).
        { assert (L4 : - year dt < 10 ^ Z.of_nat 4).
          { assert (10 ^ Z.of_nat k <= 10 ^ Z.of_nat 3) by (apply Z.pow_le_mono_r; lia). lia. }
          pose proof (pad0_digits 4 (- year dt) ltac:(lia) ltac:(lia)) as P. unfold pad0 in P.
          rewrite (dec_exact k (- year dt) ltac:(lia) ltac:(lia) Hk2) in P. cbv beta iota in P.
          rewrite digits_length in P. injection P as P. replace (5 - 1 - k)%nat with (4 - k)%nat by lia. exact P. }
        rewrite E.
        exists (ch_minus :: digits 4 (- year dt)). split; [reflexivity|]. unfold year_text. repeat split; intros; try lia.
        assert (10 ^ Z.of_nat k <= 10 ^ Z.of_nat 3) by (apply Z.pow_le_mono_r; lia).
        exists 4%nat. repeat split; lia.
    + (* {:04} *)
      rewrite (fmt_int_digits 4 (year dt)) by lia. cbv beta iota.
      exists (digits 4 (year dt)). split; [reflexivity|]. unfold year_text. repeat split; intros; try lia; reflexivity.
Qed.

Lemma rfc3339_length : forall y m d h mi s us, length (rfc3339 y m d h mi s us) = 27%nat.
Proof.
  intros. unfold rfc3339, tail_text. repeat rewrite app_length. repeat rewrite digits_length. reflexivity.
Qed.

(* ---------------------------------------------------------------------------------------------- *)
(** * Field ranges of the computed record *)

Lemma civil_fields_in_range : forall dt sec nsec,
  valid_systemtime sec nsec -> is_civil_time_of dt sec nsec -> fields_in_range dt.
Proof.
  intros dt sec nsec [Hs Hn] C. pose proof C as (V & T & S & N).
  pose proof (is_civil_time_of_unique dt sec nsec C) as U.
  destruct (civil_from_secs sec) as [[[y m] d] [[h mi] s]] eqn:E.
  unfold civil_from_secs in E.
  assert (E1 : civil_from_days (sec / SECS_PER_DAY) = (y, m, d)) by congruence.
  unfold dt_of_civil in U. subst dt. cbn [year month day hour minute second MuslBase.nanos] in *.
  unfold I64_MIN, I64_MAX, NANOS_PER_SEC, SECS_PER_DAY in *.
  assert (Hd : -110000000000000 <= sec / 86400 <= 110000000000000) by (Z.div_mod_to_equations; lia).
  pose proof (civil_from_days_year_ge _ _ _ _ (-1000000000000) E1) as G.
  pose proof (civil_from_days_year_le _ _ _ _ 1000000000000 E1) as L.
  assert (D1 : days_from_civil (-1000000000000) 1 1 < -110000000000000) by (vm_compute; reflexivity).
  assert (D2 : 110000000000000 < days_from_civil (1000000000000 + 1) 1 1) by (vm_compute; reflexivity).
  assert (P39 : 10 ^ 39 = 1000000000000000000000000000000000000000) by reflexivity.
  destruct V as [Vm Vd]. pose proof (days_in_month_le_31 y m). unfold valid_time in T.
  unfold fields_in_range. cbn [year month day hour minute second MuslBase.nanos]. rewrite P39. lia.
Qed.

(* ---------------------------------------------------------------------------------------------- *)
(** * What is printed *)

(** Every instant, both shipped build profiles: the date/time fields are those of [civil_from_secs], the six
    fractional digits are floor(tv_nsec / 1000) (truncated, never rounded up), the year text is given by the
    three branches of Display::fmt. *)
Theorem format_shape : forall md, md = release \/ md = debug ->
  forall sec nsec, valid_systemtime sec nsec ->
  forall y m d h mi s, civil_from_secs sec = ((y, m, d), (h, mi, s)) ->
  exists ytext,
    format_system_time md sec nsec = Some (ytext ++ tail_text m d h mi s (nsec / 1000)) /\
    year_text y ytext /\
    (nsec / 1000) * 1000 <= nsec < (nsec / 1000) * 1000 + 1000.
Proof.
  intros md Hmd sec nsec V y m d h mi s E. unfold format_system_time.
  destruct (correct_shipped md Hmd sec nsec V) as (dt & E' & C).
  rewrite E'.
  rewrite (correct_functional md Hmd sec nsec V), E in E'. unfold dt_of_civil in E'.
  injection E' as <-.
  destruct (display_shape md _ (civil_fields_in_range _ _ _ V C)) as (ytext & D & Y).
  cbn [year month day hour minute second MuslBase.nanos] in *.
  exists ytext. split; [rewrite D; reflexivity|]. split; [exact Y|]. Z.div_mod_to_equations. lia.
Qed.

(** In years 0000..9999 the output is exactly RFC 3339, 27 bytes; both build profiles. *)
Theorem format_rfc3339 : forall md, md = release \/ md = debug ->
  forall sec nsec, valid_systemtime sec nsec ->
  forall y m d h mi s, civil_from_secs sec = ((y, m, d), (h, mi, s)) -> 0 <= y <= 9999 ->
  format_system_time md sec nsec = Some (rfc3339 y m d h mi s (nsec / 1000)).
Proof.
  intros md Hmd sec nsec V y m d h mi s E Hy.
  destruct (format_shape md Hmd sec nsec V _ _ _ _ _ _ E) as (ytext & F & (Y & _) & _).
  rewrite F, (Y Hy). reflexivity.
Qed.

(* ---------------------------------------------------------------------------------------------- *)
(** * Order *)

Lemma lex_le_refl : forall a, lex_le a a.
Proof. induction a; simpl; auto. Qed.

Lemma lex_le_app_l : forall p a b, lex_le a b -> lex_le (p ++ a) (p ++ b).
Proof. induction p; intros; simpl; auto. Qed.

Lemma lex_le_digits_lt : forall k a b s s', 0 <= a < b -> b < 10 ^ Z.of_nat k ->
  lex_le (digits k a ++ s) (digits k b ++ s').
Proof.
  induction k as [|k IH]; intros a b s s' Hab Hb; [simpl in Hb; lia|].
  rewrite pow10_succ in Hb. cbn [digits]. rewrite <- !app_assoc.
  destruct (Z.lt_ge_cases (a / 10) (b / 10)) as [L|G].
  - apply IH; Z.div_mod_to_equations; lia.
  - assert (E : a / 10 = b / 10) by (Z.div_mod_to_equations; lia). rewrite E.
    apply lex_le_app_l. cbn [app lex_le]. left. Z.div_mod_to_equations. lia.
Qed.

(** One fixed-width field in front of two strings: a smaller value prints smaller whatever follows; an equal
    value defers to what follows. *)
Lemma lex_field : forall k a b s s', 0 <= a -> b < 10 ^ Z.of_nat k ->
  a < b \/ (a = b /\ lex_le s s') -> lex_le (digits k a ++ s) (digits k b ++ s').
Proof.
  intros k a b s s' Ha Hb [L|[-> Hs]].
  - apply lex_le_digits_lt; lia.
  - apply lex_le_app_l. exact Hs.
Qed.

Lemma lex_sep : forall c s s', lex_le s s' -> lex_le ([c] ++ s) ([c] ++ s').
Proof. intros. apply lex_le_app_l. assumption. Qed.

(** ** The calendar itself is monotone: a later instant has lexicographically later-or-equal fields
    (year, month, day, hour, minute, second, microsecond) — for all integers, no range needed. *)
Lemma time_fields_monotone : forall r1 r2 n1 n2,
  0 <= r1 < 86400 -> 0 <= r2 < 86400 -> 0 <= n1 < 1000000000 -> 0 <= n2 < 1000000000 ->
  r1 < r2 \/ (r1 = r2 /\ n1 <= n2) ->
  lex_le [r1 / 3600; r1 / 60 mod 60; r1 mod 60; n1 / 1000] [r2 / 3600; r2 / 60 mod 60; r2 mod 60; n2 / 1000].
Proof. intros. cbn [lex_le]. Z.div_mod_to_equations; lia. Qed.

Lemma civil_fields_monotone : forall s1 n1 s2 n2 y1 m1 d1 h1 mi1 c1 y2 m2 d2 h2 mi2 c2,
  0 <= n1 < 1000000000 -> 0 <= n2 < 1000000000 ->
  s1 < s2 \/ (s1 = s2 /\ n1 <= n2) ->
  civil_from_secs s1 = ((y1, m1, d1), (h1, mi1, c1)) -> civil_from_secs s2 = ((y2, m2, d2), (h2, mi2, c2)) ->
  lex_le [y1; m1; d1; h1; mi1; c1; n1 / 1000] [y2; m2; d2; h2; mi2; c2; n2 / 1000].
Proof.
  intros s1 n1 s2 n2 y1 m1 d1 h1 mi1 c1 y2 m2 d2 h2 mi2 c2 Hn1 Hn2 Ord E1 E2.
  unfold civil_from_secs, SECS_PER_DAY in E1, E2.
  assert (A1 : civil_from_days (s1 / 86400) = (y1, m1, d1)) by congruence.
  assert (A2 : civil_from_days (s2 / 86400) = (y2, m2, d2)) by congruence.
  assert (T1 : time_from_secs_of_day (s1 mod 86400) = (h1, mi1, c1)) by congruence.
  assert (T2 : time_from_secs_of_day (s2 mod 86400) = (h2, mi2, c2)) by congruence.
  clear E1 E2.
  destruct (cfd_correct _ _ _ _ A1) as [Va Da]. destruct (cfd_correct _ _ _ _ A2) as [Vb Db].
  assert (Dle : days_from_civil y1 m1 d1 <= days_from_civil y2 m2 d2)
    by (rewrite Da, Db; Z.div_mod_to_equations; lia).
  destruct (days_from_civil_le_inv _ _ _ _ _ _ Va Vb Dle) as [Q|Q].
  - (* same day: the time of day decides *)
    injection Q as <- <- <-.
    assert (Eq : s1 / 86400 = s2 / 86400) by congruence.
    unfold time_from_secs_of_day in T1, T2. injection T1 as <- <- <-. injection T2 as <- <- <-.
    assert (R1 : 0 <= s1 mod 86400 < 86400) by (apply Z.mod_pos_bound; lia).
    assert (R2 : 0 <= s2 mod 86400 < 86400) by (apply Z.mod_pos_bound; lia).
    assert (Ord' : s1 mod 86400 < s2 mod 86400 \/ (s1 mod 86400 = s2 mod 86400 /\ n1 <= n2)).
    { pose proof (Z.div_mod s1 86400 ltac:(lia)). pose proof (Z.div_mod s2 86400 ltac:(lia)). lia. }
    pose proof (time_fields_monotone _ _ _ _ R1 R2 Hn1 Hn2 Ord') as T.
    cbn [lex_le]. right; split; [reflexivity|]. right; split; [reflexivity|]. right; split; [reflexivity|].
    exact T.
  - (* an earlier day: the date decides *)
    unfold date_lt in Q. cbn [lex_le]. lia.
Qed.

(** ** The fields the code prints are ordered like the instants — over the whole range of SystemTime,
    in both shipped build profiles. *)
Theorem monotone_fields : forall md, md = release \/ md = debug ->
  forall s1 n1 s2 n2 d1 d2,
  valid_systemtime s1 n1 -> valid_systemtime s2 n2 ->
  s1 < s2 \/ (s1 = s2 /\ n1 <= n2) ->
  from_systemtime md s1 n1 = Some d1 -> from_systemtime md s2 n2 = Some d2 ->
  lex_le (fields_of d1) (fields_of d2).
Proof.
  intros md Hmd s1 n1 s2 n2 d1 d2 V1 V2 Ord F1 F2.
  rewrite (correct_functional md Hmd s1 n1 V1) in F1. rewrite (correct_functional md Hmd s2 n2 V2) in F2.
  destruct (civil_from_secs s1) as [[[y1 m1] dd1] [[h1 mi1] c1]] eqn:E1.
  destruct (civil_from_secs s2) as [[[y2 m2] dd2] [[h2 mi2] c2]] eqn:E2.
  unfold dt_of_civil in F1, F2. injection F1 as <-. injection F2 as <-.
  unfold fields_of. cbn [year month day hour minute second MuslBase.nanos].
  destruct V1 as [_ Hn1]. destruct V2 as [_ Hn2]. unfold NANOS_PER_SEC in *.
  exact (civil_fields_monotone _ _ _ _ _ _ _ _ _ _ _ _ _ _ _ _ Hn1 Hn2 Ord E1 E2).
Qed.

(** ** Fixed-width fields: field order is byte order of the RFC 3339 text. *)
Lemma rfc3339_order : forall y1 m1 d1 h1 mi1 c1 u1 y2 m2 d2 h2 mi2 c2 u2,
  0 <= y1 -> y2 <= 9999 -> 0 <= m1 -> m2 < 100 -> 0 <= d1 -> d2 < 100 -> 0 <= h1 -> h2 < 100 ->
  0 <= mi1 -> mi2 < 100 -> 0 <= c1 -> c2 < 100 -> 0 <= u1 -> u2 < 1000000 ->
  lex_le [y1; m1; d1; h1; mi1; c1; u1] [y2; m2; d2; h2; mi2; c2; u2] ->
  lex_le (rfc3339 y1 m1 d1 h1 mi1 c1 u1) (rfc3339 y2 m2 d2 h2 mi2 c2 u2).
Proof.
  intros y1 m1 d1 h1 mi1 c1 u1 y2 m2 d2 h2 mi2 c2 u2 ? ? ? ? ? ? ? ? ? ? ? ? ? ? L.
  assert (P4 : 10 ^ Z.of_nat 4 = 10000) by reflexivity.
  assert (P2 : 10 ^ Z.of_nat 2 = 100) by reflexivity.
  assert (P6 : 10 ^ Z.of_nat 6 = 1000000) by reflexivity.
  cbn [lex_le] in L. unfold rfc3339, tail_text.
  apply lex_field; [lia | lia |]. destruct L as [L|[-> L]]; [left; exact L|right; split; [reflexivity|]]. apply lex_sep.
  apply lex_field; [lia | lia |]. destruct L as [L|[-> L]]; [left; exact L|right; split; [reflexivity|]]. apply lex_sep.
  apply lex_field; [lia | lia |]. destruct L as [L|[-> L]]; [left; exact L|right; split; [reflexivity|]]. apply lex_sep.
  apply lex_field; [lia | lia |]. destruct L as [L|[-> L]]; [left; exact L|right; split; [reflexivity|]]. apply lex_sep.
  apply lex_field; [lia | lia |]. destruct L as [L|[-> L]]; [left; exact L|right; split; [reflexivity|]]. apply lex_sep.
  apply lex_field; [lia | lia |]. destruct L as [L|[-> L]]; [left; exact L|right; split; [reflexivity|]]. apply lex_sep.
  apply lex_field; [lia | lia |]. destruct L as [L|[-> L]]; [left; exact L|right; split; [reflexivity|]].
  apply lex_le_refl.
Qed.

(** Printed strings are ordered like the instants (years 0000..9999, where the width is fixed): the
    corollary of [monotone_fields] and [rfc3339_order]. *)
Theorem monotone : forall md, md = release \/ md = debug ->
  forall s1 n1 s2 n2 o1 o2,
  valid_systemtime s1 n1 -> valid_systemtime s2 n2 ->
  YEAR0_SECS <= s1 -> s2 < YEAR10000_SECS ->
  s1 < s2 \/ (s1 = s2 /\ n1 <= n2) ->
  format_system_time md s1 n1 = Some o1 -> format_system_time md s2 n2 = Some o2 ->
  lex_le o1 o2.
Proof.
  intros md Hmd s1 n1 s2 n2 o1 o2 V1 V2 L1 L2 Ord F1 F2.
  unfold YEAR0_SECS, YEAR10000_SECS in *.
  destruct (civil_from_secs s1) as [[[y1 m1] d1] [[h1 mi1] c1]] eqn:E1.
  destruct (civil_from_secs s2) as [[[y2 m2] d2] [[h2 mi2] c2]] eqn:E2.
  pose proof E1 as E1'. pose proof E2 as E2'. unfold civil_from_secs, SECS_PER_DAY in E1', E2'.
  assert (A1 : civil_from_days (s1 / 86400) = (y1, m1, d1)) by congruence.
  assert (A2 : civil_from_days (s2 / 86400) = (y2, m2, d2)) by congruence.
  assert (T1 : time_from_secs_of_day (s1 mod 86400) = (h1, mi1, c1)) by congruence.
  assert (T2 : time_from_secs_of_day (s2 mod 86400) = (h2, mi2, c2)) by congruence.
  clear E1' E2'.
  (* year range *)
  assert (D0 : days_from_civil 0 1 1 = -719528) by reflexivity.
  assert (D9 : days_from_civil (9999 + 1) 1 1 = 2932897) by reflexivity.
  assert (Hy1 : 0 <= y1 <= 9999).
  { split; [apply (civil_from_days_year_ge _ _ _ _ 0 A1) | apply (civil_from_days_year_le _ _ _ _ 9999 A1)];
      rewrite ?D0, ?D9; Z.div_mod_to_equations; lia. }
  assert (Hy2 : 0 <= y2 <= 9999).
  { split; [apply (civil_from_days_year_ge _ _ _ _ 0 A2) | apply (civil_from_days_year_le _ _ _ _ 9999 A2)];
      rewrite ?D0, ?D9; Z.div_mod_to_equations; lia. }
  rewrite (format_rfc3339 md Hmd s1 n1 V1 _ _ _ _ _ _ E1 Hy1) in F1.
  rewrite (format_rfc3339 md Hmd s2 n2 V2 _ _ _ _ _ _ E2 Hy2) in F2.
  injection F1 as <-. injection F2 as <-.
  destruct V1 as [_ Hn1]. destruct V2 as [_ Hn2]. unfold NANOS_PER_SEC in *.
  pose proof (civil_fields_monotone _ _ _ _ _ _ _ _ _ _ _ _ _ _ _ _ Hn1 Hn2 Ord E1 E2) as FL.
  destruct (cfd_correct _ _ _ _ A1) as [[Vm1 Vd1] _]. destruct (cfd_correct _ _ _ _ A2) as [[Vm2 Vd2] _].
  pose proof (days_in_month_le_31 y1 m1). pose proof (days_in_month_le_31 y2 m2).
  assert (R1 : 0 <= s1 mod 86400 < 86400) by (apply Z.mod_pos_bound; lia).
  assert (R2 : 0 <= s2 mod 86400 < 86400) by (apply Z.mod_pos_bound; lia).
  unfold time_from_secs_of_day in T1, T2. injection T1 as <- <- <-. injection T2 as <- <- <-.
  apply rfc3339_order; try lia; try exact FL; Z.div_mod_to_equations; lia.
Qed.
