(** Time/DisplayProofs.v — [Musl.display] prints RFC 3339 with the microseconds truncated, and inside
    years 0000..9999 the printed strings are ordered like the instants. *)
From Coq Require Import ZArith Lia Bool List.
From TV Require Import Time.Civil Time.CivilProofs Time.Musl Time.MuslProofs Time.Rfc3339.
Import ListNotations.
Local Open Scope Z_scope.

(* ---------------------------------------------------------------------------------------------- *)
(** * Decimal printing *)

Lemma digits_length : forall k n, length (digits k n) = k.
Proof. induction k; intros; simpl; [reflexivity|]. rewrite app_length, IHk. simpl. lia. Qed.

Lemma repeat_snoc : forall (x : Z) k, repeat x k ++ [x] = x :: repeat x k.
Proof. induction k; simpl; [reflexivity|]. rewrite IHk. reflexivity. Qed.

Lemma digits_zero : forall k, digits k 0 = repeat 48 k.
Proof.
  induction k; [reflexivity|]. cbn [digits repeat].
  change (0 / 10) with 0. change (48 + 0 mod 10) with 48. rewrite IHk. apply repeat_snoc.
Qed.

Lemma pow10_succ : forall k : nat, 10 ^ Z.of_nat (S k) = 10 * 10 ^ Z.of_nat k.
Proof. intros. rewrite Nat2Z.inj_succ, Z.pow_succ_r by lia. reflexivity. Qed.

(** [dec_digits] with enough fuel produces the digits of [n] in front of the accumulator; padded with
    zeros to width k they are exactly [digits k n]. *)
Lemma dec_digits_spec : forall (k : nat) (fuel : nat) n acc,
  (1 <= k)%nat -> (k <= fuel)%nat -> 0 <= n < 10 ^ Z.of_nat k ->
  exists ds, dec_digits fuel n acc = Some (ds ++ acc) /\ (length ds <= k)%nat /\
             repeat 48 (k - length ds) ++ ds = digits k n.
Proof.
  induction k as [|k IH]; intros fuel n acc Hk Hf Hn; [lia|].
  destruct fuel as [|fuel]; [lia|]. cbn [dec_digits].
  destruct (Z.ltb_spec n 10) as [L|L].
  - exists [48 + n mod 10]. split; [reflexivity|]. split; [simpl; lia|].
    cbn [length digits]. replace (S k - 1)%nat with k by lia.
    rewrite (Z.div_small n 10) by lia. rewrite digits_zero. reflexivity.
  - rewrite pow10_succ in Hn.
    assert (Hk' : (1 <= k)%nat).
    { destruct k; [|lia]. simpl in Hn. lia. }
    assert (Hn' : 0 <= n / 10 < 10 ^ Z.of_nat k) by (Z.div_mod_to_equations; lia).
    destruct (IH fuel (n / 10) ((48 + n mod 10) :: acc) Hk' ltac:(lia) Hn') as (ds & E & Hl & Hp).
    exists (ds ++ [48 + n mod 10]). split; [rewrite E, <- app_assoc; reflexivity|].
    split; [rewrite app_length; simpl; lia|].
    cbn [digits]. rewrite <- Hp, app_length. cbn [length].
    replace (S k - (length ds + 1))%nat with (k - length ds)%nat by lia.
    rewrite app_assoc. reflexivity.
Qed.

Lemma pad0_digits : forall (k : nat) n, (1 <= k <= 40)%nat -> 0 <= n < 10 ^ Z.of_nat k ->
  pad0 k n = Some (digits k n).
Proof.
  intros k n Hk Hn. unfold pad0, dec.
  destruct (dec_digits_spec k 40 n [] ltac:(lia) ltac:(lia) Hn) as (ds & E & Hl & Hp).
  rewrite E, app_nil_r. rewrite Hp. reflexivity.
Qed.

Lemma dec_total : forall n, 0 <= n < 10 ^ 40 -> exists ds, dec n = Some ds.
Proof.
  intros n Hn. unfold dec.
  destruct (dec_digits_spec 40 40 n [] ltac:(lia) ltac:(lia) Hn) as (ds & E & _).
  exists (ds ++ []). exact E.
Qed.

Lemma pad0_total : forall k n, 0 <= n < 10 ^ 40 -> exists ds, pad0 k n = Some ds.
Proof. intros k n Hn. unfold pad0. destruct (dec_total n Hn) as (ds & ->). eauto. Qed.

(* ---------------------------------------------------------------------------------------------- *)
(** * The shape of [display] *)

Definition fields_in_range (dt : datetime) : Prop :=
  - 10 ^ 39 < year dt < 10 ^ 39 /\ 0 <= month dt < 100 /\ 0 <= day dt < 100 /\ 0 <= hour dt < 100 /\
  0 <= minute dt < 100 /\ 0 <= second dt < 100 /\ 0 <= nanos dt < 1000000000.

(** For every record: some year text, then `-MM-DDThh:mm:ss.ffffffZ` with ffffff = floor(nanos / 1000);
    for years 0000..9999 the year text is the four digits. *)
Lemma display_shape : forall dt, fields_in_range dt ->
  exists ytext,
    display dt = Some (ytext ++ tail_text (month dt) (day dt) (hour dt) (minute dt) (second dt) (nanos dt / 1000)) /\
    (0 <= year dt <= 9999 -> ytext = digits 4 (year dt)).
Proof.
  intros dt (Hy & Hmo & Hd & Hh & Hmi & Hs & Hn). unfold display.
  assert (P2 : forall n, 0 <= n < 100 -> pad0 2 n = Some (digits 2 n)).
  { intros n H. apply pad0_digits; [lia|]. change (10 ^ Z.of_nat 2) with 100. lia. }
  rewrite (P2 _ Hmo), (P2 _ Hd), (P2 _ Hh), (P2 _ Hmi), (P2 _ Hs).
  rewrite Z.quot_div_nonneg by lia.
  rewrite (pad0_digits 6 (nanos dt / 1000)) by (try lia; change (10 ^ Z.of_nat 6) with 1000000; Z.div_mod_to_equations; lia).
  assert (B39 : 10 ^ 39 < 10 ^ 40) by (vm_compute; reflexivity).
  assert (B4 : 10 ^ Z.of_nat 4 = 10000) by reflexivity.
  destruct (Z.ltb_spec 9999 (year dt)).
  - destruct (dec_total (year dt) ltac:(lia)) as (ds & ->).
    exists (ch_plus :: ds). split; [reflexivity|]. intros; lia.
  - destruct (Z.ltb_spec (year dt) 0).
    + destruct (pad0_total 4 (- year dt) ltac:(lia)) as (ds & ->).
      exists (ch_minus :: ds). split; [reflexivity|]. intros; lia.
    + rewrite (pad0_digits 4 (year dt)) by lia.
      exists (digits 4 (year dt)). split; [reflexivity|]. intros; reflexivity.
Qed.

Lemma rfc3339_length : forall y m d h mi s us, length (rfc3339 y m d h mi s us) = 27%nat.
Proof.
  intros. unfold rfc3339, tail_text. repeat rewrite app_length. repeat rewrite digits_length. reflexivity.
Qed.

(* ---------------------------------------------------------------------------------------------- *)
(** * Field ranges of the computed record *)

Lemma civil_fields_in_range : forall dt sec nsec,
  valid_systemtime sec nsec -> is_civil_time_of dt sec nsec -> fields_in_range dt.
Proof.
  intros dt sec nsec [Hs Hn] C. pose proof C as (V & T & S & N).
  pose proof (is_civil_time_of_unique dt sec nsec C) as U.
  destruct (civil_from_secs sec) as [[[y m] d] [[h mi] s]] eqn:E.
  unfold civil_from_secs in E.
  assert (E1 : civil_from_days (sec / SECS_PER_DAY) = (y, m, d)) by congruence.
  unfold dt_of_civil in U. subst dt. cbn [year month day hour minute second Musl.nanos] in *.
  unfold I64_MIN, I64_MAX, NANOS_PER_SEC, SECS_PER_DAY in *.
  assert (Hd : -110000000000000 <= sec / 86400 <= 110000000000000) by (Z.div_mod_to_equations; lia).
  pose proof (civil_from_days_year_ge _ _ _ _ (-1000000000000) E1) as G.
  pose proof (civil_from_days_year_le _ _ _ _ 1000000000000 E1) as L.
  assert (D1 : days_from_civil (-1000000000000) 1 1 < -110000000000000) by (vm_compute; reflexivity).
  assert (D2 : 110000000000000 < days_from_civil (1000000000000 + 1) 1 1) by (vm_compute; reflexivity).
  assert (P39 : 10 ^ 39 = 1000000000000000000000000000000000000000) by reflexivity.
  destruct V as [Vm Vd]. pose proof (days_in_month_le_31 y m). unfold valid_time in T.
  unfold fields_in_range. cbn [year month day hour minute second Musl.nanos]. rewrite P39. lia.
Qed.

(* ---------------------------------------------------------------------------------------------- *)
(** * What is printed *)

(** Every instant, release build: the date/time fields are those of [civil_from_secs], the six fractional
    digits are floor(tv_nsec / 1000) (truncated, never rounded up). *)
Theorem format_release_shape : forall sec nsec, valid_systemtime sec nsec ->
  forall y m d h mi s, civil_from_secs sec = ((y, m, d), (h, mi, s)) ->
  exists ytext,
    format_system_time release sec nsec = Some (ytext ++ tail_text m d h mi s (nsec / 1000)) /\
    (0 <= y <= 9999 -> ytext = digits 4 y) /\
    (nsec / 1000) * 1000 <= nsec < (nsec / 1000) * 1000 + 1000.
Proof.
  intros sec nsec V y m d h mi s E. unfold format_system_time.
  rewrite (correct_release_functional sec nsec V), E. unfold dt_of_civil.
  destruct (correct_release sec nsec V) as (dt & E' & C).
  rewrite (correct_release_functional sec nsec V), E in E'. unfold dt_of_civil in E'.
  injection E' as <-.
  destruct (display_shape _ (civil_fields_in_range _ _ _ V C)) as (ytext & D & Y).
  cbn [year month day hour minute second Musl.nanos] in *.
  exists ytext. split; [exact D|]. split; [exact Y|]. Z.div_mod_to_equations. lia.
Qed.

(** In years 0000..9999 the output is exactly RFC 3339, 27 bytes; both build profiles. *)
Theorem format_rfc3339 : forall md, md = release \/ md = debug ->
  forall sec nsec, valid_systemtime sec nsec ->
  forall y m d h mi s, civil_from_secs sec = ((y, m, d), (h, mi, s)) -> 0 <= y <= 9999 ->
  format_system_time md sec nsec = Some (rfc3339 y m d h mi s (nsec / 1000)).
Proof.
  intros md Hmd sec nsec V y m d h mi s E Hy.
  assert (NK : ~ F20_instant sec nsec).
  { intros [-> _]. vm_compute in E. injection E as <- _ _ _ _ _. lia. }
  assert (Smd : sound md) by (destruct Hmd; subst; [apply sound_release | apply sound_debug]).
  destruct (from_systemtime_ok md Smd sec nsec V NK) as (dt & Edt & C).
  unfold format_system_time. rewrite Edt.
  pose proof (is_civil_time_of_unique dt sec nsec C) as U. rewrite E in U. unfold dt_of_civil in U.
  destruct (display_shape _ (civil_fields_in_range _ _ _ V C)) as (ytext & D & Y).
  subst dt. cbn [year month day hour minute second Musl.nanos] in *.
  rewrite D, (Y Hy). reflexivity.
Qed.

(* ---------------------------------------------------------------------------------------------- *)
(** * Order *)

Lemma lex_le_refl : forall a, lex_le a a.
Proof. induction a; simpl; auto. Qed.

Lemma lex_le_app_l : forall p a b, lex_le a b -> lex_le (p ++ a) (p ++ b).
Proof. induction p; intros; simpl; auto. Qed.

Lemma lex_le_digits_lt : forall k a b s s', 0 <= a < b -> b < 10 ^ Z.of_nat k ->
  lex_le (digits k a ++ s) (digits k b ++ s').
Proof.
  induction k as [|k IH]; intros a b s s' Hab Hb; [simpl in Hb; lia|].
  rewrite pow10_succ in Hb. cbn [digits]. rewrite <- !app_assoc.
  destruct (Z.lt_ge_cases (a / 10) (b / 10)) as [L|G].
  - apply IH; Z.div_mod_to_equations; lia.
  - assert (E : a / 10 = b / 10) by (Z.div_mod_to_equations; lia). rewrite E.
    apply lex_le_app_l. cbn [app lex_le]. left. Z.div_mod_to_equations. lia.
Qed.

(** One field: smaller prints smaller whatever follows; equal defers to what follows. *)
Lemma lex_field : forall k a b s s', 0 <= a <= b -> b < 10 ^ Z.of_nat k ->
  (a = b -> lex_le s s') -> lex_le (digits k a ++ s) (digits k b ++ s').
Proof.
  intros k a b s s' Hab Hb Hs. destruct (Z.eq_dec a b) as [->|NE].
  - apply lex_le_app_l. auto.
  - apply lex_le_digits_lt; lia.
Qed.

Lemma lex_sep : forall c s s', lex_le s s' -> lex_le ([c] ++ s) ([c] ++ s').
Proof. intros. apply lex_le_app_l. assumption. Qed.

(** Printed strings are ordered like the instants (years 0000..9999, where the width is fixed). *)
Theorem monotone : forall md, md = release \/ md = debug ->
  forall s1 n1 s2 n2 o1 o2,
  valid_systemtime s1 n1 -> valid_systemtime s2 n2 ->
  YEAR0_SECS <= s1 -> s2 < YEAR10000_SECS ->
  s1 < s2 \/ (s1 = s2 /\ n1 <= n2) ->
  format_system_time md s1 n1 = Some o1 -> format_system_time md s2 n2 = Some o2 ->
  lex_le o1 o2.
Proof.
  intros md Hmd s1 n1 s2 n2 o1 o2 V1 V2 L1 L2 Ord F1 F2.
  unfold YEAR0_SECS, YEAR10000_SECS in *.
  destruct (civil_from_secs s1) as [[[y1 m1] d1] [[h1 mi1] c1]] eqn:E1.
  destruct (civil_from_secs s2) as [[[y2 m2] d2] [[h2 mi2] c2]] eqn:E2.
  pose proof E1 as E1'. pose proof E2 as E2'. unfold civil_from_secs, SECS_PER_DAY in E1', E2'.
  assert (A1 : civil_from_days (s1 / 86400) = (y1, m1, d1)) by congruence.
  assert (A2 : civil_from_days (s2 / 86400) = (y2, m2, d2)) by congruence.
  assert (T1 : time_from_secs_of_day (s1 mod 86400) = (h1, mi1, c1)) by congruence.
  assert (T2 : time_from_secs_of_day (s2 mod 86400) = (h2, mi2, c2)) by congruence.
  clear E1' E2'.
  (* year range *)
  assert (D0 : days_from_civil 0 1 1 = -719528) by reflexivity.
  assert (D9 : days_from_civil (9999 + 1) 1 1 = 2932897) by reflexivity.
  assert (Hy1 : 0 <= y1 <= 9999).
  { split; [apply (civil_from_days_year_ge _ _ _ _ 0 A1) | apply (civil_from_days_year_le _ _ _ _ 9999 A1)];
      rewrite ?D0, ?D9; Z.div_mod_to_equations; lia. }
  assert (Hy2 : 0 <= y2 <= 9999).
  { split; [apply (civil_from_days_year_ge _ _ _ _ 0 A2) | apply (civil_from_days_year_le _ _ _ _ 9999 A2)];
      rewrite ?D0, ?D9; Z.div_mod_to_equations; lia. }
  rewrite (format_rfc3339 md Hmd s1 n1 V1 _ _ _ _ _ _ E1 Hy1) in F1.
  rewrite (format_rfc3339 md Hmd s2 n2 V2 _ _ _ _ _ _ E2 Hy2) in F2.
  injection F1 as <-. injection F2 as <-.
  (* dates *)
  destruct (cfd_correct _ _ _ _ A1) as [Va Da]. destruct (cfd_correct _ _ _ _ A2) as [Vb Db].
  assert (Dle : days_from_civil y1 m1 d1 <= days_from_civil y2 m2 d2)
    by (rewrite Da, Db; Z.div_mod_to_equations; lia).
  pose proof (days_from_civil_le_inv _ _ _ _ _ _ Va Vb Dle) as DL0. unfold date_lt in DL0.
  assert (DL : (y1 = y2 /\ m1 = m2 /\ d1 = d2) \/ (y1 < y2 \/ y1 = y2 /\ (m1 < m2 \/ m1 = m2 /\ d1 < d2)))
    by (destruct DL0 as [Q|Q]; [left; repeat split; congruence | right; exact Q]).
  clear DL0.
  assert (SameDay : (y1, m1, d1) = (y2, m2, d2) -> s1 / 86400 = s2 / 86400) by (intros Q; congruence).
  (* times of day *)
  unfold time_from_secs_of_day in T1, T2.
  assert (H1 : h1 = s1 mod 86400 / 3600 /\ mi1 = s1 mod 86400 / 60 mod 60 /\ c1 = s1 mod 86400 mod 60) by (repeat split; congruence).
  assert (H2 : h2 = s2 mod 86400 / 3600 /\ mi2 = s2 mod 86400 / 60 mod 60 /\ c2 = s2 mod 86400 mod 60) by (repeat split; congruence).
  clear T1 T2 A1 A2 E1 E2.
  destruct H1 as (-> & -> & ->). destruct H2 as (-> & -> & ->).
  destruct V1 as [_ Hn1]. destruct V2 as [_ Hn2]. unfold NANOS_PER_SEC in *.
  destruct Va as [Vm1 Vd1]. destruct Vb as [Vm2 Vd2].
  pose proof (days_in_month_le_31 y1 m1). pose proof (days_in_month_le_31 y2 m2).
  assert (R1 : 0 <= s1 mod 86400 < 86400) by (apply Z.mod_pos_bound; lia).
  assert (R2 : 0 <= s2 mod 86400 < 86400) by (apply Z.mod_pos_bound; lia).
  pose proof (Z.div_mod s1 86400 ltac:(lia)) as Q1. pose proof (Z.div_mod s2 86400 ltac:(lia)) as Q2.
  set (r1 := s1 mod 86400) in *. set (r2 := s2 mod 86400) in *.
  set (q1 := s1 / 86400) in *. set (q2 := s2 / 86400) in *.
  assert (P4 : 10 ^ Z.of_nat 4 = 10000) by reflexivity.
  assert (P2 : 10 ^ Z.of_nat 2 = 100) by reflexivity.
  assert (P6 : 10 ^ Z.of_nat 6 = 1000000) by reflexivity.
  unfold rfc3339, tail_text.
  apply lex_field; [lia | rewrite P4; lia |]. intros Ey. apply lex_sep.
  apply lex_field; [lia | rewrite P2; lia |]. intros Em. apply lex_sep.
  apply lex_field; [lia | rewrite P2; lia |]. intros Ed. apply lex_sep.
  assert (Eq : q1 = q2) by (apply SameDay; congruence).
  assert (Rle : r1 <= r2) by lia.
  apply lex_field; [Z.div_mod_to_equations; lia | rewrite P2; Z.div_mod_to_equations; lia |]. intros Eh. apply lex_sep.
  apply lex_field; [Z.div_mod_to_equations; lia | rewrite P2; Z.div_mod_to_equations; lia |]. intros Emi. apply lex_sep.
  apply lex_field; [Z.div_mod_to_equations; lia | rewrite P2; Z.div_mod_to_equations; lia |]. intros Es. apply lex_sep.
  assert (Er : r1 = r2) by (Z.div_mod_to_equations; lia).
  assert (Nle : n1 <= n2) by lia.
  apply lex_field; [Z.div_mod_to_equations; lia | rewrite P6; Z.div_mod_to_equations; lia |]. intros _.
  apply lex_le_refl.
Qed.
