(** C09 — what the property says, as functions of a stack's *shape* only (no proofs here; executable, so the driver can
    evaluate them next to the implementation's observations).

    Nothing in this file looks at a table row or at the model's semantics: [coll_recv] lists the recording leaves of a stack
    inner -> outer, [coll_ask] lists them outer -> inner (root last), [until_veto] / [rc_until] cut a list of answers at the
    first veto.  The theorems of ProofsOrder.v say that the model (whose semantics is read off the Rust source) produces
    exactly these logs. *)
From TV Require Export Forwarding.Model.
Local Open Scope N_scope.

(** The recording filter underneath a nest of Filter wrappers (none under `None`). *)
Fixpoint filt_q (f : filt) : list (N * beh) :=
  match f with FLeaf i b => [(i, b)] | FWrap _ x => filt_q x | FNone => [] end.

(** The callbacks the harness's FilterProbe hands on to its filter. *)
Definition probe_passes (m : meth) : bool :=
  match m with on_new_span | on_record | on_enter | on_exit | on_close => true | _ => false end.

(** Leaves of a subscriber tree that receive the unit callback [m], in delivery order.  [pof] ("pair: outer first") is
    false for every notification the property lists: the inner half of an `and_then` pair comes first. *)
Fixpoint sub_recv (pof : bool) (m : meth) (s : sub) : list N :=
  match s with
  | SLeaf i _ => [i]
  | SWrap _ x => sub_recv pof m x
  | SNone => []
  | SIdentity => []
  | SVec xs => flat_map (sub_recv pof m) xs
  | SPair o i => if pof then sub_recv pof m o ++ sub_recv pof m i else sub_recv pof m i ++ sub_recv pof m o
  | SProbe f => if probe_passes m then map fst (filt_q f) else []
  end.

Fixpoint coll_root (c : coll) : N * beh :=
  match c with CLeaf i b => (i, b) | CWrap _ c' => coll_root c' | CLayered _ c' => coll_root c' end.
Definition root_id (c : coll) : N := fst (coll_root c).
Definition root_beh (c : coll) : beh := snd (coll_root c).
(** What the root collector itself records of a call: one entry — nothing when the root is the `Registry` (it is not a
    recording collector; every layer above it still is). *)
Definition root_ents (c : coll) (m : meth) (a : arg) : list entry :=
  if b_registry (root_beh c) then [] else [(root_id c, m, a)].

(** Layers of a stack that receive [m], inner -> outer (the root collector is not a layer). *)
Fixpoint coll_recv (pof : bool) (m : meth) (c : coll) : list N :=
  match c with
  | CLeaf _ _ => []
  | CWrap _ c' => coll_recv pof m c'
  | CLayered s c' => coll_recv pof m c' ++ sub_recv pof m s
  end.

Fixpoint coll_has_layer (c : coll) : bool :=
  match c with CLeaf _ _ => false | CWrap _ c' => coll_has_layer c' | CLayered _ _ => true end.

Definition ents (m : meth) (a : arg) (ids : list N) : list entry := map (fun i => (i, m, a)) ids.

(** The notifications of the property: the Collect method the dispatcher calls, the Subscribe callback the layers get. *)
Definition notif_pairs : list (meth * meth) :=
  [(record, on_record); (record_follows_from, on_follows_from); (event, on_event); (enter, on_enter); (exit, on_exit)].

(** ** Queries: who is asked, in which order (outer -> inner, the root last) *)
Fixpoint sub_ask (s : sub) : list (N * bool * beh) :=       (* (leaf, is it a Filter?, its answers) *)
  match s with
  | SLeaf i b => [(i, false, b)]
  | SWrap _ x => sub_ask x
  | SNone => []
  | SIdentity => []
  | SVec xs => flat_map sub_ask xs
  | SPair o i => sub_ask o ++ sub_ask i
  | SProbe f => map (fun ib => (fst ib, true, snd ib)) (filt_q f)
  end.
Fixpoint coll_ask (c : coll) : list (N * bool * beh) :=
  match c with
  | CLeaf i b => if b_registry b then [] else [(i, false, b)]     (* a `Registry` always says yes and records nothing *)
  | CWrap _ c' => coll_ask c'
  | CLayered s c' => sub_ask s ++ coll_ask c'
  end.

(** Ask in order; stop after the first `false`.  Result: who was asked, and the verdict. *)
Fixpoint until_veto (p : beh -> bool) (qs : list (N * bool * beh)) : list N * bool :=
  match qs with
  | [] => ([], true)
  | (i, _, b) :: r => if p b then let (l, ok) := until_veto p r in (i :: l, ok) else ([i], false)
  end.

Inductive qk := QEnabled | QEvent.
Definition q_meth (q : qk) : meth := match q with QEnabled => enabled | QEvent => event_enabled end.
Definition q_ans (q : qk) (a : arg) (b : beh) : bool :=
  match q with QEnabled => b_enabled b (a_cs a) | QEvent => b_event_enabled b (a_cs a) end.

(** `register_callsite`: asked outer-first; a `never` stops the walk; `sometimes` from anyone asked makes the stack
    `sometimes`; otherwise the innermost answer (claimed for *linear* stacks, see [linear]). *)
Definition rc_meth (is_filter : bool) : meth := if is_filter then callsite_enabled else register_callsite.
Fixpoint rc_until (cs : N) (qs : list (N * bool * beh)) : list entry * interest :=
  match qs with
  | [] => ([], IAlways)
  | (i, k, b) :: r =>
      match b_interest b cs with
      | INever => ([(i, rc_meth k, (cs, 0, 0))], INever)
      | x => let (l, y) := rc_until cs r in ((i, rc_meth k, (cs, 0, 0)) :: l, if is_sometimes x then ISometimes else y)
      end
  end.

(** A layer that is one recording leaf at most (possibly wrapped): no `and_then` pair, no Vec of two or more. *)
Fixpoint linear_sub (s : sub) : bool :=
  match s with
  | SLeaf _ _ => true
  | SWrap _ x => linear_sub x
  | SNone => true
  | SIdentity => true
  | SVec xs => match xs with [] => true | [x] => linear_sub x | _ => false end
  | SPair _ _ => false
  | SProbe _ => true
  end.
Fixpoint linear (c : coll) : bool :=
  match c with CLeaf _ _ => true | CWrap _ c' => linear c' | CLayered s c' => linear_sub s && linear c' end.

(** ** `register_callsite` on ANY stack: what "outer first until `never`" means for a tree.

    The walk visits the tree in the order of [coll_ask] (a pair's outer half before its inner half, a layer before the
    collector underneath, Vec elements left to right) and computes an interest for every subtree:
    - a recording leaf is asked (one entry) and answers for itself; `None` / Identity / a `None` filter are not asked and
      count as `always`; a `Registry` root is not recorded and answers `always`;
    - a pair `inner.and_then(outer)` and a stack `c.with(s)`: the outer side ([o] / [s]) first; **if its interest is `never`
      the whole inner side is skipped** and the result is `never`; otherwise the inner side is walked, and the result is
      `sometimes` if the outer side said `sometimes`, else the inner side's interest;
    - a Vec asks **all** its elements, whatever they answer, and folds: `never` if any is, `always` if all are, else
      `sometimes` (f08c5cd). *)
Fixpoint filt_rc (a : arg) (f : filt) : list entry * interest :=
  match f with
  | FLeaf i b => ([(i, callsite_enabled, a)], b_interest b (a_cs a))
  | FWrap _ x => filt_rc a x
  | FNone => ([], IAlways)
  end.
Definition rc_pick (ro : list entry * interest) (ri : list entry * interest) : list entry * interest :=
  if is_never (snd ro) then (fst ro, INever)
  else (fst ro ++ fst ri, if is_sometimes (snd ro) then ISometimes else snd ri).
Fixpoint rc_sub (a : arg) (s : sub) : list entry * interest :=
  match s with
  | SLeaf i b => ([(i, register_callsite, a)], b_interest b (a_cs a))
  | SWrap _ x => rc_sub a x
  | SNone => ([], IAlways)
  | SIdentity => ([], IAlways)
  | SVec xs => let rs := map (rc_sub a) xs in
               (List.concat (map fst rs),
                interest_all (existsb (fun r => is_never (snd r)) rs) (forallb (fun r => is_always (snd r)) rs))
  | SPair o i => rc_pick (rc_sub a o) (rc_sub a i)
  | SProbe f => filt_rc a f
  end.
Fixpoint rc_coll (a : arg) (c : coll) : list entry * interest :=
  match c with
  | CLeaf i b => (if b_registry b then [] else [(i, register_callsite, a)], r_interest b (a_cs a))
  | CWrap _ c' => rc_coll a c'
  | CLayered s c' => rc_pick (rc_sub a s) (rc_coll a c')
  end.

(** No `and_then` pair anywhere (the one place where finding F18 shows). *)
Fixpoint pair_free_sub (s : sub) : bool :=
  match s with
  | SLeaf _ _ => true
  | SWrap _ x => pair_free_sub x
  | SNone => true
  | SIdentity => true
  | SVec xs => forallb pair_free_sub xs
  | SPair _ _ => false
  | SProbe _ => true
  end.
Fixpoint pair_free (c : coll) : bool :=
  match c with CLeaf _ _ => true | CWrap _ c' => pair_free c' | CLayered s c' => pair_free_sub s && pair_free c' end.

(** ** "Absent": `None`, an empty Vec (or a Vec of absent things), possibly inside Box / Box<dyn> / Some / reload *)
Fixpoint absent (s : sub) : bool :=
  match s with
  | SNone => true
  | SVec xs => forallb absent xs
  | SWrap _ x => absent x
  | _ => false
  end.

Definition no_hint_op (o : op) : bool := match o with OHint => false | _ => true end.
Definition no_drop_op (o : op) : bool := match o with ODropSpan _ => false | _ => true end.

(** ** What one dispatcher-level operation must log on a stack, by the property (used by the driver as a second oracle) *)
Definition expected_event (c : coll) (a : arg) : list entry :=
  let (asked, ok) := until_veto (q_ans QEvent a) (coll_ask c) in
  ents event_enabled a asked ++ (if ok then root_ents c event a ++ ents on_event a (coll_recv false on_event c) else []).

(** The whole exactly-once / order / veto clause at the level the harness observes: the callback log of one dispatcher-level
    operation on a stack ([None]: no claim — only `max_level_hint`). *)
Definition spec_op (c : coll) (o : op) : option (list entry) :=
  let r := root_ents c in
  match o with
  | ORegisterCallsite cs => Some (fst (rc_coll (cs, 0, 0) c))
  | OEnabled cs => Some (ents enabled (cs, 0, 0) (fst (until_veto (q_ans QEnabled (cs, 0, 0)) (coll_ask c))))
  | OHint => None
  | ONewSpan cs k => Some (r new_span (cs, k, 0) ++ ents on_new_span (cs, k, 0) (coll_recv false on_new_span c))
  | ORecord id => Some (r record (0, id, 0) ++ ents on_record (0, id, 0) (coll_recv false on_record c))
  | OFollows id id2 => Some (r record_follows_from (0, id, id2) ++ ents on_follows_from (0, id, id2) (coll_recv false on_follows_from c))
  | OEvent cs => Some (expected_event c (cs, 0, 0))
  | OEnter id => Some (r enter (0, id, 0) ++ ents on_enter (0, id, 0) (coll_recv false on_enter c))
  | OExit id => Some (r exit (0, id, 0) ++ ents on_exit (0, id, 0) (coll_recv false on_exit c))
  | OClone id =>
      let nw := r_clone (root_beh c) id in
      Some (r clone_span (0, id, 0) ++ (if nw =? id then [] else ents on_id_change (0, id, nw) (coll_recv false on_id_change c)))
  | OTryClose id =>
      Some (r try_close (0, id, 0) ++ (if b_close (root_beh c) id then ents on_close (0, id, 0) (coll_recv false on_close c) else []))
  | ODropSpan id =>
      if coll_has_layer c
      then Some (r try_close (0, id, 0) ++ (if b_close (root_beh c) id then ents on_close (0, id, 0) (coll_recv false on_close c) else []))
      else Some (r drop_span (0, id, 0))
  | OCurrent => Some (r current_span arg0)
  end.
