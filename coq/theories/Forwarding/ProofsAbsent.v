(** C09 — proofs, part 4: `None` and an empty `Vec` behave as if absent (on the expected tables [etb v]).

    An absent subscriber ([absent]: `None`, `vec![]`, a Vec of absent things, any of these inside Box / Box<dyn> / Some /
    reload) logs nothing and answers `always` / `true` / unit; its `max_level_hint` is `OFF` and it carries the `None`
    marker.  Added as a layer, as either half of an `and_then` pair or as an element of a Vec, *anywhere* in a stack, it
    changes no call log and no answer of any operation other than `max_level_hint`; added as the top layer it does not
    change `max_level_hint` either.  Further down it can: finding F17 ([F17_more_permissive_v], [F17_less_permissive_v]). *)
From TV Require Import Forwarding.ProofsBase Forwarding.ProofsWrappers Forwarding.ProofsOrder.
Local Open Scope N_scope.

Definition not_hint (m : meth) : bool := match m with max_level_hint => false | _ => true end.
Definition sscope_nh (m : meth) : bool := sscope m && not_hint m.
Definition cscope_nh (m : meth) : bool := cscope m && not_hint m.
Definition seq_nh (X Y : obj) : Prop := forall m a, sscope_nh m = true -> call X m a = call Y m a.
Definition coq_nh (X Y : obj) : Prop := forall m a, cscope_nh m = true -> call X m a = call Y m a.

Lemma sscope_nh_s : forall m, sscope_nh m = true -> sscope m = true.
Proof. intros m H. apply andb_prop in H. tauto. Qed.
Lemma cscope_nh_c : forall m, cscope_nh m = true -> cscope m = true.
Proof. intros m H. apply andb_prop in H. tauto. Qed.

(** * What an absent subscriber does *)
Lemma vec_unit_nil : forall (xs : list calls) m a, Forall (fun x => fst (x m a) = []) xs -> vec_unit xs m a = [].
Proof. induction 1; cbn [vec_unit]; [reflexivity|]. rewrite H, IHForall. reflexivity. Qed.
Lemma vec_all_true : forall (xs : list calls) m a, Forall (fun x => x m a = ([], RBool true)) xs -> vec_all xs m a = ([], RBool true).
Proof. induction 1; cbn [vec_all]; [reflexivity|]. rewrite H, IHForall. reflexivity. Qed.
Lemma vec_interest_all_always : forall (xs : list calls) m a p q, Forall (fun x => x m a = ([], RInt IAlways)) xs ->
  vec_interest_all xs m a p q = ([], RInt (interest_all p q)).
Proof.
  intros xs m a p q H. revert p q. induction H; intros p q; cbn [vec_interest_all]; [reflexivity|].
  rewrite H, IHForall. cbn [is_never is_always]. rewrite orb_false_r, andb_true_r. reflexivity.
Qed.
Lemma vec_hint_off : forall (xs : list calls) m a acc, Forall (fun x => x m a = ([], RHint (Some 0))) xs ->
  vec_hint xs m a acc = ([], RHint (Some acc)).
Proof.
  intros xs m a acc H. revert acc. induction H; intro acc; cbn [vec_hint]; [reflexivity|].
  rewrite H, IHForall, N.max_0_l. reflexivity.
Qed.

Lemma Forall_calls : forall (P : calls -> Prop) tb xs, Forall (fun s => P (call (sub_obj tb s))) xs -> Forall P (map call (map (sub_obj tb) xs)).
Proof. induction 1; simpl; constructor; assumption. Qed.

Lemma absent_sem : forall v z, absent z = true ->
  (forall m a, sscope_nh m = true -> call (sub_obj (etb v) z) m a = ([], id_res m)) /\
  (forall a, call (sub_obj (etb v) z) max_level_hint a = ([], RHint (Some 0))) /\
  is_none (sub_obj (etb v) z) = true.
Proof.
  intros v z. induction z using sub_ind'; cbn [absent]; intro Ha; try discriminate Ha.
  - destruct (IHz Ha) as [H1 [H2 H3]]. split; [|split].
    + intros m a Hm. rewrite swrap_call by (apply sscope_nh_s; exact Hm). apply H1; exact Hm.
    + intro a. rewrite swrap_call by reflexivity. apply H2.
    + rewrite swrap_none. exact H3.
  - split; [|split].
    + intros m a Hm. destruct v, m; try discriminate Hm; vm_compute; reflexivity.
    + intro a. destruct v; vm_compute; reflexivity.
    + destruct v; vm_compute; reflexivity.
  - rewrite forallb_forall in Ha.
    assert (HA : Forall (fun s => (forall m a, sscope_nh m = true -> call (sub_obj (etb v) s) m a = ([], id_res m)) /\
                                  (forall a, call (sub_obj (etb v) s) max_level_hint a = ([], RHint (Some 0))) /\
                                  is_none (sub_obj (etb v) s) = true) xs).
    { clear - H Ha. induction H; constructor.
      - apply H. apply Ha. left; reflexivity.
      - apply IHForall. intros y Hy. apply Ha. right; exact Hy. }
    split; [|split].
    + intros m a Hm. rewrite sub_unf_vec. tie3. unfold vec_sem at 1.
      assert (HF : Forall (fun x : calls => x m a = ([], id_res m)) (map call (map (sub_obj (etb v)) xs))).
      { apply Forall_calls. eapply Forall_impl; [|exact HA]. intros s [Hs _]. apply Hs; exact Hm. }
      destruct m; try discriminate Hm; crow; cbn [id_res] in *;
        try (rewrite vec_unit_nil; [reflexivity|eapply Forall_impl; [|exact HF]; intros x Hx; rewrite Hx; reflexivity]);
        try (apply vec_all_true; exact HF).
      rewrite (vec_interest_all_always _ _ _ _ _ HF). reflexivity.
    + intro a. rewrite sub_unf_vec. tie3. unfold vec_sem at 1. crow. apply vec_hint_off.
      apply Forall_calls. eapply Forall_impl; [|exact HA]. intros s [_ [Hs _]]. apply Hs.
    + cbn [sub_obj is_none]. unfold none_vec. crow. destruct xs as [|x r]; [reflexivity|].
      inversion HA as [|x0 r0 [_ [_ Hx]] Hr]; subst. cbn [map existsb]. rewrite Hx. reflexivity.
Qed.

Lemma absent_call : forall v z m a, absent z = true -> sscope_nh m = true -> call (sub_obj (etb v) z) m a = ([], id_res m).
Proof. intros v z m a Ha. apply (absent_sem v z Ha). Qed.
Lemma absent_hint : forall v z a, absent z = true -> call (sub_obj (etb v) z) max_level_hint a = ([], RHint (Some 0)).
Proof. intros v z a Ha. apply (absent_sem v z Ha). Qed.
Lemma absent_none : forall v z, absent z = true -> is_none (sub_obj (etb v) z) = true.
Proof. intros v z Ha. apply (absent_sem v z Ha). Qed.

(** * An absent layer on top of a collector: every method answers as before (the hint included) *)
Lemma has_layer_noflags : forall c, coll_has_layer c = true -> flags_of_root c = noflags.
Proof. destruct c; cbn; intro H; [discriminate H|reflexivity|reflexivity]. Qed.

(** [max_level_hint]: not when [c] is the bare `Registry` (`registry().with(None)` alone reports OFF by design: `inner_is_registry`). *)
Lemma absent_layer_call : forall v z c m a, absent z = true -> cscope m = true -> (m = drop_span -> coll_has_layer c = true) ->
  (m = max_level_hint -> flags_of_root c = noflags) ->
  call (coll_obj (etb v) (CLayered z c)) m a = call (coll_obj (etb v) c) m a.
Proof.
  intros v z c m a Ha Hm Hd Hh. pose proof (coll_typed v c m a Hm) as HT.
  rewrite coll_unf_layered. tie3. unfold layered_sem at 1.
  destruct m; try discriminate Hm; crow; rewrite ?(absent_call v z) by (exact Ha || reflexivity);
    rewrite ?(absent_hint v z) by exact Ha; rewrite ?(absent_none v z) by exact Ha; cbn [fst id_res app is_sometimes].
  - rewrite app_nil_r. destruct (call (coll_obj (etb v) c) on_register_dispatch a) as [l r]. simpl in HT. destruct r; try discriminate HT. reflexivity.
  - rewrite (register_callsite_v v c a). unfold rc_out, pick_interest_res. rewrite flags_hsf. cbn [negb andb is_never is_sometimes].
    pose proof (flags_ihsf_always a c) as HA.
    destruct (ihsf (flags_of_root c)); [rewrite (HA eq_refl); reflexivity|rewrite andb_false_r; reflexivity].
  - destruct (call (coll_obj (etb v) c) enabled a) as [l r]. reflexivity.
  - cbn [String.eqb Ascii.eqb Bool.eqb orb]. rewrite (Hh eq_refl). destruct (call (coll_obj (etb v) c) max_level_hint a) as [l r]. simpl in HT.
    destruct r; try discriminate HT. unfold pick_level_hint. cbn [iir hsf ihsf noflags andb]. destruct h; [cbn [opt_max]; rewrite N.max_0_l|]; reflexivity.
  - destruct (call (coll_obj (etb v) c) new_span a) as [l r]. simpl in HT. destruct r; try discriminate HT.
    rewrite (absent_call v z) by (exact Ha || reflexivity). cbn [fst]. rewrite app_nil_r. reflexivity.
  - rewrite app_nil_r. destruct (call (coll_obj (etb v) c) record a) as [l r]. simpl in HT. destruct r; try discriminate HT. reflexivity.
  - rewrite app_nil_r. destruct (call (coll_obj (etb v) c) record_follows_from a) as [l r]. simpl in HT. destruct r; try discriminate HT. reflexivity.
  - destruct (call (coll_obj (etb v) c) event_enabled a) as [l r]. reflexivity.
  - rewrite app_nil_r. destruct (call (coll_obj (etb v) c) event a) as [l r]. simpl in HT. destruct r; try discriminate HT. reflexivity.
  - rewrite app_nil_r. destruct (call (coll_obj (etb v) c) enter a) as [l r]. simpl in HT. destruct r; try discriminate HT. reflexivity.
  - rewrite app_nil_r. destruct (call (coll_obj (etb v) c) exit a) as [l r]. simpl in HT. destruct r; try discriminate HT. reflexivity.
  - destruct (call (coll_obj (etb v) c) clone_span a) as [l r]. simpl in HT. destruct r; try discriminate HT.
    rewrite (absent_call v z) by (exact Ha || reflexivity). cbn [fst]. rewrite app_nil_r. destruct (n =? a_id a); reflexivity.
  - rewrite (tie_S 1). unfold layered_sem at 1. crow. rewrite (drop_span_v v c a), (Hd eq_refl).
    destruct (call (coll_obj (etb v) c) try_close a) as [l r]. destruct r; try reflexivity. destruct b; [|reflexivity].
    rewrite (absent_call v z) by (exact Ha || reflexivity). cbn [fst]. rewrite app_nil_r. reflexivity.
  - destruct (call (coll_obj (etb v) c) try_close a) as [l r]. simpl in HT. destruct r; try discriminate HT. destruct b; [|reflexivity].
    rewrite app_nil_r. reflexivity.
  - reflexivity.
Qed.

(** * Congruence for everything but `max_level_hint` (no method of a `Layered`, `Vec`, ... other than its own `max_level_hint`
      looks at a child's hint or `None` marker) *)
Ltac rwn H X := repeat match goal with |- context [call X ?m ?a] => rewrite (H m a eq_refl) end.

Section V.
  Variable v : bool.
  Local Notation So := (sub_obj (etb v)).
  Local Notation Co := (coll_obj (etb v)).

  Lemma nh_of_seq : forall X Y, seq_on X Y -> seq_nh X Y.
  Proof. intros X Y [H _] m a Hm. apply H. apply sscope_nh_s; exact Hm. Qed.

  Lemma cong_nh_swrap : forall w x y, seq_nh (So x) (So y) -> seq_nh (So (SWrap w x)) (So (SWrap w y)).
  Proof. intros w x y H m a Hm. rewrite !swrap_call by (apply sscope_nh_s; exact Hm). apply H; exact Hm. Qed.

  Lemma cong_nh_vec : forall pre post x y, seq_nh (So x) (So y) ->
    seq_nh (So (SVec (pre ++ x :: post))) (So (SVec (pre ++ y :: post))).
  Proof.
    intros pre post x y H m a Hm.
    assert (HF : Forall2 (ceq_at m) (map call (map So (pre ++ x :: post))) (map call (map So (pre ++ y :: post)))).
    { induction pre; simpl; constructor; try assumption; try (intro; reflexivity).
      - intro a0. apply H; exact Hm.
      - clear. induction post; simpl; constructor; [intro; reflexivity|assumption]. }
    rewrite !sub_unf_vec. tie3. unfold vec_sem at 1 3.
    destruct m; try discriminate Hm; crow;
      try (rewrite (vec_unit_at _ _ _ HF); reflexivity); try (apply vec_all_at; exact HF);
      try (apply vec_interest_all_at; exact HF).
  Qed.

  Lemma cong_nh_pair_o : forall i x y, seq_nh (So x) (So y) -> seq_nh (So (SPair x i)) (So (SPair y i)).
  Proof.
    intros i x y H m a Hm. rewrite !sub_unf_pair. tie3. unfold layered_sem at 1 3.
    destruct m; try discriminate Hm; crow; cbn [meth_name]; crow; rwn H (So x); reflexivity.
  Qed.
  Lemma cong_nh_pair_i : forall o x y, seq_nh (So x) (So y) -> seq_nh (So (SPair o x)) (So (SPair o y)).
  Proof.
    intros o x y H m a Hm. rewrite !sub_unf_pair. tie3. unfold layered_sem at 1 3.
    destruct m; try discriminate Hm; crow; cbn [meth_name]; crow; rwn H (So x); reflexivity.
  Qed.

  Lemma cong_nh_layered_s : forall c x y, seq_nh (So x) (So y) -> coq_nh (Co (CLayered x c)) (Co (CLayered y c)).
  Proof.
    intros c x y H m a Hm. rewrite !coll_unf_layered. tie3. unfold layered_sem at 1 3.
    destruct m; try discriminate Hm; crow; rwn H (So x); try reflexivity.
    - destruct (call (Co c) new_span a) as [l r]; destruct r; try reflexivity. rwn H (So x). reflexivity.
    - destruct (call (Co c) clone_span a) as [l r]; destruct r; try reflexivity. rwn H (So x). reflexivity.
    - rewrite !(tie_S 1). unfold layered_sem at 1 3. crow. rwn H (So x). reflexivity.
  Qed.
  (** `register_callsite` is the one non-hint method of a `Layered` that looks at its flags (`inner_has_subscriber_filter`); the
      flag only matters when the inner side says `never`, and the one inner side that sets it - the `Registry` - says `always`. *)
  Lemma pick_res_flags : forall c o a,
    pick_interest_res (flags_of_root c) o (snd (rc_coll a c)) = pick_interest_res noflags o (snd (rc_coll a c)).
  Proof.
    intros c o a. unfold pick_interest_res. rewrite flags_hsf. cbn [hsf ihsf noflags]. pose proof (flags_ihsf_always a c) as HA.
    destruct (ihsf (flags_of_root c)); [rewrite (HA eq_refl); reflexivity|reflexivity].
  Qed.
  Lemma layered_rc_cong : forall s x y a, call (Co x) register_callsite a = call (Co y) register_callsite a ->
    call (Co (CLayered s x)) register_callsite a = call (Co (CLayered s y)) register_callsite a.
  Proof.
    intros s x y a H. rewrite !coll_unf_layered. tie3. unfold layered_sem at 1 3. crow.
    rewrite !(register_callsite_v v) in *. unfold rc_out in *. injection H as E1 E2. rewrite !flags_hsf.
    destruct (call (So s) register_callsite a) as [lo ro]. destruct ro; try reflexivity.
    destruct (negb false && is_never i); [reflexivity|]. rewrite (pick_res_flags x), (pick_res_flags y), E1, E2. reflexivity.
  Qed.

  Lemma cong_nh_layered_c : forall s x y, coq_nh (Co x) (Co y) -> coq_nh (Co (CLayered s x)) (Co (CLayered s y)).
  Proof.
    intros s x y H m a Hm. destruct (meth_eq_dec m register_callsite) as [->|Hrc]; [apply layered_rc_cong; apply H; reflexivity|].
    rewrite !coll_unf_layered. tie3. unfold layered_sem at 1 3.
    destruct m; try discriminate Hm; try congruence; crow; rwn H (Co x); try reflexivity.
    rewrite !(tie_S 1). unfold layered_sem at 1 3. crow. rwn H (Co x). reflexivity.
  Qed.
  Lemma cong_nh_cwrap : forall w x y, coq_nh (Co x) (Co y) -> coq_nh (Co (CWrap w x)) (Co (CWrap w y)).
  Proof. intros w x y H m a Hm. rewrite !cwrap_call by (apply cscope_nh_c; exact Hm). apply H; exact Hm. Qed.

  Lemma splug_nh : forall k x y, seq_nh (So x) (So y) -> seq_nh (So (splug k x)) (So (splug k y)).
  Proof.
    induction k; intros x y H; cbn [splug].
    - exact H.
    - apply cong_nh_swrap. apply IHk; exact H.
    - apply cong_nh_vec. apply IHk; exact H.
    - apply cong_nh_pair_o. apply IHk; exact H.
    - apply cong_nh_pair_i. apply IHk; exact H.
  Qed.
  Lemma cplug_nh : forall k x y, seq_nh (So x) (So y) -> coq_nh (Co (cplug k x)) (Co (cplug k y)).
  Proof.
    induction k; intros x y H; cbn [cplug].
    - apply cong_nh_layered_s. apply splug_nh; exact H.
    - apply cong_nh_cwrap. apply IHk; exact H.
    - apply cong_nh_layered_c. apply IHk; exact H.
  Qed.
  Lemma kplug_nh : forall k x y, coq_nh (Co x) (Co y) -> coq_nh (Co (kplug k x)) (Co (kplug k y)).
  Proof.
    induction k; intros x y H; cbn [kplug].
    - exact H.
    - apply cong_nh_cwrap. apply IHk; exact H.
    - apply cong_nh_layered_c. apply IHk; exact H.
  Qed.

  Lemma build_log_cplug_nh : forall k x y, seq_nh (So x) (So y) -> build_log (etb v) (cplug k x) = build_log (etb v) (cplug k y).
  Proof.
    induction k; intros x y H; cbn [cplug build_log].
    - rewrite (splug_nh k x y H on_subscribe arg0 eq_refl). reflexivity.
    - apply IHk; exact H.
    - rewrite (IHk x y H). reflexivity.
  Qed.

  Lemma run_op_nh : forall X Y o, coq_nh X Y -> no_hint_op o = true -> run_op (etb v) X o = run_op (etb v) Y o.
  Proof.
    intros X Y o H Ho. unfold run_op. destruct o; try discriminate Ho; cbn [op_call]; unfold dispatch_sem; crow; rwn H X; reflexivity.
  Qed.
  Lemma run_case_nh : forall c1 c2 ops, coq_nh (Co c1) (Co c2) -> build_log (etb v) c1 = build_log (etb v) c2 ->
    forallb no_hint_op ops = true -> run_case (etb v) c1 ops = run_case (etb v) c2 ops.
  Proof.
    intros c1 c2 ops H HB Ho. unfold run_case. rewrite HB. unfold dispatch_sem at 1 2. crow. rewrite (H on_register_dispatch arg0 eq_refl).
    f_equal. rewrite forallb_forall in Ho. apply map_ext_in. intros o Hin. apply run_op_nh; [exact H|apply Ho; exact Hin].
  Qed.

  (** ** an absent half of a pair, an absent element of a Vec *)
  Lemma absent_pair_o : forall z x, absent z = true -> seq_nh (So (SPair z x)) (So x).
  Proof.
    intros z x Ha m a Hm. pose proof (sub_typed v x m a (sscope_nh_s m Hm)) as HT.
    rewrite sub_unf_pair. tie3. unfold layered_sem at 1.
    destruct m; try discriminate Hm; crow; cbn [meth_name]; crow; rewrite ?(absent_call v z) by (exact Ha || reflexivity);
      cbn [fst id_res];
      destruct (call (sub_obj _ x) _ a) as [l r]; simpl in HT; destruct r; try discriminate HT; cbn [fst app is_sometimes];
      rewrite ?app_nil_r; try reflexivity.
    - destruct v; reflexivity.
    - destruct i; reflexivity.
  Qed.
  Lemma absent_pair_i : forall z x, absent z = true -> seq_nh (So (SPair x z)) (So x).
  Proof.
    intros z x Ha m a Hm. pose proof (sub_typed v x m a (sscope_nh_s m Hm)) as HT.
    rewrite sub_unf_pair. tie3. unfold layered_sem at 1.
    destruct m; try discriminate Hm; crow; cbn [meth_name]; crow; rewrite ?(absent_call v z) by (exact Ha || reflexivity);
      cbn [fst id_res];
      destruct (call (sub_obj _ x) _ a) as [l r]; simpl in HT; destruct r; try discriminate HT; cbn [fst app is_sometimes];
      rewrite ?app_nil_r; try reflexivity.
    - destruct v; reflexivity.
    - destruct i; reflexivity.
    - destruct b; rewrite ?app_nil_r; reflexivity.
    - destruct b; rewrite ?app_nil_r; reflexivity.
  Qed.

  Lemma vec_unit_skip : forall (pre post : list calls) z m a, fst (z m a) = [] -> vec_unit (pre ++ z :: post) m a = vec_unit (pre ++ post) m a.
  Proof. intros pre post z m a Hz. induction pre; cbn [app vec_unit]; [rewrite Hz; reflexivity|rewrite IHpre; reflexivity]. Qed.
  Lemma vec_all_skip : forall (pre post : list calls) z m a, z m a = ([], RBool true) -> vec_all (pre ++ z :: post) m a = vec_all (pre ++ post) m a.
  Proof.
    intros pre post z m a Hz. induction pre; cbn [app vec_all].
    - rewrite Hz. destruct (vec_all post m a); reflexivity.
    - rewrite IHpre. reflexivity.
  Qed.
  Lemma vec_interest_all_skip : forall (pre post : list calls) z m a p q, z m a = ([], RInt IAlways) ->
    vec_interest_all (pre ++ z :: post) m a p q = vec_interest_all (pre ++ post) m a p q.
  Proof.
    intros pre post z m a p q Hz. revert p q. induction pre; intros p q; cbn [app vec_interest_all].
    - rewrite Hz. cbn [is_never is_always]. rewrite orb_false_r, andb_true_r. destruct (vec_interest_all post m a p q); reflexivity.
    - destruct (a0 m a) as [l r]. destruct r; try reflexivity. rewrite IHpre. reflexivity.
  Qed.

  Lemma absent_vec_elem : forall pre post z, absent z = true -> seq_nh (So (SVec (pre ++ z :: post))) (So (SVec (pre ++ post))).
  Proof.
    intros pre post z Ha m a Hm. pose proof (absent_call v z m a Ha Hm) as Hz.
    rewrite !sub_unf_vec. tie3. unfold vec_sem at 1 3. rewrite !map_app. cbn [map].
    destruct m; try discriminate Hm; crow; cbn [id_res] in Hz;
      try (rewrite vec_unit_skip by (rewrite Hz; reflexivity); reflexivity);
      try (apply vec_all_skip; exact Hz).
    apply vec_interest_all_skip; exact Hz.
  Qed.
End V.

(** * The theorems (expected tables) *)
Theorem absent_layer_v : forall v K z c ops, absent z = true -> coll_has_layer c = true -> forallb no_hint_op ops = true ->
  run_case (etb v) (kplug K (CLayered z c)) ops = run_case (etb v) (kplug K c) ops.
Proof.
  intros v K z c ops Ha Hl Ho. apply run_case_nh; [| |exact Ho].
  - apply kplug_nh. intros m a Hm. apply absent_layer_call; [exact Ha|apply cscope_nh_c; exact Hm|intros _; exact Hl|intros _; apply has_layer_noflags; exact Hl].
  - apply build_log_kplug. cbn [build_log]. rewrite (absent_call v z on_subscribe arg0 Ha eq_refl). apply app_nil_r.
Qed.

(** On a bare root (no layer at all) the deprecated `drop_span` is the one difference: a `Layered` turns it into `try_close`. *)
Lemma absent_layer_nodrop : forall v K z c, absent z = true -> forall m a, cscope_nh m = true -> m <> drop_span ->
  call (coll_obj (etb v) (kplug K (CLayered z c))) m a = call (coll_obj (etb v) (kplug K c)) m a.
Proof.
  intros v K z c Ha. induction K; intros m a Hm Hn; cbn [kplug].
  - apply absent_layer_call; [exact Ha|apply cscope_nh_c; exact Hm|intro E; contradiction|intro E; subst m; discriminate Hm].
  - rewrite !cwrap_call by (apply cscope_nh_c; exact Hm). apply IHK; assumption.
  - destruct (meth_eq_dec m register_callsite) as [->|Hrc]; [apply layered_rc_cong; apply IHK; [reflexivity|discriminate]|].
    rewrite !coll_unf_layered. tie3. unfold layered_sem at 1 3.
    destruct m; try discriminate Hm; try congruence; crow;
      repeat match goal with |- context [call (coll_obj (etb v) (kplug K (CLayered z c))) ?m' ?a'] =>
               rewrite (IHK m' a' eq_refl) by discriminate end; reflexivity.
Qed.

Theorem absent_layer_bare_v : forall v K z c ops, absent z = true -> forallb no_hint_op ops = true -> forallb no_drop_op ops = true ->
  run_case (etb v) (kplug K (CLayered z c)) ops = run_case (etb v) (kplug K c) ops.
Proof.
  intros v K z c ops Ha Ho Hd. pose proof (absent_layer_nodrop v K z c Ha) as Hk. unfold run_case. f_equal; [f_equal|].
  - apply build_log_kplug. cbn [build_log]. rewrite (absent_call v z on_subscribe arg0 Ha eq_refl). apply app_nil_r.
  - unfold dispatch_sem. crow. rewrite (Hk on_register_dispatch arg0 eq_refl) by discriminate. reflexivity.
  - rewrite forallb_forall in Ho, Hd. apply map_ext_in. intros o Hin. specialize (Ho o Hin). specialize (Hd o Hin).
    unfold run_op. destruct o; try discriminate Ho; try discriminate Hd; cbn [op_call]; unfold dispatch_sem; crow;
      repeat match goal with |- context [call (coll_obj (etb v) (kplug K (CLayered z c))) ?m' ?a'] =>
               rewrite (Hk m' a' eq_refl) by discriminate end; reflexivity.
Qed.

Theorem absent_pair_v : forall v K z x ops, absent z = true -> forallb no_hint_op ops = true ->
  run_case (etb v) (cplug K (SPair z x)) ops = run_case (etb v) (cplug K x) ops /\
  run_case (etb v) (cplug K (SPair x z)) ops = run_case (etb v) (cplug K x) ops.
Proof.
  intros v K z x ops Ha Ho. split; apply run_case_nh; try exact Ho.
  - apply cplug_nh. apply absent_pair_o; exact Ha.
  - apply build_log_cplug_nh. apply absent_pair_o; exact Ha.
  - apply cplug_nh. apply absent_pair_i; exact Ha.
  - apply build_log_cplug_nh. apply absent_pair_i; exact Ha.
Qed.

Theorem absent_vec_elem_v : forall v K pre post z ops, absent z = true -> forallb no_hint_op ops = true ->
  run_case (etb v) (cplug K (SVec (pre ++ z :: post))) ops = run_case (etb v) (cplug K (SVec (pre ++ post))) ops.
Proof.
  intros v K pre post z ops Ha Ho. apply run_case_nh; try exact Ho.
  - apply cplug_nh. apply absent_vec_elem; exact Ha.
  - apply build_log_cplug_nh. apply absent_vec_elem; exact Ha.
Qed.

(** As the top layer (under any nest of Box / Arc collectors) an absent subscriber changes nothing at all, `max_level_hint` included. *)
Theorem absent_top_v : forall v ws z c ops, absent z = true -> coll_has_layer c = true ->
  run_case (etb v) (cwrap_nest ws (CLayered z c)) ops = run_case (etb v) (cwrap_nest ws c) ops.
Proof.
  intros v ws z c ops Ha Hl.
  assert (HC : forall m a, cscope m = true -> call (coll_obj (etb v) (cwrap_nest ws (CLayered z c))) m a = call (coll_obj (etb v) (cwrap_nest ws c)) m a).
  { induction ws as [|w ws IH]; intros m a Hm; cbn [cwrap_nest fold_right].
    - apply absent_layer_call; [exact Ha|exact Hm|intros _; exact Hl|intros _; apply has_layer_noflags; exact Hl].
    - rewrite !cwrap_call by exact Hm. apply IH; exact Hm. }
  unfold run_case. f_equal; [f_equal|].
  - rewrite !build_log_cwrap_nest. cbn [build_log]. rewrite (absent_call v z on_subscribe arg0 Ha eq_refl). apply app_nil_r.
  - unfold dispatch_sem. crow. rewrite (HC on_register_dispatch arg0 eq_refl). reflexivity.
  - apply map_ext. intro o. apply run_op_on. exact HC.
Qed.

(** * Finding F17: below another layer, an absent subscriber does change `max_level_hint` *)
Definition unhinted : beh := beh_of [] [] [] None 255 false.
Definition hinted (h : N) : beh := beh_of [] [] [] (Some h) 255 false.

(** root(OFF).with(L2).with(None).with(L1 unhinted): the stack's hint is `None` (everything) instead of `OFF`. *)
Lemma F17_more_permissive_v : forall v,
  let c := CLayered (SLeaf 2 unhinted) (CLeaf 0 (hinted 0)) in
  run_case (etb v) (kplug (KUnder (SLeaf 1 unhinted) KHole) (CLayered SNone c)) [OHint] <>
  run_case (etb v) (kplug (KUnder (SLeaf 1 unhinted) KHole) c) [OHint].
Proof. intros v c. destruct v; vm_compute; discriminate. Qed.

(** root(unhinted).with(L1(TRACE).and_then(None)).with(L2(INFO)): the stack's hint is INFO instead of TRACE — L1 loses DEBUG and TRACE. *)
Lemma F17_less_permissive_v : forall v,
  let K := CCUnder (SLeaf 2 (hinted 3)) (CCHere SHole (CLeaf 0 unhinted)) in
  run_case (etb v) (cplug K (SPair SNone (SLeaf 1 (hinted 5)))) [OHint] <> run_case (etb v) (cplug K (SLeaf 1 (hinted 5))) [OHint].
Proof. intros v K. destruct v; vm_compute; discriminate. Qed.

(** * `max_level_hint` below other layers: equal unless a collector level underneath a layer reports a genuine OFF
      (the "more permissive" half of F17 is exactly that case) *)
Fixpoint no_off (tb : tables) (K : kctx) (c : coll) : Prop :=
  match K with
  | KHole => True
  | KWrap _ K' => no_off tb K' c
  | KUnder _ K' => no_off tb K' c /\ forall a, snd (call (coll_obj tb (kplug K' c)) max_level_hint a) <> RHint (Some 0)
  end.

Lemma absent_layer_hint_call : forall v K z c, absent z = true -> coll_has_layer c = true -> no_off (etb v) K c ->
  (forall m a, cscope m = true -> call (coll_obj (etb v) (kplug K (CLayered z c))) m a = call (coll_obj (etb v) (kplug K c)) m a) /\
  is_none (coll_obj (etb v) (kplug K (CLayered z c))) = true.
Proof.
  intros v K z c Ha Hl. induction K; cbn [kplug no_off]; intro Hn.
  - split.
    + intros m a Hm. apply absent_layer_call; [exact Ha|exact Hm|intros _; exact Hl|intros _; apply has_layer_noflags; exact Hl].
    + rewrite layered_none, (absent_none v z Ha). reflexivity.
  - destruct (IHK Hn) as [HC HN]. split.
    + intros m a Hm. rewrite !cwrap_call by exact Hm. apply HC; exact Hm.
    + rewrite cwrap_none. exact HN.
  - destruct Hn as [Hn Hoff]. destruct (IHK Hn) as [HC HN]. split.
    + intros m a Hm. destruct (not_hint m) eqn:Eh.
      * apply cong_nh_layered_c; [|unfold cscope_nh; rewrite Hm, Eh; reflexivity].
        intros m' a' Hm'. apply HC. apply cscope_nh_c; exact Hm'.
      * destruct m; try discriminate Eh. specialize (Hoff a).
        rewrite !coll_unf_layered.
        replace (flags_of_root (kplug K (CLayered z c))) with noflags by (destruct K; reflexivity).
        replace (flags_of_root (kplug K c)) with noflags by (destruct K; cbn [kplug]; try reflexivity; symmetry; apply has_layer_noflags; exact Hl).
        tie3. unfold layered_sem at 1 3. crow. cbn [String.eqb Ascii.eqb Bool.eqb orb].
        rewrite (HC max_level_hint a eq_refl), HN.
        destruct (call (sub_obj (etb v) s) max_level_hint a) as [lo ro].
        destruct (call (coll_obj (etb v) (kplug K c)) max_level_hint a) as [li ri]. cbn [snd] in Hoff.
        destruct ro; try reflexivity. destruct ri; try reflexivity. unfold pick_level_hint. cbn [iir hsf ihsf noflags andb].
        destruct (is_none (sub_obj (etb v) s)); [reflexivity|]. cbn [andb].
        destruct h0 as [[|p]|]; [exfalso; apply Hoff; reflexivity| |]; rewrite ?andb_false_r; reflexivity.
    + rewrite layered_none, HN. apply orb_true_r.
Qed.

Theorem absent_layer_hint_v : forall v K z c ops, absent z = true -> coll_has_layer c = true -> no_off (etb v) K c ->
  run_case (etb v) (kplug K (CLayered z c)) ops = run_case (etb v) (kplug K c) ops.
Proof.
  intros v K z c ops Ha Hl Hn. destruct (absent_layer_hint_call v K z c Ha Hl Hn) as [HC _].
  unfold run_case. f_equal; [f_equal|].
  - apply build_log_kplug. cbn [build_log]. rewrite (absent_call v z on_subscribe arg0 Ha eq_refl). apply app_nil_r.
  - unfold dispatch_sem. crow. rewrite (HC on_register_dispatch arg0 eq_refl). reflexivity.
  - apply map_ext. intro o. apply run_op_on. exact HC.
Qed.
