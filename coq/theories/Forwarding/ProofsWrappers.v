(** C09 — proofs, part 2: typing, pass-through wrappers are transparent, in any context, for any workload (on the expected tables [etb v]). *)
From TV Require Import Forwarding.ProofsBase.
Local Open Scope N_scope.

Definition sscope (m : meth) : bool :=
  match m with
  | on_register_dispatch | on_subscribe | register_callsite | enabled | on_new_span | max_level_hint | on_record
  | on_follows_from | event_enabled | on_event | on_enter | on_exit | on_close | on_id_change => true
  | _ => false
  end.
Definition fscope (m : meth) : bool :=
  match m with
  | enabled | callsite_enabled | max_level_hint | event_enabled | on_new_span | on_record | on_enter | on_exit | on_close => true
  | _ => false
  end.
Definition cscope (m : meth) : bool :=
  match m with
  | on_register_dispatch | register_callsite | enabled | max_level_hint | new_span | record | record_follows_from
  | event_enabled | event | enter | exit | clone_span | drop_span | try_close | current_span => true
  | _ => false
  end.

Inductive rk := KU | KB | KI | KH | KId | KP.
Definition rkind (r : res) : rk :=
  match r with RUnit => KU | RBool _ => KB | RInt _ => KI | RHint _ => KH | RId _ => KId | RPoison => KP end.
Definition mkind (m : meth) : rk :=
  match m with
  | register_callsite | callsite_enabled => KI
  | enabled | event_enabled | try_close => KB
  | max_level_hint => KH
  | new_span | clone_span => KId
  | _ => KU
  end.
Definition typed (sc : meth -> bool) (f : calls) : Prop := forall m a, sc m = true -> rkind (snd (f m a)) = mkind m.

Lemma sub_unf_wrap tb w x : call (sub_obj tb (SWrap w x)) = tie FUEL (fwd_sem tb (swrap_w w) (call (sub_obj tb x))).
Proof. reflexivity. Qed.
Lemma sub_unf_none tb : call (sub_obj tb SNone) = tie FUEL (none_sem tb WOptionS).
Proof. reflexivity. Qed.
Lemma sub_unf_vec tb xs : call (sub_obj tb (SVec xs)) = tie FUEL (vec_sem tb (map call (map (sub_obj tb) xs))).
Proof. reflexivity. Qed.
Lemma sub_unf_pair tb o i : call (sub_obj tb (SPair o i)) = tie FUEL (layered_sem tb WLayeredS noflags (sub_obj tb o) (sub_obj tb i)).
Proof. reflexivity. Qed.
Lemma sub_unf_id tb : call (sub_obj tb SIdentity) = tie FUEL (fwd_sem tb WIdentityS (fun _ _ => poison)).
Proof. reflexivity. Qed.
Lemma sub_unf_probe tb f : call (sub_obj tb (SProbe f)) = probe_sem (call (filt_obj tb f)).
Proof. reflexivity. Qed.
Lemma filt_unf_wrap tb w x : call (filt_obj tb (FWrap w x)) = tie FUEL (fwd_sem tb (fwrap_w w) (call (filt_obj tb x))).
Proof. reflexivity. Qed.
Lemma coll_unf_wrap tb w c : call (coll_obj tb (CWrap w c)) = tie FUEL (fwd_sem tb (cwrap_w w) (call (coll_obj tb c))).
Proof. reflexivity. Qed.
Lemma coll_unf_layered tb s c : call (coll_obj tb (CLayered s c)) = tie FUEL (layered_sem tb WLayeredC (flags_of_root c) (sub_obj tb s) (coll_obj tb c)).
Proof. reflexivity. Qed.

Lemma tie_S : forall n f, tie (S n) f = f (tie n f).
Proof. reflexivity. Qed.
Ltac rwc H X := repeat match goal with |- context [call X ?m ?a] => rewrite (H m a eq_refl) end.
Ltac tie3 := unfold FUEL; repeat rewrite (tie_S 2).

(** ** pass-through wrappers: one call, same method *)
Lemma fwrap_call : forall v w x m a, fscope m = true ->
  call (filt_obj (etb v) (FWrap w x)) m a = call (filt_obj (etb v) x) m a.
Proof.
  intros v w x m a H. rewrite filt_unf_wrap. tie3. unfold fwd_sem at 1.
  destruct w, m; try discriminate H; cbn [fwrap_w]; crow; reflexivity.
Qed.
Lemma swrap_call : forall v w x m a, sscope m = true ->
  call (sub_obj (etb v) (SWrap w x)) m a = call (sub_obj (etb v) x) m a.
Proof.
  intros v w x m a H. rewrite sub_unf_wrap. tie3. unfold fwd_sem at 1.
  destruct w, m; try discriminate H; cbn [swrap_w]; crow; reflexivity.
Qed.
Lemma cwrap_call : forall v w x m a, cscope m = true ->
  call (coll_obj (etb v) (CWrap w x)) m a = call (coll_obj (etb v) x) m a.
Proof.
  intros v w x m a H. rewrite coll_unf_wrap. tie3. unfold fwd_sem at 1.
  destruct w, m; try discriminate H; cbn [cwrap_w]; crow; reflexivity.
Qed.
Lemma swrap_none : forall v w x, is_none (sub_obj (etb v) (SWrap w x)) = is_none (sub_obj (etb v) x).
Proof. intros v w x. cbn [sub_obj is_none]. unfold none_through. destruct w; cbn [swrap_w]; crow; reflexivity. Qed.
Lemma cwrap_none : forall v w x, is_none (coll_obj (etb v) (CWrap w x)) = is_none (coll_obj (etb v) x).
Proof. intros v w x. cbn [coll_obj is_none]. unfold none_through. destruct w; cbn [cwrap_w]; crow; reflexivity. Qed.

(** ** typing *)
Lemma filt_typed : forall v f, typed fscope (call (filt_obj (etb v) f)).
Proof.
  intros v f. induction f; intros m a H.
  - destruct m; try discriminate H; reflexivity.
  - rewrite fwrap_call by exact H. apply IHf; exact H.
  - destruct v, m; try discriminate H; vm_compute; reflexivity.
Qed.

Lemma vec_all_kind : forall xs m a, Forall (fun x : calls => rkind (snd (x m a)) = KB) xs -> rkind (snd (vec_all xs m a)) = KB.
Proof.
  induction 1; simpl; [reflexivity|]. destruct (x m a) as [lg r]. simpl in H. destruct r; try discriminate H.
  destruct b; [|reflexivity]. destruct (vec_all l m a); exact IHForall.
Qed.
Lemma vec_interest_kind : forall xs m a acc, Forall (fun x : calls => rkind (snd (x m a)) = KI) xs -> rkind (snd (vec_interest xs m a acc)) = KI.
Proof.
  intros xs m a acc H. revert acc. induction H; intro acc; simpl; [reflexivity|]. destruct (x m a) as [lg r]. simpl in H.
  destruct r; try discriminate H.
  match goal with |- context [vec_interest l m a ?acc'] => specialize (IHForall acc'); destruct (vec_interest l m a acc') end. exact IHForall.
Qed.
Lemma vec_interest_all_kind : forall xs m a p q, Forall (fun x : calls => rkind (snd (x m a)) = KI) xs -> rkind (snd (vec_interest_all xs m a p q)) = KI.
Proof.
  intros xs m a p q H. revert p q. induction H; intros p q; simpl; [reflexivity|]. destruct (x m a) as [lg r]. simpl in H.
  destruct r; try discriminate H.
  match goal with |- context [vec_interest_all l m a ?p' ?q'] => specialize (IHForall p' q'); destruct (vec_interest_all l m a p' q') end. exact IHForall.
Qed.
Lemma vec_hint_kind : forall xs m a acc, Forall (fun x : calls => rkind (snd (x m a)) = KH) xs -> rkind (snd (vec_hint xs m a acc)) = KH.
Proof.
  intros xs m a acc H. revert acc. induction H; intro acc; simpl; [reflexivity|]. destruct (x m a) as [lg r]. simpl in H.
  destruct r; try discriminate H. destruct h; [|reflexivity].
  match goal with |- context [vec_hint l m a ?acc'] => specialize (IHForall acc'); destruct (vec_hint l m a acc') end. exact IHForall.
Qed.

Lemma Forall_map_calls : forall (P : calls -> Prop) tb xs, Forall (fun s => P (call (sub_obj tb s))) xs -> Forall P (map call (map (sub_obj tb) xs)).
Proof. induction 1; simpl; constructor; assumption. Qed.

Lemma sub_typed : forall v s, typed sscope (call (sub_obj (etb v) s)).
Proof.
  intros v s. induction s using sub_ind'; intros m a Hm.
  - destruct m; try discriminate Hm; reflexivity.
  - rewrite swrap_call by exact Hm. apply IHs; exact Hm.
  - destruct v, m; try discriminate Hm; vm_compute; reflexivity.
  - assert (HF : Forall (fun x : calls => rkind (snd (x m a)) = mkind m) (map call (map (sub_obj (etb v)) xs))).
    { apply Forall_map_calls. eapply Forall_impl; [|exact H]. intros s0 Hs0. apply Hs0; exact Hm. }
    rewrite sub_unf_vec. tie3. unfold vec_sem at 1.
    destruct v, m; try discriminate Hm; crow; try reflexivity;
      try (apply vec_all_kind; exact HF); try (apply vec_interest_all_kind; exact HF); try (apply vec_hint_kind; exact HF).
  - pose proof (IHs1 m a Hm) as H1. pose proof (IHs2 m a Hm) as H2.
    rewrite sub_unf_pair. tie3. unfold layered_sem at 1.
    destruct m; try discriminate Hm; crow; cbn [meth_name]; crow; try reflexivity.
    + destruct (call (sub_obj (etb v) s1) register_callsite a) as [lo ro]. simpl in H1. destruct ro; try discriminate H1.
      destruct (call (sub_obj (etb v) s2) register_callsite a) as [li ri]. simpl in H2. destruct ri; try discriminate H2.
      destruct i; reflexivity.
    + destruct (call (sub_obj (etb v) s1) enabled a) as [lo ro]. simpl in H1. destruct ro; try discriminate H1.
      destruct (call (sub_obj (etb v) s2) enabled a) as [li ri]. simpl in H2. destruct b; [exact H2|reflexivity].
    + cbn [String.eqb Ascii.eqb Bool.eqb orb]. 
      destruct (call (sub_obj (etb v) s1) max_level_hint a) as [lo ro]. simpl in H1. destruct ro; try discriminate H1.
      destruct (call (sub_obj (etb v) s2) max_level_hint a) as [li ri]. simpl in H2. destruct ri; try discriminate H2. reflexivity.
    + destruct (call (sub_obj (etb v) s1) event_enabled a) as [lo ro]. simpl in H1. destruct ro; try discriminate H1.
      destruct (call (sub_obj (etb v) s2) event_enabled a) as [li ri]. simpl in H2. destruct b; [exact H2|reflexivity].
  - destruct v, m; try discriminate Hm; vm_compute; reflexivity.
  - rewrite sub_unf_probe. unfold probe_sem. pose proof (filt_typed v f) as HF.
    destruct m; try discriminate Hm; try reflexivity; try (apply HF; reflexivity).
    change (mkind register_callsite) with (mkind callsite_enabled). apply HF; reflexivity.
Qed.

Lemma coll_typed : forall v c, typed cscope (call (coll_obj (etb v) c)).
Proof.
  intros v c. induction c; intros m a Hm.
  - destruct m; try discriminate Hm; reflexivity.
  - rewrite cwrap_call by exact Hm. apply IHc; exact Hm.
  - rewrite coll_unf_layered. tie3. unfold layered_sem at 1.
    pose proof (sub_typed v s) as HS.
    destruct m; try discriminate Hm; crow; try reflexivity.
    + pose proof (HS register_callsite a eq_refl) as H1. pose proof (IHc register_callsite a eq_refl) as H2.
      destruct (call (sub_obj (etb v) s) register_callsite a) as [lo ro]. simpl in H1. destruct ro; try discriminate H1.
      destruct (call (coll_obj (etb v) c) register_callsite a) as [li ri]. simpl in H2. destruct ri; try discriminate H2.
      match goal with |- context [if ?b then _ else _] => destruct b end; reflexivity.
    + pose proof (HS enabled a eq_refl) as H1. pose proof (IHc enabled a eq_refl) as H2.
      destruct (call (sub_obj (etb v) s) enabled a) as [lo ro]. simpl in H1. destruct ro; try discriminate H1.
      destruct (call (coll_obj (etb v) c) enabled a) as [li ri]. simpl in H2. destruct b; [exact H2|reflexivity].
    + cbn [String.eqb Ascii.eqb Bool.eqb orb].
      pose proof (HS max_level_hint a eq_refl) as H1. pose proof (IHc max_level_hint a eq_refl) as H2.
      destruct (call (sub_obj (etb v) s) max_level_hint a) as [lo ro]. simpl in H1. destruct ro; try discriminate H1.
      destruct (call (coll_obj (etb v) c) max_level_hint a) as [li ri]. simpl in H2. destruct ri; try discriminate H2. reflexivity.
    + pose proof (IHc new_span a eq_refl) as H2.
      destruct (call (coll_obj (etb v) c) new_span a) as [li ri]. simpl in H2. destruct ri; try discriminate H2. reflexivity.
    + pose proof (HS event_enabled a eq_refl) as H1. pose proof (IHc event_enabled a eq_refl) as H2.
      destruct (call (sub_obj (etb v) s) event_enabled a) as [lo ro]. simpl in H1. destruct ro; try discriminate H1.
      destruct (call (coll_obj (etb v) c) event_enabled a) as [li ri]. simpl in H2. destruct b; [exact H2|reflexivity].
    + pose proof (IHc clone_span a eq_refl) as H2.
      destruct (call (coll_obj (etb v) c) clone_span a) as [li ri]. simpl in H2. destruct ri; try discriminate H2.
      destruct (n =? a_id a); reflexivity.
    + pose proof (IHc try_close a eq_refl) as H2.
      destruct (call (coll_obj (etb v) c) try_close a) as [li ri]. simpl in H2. destruct ri; try discriminate H2.
      destruct b; reflexivity.
    + apply IHc; reflexivity.
Qed.

(** ** a one-element Vec and an Identity pairing are pass-through as well *)
Lemma app_nil_pair : forall (l : list entry) (r : res), (l ++ [], r) = (l, r).
Proof. intros. rewrite app_nil_r. reflexivity. Qed.

Lemma vec1_call : forall v x m a, sscope m = true ->
  call (sub_obj (etb v) (SVec [x])) m a = call (sub_obj (etb v) x) m a.
Proof.
  intros v x m a Hm. pose proof (sub_typed v x m a Hm) as HT.
  rewrite sub_unf_vec. tie3. unfold vec_sem at 1. cbn [map].
  destruct v, m; try discriminate Hm; crow; cbn [vec_unit vec_all vec_interest_all vec_hint];
    destruct (call (sub_obj _ x) _ a) as [l r]; simpl in HT; destruct r; try discriminate HT; cbn [fst];
    try (rewrite app_nil_r; reflexivity);
    try (destruct b; [rewrite app_nil_r|]; reflexivity);
    try (destruct i; cbn; rewrite app_nil_r; reflexivity);
    try (destruct h; [rewrite app_nil_r, N.max_0_r|]; reflexivity).
Qed.
Lemma vec1_none : forall v x, is_none (sub_obj (etb v) (SVec [x])) = is_none (sub_obj (etb v) x).
Proof. intros v x. cbn [sub_obj is_none map]. unfold none_vec. destruct v; crow; cbn [existsb]; apply orb_false_r. Qed.

Definition id_res (m : meth) : res :=
  match m with
  | register_callsite => RInt IAlways | enabled | event_enabled => RBool true | max_level_hint => RHint None | _ => RUnit
  end.
Lemma id_call : forall v m a, sscope m = true -> call (sub_obj (etb v) SIdentity) m a = ([], id_res m).
Proof. intros v m a H. destruct v, m; try discriminate H; vm_compute; reflexivity. Qed.
Lemma id_none : forall v, is_none (sub_obj (etb v) SIdentity) = false.
Proof. destruct v; vm_compute; reflexivity. Qed.

Lemma pair_none : forall v o i, is_none (sub_obj (etb v) (SPair o i)) = is_none (sub_obj (etb v) o) || is_none (sub_obj (etb v) i).
Proof. intros. cbn [sub_obj is_none]. unfold none_layered. crow. reflexivity. Qed.

Lemma id_outer_call : forall v x m a, sscope m = true -> (m = max_level_hint -> is_none (sub_obj (etb v) x) = false) ->
  call (sub_obj (etb v) (SPair SIdentity x)) m a = call (sub_obj (etb v) x) m a.
Proof.
  intros v x m a Hm Hn. pose proof (sub_typed v x m a Hm) as HT.
  rewrite sub_unf_pair. tie3. unfold layered_sem at 1.
  destruct m; try discriminate Hm; crow; cbn [meth_name]; crow; rewrite ?id_call by reflexivity; cbn [fst id_res];
    cbn [String.eqb Ascii.eqb Bool.eqb orb]; rewrite ?id_call by reflexivity; rewrite ?id_none; try rewrite (Hn eq_refl);
    destruct (call (sub_obj _ x) _ a) as [l r]; simpl in HT; destruct r; try discriminate HT; cbn [fst app is_sometimes];
    rewrite ?app_nil_r; try reflexivity.
  - destruct v; reflexivity.
  - destruct i; reflexivity.
Qed.

Lemma id_inner_call : forall v x m a, sscope m = true -> (m = max_level_hint -> is_none (sub_obj (etb v) x) = false) ->
  call (sub_obj (etb v) (SPair x SIdentity)) m a = call (sub_obj (etb v) x) m a.
Proof.
  intros v x m a Hm Hn. pose proof (sub_typed v x m a Hm) as HT.
  rewrite sub_unf_pair. tie3. unfold layered_sem at 1.
  destruct m; try discriminate Hm; crow; cbn [meth_name]; crow; rewrite ?id_call by reflexivity; cbn [fst id_res];
    cbn [String.eqb Ascii.eqb Bool.eqb orb]; rewrite ?id_call by reflexivity; rewrite ?id_none; try rewrite (Hn eq_refl);
    destruct (call (sub_obj _ x) _ a) as [l r]; simpl in HT; destruct r; try discriminate HT; cbn [fst app is_sometimes];
    rewrite ?app_nil_r; try reflexivity.
  - destruct v; reflexivity.
  - destruct i; reflexivity.
  - destruct b; rewrite ?app_nil_r; reflexivity.
  - unfold pick_level_hint. cbn. destruct h; reflexivity.
  - destruct b; rewrite ?app_nil_r; reflexivity.
Qed.

(** ** observational equality on a trait's methods *)
Definition seq_on (X Y : obj) : Prop := (forall m a, sscope m = true -> call X m a = call Y m a) /\ is_none X = is_none Y.
Definition coq_on (X Y : obj) : Prop := (forall m a, cscope m = true -> call X m a = call Y m a) /\ is_none X = is_none Y.
Definition feq_on (X Y : obj) : Prop := forall m a, fscope m = true -> call X m a = call Y m a.

Lemma seq_on_refl X : seq_on X X. Proof. split; reflexivity. Qed.
Lemma seq_on_trans X Y Z : seq_on X Y -> seq_on Y Z -> seq_on X Z.
Proof. intros [H1 N1] [H2 N2]. split; [intros; rewrite H1, H2 by assumption; reflexivity|congruence]. Qed.
Lemma coq_on_refl X : coq_on X X. Proof. split; reflexivity. Qed.
Lemma coq_on_trans X Y Z : coq_on X Y -> coq_on Y Z -> coq_on X Z.
Proof. intros [H1 N1] [H2 N2]. split; [intros; rewrite H1, H2 by assumption; reflexivity|congruence]. Qed.

(** The provided pass-through wrappers of a subscriber. *)
Inductive swrapper := PW (w : swrap) | PVec1 | PIdOuter | PIdInner.
Definition apply_sw (p : swrapper) (x : sub) : sub :=
  match p with PW w => SWrap w x | PVec1 => SVec [x] | PIdOuter => SPair SIdentity x | PIdInner => SPair x SIdentity end.
Definition uses_id (p : swrapper) : bool := match p with PIdOuter | PIdInner => true | _ => false end.
Definition wrap_nest (ps : list swrapper) (x : sub) : sub := fold_right apply_sw x ps.
Definition fwrap_nest (ws : list fwrap) (f : filt) : filt := fold_right FWrap f ws.
Definition cwrap_nest (ws : list cwrap) (c : coll) : coll := fold_right CWrap c ws.

Section V.
  Variable v : bool.
  Local Notation tb := (etb v).
  Local Notation So := (sub_obj (etb v)).
  Local Notation Co := (coll_obj (etb v)).
  Local Notation Fo := (filt_obj (etb v)).

  Lemma apply_sw_on : forall p x, (uses_id p = true -> is_none (So x) = false) -> seq_on (So (apply_sw p x)) (So x).
  Proof.
    intros p x Hn. destruct p; cbn [apply_sw]; split.
    - intros. apply swrap_call; assumption.
    - apply swrap_none.
    - intros. apply vec1_call; assumption.
    - apply vec1_none.
    - intros. apply id_outer_call; [assumption|intros _; apply Hn; reflexivity].
    - rewrite pair_none, id_none. reflexivity.
    - intros. apply id_inner_call; [assumption|intros _; apply Hn; reflexivity].
    - rewrite pair_none, id_none. apply orb_false_r.
  Qed.

  Lemma wrap_nest_on : forall ps x, (existsb uses_id ps = true -> is_none (So x) = false) -> seq_on (So (wrap_nest ps x)) (So x).
  Proof.
    induction ps as [|p ps IH]; intros x Hn.
    - apply seq_on_refl.
    - change (wrap_nest (p :: ps) x) with (apply_sw p (wrap_nest ps x)).
      assert (IH' : seq_on (So (wrap_nest ps x)) (So x)).
      { apply IH. intro H. apply Hn. cbn [existsb]. rewrite H. apply orb_true_r. }
      eapply seq_on_trans; [|exact IH']. apply apply_sw_on. intro Hp. destruct IH' as [_ Hnn]. rewrite Hnn.
      apply Hn. cbn [existsb]. rewrite Hp. reflexivity.
  Qed.

  Lemma fwrap_nest_on : forall ws f, feq_on (Fo (fwrap_nest ws f)) (Fo f).
  Proof.
    induction ws as [|w ws IH]; intros f m a Hm; cbn [fwrap_nest fold_right]; [reflexivity|].
    rewrite fwrap_call by exact Hm. apply IH; exact Hm.
  Qed.

  Lemma cwrap_nest_on : forall ws c, coq_on (Co (cwrap_nest ws c)) (Co c).
  Proof.
    induction ws as [|w ws IH]; intros c; cbn [cwrap_nest fold_right]; [apply coq_on_refl|].
    eapply coq_on_trans; [|apply IH]. split; [intros; apply cwrap_call; assumption|apply cwrap_none].
  Qed.

  (** *** congruence: what a node does depends on its children only through their in-scope behaviour *)
  Lemma cong_probe : forall f g, feq_on (Fo f) (Fo g) -> seq_on (So (SProbe f)) (So (SProbe g)).
  Proof.
    intros f g H. split; [|reflexivity]. intros m a Hm. rewrite !sub_unf_probe. unfold probe_sem.
    destruct m; try discriminate Hm; try reflexivity; apply H; reflexivity.
  Qed.

  Lemma cong_swrap : forall w x y, seq_on (So x) (So y) -> seq_on (So (SWrap w x)) (So (SWrap w y)).
  Proof.
    intros w x y [H N]. split.
    - intros. rewrite !swrap_call by assumption. apply H; assumption.
    - rewrite !swrap_none. exact N.
  Qed.

  Definition ceq_at (m : meth) (f g : calls) : Prop := forall a, f m a = g m a.
  Lemma vec_unit_at : forall m xs ys, Forall2 (ceq_at m) xs ys -> forall a, vec_unit xs m a = vec_unit ys m a.
  Proof. induction 1; intros; simpl; [reflexivity|]. rewrite H, IHForall2. reflexivity. Qed.
  Lemma vec_all_at : forall m xs ys, Forall2 (ceq_at m) xs ys -> forall a, vec_all xs m a = vec_all ys m a.
  Proof. induction 1; intros; simpl; [reflexivity|]. rewrite H, IHForall2. reflexivity. Qed.
  Lemma vec_interest_at : forall m xs ys, Forall2 (ceq_at m) xs ys -> forall a acc, vec_interest xs m a acc = vec_interest ys m a acc.
  Proof.
    induction 1; intros; simpl; [reflexivity|]. rewrite H. destruct (y m a) as [lg rs]. destruct rs; try reflexivity.
    rewrite IHForall2. reflexivity.
  Qed.
  Lemma vec_interest_all_at : forall m xs ys, Forall2 (ceq_at m) xs ys -> forall a p q, vec_interest_all xs m a p q = vec_interest_all ys m a p q.
  Proof.
    induction 1; intros; simpl; [reflexivity|]. rewrite H. destruct (y m a) as [lg rs]. destruct rs; try reflexivity.
    rewrite IHForall2. reflexivity.
  Qed.
  Lemma vec_hint_at : forall m xs ys, Forall2 (ceq_at m) xs ys -> forall a acc, vec_hint xs m a acc = vec_hint ys m a acc.
  Proof.
    induction 1; intros; simpl; [reflexivity|]. rewrite H. destruct (y m a) as [lg rs]. destruct rs; try reflexivity.
    destruct h; try reflexivity. rewrite IHForall2. reflexivity.
  Qed.

  Lemma cong_vec : forall pre post x y, seq_on (So x) (So y) ->
    seq_on (So (SVec (pre ++ x :: post))) (So (SVec (pre ++ y :: post))).
  Proof.
    intros pre post x y [H N]. split.
    - intros m a Hm.
      assert (HF : Forall2 (ceq_at m) (map call (map So (pre ++ x :: post))) (map call (map So (pre ++ y :: post)))).
      { induction pre; simpl; constructor; try assumption; try (intro; reflexivity).
        - intro a0. apply H; exact Hm.
        - clear. induction post; simpl; constructor; [intro; reflexivity|assumption]. }
      rewrite !sub_unf_vec. tie3. unfold vec_sem at 1 3.
      destruct v, m; try discriminate Hm; crow;
        try (rewrite (vec_unit_at _ _ _ HF); reflexivity); try (apply vec_all_at; exact HF);
        try (apply vec_interest_all_at; exact HF); try (apply vec_hint_at; exact HF).
    - cbn [sub_obj is_none].
      assert (HM : map is_none (map So (pre ++ x :: post)) = map is_none (map So (pre ++ y :: post))).
      { rewrite !map_app. cbn [map]. rewrite N. reflexivity. }
      rewrite HM. reflexivity.
  Qed.
End V.

Section V2.
  Variable v : bool.
  Local Notation tb := (etb v).
  Local Notation So := (sub_obj (etb v)).
  Local Notation Co := (coll_obj (etb v)).



  Lemma cong_pair_o : forall i x y, seq_on (So x) (So y) -> seq_on (So (SPair x i)) (So (SPair y i)).
  Proof.
    intros i x y [H N]. split.
    - intros m a Hm. rewrite !sub_unf_pair. tie3. unfold layered_sem at 1 3.
      destruct m; try discriminate Hm; crow; cbn [meth_name]; crow; rewrite ?N; rwc H (So x); reflexivity.
    - rewrite !pair_none, N. reflexivity.
  Qed.
  Lemma cong_pair_i : forall o x y, seq_on (So x) (So y) -> seq_on (So (SPair o x)) (So (SPair o y)).
  Proof.
    intros o x y [H N]. split.
    - intros m a Hm. rewrite !sub_unf_pair. tie3. unfold layered_sem at 1 3.
      destruct m; try discriminate Hm; crow; cbn [meth_name]; crow; rewrite ?N; rwc H (So x); reflexivity.
    - rewrite !pair_none, N. reflexivity.
  Qed.

  Lemma layered_none : forall s c, is_none (Co (CLayered s c)) = is_none (So s) || is_none (Co c).
  Proof. intros. cbn [coll_obj is_none]. unfold none_layered. crow. reflexivity. Qed.

  Lemma cong_layered_s : forall c x y, seq_on (So x) (So y) -> coq_on (Co (CLayered x c)) (Co (CLayered y c)).
  Proof.
    intros c x y [H N]. split.
    - intros m a Hm. rewrite !coll_unf_layered. tie3. unfold layered_sem at 1 3.
      destruct m; try discriminate Hm; crow; rewrite ?N; rwc H (So x); try reflexivity.
      + destruct (call (Co c) new_span a) as [l r]; destruct r; try reflexivity. rwc H (So x). reflexivity.
      + destruct (call (Co c) clone_span a) as [l r]; destruct r; try reflexivity. rwc H (So x). reflexivity.
      + rewrite !(tie_S 1). unfold layered_sem at 1 3. crow. rwc H (So x). reflexivity.
    - rewrite !layered_none, N. reflexivity.
  Qed.
  (** the `Layered` above looks at the TYPE of its inner collector (`inner_is_registry`): both sides must agree on it *)
  Lemma cong_layered_c : forall s x y, coq_on (Co x) (Co y) -> flags_of_root x = flags_of_root y ->
    coq_on (Co (CLayered s x)) (Co (CLayered s y)).
  Proof.
    intros s x y [H N] HF. split.
    - intros m a Hm. rewrite !coll_unf_layered, HF. tie3. unfold layered_sem at 1 3.
      destruct m; try discriminate Hm; crow; rewrite ?N; rwc H (Co x); try reflexivity.
      rewrite !(tie_S 1). unfold layered_sem at 1 3. crow. rwc H (Co x). reflexivity.
    - rewrite !layered_none, N. reflexivity.
  Qed.
  Lemma cong_cwrap : forall w x y, coq_on (Co x) (Co y) -> coq_on (Co (CWrap w x)) (Co (CWrap w y)).
  Proof.
    intros w x y [H N]. split.
    - intros. rewrite !cwrap_call by assumption. apply H; assumption.
    - rewrite !cwrap_none. exact N.
  Qed.
End V2.

(** ** contexts: "any element of any stack" *)
Inductive sctx :=
| SHole
| SCWrap (w : swrap) (k : sctx)
| SCVec (pre : list sub) (k : sctx) (post : list sub)
| SCPairO (k : sctx) (i : sub)
| SCPairI (o : sub) (k : sctx).
Fixpoint splug (k : sctx) (x : sub) : sub :=
  match k with
  | SHole => x
  | SCWrap w k' => SWrap w (splug k' x)
  | SCVec pre k' post => SVec (pre ++ splug k' x :: post)
  | SCPairO k' i => SPair (splug k' x) i
  | SCPairI o k' => SPair o (splug k' x)
  end.
(** a collector with a hole for one of its subscribers ... *)
Inductive cctx :=
| CCHere (k : sctx) (c : coll)            (* c.with(k[.]) *)
| CCWrap (w : cwrap) (k : cctx)
| CCUnder (s : sub) (k : cctx).           (* k[.].with(s) *)
Fixpoint cplug (k : cctx) (x : sub) : coll :=
  match k with
  | CCHere k' c => CLayered (splug k' x) c
  | CCWrap w k' => CWrap w (cplug k' x)
  | CCUnder s k' => CLayered s (cplug k' x)
  end.
(** ... or for a collector *)
Inductive kctx := KHole | KWrap (w : cwrap) (k : kctx) | KUnder (s : sub) (k : kctx).
Fixpoint kplug (k : kctx) (c : coll) : coll :=
  match k with KHole => c | KWrap w k' => CWrap w (kplug k' c) | KUnder s k' => CLayered s (kplug k' c) end.

Section V3.
  Variable v : bool.
  Local Notation tb := (etb v).
  Local Notation So := (sub_obj (etb v)).
  Local Notation Co := (coll_obj (etb v)).

  Lemma splug_on : forall k x y, seq_on (So x) (So y) -> seq_on (So (splug k x)) (So (splug k y)).
  Proof.
    induction k; intros x y H; cbn [splug].
    - exact H.
    - apply cong_swrap. apply IHk; exact H.
    - apply cong_vec. apply IHk; exact H.
    - apply cong_pair_o. apply IHk; exact H.
    - apply cong_pair_i. apply IHk; exact H.
  Qed.
  Lemma cplug_flags : forall k x y, flags_of_root (cplug k x) = flags_of_root (cplug k y).
  Proof. destruct k; reflexivity. Qed.
  Lemma kplug_flags : forall k x y, flags_of_root x = flags_of_root y -> flags_of_root (kplug k x) = flags_of_root (kplug k y).
  Proof. destruct k; intros x y H; cbn [kplug]; [exact H|reflexivity|reflexivity]. Qed.

  Lemma cplug_on : forall k x y, seq_on (So x) (So y) -> coq_on (Co (cplug k x)) (Co (cplug k y)).
  Proof.
    induction k; intros x y H; cbn [cplug].
    - apply cong_layered_s. apply splug_on; exact H.
    - apply cong_cwrap. apply IHk; exact H.
    - apply cong_layered_c; [apply IHk; exact H|apply cplug_flags].
  Qed.
  Lemma kplug_on : forall k x y, coq_on (Co x) (Co y) -> flags_of_root x = flags_of_root y -> coq_on (Co (kplug k x)) (Co (kplug k y)).
  Proof.
    induction k; intros x y H HF; cbn [kplug].
    - exact H.
    - apply cong_cwrap. apply IHk; assumption.
    - apply cong_layered_c; [apply IHk; assumption|apply kplug_flags; exact HF].
  Qed.

  Lemma build_log_cplug : forall k x y, seq_on (So x) (So y) -> build_log tb (cplug k x) = build_log tb (cplug k y).
  Proof.
    induction k; intros x y H; cbn [cplug build_log].
    - destruct (splug_on k x y H) as [Hc _]. rewrite (Hc on_subscribe arg0 eq_refl). reflexivity.
    - apply IHk; exact H.
    - rewrite (IHk x y H). reflexivity.
  Qed.
  Lemma build_log_kplug : forall k x y, build_log tb x = build_log tb y -> build_log tb (kplug k x) = build_log tb (kplug k y).
  Proof. induction k; intros x y H; cbn [kplug build_log]; [exact H|apply IHk; exact H|rewrite (IHk x y H); reflexivity]. Qed.
  Lemma build_log_cwrap_nest : forall ws c, build_log tb (cwrap_nest ws c) = build_log tb c.
  Proof. induction ws; intro c; cbn [cwrap_nest fold_right build_log]; [reflexivity|apply IHws]. Qed.

  Lemma run_op_on : forall X Y o, (forall m a, cscope m = true -> call X m a = call Y m a) -> run_op tb X o = run_op tb Y o.
  Proof.
    intros X Y o H. unfold run_op. destruct o; cbn [op_call]; unfold dispatch_sem; crow; rwc H X; reflexivity.
  Qed.

  Lemma run_case_on : forall c1 c2 ops, coq_on (Co c1) (Co c2) -> build_log tb c1 = build_log tb c2 ->
    run_case tb c1 ops = run_case tb c2 ops.
  Proof.
    intros c1 c2 ops [H _] HB. unfold run_case. rewrite HB. unfold dispatch_sem at 1 2. crow. rewrite (H on_register_dispatch arg0 eq_refl).
    f_equal. apply map_ext. intro o. apply run_op_on. exact H.
  Qed.
End V3.

(** ** the wrapper theorems, for the expected tables *)
Theorem wrappers_transparent_v : forall v K ps x ops,
  (existsb uses_id ps = true -> is_none (sub_obj (etb v) x) = false) ->
  run_case (etb v) (cplug K (wrap_nest ps x)) ops = run_case (etb v) (cplug K x) ops.
Proof.
  intros v K ps x ops Hn. pose proof (wrap_nest_on v ps x Hn) as H.
  apply run_case_on; [apply cplug_on; exact H|apply build_log_cplug; exact H].
Qed.

Theorem filter_wrappers_transparent_v : forall v K ws f ops,
  run_case (etb v) (cplug K (SProbe (fwrap_nest ws f))) ops = run_case (etb v) (cplug K (SProbe f)) ops.
Proof.
  intros v K ws f ops. pose proof (cong_probe v _ _ (fwrap_nest_on v ws f)) as H.
  apply run_case_on; [apply cplug_on; exact H|apply build_log_cplug; exact H].
Qed.

Lemma cwrap_nest_flags : forall ws c, flags_of_root c = noflags -> flags_of_root (cwrap_nest ws c) = flags_of_root c.
Proof. intros ws c H. destruct ws; cbn [cwrap_nest fold_right]; [reflexivity|rewrite H; reflexivity]. Qed.

(** [flags_of_root c = noflags]: [c] is not the bare `Registry` value (boxing the `Registry` itself changes the type the
    `Layered` above compares with `Registry`; see notes/C09.md). *)
Theorem collector_wrappers_transparent_v : forall v K ws c ops, flags_of_root c = noflags ->
  run_case (etb v) (kplug K (cwrap_nest ws c)) ops = run_case (etb v) (kplug K c) ops.
Proof.
  intros v K ws c ops HF. apply run_case_on; [apply kplug_on; [apply cwrap_nest_on|apply cwrap_nest_flags; exact HF]|apply build_log_kplug; apply build_log_cwrap_nest].
Qed.
