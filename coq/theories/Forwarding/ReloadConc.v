(** C09 — the reload cell under concurrency (executable model, no proofs).

    `reload::Subscriber<S>` is an `Arc<RwLock<S>>`.  Every Subscribe / Filter callback takes the lock for reading around
    ONE call of the wrapped value; `Handle::modify` (hence `Handle::reload`) takes it for writing around the closure.
    How the callbacks acquire the lock is read off the generated rows ([lock_mode_of]):
      - [Blocking]  `try_lock!(self.inner.read())`  (row class FwdLock): the callback waits while a writer holds the cell;
      - [Try]       `try_read()`                    (row class FwdTryLock): it does not wait; the callback is skipped and the
                                                     fallback literal returned (for `event_enabled` / `enabled` that is a veto).
    Threads are micro-step machines in the style of Common/Sched.v; "every interleaving" is [forall sched : list tid].

    A *notifier* thread has a list of callbacks still to make (each identified by a number: which notification, for which
    span/event).  acquire-read ; call the wrapped value (appends to the wrapped layer's log) ; release-read.
    A *modifier* thread has a list of `modify` calls still to make, each with the number of micro-steps its closure takes.
    acquire-write ; closure steps ; release-write. *)
From Coq Require Export List NArith Bool.
From TV Require Export Common.Sched Forwarding.Model.
Export ListNotations.

Inductive lockmode := Blocking | Try.

Inductive npc := NIdle | NLocked | NDelivered.
Inductive mpc := MIdle | MInside (left : nat).
Inductive tstate :=
| TN (pc : npc) (todo : list N)
| TM (pc : mpc) (todo : list nat).

(** One entry per callback attempt: which thread, which callback, and whether the wrapped value was called ([true]) or the
    callback was skipped with the fallback ([false]). *)
Definition centry : Type := tid * N * bool.

Record cstate := mkC {
  threads : tid -> tstate;
  rd : list tid;            (* holders of read guards *)
  wr : option tid;          (* holder of the write guard *)
  clog : list centry        (* what the wrapped layer saw / what was skipped, in global order *)
}.

Definition upd (f : tid -> tstate) (t : tid) (x : tstate) : tid -> tstate :=
  fun u => if Nat.eqb u t then x else f u.

Fixpoint remove1 (t : tid) (l : list tid) : list tid :=
  match l with [] => [] | u :: r => if Nat.eqb u t then r else u :: remove1 t r end.

Definition cstep (mode : lockmode) (s : cstate) (t : tid) : option cstate :=
  match threads s t with
  | TN NIdle [] => None                                          (* finished *)
  | TN NIdle (n :: r) =>
      match wr s with
      | None => Some (mkC (upd (threads s) t (TN NLocked (n :: r))) (t :: rd s) None (clog s))
      | Some _ =>
          match mode with
          | Blocking => None                                     (* read() waits for the writer *)
          | Try => Some (mkC (upd (threads s) t (TN NIdle r)) (rd s) (wr s) (clog s ++ [(t, n, false)]))
          end
      end
  | TN NLocked [] => None
  | TN NLocked (n :: r) => Some (mkC (upd (threads s) t (TN NDelivered r)) (rd s) (wr s) (clog s ++ [(t, n, true)]))
  | TN NDelivered r => Some (mkC (upd (threads s) t (TN NIdle r)) (remove1 t (rd s)) (wr s) (clog s))
  | TM MIdle [] => None                                          (* finished *)
  | TM MIdle (w :: r) =>
      match wr s, rd s with
      | None, [] => Some (mkC (upd (threads s) t (TM (MInside w) r)) [] (Some t) (clog s))
      | _, _ => None                                             (* write() waits for readers and writers *)
      end
  | TM (MInside (S k)) r => Some (mkC (upd (threads s) t (TM (MInside k) r)) (rd s) (wr s) (clog s))
  | TM (MInside O) r => Some (mkC (upd (threads s) t (TM MIdle r)) (rd s) None (clog s))
  end.

Definition cinit (progs : tid -> tstate) : cstate := mkC progs [] None [].

(** A thread at the start of its program. *)
Definition fresh (x : tstate) : bool :=
  match x with TN NIdle _ => true | TM MIdle _ => true | _ => false end.
Definition finished (x : tstate) : bool :=
  match x with TN NIdle [] => true | TM MIdle [] => true | _ => false end.

(** What thread [t]'s callbacks came to, in its own order. *)
Definition outs (t : tid) (l : list centry) : list (N * bool) :=
  map (fun e => (snd (fst e), snd e)) (filter (fun e => Nat.eqb (fst (fst e)) t) l).
Definition all_delivered (p : list N) : list (N * bool) := map (fun n => (n, true)) p.
Definition pending (x : tstate) : list N :=
  match x with TN _ r => r | TM _ _ => [] end.

(** ** Reading the mode off the generated rows *)
Definition lock_cls (c : cls) : option lockmode :=
  match c with FwdLock _ => Some Blocking | FwdTryLock _ => Some Try | _ => None end.
Definition callback_rows (tb : tables) : list cls :=
  map (row tb WReloadS) (filter (fun m => negb (meth_eqb m downcast_raw) && negb (meth_eqb m on_subscribe)) subscribe_meths)
  ++ map (row tb WReloadF) filter_meths.
(** [Blocking] only if *every* callback row blocks; anything else is treated as [Try] (nothing is proved about it). *)
Definition lock_mode_of (tb : tables) : lockmode :=
  if forallb (fun c => match lock_cls c with Some Blocking => true | _ => false end) (callback_rows tb) then Blocking else Try.
Definition gen_mode : lockmode := lock_mode_of gen_tables.
