(** C09 — the *expected* column, written by hand (no proofs here).

    [expected v w m] is the class the body of method [m] of implementor [w] must have for the theorems of Proofs.v to
    apply.  The only switch is finding F18: inside an `and_then` pair (`impl Subscribe for Layered`) the code hands
    `on_register_dispatch` to the outer half first ([v = false], the tree as it is); [v = true] is the tree with
    fixes/F18.patch (inner half first, like every other notification).  Both are accepted; which one the repository has is
    read off the generated table ([f18_fixed]), and the one theorem that depends on it says so.
    (F8, F14 are repaired: `Vec::register_callsite` is the all-fold, an empty `Vec` carries the `None` marker; the
    pre-repair classes still exist in Syntax.v so that a tree with them has a model, but this column rejects them.)
    A method later added to a trait and not forwarded by some wrapper shows up as a `Missing` row that differs from
    this column (and as a name [undecoded] does not know), so [table_ok] computes to [false] and
    [C09_table_transparent] no longer compiles; [bad_rows] names the offenders for the driver. *)
From TV Require Export Forwarding.Model.
From TVGen Require Gen_forwarding.
Local Open Scope string_scope.

Definition expected (v : bool) (w : wrapper) (m : meth) : cls :=
  let n := meth_name m in
  match w with
  | WBoxC | WArcC => match m with downcast_raw => Downcast DcSelfOrFwd | _ => Fwd end
  | WFmtCollector =>
      (* fmt::Collector does not override the deprecated drop_span (nothing in tracing calls it; Dispatch::drop_span is deprecated) *)
      match m with downcast_raw => Downcast DcSelfOrFwd | drop_span => Missing | _ => Fwd end
  | WDispatch => match m with event => EventGate | event_enabled | downcast_raw => Missing | _ => Fwd end
  | WLayeredC =>
      match m with
      | on_register_dispatch => Seq2 InnerOuter "on_register_dispatch" "on_register_dispatch"
      | register_callsite => PickInterest "register_callsite" "register_callsite"
      | enabled => Gate "enabled" "enabled" true
      | max_level_hint => PickHint "collector_is_none"
      | new_span => NewSpan
      | record => Seq2 InnerOuter "record" "on_record"
      | record_follows_from => Seq2 InnerOuter "record_follows_from" "on_follows_from"
      | event_enabled => Gate "event_enabled" "event_enabled" false
      | event => Seq2 InnerOuter "event" "on_event"
      | enter => Seq2 InnerOuter "enter" "on_enter"
      | exit => Seq2 InnerOuter "exit" "on_exit"
      | clone_span => CloneSpan
      | drop_span => SelfCall "try_close"
      | try_close => TryClose
      | current_span => Fwd
      | downcast_raw => Downcast DcLayeredC
      | _ => Custom "n/a"
      end
  | WOptionS =>
      match m with
      | register_callsite => FwdOpt LAlways
      | enabled | event_enabled => FwdOpt LTrue
      | max_level_hint => FwdOpt LHintOff
      | downcast_raw => Downcast DcOption
      | _ => FwdOpt LUnit
      end
  | WBoxS | WBoxDynS => match m with downcast_raw => Downcast DcFwd | _ => Fwd end
  | WVecS =>
      match m with
      | register_callsite => FwdAll CInterestAll
      | enabled | event_enabled => FwdAll CAll
      | max_level_hint => FwdAll CHintMax
      | downcast_raw => Downcast DcVecNoneIfEmpty
      | _ => FwdAll CUnit
      end
  | WReloadS =>
      match m with
      | register_callsite => FwdLock LSometimes
      | enabled | event_enabled => FwdLock LFalse
      | max_level_hint => FwdLock LHintNone
      | downcast_raw => Downcast DcReload
      | _ => FwdLock LUnit
      end
  | WLayeredS =>
      match m with
      | on_register_dispatch => Seq2 (if v then InnerOuter else OuterInner) n n
      | on_subscribe => Seq2 OuterInner n n
      | register_callsite => PickInterest n n
      | enabled | event_enabled => Gate n n false
      | max_level_hint => PickHint "subscriber_is_none"
      | downcast_raw => Downcast DcLayeredS
      | _ => Seq2 InnerOuter n n
      end
  | WIdentityS => Missing
  | WFilteredS =>
      (* Filtered is not a pass-through wrapper (its filtering logic is C07's); pinned here: the two non-filtering
         callbacks are forwarded, and every other body still calls the filter / the layer it called when this was written *)
      match m with
      | on_register_dispatch => Fwd
      | on_subscribe => Logic [("subscriber", n)]
      | register_callsite => Logic [("filter", "callsite_enabled"); ("subscriber", n)]
      | max_level_hint => Logic [("filter", n)]
      | on_follows_from | on_event | on_id_change => Logic [("subscriber", n)]
      | downcast_raw => Downcast DcFiltered
      | _ => Logic [("filter", n); ("subscriber", n)]
      end
  | WArcDynF | WBoxDynF => Fwd
  | WOptionF =>
      match m with
      | enabled | event_enabled => FwdOpt LTrue
      | callsite_enabled => FwdOpt LAlways
      | max_level_hint => FwdOpt LHintNone
      | _ => FwdOpt LUnit
      end
  | WReloadF =>
      match m with
      | callsite_enabled => FwdLock LSometimes
      | enabled | event_enabled => FwdLock LFalse
      | max_level_hint => FwdLock LHintNone
      | _ => FwdLock LUnit
      end
  | WAndF | WOrF => Logic [("a", n); ("b", n)]
  | WNotF =>
      match m with
      | enabled | callsite_enabled => Logic [("a", n)]
      | max_level_hint => Const LHintNone
      | event_enabled => Const LTrue
      | _ => Fwd
      end
  end.

Definition expected_default (t : trait) (m : meth) : dflt :=
  match t, m with
  | TCollect, (enabled | new_span | record | record_follows_from | event | enter | exit | current_span) => DRequired
  | TFilter, enabled => DRequired
  | TFilter, callsite_enabled => DLit LSometimes
  | _, register_callsite => DIfSelf "enabled" LAlways LNever
  | _, (enabled | event_enabled) => DLit LTrue
  | _, max_level_hint => DLit LHintNone
  | _, clone_span => DLit LIdClone
  | _, try_close => DSeqSelf "drop_span" LFalse
  | _, downcast_raw => DDowncastSelf
  | _, _ => DLit LUnit
  end.

Definition etb (v : bool) : tables := mkTables (expected v) expected_default.

Definition rows_ok (v : bool) (tb : tables) : bool :=
  forallb (fun w => forallb (fun m => cls_eqb (lk tb w m) (expected v w m)) (trait_meths (wrapper_trait w))) all_wrappers.
Definition defaults_ok (tb : tables) : bool :=
  forallb (fun t => forallb (fun m => dflt_eqb (dk tb t m) (expected_default t m)) (trait_meths t)) [TCollect; TSubscribe; TFilter].

(** The generated file lists exactly the methods the model knows, recognised every helper, and left nothing unrecognised. *)
Definition gen_meta_ok : bool :=
  match undecoded with [] => true | _ => false end
  && forallb (fun t => match find (fun tm => trait_eqb (fst tm) t) Gen_forwarding.gen_trait_methods with
                       | Some (_, ms) => forallb (fun m => existsb (String.eqb (meth_name m)) ms) (trait_meths t)
                       | None => false end) [TCollect; TSubscribe; TFilter]
  && forallb (fun h => snd h) Gen_forwarding.gen_helpers
  && N.eqb (install_count INew) 1 && N.eqb (install_count IFromStatic) 1       (* every Dispatch constructor registers exactly once *)
  && match Gen_forwarding.gen_unrecognised with [] => true | _ => false end.

Definition table_ok : bool :=
  (rows_ok false gen_tables || rows_ok true gen_tables) && defaults_ok gen_tables && gen_meta_ok.

(** Is the repository the one with fixes/F18.patch? *)
Definition f18_fixed (tb : tables) : bool :=
  cls_eqb (lk tb WLayeredS on_register_dispatch) (Seq2 InnerOuter "on_register_dispatch" "on_register_dispatch").

(** For the driver: the generated rows that break the obligation, (implementor, method, found, expected). *)
Definition bad_rows : list (string * string * cls * cls) :=
  flat_map (fun r => match r with (ws, t, ms, c) =>
    match decode_wrapper t ws, decode_meth ms with
    | Some w, Some m =>
        if cls_eqb c (expected false w m) || cls_eqb c (expected true w m) then [] else [(ws, ms, c, expected false w m)]
    | _, _ => [(ws, ms, c, Custom "unknown to the model: extend Syntax.v / Expected.v")]
    end end) Gen_forwarding.gen_rows.
