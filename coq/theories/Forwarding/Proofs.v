(** C09 — proofs, part 5: the table obligation, and every theorem of parts 2-4 transported from the hand-written expected
    tables to [gen_tables], the tables the translator read off the Rust source on this run.

    [table_transparent] is a kernel computation over the generated rows.  It yields [tables_ext gen_tables (etb V)] where
    [V = f18_fixed gen_tables] says which of the two accepted variants of the source this is (finding F18); the model's
    semantics depends on the tables only through the rows it consults, so objects, stacks and workloads mean the same. *)
From TV Require Export Forwarding.ProofsBase Forwarding.ProofsWrappers Forwarding.ProofsOrder Forwarding.ProofsAbsent.
From Coq Require Import Permutation.
Local Open Scope N_scope.

Lemma table_transparent : table_ok = true.
Proof. vm_compute. reflexivity. Qed.

Definition V : bool := f18_fixed gen_tables.

Lemma gen_is_expected : tables_ext gen_tables (etb V).
Proof. destruct (gen_ext table_transparent) as [v H]. unfold V. rewrite (f18_fixed_ext _ _ H). exact H. Qed.

Local Notation G := gen_tables.
Lemma gcall : forall c m a, call (coll_obj G c) m a = call (coll_obj (etb V) c) m a.
Proof. intros. apply (coll_obj_ext _ _ gen_is_expected c). Qed.
Lemma gsnone : forall s, is_none (sub_obj G s) = is_none (sub_obj (etb V) s).
Proof. intros. apply (sub_obj_ext _ _ gen_is_expected s). Qed.
Lemma grun : forall c ops, run_case G c ops = run_case (etb V) c ops.
Proof. intros. apply (run_case_ext _ _ gen_is_expected). Qed.
Lemma gdisp : forall c m a, dispatch_sem G (call (coll_obj G c)) m a = dispatch_sem (etb V) (call (coll_obj (etb V) c)) m a.
Proof. intros. apply (dispatch_sem_ext _ _ gen_is_expected). apply (coll_obj_ext _ _ gen_is_expected c). Qed.
Lemma gbuild : forall c, build_log G c = build_log (etb V) c.
Proof. intros. apply (build_log_ext _ _ gen_is_expected). Qed.

(** * Exactly once, inner before outer *)
Lemma once_inner_first : forall c mc ms a, In (mc, ms) notif_pairs ->
  call (coll_obj G c) mc a = (root_ents c mc a ++ ents ms a (coll_recv false ms c), RUnit).
Proof. intros. rewrite gcall. apply once_inner_first_v; assumption. Qed.

Lemma once_new_span : forall c a,
  call (coll_obj G c) new_span a =
    (root_ents c new_span a ++ ents on_new_span (a_cs a, a_id a, 0) (coll_recv false on_new_span c), RId (a_id a)).
Proof. intros. rewrite gcall. apply new_span_v. Qed.

Lemma once_close : forall c a,
  call (coll_obj G c) try_close a =
    if b_close (root_beh c) (a_id a)
    then (root_ents c try_close a ++ ents on_close a (coll_recv false on_close c), RBool true)
    else (root_ents c try_close a, RBool false).
Proof. intros. rewrite gcall. apply try_close_v. Qed.

Lemma once_id_change : forall c a,
  call (coll_obj G c) clone_span a =
    let nw := r_clone (root_beh c) (a_id a) in
    (root_ents c clone_span a ++
       (if nw =? a_id a then [] else ents on_id_change (a_cs a, a_id a, nw) (coll_recv false on_id_change c)), RId nw).
Proof. intros. rewrite gcall. apply clone_span_v. Qed.

Lemma drop_span_is_try_close : forall c a,
  call (coll_obj G c) drop_span a =
    if coll_has_layer c then (fst (call (coll_obj G c) try_close a), RUnit) else (root_ents c drop_span a, RUnit).
Proof. intros. rewrite !gcall. apply drop_span_v. Qed.

Lemma current_span_root_only : forall c a, call (coll_obj G c) current_span a = (root_ents c current_span a, RUnit).
Proof. intros. rewrite gcall. apply current_span_v. Qed.

(** Dispatcher registration: every layer exactly once, the root first; inner before outer wherever no `and_then` pair is
    involved (and everywhere once F18 is repaired). *)
Lemma register_dispatch_once : forall c a, exists ids,
  call (coll_obj G c) on_register_dispatch a = (root_ents c on_register_dispatch a ++ ents on_register_dispatch a ids, RUnit) /\
  Permutation ids (coll_recv false on_register_dispatch c).
Proof.
  intros c a. exists (coll_recv (negb V) on_register_dispatch c). split.
  - rewrite gcall. apply register_dispatch_v.
  - apply coll_recv_perm.
Qed.

Lemma register_dispatch_inner_first : forall c a, f18_fixed G = true \/ pair_free c = true ->
  call (coll_obj G c) on_register_dispatch a =
    (root_ents c on_register_dispatch a ++ ents on_register_dispatch a (coll_recv false on_register_dispatch c), RUnit).
Proof.
  intros c a H. rewrite gcall, register_dispatch_v. destruct H as [H|H].
  - fold V in H. rewrite H. reflexivity.
  - rewrite (coll_recv_pair_free (negb V) false _ c H). reflexivity.
Qed.

(** Whichever constructor installs the stack (`Dispatch::new` or `Dispatch::from_static`), the collector hears about its
    dispatcher exactly once - so [register_dispatch_once] / [register_dispatch_inner_first] describe both. *)
Lemma register_dispatch_either_constructor : forall i c,
  reg_log G c i = fst (call (coll_obj G c) on_register_dispatch arg0).
Proof. intros i c. unfold reg_log. destruct i; vm_compute install_count; cbn [N.to_nat Pos.to_nat Pos.iter_op repeat_log]; apply app_nil_r. Qed.

Lemma on_subscribe_once : forall c, exists ids,
  build_log G c = ents on_subscribe arg0 ids /\ Permutation ids (coll_recv false on_subscribe c).
Proof.
  intros c. exists (coll_recv true on_subscribe c). split; [rewrite gbuild; apply build_log_v|apply coll_recv_perm].
Qed.

(** F18 (as long as the source has the outer-first order): rec.with(L1.and_then(L2)) tells L2 before L1. *)
Lemma F18_refuted : f18_fixed G = false ->
  let c := CLayered (SPair (SLeaf 2 unhinted) (SLeaf 1 unhinted)) (CLeaf 0 unhinted) in
  pair_free c = false /\
  fst (call (coll_obj G c) on_register_dispatch arg0) <>
    root_ents c on_register_dispatch arg0 ++ ents on_register_dispatch arg0 (coll_recv false on_register_dispatch c).
Proof.
  intros H c. split; [reflexivity|]. rewrite gcall. fold V in H. rewrite H. vm_compute. discriminate.
Qed.

(** * Queries *)
Lemma query_outer_first_until_veto : forall c q a,
  call (coll_obj G c) (q_meth q) a = q_out q a (until_veto (q_ans q a) (coll_ask c)).
Proof. intros. rewrite gcall. apply query_outer_first_until_veto_v. Qed.

(** `register_callsite` on every stack: the tree walk [rc_coll] (Spec.v); never twice, never out of order; the plain list walk on linear stacks. *)
Lemma register_callsite_outer_first_until_never : forall c a,
  call (coll_obj G c) register_callsite a = rc_out (rc_coll a c) /\
  sublist (ids (fst (rc_coll a c))) (ask_ids (coll_ask c)).
Proof. intros. split; [rewrite gcall; apply register_callsite_v|apply rc_coll_sublist]. Qed.

Lemma register_callsite_linear : forall c a, a = (a_cs a, 0, 0) -> linear c = true ->
  call (coll_obj G c) register_callsite a = rc_out (rc_until (a_cs a) (coll_ask c)).
Proof. intros c a Ha Hl. rewrite gcall, register_callsite_v, (rc_coll_linear a c Ha Hl). reflexivity. Qed.

(** What the walk skips and what it does not: after a `never` from the outer side nothing of the inner side is asked; a Vec
    asks every element; otherwise both sides are asked, outer first. *)
Lemma rc_skips_after_never :
  (forall a s c, snd (rc_sub a s) = INever -> rc_coll a (CLayered s c) = (fst (rc_sub a s), INever)) /\
  (forall a o i, snd (rc_sub a o) = INever -> rc_sub a (SPair o i) = (fst (rc_sub a o), INever)) /\
  (forall a s c, snd (rc_sub a s) <> INever -> fst (rc_coll a (CLayered s c)) = fst (rc_sub a s) ++ fst (rc_coll a c)) /\
  (forall a o i, snd (rc_sub a o) <> INever -> fst (rc_sub a (SPair o i)) = fst (rc_sub a o) ++ fst (rc_sub a i)) /\
  (forall a xs, fst (rc_sub a (SVec xs)) = List.concat (map (fun x => fst (rc_sub a x)) xs)).
Proof.
  repeat apply conj; intros; cbn [rc_coll rc_sub]; unfold rc_pick.
  - rewrite H. reflexivity.
  - rewrite H. reflexivity.
  - destruct (snd (rc_sub a s)); try congruence; reflexivity.
  - destruct (snd (rc_sub a o)); try congruence; reflexivity.
  - cbn [fst]. rewrite map_map. reflexivity.
Qed.

Lemma dispatch_event : forall c a, dispatch_sem G (call (coll_obj G c)) event a = (expected_event c a, RUnit).
Proof. intros. rewrite gdisp. apply dispatch_event_v. Qed.

Lemma veto_stops_delivery : forall c a,
  snd (until_veto (q_ans QEvent a) (coll_ask c)) = false ->
  forall e, In e (fst (dispatch_sem G (call (coll_obj G c)) event a)) -> snd (fst e) = event_enabled.
Proof. intros c a H e. rewrite gdisp. apply veto_stops_delivery_v; exact H. Qed.

Lemma enabled_veto : forall c a,
  snd (until_veto (q_ans QEnabled a) (coll_ask c)) = false ->
  snd (dispatch_sem G (call (coll_obj G c)) enabled a) = RBool false.
Proof. intros c a H. rewrite gdisp. apply enabled_veto_v; exact H. Qed.

(** The same, operation by operation, at the level the harness observes. *)
Lemma spec_op_sound : forall c o l, spec_op c o = Some l -> fst (run_op G (coll_obj G c) o) = l.
Proof. intros c o l H. rewrite (run_op_ext _ _ gen_is_expected). apply spec_op_sound_v; exact H. Qed.

(** * Wrappers *)
Lemma wrappers_transparent : forall K ps x ops,
  (existsb uses_id ps = true -> is_none (sub_obj G x) = false) ->
  run_case G (cplug K (wrap_nest ps x)) ops = run_case G (cplug K x) ops.
Proof. intros K ps x ops H. rewrite !grun. apply wrappers_transparent_v. rewrite <- gsnone. exact H. Qed.

(** F19: without the side condition the statement is false - an Identity paired with a `None`, as an element of a Vec. *)
Lemma F19_refuted :
  let K := CCHere (SCVec [] SHole [SLeaf 1 (hinted 5)]) (CLeaf 0 (hinted 2)) in
  is_none (sub_obj G SNone) = true /\
  run_case G (cplug K (wrap_nest [PIdOuter] SNone)) [OHint] <> run_case G (cplug K SNone) [OHint].
Proof.
  cbv zeta. rewrite gsnone, !grun. destruct V; split; try (vm_compute; reflexivity); vm_compute; discriminate.
Qed.

Lemma filter_wrappers_transparent : forall K ws f ops,
  run_case G (cplug K (SProbe (fwrap_nest ws f))) ops = run_case G (cplug K (SProbe f)) ops.
Proof. intros. rewrite !grun. apply filter_wrappers_transparent_v. Qed.

Lemma collector_wrappers_transparent : forall K ws c ops, flags_of_root c = noflags ->
  run_case G (kplug K (cwrap_nest ws c)) ops = run_case G (kplug K c) ops.
Proof. intros. rewrite !grun. apply collector_wrappers_transparent_v; assumption. Qed.

(** The one exception is by design: the `Layered` directly above compares its inner collector's TYPE with `Registry`, so
    `Box::new(registry()).with(None)` has no hint where `registry().with(None)` reports OFF. *)
Lemma boxed_registry_differs :
  let reg := CLeaf 0 (beh_registry (fun _ => true)) in
  flags_of_root reg <> noflags /\
  run_case G (kplug (KUnder SNone KHole) (cwrap_nest [CwBox] reg)) [OHint] <> run_case G (kplug (KUnder SNone KHole) reg) [OHint].
Proof. cbv zeta. split; [discriminate|rewrite !grun; destruct V; vm_compute; discriminate]. Qed.

(** * Unwinding: ops executed in a Drop impl while a panic propagates *)
Lemma gen_order_lock_first : gen_order = LockFirst.
Proof. vm_compute. reflexivity. Qed.

Lemma unwinding_changes_nothing : forall c ops k, run_case_u G gen_order c ops k = run_case G c ops.
Proof.
  intros c ops k. rewrite gen_order_lock_first. unfold run_case_u, run_case, unwind_tables.
  rewrite <- map_app, firstn_skipn. reflexivity.
Qed.

Lemma collector_wrappers_transparent_while_unwinding : forall K ws c ops k, flags_of_root c = noflags ->
  run_case_u G gen_order (kplug K (cwrap_nest ws c)) ops k = run_case_u G gen_order (kplug K c) ops k.
Proof. intros. rewrite !unwinding_changes_nothing. apply collector_wrappers_transparent; assumption. Qed.

Lemma wrappers_transparent_while_unwinding : forall K ps x ops k,
  (existsb uses_id ps = true -> is_none (sub_obj G x) = false) ->
  run_case_u G gen_order (cplug K (wrap_nest ps x)) ops k = run_case_u G gen_order (cplug K x) ops k.
Proof. intros. rewrite !unwinding_changes_nothing. apply wrappers_transparent; assumption. Qed.

(** With `panicking()` consulted before the lock, the reload wrapper drops what is delivered during unwinding:
    rec.with(L1).with(reload(L2)).with(L3), `enter 1` normally, `exit 1` while unwinding. *)
Lemma panicking_first_refuted :
  let c := CLayered (SLeaf 3 unhinted) (CLayered (SWrap SwReload (SLeaf 2 unhinted)) (CLayered (SLeaf 1 unhinted) (CLeaf 0 unhinted))) in
  let c0 := CLayered (SLeaf 3 unhinted) (CLayered (SLeaf 2 unhinted) (CLayered (SLeaf 1 unhinted) (CLeaf 0 unhinted))) in
  run_case_u G PanickingFirst c0 [OEnter 1; OExit 1] 1 = run_case G c0 [OEnter 1; OExit 1] /\
  run_case_u G PanickingFirst c [OEnter 1; OExit 1] 1 <> run_case G c0 [OEnter 1; OExit 1] /\
  snd (run_case_u G PanickingFirst c [OEnter 1; OExit 1] 1) =
    [([(0, enter, (0,1,0)); (1, on_enter, (0,1,0)); (2, on_enter, (0,1,0)); (3, on_enter, (0,1,0))], RUnit);
     ([(0, exit, (0,1,0)); (1, on_exit, (0,1,0)); (3, on_exit, (0,1,0))], RUnit)].
Proof. cbv zeta. repeat apply conj; vm_compute; try reflexivity; discriminate. Qed.

(** * None / empty Vec *)
Lemma absent_as_if_absent : forall z, absent z = true ->
  (* a layer anywhere in a stack *)
  (forall K c ops, coll_has_layer c = true -> forallb no_hint_op ops = true ->
     run_case G (kplug K (CLayered z c)) ops = run_case G (kplug K c) ops) /\
  (* ... on a bare root collector (the deprecated drop_span is turned into try_close by any Layered) *)
  (forall K c ops, forallb no_hint_op ops = true -> forallb no_drop_op ops = true ->
     run_case G (kplug K (CLayered z c)) ops = run_case G (kplug K c) ops) /\
  (* either half of an and_then pair, an element of a Vec, around / next to any subscriber x anywhere *)
  (forall K x ops, forallb no_hint_op ops = true ->
     run_case G (cplug K (SPair z x)) ops = run_case G (cplug K x) ops /\
     run_case G (cplug K (SPair x z)) ops = run_case G (cplug K x) ops) /\
  (forall K pre post ops, forallb no_hint_op ops = true ->
     run_case G (cplug K (SVec (pre ++ z :: post))) ops = run_case G (cplug K (SVec (pre ++ post))) ops) /\
  (* as the top layer: nothing changes, max_level_hint included *)
  (forall ws c ops, coll_has_layer c = true ->
     run_case G (cwrap_nest ws (CLayered z c)) ops = run_case G (cwrap_nest ws c) ops).
Proof.
  intros z Ha. repeat apply conj; intros; rewrite !grun.
  - apply absent_layer_v; assumption.
  - apply absent_layer_bare_v; assumption.
  - apply absent_pair_v; assumption.
  - apply absent_vec_elem_v; assumption.
  - apply absent_top_v; assumption.
Qed.

Definition swraps (ws : list swrap) (x : sub) : sub := fold_right SWrap x ws.
Lemma absent_swraps : forall ws x, absent x = true -> absent (swraps ws x) = true.
Proof. induction ws; intros x H; cbn [swraps fold_right absent]; [exact H|apply IHws; exact H]. Qed.

Lemma none_absent : forall ws K c ops, coll_has_layer c = true -> forallb no_hint_op ops = true ->
  run_case G (kplug K (CLayered (swraps ws SNone) c)) ops = run_case G (kplug K c) ops.
Proof. intros ws. exact (proj1 (absent_as_if_absent _ (absent_swraps ws SNone eq_refl))). Qed.

Lemma empty_vec_absent : forall ws K c ops, coll_has_layer c = true -> forallb no_hint_op ops = true ->
  run_case G (kplug K (CLayered (swraps ws (SVec [])) c)) ops = run_case G (kplug K c) ops.
Proof. intros ws. exact (proj1 (absent_as_if_absent _ (absent_swraps ws (SVec []) eq_refl))). Qed.

Lemma none_empty_vec_absent_on_top : forall z ws c ops, (z = SNone \/ z = SVec []) -> coll_has_layer c = true ->
  run_case G (cwrap_nest ws (CLayered z c)) ops = run_case G (cwrap_nest ws c) ops.
Proof.
  intros z ws c ops [H|H] Hl; subst z.
  - apply (absent_as_if_absent SNone eq_refl); exact Hl.
  - apply (absent_as_if_absent (SVec []) eq_refl); exact Hl.
Qed.

(** `max_level_hint` too, unless a collector level underneath another layer reports a genuine OFF. *)
Lemma no_off_ext : forall K c, no_off G K c -> no_off (etb V) K c.
Proof.
  induction K; cbn [no_off]; intros c H; [exact I|apply IHK; exact H|].
  destruct H as [H1 H2]. split; [apply IHK; exact H1|]. intro a. rewrite <- gcall. apply H2.
Qed.
Lemma absent_layer_hint : forall K z c ops, absent z = true -> coll_has_layer c = true -> no_off G K c ->
  run_case G (kplug K (CLayered z c)) ops = run_case G (kplug K c) ops.
Proof. intros. rewrite !grun. apply absent_layer_hint_v; try assumption. apply no_off_ext; assumption. Qed.

(** F17, on the tables of this run. *)
Lemma F17_refuted :
  (let K := KUnder (SLeaf 1 unhinted) KHole in let c := CLayered (SLeaf 2 unhinted) (CLeaf 0 (hinted 0)) in
   coll_has_layer c = true /\ ~ no_off G K c /\
   run_case G (kplug K (CLayered SNone c)) [OHint] <> run_case G (kplug K c) [OHint]) /\
  (let K := CCUnder (SLeaf 2 (hinted 3)) (CCHere SHole (CLeaf 0 unhinted)) in let x := SLeaf 1 (hinted 5) in
   run_case G (cplug K (SPair SNone x)) [OHint] <> run_case G (cplug K x) [OHint]) /\
  (let K := CCUnder (SLeaf 2 (hinted 3)) (CCHere SHole (CLeaf 0 unhinted)) in let x := SLeaf 1 (hinted 5) in
   run_case G (cplug K (SPair (SVec []) x)) [OHint] <> run_case G (cplug K x) [OHint]).
Proof.
  repeat apply conj; cbv zeta; rewrite ?grun.
  - reflexivity.
  - intros [_ H]. apply (H arg0). vm_compute. reflexivity.
  - apply F17_more_permissive_v.
  - apply F17_less_permissive_v.
  - destruct V; vm_compute; discriminate.
Qed.
