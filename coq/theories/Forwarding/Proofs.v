(** C09 — proofs (first increment: the table obligation). *)
From TV Require Import Forwarding.Expected.
Lemma table_transparent : table_ok = true.
Proof. vm_compute. reflexivity. Qed.
