(** C09 — proofs, part 3: exactly once, inner before outer; queries outer-first until the first veto; a veto stops
    delivery.  For every stack ([coll]) and every subscriber tree inside it, on the expected tables [etb v]. *)
From TV Require Import Forwarding.ProofsBase Forwarding.ProofsWrappers.
From TV Require Export Forwarding.Spec.
From Coq Require Import Permutation.
Local Open Scope N_scope.

(** Which unit callbacks a pair hands to its *outer* half first (read off the expected rows of `impl Subscribe for Layered`). *)
Definition pof (v : bool) (m : meth) : bool :=
  match m with on_register_dispatch => negb v | on_subscribe => true | _ => false end.

Definition sunit (m : meth) : bool :=
  match m with
  | on_register_dispatch | on_subscribe | on_new_span | on_record | on_follows_from | on_event | on_enter | on_exit
  | on_close | on_id_change => true
  | _ => false
  end.
Definition funit (m : meth) : bool := probe_passes m.

Lemma ents_app : forall m a l1 l2, ents m a (l1 ++ l2) = ents m a l1 ++ ents m a l2.
Proof. intros. unfold ents. apply map_app. Qed.

(** * Unit callbacks *)
Lemma filt_unit : forall v f m a, funit m = true ->
  call (filt_obj (etb v) f) m a = (ents m a (map fst (filt_q f)), RUnit).
Proof.
  intros v f m a Hm. induction f.
  - destruct m; try discriminate Hm; reflexivity.
  - rewrite fwrap_call by (destruct m; try discriminate Hm; reflexivity). exact IHf.
  - destruct v, m; try discriminate Hm; vm_compute; reflexivity.
Qed.

Lemma vec_unit_flat : forall v (g : sub -> list N) m a xs,
  Forall (fun s => call (sub_obj (etb v) s) m a = (ents m a (g s), RUnit)) xs ->
  vec_unit (map call (map (sub_obj (etb v)) xs)) m a = ents m a (flat_map g xs).
Proof.
  intros v g m a xs H. induction H; cbn [map vec_unit flat_map]; [reflexivity|].
  rewrite H, IHForall. cbn [fst]. rewrite ents_app. reflexivity.
Qed.

Lemma sub_unit : forall v s m a, sunit m = true ->
  call (sub_obj (etb v) s) m a = (ents m a (sub_recv (pof v m) m s), RUnit).
Proof.
  intros v s m a Hm. assert (Hs : sscope m = true) by (destruct m; try discriminate Hm; reflexivity).
  induction s using sub_ind'.
  - destruct m; try discriminate Hm; reflexivity.
  - rewrite swrap_call by exact Hs. exact IHs.
  - destruct v, m; try discriminate Hm; vm_compute; reflexivity.
  - rewrite sub_unf_vec. tie3. unfold vec_sem at 1.
    pose proof (vec_unit_flat v (sub_recv (pof v m) m) m a xs H) as HV.
    destruct m; try discriminate Hm; crow; rewrite HV; reflexivity.
  - rewrite sub_unf_pair. tie3. unfold layered_sem at 1. cbn [sub_recv].
    destruct m; try discriminate Hm; try (destruct v); crow; cbn [meth_name]; crow; rewrite IHs1, IHs2; cbn [fst pof negb];
      rewrite ents_app; reflexivity.
  - rewrite id_call by exact Hs. destruct m; try discriminate Hm; reflexivity.
  - rewrite sub_unf_probe. unfold probe_sem. cbn [sub_recv].
    destruct m; try discriminate Hm; cbn [probe_passes]; try reflexivity; apply filt_unit; reflexivity.
Qed.

(** * The root collector *)
Lemma root_ents_layered : forall s c m a, root_ents (CLayered s c) m a = root_ents c m a.
Proof. reflexivity. Qed.
Lemma root_ents_wrap : forall w c m a, root_ents (CWrap w c) m a = root_ents c m a.
Proof. reflexivity. Qed.
Lemma leaf_call : forall v i b m a,
  call (coll_obj (etb v) (CLeaf i b)) m a = (root_ents (CLeaf i b) m a, snd (leaf_coll i b m a)).
Proof. reflexivity. Qed.

Definition layer_meth (m : meth) : meth :=
  match m with
  | record => on_record | record_follows_from => on_follows_from | event => on_event | enter => on_enter | exit => on_exit | _ => m
  end.

Lemma root_unit : forall v c m a, cscope m = true -> mkind m = KU -> m <> drop_span -> m <> on_register_dispatch ->
  call (coll_obj (etb v) c) m a =
    (root_ents c m a ++ ents (layer_meth m) a (match m with current_span => [] | _ => coll_recv false (layer_meth m) c end), RUnit).
Proof.
  intros v c m a Hm Hk Hd Hr. induction c.
  - rewrite leaf_call. destruct m; try discriminate Hm; try discriminate Hk; try congruence; cbn [snd leaf_coll coll_recv ents map layer_meth];
      rewrite app_nil_r; reflexivity.
  - rewrite cwrap_call by exact Hm. exact IHc.
  - rewrite coll_unf_layered. tie3. unfold layered_sem at 1.
    destruct m; try discriminate Hm; try discriminate Hk; try congruence; crow; rewrite ?IHc;
      rewrite ?(sub_unit v s) by reflexivity; cbn [fst pof coll_recv layer_meth]; rewrite ?root_ents_layered, ?ents_app, ?app_assoc; reflexivity.
Qed.

(** `record`, `record_follows_from`, `event`, `enter`, `exit`: the root, then every layer once, inner before outer. *)
Theorem once_inner_first_v : forall v c mc ms a, In (mc, ms) notif_pairs ->
  call (coll_obj (etb v) c) mc a = (root_ents c mc a ++ ents ms a (coll_recv false ms c), RUnit).
Proof.
  intros v c mc ms a H. cbn [notif_pairs In] in H.
  destruct H as [H|[H|[H|[H|[H|[]]]]]]; inversion H; subst; apply (root_unit v c); try reflexivity; discriminate.
Qed.

Theorem current_span_v : forall v c a, call (coll_obj (etb v) c) current_span a = (root_ents c current_span a, RUnit).
Proof. intros. rewrite (root_unit v c current_span) by (try reflexivity; discriminate). cbn [ents map]. rewrite app_nil_r. reflexivity. Qed.

(** `new_span`: the root hands out the id, every layer then sees `on_new_span` with that id. *)
Theorem new_span_v : forall v c a,
  call (coll_obj (etb v) c) new_span a =
    (root_ents c new_span a ++ ents on_new_span (a_cs a, a_id a, 0) (coll_recv false on_new_span c), RId (a_id a)).
Proof.
  intros v c a. induction c.
  - rewrite leaf_call. cbn [snd leaf_coll coll_recv ents map]. rewrite app_nil_r. reflexivity.
  - rewrite cwrap_call by reflexivity. exact IHc.
  - rewrite coll_unf_layered. tie3. unfold layered_sem at 1. crow. rewrite IHc.
    rewrite (sub_unit v s) by reflexivity. cbn [fst pof coll_recv]. rewrite root_ents_layered, ents_app, app_assoc. reflexivity.
Qed.

(** `try_close`: the layers hear `on_close` iff the root says the span closed. *)
Theorem try_close_v : forall v c a,
  call (coll_obj (etb v) c) try_close a =
    if b_close (root_beh c) (a_id a)
    then (root_ents c try_close a ++ ents on_close a (coll_recv false on_close c), RBool true)
    else (root_ents c try_close a, RBool false).
Proof.
  intros v c a. induction c.
  - rewrite leaf_call. cbn [snd leaf_coll coll_recv ents map]. change (root_beh (CLeaf i b)) with b. rewrite app_nil_r.
    destruct (b_close b (a_id a)); reflexivity.
  - rewrite cwrap_call by reflexivity. exact IHc.
  - rewrite coll_unf_layered. tie3. unfold layered_sem at 1. crow. rewrite IHc.
    change (root_beh (CLayered s c)) with (root_beh c). rewrite root_ents_layered.
    destruct (b_close (root_beh c) (a_id a)); cbv beta iota; [|reflexivity].
    rewrite (sub_unit v s) by reflexivity. cbn [fst pof coll_recv]. rewrite ents_app, app_assoc. reflexivity.
Qed.

(** `clone_span`: the layers hear `on_id_change` iff the root returned a different id (a `Registry` never does). *)
Theorem clone_span_v : forall v c a,
  call (coll_obj (etb v) c) clone_span a =
    let nw := r_clone (root_beh c) (a_id a) in
    (root_ents c clone_span a ++
       (if nw =? a_id a then [] else ents on_id_change (a_cs a, a_id a, nw) (coll_recv false on_id_change c)), RId nw).
Proof.
  intros v c a. induction c.
  - rewrite leaf_call. cbn [snd leaf_coll coll_recv ents map]. change (root_beh (CLeaf i b)) with b. cbv zeta.
    destruct (r_clone b (a_id a) =? a_id a); rewrite app_nil_r; reflexivity.
  - rewrite cwrap_call by reflexivity. exact IHc.
  - rewrite coll_unf_layered. tie3. unfold layered_sem at 1. crow. rewrite IHc. cbv beta iota zeta.
    change (root_beh (CLayered s c)) with (root_beh c). rewrite root_ents_layered.
    destruct (r_clone (root_beh c) (a_id a) =? a_id a); [reflexivity|].
    rewrite (sub_unit v s) by reflexivity. cbn [fst pof coll_recv]. rewrite ents_app, app_assoc. reflexivity.
Qed.

(** The deprecated `drop_span`: a `Layered` turns it into `try_close`; a bare (possibly boxed) root sees it as it is. *)
Theorem drop_span_v : forall v c a,
  call (coll_obj (etb v) c) drop_span a =
    if coll_has_layer c then (fst (call (coll_obj (etb v) c) try_close a), RUnit) else (root_ents c drop_span a, RUnit).
Proof.
  intros v c a. induction c.
  - reflexivity.
  - rewrite !cwrap_call by reflexivity. cbn [coll_has_layer]. exact IHc.
  - cbn [coll_has_layer]. rewrite coll_unf_layered. tie3. unfold layered_sem at 1. crow. reflexivity.
Qed.

(** `on_register_dispatch` and (at build time) `on_subscribe`: every layer exactly once. *)
Theorem register_dispatch_v : forall v c a,
  call (coll_obj (etb v) c) on_register_dispatch a =
    (root_ents c on_register_dispatch a ++ ents on_register_dispatch a (coll_recv (negb v) on_register_dispatch c), RUnit).
Proof.
  intros v c a. induction c.
  - rewrite leaf_call. cbn [snd leaf_coll coll_recv ents map]. rewrite app_nil_r. reflexivity.
  - rewrite cwrap_call by reflexivity. exact IHc.
  - rewrite coll_unf_layered. tie3. unfold layered_sem at 1. crow. rewrite IHc.
    rewrite (sub_unit v s) by reflexivity. cbn [fst pof coll_recv]. rewrite root_ents_layered, ents_app, app_assoc. reflexivity.
Qed.

Theorem build_log_v : forall v c, build_log (etb v) c = ents on_subscribe arg0 (coll_recv true on_subscribe c).
Proof.
  intros v c. induction c; cbn [build_log coll_recv].
  - reflexivity.
  - exact IHc.
  - rewrite IHc, (sub_unit v s) by reflexivity. cbn [fst pof]. rewrite ents_app. reflexivity.
Qed.

(** The order inside a pair does not matter for *who* is told. *)
Lemma sub_recv_perm : forall p q m s, Permutation (sub_recv p m s) (sub_recv q m s).
Proof.
  intros p q m s. induction s using sub_ind'; cbn [sub_recv]; try apply Permutation_refl.
  - exact IHs.
  - induction H; cbn [flat_map]; [apply Permutation_refl|]. apply Permutation_app; assumption.
  - destruct p, q; try (apply Permutation_app; assumption).
    + eapply Permutation_trans; [apply Permutation_app_comm|]. apply Permutation_app; assumption.
    + eapply Permutation_trans; [apply Permutation_app_comm|]. apply Permutation_app; assumption.
Qed.
Lemma coll_recv_perm : forall p q m c, Permutation (coll_recv p m c) (coll_recv q m c).
Proof.
  intros p q m c. induction c; cbn [coll_recv]; try apply Permutation_refl; try exact IHc.
  apply Permutation_app; [exact IHc|apply sub_recv_perm].
Qed.
Lemma sub_recv_pair_free : forall p q m s, pair_free_sub s = true -> sub_recv p m s = sub_recv q m s.
Proof.
  intros p q m s. induction s using sub_ind'; cbn [sub_recv pair_free_sub]; intro Hp; try reflexivity; try discriminate Hp.
  - apply IHs; exact Hp.
  - rewrite forallb_forall in Hp. induction H; cbn [flat_map]; [reflexivity|].
    rewrite H, IHForall; [reflexivity| |].
    + intros y Hy. apply Hp. right; exact Hy.
    + apply Hp. left; reflexivity.
Qed.
Lemma coll_recv_pair_free : forall p q m c, pair_free c = true -> coll_recv p m c = coll_recv q m c.
Proof.
  intros p q m c. induction c; cbn [coll_recv pair_free]; intro Hp; try reflexivity.
  - apply IHc; exact Hp.
  - apply andb_prop in Hp. destruct Hp as [H1 H2]. rewrite (IHc H2), (sub_recv_pair_free p q m s H1). reflexivity.
Qed.

(** * Queries: `enabled`, `event_enabled` *)
Lemma until_veto_app : forall p l1 l2,
  until_veto p (l1 ++ l2) =
    let (a1, ok1) := until_veto p l1 in
    if ok1 then let (a2, ok2) := until_veto p l2 in (a1 ++ a2, ok2) else (a1, false).
Proof.
  intros p l1 l2. induction l1 as [|[[i k] b] r IH]; cbn [app until_veto].
  - destruct (until_veto p l2); reflexivity.
  - destruct (p b); [|reflexivity]. rewrite IH. destruct (until_veto p r) as [a1 ok1]. destruct ok1; [|reflexivity].
    destruct (until_veto p l2); reflexivity.
Qed.

Definition q_out (q : qk) (a : arg) (r : list N * bool) : out := (ents (q_meth q) a (fst r), RBool (snd r)).

Lemma filt_query : forall v f q a,
  call (filt_obj (etb v) f) (q_meth q) a = q_out q a (until_veto (q_ans q a) (map (fun ib => (fst ib, true, snd ib)) (filt_q f))).
Proof.
  intros v f q a. induction f.
  - destruct q; cbv [q_out q_meth q_ans filt_obj sub_obj coll_obj call leaf_filt leaf_sub leaf_coll filt_q sub_ask coll_ask map until_veto ents fst snd];
      [destruct (b_enabled b (a_cs a))|destruct (b_event_enabled b (a_cs a))]; reflexivity.
  - rewrite fwrap_call by (destruct q; reflexivity). exact IHf.
  - destruct v, q; vm_compute; reflexivity.
Qed.

Lemma vec_all_flat : forall v q a xs,
  Forall (fun s => call (sub_obj (etb v) s) (q_meth q) a = q_out q a (until_veto (q_ans q a) (sub_ask s))) xs ->
  vec_all (map call (map (sub_obj (etb v)) xs)) (q_meth q) a = q_out q a (until_veto (q_ans q a) (flat_map sub_ask xs)).
Proof.
  intros v q a xs H. induction H; cbn [map vec_all flat_map]; [reflexivity|].
  rewrite H, until_veto_app. unfold q_out at 1. destruct (until_veto (q_ans q a) (sub_ask x)) as [a1 ok1]. cbn [fst snd].
  destruct ok1; [|reflexivity]. rewrite IHForall. unfold q_out. destruct (until_veto (q_ans q a) (flat_map sub_ask l)) as [a2 ok2].
  cbn [fst snd]. rewrite ents_app. reflexivity.
Qed.

Lemma sub_query : forall v s q a,
  call (sub_obj (etb v) s) (q_meth q) a = q_out q a (until_veto (q_ans q a) (sub_ask s)).
Proof.
  intros v s q a. induction s using sub_ind'.
  - destruct q; cbv [q_out q_meth q_ans filt_obj sub_obj coll_obj call leaf_filt leaf_sub leaf_coll filt_q sub_ask coll_ask map until_veto ents fst snd];
      [destruct (b_enabled b (a_cs a))|destruct (b_event_enabled b (a_cs a))]; reflexivity.
  - rewrite swrap_call by (destruct q; reflexivity). exact IHs.
  - destruct v, q; vm_compute; reflexivity.
  - rewrite sub_unf_vec. tie3. unfold vec_sem at 1. pose proof (vec_all_flat v q a xs H) as HV.
    destruct q; cbn [q_meth] in *; crow; exact HV.
  - rewrite sub_unf_pair. tie3. unfold layered_sem at 1. cbn [sub_ask]. rewrite until_veto_app.
    destruct q; cbn [q_meth] in *; crow; cbn [meth_name]; crow; rewrite IHs1, IHs2; unfold q_out;
      destruct (until_veto _ (sub_ask s1)) as [a1 ok1]; destruct (until_veto _ (sub_ask s2)) as [a2 ok2]; cbn [fst snd];
      destruct ok1; cbn [fst snd q_meth]; rewrite ?ents_app; reflexivity.
  - destruct v, q; vm_compute; reflexivity.
  - rewrite sub_unf_probe. unfold probe_sem. destruct q; cbn [q_meth sub_ask]; [apply (filt_query v f QEnabled a)|apply (filt_query v f QEvent a)].
Qed.

(** Every layer is asked at most once, outer layers first, the root collector last; nobody is asked after the first `false`. *)
Theorem query_outer_first_until_veto_v : forall v c q a,
  call (coll_obj (etb v) c) (q_meth q) a = q_out q a (until_veto (q_ans q a) (coll_ask c)).
Proof.
  intros v c q a. induction c.
  - rewrite leaf_call. unfold q_out, root_ents. cbn [coll_ask root_beh coll_root root_id fst snd].
    destruct q; cbn [q_meth q_ans leaf_coll snd]; unfold r_enabled, r_event_enabled; destruct (b_registry b); cbn [until_veto q_ans]; cbn [ents map fst snd];
      try reflexivity; [destruct (b_enabled b (a_cs a))|destruct (b_event_enabled b (a_cs a))]; reflexivity.
  - rewrite cwrap_call by (destruct q; reflexivity). exact IHc.
  - rewrite coll_unf_layered. tie3. unfold layered_sem at 1. cbn [coll_ask]. rewrite until_veto_app.
    pose proof (sub_query v s q a) as HS.
    destruct q; cbn [q_meth] in *; crow; rewrite HS, IHc; unfold q_out;
      destruct (until_veto _ (sub_ask s)) as [a1 ok1]; destruct (until_veto _ (coll_ask c)) as [a2 ok2]; cbn [fst snd];
      destruct ok1; cbn [fst snd q_meth]; rewrite ?ents_app; reflexivity.
Qed.

(** What `Dispatch::event` does with a stack: the `event_enabled` round, then (only if nobody vetoed) the delivery. *)
Theorem dispatch_event_v : forall v c a,
  dispatch_sem (etb v) (call (coll_obj (etb v) c)) event a = (expected_event c a, RUnit).
Proof.
  intros v c a. unfold dispatch_sem. crow. pose proof (query_outer_first_until_veto_v v c QEvent a) as HQ. cbn [q_meth] in HQ.
  rewrite HQ. unfold q_out, expected_event. cbn [q_meth]. destruct (until_veto (q_ans QEvent a) (coll_ask c)) as [asked ok]. cbn [fst snd]. destruct ok.
  - rewrite (once_inner_first_v v c event on_event a) by (cbn; tauto). reflexivity.
  - rewrite app_nil_r. reflexivity.
Qed.

(** A veto in the `event_enabled` round: the event reaches nobody (neither the root's `event` nor any `on_event`). *)
Theorem veto_stops_delivery_v : forall v c a,
  snd (until_veto (q_ans QEvent a) (coll_ask c)) = false ->
  forall e, In e (fst (dispatch_sem (etb v) (call (coll_obj (etb v) c)) event a)) -> snd (fst e) = event_enabled.
Proof.
  intros v c a Hv e He. rewrite dispatch_event_v in He. unfold expected_event in He.
  destruct (until_veto (q_ans QEvent a) (coll_ask c)) as [asked ok]. cbn [snd] in Hv. subst ok. cbn [fst] in He.
  rewrite app_nil_r in He. unfold ents in He. apply in_map_iff in He. destruct He as [i [Hi _]]. subst e. reflexivity.
Qed.

(** A veto in the metadata check: `Dispatch::enabled` answers `false` (the macros then do not dispatch at all), and the
    vetoing layer is the last one asked. *)
Theorem enabled_veto_v : forall v c a,
  snd (until_veto (q_ans QEnabled a) (coll_ask c)) = false ->
  snd (dispatch_sem (etb v) (call (coll_obj (etb v) c)) enabled a) = RBool false.
Proof.
  intros v c a Hv. unfold dispatch_sem. crow. pose proof (query_outer_first_until_veto_v v c QEnabled a) as HQ. cbn [q_meth] in HQ.
  rewrite HQ. unfold q_out. cbn [snd].
  rewrite Hv. reflexivity.
Qed.

Lemma until_veto_last : forall p qs, snd (until_veto p qs) = false ->
  exists pre i k b, In (i, k, b) qs /\ p b = false /\ fst (until_veto p qs) = pre ++ [i] /\
                    (forall j, In j pre -> exists k' b', In (j, k', b') qs /\ p b' = true).
Proof.
  intros p qs. induction qs as [|[[i k] b] r IH]; cbn [until_veto]; intro H.
  - discriminate H.
  - destruct (p b) eqn:E.
    + destruct (until_veto p r) as [l ok] eqn:Er. cbn [snd] in H. subst ok. destruct (IH eq_refl) as [pre [i' [k' [b' [Hin [Hp [Hl Hall]]]]]]].
      exists (i :: pre), i', k', b'. cbn [fst] in *. repeat split.
      * right; exact Hin.
      * exact Hp.
      * rewrite Hl. reflexivity.
      * intros j [Hj|Hj]; [subst j; exists k, b; split; [left; reflexivity|exact E]|].
        destruct (Hall j Hj) as [k2 [b2 [H1 H2]]]. exists k2, b2. split; [right; exact H1|exact H2].
    + exists [], i, k, b. repeat split; try (left; reflexivity); try exact E. intros j [].
Qed.

(** * `register_callsite` on every stack: the tree walk of Spec.v ([rc_coll]) *)
Definition rc_out (r : list entry * interest) : out := (fst r, RInt (snd r)).

Lemma filt_rc_v : forall v f a, call (filt_obj (etb v) f) callsite_enabled a = rc_out (filt_rc a f).
Proof.
  intros v f a. induction f.
  - reflexivity.
  - rewrite fwrap_call by reflexivity. exact IHf.
  - destruct v; vm_compute; reflexivity.
Qed.

Lemma vec_rc_flat : forall v a xs,
  Forall (fun s => call (sub_obj (etb v) s) register_callsite a = rc_out (rc_sub a s)) xs ->
  forall p q, vec_interest_all (map call (map (sub_obj (etb v)) xs)) register_callsite a p q =
    (List.concat (map fst (map (rc_sub a) xs)),
     RInt (interest_all (p || existsb (fun r => is_never (snd r)) (map (rc_sub a) xs))
                        (q && forallb (fun r => is_always (snd r)) (map (rc_sub a) xs)))).
Proof.
  intros v a xs H. induction H; intros p q; cbn [map vec_interest_all List.concat existsb forallb].
  - rewrite orb_false_r, andb_true_r. reflexivity.
  - rewrite H. unfold rc_out at 1. rewrite IHForall. rewrite orb_assoc, andb_assoc. reflexivity.
Qed.

Lemma sub_rc_v : forall v s a, call (sub_obj (etb v) s) register_callsite a = rc_out (rc_sub a s).
Proof.
  intros v s a. induction s using sub_ind'.
  - reflexivity.
  - rewrite swrap_call by reflexivity. exact IHs.
  - destruct v; vm_compute; reflexivity.
  - rewrite sub_unf_vec. tie3. unfold vec_sem at 1. crow. rewrite (vec_rc_flat v a xs H). reflexivity.
  - rewrite sub_unf_pair. tie3. unfold layered_sem at 1. crow. cbn [meth_name]. crow. rewrite IHs1, IHs2.
    cbn [rc_sub]. unfold rc_out, rc_pick. destruct (rc_sub a s1) as [lo io]. destruct (rc_sub a s2) as [li ii]. cbn [fst snd].
    destruct io; cbn; try reflexivity. destruct ii; reflexivity.
  - destruct v; vm_compute; reflexivity.
  - rewrite sub_unf_probe. unfold probe_sem. apply filt_rc_v.
Qed.

Lemma flags_hsf : forall c, hsf (flags_of_root c) = false.
Proof. destruct c; reflexivity. Qed.
Lemma flags_ihsf_always : forall a c, ihsf (flags_of_root c) = true -> snd (rc_coll a c) = IAlways.
Proof. intros a c. destruct c; cbn; intro H; try discriminate H. unfold r_interest. rewrite H. reflexivity. Qed.

(** Every stack, every callsite: who is asked, in which order, who is skipped after a `never`, and the answer. *)
Theorem register_callsite_v : forall v c a, call (coll_obj (etb v) c) register_callsite a = rc_out (rc_coll a c).
Proof.
  intros v c a. induction c.
  - reflexivity.
  - rewrite cwrap_call by reflexivity. exact IHc.
  - rewrite coll_unf_layered. tie3. unfold layered_sem at 1. crow. rewrite (sub_rc_v v s a), IHc.
    cbn [rc_coll]. unfold rc_out, rc_pick. rewrite flags_hsf. pose proof (flags_ihsf_always a c) as HA.
    destruct (rc_sub a s) as [lo io]. destruct (rc_coll a c) as [li ii]. cbn [fst snd negb andb] in *.
    unfold pick_interest_res. rewrite flags_hsf.
    destruct io; cbn [is_never is_sometimes]; try reflexivity.
    destruct (ihsf (flags_of_root c)); [rewrite (HA eq_refl); reflexivity|rewrite andb_false_r; reflexivity].
Qed.

(** The walk visits nobody twice and nobody out of order: what is logged is a subsequence of [coll_ask]. *)
Inductive sublist {A} : list A -> list A -> Prop :=
| sub_nil : forall l, sublist [] l
| sub_take : forall x l1 l2, sublist l1 l2 -> sublist (x :: l1) (x :: l2)
| sub_skip : forall x l1 l2, sublist l1 l2 -> sublist l1 (x :: l2).
Lemma sublist_refl : forall A (l : list A), sublist l l.
Proof. induction l; constructor; assumption. Qed.
Lemma sublist_app : forall A (a b c d : list A), sublist a c -> sublist b d -> sublist (a ++ b) (c ++ d).
Proof. intros A a b c d H. induction H; cbn [app]; intro Hb; [induction l; [exact Hb|constructor; exact IHl]|constructor; auto|constructor; auto]. Qed.
Lemma sublist_app_l : forall A (a c d : list A), sublist a c -> sublist a (c ++ d).
Proof. intros A a c d H. rewrite <- (app_nil_r a). apply sublist_app; [exact H|constructor]. Qed.

Definition ids (l : list entry) : list N := map (fun e => fst (fst e)) l.
Definition ask_ids (l : list (N * bool * beh)) : list N := map (fun x => fst (fst x)) l.

Lemma filt_rc_sub : forall a f, sublist (ids (fst (filt_rc a f))) (ask_ids (map (fun ib => (fst ib, true, snd ib)) (filt_q f))).
Proof. intros a f. induction f; cbn; [apply sublist_refl|exact IHf|constructor]. Qed.
Lemma rc_sub_sub : forall a s, sublist (ids (fst (rc_sub a s))) (ask_ids (sub_ask s)).
Proof.
  intros a s. induction s using sub_ind'; cbn [rc_sub sub_ask].
  - apply sublist_refl.
  - exact IHs.
  - constructor.
  - cbn [fst]. induction H; cbn [map List.concat flat_map]; [constructor|].
    unfold ids, ask_ids in *. rewrite !map_app. apply sublist_app; assumption.
  - unfold rc_pick. destruct (is_never (snd (rc_sub a s1))); cbn [fst]; unfold ids, ask_ids in *; rewrite !map_app.
    + apply sublist_app_l. exact IHs1.
    + apply sublist_app; assumption.
  - constructor.
  - apply filt_rc_sub.
Qed.
Theorem rc_coll_sublist : forall a c, sublist (ids (fst (rc_coll a c))) (ask_ids (coll_ask c)).
Proof.
  intros a c. induction c; cbn [rc_coll coll_ask].
  - cbn [fst]. destruct (b_registry b); apply sublist_refl.
  - exact IHc.
  - unfold rc_pick. destruct (is_never (snd (rc_sub a s))); cbn [fst]; unfold ids, ask_ids in *; rewrite !map_app.
    + apply sublist_app_l. apply rc_sub_sub.
    + apply sublist_app; [apply rc_sub_sub|exact IHc].
Qed.

(** On a linear stack the tree walk is the plain list walk [rc_until] over [coll_ask]. *)
Lemma linear_sub_ask : forall s, linear_sub s = true -> sub_ask s = [] \/ exists x, sub_ask s = [x].
Proof.
  induction s using sub_ind'; cbn [linear_sub sub_ask]; intro Hl; try discriminate Hl.
  - right; eexists; reflexivity.
  - apply IHs; exact Hl.
  - left; reflexivity.
  - destruct xs as [|x [|y r]]; try discriminate Hl.
    + left; reflexivity.
    + inversion H; subst. cbn [flat_map]. rewrite app_nil_r. apply H2; exact Hl.
  - left; reflexivity.
  - induction f; cbn [filt_q map]; [right; eexists; reflexivity|exact IHf|left; reflexivity].
Qed.

Lemma filt_rc_linear : forall a f, a = (a_cs a, 0, 0) ->
  filt_rc a f = rc_until (a_cs a) (map (fun ib => (fst ib, true, snd ib)) (filt_q f)).
Proof.
  intros a f Ha. induction f; cbn [filt_rc filt_q map rc_until fst snd rc_meth]; [|exact IHf|reflexivity].
  rewrite <- Ha. destruct (b_interest b (a_cs a)); reflexivity.
Qed.
Lemma rc_sub_linear : forall a s, a = (a_cs a, 0, 0) -> linear_sub s = true -> rc_sub a s = rc_until (a_cs a) (sub_ask s).
Proof.
  intros a s Ha. induction s using sub_ind'; cbn [linear_sub]; intro Hl; try discriminate Hl; cbn [rc_sub sub_ask].
  - cbn [rc_until rc_meth]. rewrite <- Ha. destruct (b_interest b (a_cs a)); reflexivity.
  - apply IHs; exact Hl.
  - reflexivity.
  - destruct xs as [|x [|y r]]; try discriminate Hl.
    + reflexivity.
    + inversion H; subst. cbn [map List.concat existsb forallb flat_map]. rewrite !app_nil_r, <- (H2 Hl).
      destruct (rc_sub a x) as [l i0]. cbn [fst snd]. destruct i0; reflexivity.
  - reflexivity.
  - apply filt_rc_linear; exact Ha.
Qed.
Theorem rc_coll_linear : forall a c, a = (a_cs a, 0, 0) -> linear c = true -> rc_coll a c = rc_until (a_cs a) (coll_ask c).
Proof.
  intros a c Ha. induction c; cbn [linear rc_coll coll_ask]; intro Hl.
  - unfold r_interest. destruct (b_registry b); [reflexivity|]. cbn [rc_until rc_meth]. rewrite <- Ha. destruct (b_interest b (a_cs a)); reflexivity.
  - apply IHc; exact Hl.
  - apply andb_prop in Hl. destruct Hl as [Hs Hc]. rewrite (rc_sub_linear a s Ha Hs), (IHc Hc). unfold rc_pick.
    destruct (linear_sub_ask s Hs) as [E|[[[i k] b] E]]; rewrite E; cbn [app rc_until fst snd is_never is_sometimes].
    + destruct (rc_until (a_cs a) (coll_ask c)); reflexivity.
    + destruct (b_interest b (a_cs a)); cbn [fst snd is_never is_sometimes app]; try reflexivity;
        destruct (rc_until (a_cs a) (coll_ask c)); reflexivity.
Qed.

(** * All of the above at the level the harness observes: one dispatcher-level operation on a stack *)
Theorem spec_op_sound_v : forall v c o l, spec_op c o = Some l -> fst (run_op (etb v) (coll_obj (etb v) c) o) = l.
Proof.
  intros v c o l H. unfold run_op. destruct o; cbn [spec_op op_call] in *; try discriminate H.
  - inversion H; subst l. unfold dispatch_sem. crow. rewrite (register_callsite_v v c (cs, 0, 0)). reflexivity.
  - inversion H; subst l. unfold dispatch_sem. crow.
    pose proof (query_outer_first_until_veto_v v c QEnabled (cs, 0, 0)) as HQ. cbn [q_meth] in HQ. rewrite HQ. reflexivity.
  - inversion H; subst l. unfold dispatch_sem. crow. rewrite new_span_v. reflexivity.
  - inversion H; subst l. unfold dispatch_sem. crow. rewrite (once_inner_first_v v c record on_record) by (cbn; tauto). reflexivity.
  - inversion H; subst l. unfold dispatch_sem. crow.
    rewrite (once_inner_first_v v c record_follows_from on_follows_from) by (cbn; tauto). reflexivity.
  - inversion H; subst l. rewrite dispatch_event_v. reflexivity.
  - inversion H; subst l. unfold dispatch_sem. crow. rewrite (once_inner_first_v v c enter on_enter) by (cbn; tauto). reflexivity.
  - inversion H; subst l. unfold dispatch_sem. crow. rewrite (once_inner_first_v v c exit on_exit) by (cbn; tauto). reflexivity.
  - inversion H; subst l. unfold dispatch_sem. crow. rewrite clone_span_v. reflexivity.
  - inversion H; subst l. unfold dispatch_sem. crow. rewrite try_close_v. cbn [a_id fst snd].
    destruct (b_close (root_beh c) id); [reflexivity|rewrite app_nil_r; reflexivity].
  - unfold dispatch_sem. crow. rewrite drop_span_v. destruct (coll_has_layer c).
    + inversion H; subst l. rewrite try_close_v. cbn [a_id fst snd]. destruct (b_close (root_beh c) id); [reflexivity|rewrite app_nil_r; reflexivity].
    + inversion H; subst l. reflexivity.
  - inversion H; subst l. unfold dispatch_sem. crow. rewrite current_span_v. reflexivity.
Qed.
