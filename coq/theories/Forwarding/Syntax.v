(** C09 — data types the forwarding translator (translators/forwarding.py) emits into.
    Nothing about the code is *defined* here: only the vocabulary of row classes, so that the generated file
    [TVGen.Gen_forwarding] compiles whatever the Rust source looks like (names travel as strings; a name this
    file does not know is reported by [Model.undecoded] and fails the table obligation instead of the build). *)
From Coq Require Export List NArith Bool String.
Export ListNotations.
Local Open Scope string_scope.

Inductive trait := TCollect | TSubscribe | TFilter.

(** The implementors whose `impl Trait for X` blocks are read. *)
Inductive wrapper :=
| WDispatch                                   (* tracing_core::Dispatch's own forwarding to `self.collector()` *)
| WBoxC | WArcC | WFmtCollector | WLayeredC   (* impl Collect for Box<C> / Arc<C> / fmt::Collector / Layered<S, C> *)
| WOptionS | WBoxS | WBoxDynS | WVecS | WReloadS | WLayeredS | WIdentityS | WFilteredS   (* impl Subscribe<C> for ... *)
| WArcDynF | WBoxDynF | WOptionF | WReloadF | WAndF | WOrF | WNotF.                      (* impl Filter<S> for ... *)

(** Every `&self` / `&mut self` method of the three traits (one constructor per *name*; the trait disambiguates). *)
Inductive meth :=
| on_register_dispatch | register_callsite | enabled | max_level_hint | new_span | record | record_follows_from
| event_enabled | event | enter | exit | clone_span | drop_span | try_close | current_span | downcast_raw
| on_subscribe | on_new_span | on_record | on_follows_from | on_event | on_enter | on_exit | on_close | on_id_change
| callsite_enabled.

(** Literal results that appear in `None =>` arms, poisoned-lock fallbacks and trait default bodies. *)
Inductive lit := LUnit | LTrue | LFalse | LAlways | LSometimes | LNever | LHintNone | LHintOff | LIdClone | LOther (s : string).

(** How `impl Subscribe for Vec<S>` combines its elements' answers. *)
Inductive comb :=
| CUnit                       (* `for s in self { s.m(args); }` *)
| CAll                        (* `self.iter().all(|s| s.m(args))` *)
| CInterestHighest            (* the former "return highest level of interest" fold, starting from `never` (before f08c5cd; kept so that
                                 a tree with that body still has a faithful model: the table obligation rejects it) *)
| CInterestHighestOrAlways    (* the same fold, but an empty Vec answers `always` (the superseded fixes/F14.patch) *)
| CInterestAll                (* every element is asked; `never` if any says never, `always` iff all say always, else `sometimes` *)
| CHintMax.                   (* max of the hints starting from OFF, `None` as soon as one element has no hint *)

Inductive order := InnerOuter | OuterInner.

(** Recognised `downcast_raw` bodies (they decide [is_none], which [Layered::pick_level_hint] consults). *)
Inductive dcast :=
| DcSelf              (* own TypeId only (the trait default) *)
| DcSelfOrFwd         (* own TypeId, else forward *)
| DcFwd               (* plain forward *)
| DcOption            (* own TypeId; NoneLayerMarker iff `is_none()`; else forward into `Some` *)
| DcVec               (* own TypeId; psf marker needs all; else first element that answers (before 178eca9) *)
| DcVecNoneIfEmpty    (* DcVec + NoneLayerMarker iff the Vec is empty *)
| DcReload            (* only the NoneLayerMarker query is forwarded *)
| DcReloadTry         (* the same through a non-blocking `try_read!` (not answered while a reload is in progress) *)
| DcLayeredC          (* own TypeId, else subscriber.or_else(inner) *)
| DcLayeredS          (* own TypeId; psf marker: and; else subscriber.or_else(inner) *)
| DcFiltered.         (* own / S / F / psf marker *)

(** The class of one method body. *)
Inductive cls :=
| Fwd                                              (* exactly one call of the same method on the inner value, same arguments in order *)
| FwdOpt (none : lit)                              (* Option: Some -> forward, None -> the literal *)
| FwdAll (c : comb)                                (* Vec *)
| FwdLock (poisoned : lit)                         (* reload: forward through the read/write lock, acquired with the BLOCKING read()/write(); the literal is the poisoned-while-panicking fallback *)
| FwdTryLock (busy : lit)                          (* the same with try_read()/try_write(): whenever the lock is busy the callback is skipped and the literal returned *)
| Missing                                          (* not overridden: the trait default applies *)
| Seq2 (o : order) (m_inner m_outer : string)      (* Layered: one call on each side, in that order; result unit *)
| Gate (m_outer m_inner : string) (clears : bool)  (* if subscriber.m(..) { inner.m(..) } else { [clear_enabled();] false } *)
| PickInterest (m_outer m_inner : string)          (* self.pick_interest(subscriber.m(meta), || inner.m(meta)) *)
| PickHint (probe : string)                        (* self.pick_level_hint(subscriber.hint(), inner.hint(), super::<probe>(&self.inner)) *)
| NewSpan                                          (* let id = inner.new_span(span); subscriber.on_new_span(span, &id, ctx); id *)
| CloneSpan                                        (* let new = inner.clone_span(old); if &new != old { subscriber.on_id_change(old, &new, ctx) }; new *)
| TryClose                                         (* if inner.try_close(id) { subscriber.on_close(id, ctx); true } else { false } (+ registry close guard) *)
| SelfCall (m : string)                            (* self.m(args); *)
| EventGate                                        (* Dispatch::event: if c.event_enabled(e) { c.event(e) } *)
| Downcast (d : dcast)
| Const (l : lit)                                   (* calls nothing, returns the literal *)
| Logic (calls : list (string * string))           (* anything else: only its ordered list of (field, method) calls on self's fields is recorded *)
| Custom (why : string).                           (* unrecognised: no obligation about it can be discharged *)

(** Trait default bodies. *)
Inductive dflt :=
| DRequired                                        (* no default body *)
| DLit (l : lit)                                   (* ignores its arguments, calls nothing *)
| DIfSelf (m : string) (t e : lit)                 (* if self.m(args) { t } else { e } *)
| DSeqSelf (m : string) (l : lit)                  (* self.m(args); l *)
| DDowncastSelf
| DOther (s : string).

(** ** Names *)
Definition meth_name (m : meth) : string :=
  match m with
  | on_register_dispatch => "on_register_dispatch" | register_callsite => "register_callsite" | enabled => "enabled"
  | max_level_hint => "max_level_hint" | new_span => "new_span" | record => "record"
  | record_follows_from => "record_follows_from" | event_enabled => "event_enabled" | event => "event"
  | enter => "enter" | exit => "exit" | clone_span => "clone_span" | drop_span => "drop_span" | try_close => "try_close"
  | current_span => "current_span" | downcast_raw => "downcast_raw" | on_subscribe => "on_subscribe"
  | on_new_span => "on_new_span" | on_record => "on_record" | on_follows_from => "on_follows_from"
  | on_event => "on_event" | on_enter => "on_enter" | on_exit => "on_exit" | on_close => "on_close"
  | on_id_change => "on_id_change" | callsite_enabled => "callsite_enabled"
  end.

Definition all_meths : list meth :=
  [on_register_dispatch; register_callsite; enabled; max_level_hint; new_span; record; record_follows_from;
   event_enabled; event; enter; exit; clone_span; drop_span; try_close; current_span; downcast_raw;
   on_subscribe; on_new_span; on_record; on_follows_from; on_event; on_enter; on_exit; on_close; on_id_change;
   callsite_enabled].

Definition decode_meth (s : string) : option meth :=
  find (fun m => String.eqb (meth_name m) s) all_meths.

Definition wrapper_name (w : wrapper) : string :=
  match w with
  | WDispatch => "Dispatch" | WBoxC => "Box<C>" | WArcC => "Arc<C>" | WFmtCollector => "fmt::Collector" | WLayeredC => "Layered"
  | WOptionS => "Option<S>" | WBoxS => "Box<S>" | WBoxDynS => "Box<dyn Subscribe>" | WVecS => "Vec<S>"
  | WReloadS => "reload::Subscriber" | WLayeredS => "Layered" | WIdentityS => "Identity" | WFilteredS => "Filtered"
  | WArcDynF => "Arc<dyn Filter>" | WBoxDynF => "Box<dyn Filter>" | WOptionF => "Option<F>" | WReloadF => "reload::Subscriber"
  | WAndF => "And" | WOrF => "Or" | WNotF => "Not"
  end.

Definition wrapper_trait (w : wrapper) : trait :=
  match w with
  | WDispatch | WBoxC | WArcC | WFmtCollector | WLayeredC => TCollect
  | WOptionS | WBoxS | WBoxDynS | WVecS | WReloadS | WLayeredS | WIdentityS | WFilteredS => TSubscribe
  | WArcDynF | WBoxDynF | WOptionF | WReloadF | WAndF | WOrF | WNotF => TFilter
  end.

Definition all_wrappers : list wrapper :=
  [WDispatch; WBoxC; WArcC; WFmtCollector; WLayeredC; WOptionS; WBoxS; WBoxDynS; WVecS; WReloadS; WLayeredS; WIdentityS;
   WFilteredS; WArcDynF; WBoxDynF; WOptionF; WReloadF; WAndF; WOrF; WNotF].

Definition trait_eqb (a b : trait) : bool :=
  match a, b with TCollect, TCollect | TSubscribe, TSubscribe | TFilter, TFilter => true | _, _ => false end.

Definition decode_wrapper (t : trait) (s : string) : option wrapper :=
  find (fun w => trait_eqb (wrapper_trait w) t && String.eqb (wrapper_name w) s) all_wrappers.

(** ** Decidable equality (used by the table obligation; computed by the kernel) *)
Definition lit_eq_dec : forall a b : lit, {a = b} + {a <> b}.
Proof. decide equality; apply string_dec. Defined.
Definition cls_eq_dec : forall a b : cls, {a = b} + {a <> b}.
Proof.
  decide equality; try apply string_dec; try apply lit_eq_dec; try apply bool_dec;
    try (decide equality; fail).
  apply list_eq_dec; decide equality; apply string_dec.
Defined.
Definition dflt_eq_dec : forall a b : dflt, {a = b} + {a <> b}.
Proof. decide equality; try apply string_dec; try apply lit_eq_dec. Defined.
Definition meth_eq_dec : forall a b : meth, {a = b} + {a <> b}.
Proof. decide equality. Defined.
Definition wrapper_eq_dec : forall a b : wrapper, {a = b} + {a <> b}.
Proof. decide equality. Defined.

Definition cls_eqb (a b : cls) : bool := if cls_eq_dec a b then true else false.
Definition dflt_eqb (a b : dflt) : bool := if dflt_eq_dec a b then true else false.
Definition meth_eqb (a b : meth) : bool := if meth_eq_dec a b then true else false.
Definition wrapper_eqb (a b : wrapper) : bool := if wrapper_eq_dec a b then true else false.
