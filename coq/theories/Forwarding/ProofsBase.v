(** C09 — proofs, part 1: from the generated table to the expected one.

    [table_ok = true] (kernel computation over the generated rows) gives a [v] such that the generated tables and the
    hand-written [etb v] agree on every row the semantics consults; the semantics depends on the tables only through
    [row] / [dflt_of], so every object, tree and workload means the same under both ([*_ext]).  All later theorems are
    proved for [etb v], where rows compute, and transported. *)
From TV Require Export Forwarding.Expected.
Local Open Scope N_scope.
Global Arguments tie : simpl never.

Definition tables_ext (tb tb' : tables) : Prop :=
  (forall w m, row tb w m = row tb' w m) /\ (forall t m, dflt_of tb t m = dflt_of tb' t m).

Lemma meth_eqb_eq : forall a b, meth_eqb a b = true -> a = b.
Proof. intros a b. unfold meth_eqb. destruct (meth_eq_dec a b); congruence. Qed.
Lemma cls_eqb_eq : forall a b, cls_eqb a b = true -> a = b.
Proof. intros a b. unfold cls_eqb. destruct (cls_eq_dec a b); congruence. Qed.
Lemma dflt_eqb_eq : forall a b, dflt_eqb a b = true -> a = b.
Proof. intros a b. unfold dflt_eqb. destruct (dflt_eq_dec a b); congruence. Qed.

Lemma in_trait_In : forall t m, in_trait t m = true -> In m (trait_meths t).
Proof.
  intros t m H. unfold in_trait in H. apply existsb_exists in H. destruct H as [x [Hx He]].
  apply meth_eqb_eq in He. subst. exact Hx.
Qed.

Lemma all_wrappers_complete : forall w, In w all_wrappers.
Proof. destruct w; simpl; tauto. Qed.

Lemma rows_ok_ext : forall v tb, rows_ok v tb = true -> forall w m, row tb w m = row (etb v) w m.
Proof.
  intros v tb H w m. unfold row. destruct (in_trait (wrapper_trait w) m) eqn:E; [|reflexivity].
  unfold rows_ok in H. rewrite forallb_forall in H. specialize (H w (all_wrappers_complete w)).
  rewrite forallb_forall in H. specialize (H m (in_trait_In _ _ E)). apply cls_eqb_eq in H. exact H.
Qed.

Lemma defaults_ok_ext : forall tb, defaults_ok tb = true -> forall v t m, dflt_of tb t m = dflt_of (etb v) t m.
Proof.
  intros tb H v t m. unfold dflt_of. destruct (in_trait t m) eqn:E; [|reflexivity].
  unfold defaults_ok in H. rewrite forallb_forall in H.
  assert (Ht : In t [TCollect; TSubscribe; TFilter]) by (destruct t; simpl; tauto).
  specialize (H t Ht). rewrite forallb_forall in H. specialize (H m (in_trait_In _ _ E)). apply dflt_eqb_eq in H. exact H.
Qed.

Lemma gen_ext : table_ok = true -> exists v, tables_ext gen_tables (etb v).
Proof.
  unfold table_ok. intro H. apply andb_prop in H. destruct H as [H Hm]. apply andb_prop in H. destruct H as [Hr Hd].
  apply orb_prop in Hr. destruct Hr as [Hr|Hr]; [exists false|exists true]; split;
    try (apply rows_ok_ext; exact Hr); intros; apply defaults_ok_ext; exact Hd.
Qed.

Lemma f18_fixed_ext : forall tb v, tables_ext tb (etb v) -> f18_fixed tb = v.
Proof.
  intros tb v [Hr _]. specialize (Hr WLayeredS on_register_dispatch). unfold row in Hr.
  replace (in_trait (wrapper_trait WLayeredS) on_register_dispatch) with true in Hr by (vm_compute; reflexivity).
  unfold f18_fixed. rewrite Hr. destruct v; vm_compute; reflexivity.
Qed.

(** * The semantics is extensional in the tables and in the children *)
Definition ceq (f g : calls) : Prop := forall m a, f m a = g m a.
Definition oeq (x y : obj) : Prop := ceq (call x) (call y) /\ is_none x = is_none y.

Lemma ceq_refl f : ceq f f. Proof. intros m a; reflexivity. Qed.
Lemma oeq_refl x : oeq x x. Proof. split; [apply ceq_refl|reflexivity]. Qed.

Section Ext.
  Variables tb tb' : tables.
  Hypothesis E : tables_ext tb tb'.

  Lemma default_sem_ext : forall t self self', ceq self self' -> ceq (default_sem tb t self) (default_sem tb' t self').
  Proof.
    intros t self self' Hs m a. unfold default_sem. destruct E as [_ Ed]. rewrite Ed.
    destruct (dflt_of tb' t m); try reflexivity; destruct (decode_meth m0); try reflexivity; rewrite Hs; reflexivity.
  Qed.

  Lemma tie_ext : forall (f f' : calls -> calls),
    (forall self self', ceq self self' -> ceq (f self) (f' self')) -> forall n, ceq (tie n f) (tie n f').
  Proof. intros f f' H n. induction n; cbn [tie]; [apply ceq_refl|apply H; exact IHn]. Qed.

  Lemma fwd_sem_ext : forall w inner inner' self self', ceq inner inner' -> ceq self self' ->
    ceq (fwd_sem tb w inner self) (fwd_sem tb' w inner' self').
  Proof.
    intros w i i' s s' Hi Hs m a. unfold fwd_sem. destruct E as [Er _]. rewrite Er.
    destruct (row tb' w m); try reflexivity; try apply Hi. apply default_sem_ext; assumption.
  Qed.

  Lemma none_sem_ext : forall w self self', ceq self self' -> ceq (none_sem tb w self) (none_sem tb' w self').
  Proof.
    intros w s s' Hs m a. unfold none_sem. destruct E as [Er _]. rewrite Er.
    destruct (row tb' w m); try reflexivity. apply default_sem_ext; assumption.
  Qed.

  Lemma vec_unit_ext : forall xs ys, Forall2 ceq xs ys -> forall m a, vec_unit xs m a = vec_unit ys m a.
  Proof. induction 1; intros; simpl; [reflexivity|]. rewrite H, IHForall2. reflexivity. Qed.
  Lemma vec_all_ext : forall xs ys, Forall2 ceq xs ys -> forall m a, vec_all xs m a = vec_all ys m a.
  Proof. induction 1; intros; simpl; [reflexivity|]. rewrite H, IHForall2. reflexivity. Qed.
  Lemma vec_interest_ext : forall xs ys, Forall2 ceq xs ys -> forall m a acc, vec_interest xs m a acc = vec_interest ys m a acc.
  Proof.
    induction 1; intros; simpl; [reflexivity|]. rewrite H. destruct (y m a) as [lg rs]. destruct rs; try reflexivity.
    rewrite IHForall2. reflexivity.
  Qed.
  Lemma vec_interest_all_ext : forall xs ys, Forall2 ceq xs ys -> forall m a p q, vec_interest_all xs m a p q = vec_interest_all ys m a p q.
  Proof.
    induction 1; intros; simpl; [reflexivity|]. rewrite H. destruct (y m a) as [lg rs]. destruct rs; try reflexivity.
    rewrite IHForall2. reflexivity.
  Qed.
  Lemma vec_hint_ext : forall xs ys, Forall2 ceq xs ys -> forall m a acc, vec_hint xs m a acc = vec_hint ys m a acc.
  Proof.
    induction 1; intros; simpl; [reflexivity|]. rewrite H. destruct (y m a) as [lg rs]. destruct rs; try reflexivity.
    destruct h; try reflexivity. rewrite IHForall2. reflexivity.
  Qed.

  Lemma vec_sem_ext : forall xs ys self self', Forall2 ceq xs ys -> ceq self self' ->
    ceq (vec_sem tb xs self) (vec_sem tb' ys self').
  Proof.
    intros xs ys s s' Hx Hs m a. unfold vec_sem. destruct E as [Er _]. rewrite Er.
    destruct (row tb' WVecS m); try reflexivity.
    - destruct c; try reflexivity.
      + rewrite (vec_unit_ext _ _ Hx). reflexivity.
      + apply vec_all_ext; assumption.
      + apply vec_interest_ext; assumption.
      + destruct Hx; [reflexivity|]. apply vec_interest_ext. constructor; assumption.
      + apply vec_interest_all_ext; assumption.
      + apply vec_hint_ext; assumption.
    - apply default_sem_ext; assumption.
  Qed.

  Lemma layered_sem_ext : forall w fl s s' i i' self self', oeq s s' -> oeq i i' -> ceq self self' ->
    ceq (layered_sem tb w fl s i self) (layered_sem tb' w fl s' i' self').
  Proof.
    intros w fl s s' i i' f f' [Hs Hsn] [Hi Hin] Hf m a. unfold layered_sem. destruct E as [Er _]. rewrite Er.
    destruct (row tb' w m); try reflexivity.
    - apply Hi.
    - apply default_sem_ext; assumption.
    - destruct (decode_meth m_inner), (decode_meth m_outer); try reflexivity. rewrite Hi, Hs. reflexivity.
    - destruct (decode_meth m_outer), (decode_meth m_inner); try reflexivity. rewrite Hi, Hs. reflexivity.
    - destruct (decode_meth m_outer), (decode_meth m_inner); try reflexivity. rewrite Hi, Hs. reflexivity.
    - rewrite Hi, Hs, Hsn, Hin. reflexivity.
    - rewrite Hi. destruct (call i' new_span a) as [l r]. destruct r; try reflexivity. rewrite Hs. reflexivity.
    - rewrite Hi. destruct (call i' clone_span a) as [l r]. destruct r; try reflexivity. rewrite Hs. reflexivity.
    - rewrite Hi. destruct (call i' try_close a) as [l r]. destruct r; try reflexivity. rewrite Hs. reflexivity.
    - destruct (decode_meth m0); try reflexivity. rewrite Hf. reflexivity.
  Qed.

  Lemma dispatch_sem_ext : forall c c', ceq c c' -> ceq (dispatch_sem tb c) (dispatch_sem tb' c').
  Proof.
    intros c c' H m a. unfold dispatch_sem. destruct E as [Er _]. rewrite Er.
    destruct (row tb' WDispatch m); try reflexivity; rewrite ?H; reflexivity.
  Qed.

  Lemma dc_of_ext : forall w, dc_of tb w = dc_of tb' w.
  Proof. intros w. unfold dc_of. destruct E as [Er Ed]. rewrite Er, Ed. reflexivity. Qed.
End Ext.

Lemma probe_sem_ext : forall f f', ceq f f' -> ceq (probe_sem f) (probe_sem f').
Proof. intros f f' H m a. unfold probe_sem. destruct m; try reflexivity; apply H. Qed.

(** Induction principle for [sub] (nested through [list]). *)
Section SubInd.
  Variable P : sub -> Prop.
  Hypothesis Hleaf : forall i b, P (SLeaf i b).
  Hypothesis Hwrap : forall w x, P x -> P (SWrap w x).
  Hypothesis Hnone : P SNone.
  Hypothesis Hvec : forall xs, Forall P xs -> P (SVec xs).
  Hypothesis Hpair : forall o i, P o -> P i -> P (SPair o i).
  Hypothesis Hid : P SIdentity.
  Hypothesis Hprobe : forall f, P (SProbe f).
  Fixpoint sub_ind' (s : sub) : P s :=
    match s with
    | SLeaf i b => Hleaf i b
    | SWrap w x => Hwrap w x (sub_ind' x)
    | SNone => Hnone
    | SVec xs => Hvec xs ((fix go (l : list sub) : Forall P l :=
                             match l with [] => Forall_nil P | x :: r => Forall_cons x (sub_ind' x) (go r) end) xs)
    | SPair o i => Hpair o i (sub_ind' o) (sub_ind' i)
    | SIdentity => Hid
    | SProbe f => Hprobe f
    end.
End SubInd.

Section TreeExt.
  Variables tb tb' : tables.
  Hypothesis E : tables_ext tb tb'.

  Lemma filt_obj_ext : forall f, oeq (filt_obj tb f) (filt_obj tb' f).
  Proof.
    induction f; simpl.
    - apply oeq_refl.
    - split; [|reflexivity]. simpl. apply tie_ext. intros. apply (fwd_sem_ext tb tb' E); [apply IHf|assumption].
    - split; [|reflexivity]. simpl. apply tie_ext. intros. apply (none_sem_ext tb tb' E); assumption.
  Qed.

  Lemma sub_obj_ext : forall s, oeq (sub_obj tb s) (sub_obj tb' s).
  Proof.
    induction s using sub_ind'; simpl.
    - apply oeq_refl.
    - destruct IHs as [Hc Hn]. split; simpl.
      + apply tie_ext. intros. apply (fwd_sem_ext tb tb' E); assumption.
      + unfold none_through. rewrite (dc_of_ext tb tb' E), Hn. reflexivity.
    - split; simpl.
      + apply tie_ext. intros. apply (none_sem_ext tb tb' E); assumption.
      + unfold none_itself. rewrite (dc_of_ext tb tb' E). reflexivity.
    - assert (Hc : Forall2 ceq (map call (map (sub_obj tb) xs)) (map call (map (sub_obj tb') xs))).
      { induction H; simpl; constructor; [apply H|assumption]. }
      assert (Hn : map is_none (map (sub_obj tb) xs) = map is_none (map (sub_obj tb') xs)).
      { induction H; simpl; [reflexivity|]. destruct H as [_ Hx]. rewrite Hx. f_equal. apply IHForall.
        inversion Hc; assumption. }
      split; simpl.
      + apply tie_ext. intros. apply (vec_sem_ext tb tb' E); assumption.
      + unfold none_vec. rewrite (dc_of_ext tb tb' E), Hn. reflexivity.
    - split; simpl.
      + apply tie_ext. intros. apply (layered_sem_ext tb tb' E); assumption.
      + unfold none_layered. rewrite (dc_of_ext tb tb' E). destruct IHs1 as [_ H1], IHs2 as [_ H2]. rewrite H1, H2. reflexivity.
    - split; simpl.
      + apply tie_ext. intros. apply (fwd_sem_ext tb tb' E); [apply ceq_refl|assumption].
      + unfold none_through. rewrite (dc_of_ext tb tb' E). reflexivity.
    - split; [|reflexivity]. simpl. apply probe_sem_ext. apply filt_obj_ext.
  Qed.

  Lemma coll_obj_ext : forall c, oeq (coll_obj tb c) (coll_obj tb' c).
  Proof.
    induction c; simpl.
    - apply oeq_refl.
    - destruct IHc as [Hc Hn]. split; simpl.
      + apply tie_ext. intros. apply (fwd_sem_ext tb tb' E); assumption.
      + unfold none_through. rewrite (dc_of_ext tb tb' E), Hn. reflexivity.
    - pose proof (sub_obj_ext s) as Hs. split; simpl.
      + apply tie_ext. intros. apply (layered_sem_ext tb tb' E); assumption.
      + unfold none_layered. rewrite (dc_of_ext tb tb' E). destruct Hs as [_ H1], IHc as [_ H2]. rewrite H1, H2. reflexivity.
  Qed.

  Lemma build_log_ext : forall c, build_log tb c = build_log tb' c.
  Proof.
    induction c; simpl; try assumption; [reflexivity|]. rewrite IHc. destruct (sub_obj_ext s) as [Hs _]. rewrite Hs. reflexivity.
  Qed.

  Lemma run_op_ext : forall c o, run_op tb (coll_obj tb c) o = run_op tb' (coll_obj tb' c) o.
  Proof.
    intros c o. unfold run_op. destruct (op_call o) as [m a]. destruct (coll_obj_ext c) as [Hc _].
    destruct o; try (apply (dispatch_sem_ext tb tb' E); exact Hc). apply Hc.
  Qed.

  Lemma run_case_ext : forall c ops, run_case tb c ops = run_case tb' c ops.
  Proof.
    intros c ops. unfold run_case. rewrite build_log_ext. destruct (coll_obj_ext c) as [Hc _].
    rewrite (dispatch_sem_ext tb tb' E _ _ Hc). f_equal. apply map_ext. intro o. apply run_op_ext.
  Qed.
End TreeExt.

(** * Tactics for computing with the expected tables *)
Ltac crow :=
  repeat match goal with
  | |- context [row (etb ?v) ?w ?m] =>
      let r := eval vm_compute in (row (etb v) w m) in
      replace (row (etb v) w m) with r by (vm_compute; reflexivity)
  | |- context [dflt_of (etb ?v) ?t ?m] =>
      let r := eval vm_compute in (dflt_of (etb v) t m) in
      replace (dflt_of (etb v) t m) with r by (vm_compute; reflexivity)
  | |- context [decode_meth ?s] =>
      let r := eval vm_compute in (decode_meth s) in
      replace (decode_meth s) with r by (vm_compute; reflexivity)
  | |- context [dc_of (etb ?v) ?w] =>
      let r := eval vm_compute in (dc_of (etb v) w) in
      replace (dc_of (etb v) w) with r by (vm_compute; reflexivity)
  end.
