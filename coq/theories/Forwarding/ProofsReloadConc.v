(** C09 — proofs about the reload cell under concurrency (ReloadConc.v), for EVERY schedule, any number of notifier and
    modifier threads, any programs:
    - with the blocking acquisition every callback of every thread reaches the wrapped value exactly once, in the thread's
      own order, and none is skipped ([blocking_exactly_once], [blocking_finished], [blocking_no_skip]);
    - the cell is never read while it is being modified ([mutual_exclusion]) and the system cannot get stuck
      ([blocking_progress]): whoever waits, waits for a thread that can move;
    - with `try_read` the same is false ([try_skips]: a two-thread witness);
    - the repository under check uses the blocking acquisition ([gen_mode_blocking], computed from the generated rows). *)
From TV Require Import Forwarding.ReloadConc Forwarding.Expected.
From Coq Require Import Arith Lia.

Lemma outs_snoc : forall u l t n b,
  outs u (l ++ [(t, n, b)]) = if Nat.eqb t u then outs u l ++ [(n, b)] else outs u l.
Proof.
  intros. unfold outs. rewrite filter_app, map_app. cbn [filter fst snd map]. destruct (Nat.eqb t u); cbn [map]; [reflexivity|apply app_nil_r].
Qed.

Definition Inv (progs : tid -> tstate) (s : cstate) : Prop :=
  forall u, outs u (clog s) ++ all_delivered (pending (threads s u)) = all_delivered (pending (progs u)).

Lemma Inv_init : forall progs, Inv progs (cinit progs).
Proof. intros progs u. reflexivity. Qed.

Lemma upd_same : forall f t x, upd f t x t = x.
Proof. intros. unfold upd. rewrite Nat.eqb_refl. reflexivity. Qed.
Lemma upd_other : forall f t x u, u <> t -> upd f t x u = f u.
Proof. intros. unfold upd. destruct (Nat.eqb u t) eqn:E; [apply Nat.eqb_eq in E; contradiction|reflexivity]. Qed.

Lemma Inv_step : forall progs s t s', Inv progs s -> cstep Blocking s t = Some s' -> Inv progs s'.
Proof.
  intros progs s t s' HI Hs u. specialize (HI u). unfold cstep in Hs.
  destruct (Nat.eq_dec u t) as [->|Hne].
  - destruct (threads s t) as [pc todo|pc todo] eqn:E.
    + destruct pc.
      * destruct todo as [|n r]; [discriminate Hs|]. destruct (wr s); [discriminate Hs|]. inversion Hs; subst s'; clear Hs.
        cbn [clog threads]. rewrite upd_same. exact HI.
      * destruct todo as [|n r]; [discriminate Hs|]. inversion Hs; subst s'; clear Hs.
        cbn [clog threads]. rewrite upd_same, outs_snoc, Nat.eqb_refl. cbn [pending all_delivered map] in *.
        rewrite <- app_assoc. exact HI.
      * inversion Hs; subst s'; clear Hs. cbn [clog threads]. rewrite upd_same. exact HI.
    + destruct pc as [|k].
      * destruct todo as [|w r]; [discriminate Hs|]. destruct (wr s); [discriminate Hs|]. destruct (rd s); [|discriminate Hs].
        inversion Hs; subst s'; clear Hs. cbn [clog threads]. rewrite upd_same. exact HI.
      * destruct k; inversion Hs; subst s'; clear Hs; cbn [clog threads]; rewrite upd_same; exact HI.
  - assert (Hlog : outs u (clog s') = outs u (clog s) /\ threads s' u = threads s u).
    { destruct (threads s t) as [pc todo|pc todo] eqn:E.
      + destruct pc.
        * destruct todo as [|n r]; [discriminate Hs|]. destruct (wr s); [discriminate Hs|]. inversion Hs; subst s'; cbn [clog threads].
          rewrite upd_other by exact Hne. split; reflexivity.
        * destruct todo as [|n r]; [discriminate Hs|]. inversion Hs; subst s'; cbn [clog threads].
          rewrite upd_other by exact Hne. rewrite outs_snoc. destruct (Nat.eqb t u) eqn:Et; [apply Nat.eqb_eq in Et; congruence|]. split; reflexivity.
        * inversion Hs; subst s'; cbn [clog threads]. rewrite upd_other by exact Hne. split; reflexivity.
      + destruct pc as [|k].
        * destruct todo as [|w r]; [discriminate Hs|]. destruct (wr s); [discriminate Hs|]. destruct (rd s); [|discriminate Hs].
          inversion Hs; subst s'; cbn [clog threads]. rewrite upd_other by exact Hne. split; reflexivity.
        * destruct k; inversion Hs; subst s'; cbn [clog threads]; rewrite upd_other by exact Hne; split; reflexivity. }
    destruct Hlog as [H1 H2]. rewrite H1, H2. exact HI.
Qed.

(** Exactly once, in order, for every schedule: what thread [u] has got through so far, followed by what it still has to do,
    is its program with every callback delivered. *)
Theorem blocking_exactly_once : forall progs sched u,
  let s := run (cstep Blocking) (cinit progs) sched in
  outs u (clog s) ++ all_delivered (pending (threads s u)) = all_delivered (pending (progs u)).
Proof.
  intros progs sched u. apply (inv_run cstate (cstep Blocking) (Inv progs)); [apply Inv_step|apply Inv_init].
Qed.

Theorem blocking_finished : forall progs sched u,
  let s := run (cstep Blocking) (cinit progs) sched in
  finished (threads s u) = true -> outs u (clog s) = all_delivered (pending (progs u)).
Proof.
  intros progs sched u s Hf. pose proof (blocking_exactly_once progs sched u) as H. cbv zeta in H. fold s in H.
  destruct (threads s u) as [pc todo|pc todo]; destruct pc; try discriminate Hf; destruct todo; try discriminate Hf;
    cbn [pending all_delivered map] in H; rewrite app_nil_r in H; exact H.
Qed.

Theorem blocking_no_skip : forall progs sched e,
  In e (clog (run (cstep Blocking) (cinit progs) sched)) -> snd e = true.
Proof.
  intros progs sched [[t n] b] Hin. cbn [snd].
  pose proof (blocking_exactly_once progs sched t) as H. cbv zeta in H.
  assert (Hi : In (n, b) (outs t (clog (run (cstep Blocking) (cinit progs) sched)))).
  { unfold outs. apply in_map_iff. exists (t, n, b). split; [reflexivity|]. apply filter_In. split; [exact Hin|apply Nat.eqb_refl]. }
  assert (Hj : In (n, b) (all_delivered (pending (progs t)))).
  { rewrite <- H. apply in_or_app. left; exact Hi. }
  unfold all_delivered in Hj. apply in_map_iff in Hj. destruct Hj as [x [Hx _]]. inversion Hx. reflexivity.
Qed.

(** ** Lock discipline (both modes): no reader while a writer is inside; holders are exactly where they say they are *)
Definition LockInv (s : cstate) : Prop :=
  NoDup (rd s) /\
  (forall u, wr s = Some u -> rd s = [] /\ exists k r, threads s u = TM (MInside k) r) /\
  (forall u, In u (rd s) -> (exists n r, threads s u = TN NLocked (n :: r)) \/ (exists r, threads s u = TN NDelivered r)) /\
  (forall u, (exists r, threads s u = TN NLocked r) \/ (exists r, threads s u = TN NDelivered r) -> In u (rd s)) /\
  (forall u k r, threads s u = TM (MInside k) r -> wr s = Some u).

Lemma remove1_in : forall t l u, In u (remove1 t l) -> In u l.
Proof. induction l; cbn [remove1]; intros u H; [exact H|]. destruct (Nat.eqb a t); [right; exact H|]. destruct H; [left; exact H|right; apply IHl; exact H]. Qed.
Lemma remove1_nodup : forall t l, NoDup l -> NoDup (remove1 t l) /\ ~ In t (remove1 t l).
Proof.
  induction l; cbn [remove1]; intro H; [split; [constructor|intros []]|]. inversion H; subst.
  destruct (Nat.eqb a t) eqn:E.
  - apply Nat.eqb_eq in E. subst. split; assumption.
  - destruct (IHl H3) as [H4 H5]. split.
    + constructor; [|exact H4]. intro Hin. apply H2. eapply remove1_in; exact Hin.
    + intros [Ha|Hin]; [subst; rewrite Nat.eqb_refl in E; discriminate|contradiction].
Qed.
Lemma remove1_other : forall t l u, u <> t -> In u l -> In u (remove1 t l).
Proof.
  induction l; cbn [remove1]; intros u Hne H; [exact H|]. destruct (Nat.eqb a t) eqn:E.
  - apply Nat.eqb_eq in E. subst. destruct H; [congruence|exact H].
  - destruct H; [left; exact H|right; apply IHl; assumption].
Qed.

Ltac lsplit := unfold LockInv; cbn [rd wr threads]; split; [|split; [|split; [|split]]].
Ltac upd_cases u t := destruct (Nat.eq_dec u t) as [->|?]; [rewrite ?upd_same in *|rewrite ?upd_other in * by assumption].

Lemma LockInv_init : forall progs, (forall u, fresh (progs u) = true) -> LockInv (cinit progs).
Proof.
  intros progs Hf. unfold cinit. lsplit.
  - constructor.
  - intros u H. discriminate H.
  - intros u [].
  - intros u [[r H]|[r H]]; specialize (Hf u); rewrite H in Hf; discriminate Hf.
  - intros u k r H. specialize (Hf u). rewrite H in Hf. discriminate Hf.
Qed.

Lemma LockInv_step : forall mode s t s', LockInv s -> cstep mode s t = Some s' -> LockInv s'.
Proof.
  intros mode s t s' [Hnd [Hw [Hr [Hrl Hm]]]] Hs. unfold cstep in Hs.
  destruct (threads s t) as [pc todo|pc todo] eqn:E.
  - destruct pc.
    + destruct todo as [|n r]; [discriminate Hs|]. destruct (wr s) as [w|] eqn:Ew.
      * (* try_read on a busy cell: skip *)
        destruct mode; [discriminate Hs|]. inversion Hs; subst s'; clear Hs. destruct (Hw w eq_refl) as [Hnil [k [r0 Hk]]]. lsplit.
        -- exact Hnd.
        -- intros u H. inversion H; subst u. split; [exact Hnil|]. upd_cases w t; [congruence|]. exists k, r0; exact Hk.
        -- intros u Hin. rewrite Hnil in Hin. destruct Hin.
        -- intros u H. upd_cases u t; [destruct H as [[r1 H]|[r1 H]]; discriminate H|]. apply Hrl; exact H.
        -- intros u k1 r1 H. upd_cases u t; [discriminate H|]. eapply Hm; exact H.
      * (* acquire read *)
        inversion Hs; subst s'; clear Hs.
        assert (Hnt : ~ In t (rd s)).
        { intro Hin. destruct (Hr t Hin) as [[n0 [r0 H]]|[r0 H]]; rewrite E in H; discriminate H. }
        lsplit.
        -- constructor; assumption.
        -- intros u H. discriminate H.
        -- intros u [->|Hin]; [rewrite upd_same; left; exists n, r; reflexivity|].
           upd_cases u t; [contradiction|]. apply Hr; exact Hin.
        -- intros u H. upd_cases u t; [left; reflexivity|]. right. apply Hrl; exact H.
        -- intros u k r0 H. upd_cases u t; [discriminate H|]. exfalso. pose proof (Hm u k r0 H) as HH. discriminate HH.
    + (* deliver *)
      destruct todo as [|n r]; [discriminate Hs|]. inversion Hs; subst s'; clear Hs. lsplit.
      * exact Hnd.
      * intros u H. destruct (Hw u H) as [Hnil [k [r0 Hk]]]. split; [exact Hnil|]. upd_cases u t; [congruence|]. exists k, r0; exact Hk.
      * intros u Hin. upd_cases u t; [right; exists r; reflexivity|]. apply Hr; exact Hin.
      * intros u H. upd_cases u t; [apply Hrl; left; exists (n :: r); exact E|]. apply Hrl; exact H.
      * intros u k r0 H. upd_cases u t; [discriminate H|]. eapply Hm; exact H.
    + (* release read *)
      inversion Hs; subst s'; clear Hs. destruct (remove1_nodup t (rd s) Hnd) as [Hnd' Hnt]. lsplit.
      * exact Hnd'.
      * intros u H. destruct (Hw u H) as [Hnil [k [r0 Hk]]]. split; [rewrite Hnil; reflexivity|]. upd_cases u t; [congruence|]. exists k, r0; exact Hk.
      * intros u Hin. upd_cases u t; [contradiction|]. apply Hr. eapply remove1_in; exact Hin.
      * intros u H. upd_cases u t; [destruct H as [[r0 H]|[r0 H]]; discriminate H|]. apply remove1_other; [assumption|apply Hrl; exact H].
      * intros u k r0 H. upd_cases u t; [discriminate H|]. eapply Hm; exact H.
  - destruct pc as [|k].
    + (* acquire write *)
      destruct todo as [|w r]; [discriminate Hs|]. destruct (wr s) eqn:Ew; [discriminate Hs|]. destruct (rd s) eqn:Erd; [|discriminate Hs].
      inversion Hs; subst s'; clear Hs. lsplit.
      * constructor.
      * intros u H. inversion H; subst u. split; [reflexivity|]. rewrite upd_same. exists w, r; reflexivity.
      * intros u [].
      * intros u H. upd_cases u t; [destruct H as [[r0 H]|[r0 H]]; discriminate H|]. apply Hrl in H. exact H.
      * intros u k r0 H. upd_cases u t; [reflexivity|]. exfalso. pose proof (Hm u k r0 H) as HH. discriminate HH.
    + assert (Hwt : wr s = Some t) by (eapply Hm; exact E). destruct (Hw t Hwt) as [Hnil _].
      destruct k; inversion Hs; subst s'; clear Hs.
      * (* release write *)
        lsplit.
        -- exact Hnd.
        -- intros u H. discriminate H.
        -- intros u Hin. rewrite Hnil in Hin. destruct Hin.
        -- intros u H. upd_cases u t; [destruct H as [[r0 H]|[r0 H]]; discriminate H|]. apply Hrl; exact H.
        -- intros u k0 r0 H. upd_cases u t; [discriminate H|]. exfalso. rewrite (Hm u k0 r0 H) in Hwt. inversion Hwt; congruence.
      * (* a step of the closure *)
        lsplit.
        -- exact Hnd.
        -- intros u H. rewrite Hwt in H. inversion H; subst u. split; [exact Hnil|]. rewrite upd_same. eexists _, _; reflexivity.
        -- intros u Hin. rewrite Hnil in Hin. destruct Hin.
        -- intros u H. upd_cases u t; [destruct H as [[r0 H]|[r0 H]]; discriminate H|]. apply Hrl; exact H.
        -- intros u k0 r0 H. upd_cases u t; [exact Hwt|]. eapply Hm; exact H.
Qed.

Theorem mutual_exclusion : forall mode progs sched, (forall u, fresh (progs u) = true) ->
  let s := run (cstep mode) (cinit progs) sched in
  forall w, wr s = Some w -> rd s = [] /\ forall u pc r, threads s u = TN pc r -> pc = NIdle.
Proof.
  intros mode progs sched Hf s w Hw.
  assert (HL : LockInv s) by (apply (inv_run cstate (cstep mode) LockInv); [apply LockInv_step|apply LockInv_init; exact Hf]).
  destruct HL as [_ [H1 [_ [H3 _]]]]. destruct (H1 w Hw) as [Hnil _]. split; [exact Hnil|].
  intros u pc r Hu. destruct pc; [reflexivity| |]; exfalso.
  - assert (Hin : In u (rd s)) by (apply H3; left; exists r; exact Hu). rewrite Hnil in Hin. destruct Hin.
  - assert (Hin : In u (rd s)) by (apply H3; right; exists r; exact Hu). rewrite Hnil in Hin. destruct Hin.
Qed.

(** Blocking never wedges the system: a thread that is not finished either can move, or waits for one that can. *)
Theorem blocking_progress : forall progs sched, (forall u, fresh (progs u) = true) ->
  let s := run (cstep Blocking) (cinit progs) sched in
  forall t, finished (threads s t) = false -> exists u, cstep Blocking s u <> None.
Proof.
  intros progs sched Hf s t Hnf.
  assert (HL : LockInv s) by (apply (inv_run cstate (cstep Blocking) LockInv); [apply LockInv_step|apply LockInv_init; exact Hf]).
  destruct HL as [_ [Hw [Hr [Hrl Hm]]]].
  assert (Hholder : forall w, wr s = Some w -> cstep Blocking s w <> None).
  { intros w Ew. destruct (Hw w Ew) as [_ [k [r Hk]]]. unfold cstep. rewrite Hk. destruct k; discriminate. }
  assert (Hreader : forall u, In u (rd s) -> cstep Blocking s u <> None).
  { intros u Hin. unfold cstep. destruct (Hr u Hin) as [[n [r H]]|[r H]]; rewrite H; discriminate. }
  destruct (threads s t) as [pc todo|pc todo] eqn:E.
  - destruct pc.
    + destruct todo as [|n r]; [discriminate Hnf|]. destruct (wr s) as [w|] eqn:Ew.
      * exists w. apply Hholder; reflexivity.
      * exists t. unfold cstep. rewrite E, Ew. discriminate.
    + exists t. apply Hreader. apply Hrl. left; exists todo; exact E.
    + exists t. unfold cstep. rewrite E. discriminate.
  - destruct pc as [|k].
    + destruct todo as [|w0 r]; [discriminate Hnf|]. destruct (wr s) as [w|] eqn:Ew.
      * exists w. apply Hholder; reflexivity.
      * destruct (rd s) as [|u rest] eqn:Erd.
        -- exists t. unfold cstep. rewrite E, Ew, Erd. discriminate.
        -- exists u. apply Hreader. left; reflexivity.
    + exists t. unfold cstep. rewrite E. destruct k; discriminate.
Qed.

(** ** `try_read` is not transparent: thread 1 is inside `modify` when thread 0 makes its callback *)
Definition try_progs : tid -> tstate := fun t => match t with O => TN NIdle [7%N] | 1%nat => TM MIdle [2%nat] | _ => TN NIdle [] end.
Lemma try_skips :
  let s := run (cstep Try) (cinit try_progs) [1; 0; 1; 1; 1]%nat in
  finished (threads s 0%nat) = true /\ finished (threads s 1%nat) = true /\ outs 0%nat (clog s) = [(7%N, false)].
Proof. vm_compute. repeat split. Qed.
(** the same schedule with the blocking acquisition: thread 0 waits (its entry is a stutter) and delivers afterwards *)
Lemma blocking_waits :
  let s := run (cstep Blocking) (cinit try_progs) [1; 0; 1; 1; 1; 0; 0; 0]%nat in
  clog (run (cstep Blocking) (cinit try_progs) [1; 0; 1; 1; 1]%nat) = [] /\
  finished (threads s 0%nat) = true /\ outs 0%nat (clog s) = [(7%N, true)].
Proof. vm_compute. repeat split. Qed.

(** ** The repository under check *)
Lemma gen_mode_blocking : gen_mode = Blocking.
Proof. vm_compute. reflexivity. Qed.

Theorem reload_transparent_under_concurrent_modify : forall progs sched u,
  let s := run (cstep gen_mode) (cinit progs) sched in
  outs u (clog s) ++ all_delivered (pending (threads s u)) = all_delivered (pending (progs u)) /\
  (finished (threads s u) = true -> outs u (clog s) = all_delivered (pending (progs u))) /\
  (forall e, In e (clog s) -> snd e = true).
Proof.
  rewrite gen_mode_blocking. intros progs sched u. cbv zeta. split; [apply blocking_exactly_once|split].
  - apply blocking_finished.
  - apply blocking_no_skip.
Qed.
